/-
C53  Pooled buffers are released exactly once and never leak old data.
Property theorems only; proofs and helper lemmas are in GrpcProofs/Lemmas/MemBuffer.lean and MemPool.lean.

Vocabulary (GrpcModel/Model/MemBuffer.lean): `St.objs` = heap of `*buffer` structs (`refs` as in Go;
ghost `own` = references handed out to the client/Readers and not yet freed, ghost `kids` = live views,
ghost `puts` = how often `pool.Put(origData)` ran for a root); `Step` = one exported operation
(NewBuffer/Copy/Ref/Free/Slice/split/read/MaterializeToBuffer/Reader/Read/ReadByte/Discard/Close/ReadAll)
on arbitrary arguments or pure bookkeeping; `Reach` = any history from the empty heap. An operation
that frees a reference nobody was handed (`own = 0`) or that panics in Go is not a `Step`.
(GrpcModel/Model/MemPool.lean): `getOutcomes p n` = every result `Get(n)` may have (sync.Pool may
return any stored buffer or none), `put`, `PoolOK`.

NOT proved (tied only, by the byte comparison of every read on every run): that Reader.Read/ReadByte/
Peek/Discard return exactly the referenced bytes.
-/
import GrpcProofs.Lemmas.MemBuffer
import GrpcProofs.Lemmas.MemPool
namespace GrpcProofs.C53
open GrpcModel.MemBuffer
open GrpcProofs.Lemmas.MemBuffer

/-- `k` is a live view (slice/split) of root `r` -/
def LiveView (st : St) (r k : Nat) : Prop :=
  k ≠ r ∧ ∃ ko : Obj, st.objs[k]? = some ko ∧ ko.root = r ∧ 0 < ko.refs

/-- A buffer's counter = references handed out and not yet freed + its live views (slices, splits),
    and `kids` is exactly the set of live views, without repetition. -/
theorem root_refs_eq_live_handles (st : St) (hr : Reach st) (r : Nat) (ro : Obj)
    (h : st.objs[r]? = some ro) :
    ro.refs = ro.own + ro.kids.length ∧ ro.kids.Nodup ∧ (ro.root = r → ∀ k, k ∈ ro.kids ↔ LiveView st r k) := by
  have inv := inv_reach hr
  obtain ⟨_, a2, _, _⟩ := inv.1 r ro h
  obtain ⟨d1, d2⟩ := inv.2 r ro h
  refine ⟨a2, d1, fun hroot k => ⟨fun hk => d2 k hk, fun ⟨hne, ko, hko, hkr, hpos⟩ => ?_⟩⟩
  obtain ⟨_, _, _, b4⟩ := inv.1 k ko hko
  obtain ⟨_, _, r', hr', _, hmem⟩ := b4 (by rw [hkr]; exact fun hh => hne hh.symm)
  rw [hkr, h] at hr'; cases hr'
  exact hmem hpos

/-- The pool got a root's memory back exactly once if the root is dead and not at all while it lives;
    and it is dead exactly when no reference to it is outstanding and no view of it is live. -/
theorem put_exactly_once_after_last_free (st : St) (hr : Reach st) (r : Nat) (ro : Obj)
    (h : st.objs[r]? = some ro) (hroot : ro.root = r) :
    ro.puts = (if ro.refs = 0 then 1 else 0) ∧
    (ro.refs = 0 ↔ (ro.own = 0 ∧ ∀ k, ¬ LiveView st r k)) := by
  have inv := inv_reach hr
  obtain ⟨_, a2, a3, _⟩ := inv.1 r ro h
  obtain ⟨_, _, hiff⟩ := root_refs_eq_live_handles st hr r ro h
  refine ⟨a3 hroot, ⟨fun h0 => ?_, fun ⟨hown, hnone⟩ => ?_⟩⟩
  · have hk : ro.kids = [] := by
      cases hk : ro.kids with
      | nil => rfl
      | cons x t => rw [hk] at a2; simp at a2; omega
    refine ⟨by omega, fun k hk' => ?_⟩
    have := (hiff hroot k).2 hk'
    rw [hk] at this; cases this
  · have hk : ro.kids = [] := by
      cases hk : ro.kids with
      | nil => rfl
      | cons x t => exact absurd ((hiff hroot x).1 (by rw [hk]; simp)) (hnone x)
    rw [a2, hown, hk]; rfl

/-- While ANY reference (to the root, a Ref copy, a slice, a split, a reader holding, a materialized
    buffer) is outstanding, the buffer and its root are live and the memory has not been returned. -/
theorem no_put_while_referenced (st : St) (hr : Reach st) (i : Nat) (o : Obj)
    (h : st.objs[i]? = some o) (hown : 0 < o.own) :
    0 < o.refs ∧ ∃ ro : Obj, st.objs[o.root]? = some ro ∧ ro.root = o.root ∧ 0 < ro.refs ∧ ro.puts = 0 := by
  have inv := inv_reach hr
  obtain ⟨_, a2, a3, a4⟩ := inv.1 i o h
  have hlive : 0 < o.refs := by omega
  refine ⟨hlive, ?_⟩
  by_cases hroot : o.root = i
  · refine ⟨o, by rw [hroot]; exact h, rfl, hlive, ?_⟩
    have := a3 hroot
    have h0 : ¬ o.refs = 0 := by omega
    simpa [h0] using this
  · obtain ⟨_, _, r, hR, rroot, rmem⟩ := a4 hroot
    have hin := rmem hlive
    obtain ⟨_, ra2, ra3, _⟩ := inv.1 o.root r hR
    have hpos : 0 < r.kids.length := List.length_pos_of_mem hin
    have hrl : 0 < r.refs := by omega
    refine ⟨r, hR, rroot, hrl, ?_⟩
    have := ra3 rroot
    have h0 : ¬ r.refs = 0 := by omega
    simpa [h0] using this

/-- …and once every reference has been freed, every root's memory has been returned exactly once. -/
theorem all_freed_all_returned (st : St) (hr : Reach st)
    (hall : ∀ (i : Nat) (o : Obj), st.objs[i]? = some o → o.own = 0) (r : Nat) (ro : Obj)
    (h : st.objs[r]? = some ro) (hroot : ro.root = r) : ro.refs = 0 ∧ ro.puts = 1 := by
  have inv := inv_reach hr
  obtain ⟨hp, hiff⟩ := put_exactly_once_after_last_free st hr r ro h hroot
  have h0 : ro.refs = 0 := by
    apply hiff.2
    refine ⟨hall r ro h, fun k ⟨hne, ko, hko, hkr, hpos⟩ => ?_⟩
    obtain ⟨_, b2, _, b4⟩ := inv.1 k ko hko
    obtain ⟨kk, _, _⟩ := b4 (by rw [hkr]; exact fun hh => hne hh.symm)
    have := hall k ko hko
    rw [kk, this] at b2; simp at b2; omega
  exact ⟨h0, by rw [hp, h0]; rfl⟩

/-- No operation ever changes the bytes of an existing memory … -/
theorem mem_bytes_never_change (st st' : St) (hs : Step st st') (m : Nat) (x : Mem)
    (h : st.mems[m]? = some x) : ∃ x' : Mem, st'.mems[m]? = some x' ∧ x'.bytes = x.bytes :=
  keep_step hs m x h

/-- … and a live reference reads its window of the root's memory, which has not been returned to the
    pool: it reads the original bytes. -/
theorem live_handle_reads_original_bytes (st : St) (hr : Reach st) (i : Nat) (o : Obj)
    (h : st.objs[i]? = some o) (hown : 0 < o.own) :
    ∃ ro : Obj, st.objs[o.root]? = some ro ∧ ro.puts = 0 ∧
      dataOf st (.buf i) = some (((memBytes st ro.mem).drop o.off).take o.len) := by
  obtain ⟨hlive, ro, h1, _, _, h4⟩ := no_put_while_referenced st hr i o h hown
  refine ⟨ro, h1, h4, ?_⟩
  have h0 : ¬ o.refs = 0 := by omega
  simp [dataOf, h, h0, objArr, h1]

/-! ### the pools -/
open GrpcModel.MemPool in
/-- Get(n) returns length n with capacity at least n — for every choice sync.Pool can make. -/
theorem get_len_cap (p : Pool) (hp : GrpcProofs.Lemmas.MemPool.PoolOK p) (n : Nat) (g : Got) (p' : Pool)
    (h : (g, p') ∈ getOutcomes p n) : g.len = n ∧ n ≤ g.buf.cap :=
  GrpcProofs.Lemmas.MemPool.get_len_cap hp h

open GrpcModel.MemPool in
/-- Buffers handed out by a zeroing (sub-)pool contain only zeros; fresh buffers always do. -/
theorem zeroing_pool_returns_zeros (p : Pool) (n : Nat) (g : Got) (p' : Pool)
    (h : (g, p') ∈ getOutcomes p n) :
    (g.reused = false → g.buf.zero = true) ∧
    (∀ s, getSub p (refForGet p n) = some s → s.zeroing = true → g.buf.zero = true) :=
  GrpcProofs.Lemmas.MemPool.get_zero h

open GrpcModel.MemPool in
/-- A reused buffer comes out of the bag of the sub-pool chosen for the size and one copy of it leaves
    the bag (so it is not handed out again before it is Put again); a fresh buffer is new. -/
theorem pool_never_hands_out_twice (p : Pool) (n : Nat) (g : Got) (p' : Pool)
    (h : (g, p') ∈ getOutcomes p n) :
    (g.reused = false → g.buf.id = p.nextId ∧ p'.nextId = p.nextId + 1) ∧
    (g.reused = true → ∃ s b, getSub p (refForGet p n) = some s ∧ b ∈ s.store ∧ b.id = g.buf.id ∧
        p' = setSub p (refForGet p n) { s with store := s.store.erase b }) :=
  GrpcProofs.Lemmas.MemPool.get_takes_from_store h

open GrpcModel.MemPool in
/-- The pool invariant used above holds initially and is kept by Get and Put (of ANY buffer). -/
theorem pool_invariant :
    (∀ exps z, GrpcProofs.Lemmas.MemPool.PoolOK (newBinary exps z)) ∧ (∀ sizes, GrpcProofs.Lemmas.MemPool.PoolOK (newTiered sizes)) ∧
    (∀ z, GrpcProofs.Lemmas.MemPool.PoolOK (newSimple z)) ∧ GrpcProofs.Lemmas.MemPool.PoolOK newNop ∧
    (∀ p b, GrpcProofs.Lemmas.MemPool.PoolOK p → GrpcProofs.Lemmas.MemPool.PoolOK (put p b)) ∧
    (∀ p n g p', GrpcProofs.Lemmas.MemPool.PoolOK p → (g, p') ∈ getOutcomes p n → GrpcProofs.Lemmas.MemPool.PoolOK p') :=
  ⟨GrpcProofs.Lemmas.MemPool.poolOK_newBinary, GrpcProofs.Lemmas.MemPool.poolOK_newTiered, GrpcProofs.Lemmas.MemPool.poolOK_newSimple, GrpcProofs.Lemmas.MemPool.poolOK_newNop,
   fun _ b hp => GrpcProofs.Lemmas.MemPool.poolOK_put hp b, fun _ _ _ _ hp h => GrpcProofs.Lemmas.MemPool.poolOK_get hp h⟩

-- non-vacuity: a pooled root, a split view, frees in both orders
def ex0 : St := (newBuffer (poolGet { thresh := 4 } 10 (pat 0 10)).1 0 10).1
example : ex0.objs.length = 1 := by decide
example : Reach ex0 :=
  Reach.step (Reach.step Reach.init (Step.frame (st' := { thresh := 4 }) rfl rfl)) (Step.newbuf _ 10 (pat 0 10) 10)
example : ((splitVal ex0 (.buf 0) 4).map fun r => (r.1.objs.map (·.refs), r.2.1, r.2.2)) = some ([2, 1], .buf 0, .buf 1) := by decide
example : (((splitVal ex0 (.buf 0) 4).bind fun r => release r.1 0).map (·.2)) = some [] := by decide
example : (((splitVal ex0 (.buf 0) 4).bind fun r => (release r.1 0).bind fun q => release q.1 1).map (·.2)) = some [.put 0] := by decide
example : (((splitVal ex0 (.buf 0) 4).bind fun r => (release r.1 0).bind fun q => release q.1 0)) = none := by decide
example : (GrpcModel.MemPool.getOutcomes (GrpcModel.MemPool.put (GrpcModel.MemPool.newBinary [4, 6] true) ⟨7, 16, false⟩) 9).length = 2 := by decide

end GrpcProofs.C53
