/-
C05  Received stream bytes are delivered in order, once, then the end/error.

Property theorems only; helper lemmas are in GrpcProofs/Lemmas/RecvBuffer.lean.  The model is
GrpcModel/Model/RecvBuffer.lean: `step` ports recvBuffer.put / compactBacklogLocked / load and
recvBufferReader.Read / ReadMessageHeader (whole, or split at the channel receive into
`rbegin` ; `fin`/`finh`), `run` folds it over an op list, `Spec` is the FIFO byte queue closed by
the first error and `Spec.check` (the run-time monitor) says which answers C05 allows.

Every theorem quantifies over ALL op lists: any interleaving of producer puts (data of any size,
error anywhere), bare loads, and reader calls of any size, with compaction on (`c = true`) or off.

History.  Before /repo commit 6c0457f `recvBuffer.put` called `r.buffer.Free()` on the nil buffer of
an ERROR message put after the buffer already held an error and panicked (finding F19, reachable from
the wire: a second END_STREAM after the handler returned crashed the server).  The model then carried
a `panic` answer, the trace theorems a `NoPanic` hypothesis, and `second_error_put_counterexample`
documented the defect.  With the fix the model never panics (`model_never_panics`) and every theorem
below is unconditional.
-/
import GrpcProofs.Lemmas.RecvBuffer
namespace GrpcProofs.C05
open GrpcModel.RecvBuffer GrpcProofs.Lemmas.RecvBuffer

/-- The ported code never answers `panic` (that answer only ever describes the implementation). -/
theorem model_never_panics (s : State) (op : Op) : (step s op).2 ≠ .panic :=
  step_noPanic s op

/-- **Suffix ledger** (every history): `uncompactedSuffixLen ≤ len(backlog)`, the
    last `uncompactedSuffixLen` backlog entries are data messages (so `m.buffer.Len()` in `load` and
    `ReadOnlyData()` in the compaction loop never touch a nil buffer), and `uncompactedBytes` is
    exactly the sum of their payload sizes — in particular ≥ 0 (so `pool.Get(uncompactedBytes)`
    does not panic, the `copy`s never truncate and fill the new buffer completely, and the index
    `len(backlog) - uncompactedSuffixLen` is ≥ 0).  With compaction disabled the ledger stays 0/0. -/
theorem ledger (c : Bool) (ops : List Op) :
    let b := (run (init c) ops).1.rb
    b.sufLen ≤ b.backlog.length
    ∧ (∀ m ∈ b.backlog.drop (b.backlog.length - b.sufLen), m.isData = true)
    ∧ b.sufBytes = ((bytesOf (b.backlog.drop (b.backlog.length - b.sufLen))).length : Int)
    ∧ (c = false → b.sufLen = 0 ∧ b.sufBytes = 0) := by
  intro b
  have hg := good_run (init c) ops (good_init c)
  obtain ⟨pre, suf, h1, h2, h3, h4, h5⟩ := hg.1.ledger
  have hdrop : b.backlog.drop (b.backlog.length - b.sufLen) = suf := by
    show (run (init c) ops).1.rb.backlog.drop _ = suf
    rw [h1, ← h2]; simp
  have hcomp : b.compaction = c := by
    show (run (init c) ops).1.rb.compaction = c
    exact comp_run (init c) ops
  refine ⟨?_, ?_, ?_, ?_⟩
  · show (run (init c) ops).1.rb.sufLen ≤ (run (init c) ops).1.rb.backlog.length
    rw [h1, ← h2]; simp
  · rw [hdrop]; exact h3
  · rw [hdrop]; exact h4
  · intro hc
    have h0 : b.sufLen = 0 := h5 (by rw [hcomp, hc])
    refine ⟨h0, ?_⟩
    have : suf = [] := by
      cases suf with
      | nil => rfl
      | cons a t => rw [← h2] at h0; simp at h0
    show (run (init c) ops).1.rb.sufBytes = 0
    rw [h4, this]; rfl

/-- **The run-time monitor never rejects the model**: on every history the answers of
    the ported code are accepted, op by op, by the FIFO specification automaton `Spec.check` — the
    same function the driver evaluates on the IMPLEMENTATION's answers. -/
theorem monitor_accepts_model (c : Bool) (ops : List Op) :
    ∃ sp, ({} : Spec).checkAll ops (run (init c) ops).2 = .ok sp := by
  obtain ⟨sp, h1, _⟩ := run_summary c ops
  exact ⟨sp, h1⟩

/-- **FIFO byte-queue refinement**: at any point of any history, the bytes handed to the
    application followed by the bytes still buffered (reader's `last`, a held message, the channel
    slot, the backlog — up to the first error message) are exactly the DATA payloads accepted
    before the first error, in order: nothing lost, duplicated, reordered or invented, whether or
    not compaction merged frames. -/
theorem fifo_refinement (c : Bool) (ops : List Op) :
    delivered (run (init c) ops).2 ++ pending (run (init c) ops).1 = accepted ops := by
  obtain ⟨sp, _, _, _, _, h5, _, h7⟩ := run_summary c ops
  rw [← h7]; exact h5

/-- what the application has read is always a prefix of what was received -/
theorem delivered_is_prefix (c : Bool) (ops : List Op) :
    delivered (run (init c) ops).2 <+: accepted ops :=
  ⟨_, fifo_refinement c ops⟩

/-- **Error/end-of-stream only after all prior data**: if, after the history `pre`, a reader call
    answers `err e`, then everything accepted before has already been delivered and `e` is the first
    error that was put. -/
theorem error_after_all_prior_data (c : Bool) (pre : List Op) (op : Op) (e : Nat)
    (he : (step (run (init c) pre).1 op).2 = .err e) :
    delivered (run (init c) pre).2 = accepted pre ∧ firstErr pre = some e := by
  obtain ⟨sp, _, h2, h3, h4, h5, h6, _⟩ := run_summary c pre
  obtain ⟨sp', hc, _, _⟩ := sim_step _ sp op h3 h2
  rw [he] at hc
  obtain ⟨hq, hp⟩ := check_err sp sp' op e h4 hc
  rw [hq] at h5
  exact ⟨by simpa using h5, by rw [← h6, hp]⟩

/-- **Nothing after the error** (any state, any continuation): once a call has answered `err e`,
    every later `Read`/`ReadMessageHeader` answers the same `err e`, and no byte is delivered. -/
theorem nothing_after_error (s : State) (op : Op) (e : Nat) (post : List Op)
    (he : (step s op).2 = .err e) :
    (∀ p ∈ List.zip post (run (step s op).1 post).2, afterErr e p.1 p.2)
    ∧ delivered (run (step s op).1 post).2 = [] :=
  sticky_run e _ post (err_sticky s op e he)

/-- **Everything put after the error/end-of-stream is dropped**, data and errors alike: the call
    returns normally and the whole state is unchanged (so the first error stays the one reported).
    (Before commit 6c0457f only the data half held — `put_after_error_dropped_partial` — and
    `second_error_put_counterexample` proved that a second error put panicked.) -/
theorem put_after_error_dropped (s : State) (h : s.rb.err.isSome = true) :
    (∀ b, step s (.putD b) = (s, .ok)) ∧ (∀ e, step s (.putE e) = (s, .ok)) := by
  constructor
  · intro b; simp only [step, put_closed _ _ h]
  · intro e; simp only [step, put_closed _ _ h]

/-- **A blocked reader has nothing to read**: a call can only block when everything accepted has
    been delivered and no error/end-of-stream was put — a reading application is never left
    waiting while data or the end of the stream sits in the buffer. -/
theorem blocks_only_when_drained (c : Bool) (pre : List Op) (op : Op)
    (hb : (step (run (init c) pre).1 op).2 = .blocked) :
    delivered (run (init c) pre).2 = accepted pre ∧ firstErr pre = none := by
  obtain ⟨sp, _, h2, h3, h4, h5, h6, _⟩ := run_summary c pre
  obtain ⟨sp', hc, _, _⟩ := sim_step _ sp op h3 h2
  rw [hb] at hc
  obtain ⟨hq, hp⟩ := check_blocked sp sp' op hc
  rw [hq] at h5
  exact ⟨by simpa using h5, by rw [← h6, hp]⟩

/-- **Compaction is invisible**: with an exact ledger, `compactBacklogLocked` leaves the byte
    content of the backlog unchanged (the pooled buffer is exactly filled, no truncation). -/
theorem compaction_preserves_bytes (b : RB) (bl : List Msg) (d : Bytes)
    (h : Ledger { b with backlog := bl }) :
    bytesOf (compactBacklog { b with backlog := bl ++ [.data d] } (.data d)).backlog
      = bytesOf (bl ++ [.data d]) := by
  obtain ⟨_, ⟨pre, suf, hs, hd, _, hb⟩, _⟩ := compact_spec b bl d h _ rfl
  rcases hb with hb | hb
  · rw [hb, hs]
  · rw [hb, hs]; simp [bytesOf_append, bytesOf_cons, bytesOf_nil, Msg.bytes]

-- non-vacuity: concrete runs (both settings), an error after data, the receive/load window
example : (run (init true) [.putD [1, 2, 3], .putD [4], .putE 1, .putD [9], .read 2, .read 5, .hdr 5, .read 1, .read 1]).2
    = [.ok, .ok, .ok, .ok, .bytes [1, 2], .bytes [3], .bytes [4], .err 1, .err 1] := by decide
example : (run (init false) [.putD [1], .rbegin, .putD [2], .putD [3], .fin 5, .read 5, .read 5, .read 5]).2
    = [.ok, .took, .ok, .ok, .bytes [1], .bytes [2], .bytes [3], .blocked] := by decide
example : (run (init true) [.putE 1, .putE 2, .putD [7], .read 1, .read 1]).2 = [.ok, .ok, .ok, .err 1, .err 1] := by decide

end GrpcProofs.C05
