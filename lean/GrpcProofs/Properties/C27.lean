/-
C27  Compression is negotiated and applied consistently.
Property theorems only; helper lemmas are in GrpcProofs/Lemmas/Compression.lean.

Vocabulary (GrpcModel/Model/Compression.lean): `reg` = names registered with
encoding.RegisterCompressor; `Client` = UseCompressor / WithCompressor / WithDecompressor /
AcceptCompressors; `Server` = RPCCompressor / RPCDecompressor; `clientOpen`, `serverOpen` = stream
set-up (headers); `prepareMsg` = flag + wire bytes of one message; `recvMsg` = checkRecvPayload +
decompress; `applySetSend` = the handler's optional grpc.SetSendCompressor call;
`nonIdentity n` = n is neither "" nor "identity". `k : Codec` = the compressors (any functions).
-/
import GrpcProofs.Lemmas.Compression
namespace GrpcProofs.C27
open GrpcModel.Compression GrpcModel.Generated GrpcProofs.Lemmas.Compression

/-- T4: the wire values of the compressed flag. -/
theorem payload_format_constants : compressionNone = 0 ∧ compressionMade = 1 := ⟨rfl, rfl⟩

/-! ### clause 1: flag ⇔ encoding -/

/-- Client, unconditional direction: on a stream whose grpc-encoding names a compressor every
    non-empty message is sent compressed (flag 1). -/
theorem encoding_implies_flag_client (k : Codec) (reg : List String) (c : Client) (cs : ClientStream)
    (h : clientOpen reg c = .ok cs) (n : String) (he : cs.hdr.enc = some n) (hn : nonIdentity n = true)
    (d : Bytes) (hd : d ≠ []) : (cs.send k d).flag = 1 := by
  unfold ClientStream.send
  rw [prepareMsg_flag]
  have hd' : (d != []) = true := by simpa using hd
  cases clientOpen_cases reg c cs h with
  | registered m _ _ _ _ _ hcomp => simp [hcomp, hd']
  | identity _ he' _ _ => rw [he'] at he; cases he; exact absurd hn (by decide)
  | legacy t _ _ he' hcp _ => simp [hcp, hd']
  | plain _ _ he' _ _ => rw [he'] at he; cases he

/-- Client, full "if and only if" for NON-EMPTY messages.
    FULL STATEMENT (C27): flag set ⇔ grpc-encoding is a non-identity compressor, for every message.
    `_partial` because (a) empty messages are excluded (see `empty_message_flag_clear` and the
    counterexample below: reading F12) and (b) the legacy WithCompressor object must report a real
    name (`Type()` neither "" nor "identity"; a compressor calling itself "identity" is outside the domain). -/
theorem flag_iff_encoding_client_partial (k : Codec) (reg : List String) (c : Client) (cs : ClientStream)
    (h : clientOpen reg c = .ok cs) (hleg : ∀ t, c.legacyComp = some t → nonIdentity t = true)
    (d : Bytes) (hd : d ≠ []) :
    (cs.send k d).flag = 1 ↔ ∃ n, cs.hdr.enc = some n ∧ nonIdentity n = true := by
  constructor
  · intro hf
    unfold ClientStream.send at hf
    rw [prepareMsg_flag] at hf
    cases clientOpen_cases reg c cs h with
    | registered m hm _ _ he _ _ => exact ⟨m, he, hm⟩
    | identity _ _ hcp hcomp => simp [hcp, hcomp] at hf
    | legacy t _ hl he _ _ =>
      have ht := hleg t hl
      have : t ≠ "" := ((nonIdentity_iff t).1 ht).1
      exact ⟨t, by simp [he, this], ht⟩
    | plain _ _ _ hcp hcomp => simp [hcp, hcomp] at hf
  · rintro ⟨n, he, hn⟩
    exact encoding_implies_flag_client k reg c cs h n he hn d hd

/-- Server, "if and only if" for NON-EMPTY messages, for every response of the stream (all frames
    `sendAll` produces), whatever the handler does with SetSendCompressor — including
    SetSendCompressor("identity") on a server with the legacy RPCCompressor (that combination was
    defect F34 until /repo 25f0536: the legacy compressor kept being applied under
    grpc-encoding: identity; SendMsg now drops it when the handler chose an encoding).
    Still `_partial` because of empty messages (reading F12), the legacy name domain (as for the
    client) and the assumption that nobody registered a compressor under the names "identity"/"". -/
theorem flag_iff_encoding_server_partial (k : Codec) (reg : List String) (s : Server) (h : ReqHdr)
    (ss : SrvStream) (o : Option String) (ho : serverOpen reg s h = .ok ss)
    (hreg : identity ∉ reg ∧ "" ∉ reg)
    (hleg : ∀ t, s.legacyComp = some t → nonIdentity t = true) (ds : List Bytes) :
    ∃ g : Bytes → Frame, (sendAll k reg (applySetSend reg ss o) ds).2 = ds.map g ∧
      ∀ d, d ≠ [] → ((g d).flag = 1 ↔ ∃ n, (applySetSend reg ss o).respEnc = some n ∧ nonIdentity n = true) := by
  obtain ⟨hs, hsame, _, hI⟩ := serverOpen_consistent reg s h ss ho hleg
  have hC := setSend_consistent reg ss o hs hsame hI hreg
  refine ⟨_, sendAll_frames k reg _ ds, ?_⟩
  intro d hd
  have hd' : (d != []) = true := by simpa using hd
  rw [prepareMsg_flag]
  obtain ⟨h1, _⟩ := hC
  have huse : ((effV1 reg (applySetSend reg ss o)).isSome || (effV0 (applySetSend reg ss o)).isSome)
      = (usedComp (effV0 (applySetSend reg ss o)) (effV1 reg (applySetSend reg ss o))).isSome := by
    cases (effV1 reg (applySetSend reg ss o)) <;> cases (effV0 (applySetSend reg ss o)) <;> simp [usedComp]
  rw [huse, h1, hd']
  unfold SrvStream.respEnc
  cases hn : nonIdentity (applySetSend reg ss o).sendCompress with
  | false =>
    simp only [Bool.and_true, Bool.false_eq_true, if_false, Nat.zero_ne_one, false_iff]
    rintro ⟨n, he, hnn⟩
    by_cases h0 : (applySetSend reg ss o).sendCompress ≠ ""
    · simp [h0] at he; rw [he] at hn; rw [hn] at hnn; cases hnn
    · simp [h0] at he
  | true =>
    have := ((nonIdentity_iff _).1 hn).1
    simp [this, hn]

/-- The exception of the reading F12, as a theorem: an empty message is never flagged, on any stream. -/
theorem empty_message_flag_clear (k : Codec) (cp comp : Option String) : (prepareMsg k cp comp []).flag = 0 := by
  rw [prepareMsg_flag]; simp

/-- …so the literal "if and only if for every message" is false in the unchanged code: an empty message
    on a stream with grpc-encoding c1 has flag 0. -/
theorem flag_iff_encoding_counterexample_empty :
    ¬ (∀ (reg : List String) (c : Client) (cs : ClientStream) (d : Bytes), clientOpen reg c = .ok cs →
        ((cs.send toy d).flag = 1 ↔ ∃ n, cs.hdr.enc = some n ∧ nonIdentity n = true)) := by
  intro hall
  have h := hall ["c1"] ⟨some "c1", none, none, none⟩
    ⟨⟨some "c1", some "c1"⟩, none, some "c1", []⟩ [] (by rfl)
  have : (ClientStream.send toy ⟨⟨some "c1", some "c1"⟩, none, some "c1", []⟩ []).flag = 0 := by decide
  rw [this] at h
  exact absurd (h.2 ⟨"c1", rfl, by decide⟩) (by decide)

-- (`flag_iff_encoding_counterexample_legacy_identity` documented defect F34 — RPCCompressor(c1) +
-- SetSendCompressor("identity") sent flag 1 under grpc-encoding: identity — before /repo 25f0536;
-- the fixed behaviour is the last non-vacuity example below.)

/-! ### clause 2: the server compresses only with what the client advertised or used -/

/-- FULL STATEMENT (C27): for every server. `_partial`: proved for servers WITHOUT the deprecated
    grpc.RPCCompressor option (any registry, any request headers, any SetSendCompressor call): a
    non-identity response encoding was advertised in grpc-accept-encoding or is the request's encoding. -/
theorem server_only_advertised_or_used_partial (reg : List String) (s : Server) (h : ReqHdr) (ss : SrvStream)
    (o : Option String) (ho : serverOpen reg s h = .ok ss) (hl : s.legacyComp = none) (n : String)
    (he : (applySetSend reg ss o).respEnc = some n) (hn : nonIdentity n = true) :
    n ∈ advertisedList (h.acc.getD "") ∨ h.enc = some n :=
  server_advertised_or_used reg s h ss o ho hl n he hn

/-- F18 (known finding; documented behaviour of a deprecated option): with RPCCompressor(lz) the response is
    compressed with lz although the client advertised only c1 and sent uncompressed. -/
theorem server_only_advertised_or_used_counterexample :
    (serverSide toy ["c1"] ⟨some "lz", none⟩ none ⟨none, some "c1"⟩ [⟨0, [1]⟩] [[2]]).respHdr = some (some "lz") ∧
    (serverSide toy ["c1"] ⟨some "lz", none⟩ none ⟨none, some "c1"⟩ [⟨0, [1]⟩] [[2]]).resps = [⟨1, toy.comp "lz" [2]⟩] ∧
    "lz" ∉ advertisedList "c1" := by decide

/-! ### clause 3: unsupported encodings -/

/-- A request whose grpc-encoding names a compressor the server has neither registered nor installed
    as RPCDecompressor is rejected with UNIMPLEMENTED before the handler runs; nothing is delivered. -/
theorem unsupported_is_unimplemented_server (k : Codec) (reg : List String) (s : Server) (o : Option String)
    (h : ReqHdr) (rc : String) (he : h.enc = some rc) (hn : nonIdentity rc = true)
    (hr : rc ∉ reg) (hl : s.legacyDecomp ≠ some rc) (frames : List Frame) (resps : List Bytes) :
    serverOpen reg s h = .error .unimplemented ∧
    serverSide k reg s o h frames resps = ⟨.norun, [], none, none, [], .unimplemented⟩ := by
  have ho : serverOpen reg s h = .error .unimplemented := by
    unfold serverOpen
    simp only [he, Option.getD_some]
    rw [selectDecomp_unsupported reg s.legacyDecomp rc hn (by simpa using hr) hl]
  exact ⟨ho, serverSide_rejected k reg s o h frames resps _ ho⟩

/-- A response in an encoding the client can not decode (not registered, not the WithDecompressor):
    the first message flagged compressed fails the RPC with INTERNAL; only the unflagged messages
    before it were delivered (as they are), the flagged one is not. -/
theorem unsupported_is_internal_client (k : Codec) (reg : List String) (c : Client) (accepted : List String)
    (ct : String) (hn : nonIdentity ct = true) (hr : ct ∉ reg) (hl : c.legacyDecomp ≠ some ct)
    (pre post : List Frame) (hpre : ∀ f ∈ pre, f.flag = 0) (w : Bytes) (st : Code) :
    (clientSide k reg c accepted (some (some ct)) (pre ++ ⟨1, w⟩ :: post) st).1 = .internal ∧
    ((clientSide k reg c accepted (some (some ct)) (pre ++ ⟨1, w⟩ :: post) st).2 = [] ∨
     (clientSide k reg c accepted (some (some ct)) (pre ++ ⟨1, w⟩ :: post) st).2 = pre.map (·.data)) := by
  unfold clientSide
  simp only
  cases hinit : clientRecvInit reg c accepted (some ct) with
  | error e =>
    have : e = .internal := by
      unfold clientRecvInit at hinit
      simp only [Option.getD_some] at hinit
      split at hinit
      · split at hinit
        · simp at hinit; exact hinit.symm
        · cases hinit
      · cases hinit
    subst this; simp
  | ok r =>
    obtain ⟨hct, _, _, hsup⟩ := clientRecvInit_ok reg c accepted (some ct) r hinit
    simp only [Option.getD_some] at hct
    have hnone : r.dcV0 = none ∧ r.dcV1 = none := by
      have := hsup (by rw [hct]; exact hn)
      rw [hct] at this
      simp [hr, hl] at this
      exact this
    have h0 : ∀ f ∈ pre, r.recv k f = .ok f.data := by
      intro f hf
      have := hpre f hf
      obtain ⟨fl, dd⟩ := f
      simp only at this; subst this
      exact recvMsg_flag0 k _ _ _ _ _
    have hbad : r.recv k ⟨1, w⟩ = .error .internal := by
      unfold CliRecv.recv
      rw [hnone.1, hnone.2, hct]
      simpa using recvMsg_no_decompressor k ct false w hn
    have hra : recvAll (r.recv k) (pre ++ ⟨1, w⟩ :: post) = (pre.map (·.data), some .internal) := by
      rw [recvAll_flag0 _ pre h0]; simp [recvAll, hbad]
    simp [hra]

/-- A message flagged compressed on a stream without a (non-identity) grpc-encoding, or carrying a flag
    other than 0/1, is INTERNAL on both sides — never delivered. -/
theorem flagged_identity_is_internal (k : Codec) (rc : String) (dc comp : Option String) (srv : Bool) (w : Bytes) :
    ((rc = "" ∨ rc = identity) → recvMsg k rc dc comp srv ⟨1, w⟩ = .error .internal) ∧
    (∀ fl, 2 ≤ fl → recvMsg k rc dc comp srv ⟨fl, w⟩ = .error .internal) :=
  ⟨recvMsg_flagged_identity k rc dc comp srv w, fun fl h => recvMsg_bad_flag k rc dc comp srv fl w h⟩

/-! ### clause 4: receivers decode with the compressor named by grpc-encoding -/

/-- Whatever a server stream / a client stream hands to the application for a frame is either the
    frame's bytes (flag 0) or their decompression BY THE COMPRESSOR NAMED IN grpc-encoding (flag 1,
    and then grpc-encoding is a non-identity name). Undecoded or wrongly decoded data is never delivered. -/
theorem never_deliver_undecoded (k : Codec) (reg : List String) :
    (∀ (s : Server) (h : ReqHdr) (ss : SrvStream) (f : Frame) (m : Bytes),
      serverOpen reg s h = .ok ss → ss.recv k f = .ok m →
        (f.flag = 0 ∧ m = f.data) ∨
        (f.flag = 1 ∧ nonIdentity (h.enc.getD "") = true ∧ k.decomp (h.enc.getD "") f.data = some m)) ∧
    (∀ (c : Client) (accepted : List String) (e : Option String) (r : CliRecv) (f : Frame) (m : Bytes),
      clientRecvInit reg c accepted e = .ok r → r.recv k f = .ok m →
        (f.flag = 0 ∧ m = f.data) ∨
        (f.flag = 1 ∧ nonIdentity (e.getD "") = true ∧ k.decomp (e.getD "") f.data = some m)) := by
  constructor
  · intro s h ss f m ho hr
    obtain ⟨hrc, hd0, hd1, _⟩ := serverOpen_decomp reg s h ss ho
    rcases recvMsg_ok k _ _ _ _ f m hr with h0 | ⟨h1, hni, n, hsel, hdec⟩
    · exact Or.inl h0
    · right
      rw [← hrc]
      refine ⟨h1, hni, ?_⟩
      rcases hsel with hsel | ⟨_, hsel⟩
      · rw [← hd0 n hsel]; exact hdec
      · rw [← hd1 n hsel]; exact hdec
  · intro c accepted e r f m hi hr
    obtain ⟨hct, hd0, hd1, _⟩ := clientRecvInit_ok reg c accepted e r hi
    rcases recvMsg_ok k _ _ _ _ f m hr with h0 | ⟨h1, hni, n, hsel, hdec⟩
    · exact Or.inl h0
    · right
      rw [← hct]
      refine ⟨h1, hni, ?_⟩
      rcases hsel with hsel | ⟨_, hsel⟩
      · rw [← hd0 n hsel]; exact hdec
      · rw [← hd1 n hsel]; exact hdec

/-- Client → server round trip, for ANY two registries: if the server accepts the stream the client
    opened, every message arrives exactly as sent (assumption on the compressors: decomp ∘ comp = id). -/
theorem roundtrip_client_to_server (k : Codec) (hk : ∀ n d, k.decomp n (k.comp n d) = some d)
    (regC regS : List String) (c : Client) (cs : ClientStream) (s : Server) (ss : SrvStream)
    (hc : clientOpen regC c = .ok cs) (hleg : ∀ t, c.legacyComp = some t → nonIdentity t = true)
    (hs : serverOpen regS s cs.hdr = .ok ss) (d : Bytes) :
    ss.recv k (cs.send k d) = .ok d := by
  obtain ⟨hrc, hd0, hd1, hsome⟩ := serverOpen_decomp regS s cs.hdr ss hs
  unfold SrvStream.recv ClientStream.send
  have plain : ∀ x, prepareMsg k none none x = ⟨0, x⟩ := by intro x; simp [prepareMsg, cNone]
  have compd : ∀ n, cs.hdr.enc = some n → nonIdentity n = true → (cs.comp = some n ∧ cs.cp = none ∨ cs.comp = none ∧ cs.cp = some n) →
      recvMsg k ss.rc ss.decompV0 ss.decompV1 true (prepareMsg k cs.cp cs.comp d) = .ok d := by
    intro n he hn hsel
    have hrc' : ss.rc = n := by rw [hrc, he]; rfl
    by_cases hd : d = []
    · subst hd
      have : prepareMsg k cs.cp cs.comp [] = ⟨0, []⟩ := by
        rcases hsel with ⟨a, b⟩ | ⟨a, b⟩ <;> simp [prepareMsg, a, b, cNone]
      rw [this]; exact recvMsg_flag0 _ _ _ _ _ _
    · have : prepareMsg k cs.cp cs.comp d = ⟨1, k.comp ss.rc d⟩ := by
        have hl : (d.length == 0) = false := by cases d <;> simp_all
        rcases hsel with ⟨a, b⟩ | ⟨a, b⟩ <;> simp [prepareMsg, a, b, cMade, hl, hrc']
      rw [this]
      exact recvMsg_roundtrip k hk ss.rc _ _ true d hd0 hd1 (hsome (by rw [hrc']; exact hn)) (by rw [hrc']; exact hn)
  cases clientOpen_cases regC c cs hc with
  | registered m hm _ _ he hcp hcomp => exact compd m he hm (Or.inl ⟨hcomp, hcp⟩)
  | identity _ _ hcp hcomp => rw [hcp, hcomp, plain]; exact recvMsg_flag0 _ _ _ _ _ _
  | legacy t _ hl he hcp hcomp =>
    have ht := hleg t hl
    have : t ≠ "" := ((nonIdentity_iff t).1 ht).1
    exact compd t (by simp [he, this]) ht (Or.inr ⟨hcomp, hcp⟩)
  | plain _ _ _ hcp hcomp => rw [hcp, hcomp, plain]; exact recvMsg_flag0 _ _ _ _ _ _

/-- Server → client round trip: a client that supports the response's encoding (registered or its
    WithDecompressor) receives every response message exactly as the handler sent it — under the
    hypotheses of `flag_iff_encoding_server_partial`. -/
theorem roundtrip_server_to_client (k : Codec) (hk : ∀ n d, k.decomp n (k.comp n d) = some d)
    (regS regC : List String) (s : Server) (h : ReqHdr) (ss : SrvStream) (o : Option String)
    (ho : serverOpen regS s h = .ok ss) (hreg : identity ∉ regS ∧ "" ∉ regS)
    (hleg : ∀ t, s.legacyComp = some t → nonIdentity t = true)
    (c : Client) (accepted : List String) (r : CliRecv)
    (hi : clientRecvInit regC c accepted (applySetSend regS ss o).respEnc = .ok r)
    (hsup : nonIdentity r.ct = true → r.ct ∈ regC ∨ c.legacyDecomp = some r.ct) (d : Bytes) :
    r.recv k ((applySetSend regS ss o).send k regS d).2 = .ok d := by
  obtain ⟨hs, hsame, _, hI⟩ := serverOpen_consistent regS s h ss ho hleg
  obtain ⟨h1, h2⟩ := setSend_consistent regS ss o hs hsame hI hreg
  obtain ⟨hct, hd0, hd1, hsel⟩ := clientRecvInit_ok regC c accepted _ r hi
  rw [send_frame]
  unfold CliRecv.recv
  generalize hss1 : applySetSend regS ss o = ss1 at *
  cases hu : usedComp (effV0 ss1) (effV1 regS ss1) with
  | none =>
    have : prepareMsg k (effV0 ss1) (effV1 regS ss1) d = ⟨0, d⟩ := by
      cases h0 : effV0 ss1 <;> cases h1' : effV1 regS ss1 <;> simp [usedComp, h0, h1'] at hu ⊢
      simp [prepareMsg, cNone]
    rw [this]; exact recvMsg_flag0 _ _ _ _ _ _
  | some n =>
    have hn := h2 n hu
    rw [hu] at h1
    have hni : nonIdentity ss1.sendCompress = true := by simpa using h1.symm
    have hne : ss1.sendCompress ≠ "" := ((nonIdentity_iff _).1 hni).1
    have hrct : r.ct = n := by rw [hct]; simp [SrvStream.respEnc, hne, hn]
    by_cases hd : d = []
    · subst hd
      have : prepareMsg k (effV0 ss1) (effV1 regS ss1) [] = ⟨0, []⟩ := by
        cases h0 : effV0 ss1 <;> cases h1' : effV1 regS ss1 <;> simp [prepareMsg, cNone]
      rw [this]; exact recvMsg_flag0 _ _ _ _ _ _
    · have : prepareMsg k (effV0 ss1) (effV1 regS ss1) d = ⟨1, k.comp r.ct d⟩ := by
        have hl : (d.length == 0) = false := by cases d <;> simp_all
        cases h0 : effV0 ss1 <;> cases h1' : effV1 regS ss1 <;>
          simp [usedComp, h0, h1'] at hu <;> simp [prepareMsg, cMade, hl, hrct, hu]
      rw [this]
      have hnir : nonIdentity r.ct = true := by rw [hrct, hn]; exact hni
      refine recvMsg_roundtrip k hk r.ct _ _ false d hd0 hd1 ?_ hnir
      have := hsel hnir
      have hb : (decide (r.ct ∈ regC) || decide (c.legacyDecomp = some r.ct)) = true := by
        rcases hsup hnir with hs1 | hs2
        · simp [hs1]
        · simp [hs2]
      rw [hb] at this
      rw [Bool.or_comm]; exact this

/-- The harness' compressors satisfy the round-trip assumption. -/
theorem toy_roundtrip (n : String) (d : Bytes) : toy.decomp n (toy.comp n d) = some d :=
  Lemmas.Compression.toy_roundtrip n d

-- non-vacuity
example : (clientOpen ["c1", "c2"] ⟨some "c1", none, none, some ["c2"]⟩).toOption.map (·.hdr) = some ⟨some "c1", some "c2"⟩ := by decide
example : (clientOpen ["c1"] ⟨none, some "lz", none, none⟩).toOption.map (·.hdr) = some ⟨some "lz", some "c1,lz"⟩ := by decide
example : (clientOpen ["c1"] ⟨some "c3", none, none, none⟩).toOption.isNone = true := by decide
example : serverOpen ["c1"] ⟨none, none⟩ ⟨some "c3", none⟩ = .error .unimplemented := by rfl
example : (serverSide toy ["c1", "c2"] ⟨none, none⟩ (some "c2") ⟨some "c1", some "c1,c2"⟩ [⟨1, toy.comp "c1" [7]⟩] [[8], []]).resps
    = [⟨1, toy.comp "c2" [8]⟩, ⟨0, []⟩] := by decide
example : clientSide toy ["c1"] ⟨none, none, none, none⟩ [] (some (some "c3")) [⟨0, [1]⟩, ⟨1, [2]⟩] .ok = (.internal, [[1]]) := by decide
-- the former F34 situation, now consistent: identity in the header, flag 0, plain bytes
example : (serverSide toy ["c1"] ⟨some "c1", none⟩ (some "identity") ⟨none, some "c1"⟩ [⟨0, [1]⟩] [[2]]).respHdr = some (some "identity") ∧
    (serverSide toy ["c1"] ⟨some "c1", none⟩ (some "identity") ⟨none, some "c1"⟩ [⟨0, [1]⟩] [[2]]).resps = [⟨0, [2]⟩] := by decide

end GrpcProofs.C27
