import GrpcModel.Model.MdWire
import GrpcProofs.Lemmas.Status
namespace GrpcProofs.Lemmas.MdWire
open GrpcModel.Status GrpcModel.Headers GrpcModel.MdWire GrpcModel
open GrpcModel.Base64 (Bytes)
open GrpcProofs.Lemmas.Status

/-- The (key, raw value) pairs that leave the client as user metadata fields, in wire order. -/
def sentPairs (md : MD) (added : List (Bytes × Bytes)) : List (Bytes × Bytes) :=
  (md.flatMap fun kv => if isReservedHeader kv.1 then [] else kv.2.map fun v => (kv.1, v)) ++
  (added.flatMap fun p => if isReservedHeader (lower p.1) then [] else [(lower p.1, p.2)])

def encPair (p : Bytes × Bytes) : Field := (p.1, encodeMetadataHeader p.1 p.2)

theorem userFields_eq (md : MD) (added : List (Bytes × Bytes)) :
    userFields md added = (sentPairs md added).map encPair := by
  unfold userFields sentPairs fieldsFromMD
  rw [List.map_append]
  congr 1
  · induction md with
    | nil => rfl
    | cons kv rest ih =>
      simp only [List.flatMap_cons, List.map_append, ih]
      congr 1
      split <;> simp [encPair, List.map_map, Function.comp_def]
  · induction added with
    | nil => rfl
    | cons p rest ih =>
      simp only [List.flatMap_cons, List.map_append, ih]
      congr 1
      split <;> simp [encPair]

/-- every pair that is sent has a non-reserved key -/
theorem sentPairs_nonreserved (md : MD) (added : List (Bytes × Bytes)) :
    ∀ p ∈ sentPairs md added, isReservedHeader p.1 = false := by
  intro p hp
  simp only [sentPairs, List.mem_append, List.mem_flatMap] at hp
  rcases hp with ⟨kv, _, h⟩ | ⟨q, _, h⟩
  · by_cases hr : isReservedHeader kv.1 = true
    · simp [hr] at h
    · simp only [Bool.not_eq_true] at hr
      simp only [hr, Bool.false_eq_true, if_false, List.mem_map] at h
      obtain ⟨v, _, rfl⟩ := h; exact hr
  · by_cases hr : isReservedHeader (lower q.1) = true
    · simp [hr] at h
    · simp only [Bool.not_eq_true] at hr
      simp only [hr, Bool.false_eq_true, if_false, List.mem_singleton] at h
      subst h; exact hr

theorem res_method : isReservedHeader hMethod = true := by decide
theorem res_path : isReservedHeader hPath = true := by decide
theorem res_timeout : isReservedHeader hTimeout = true := by decide
theorem res_authority : isReservedHeader hAuthority = true := by decide
theorem res_ua : isReservedHeader hUserAgent = true := by decide
theorem nbin_ae : isBinKey hAcceptEncoding = false := by decide

/-- On the server a field made from a non-reserved key other than "connection" only appends its
    decoded value to the incoming metadata. -/
theorem srv_user_field (sc : SrvScan) (k v : Bytes) (hk : isReservedHeader k = false) (hc : k ≠ hConnection) :
    srvField sc (k, encodeMetadataHeader k v) = { sc with mdata := mdAppend sc.mdata k v } := by
  have n1 : k ≠ hContentType := fun e => by rw [e, res_ct] at hk; cases hk
  have n2 : k ≠ hGrpcEncoding := fun e => by rw [e, res_enc] at hk; cases hk
  have n3 : k ≠ hMethod := fun e => by rw [e, res_method] at hk; cases hk
  have n4 : k ≠ hPath := fun e => by rw [e, res_path] at hk; cases hk
  have n5 : k ≠ hTimeout := fun e => by rw [e, res_timeout] at hk; cases hk
  unfold srvField
  by_cases ha : k = hAcceptEncoding
  · subst ha
    simp [n1, encodeMetadataHeader, nbin_ae]
  · simp only [n1, n2, n3, n4, n5, ha, hc, hk, if_false, Bool.false_and, Bool.false_eq_true, decode_encode_md]

/-- values a key receives from a list of pairs, in order -/
def valsFor (ps : List (Bytes × Bytes)) (key : Bytes) : List Bytes := (ps.filter fun p => p.1 = key).map (·.2)

theorem srv_fold_pairs (ps : List (Bytes × Bytes)) (sc : SrvScan)
    (hk : ∀ p ∈ ps, isReservedHeader p.1 = false) (hc : ∀ p ∈ ps, p.1 ≠ hConnection) :
    ∃ md', (ps.map encPair).foldl srvField sc = { sc with mdata := md' } ∧
      ∀ key, mdGet md' key = mdGet sc.mdata key ++ valsFor ps key := by
  induction ps generalizing sc with
  | nil => exact ⟨sc.mdata, rfl, fun _ => by simp [valsFor]⟩
  | cons p t ih =>
    simp only [List.map_cons, List.foldl_cons, encPair]
    rw [srv_user_field sc p.1 p.2 (hk p (by simp)) (hc p (by simp))]
    obtain ⟨md', h1, h2⟩ := ih { sc with mdata := mdAppend sc.mdata p.1 p.2 } (fun q hq => hk q (by simp [hq])) (fun q hq => hc q (by simp [hq]))
    refine ⟨md', h1, fun key => ?_⟩
    rw [h2 key, mdGet_mdAppend]
    by_cases e : p.1 = key
    · simp [e, valsFor]
    · simp [e, valsFor]

def hScheme : Bytes := asciiBytes ":scheme"
def hTe : Bytes := asciiBytes "te"

/-- what the transport itself contributes to the handler's metadata: :authority, content-type
    (F17), user-agent and — when compressors are registered in the client process —
    grpc-accept-encoding (F30) -/
def baseMD (c : CallCfg) : MD :=
  [(hAuthority, [c.authority]), (hContentType, [contentTypeOf c.subtype]), (hUserAgent, [c.userAgent])] ++
  (if c.acceptEncoding.isEmpty then [] else [(hAcceptEncoding, [c.acceptEncoding])])

/-- The server's state after the fixed fields the client transport writes first. -/
theorem srv_base (c : CallCfg) :
    (baseFields c).foldl srvField {} =
      { isGRPC := true, httpMethod := asciiBytes "POST", mdata := baseMD c } := by
  have d1 : decodeMetadataHeader hAuthority c.authority = some c.authority := by
    simp [decodeMetadataHeader, show isBinKey hAuthority = false by decide]
  have d2 : decodeMetadataHeader hUserAgent c.userAgent = some c.userAgent := by
    simp [decodeMetadataHeader, show isBinKey hUserAgent = false by decide]
  have b : baseFields c = [(hMethod, asciiBytes "POST"), (hScheme, c.scheme), (hPath, c.path), (hAuthority, c.authority),
      (hContentType, contentTypeOf c.subtype), (hUserAgent, c.userAgent), (hTe, asciiBytes "trailers")] ++
      (if c.acceptEncoding.isEmpty then [] else [(hAcceptEncoding, c.acceptEncoding)]) := rfl
  rw [b, List.foldl_append]
  simp only [List.foldl_cons, List.foldl_nil]
  have e1 : srvField {} (hMethod, asciiBytes "POST") = { httpMethod := asciiBytes "POST" } := by
    simp [srvField, show hMethod ≠ hContentType by decide, show hMethod ≠ hAcceptEncoding by decide,
      show hMethod ≠ hGrpcEncoding by decide]
  rw [e1]
  have e2 : ∀ sc v, srvField sc (hScheme, v) = sc := by
    intro sc v
    simp [srvField, show hScheme ≠ hContentType by decide, show hScheme ≠ hAcceptEncoding by decide,
      show hScheme ≠ hGrpcEncoding by decide, show hScheme ≠ hMethod by decide,
      show hScheme ≠ hPath by decide, show hScheme ≠ hTimeout by decide,
      show hScheme ≠ hConnection by decide, show isReservedHeader hScheme = true by decide,
      show isWhitelistedHeader hScheme = false by decide]
  have e3 : ∀ sc v, srvField sc (hPath, v) = sc := by
    intro sc v
    simp [srvField, show hPath ≠ hContentType by decide, show hPath ≠ hAcceptEncoding by decide,
      show hPath ≠ hGrpcEncoding by decide, show hPath ≠ hMethod by decide]
  have e4 : ∀ sc : SrvScan, srvField sc (hAuthority, c.authority) = { sc with mdata := mdAppend sc.mdata hAuthority c.authority } := by
    intro sc
    simp [srvField, show hAuthority ≠ hContentType by decide, show hAuthority ≠ hAcceptEncoding by decide,
      show hAuthority ≠ hGrpcEncoding by decide, show hAuthority ≠ hMethod by decide,
      show hAuthority ≠ hPath by decide, show hAuthority ≠ hTimeout by decide,
      show hAuthority ≠ hConnection by decide, show isWhitelistedHeader hAuthority = true by decide, d1]
  have e5 : ∀ sc : SrvScan, srvField sc (hContentType, contentTypeOf c.subtype) =
      { sc with mdata := mdAppend sc.mdata hContentType (contentTypeOf c.subtype), isGRPC := true } := by
    intro sc; simp [srvField, validContentType_contentTypeOf]
  have e6 : ∀ sc : SrvScan, srvField sc (hUserAgent, c.userAgent) = { sc with mdata := mdAppend sc.mdata hUserAgent c.userAgent } := by
    intro sc
    simp [srvField, show hUserAgent ≠ hContentType by decide, show hUserAgent ≠ hAcceptEncoding by decide,
      show hUserAgent ≠ hGrpcEncoding by decide, show hUserAgent ≠ hMethod by decide,
      show hUserAgent ≠ hPath by decide, show hUserAgent ≠ hTimeout by decide,
      show hUserAgent ≠ hConnection by decide, show isWhitelistedHeader hUserAgent = true by decide, d2]
  have e7 : ∀ sc v, srvField sc (hTe, v) = sc := by
    intro sc v
    simp [srvField, show hTe ≠ hContentType by decide, show hTe ≠ hAcceptEncoding by decide,
      show hTe ≠ hGrpcEncoding by decide, show hTe ≠ hMethod by decide,
      show hTe ≠ hPath by decide, show hTe ≠ hTimeout by decide,
      show hTe ≠ hConnection by decide, show isReservedHeader hTe = true by decide,
      show isWhitelistedHeader hTe = false by decide]
  have e8 : ∀ sc : SrvScan, srvField sc (hAcceptEncoding, c.acceptEncoding) = { sc with mdata := mdAppend sc.mdata hAcceptEncoding c.acceptEncoding } := by
    intro sc
    simp [srvField, show hAcceptEncoding ≠ hContentType by decide]
  rw [e2, e3, e4, e5, e6, e7]
  by_cases hae : c.acceptEncoding.isEmpty = true
  · simp [hae, baseMD, mdAppend, show hAuthority ≠ hContentType by decide, show hAuthority ≠ hUserAgent by decide, show hContentType ≠ hUserAgent by decide]
  · simp only [hae, Bool.false_eq_true, if_false, List.foldl_cons, List.foldl_nil, e8]
    simp [baseMD, hae, mdAppend, show hAuthority ≠ hContentType by decide, show hAuthority ≠ hUserAgent by decide, show hContentType ≠ hUserAgent by decide,
      show hAuthority ≠ hAcceptEncoding by decide, show hContentType ≠ hAcceptEncoding by decide, show hUserAgent ≠ hAcceptEncoding by decide]

theorem mdGet_mdDelete (md : MD) (k key : Bytes) :
    mdGet (mdDelete md k) key = if k = key then [] else mdGet md key := by
  induction md with
  | nil => simp [mdDelete, mdGet]
  | cons kv rest ih =>
    obtain ⟨k', vs⟩ := kv
    unfold mdDelete at ih ⊢
    by_cases h1 : k' = k
    · subst h1
      simp only [List.filter_cons, ne_eq, not_true_eq_false, decide_false, Bool.false_eq_true, if_false, ih, mdGet]
      by_cases h2 : k' = key <;> simp [h2]
    · simp only [List.filter_cons, ne_eq, h1, not_false_eq_true, decide_true, if_true, mdGet, ih]
      by_cases h2 : k' = key
      · subst h2; simp [Ne.symm h1]
      · simp [h2]

theorem valsFor_nil_of_reserved (ps : List (Bytes × Bytes)) (hk : ∀ p ∈ ps, isReservedHeader p.1 = false)
    (key : Bytes) (hr : isReservedHeader key = true) : valsFor ps key = [] := by
  unfold valsFor
  rw [List.map_eq_nil_iff, List.filter_eq_nil_iff]
  intro p hp
  simp only [decide_eq_true_eq]
  intro e
  have := hk p hp
  rw [e, hr] at this; cases this

theorem valsFor_nil_of_absent (ps : List (Bytes × Bytes)) (key : Bytes) (h : ∀ p ∈ ps, p.1 ≠ key) : valsFor ps key = [] := by
  unfold valsFor
  rw [List.map_eq_nil_iff, List.filter_eq_nil_iff]
  intro p hp
  simp [h p hp]

/-- Client → server: valid outgoing metadata (no host / connection key) reaches the handler, and for
    EVERY key the handler's value list is what the transport adds for that key followed by the
    user's values for it in the order they were given (base MD first, then appended pairs). -/
theorem md_roundtrip (c : CallCfg) (md : MD) (added : List (Bytes × Bytes))
    (hv : validOutgoing md added = true)
    (hs : ∀ p ∈ sentPairs md added, p.1 ≠ hConnection ∧ p.1 ≠ hHost) :
    ∃ F m, clientSend c md added = some F ∧ serverRecv F = .handler m ∧
      ∀ key, mdGet m key = mdGet (baseMD c) key ++ valsFor (sentPairs md added) key := by
  have hnr := sentPairs_nonreserved md added
  obtain ⟨md', e1, g1⟩ := srv_fold_pairs (sentPairs md added)
    { isGRPC := true, httpMethod := asciiBytes "POST", mdata := baseMD c } hnr (fun p hp => (hs p hp).1)
  refine ⟨baseFields c ++ userFields md added, mdDelete md' hHost, by simp [clientSend, hv], ?_, ?_⟩
  · unfold serverRecv
    simp only [List.foldl_append, srv_base, userFields_eq]
    rw [e1]
    have ha : mdGet md' hAuthority = [c.authority] := by
      rw [g1, valsFor_nil_of_reserved _ hnr _ res_authority]
      by_cases hae : c.acceptEncoding.isEmpty = true <;> simp [baseMD, mdGet, hae, show hContentType ≠ hAuthority by decide,
        show hUserAgent ≠ hAuthority by decide, show hAcceptEncoding ≠ hAuthority by decide]
    have hh : mdGet md' hHost = [] := by
      rw [g1, valsFor_nil_of_absent _ _ (fun p hp => (hs p hp).2)]
      by_cases hae : c.acceptEncoding.isEmpty = true <;> simp [baseMD, mdGet, hae, show hAuthority ≠ hHost by decide,
        show hContentType ≠ hHost by decide, show hUserAgent ≠ hHost by decide, show hAcceptEncoding ≠ hHost by decide]
    simp [ha, hh]
  · intro key
    rw [mdGet_mdDelete]
    split
    · rename_i e; subst e
      rw [valsFor_nil_of_absent _ _ (fun p hp => (hs p hp).2)]
      by_cases hae : c.acceptEncoding.isEmpty = true <;> simp [baseMD, mdGet, hae, show hAuthority ≠ hHost by decide,
        show hContentType ≠ hHost by decide, show hUserAgent ≠ hHost by decide, show hAcceptEncoding ≠ hHost by decide]
    · exact g1 key

/-- A name may appear in user-visible metadata: not reserved, or whitelisted, or (finding F17)
    content-type. -/
def Surfaceable (k : Bytes) : Prop := isReservedHeader k = false ∨ isWhitelistedHeader k = true ∨ k = hContentType

theorem mdAppend_keys (md : MD) (k v : Bytes) (P : Bytes → Prop) (hmd : ∀ kv ∈ md, P kv.1) (hk : P k) :
    ∀ kv ∈ mdAppend md k v, P kv.1 := by
  induction md with
  | nil => intro kv h; simp [mdAppend] at h; subst h; exact hk
  | cons x rest ih =>
    intro kv h
    obtain ⟨k', vs⟩ := x
    unfold mdAppend at h
    split at h
    · rcases List.mem_cons.mp h with rfl | h
      · exact hmd (k', vs) (by simp)
      · exact hmd kv (by simp [h])
    · rcases List.mem_cons.mp h with rfl | h
      · exact hmd (k', vs) (by simp)
      · exact ih (fun y hy => hmd y (by simp [hy])) kv h

theorem srvField_keys (sc : SrvScan) (hf : Field) (h : ∀ kv ∈ sc.mdata, Surfaceable kv.1) :
    ∀ kv ∈ (srvField sc hf).mdata, Surfaceable kv.1 := by
  obtain ⟨name, value⟩ := hf
  unfold srvField
  simp only
  by_cases c1 : name = hContentType
  · simp only [c1, if_true]
    split
    · exact mdAppend_keys _ _ _ _ h (Or.inr (Or.inr rfl))
    · exact h
  · by_cases c2 : name = hAcceptEncoding
    · simp only [c2, if_true]
      rw [if_neg (by decide)]
      exact mdAppend_keys _ _ _ _ h (Or.inl (by decide))
    · simp only [c1, c2, if_false]
      repeat' split
      all_goals first
        | exact h
        | (apply mdAppend_keys _ _ _ _ h
           rename_i hr _ _
           by_cases r : isReservedHeader name = true
           · have : isWhitelistedHeader name = true := by simp_all
             exact Or.inr (Or.inl this)
           · exact Or.inl (by simpa using r))

theorem srv_fold_keys (fields : List Field) (sc : SrvScan) (h : ∀ kv ∈ sc.mdata, Surfaceable kv.1) :
    ∀ kv ∈ (fields.foldl srvField sc).mdata, Surfaceable kv.1 := by
  induction fields generalizing sc with
  | nil => exact h
  | cons f t ih => exact ih _ (srvField_keys sc f h)

/-- Whatever a peer sends: a name that reaches the handler's metadata is not reserved, or is
    whitelisted (:authority, user-agent), or is content-type. -/
theorem server_surfaces_only (fields : List Field) (m : MD) (h : serverRecv fields = .handler m) :
    ∀ kv ∈ m, Surfaceable kv.1 := by
  have inv := srv_fold_keys fields {} (by intro kv hkv; cases hkv)
  unfold serverRecv at h
  simp only at h
  repeat' split at h
  all_goals (try cases h)
  all_goals
    intro kv hkv
    first
      | exact inv kv hkv
      | (simp only [mdDelete, List.mem_filter] at hkv; exact inv kv hkv.1)
      | (rcases List.mem_append.mp hkv with hkv | hkv
         · simp only [mdDelete, List.mem_filter] at hkv; exact inv kv hkv.1
         · simp only [List.mem_singleton] at hkv; subst hkv; exact Or.inr (Or.inl (show isWhitelistedHeader hAuthority = true by decide)))

theorem scanField_keys (sc : Scan) (hf : Field) (h : ∀ kv ∈ sc.mdata, Surfaceable kv.1) :
    ∀ kv ∈ (scanField sc hf).mdata, Surfaceable kv.1 := by
  obtain ⟨name, value⟩ := hf
  unfold scanField
  simp only
  by_cases c0 : sc.early.isSome = true
  · simp only [c0, if_true]; exact h
  · simp only [c0, Bool.false_eq_true, if_false]
    by_cases c1 : name = hContentType
    · simp only [c1, if_true]
      split
      · exact mdAppend_keys _ _ _ _ h (Or.inr (Or.inr rfl))
      · exact h
    · simp only [c1, if_false]
      repeat' split
      all_goals first
        | exact h
        | (apply mdAppend_keys _ _ _ _ h
           by_cases r : isReservedHeader name = true
           · have : isWhitelistedHeader name = true := by simp_all
             exact Or.inr (Or.inl this)
           · exact Or.inl (by simpa using r))

theorem cli_fold_keys (fields : List Field) (sc : Scan) (h : ∀ kv ∈ sc.mdata, Surfaceable kv.1) :
    ∀ kv ∈ (fields.foldl scanField sc).mdata, Surfaceable kv.1 := by
  induction fields generalizing sc with
  | nil => exact h
  | cons f t ih => exact ih _ (scanField_keys sc f h)

/-- Whatever a peer sends in a HEADERS frame: `Header()` never contains a reserved name other than
    the whitelisted ones and content-type. -/
theorem client_header_surfaces_only (fields : List Field) (m : MD) (h : clientHeaders fields = .md m) :
    ∀ kv ∈ m, Surfaceable kv.1 := by
  have inv := cli_fold_keys fields { isGRPC := false } (by intro kv hkv; cases hkv)
  unfold clientHeaders at h
  simp only at h
  repeat' split at h
  all_goals (try cases h)
  all_goals exact inv

/-- …and the same for `Trailer()`. -/
theorem client_trailer_surfaces_only (ih : Bool) (fields : List Field) : ∀ kv ∈ (clientTrailers ih fields).2, Surfaceable kv.1 := by
  have inv := cli_fold_keys fields { isGRPC := !ih } (by intro kv hkv; cases hkv)
  unfold clientTrailers
  simp only
  repeat' split
  all_goals first
    | exact inv
    | (intro kv hkv; cases hkv)

theorem cli_fold_pairs (ps : List (Bytes × Bytes)) (sc : Scan) (he : sc.early = none)
    (hk : ∀ p ∈ ps, isReservedHeader p.1 = false) :
    ∃ md', (ps.map encPair).foldl scanField sc = { sc with mdata := md' } ∧
      ∀ key, mdGet md' key = mdGet sc.mdata key ++ valsFor ps key := by
  induction ps generalizing sc with
  | nil => exact ⟨sc.mdata, rfl, fun _ => by simp [valsFor]⟩
  | cons p t ih =>
    simp only [List.map_cons, List.foldl_cons, encPair]
    rw [scan_md_field sc p.1 p.2 (hk p (by simp)) he]
    obtain ⟨md', h1, h2⟩ := ih { sc with mdata := mdAppend sc.mdata p.1 p.2 } he (fun q hq => hk q (by simp [hq]))
    refine ⟨md', h1, fun key => ?_⟩
    rw [h2 key, mdGet_mdAppend]
    by_cases e : p.1 = key
    · simp [e, valsFor]
    · simp [e, valsFor]

theorem fieldsFromMD_eq (md : MD) : fieldsFromMD md = (sentPairs md []).map encPair := by
  have := userFields_eq md []
  simpa [userFields] using this

/-- what the client transport itself contributes to Header() / a trailers-only Trailer() (F17) -/
def ctMD (sub : Bytes) : MD := [(hContentType, [contentTypeOf sub])]

/-- Server → client, header metadata: for EVERY key the client's `Header()` has content-type's
    value (for that key only) followed by exactly the values the server set, in order. -/
theorem header_roundtrip (sub : Bytes) (header : MD) (hw : wireOK (headerFrame sub header) = true) :
    ∃ m, clientHeaders (headerFrame sub header) = .md m ∧
      ∀ key, mdGet m key = mdGet (ctMD sub) key ++ valsFor (sentPairs header []) key := by
  have hnr := sentPairs_nonreserved header []
  obtain ⟨md', e1, g1⟩ := cli_fold_pairs (sentPairs header []) { isGRPC := true, mdata := ctMD sub } rfl hnr
  refine ⟨md', ?_, g1⟩
  unfold clientHeaders
  simp only [hw, Bool.not_true, Bool.false_eq_true, if_false]
  have e0 : (headerFrame sub header).foldl scanField { isGRPC := false } =
      ((sentPairs header []).map encPair).foldl scanField { isGRPC := true, mdata := ctMD sub } := by
    unfold headerFrame appendHeaderFieldsFromMD
    rw [List.foldl_append, fieldsFromMD_eq]
    congr 1
    simp [scanField, n_http_ct, n_http_enc, n_http_st, n_http_msg, validContentType_contentTypeOf, mdAppend, ctMD]
  rw [e0, e1]
  rfl

/-- explicit form of `Lemmas.Status.prefix_scan` -/
theorem prefix_scan' (hs : Bool) (sub : Bytes) (c : Nat) (hc : c < 2147483648) (m : Bytes) :
    ((if hs then [] else [(hHttpStatus, asciiBytes "200"), (hContentType, contentTypeOf sub)]) ++
        [(hStatus, itoa c), (hMessage, StatusMsg.encode m)]).foldl scanField { isGRPC := !(!hs) } =
      { isGRPC := true, mdata := if hs then [] else ctMD sub, grpcMessage := StatusMsg.sanitize m, code := c } := by
  cases hs
  · simp [scanField, n_st_ct, n_st_enc, n_msg_ct, n_msg_enc, n_msg_st, n_http_ct, n_http_enc, n_http_st, n_http_msg,
        validContentType_contentTypeOf, parseInt32_itoa c hc, codeOfInt_nat c (by omega), Lemmas.StatusMsg.decode_encode, mdAppend, ctMD]
  · simp [scanField, n_st_ct, n_st_enc, n_msg_ct, n_msg_enc, n_msg_st,
        parseInt32_itoa c hc, codeOfInt_nat c (by omega), Lemmas.StatusMsg.decode_encode]

/-- Server → client, trailer metadata (status without details): for EVERY key the client's
    `Trailer()` has exactly the values the server set, in order (plus content-type's value under
    that key when the response is trailers-only). -/
theorem trailer_roundtrip (hs : Bool) (sub : Bytes) (st : Status) (tr : MD)
    (hc : st.code < 2147483648) (hd : st.details = []) :
    ∀ key, mdGet (clientTrailers (!hs) (writeStatus hs sub st tr)).2 key =
      mdGet (if hs then [] else ctMD sub) key ++ valsFor (sentPairs tr []) key := by
  have hnr := sentPairs_nonreserved tr []
  obtain ⟨md', e1, g1⟩ := cli_fold_pairs (sentPairs tr [])
    { isGRPC := true, mdata := if hs then [] else ctMD sub, grpcMessage := StatusMsg.sanitize st.msg, code := st.code } rfl hnr
  unfold clientTrailers writeStatus
  simp only [hd, List.isEmpty_nil, if_true, appendHeaderFieldsFromMD, List.foldl_append]
  have hpre := prefix_scan' hs sub st.code hc st.msg
  simp only [List.foldl_append] at hpre
  rw [hpre, fieldsFromMD_eq, e1]
  simpa using g1


def byteOK (b : UInt8) : Bool := !((b < 0x20 || b == 0x7F) && !(b == 0x20 || b == 0x09))

set_option maxRecDepth 100000 in
theorem keyChar_token_nat : ∀ n, n < 256 → validKeyChar (UInt8.ofNat n) = true →
    (isTokenByte (UInt8.ofNat n) && !(65 ≤ UInt8.ofNat n && UInt8.ofNat n ≤ 90)) = true := by decide

theorem keyChar_token (b : UInt8) (h : validKeyChar b = true) : (isTokenByte b && !(65 ≤ b && b ≤ 90)) = true := by
  have := keyChar_token_nat b.toNat b.toNat_lt (by simpa using h)
  simpa using this

set_option maxRecDepth 100000 in
theorem printable_ok_nat : ∀ n, n < 256 → (decide (UInt8.ofNat n < 0x20) || decide (UInt8.ofNat n > 0x7E)) = false → byteOK (UInt8.ofNat n) = true := by decide

theorem printable_ok (b : UInt8) (h : (decide (b < 0x20) || decide (b > 0x7E)) = false) : byteOK b = true := by
  have := printable_ok_nat b.toNat b.toNat_lt (by simpa using h)
  simpa using this

theorem encChar_ok : ∀ n, n < 64 → byteOK (Base64.encChar n) = true := by decide

theorem encode_ok (pad : Bool) (bs : Bytes) : (Base64.encode pad bs).all byteOK = true := by
  induction bs using Base64.encode.induct with
  | case1 a b c rest ih =>
    have ha := a.toNat_lt; have hb := b.toNat_lt; have hc := c.toNat_lt
    simp only [Base64.encode, List.all_cons, ih, Bool.and_true]
    simp [encChar_ok _ (show a.toNat / 4 < 64 by omega), encChar_ok _ (show a.toNat % 4 * 16 + b.toNat / 16 < 64 by omega),
      encChar_ok _ (show b.toNat % 16 * 4 + c.toNat / 64 < 64 by omega), encChar_ok _ (show c.toNat % 64 < 64 by omega)]
  | case2 a b =>
    have ha := a.toNat_lt; have hb := b.toNat_lt
    cases pad <;>
    simp [Base64.encode, encChar_ok _ (show a.toNat / 4 < 64 by omega), encChar_ok _ (show a.toNat % 4 * 16 + b.toNat / 16 < 64 by omega),
      encChar_ok _ (show b.toNat % 16 * 4 < 64 by omega), show byteOK Base64.padByte = true by decide]
  | case3 a =>
    have ha := a.toNat_lt
    cases pad <;>
    simp [Base64.encode, encChar_ok _ (show a.toNat / 4 < 64 by omega), encChar_ok _ (show a.toNat % 4 * 16 < 64 by omega),
      show byteOK Base64.padByte = true by decide]
  | case4 => simp [Base64.encode]

theorem wireValueOK_eq (v : Bytes) : wireValueOK v = v.all byteOK := rfl

theorem nonreserved_not_pseudo (k : Bytes) (h : isReservedHeader k = false) : ∀ c rest, k = c :: rest → (c == 58) = false := by
  intro c rest e
  subst e
  simp only [isReservedHeader, Bool.or_eq_false_iff] at h
  exact h.1

/-- A validated pair with a non-reserved key gives a header field the HTTP/2 framer accepts. -/
theorem valid_field_ok (k : Bytes) (vs : List Bytes) (v : Bytes) (hv : v ∈ vs)
    (hvalid : validatePair k vs = true) (hnr : isReservedHeader k = false) :
    (wireNameOK k && wireValueOK (encodeMetadataHeader k v)) = true := by
  simp only [validatePair, Bool.and_eq_true, Bool.or_eq_true] at hvalid
  obtain ⟨hkey, hval⟩ := hvalid
  have hname : wireNameOK k = true := by
    cases k with
    | nil => simp [validateKey] at hkey
    | cons c rest =>
      have hc := nonreserved_not_pseudo _ hnr c rest rfl
      simp only [validateKey, hc, Bool.false_eq_true, if_false] at hkey
      simp only [wireNameOK, hc, Bool.false_eq_true, if_false]
      rw [List.all_eq_true] at hkey ⊢
      intro b hb
      exact keyChar_token b (hkey b hb)
  rw [hname, Bool.true_and]
  unfold encodeMetadataHeader
  by_cases hb : isBinKey k = true
  · simp only [hb, if_true, wireValueOK_eq]
    exact encode_ok false v
  · simp only [hb, Bool.false_eq_true, if_false]
    simp only [hb, Bool.false_eq_true, false_or, List.all_eq_true] at hval
    have := hval v hv
    simp only [hasNotPrintable, Bool.not_eq_true', List.any_eq_false] at this
    rw [wireValueOK_eq, List.all_eq_true]
    intro b hb'
    apply printable_ok
    have := this b hb'
    simpa using this

/-- Validated metadata never produces a header field the peer's HTTP/2 framer rejects. -/
theorem valid_wire_ok (md : MD) (h : validate md = true) : wireOK (fieldsFromMD md) = true := by
  unfold wireOK
  rw [List.all_eq_true]
  intro f hf
  simp only [fieldsFromMD, List.mem_flatMap] at hf
  obtain ⟨kv, hkv, h2⟩ := hf
  by_cases hr : isReservedHeader kv.1 = true
  · simp [hr] at h2
  · simp only [Bool.not_eq_true] at hr
    simp only [hr, Bool.false_eq_true, if_false, List.mem_map] at h2
    obtain ⟨v, hv, rfl⟩ := h2
    unfold validate at h
    rw [List.all_eq_true] at h
    exact valid_field_ok kv.1 kv.2 v hv (h kv hkv) hr


/-- Per-key order: the values a non-reserved key receives are the base MD's values for it
    followed by the appended pairs' values for it, each in the order given. -/
theorem valsFor_sentPairs (md : MD) (added : List (Bytes × Bytes)) (key : Bytes) (hk : isReservedHeader key = false) :
    valsFor (sentPairs md added) key =
      (md.filter fun kv => kv.1 = key).flatMap (·.2) ++ ((added.filter fun p => lower p.1 = key).map (·.2)) := by
  unfold valsFor sentPairs
  rw [List.filter_append, List.map_append]
  congr 1
  · induction md with
    | nil => rfl
    | cons kv rest ih =>
      simp only [List.flatMap_cons, List.filter_append, List.map_append, ih, List.filter_cons]
      by_cases e : kv.1 = key
      · simp [e, hk, List.filter_map, Function.comp_def, List.map_map]
      · by_cases hr : isReservedHeader kv.1 = true
        · simp [e, hr]
        · simp only [Bool.not_eq_true] at hr
          simp [e, hr, List.filter_map, Function.comp_def]
  · induction added with
    | nil => rfl
    | cons p rest ih =>
      simp only [List.flatMap_cons, List.filter_append, List.map_append, ih, List.filter_cons]
      by_cases e : lower p.1 = key
      · simp [e, hk]
      · by_cases hr : isReservedHeader (lower p.1) = true
        · simp [e, hr]
        · simp only [Bool.not_eq_true] at hr
          simp [e, hr]

theorem lower_idem (k : Bytes) : lower (lower k) = lower k := by
  unfold lower
  rw [List.map_map]
  apply List.map_congr_left
  intro b _
  simp only [Function.comp, lowerByte]
  split
  · rename_i h
    simp only [Bool.and_eq_true, decide_eq_true_eq] at h
    have h1 : 65 ≤ b.toNat := UInt8.le_iff_toNat_le.mp h.1
    have h2 : b.toNat ≤ 90 := UInt8.le_iff_toNat_le.mp h.2
    have : ¬ ((65 : UInt8) ≤ b + 32 ∧ b + 32 ≤ 90) := by
      intro ⟨_, g2⟩
      have := UInt8.le_iff_toNat_le.mp g2
      rw [UInt8.toNat_add] at this
      simp at this; omega
    simp [this]
  · rfl


/-! ### several header / trailer calls: accumulation like metadata.Join -/


/-- all values stored under `key`, over every entry of the list, in order -/
def valsAll (md : MD) (key : Bytes) : List Bytes := (md.filter fun kv => kv.1 = key).flatMap (·.2)

/-- a Go map: no key twice -/
def Distinct : MD → Prop
  | [] => True
  | kv :: rest => (∀ x ∈ rest, x.1 ≠ kv.1) ∧ Distinct rest

theorem mdGet_of_absent (md : MD) (key : Bytes) (h : ∀ x ∈ md, x.1 ≠ key) : mdGet md key = [] := by
  induction md with
  | nil => rfl
  | cons kv rest ih =>
    obtain ⟨k, vs⟩ := kv
    have : k ≠ key := h (k, vs) (by simp)
    simp only [mdGet, this, if_false]
    exact ih (fun x hx => h x (by simp [hx]))

theorem valsAll_of_absent (md : MD) (key : Bytes) (h : ∀ x ∈ md, x.1 ≠ key) : valsAll md key = [] := by
  unfold valsAll
  rw [List.filter_eq_nil_iff.mpr (fun x hx => by simp [h x hx])]
  rfl

theorem valsAll_eq_mdGet (md : MD) (key : Bytes) (hd : Distinct md) : valsAll md key = mdGet md key := by
  induction md with
  | nil => rfl
  | cons kv rest ih =>
    obtain ⟨k, vs⟩ := kv
    obtain ⟨h1, h2⟩ := hd
    by_cases e : k = key
    · subst e
      have : valsAll rest k = [] := valsAll_of_absent rest k h1
      simp only [valsAll, List.filter_cons, decide_true, if_true, List.flatMap_cons, mdGet] at this ⊢
      simp [this]
    · simp only [valsAll, List.filter_cons, e, decide_false, Bool.false_eq_true, if_false, mdGet]
      exact ih h2

theorem mdAppend_mem (md : MD) (k v : Bytes) : ∀ x ∈ mdAppend md k v, x.1 = k ∨ ∃ y ∈ md, y.1 = x.1 := by
  induction md with
  | nil => intro x hx; simp [mdAppend] at hx; subst hx; exact Or.inl rfl
  | cons kv rest ih =>
    obtain ⟨k', vs⟩ := kv
    intro x hx
    unfold mdAppend at hx
    split at hx
    · rename_i e
      rcases List.mem_cons.mp hx with rfl | hx
      · exact Or.inl e
      · exact Or.inr ⟨x, by simp [hx], rfl⟩
    · rcases List.mem_cons.mp hx with rfl | hx
      · exact Or.inr ⟨(k', vs), by simp, rfl⟩
      · rcases ih x hx with h | ⟨y, hy, e⟩
        · exact Or.inl h
        · exact Or.inr ⟨y, by simp [hy], e⟩

theorem distinct_mdAppend (md : MD) (k v : Bytes) (hd : Distinct md) : Distinct (mdAppend md k v) := by
  induction md with
  | nil => simp [mdAppend, Distinct]
  | cons kv rest ih =>
    obtain ⟨k', vs⟩ := kv
    obtain ⟨h1, h2⟩ := hd
    unfold mdAppend
    split
    · exact ⟨h1, h2⟩
    · rename_i ne
      refine ⟨?_, ih h2⟩
      intro x hx
      rcases mdAppend_mem rest k v x hx with h | ⟨y, hy, e⟩
      · rw [h]; exact fun e => ne e.symm
      · rw [← e]; exact h1 y hy

theorem distinct_ensureKey (md : MD) (k : Bytes) (hd : Distinct md) : Distinct (ensureKey md k) := by
  unfold ensureKey
  split
  · exact hd
  · rename_i h
    simp only [List.any_eq_true, decide_eq_true_eq, not_exists, not_and] at h
    induction md with
    | nil => simp [Distinct]
    | cons kv rest ih =>
      obtain ⟨h1, h2⟩ := hd
      refine ⟨?_, ih h2 (fun x hx => h x (by simp [hx]))⟩
      intro x hx
      rcases List.mem_append.mp hx with hx | hx
      · exact h1 x hx
      · simp only [List.mem_singleton] at hx
        subst hx
        exact fun e => h kv (by simp) e.symm

theorem mdGet_append_empty (md : MD) (k key : Bytes) : mdGet (md ++ [(k, [])]) key = mdGet md key := by
  induction md with
  | nil => simp only [List.nil_append, mdGet]; split <;> rfl
  | cons kv rest ih =>
    obtain ⟨k', vs⟩ := kv
    simp only [List.cons_append, mdGet]
    split
    · rfl
    · exact ih

theorem mdGet_ensureKey (md : MD) (k key : Bytes) : mdGet (ensureKey md k) key = mdGet md key := by
  unfold ensureKey
  split
  · rfl
  · exact mdGet_append_empty md k key

/-- one entry of the second argument of `Join` -/
def joinEntry (acc : MD) (kv : Bytes × List Bytes) : MD :=
  kv.2.foldl (fun m v => mdAppend m kv.1 v) (ensureKey acc kv.1)

theorem joinEntry_spec (acc : MD) (kv : Bytes × List Bytes) (hd : Distinct acc) (key : Bytes) :
    Distinct (joinEntry acc kv) ∧ mdGet (joinEntry acc kv) key = mdGet acc key ++ (if kv.1 = key then kv.2 else []) := by
  obtain ⟨k, vs⟩ := kv
  unfold joinEntry
  simp only
  have base : Distinct (ensureKey acc k) ∧ mdGet (ensureKey acc k) key = mdGet acc key ++ (if k = key then [] else []) := by
    exact ⟨distinct_ensureKey acc k hd, by simp [mdGet_ensureKey]⟩
  generalize ensureKey acc k = m0 at base
  suffices h : ∀ (pre : List Bytes) (m : MD), Distinct m → mdGet m key = mdGet acc key ++ (if k = key then pre else []) →
      Distinct (vs.foldl (fun m v => mdAppend m k v) m) ∧
      mdGet (vs.foldl (fun m v => mdAppend m k v) m) key = mdGet acc key ++ (if k = key then pre ++ vs else []) by
    have := h [] m0 base.1 base.2
    simpa using this
  induction vs with
  | nil => intro pre m hm hg; simpa using ⟨hm, hg⟩
  | cons v t ih =>
    intro pre m hm hg
    simp only [List.foldl_cons]
    have := ih (pre ++ [v]) (mdAppend m k v) (distinct_mdAppend m k v hm) (by
      rw [mdGet_mdAppend, hg]
      by_cases e : k = key <;> simp [e])
    simpa using this

theorem mdJoin_spec (a b : MD) (ha : Distinct a) (key : Bytes) :
    Distinct (mdJoin a b) ∧ mdGet (mdJoin a b) key = mdGet a key ++ valsAll b key := by
  unfold mdJoin
  change Distinct (b.foldl joinEntry a) ∧ mdGet (b.foldl joinEntry a) key = mdGet a key ++ valsAll b key
  induction b generalizing a with
  | nil => simp [valsAll, ha]
  | cons kv rest ih =>
    simp only [List.foldl_cons]
    obtain ⟨d1, g1⟩ := joinEntry_spec a kv ha key
    obtain ⟨d2, g2⟩ := ih (joinEntry a kv) d1
    refine ⟨d2, ?_⟩
    rw [g2, g1]
    by_cases e : kv.1 = key
    · simp [e, valsAll, List.filter_cons]
    · simp [e, valsAll, List.filter_cons]

/-- The stream's accumulated metadata after a sequence of accepted calls: per key, the values of
    the calls in call order; and it is a proper map again. -/
theorem joinAll_spec (mds : List MD) (key : Bytes) :
    Distinct (mds.foldl mdJoin []) ∧ mdGet (mds.foldl mdJoin []) key = mds.flatMap (valsAll · key) := by
  suffices h : ∀ (acc : MD), Distinct acc →
      Distinct (mds.foldl mdJoin acc) ∧ mdGet (mds.foldl mdJoin acc) key = mdGet acc key ++ mds.flatMap (valsAll · key) by
    have := h [] trivial
    simpa [mdGet] using this
  induction mds with
  | nil => intro acc ha; simpa using ha
  | cons m t ih =>
    intro acc ha
    obtain ⟨d1, g1⟩ := mdJoin_spec acc m ha key
    obtain ⟨d2, g2⟩ := ih (mdJoin acc m) d1
    refine ⟨d2, ?_⟩
    simp only [List.foldl_cons, List.flatMap_cons]
    rw [g2, g1, List.append_assoc]


theorem mdJoin_nil (a : MD) : mdJoin a [] = a := rfl

/-- A header call either fails and leaves the stream's header alone, or succeeds and joins its
    metadata into it. -/
theorem isEmpty_nil {md : MD} (h : md.isEmpty = true) : md = [] := by simpa using h

theorem hdrCall_header (st : HdrState) (api : HdrApi) (md : MD) :
    ((hdrCall st api md).2 = none → (hdrCall st api md).1.header = mdJoin st.header md) ∧
    ((hdrCall st api md).2 ≠ none → (hdrCall st api md).1 = st) := by
  cases api
  · -- ssSet
    unfold hdrCall
    simp only
    by_cases h1 : md.isEmpty = true
    · have := isEmpty_nil h1; subst this; simp [mdJoin_nil]
    · by_cases h2 : (!validate md) = true
      · simp [h1, h2]
      · by_cases h3 : st.sent = true <;> simp [h1, h2, h3]
  · -- ssSend
    unfold hdrCall
    simp only
    by_cases h2 : (!validate md) = true
    · simp [h2]
    · by_cases h3 : st.sent = true <;> simp [h2, h3]
  · -- ctxSet
    unfold hdrCall
    simp only
    by_cases h1 : md.isEmpty = true
    · have := isEmpty_nil h1; subst this; simp [mdJoin_nil]
    · by_cases h3 : st.sent = true <;> simp [h1, h3]
  · -- ctxSend
    unfold hdrCall
    simp only
    by_cases h3 : st.sent = true <;> simp [h3]

/-- run a handler's header calls in order -/
def hdrRun (calls : List (HdrApi × MD)) (st : HdrState) : HdrState × List (Option Nat) :=
  calls.foldl (fun acc c => let r := hdrCall acc.1 c.1 c.2; (r.1, acc.2 ++ [r.2])) (st, [])

/-- the metadata values of the calls that succeeded, in call order -/
def accepted : List (HdrApi × MD) → HdrState → List MD
  | [], _ => []
  | c :: rest, st =>
    let r := hdrCall st c.1 c.2
    (if r.2 = none then [c.2] else []) ++ accepted rest r.1

theorem hdrRun_header (calls : List (HdrApi × MD)) (st : HdrState) (res : List (Option Nat)) :
    (calls.foldl (fun acc c => let r := hdrCall acc.1 c.1 c.2; (r.1, acc.2 ++ [r.2])) (st, res)).1.header =
      (accepted calls st).foldl mdJoin st.header := by
  induction calls generalizing st res with
  | nil => rfl
  | cons c t ih =>
    simp only [List.foldl_cons, accepted]
    rw [ih]
    obtain ⟨h1, h2⟩ := hdrCall_header st c.1 c.2
    by_cases e : (hdrCall st c.1 c.2).2 = none
    · simp only [e, if_true, List.singleton_append, List.foldl_cons, h1 e]
    · simp only [e, if_false, List.nil_append, h2 e]

/-- Several header calls: the client's `Header()` has, for every non-reserved key, exactly the
    values of the calls that succeeded, in call order (after content-type's own entry). -/
theorem header_calls_roundtrip (sub : Bytes) (calls : List (HdrApi × MD))
    (hw : wireOK (headerFrame sub (hdrRun calls {}).1.header) = true) (key : Bytes) (hk : isReservedHeader key = false) :
    ∃ m, clientHeaders (headerFrame sub (hdrRun calls {}).1.header) = .md m ∧
      mdGet m key = mdGet (ctMD sub) key ++ (accepted calls {}).flatMap (valsAll · key) := by
  obtain ⟨m, h1, h2⟩ := header_roundtrip sub (hdrRun calls {}).1.header hw
  refine ⟨m, h1, ?_⟩
  rw [h2 key, valsFor_sentPairs _ [] key hk]
  have e : (hdrRun calls {}).1.header = (accepted calls {}).foldl mdJoin [] := hdrRun_header calls {} []
  obtain ⟨d, g⟩ := joinAll_spec (accepted calls {}) key
  rw [e]
  simp only [List.filter_nil, List.map_nil, List.append_nil]
  have := valsAll_eq_mdGet _ key d
  unfold valsAll at this
  rw [this, g]

/-- Several SetTrailer calls (status without details, code < 2^31): the same for `Trailer()`. -/
theorem trailer_calls_roundtrip (hs : Bool) (sub : Bytes) (st : Status) (mds : List MD)
    (hc : st.code < 2147483648) (hd : st.details = []) (key : Bytes) (hk : isReservedHeader key = false) :
    mdGet (clientTrailers (!hs) (writeStatus hs sub st (mds.foldl trlCall []))).2 key =
      mdGet (if hs then [] else ctMD sub) key ++ mds.flatMap (valsAll · key) := by
  rw [trailer_roundtrip hs sub st _ hc hd key, valsFor_sentPairs _ [] key hk]
  have e : mds.foldl trlCall [] = mds.foldl mdJoin [] := by
    have : ∀ acc : MD, mds.foldl trlCall acc = mds.foldl mdJoin acc := by
      induction mds with
      | nil => intro _; rfl
      | cons m t ih =>
        intro acc
        simp only [List.foldl_cons]
        have : trlCall acc m = mdJoin acc m := by
          unfold trlCall
          split
          · rename_i he; have : m = [] := by simpa using he
            subst this; rfl
          · rfl
        rw [this, ih]
    exact this []
  obtain ⟨d, g⟩ := joinAll_spec mds key
  rw [e]
  simp only [List.filter_nil, List.map_nil, List.append_nil]
  have := valsAll_eq_mdGet _ key d
  unfold valsAll at this
  rw [this, g]


end GrpcProofs.Lemmas.MdWire
