import GrpcModel.Model.AdsFan
/-! Invariant of the ADS fan-out model (C42): the stream's flow-control counter is exactly the number of
`done`s of responses that watchers still hold. -/
namespace GrpcProofs.Lemmas.AdsFan
open GrpcModel.AdsFan

structure Inv (s : St) : Prop where
  count : s.outstanding = heldResp s.ws
  cur : s.cur = none ↔ s.outstanding = 0
  deliv : s.delivered = s.completed + (if s.cur.isSome then 1 else 0)

theorem inv_init : Inv {} := ⟨rfl, by simp, rfl⟩

theorem heldResp_append (a b : List Watcher) : heldResp (a ++ b) = heldResp a + heldResp b := by
  induction a with
  | nil => simp [heldResp]
  | cons w ws ih => simp [heldResp, ih]; omega

theorem notify_held (ws : List Watcher) (v : Nat) (rs : List (Nat × String)) :
    heldResp (notify ws v rs).1 = heldResp ws + (notify ws v rs).2.1 := by
  induction ws with
  | nil => simp [notify, heldResp]
  | cons w ws ih =>
    have hstep : notify (w :: ws) v rs =
        (if rs.contains (w.auth, w.name) then
          if w.block then ({ w with pend := w.pend ++ [.resp v] } :: (notify ws v rs).1, (notify ws v rs).2.1 + 1, (w.id, v) :: (notify ws v rs).2.2)
          else (w :: (notify ws v rs).1, (notify ws v rs).2.1, (w.id, v) :: (notify ws v rs).2.2)
        else (w :: (notify ws v rs).1, (notify ws v rs).2.1, (notify ws v rs).2.2)) := by
      simp [notify]
    rw [hstep]
    split
    · split
      · simp [heldResp, ih, List.filter_append, List.filter_cons, isResp]; omega
      · simp [heldResp, ih]; omega
    · simp [heldResp, ih]; omega

theorem popTok_held (id : Nat) (ws ws' : List Watcher) (t : Tok) (h : popTok id ws = some (t, ws')) :
    heldResp ws = heldResp ws' + (if isResp t then 1 else 0) := by
  induction ws generalizing ws' with
  | nil => simp [popTok] at h
  | cons w rest ih =>
    unfold popTok at h
    split at h
    · cases hp : w.pend with
      | nil => simp [hp] at h
      | cons t0 r =>
        simp [hp] at h
        obtain ⟨rfl, rfl⟩ := h
        cases t0 <;> simp [heldResp, hp, List.filter_cons, isResp] <;> omega
    · cases hq : popTok id rest with
      | none => simp [hq] at h
      | some p =>
        simp [hq] at h
        obtain ⟨rfl, rfl⟩ := h
        have := ih p.2 (by rw [hq])
        simp [heldResp, this]; omega

theorem inv_settle (fuel : Nat) (s : St) (h : Inv s) : Inv (settle fuel s) := by
  induction fuel generalizing s with
  | zero => simpa [settle]
  | succ n ih =>
    unfold settle
    split
    · exact h
    · rename_i hgo
      split
      · exact h
      · rename_i v rs rest hin
        have hcur : s.cur = none := by
          cases hc : s.cur with
          | none => rfl
          | some _ => simp [hc] at hgo
        have hout : s.outstanding = 0 := h.cur.mp hcur
        have hh := notify_held s.ws v rs
        have hz : heldResp s.ws = 0 := by rw [← h.count]; exact hout
        rcases hnot : notify s.ws v rs with ⟨ws', n, lg⟩
        rw [hnot] at hh
        simp only [] at hh ⊢
        split
        · rename_i hn
          apply ih
          refine ⟨?_, ?_, ?_⟩
          · simp [hout]; omega
          · simp [hcur, hout]
          · have := h.deliv; simp [hcur] at this ⊢; omega
        · rename_i hn
          refine ⟨?_, ?_, ?_⟩
          · simp; omega
          · simp; omega
          · have := h.deliv; simp [hcur] at this ⊢; omega

theorem inv_step (s : St) (op : Op) (h : Inv s) : Inv (step s op) := by
  cases op with
  | watch a n id b =>
    simp only [step]
    split
    · exact h
    · apply inv_settle
      cases hl : lookup s.cache (a, n) with
      | none =>
        refine ⟨?_, ?_, ?_⟩
        · simp [heldResp_append, heldResp, h.count]
        · simpa using h.cur
        · simpa using h.deliv
      | some v =>
        refine ⟨?_, ?_, ?_⟩
        · cases b <;> simp [heldResp_append, heldResp, h.count, isResp]
        · simpa using h.cur
        · simpa using h.deliv
  | respond rs =>
    simp only [step]
    apply inv_settle
    exact ⟨by simpa using h.count, by simpa using h.cur, by simpa using h.deliv⟩
  | done id =>
    simp only [step]
    cases hp : popTok id s.ws with
    | none => simpa using (⟨h.count, h.cur, h.deliv⟩ : Inv { s with log := [] })
    | some p =>
      obtain ⟨t, ws⟩ := p
      have hh := popTok_held id s.ws ws t hp
      simp only []
      cases t with
      | cached v =>
        simp [isResp] at hh
        exact ⟨by simp [← hh, h.count], by simpa using h.cur, by simpa using h.deliv⟩
      | resp v =>
        simp [isResp] at hh
        have hc := h.count
        have hpos : s.outstanding ≥ 1 := by omega
        have hcur : s.cur ≠ none := fun hn => by have := h.cur.mp hn; omega
        have hsome : s.cur.isSome = true := by
          cases hcc : s.cur with
          | none => exact absurd hcc hcur
          | some _ => rfl
        simp only []
        split
        · apply inv_settle
          refine ⟨?_, ?_, ?_⟩
          · simp; omega
          · simp
          · have := h.deliv; simp [hsome] at this ⊢; omega
        · refine ⟨?_, ?_, ?_⟩
          · simp; omega
          · simp; constructor
            · intro hn; exact absurd hn hcur
            · intro; omega
          · simpa using h.deliv

theorem inv_run (s : St) (ops : List Op) (h : Inv s) : Inv (run s ops) := by
  induction ops generalizing s with
  | nil => simpa [run]
  | cons op ops ih => simp only [run, List.foldl_cons]; exact ih _ (inv_step s op h)

end GrpcProofs.Lemmas.AdsFan
