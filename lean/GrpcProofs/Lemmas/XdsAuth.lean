import GrpcModel.Model.XdsAuth
/-! Helper lemmas for C43 / C44 (model: GrpcModel/Model/XdsAuth.lean, layer A). -/
namespace GrpcProofs.Lemmas.XdsAuth
open GrpcModel.XdsAuth

theorem mem_bcast {r : RState} {ks : List CbKind} {cb : Cb} :
    cb ∈ bcast r ks ↔ cb.w ∈ r.watchers ∧ cb.k ∈ ks := by
  unfold bcast
  simp only [List.mem_flatMap, List.mem_map]
  constructor
  · rintro ⟨w, hw, k, hk, rfl⟩; exact ⟨hw, hk⟩
  · rintro ⟨hw, hk⟩; exact ⟨cb.w, hw, cb.k, hk, rfl⟩

/-! ### revert (handleRevertingToPrimaryOnUpdate) -/

theorem revert_none {a : Auth} {srv : Nat} (h : a.active = none) : revert a srv = (a, [], false) := by
  simp [revert, h]

theorem revert_same {a : Auth} {srv : Nat} (h : a.active = some srv) : revert a srv = (a, [], true) := by
  simp [revert, h]

theorem revert_below {a : Auth} {srv act : Nat} (h : a.active = some act) (hlt : act < srv) :
    revert a srv = (a, [], false) := by
  have : srv ≠ act := by omega
  simp [revert, h, this, hlt]

theorem revert_above {a : Auth} {srv act : Nat} (h : a.active = some act) (hlt : srv < act) :
    revert a srv = (revertTo a srv, revertCmds a srv, true) := by
  have h1 : srv ≠ act := by omega
  have h2 : ¬ act < srv := by omega
  simp [revert, h, h1, h2]

/-- the per-resource update functions never look at or change `chans`, `watchers` -/
theorem updRes_key (typ ver : String) (es : List (String × Upd)) (p : Key × RState) :
    (updRes typ ver es p).1.1 = p.1 := by
  unfold updRes; split
  · split <;> rfl
  · rfl

theorem delRes_key (typ : String) (ign : Bool) (es : List (String × Upd)) (p : Key × RState) :
    (delRes typ ign es p).1.1 = p.1 := by
  unfold delRes; split <;> rfl

theorem updOne_watchers (ver : String) (r : RState) (u : Upd) :
    (updOne ver r u).1.watchers = r.watchers ∧ (updOne ver r u).1.chans = r.chans := by
  cases u <;> simp [updOne, onBad, onOk]

theorem updRes_watchers (typ ver : String) (es : List (String × Upd)) (p : Key × RState) :
    (updRes typ ver es p).1.2.watchers = p.2.watchers ∧ (updRes typ ver es p).1.2.chans = p.2.chans := by
  unfold updRes; split
  · split
    · exact updOne_watchers _ _ _
    · exact ⟨rfl, rfl⟩
  · exact ⟨rfl, rfl⟩

theorem delOne_watchers (ign present : Bool) (r : RState) :
    (delOne ign present r).1.watchers = r.watchers ∧ (delOne ign present r).1.chans = r.chans := by
  unfold delOne; repeat' split
  all_goals exact ⟨rfl, rfl⟩

theorem delRes_watchers (typ : String) (ign : Bool) (es : List (String × Upd)) (p : Key × RState) :
    (delRes typ ign es p).1.2.watchers = p.2.watchers ∧ (delRes typ ign es p).1.2.chans = p.2.chans := by
  unfold delRes; split
  · exact delOne_watchers _ _ _
  · exact ⟨rfl, rfl⟩


/-! ### the two loops of handleADSResourceUpdate, per resource -/

/-- what the watchers of one resource are told by an update that is processed -/
def updKinds (typ ver : String) (ign : Bool) (es : List (String × Upd)) (p : Key × RState) : List CbKind :=
  (updRes typ ver es p).2 ++ (if sotw typ then (delRes typ ign es (updRes typ ver es p).1).2 else [])

/-- the new state of one resource after an update that is processed -/
def updFull (typ ver : String) (ign : Bool) (es : List (String × Upd)) (p : Key × RState) : Key × RState :=
  if sotw typ then (delRes typ ign es (updRes typ ver es p).1).1 else (updRes typ ver es p).1

theorem mem_processUpdate_cbs {a : Auth} {srv : Nat} {typ ver : String} {es : List (String × Upd)} {cb : Cb} :
    cb ∈ (processUpdate a srv typ ver es).2 ↔
      ∃ p ∈ a.res, cb.w ∈ p.2.watchers ∧ cb.k ∈ updKinds typ ver (ignOf a srv) es p := by
  unfold processUpdate updKinds
  by_cases hs : sotw typ = true
  · simp only [hs, Bool.not_true, Bool.false_eq_true, ↓reduceIte, List.mem_append, List.mem_flatMap, List.mem_map, mem_bcast]
    constructor
    · rintro (⟨p, hp, hw, hk⟩ | ⟨q, ⟨p, hp, rfl⟩, hw, hk⟩)
      · exact ⟨p, hp, hw, Or.inl hk⟩
      · exact ⟨p, hp, by rw [← (updRes_watchers typ ver es p).1]; exact hw, Or.inr hk⟩
    · rintro ⟨p, hp, hw, hk | hk⟩
      · exact Or.inl ⟨p, hp, hw, hk⟩
      · exact Or.inr ⟨_, ⟨p, hp, rfl⟩, by rw [(updRes_watchers typ ver es p).1]; exact hw, hk⟩
  · simp only [hs, Bool.not_false, ↓reduceIte, List.mem_flatMap, mem_bcast, Bool.false_eq_true, List.append_nil]

theorem processUpdate_res (a : Auth) (srv : Nat) (typ ver : String) (es : List (String × Upd)) :
    (processUpdate a srv typ ver es).1 = { a with res := a.res.map (updFull typ ver (ignOf a srv) es) } := by
  unfold processUpdate updFull
  by_cases hs : sotw typ = true
  · simp [hs, List.map_map, Function.comp_def]
  · simp [hs]


theorem delOne_present (ign : Bool) (r : RState) : delOne ign true r = (r, []) := by
  unfold delOne; split <;> simp

theorem upd_other {typ ver : String} {ign : Bool} {es : List (String × Upd)} {p : Key × RState}
    (h : p.1.typ ≠ typ) : updKinds typ ver ign es p = [] ∧ updFull typ ver ign es p = p := by
  unfold updKinds updFull updRes delRes
  simp [h]

theorem upd_present {typ ver : String} {ign : Bool} {es : List (String × Upd)} {p : Key × RState} {u : Upd}
    (h : p.1.typ = typ) (he : entLookup es p.1.name = some u) :
    updKinds typ ver ign es p = (updOne ver p.2 u).2 ∧ updFull typ ver ign es p = (p.1, (updOne ver p.2 u).1) := by
  unfold updKinds updFull updRes delRes
  simp [h, he, delOne_present]

theorem upd_absent {typ ver : String} {ign : Bool} {es : List (String × Upd)} {p : Key × RState}
    (h : p.1.typ = typ) (he : entLookup es p.1.name = none) :
    updKinds typ ver ign es p = (if sotw typ then (delOne ign false p.2).2 else []) ∧
    updFull typ ver ign es p = (if sotw typ then (p.1, (delOne ign false p.2).1) else p) := by
  unfold updKinds updFull updRes delRes
  simp [h, he]


/-! ### per-resource invariant -/

/-- relations between cache, status and error state of a resourceState that hold in every reachable state -/
structure RInv (r : RState) : Prop where
  req : r.status = .requested → r.cache = none
  err : r.err.isSome = true ↔ r.status = .nacked
  ne : r.status = .notExist → r.cache = none
  ack : r.status = .acked → r.cache.isSome = true

theorem rinv_updOne {ver : String} {r : RState} (u : Upd) (h : RInv r) : RInv (updOne ver r u).1 := by
  obtain ⟨h1, h2, h3, h4⟩ := h
  cases u with
  | ok c =>
    constructor <;> simp [updOne, onOk]
    split
    · rfl
    · rename_i hn
      have : r.cache = some c := by
        by_cases hc : r.cache = some c
        · exact hc
        · exact absurd (Or.inl hc) hn
      simp [this]
  | bad t =>
    constructor <;> simp [updOne, onBad]

theorem rinv_delOne {ign present : Bool} {r : RState} (h : RInv r) : RInv (delOne ign present r).1 := by
  obtain ⟨h1, h2, h3, h4⟩ := h
  unfold delOne
  repeat' split
  all_goals first | exact ⟨h1, h2, h3, h4⟩ | (constructor <;> simp_all)

theorem rinv_updFull {typ ver : String} {ign : Bool} {es : List (String × Upd)} {p : Key × RState}
    (h : RInv p.2) : RInv (updFull typ ver ign es p).2 := by
  by_cases ht : p.1.typ = typ
  · cases he : entLookup es p.1.name with
    | some u => rw [(upd_present ht he).2]; exact rinv_updOne u h
    | none =>
      rw [(upd_absent ht he).2]
      split
      · exact rinv_delOne h
      · exact h
  · rw [(upd_other ht).2]; exact h


/-! ### shape of the resource table after each handler -/

theorem ignOf_revertTo (a : Auth) (srv i : Nat) : ignOf (revertTo a srv) i = ignOf a i := rfl

/-- handleADSResourceUpdate either ignores the update (state unchanged, `onDone` not armed) or runs the two
    loops on the table, possibly after restricting every `chans` set to the servers ≤ srv (revert) -/
theorem handleUpdate_shape (a : Auth) (srv : Nat) (typ ver : String) (es : List (String × Upd)) :
    ((revert a srv).2.2 = false ∧ handleUpdate a srv typ ver es = { auth := a, done := false }) ∨
    ((revert a srv).2.2 = true ∧ ∃ g : Key × RState → Key × RState, (g = id ∨ g = restrictChans srv) ∧
      (handleUpdate a srv typ ver es).auth.res = (a.res.map g).map (updFull typ ver (ignOf a srv) es) ∧
      (handleUpdate a srv typ ver es).done = true ∧
      (∀ cb, cb ∈ (handleUpdate a srv typ ver es).cbs ↔
        ∃ p ∈ a.res, cb.w ∈ p.2.watchers ∧ cb.k ∈ updKinds typ ver (ignOf a srv) es (g p))) := by
  cases hact : a.active with
  | none => left; simp [handleUpdate, revert_none hact]
  | some act =>
    by_cases h1 : srv = act
    · right
      subst h1
      refine ⟨by simp [revert_same hact], id, Or.inl rfl, ?_, ?_, ?_⟩
      · simp [handleUpdate, revert_same hact, processUpdate_res]
      · simp [handleUpdate, revert_same hact]
      · intro cb; simp only [handleUpdate, revert_same hact, ↓reduceIte]; rw [mem_processUpdate_cbs]; simp
    · by_cases h2 : act < srv
      · left; simp [handleUpdate, revert_below hact h2]
      · right
        have h3 : srv < act := by omega
        refine ⟨by simp [revert_above hact h3], restrictChans srv, Or.inr rfl, ?_, ?_, ?_⟩
        · simp [handleUpdate, revert_above hact h3, processUpdate_res, revertTo, ignOf]
        · simp [handleUpdate, revert_above hact h3]
        · intro cb
          simp only [handleUpdate, revert_above hact h3, ↓reduceIte]
          rw [mem_processUpdate_cbs]
          simp only [revertTo, List.mem_map, ignOf]
          constructor
          · rintro ⟨q, ⟨p, hp, rfl⟩, hw, hk⟩; exact ⟨p, hp, hw, hk⟩
          · rintro ⟨p, hp, hw, hk⟩; exact ⟨_, ⟨p, hp, rfl⟩, hw, hk⟩


theorem updKinds_chans (typ ver : String) (ign : Bool) (es : List (String × Upd)) (p : Key × RState) (x : List Nat) :
    updKinds typ ver ign es (p.1, { p.2 with chans := x }) = updKinds typ ver ign es p := by
  by_cases ht : p.1.typ = typ
  · cases he : entLookup es p.1.name with
    | some u =>
      rw [(upd_present (p := (p.1, { p.2 with chans := x })) ht he).1, (upd_present ht he).1]
      cases u <;> rfl
    | none =>
      rw [(upd_absent (p := (p.1, { p.2 with chans := x })) ht he).1, (upd_absent ht he).1]
      split
      · unfold delOne; simp only []; repeat' split
        all_goals rfl
      · rfl
  · rw [(upd_other (p := (p.1, { p.2 with chans := x })) ht).1, (upd_other ht).1]

/-- `q` is `p` up to the set of channels it is subscribed on -/
def SameCore (q p : Key × RState) : Prop := ∃ x, q = (p.1, { p.2 with chans := x })

theorem sameCore_of_g {g : Key × RState → Key × RState} {srv : Nat} (hg : g = id ∨ g = restrictChans srv)
    (p : Key × RState) : SameCore (g p) p := by
  rcases hg with rfl | rfl
  · exact ⟨p.2.chans, rfl⟩
  · exact ⟨_, rfl⟩

theorem updKinds_sameCore {typ ver : String} {ign : Bool} {es : List (String × Upd)} {q p : Key × RState}
    (h : SameCore q p) : updKinds typ ver ign es q = updKinds typ ver ign es p := by
  obtain ⟨x, rfl⟩ := h; exact updKinds_chans ..

/-- what one resource's watchers are told by an update, by cases -/
theorem mem_updKinds {typ ver : String} {ign : Bool} {es : List (String × Upd)} {p : Key × RState} {k : CbKind}
    (h : k ∈ updKinds typ ver ign es p) :
    p.1.typ = typ ∧
    ((∃ c, entLookup es p.1.name = some (.ok c) ∧ k = .changed c ∧ (p.2.cache ≠ some c ∨ p.2.err.isSome = true)) ∨
     (∃ t, entLookup es p.1.name = some (.bad t) ∧ (∀ v, p.2.err ≠ some (t, v)) ∧
        ((p.2.cache = none ∧ k = .resErr (.nack t)) ∨ (p.2.cache.isSome = true ∧ k = .ambErr (.nack t)))) ∨
     (entLookup es p.1.name = none ∧ sotw typ = true ∧ p.2.cache.isSome = true ∧ p.2.status ≠ .notExist ∧ ign = false ∧
        k = .resErr .notFound)) := by
  by_cases ht : p.1.typ = typ
  · refine ⟨ht, ?_⟩
    cases he : entLookup es p.1.name with
    | some u =>
      rw [(upd_present ht he).1] at h
      cases u with
      | ok c =>
        left
        simp only [updOne, onOk] at h
        split at h
        · rename_i hc
          simp only [List.mem_singleton] at h
          refine ⟨c, rfl, h, ?_⟩
          simpa using hc
        · simp at h
      | bad t =>
        right; left
        simp only [updOne, onBad] at h
        have key : ∀ kk, kk = (if p.2.cache.isNone then CbKind.resErr (.nack t) else CbKind.ambErr (.nack t)) →
            ((p.2.cache = none ∧ kk = .resErr (.nack t)) ∨ (p.2.cache.isSome = true ∧ kk = .ambErr (.nack t))) := by
          intro kk hk
          cases hc : p.2.cache with
          | none => left; simp [hc] at hk; exact ⟨rfl, hk⟩
          | some c => right; simp [hc] at hk; exact ⟨rfl, hk⟩
        cases herr : p.2.err with
        | none =>
          simp only [herr, ↓reduceIte, List.mem_singleton] at h
          exact ⟨t, rfl, by simp, key k h⟩
        | some tv =>
          obtain ⟨t', v'⟩ := tv
          simp only [herr] at h
          by_cases hne : (t' != t) = true
          · simp only [hne, ↓reduceIte, List.mem_singleton] at h
            refine ⟨t, rfl, ?_, key k h⟩
            intro v hv
            simp only [Option.some.injEq, Prod.mk.injEq] at hv
            simp [hv.1] at hne
          · simp [hne] at h
    | none =>
      right; right
      rw [(upd_absent ht he).1] at h
      split at h
      · rename_i hs
        unfold delOne at h
        split at h
        · simp at h
        · rename_i hc
          simp only [Bool.false_eq_true, ↓reduceIte] at h
          split at h
          · simp at h
          · rename_i hst
            split at h
            · simp at h
            · rename_i hi
              simp only [List.mem_singleton] at h
              refine ⟨rfl, hs, ?_, hst, by simpa using hi, h⟩
              cases hcc : p.2.cache <;> simp_all
      · simp at h
  · rw [(upd_other ht).1] at h; simp at h


theorem updKinds_ok {typ ver : String} {ign : Bool} {es : List (String × Upd)} {p : Key × RState} {c : String}
    (ht : p.1.typ = typ) (he : entLookup es p.1.name = some (.ok c)) :
    updKinds typ ver ign es p = if p.2.cache ≠ some c ∨ p.2.err.isSome = true then [.changed c] else [] := by
  rw [(upd_present ht he).1]
  simp only [updOne, onOk]
  by_cases h1 : p.2.cache = some c <;> by_cases h2 : p.2.err.isSome = true <;> simp [h1, h2]

theorem updKinds_bad {typ ver : String} {ign : Bool} {es : List (String × Upd)} {p : Key × RState} {t : String}
    (ht : p.1.typ = typ) (he : entLookup es p.1.name = some (.bad t)) :
    updKinds typ ver ign es p =
      if p.2.err.map (·.1) = some t then []
      else [if p.2.cache.isNone then CbKind.resErr (.nack t) else CbKind.ambErr (.nack t)] := by
  rw [(upd_present ht he).1]
  simp only [updOne, onBad]
  cases herr : p.2.err with
  | none => simp
  | some tv =>
    obtain ⟨t', v'⟩ := tv
    by_cases hne : t' = t
    · subst hne; simp
    · simp [hne]

theorem updKinds_absent {typ ver : String} {ign : Bool} {es : List (String × Upd)} {p : Key × RState}
    (ht : p.1.typ = typ) (he : entLookup es p.1.name = none) :
    updKinds typ ver ign es p =
      if sotw typ = true ∧ p.2.cache.isSome = true ∧ p.2.status ≠ .notExist ∧ ign = false then [.resErr .notFound] else [] := by
  rw [(upd_absent ht he).1]
  by_cases hs : sotw typ = true
  · simp only [hs, ↓reduceIte, true_and]
    unfold delOne
    cases hc : p.2.cache <;> cases ign <;> by_cases hst : p.2.status = .notExist <;> simp [hst]
  · simp [hs]


theorem sameCore_fields {q p : Key × RState} (h : SameCore q p) :
    q.1 = p.1 ∧ q.2.watchers = p.2.watchers ∧ q.2.cache = p.2.cache ∧ q.2.status = p.2.status ∧ q.2.err = p.2.err := by
  obtain ⟨x, rfl⟩ := h; exact ⟨rfl, rfl, rfl, rfl, rfl⟩

/-- where a cached value comes from: this very update accepted it, or it was cached before -/
theorem cache_updFull {typ ver : String} {ign : Bool} {es : List (String × Upd)} {q : Key × RState} {c : String}
    (hc : (updFull typ ver ign es q).2.cache = some c) :
    (q.1.typ = typ ∧ entLookup es q.1.name = some (.ok c)) ∨ q.2.cache = some c := by
  by_cases ht : q.1.typ = typ
  · cases he : entLookup es q.1.name with
    | some u =>
      rw [(upd_present ht he).2] at hc
      cases u with
      | ok c' =>
        simp only [updOne, onOk] at hc
        split at hc
        · left; simp at hc; subst hc; exact ⟨ht, rfl⟩
        · right; exact hc
      | bad t => right; simpa [updOne, onBad] using hc
    | none =>
      rw [(upd_absent ht he).2] at hc
      split at hc
      · right
        unfold delOne at hc
        repeat' split at hc
        all_goals simp_all
      · right; exact hc
  · rw [(upd_other ht).2] at hc; right; exact hc

theorem updFull_key (typ ver : String) (ign : Bool) (es : List (String × Upd)) (q : Key × RState) :
    (updFull typ ver ign es q).1 = q.1 ∧ (updFull typ ver ign es q).2.watchers = q.2.watchers ∧
    (updFull typ ver ign es q).2.chans = q.2.chans := by
  unfold updFull
  split
  · exact ⟨by rw [delRes_key, updRes_key], by rw [(delRes_watchers ..).1, (updRes_watchers ..).1],
      by rw [(delRes_watchers ..).2, (updRes_watchers ..).2]⟩
  · exact ⟨updRes_key .., (updRes_watchers ..).1, (updRes_watchers ..).2⟩

theorem cache_step {a : Auth} {e : AEv} {p' : Key × RState} {c : String}
    (hp : p' ∈ (a.step e).auth.res) (hc : p'.2.cache = some c) :
    (∃ srv gen ver es, e = .update srv gen p'.1.typ ver es ∧ entLookup es p'.1.name = some (.ok c)) ∨
    (∃ q ∈ a.res, q.1 = p'.1 ∧ q.2.cache = some c) := by
  cases e with
  | update srv gen typ ver es =>
    simp only [Auth.step] at hp
    rcases handleUpdate_shape a srv typ ver es with ⟨_, h⟩ | ⟨_, g, hg, hres, _, _⟩
    · rw [h] at hp; exact Or.inr ⟨p', hp, rfl, hc⟩
    · rw [hres] at hp
      simp only [List.mem_map] at hp
      obtain ⟨_, ⟨p, hpa, rfl⟩, rfl⟩ := hp
      have hs := sameCore_fields (sameCore_of_g hg p)
      have hk := updFull_key typ ver (ignOf a srv) es (g p)
      rcases cache_updFull hc with ⟨ht, he⟩ | h
      · left; refine ⟨srv, gen, ver, es, ?_, ?_⟩
        · rw [hk.1, ht]
        · rw [hk.1]; exact he
      · right; exact ⟨p, hpa, by rw [hk.1, hs.1], by rw [← hs.2.2.1]; exact h⟩
  | dne k =>
    right
    simp only [Auth.step, handleDNE, List.mem_map] at hp
    obtain ⟨p, hpa, rfl⟩ := hp
    split at hc
    · simp at hc
    · rename_i hne; simp only [hne, ↓reduceIte]; exact ⟨p, hpa, rfl, hc⟩
  | failure srv after =>
    right
    simp only [Auth.step, handleFailure] at hp
    split at hp
    · exact ⟨p', hp, rfl, hc⟩
    · split at hp
      · exact ⟨p', hp, rfl, hc⟩
      · split at hp
        · simp only [fallbackTo, List.mem_map] at hp
          obtain ⟨p, hpa, rfl⟩ := hp
          exact ⟨p, hpa, rfl, hc⟩
        · exact ⟨p', hp, rfl, hc⟩
  | watch k w =>
    right
    simp only [Auth.step, watch] at hp
    split at hp
    · simp only [List.mem_append, List.mem_singleton] at hp
      rcases hp with hp | rfl
      · exact ⟨p', hp, rfl, hc⟩
      · simp [newRState] at hc
    · simp only [List.mem_map] at hp
      obtain ⟨p, hpa, rfl⟩ := hp
      refine ⟨p, hpa, ?_, ?_⟩
      · unfold addWatcher; split <;> rfl
      · unfold addWatcher at hc; split at hc <;> exact hc
  | unwatch k w =>
    right
    simp only [Auth.step, unwatch] at hp
    split at hp
    · exact ⟨p', hp, rfl, hc⟩
    · split at hp
      · simp only [List.mem_map] at hp
        obtain ⟨p, hpa, rfl⟩ := hp
        refine ⟨p, hpa, ?_, ?_⟩
        · unfold dropWatcher; split <;> rfl
        · unfold dropWatcher at hc; split at hc <;> exact hc
      · split at hp
        · simp at hp
        · simp only [List.mem_filter] at hp
          exact ⟨p', hp.1, rfl, hc⟩


theorem lookup_mem {res : List (Key × RState)} {k : Key} {r : RState} (h : lookup res k = some r) : (k, r) ∈ res := by
  unfold lookup at h
  cases hf : res.find? (·.1 = k) with
  | none => simp [hf] at h
  | some p =>
    simp [hf] at h
    have := List.find?_some hf
    have hm := List.mem_of_find?_eq_some hf
    simp at this
    subst h; rw [← this]; exact hm

theorem mem_initialKinds_changed {r : RState} {c : String} (h : CbKind.changed c ∈ initialKinds r) : r.cache = some c := by
  unfold initialKinds at h
  simp only [List.mem_append] at h
  rcases h with (h | h) | h
  · split at h <;> simp_all
  · split at h
    · split at h
      · split at h <;> simp at h
      · simp at h
    · simp at h
  · split at h <;> simp at h

/-- a Changed callback: this update accepted the content for a resource the watcher watches, or the
    watcher is new and the content is what is cached. In both cases it is the cache afterwards. -/
theorem changed_step {a : Auth} {e : AEv} {w : Nat} {c : String}
    (h : (⟨w, .changed c⟩ : Cb) ∈ (a.step e).cbs) :
    ∃ p' ∈ (a.step e).auth.res, w ∈ p'.2.watchers ∧ p'.2.cache = some c := by
  cases e with
  | update srv gen typ ver es =>
    simp only [Auth.step] at h ⊢
    rcases handleUpdate_shape a srv typ ver es with ⟨_, h0⟩ | ⟨_, g, hg, hres, _, hcb⟩
    · rw [h0] at h; simp at h
    · rw [hcb] at h
      obtain ⟨p, hpa, hw, hk⟩ := h
      have hs := sameCore_fields (sameCore_of_g hg p)
      have hk' := mem_updKinds hk
      have hkey := updFull_key typ ver (ignOf a srv) es (g p)
      refine ⟨updFull typ ver (ignOf a srv) es (g p), ?_, ?_, ?_⟩
      · rw [hres]; exact List.mem_map_of_mem (List.mem_map_of_mem hpa)
      · rw [hkey.2.1, hs.2.1]; exact hw
      · obtain ⟨ht, hcase⟩ := hk'
        rcases hcase with ⟨c', he, hkc, hchg⟩ | ⟨t, _, _, h3⟩ | ⟨_, _, _, _, _, h6⟩
        · simp only [CbKind.changed.injEq] at hkc
          subst hkc
          rw [(upd_present ht he).2]
          simp only [updOne, onOk]
          have : (((g p).2.cache != some c) || (g p).2.err.isSome) = true := by
            rcases hchg with h1 | h1
            · simp [h1]
            · simp [h1]
          simp [this]
        · rcases h3 with ⟨_, h3⟩ | ⟨_, h3⟩ <;> simp at h3
        · simp at h6
  | dne k =>
    simp only [Auth.step, handleDNE, List.mem_flatMap, mem_bcast] at h
    obtain ⟨p, _, _, hk⟩ := h
    split at hk <;> simp at hk
  | failure srv after =>
    simp only [Auth.step, handleFailure] at h
    split at h
    · simp at h
    · split at h
      · simp only [propagate, List.mem_flatMap, mem_bcast] at h
        obtain ⟨p, _, _, hk⟩ := h
        simp only [List.mem_singleton] at hk
        split at hk <;> simp at hk
      · split at h
        · simp [fallbackTo] at h
        · simp only [propagate, List.mem_flatMap, mem_bcast] at h
          obtain ⟨p, _, _, hk⟩ := h
          simp only [List.mem_singleton] at hk
          split at hk <;> simp at hk
  | watch k w' =>
    simp only [Auth.step, watch] at h ⊢
    split at h
    · simp [initialCbs, initialKinds, newRState] at h
    · rename_i r hl
      simp only [initialCbs, List.mem_map] at h
      obtain ⟨kk, hkk, heq⟩ := h
      simp only [Cb.mk.injEq] at heq
      obtain ⟨rfl, rfl⟩ := heq
      have hc := mem_initialKinds_changed hkk
      have hm := lookup_mem hl
      refine ⟨addWatcher k w' (k, r), List.mem_map_of_mem hm, ?_, ?_⟩
      · simp [addWatcher]
      · simp [addWatcher, hc]
  | unwatch k w' =>
    simp only [Auth.step, unwatch] at h
    split at h
    · simp at h
    · split at h
      · simp at h
      · split at h <;> simp at h


theorem run_snoc (a : Auth) (es : List AEv) (e : AEv) :
    Auth.run a (es ++ [e]) = ((Auth.run a es).step e).auth := by
  induction es generalizing a with
  | nil => rfl
  | cons x xs ih => simp only [List.cons_append, Auth.run]; exact ih _

end GrpcProofs.Lemmas.XdsAuth
