import GrpcModel.Model.XdsAuth
import GrpcModel.Model.XdsAuthSpec
/-! Helper lemmas for C43 / C44 (model: GrpcModel/Model/XdsAuth.lean, layer A). -/
namespace GrpcProofs.Lemmas.XdsAuth
open GrpcModel.XdsAuth GrpcModel.XdsAuth.Spec

theorem mem_bcast {r : RState} {ks : List CbKind} {cb : Cb} :
    cb ∈ bcast r ks ↔ cb.w ∈ r.watchers ∧ cb.k ∈ ks := by
  unfold bcast
  simp only [List.mem_flatMap, List.mem_map]
  constructor
  · rintro ⟨w, hw, k, hk, rfl⟩; exact ⟨hw, hk⟩
  · rintro ⟨hw, hk⟩; exact ⟨cb.w, hw, cb.k, hk, rfl⟩

/-! ### revert (handleRevertingToPrimaryOnUpdate) -/

theorem revert_none {a : Auth} {srv : Nat} (h : a.active = none) : revert a srv = (a, [], false) := by
  simp [revert, h]

theorem revert_same {a : Auth} {srv : Nat} (h : a.active = some srv) : revert a srv = (a, [], true) := by
  simp [revert, h]

theorem revert_below {a : Auth} {srv act : Nat} (h : a.active = some act) (hlt : act < srv) :
    revert a srv = (a, [], false) := by
  have : srv ≠ act := by omega
  simp [revert, h, this, hlt]

theorem revert_above {a : Auth} {srv act : Nat} (h : a.active = some act) (hlt : srv < act) :
    revert a srv = (revertTo a srv, revertCmds a srv, true) := by
  have h1 : srv ≠ act := by omega
  have h2 : ¬ act < srv := by omega
  simp [revert, h, h1, h2]

/-- the per-resource update functions never look at or change `chans`, `watchers` -/
theorem updRes_key (typ ver : String) (es : List (String × Upd)) (p : Key × RState) :
    (updRes typ ver es p).1.1 = p.1 := by
  unfold updRes; split
  · split <;> rfl
  · rfl

theorem delRes_key (typ : String) (ign : Bool) (es : List (String × Upd)) (p : Key × RState) :
    (delRes typ ign es p).1.1 = p.1 := by
  unfold delRes; split <;> rfl

theorem updOne_watchers (ver : String) (r : RState) (u : Upd) :
    (updOne ver r u).1.watchers = r.watchers ∧ (updOne ver r u).1.chans = r.chans := by
  cases u <;> simp [updOne, onBad, onOk]

theorem updRes_watchers (typ ver : String) (es : List (String × Upd)) (p : Key × RState) :
    (updRes typ ver es p).1.2.watchers = p.2.watchers ∧ (updRes typ ver es p).1.2.chans = p.2.chans := by
  unfold updRes; split
  · split
    · exact updOne_watchers _ _ _
    · exact ⟨rfl, rfl⟩
  · exact ⟨rfl, rfl⟩

theorem delOne_watchers (ign present : Bool) (r : RState) :
    (delOne ign present r).1.watchers = r.watchers ∧ (delOne ign present r).1.chans = r.chans := by
  unfold delOne; repeat' split
  all_goals exact ⟨rfl, rfl⟩

theorem delRes_watchers (typ : String) (ign : Bool) (es : List (String × Upd)) (p : Key × RState) :
    (delRes typ ign es p).1.2.watchers = p.2.watchers ∧ (delRes typ ign es p).1.2.chans = p.2.chans := by
  unfold delRes; split
  · exact delOne_watchers _ _ _
  · exact ⟨rfl, rfl⟩


/-! ### the two loops of handleADSResourceUpdate, per resource -/

/-- what the watchers of one resource are told by an update that is processed -/
def updKinds (typ ver : String) (ign : Bool) (es : List (String × Upd)) (p : Key × RState) : List CbKind :=
  (updRes typ ver es p).2 ++ (if sotw typ then (delRes typ ign es (updRes typ ver es p).1).2 else [])

/-- the new state of one resource after an update that is processed -/
def updFull (typ ver : String) (ign : Bool) (es : List (String × Upd)) (p : Key × RState) : Key × RState :=
  if sotw typ then (delRes typ ign es (updRes typ ver es p).1).1 else (updRes typ ver es p).1

theorem mem_processUpdate_cbs {a : Auth} {srv : Nat} {typ ver : String} {es : List (String × Upd)} {cb : Cb} :
    cb ∈ (processUpdate a srv typ ver es).2 ↔
      ∃ p ∈ a.res, cb.w ∈ p.2.watchers ∧ cb.k ∈ updKinds typ ver (ignOf a srv) es p := by
  unfold processUpdate updKinds
  by_cases hs : sotw typ = true
  · simp only [hs, Bool.not_true, Bool.false_eq_true, ↓reduceIte, List.mem_append, List.mem_flatMap, List.mem_map, mem_bcast]
    constructor
    · rintro (⟨p, hp, hw, hk⟩ | ⟨q, ⟨p, hp, rfl⟩, hw, hk⟩)
      · exact ⟨p, hp, hw, Or.inl hk⟩
      · exact ⟨p, hp, by rw [← (updRes_watchers typ ver es p).1]; exact hw, Or.inr hk⟩
    · rintro ⟨p, hp, hw, hk | hk⟩
      · exact Or.inl ⟨p, hp, hw, hk⟩
      · exact Or.inr ⟨_, ⟨p, hp, rfl⟩, by rw [(updRes_watchers typ ver es p).1]; exact hw, hk⟩
  · simp only [hs, Bool.not_false, ↓reduceIte, List.mem_flatMap, mem_bcast, Bool.false_eq_true, List.append_nil]

theorem processUpdate_res (a : Auth) (srv : Nat) (typ ver : String) (es : List (String × Upd)) :
    (processUpdate a srv typ ver es).1 = { a with res := a.res.map (updFull typ ver (ignOf a srv) es) } := by
  unfold processUpdate updFull
  by_cases hs : sotw typ = true
  · simp [hs, List.map_map, Function.comp_def]
  · simp [hs]


theorem delOne_present (ign : Bool) (r : RState) : delOne ign true r = (r, []) := by
  unfold delOne; split <;> simp

theorem upd_other {typ ver : String} {ign : Bool} {es : List (String × Upd)} {p : Key × RState}
    (h : p.1.typ ≠ typ) : updKinds typ ver ign es p = [] ∧ updFull typ ver ign es p = p := by
  unfold updKinds updFull updRes delRes
  simp [h]

theorem upd_present {typ ver : String} {ign : Bool} {es : List (String × Upd)} {p : Key × RState} {u : Upd}
    (h : p.1.typ = typ) (he : entLookup es p.1.name = some u) :
    updKinds typ ver ign es p = (updOne ver p.2 u).2 ∧ updFull typ ver ign es p = (p.1, (updOne ver p.2 u).1) := by
  unfold updKinds updFull updRes delRes
  simp [h, he, delOne_present]

theorem upd_absent {typ ver : String} {ign : Bool} {es : List (String × Upd)} {p : Key × RState}
    (h : p.1.typ = typ) (he : entLookup es p.1.name = none) :
    updKinds typ ver ign es p = (if sotw typ then (delOne ign false p.2).2 else []) ∧
    updFull typ ver ign es p = (if sotw typ then (p.1, (delOne ign false p.2).1) else p) := by
  unfold updKinds updFull updRes delRes
  simp [h, he]


/-! ### per-resource invariant -/

/-- relations between cache, status and error state of a resourceState that hold in every reachable state -/
structure RInv (r : RState) : Prop where
  req : r.status = .requested → r.cache = none
  err : r.err.isSome = true ↔ r.status = .nacked
  ne : r.status = .notExist → r.cache = none
  ack : r.status = .acked → r.cache.isSome = true

theorem rinv_updOne {ver : String} {r : RState} (u : Upd) (h : RInv r) : RInv (updOne ver r u).1 := by
  obtain ⟨h1, h2, h3, h4⟩ := h
  cases u with
  | ok c =>
    constructor <;> simp [updOne, onOk]
    split
    · rfl
    · rename_i hn
      have : r.cache = some c := by
        by_cases hc : r.cache = some c
        · exact hc
        · exact absurd (Or.inl hc) hn
      simp [this]
  | bad t =>
    constructor <;> simp [updOne, onBad]

theorem rinv_delOne {ign present : Bool} {r : RState} (h : RInv r) : RInv (delOne ign present r).1 := by
  obtain ⟨h1, h2, h3, h4⟩ := h
  unfold delOne
  repeat' split
  all_goals first | exact ⟨h1, h2, h3, h4⟩ | (constructor <;> simp_all)

theorem rinv_updFull {typ ver : String} {ign : Bool} {es : List (String × Upd)} {p : Key × RState}
    (h : RInv p.2) : RInv (updFull typ ver ign es p).2 := by
  by_cases ht : p.1.typ = typ
  · cases he : entLookup es p.1.name with
    | some u => rw [(upd_present ht he).2]; exact rinv_updOne u h
    | none =>
      rw [(upd_absent ht he).2]
      split
      · exact rinv_delOne h
      · exact h
  · rw [(upd_other ht).2]; exact h


/-! ### shape of the resource table after each handler -/

theorem ignOf_revertTo (a : Auth) (srv i : Nat) : ignOf (revertTo a srv) i = ignOf a i := rfl

/-- handleADSResourceUpdate either ignores the update (state unchanged, `onDone` not armed) or runs the two
    loops on the table, possibly after restricting every `chans` set to the servers ≤ srv (revert) -/
theorem handleUpdate_shape (a : Auth) (srv : Nat) (typ ver : String) (es : List (String × Upd)) :
    ((revert a srv).2.2 = false ∧ handleUpdate a srv typ ver es = { auth := a, done := false }) ∨
    ((revert a srv).2.2 = true ∧ ∃ g : Key × RState → Key × RState, (g = id ∨ g = restrictChans srv) ∧
      (handleUpdate a srv typ ver es).auth.res = (a.res.map g).map (updFull typ ver (ignOf a srv) es) ∧
      (handleUpdate a srv typ ver es).done = true ∧
      (∀ cb, cb ∈ (handleUpdate a srv typ ver es).cbs ↔
        ∃ p ∈ a.res, cb.w ∈ p.2.watchers ∧ cb.k ∈ updKinds typ ver (ignOf a srv) es (g p))) := by
  cases hact : a.active with
  | none => left; simp [handleUpdate, revert_none hact]
  | some act =>
    by_cases h1 : srv = act
    · right
      subst h1
      refine ⟨by simp [revert_same hact], id, Or.inl rfl, ?_, ?_, ?_⟩
      · simp [handleUpdate, revert_same hact, processUpdate_res]
      · simp [handleUpdate, revert_same hact]
      · intro cb; simp only [handleUpdate, revert_same hact, ↓reduceIte]; rw [mem_processUpdate_cbs]; simp
    · by_cases h2 : act < srv
      · left; simp [handleUpdate, revert_below hact h2]
      · right
        have h3 : srv < act := by omega
        refine ⟨by simp [revert_above hact h3], restrictChans srv, Or.inr rfl, ?_, ?_, ?_⟩
        · simp [handleUpdate, revert_above hact h3, processUpdate_res, revertTo, ignOf]
        · simp [handleUpdate, revert_above hact h3]
        · intro cb
          simp only [handleUpdate, revert_above hact h3, ↓reduceIte]
          rw [mem_processUpdate_cbs]
          simp only [revertTo, List.mem_map, ignOf]
          constructor
          · rintro ⟨q, ⟨p, hp, rfl⟩, hw, hk⟩; exact ⟨p, hp, hw, hk⟩
          · rintro ⟨p, hp, hw, hk⟩; exact ⟨_, ⟨p, hp, rfl⟩, hw, hk⟩


theorem updKinds_chans (typ ver : String) (ign : Bool) (es : List (String × Upd)) (p : Key × RState) (x : List Nat) :
    updKinds typ ver ign es (p.1, { p.2 with chans := x }) = updKinds typ ver ign es p := by
  by_cases ht : p.1.typ = typ
  · cases he : entLookup es p.1.name with
    | some u =>
      rw [(upd_present (p := (p.1, { p.2 with chans := x })) ht he).1, (upd_present ht he).1]
      cases u <;> rfl
    | none =>
      rw [(upd_absent (p := (p.1, { p.2 with chans := x })) ht he).1, (upd_absent ht he).1]
      split
      · unfold delOne; simp only []; repeat' split
        all_goals rfl
      · rfl
  · rw [(upd_other (p := (p.1, { p.2 with chans := x })) ht).1, (upd_other ht).1]

/-- `q` is `p` up to the set of channels it is subscribed on -/
def SameCore (q p : Key × RState) : Prop := ∃ x, q = (p.1, { p.2 with chans := x })

theorem sameCore_of_g {g : Key × RState → Key × RState} {srv : Nat} (hg : g = id ∨ g = restrictChans srv)
    (p : Key × RState) : SameCore (g p) p := by
  rcases hg with rfl | rfl
  · exact ⟨p.2.chans, rfl⟩
  · exact ⟨_, rfl⟩

theorem updKinds_sameCore {typ ver : String} {ign : Bool} {es : List (String × Upd)} {q p : Key × RState}
    (h : SameCore q p) : updKinds typ ver ign es q = updKinds typ ver ign es p := by
  obtain ⟨x, rfl⟩ := h; exact updKinds_chans ..

/-- what one resource's watchers are told by an update, by cases -/
theorem mem_updKinds {typ ver : String} {ign : Bool} {es : List (String × Upd)} {p : Key × RState} {k : CbKind}
    (h : k ∈ updKinds typ ver ign es p) :
    p.1.typ = typ ∧
    ((∃ c, entLookup es p.1.name = some (.ok c) ∧ k = .changed c ∧ (p.2.cache ≠ some c ∨ p.2.err.isSome = true)) ∨
     (∃ t, entLookup es p.1.name = some (.bad t) ∧ (∀ v, p.2.err ≠ some (t, v)) ∧
        ((p.2.cache = none ∧ k = .resErr (.nack t)) ∨ (p.2.cache.isSome = true ∧ k = .ambErr (.nack t)))) ∨
     (entLookup es p.1.name = none ∧ sotw typ = true ∧ p.2.cache.isSome = true ∧ p.2.status ≠ .notExist ∧ ign = false ∧
        k = .resErr .notFound)) := by
  by_cases ht : p.1.typ = typ
  · refine ⟨ht, ?_⟩
    cases he : entLookup es p.1.name with
    | some u =>
      rw [(upd_present ht he).1] at h
      cases u with
      | ok c =>
        left
        simp only [updOne, onOk] at h
        split at h
        · rename_i hc
          simp only [List.mem_singleton] at h
          refine ⟨c, rfl, h, ?_⟩
          simpa using hc
        · simp at h
      | bad t =>
        right; left
        simp only [updOne, onBad] at h
        have key : ∀ kk, kk = (if p.2.cache.isNone then CbKind.resErr (.nack t) else CbKind.ambErr (.nack t)) →
            ((p.2.cache = none ∧ kk = .resErr (.nack t)) ∨ (p.2.cache.isSome = true ∧ kk = .ambErr (.nack t))) := by
          intro kk hk
          cases hc : p.2.cache with
          | none => left; simp [hc] at hk; exact ⟨rfl, hk⟩
          | some c => right; simp [hc] at hk; exact ⟨rfl, hk⟩
        cases herr : p.2.err with
        | none =>
          simp only [herr, ↓reduceIte, List.mem_singleton] at h
          exact ⟨t, rfl, by simp, key k h⟩
        | some tv =>
          obtain ⟨t', v'⟩ := tv
          simp only [herr] at h
          by_cases hne : (t' != t) = true
          · simp only [hne, ↓reduceIte, List.mem_singleton] at h
            refine ⟨t, rfl, ?_, key k h⟩
            intro v hv
            simp only [Option.some.injEq, Prod.mk.injEq] at hv
            simp [hv.1] at hne
          · simp [hne] at h
    | none =>
      right; right
      rw [(upd_absent ht he).1] at h
      split at h
      · rename_i hs
        unfold delOne at h
        split at h
        · simp at h
        · rename_i hc
          simp only [Bool.false_eq_true, ↓reduceIte] at h
          split at h
          · simp at h
          · rename_i hst
            split at h
            · simp at h
            · rename_i hi
              simp only [List.mem_singleton] at h
              refine ⟨rfl, hs, ?_, hst, by simpa using hi, h⟩
              cases hcc : p.2.cache <;> simp_all
      · simp at h
  · rw [(upd_other ht).1] at h; simp at h


theorem updKinds_ok {typ ver : String} {ign : Bool} {es : List (String × Upd)} {p : Key × RState} {c : String}
    (ht : p.1.typ = typ) (he : entLookup es p.1.name = some (.ok c)) :
    updKinds typ ver ign es p = if p.2.cache ≠ some c ∨ p.2.err.isSome = true then [.changed c] else [] := by
  rw [(upd_present ht he).1]
  simp only [updOne, onOk]
  by_cases h1 : p.2.cache = some c <;> by_cases h2 : p.2.err.isSome = true <;> simp [h1, h2]

theorem updKinds_bad {typ ver : String} {ign : Bool} {es : List (String × Upd)} {p : Key × RState} {t : String}
    (ht : p.1.typ = typ) (he : entLookup es p.1.name = some (.bad t)) :
    updKinds typ ver ign es p =
      if p.2.err.map (·.1) = some t then []
      else [if p.2.cache.isNone then CbKind.resErr (.nack t) else CbKind.ambErr (.nack t)] := by
  rw [(upd_present ht he).1]
  simp only [updOne, onBad]
  cases herr : p.2.err with
  | none => simp
  | some tv =>
    obtain ⟨t', v'⟩ := tv
    by_cases hne : t' = t
    · subst hne; simp
    · simp [hne]

theorem updKinds_absent {typ ver : String} {ign : Bool} {es : List (String × Upd)} {p : Key × RState}
    (ht : p.1.typ = typ) (he : entLookup es p.1.name = none) :
    updKinds typ ver ign es p =
      if sotw typ = true ∧ p.2.cache.isSome = true ∧ p.2.status ≠ .notExist ∧ ign = false then [.resErr .notFound] else [] := by
  rw [(upd_absent ht he).1]
  by_cases hs : sotw typ = true
  · simp only [hs, ↓reduceIte, true_and]
    unfold delOne
    cases hc : p.2.cache <;> cases ign <;> by_cases hst : p.2.status = .notExist <;> simp [hst]
  · simp [hs]


/-- watchResource either fails at once (no channel and the first server's transport cannot be created) or is
    `watch` -/
theorem watchResource_cases (a : Auth) (k : Key) (w : Nat) :
    (cannotStart a = true ∧ watchResource a k w = { auth := a, cbs := [⟨w, .resErr .other⟩] }) ∨
    (cannotStart a = false ∧ watchResource a k w = watch a k w) := by
  unfold watchResource
  cases h : cannotStart a <;> simp

theorem sameCore_fields {q p : Key × RState} (h : SameCore q p) :
    q.1 = p.1 ∧ q.2.watchers = p.2.watchers ∧ q.2.cache = p.2.cache ∧ q.2.status = p.2.status ∧ q.2.err = p.2.err := by
  obtain ⟨x, rfl⟩ := h; exact ⟨rfl, rfl, rfl, rfl, rfl⟩

/-- where a cached value comes from: this very update accepted it, or it was cached before -/
theorem cache_updFull {typ ver : String} {ign : Bool} {es : List (String × Upd)} {q : Key × RState} {c : String}
    (hc : (updFull typ ver ign es q).2.cache = some c) :
    (q.1.typ = typ ∧ entLookup es q.1.name = some (.ok c)) ∨ q.2.cache = some c := by
  by_cases ht : q.1.typ = typ
  · cases he : entLookup es q.1.name with
    | some u =>
      rw [(upd_present ht he).2] at hc
      cases u with
      | ok c' =>
        simp only [updOne, onOk] at hc
        split at hc
        · left; simp at hc; subst hc; exact ⟨ht, rfl⟩
        · right; exact hc
      | bad t => right; simpa [updOne, onBad] using hc
    | none =>
      rw [(upd_absent ht he).2] at hc
      split at hc
      · right
        unfold delOne at hc
        repeat' split at hc
        all_goals simp_all
      · right; exact hc
  · rw [(upd_other ht).2] at hc; right; exact hc

theorem updFull_key (typ ver : String) (ign : Bool) (es : List (String × Upd)) (q : Key × RState) :
    (updFull typ ver ign es q).1 = q.1 ∧ (updFull typ ver ign es q).2.watchers = q.2.watchers ∧
    (updFull typ ver ign es q).2.chans = q.2.chans := by
  unfold updFull
  split
  · exact ⟨by rw [delRes_key, updRes_key], by rw [(delRes_watchers ..).1, (updRes_watchers ..).1],
      by rw [(delRes_watchers ..).2, (updRes_watchers ..).2]⟩
  · exact ⟨updRes_key .., (updRes_watchers ..).1, (updRes_watchers ..).2⟩

theorem cache_step {a : Auth} {e : AEv} {p' : Key × RState} {c : String}
    (hp : p' ∈ (a.step e).auth.res) (hc : p'.2.cache = some c) :
    (∃ srv gen ver es, e = .update srv gen p'.1.typ ver es ∧ entLookup es p'.1.name = some (.ok c)) ∨
    (∃ q ∈ a.res, q.1 = p'.1 ∧ q.2.cache = some c) := by
  cases e with
  | update srv gen typ ver es =>
    simp only [Auth.step] at hp
    rcases handleUpdate_shape a srv typ ver es with ⟨_, h⟩ | ⟨_, g, hg, hres, _, _⟩
    · rw [h] at hp; exact Or.inr ⟨p', hp, rfl, hc⟩
    · rw [hres] at hp
      simp only [List.mem_map] at hp
      obtain ⟨_, ⟨p, hpa, rfl⟩, rfl⟩ := hp
      have hs := sameCore_fields (sameCore_of_g hg p)
      have hk := updFull_key typ ver (ignOf a srv) es (g p)
      rcases cache_updFull hc with ⟨ht, he⟩ | h
      · left; refine ⟨srv, gen, ver, es, ?_, ?_⟩
        · rw [hk.1, ht]
        · rw [hk.1]; exact he
      · right; exact ⟨p, hpa, by rw [hk.1, hs.1], by rw [← hs.2.2.1]; exact h⟩
  | dne k =>
    right
    simp only [Auth.step, handleDNE, List.mem_map] at hp
    obtain ⟨p, hpa, rfl⟩ := hp
    split at hc
    · simp at hc
    · rename_i hne; simp only [hne, ↓reduceIte]; exact ⟨p, hpa, rfl, hc⟩
  | failure srv after =>
    right
    simp only [Auth.step, handleFailure] at hp
    split at hp
    · exact ⟨p', hp, rfl, hc⟩
    · split at hp
      · exact ⟨p', hp, rfl, hc⟩
      · split at hp
        · simp only [fallbackTo, List.mem_map] at hp
          obtain ⟨p, hpa, rfl⟩ := hp
          exact ⟨p, hpa, rfl, hc⟩
        · exact ⟨p', hp, rfl, hc⟩
  | env l => right; exact ⟨p', hp, rfl, hc⟩
  | watch k w =>
    right
    simp only [Auth.step] at hp
    rcases watchResource_cases a k w with ⟨_, hwr⟩ | ⟨_, hwr⟩ <;> rw [hwr] at hp
    · exact ⟨p', hp, rfl, hc⟩
    simp only [watch] at hp
    split at hp
    · simp only [List.mem_append, List.mem_singleton] at hp
      rcases hp with hp | rfl
      · exact ⟨p', hp, rfl, hc⟩
      · simp [newRState] at hc
    · simp only [List.mem_map] at hp
      obtain ⟨p, hpa, rfl⟩ := hp
      refine ⟨p, hpa, ?_, ?_⟩
      · unfold addWatcher; split <;> rfl
      · unfold addWatcher at hc; split at hc <;> exact hc
  | unwatch k w =>
    right
    simp only [Auth.step, unwatch] at hp
    split at hp
    · exact ⟨p', hp, rfl, hc⟩
    · split at hp
      · simp only [List.mem_map] at hp
        obtain ⟨p, hpa, rfl⟩ := hp
        refine ⟨p, hpa, ?_, ?_⟩
        · unfold dropWatcher; split <;> rfl
        · unfold dropWatcher at hc; split at hc <;> exact hc
      · split at hp
        · simp at hp
        · simp only [List.mem_filter] at hp
          exact ⟨p', hp.1, rfl, hc⟩


theorem lookup_mem {res : List (Key × RState)} {k : Key} {r : RState} (h : lookup res k = some r) : (k, r) ∈ res := by
  unfold lookup at h
  cases hf : res.find? (·.1 = k) with
  | none => simp [hf] at h
  | some p =>
    simp [hf] at h
    have := List.find?_some hf
    have hm := List.mem_of_find?_eq_some hf
    simp at this
    subst h; rw [← this]; exact hm

theorem mem_initialKinds_changed {r : RState} {c : String} (h : CbKind.changed c ∈ initialKinds r) : r.cache = some c := by
  unfold initialKinds at h
  simp only [List.mem_append] at h
  rcases h with (h | h) | h
  · split at h <;> simp_all
  · split at h
    · split at h
      · split at h <;> simp at h
      · simp at h
    · simp at h
  · split at h <;> simp at h

/-- a Changed callback: this update accepted the content for a resource the watcher watches, or the
    watcher is new and the content is what is cached. In both cases it is the cache afterwards. -/
theorem changed_step {a : Auth} {e : AEv} {w : Nat} {c : String}
    (h : (⟨w, .changed c⟩ : Cb) ∈ (a.step e).cbs) :
    ∃ p' ∈ (a.step e).auth.res, w ∈ p'.2.watchers ∧ p'.2.cache = some c := by
  cases e with
  | update srv gen typ ver es =>
    simp only [Auth.step] at h ⊢
    rcases handleUpdate_shape a srv typ ver es with ⟨_, h0⟩ | ⟨_, g, hg, hres, _, hcb⟩
    · rw [h0] at h; simp at h
    · rw [hcb] at h
      obtain ⟨p, hpa, hw, hk⟩ := h
      have hs := sameCore_fields (sameCore_of_g hg p)
      have hk' := mem_updKinds hk
      have hkey := updFull_key typ ver (ignOf a srv) es (g p)
      refine ⟨updFull typ ver (ignOf a srv) es (g p), ?_, ?_, ?_⟩
      · rw [hres]; exact List.mem_map_of_mem (List.mem_map_of_mem hpa)
      · rw [hkey.2.1, hs.2.1]; exact hw
      · obtain ⟨ht, hcase⟩ := hk'
        rcases hcase with ⟨c', he, hkc, hchg⟩ | ⟨t, _, _, h3⟩ | ⟨_, _, _, _, _, h6⟩
        · simp only [CbKind.changed.injEq] at hkc
          subst hkc
          rw [(upd_present ht he).2]
          simp only [updOne, onOk]
          have : (((g p).2.cache != some c) || (g p).2.err.isSome) = true := by
            rcases hchg with h1 | h1
            · simp [h1]
            · simp [h1]
          simp [this]
        · rcases h3 with ⟨_, h3⟩ | ⟨_, h3⟩ <;> simp at h3
        · simp at h6
  | dne k =>
    simp only [Auth.step, handleDNE, List.mem_flatMap, mem_bcast] at h
    obtain ⟨p, _, _, hk⟩ := h
    split at hk <;> simp at hk
  | failure srv after =>
    simp only [Auth.step, handleFailure] at h
    split at h
    · simp at h
    · split at h
      · simp only [propagate, List.mem_flatMap, mem_bcast] at h
        obtain ⟨p, _, _, hk⟩ := h
        simp only [List.mem_singleton] at hk
        split at hk <;> simp at hk
      · split at h
        · simp [fallbackTo] at h
        · simp only [propagate, List.mem_flatMap, mem_bcast] at h
          obtain ⟨p, _, _, hk⟩ := h
          simp only [List.mem_singleton] at hk
          split at hk <;> simp at hk
  | env l => simp [Auth.step] at h
  | watch k w' =>
    simp only [Auth.step] at h ⊢
    rcases watchResource_cases a k w' with ⟨_, hwr⟩ | ⟨_, hwr⟩ <;> rw [hwr] at h ⊢
    · simp at h
    simp only [watch] at h ⊢
    split at h
    · simp [initialCbs, initialKinds, newRState] at h
    · rename_i r hl
      simp only [initialCbs, List.mem_map] at h
      obtain ⟨kk, hkk, heq⟩ := h
      simp only [Cb.mk.injEq] at heq
      obtain ⟨rfl, rfl⟩ := heq
      have hc := mem_initialKinds_changed hkk
      have hm := lookup_mem hl
      refine ⟨addWatcher k w' (k, r), List.mem_map_of_mem hm, ?_, ?_⟩
      · simp [addWatcher]
      · simp [addWatcher, hc]
  | unwatch k w' =>
    simp only [Auth.step, unwatch] at h
    split at h
    · simp at h
    · split at h
      · simp at h
      · split at h <;> simp at h


theorem run_snoc (a : Auth) (es : List AEv) (e : AEv) :
    Auth.run a (es ++ [e]) = ((Auth.run a es).step e).auth := by
  induction es generalizing a with
  | nil => rfl
  | cons x xs ih => simp only [List.cons_append, Auth.run]; exact ih _


/-! ### the callbacks of one watcher -/

theorem cbsFor_append (w : Nat) (l1 l2 : List Cb) : cbsFor w (l1 ++ l2) = cbsFor w l1 ++ cbsFor w l2 := by
  simp [cbsFor]

theorem cbsFor_nil (w : Nat) : cbsFor w [] = [] := rfl

theorem cbsFor_map_same (w : Nat) (ks : List CbKind) : cbsFor w (ks.map fun k => (⟨w, k⟩ : Cb)) = ks := by
  induction ks with
  | nil => rfl
  | cons k ks ih =>
    simp only [cbsFor, List.map_cons, List.filter_cons, decide_true, ↓reduceIte, List.cons.injEq, true_and] at ih ⊢
    exact ih

theorem cbsFor_map_other {w w' : Nat} (h : w' ≠ w) (ks : List CbKind) :
    cbsFor w (ks.map fun k => (⟨w', k⟩ : Cb)) = [] := by
  induction ks with
  | nil => rfl
  | cons k ks ih =>
    simp only [cbsFor, List.map_cons, List.filter_cons, h, decide_false, Bool.false_eq_true, ↓reduceIte] at ih ⊢
    exact ih

def bcastL (ws : List Nat) (ks : List CbKind) : List Cb := ws.flatMap fun w => ks.map fun k => ⟨w, k⟩

theorem cbsFor_bcastL_not_mem {ws : List Nat} {w : Nat} (ks : List CbKind) (h : w ∉ ws) :
    cbsFor w (bcastL ws ks) = [] := by
  induction ws with
  | nil => rfl
  | cons x xs ih =>
    simp only [List.mem_cons, not_or] at h
    simp only [bcastL, List.flatMap_cons, cbsFor_append]
    rw [cbsFor_map_other (Ne.symm h.1)]
    have := ih h.2
    simp only [bcastL] at this
    rw [this]; rfl

theorem cbsFor_bcastL_mem {ws : List Nat} {w : Nat} (ks : List CbKind) (hnd : ws.Nodup) (h : w ∈ ws) :
    cbsFor w (bcastL ws ks) = ks := by
  induction ws with
  | nil => simp at h
  | cons x xs ih =>
    simp only [bcastL, List.flatMap_cons, cbsFor_append]
    rw [List.nodup_cons] at hnd
    by_cases hx : x = w
    · subst hx
      rw [cbsFor_map_same]
      have := cbsFor_bcastL_not_mem ks hnd.1
      simp only [bcastL] at this
      rw [this]; simp
    · rw [cbsFor_map_other hx]
      simp only [List.mem_cons] at h
      rcases h with h | h
      · exact absurd h.symm hx
      · have := ih hnd.2 h
        simp only [bcastL] at this
        simpa using this

theorem cbsFor_bcast_not_mem {r : RState} {w : Nat} (ks : List CbKind) (h : w ∉ r.watchers) :
    cbsFor w (bcast r ks) = [] := cbsFor_bcastL_not_mem ks h

theorem cbsFor_bcast_mem {r : RState} {w : Nat} (ks : List CbKind) (hnd : r.watchers.Nodup) (h : w ∈ r.watchers) :
    cbsFor w (bcast r ks) = ks := cbsFor_bcastL_mem ks hnd h

/-- all registered watcher ids, with multiplicity -/
def allWatchers (res : List (Key × RState)) : List Nat := res.flatMap (·.2.watchers)

theorem cbsFor_flatMap_not_mem {res : List (Key × RState)} {w : Nat} (f : Key × RState → List CbKind)
    (h : ∀ p ∈ res, w ∉ p.2.watchers) : cbsFor w (res.flatMap fun q => bcast q.2 (f q)) = [] := by
  induction res with
  | nil => rfl
  | cons q qs ih =>
    simp only [List.flatMap_cons, cbsFor_append]
    rw [cbsFor_bcast_not_mem _ (h q (by simp)), ih (fun p hp => h p (by simp [hp]))]; rfl

theorem cbsFor_flatMap_mem {res : List (Key × RState)} {w : Nat} (f : Key × RState → List CbKind)
    (hnd : (allWatchers res).Nodup) {p : Key × RState} (hp : p ∈ res) (hw : w ∈ p.2.watchers) :
    cbsFor w (res.flatMap fun q => bcast q.2 (f q)) = f p := by
  induction res with
  | nil => simp at hp
  | cons q qs ih =>
    simp only [allWatchers, List.flatMap_cons] at hnd
    rw [List.nodup_append] at hnd
    obtain ⟨h1, h2, h3⟩ := hnd
    simp only [List.flatMap_cons, cbsFor_append]
    simp only [List.mem_cons] at hp
    rcases hp with rfl | hp
    · rw [cbsFor_bcast_mem _ h1 hw, cbsFor_flatMap_not_mem]
      · simp
      · intro p' hp' hw'
        exact h3 w hw w (by simp only [List.mem_flatMap]; exact ⟨p', hp', hw'⟩) rfl
    · have hq : w ∉ q.2.watchers := by
        intro hwq
        exact h3 w hwq w (by simp only [List.mem_flatMap]; exact ⟨p, hp, hw⟩) rfl
      rw [cbsFor_bcast_not_mem _ hq, ih h2 hp]; rfl


theorem map_keys_eq {f : Key × RState → Key × RState} (h : ∀ p, (f p).1 = p.1) (l : List (Key × RState)) :
    (l.map f).map (·.1) = l.map (·.1) := by
  simp [List.map_map, Function.comp_def, h]

theorem allWatchers_map_eq {f : Key × RState → Key × RState} (h : ∀ p, (f p).2.watchers = p.2.watchers)
    (l : List (Key × RState)) : allWatchers (l.map f) = allWatchers l := by
  simp [allWatchers, List.flatMap_map, h]

theorem lookup_none_not_mem {res : List (Key × RState)} {k : Key} (h : lookup res k = none) : k ∉ res.map (·.1) := by
  unfold lookup at h
  simp only [Option.map_eq_none_iff, List.find?_eq_none, decide_eq_true_eq] at h
  simp only [List.mem_map, not_exists, not_and]
  intro p hp hk
  exact h p hp hk

theorem allWatchers_sublist_drop (k : Key) (w : Nat) (res : List (Key × RState)) :
    (allWatchers (res.map (dropWatcher k w))).Sublist (allWatchers res) := by
  induction res with
  | nil => simp [allWatchers]
  | cons p ps ih =>
    simp only [allWatchers, List.map_cons, List.flatMap_cons] at ih ⊢
    apply List.Sublist.append _ ih
    unfold dropWatcher
    split
    · exact List.filter_sublist
    · exact List.Sublist.refl _

theorem allWatchers_sublist_filter (q : Key × RState → Bool) (res : List (Key × RState)) :
    (allWatchers (res.filter q)).Sublist (allWatchers res) := by
  induction res with
  | nil => simp [allWatchers]
  | cons p ps ih =>
    simp only [allWatchers, List.filter_cons, List.flatMap_cons] at ih ⊢
    split
    · simp only [List.flatMap_cons]; exact List.Sublist.append (List.Sublist.refl _) ih
    · exact List.Sublist.trans ih (List.sublist_append_right _ _)

theorem allWatchers_add {k : Key} {w : Nat} {res : List (Key × RState)} (hk : (res.map (·.1)).Nodup)
    (hnd : (allWatchers res).Nodup) (hf : ∀ p ∈ res, w ∉ p.2.watchers) :
    (allWatchers (res.map (addWatcher k w))).Nodup := by
  induction res with
  | nil => simp [allWatchers]
  | cons p ps ih =>
    simp only [List.map_cons, List.nodup_cons] at hk
    simp only [allWatchers, List.flatMap_cons] at hnd
    rw [List.nodup_append] at hnd
    obtain ⟨h1, h2, h3⟩ := hnd
    have ih' := ih hk.2 h2 (fun p hp => hf p (by simp [hp]))
    simp only [allWatchers, List.map_cons, List.flatMap_cons] at ih' ⊢
    rw [List.nodup_append]
    by_cases hpk : p.1 = k
    · have hrest : ps.map (addWatcher k w) = ps := by
        rw [List.map_congr_left (g := id)]
        · simp
        · intro q hq
          unfold addWatcher
          split
          · rename_i hqk
            exfalso; apply hk.1
            simp only [List.mem_map]; exact ⟨q, hq, by rw [hqk, hpk]⟩
          · rfl
      rw [hrest]
      simp only [addWatcher, hpk, ↓reduceIte]
      refine ⟨?_, h2, ?_⟩
      · rw [List.nodup_append]
        refine ⟨h1, by simp, ?_⟩
        intro x hx y hy
        simp only [List.mem_singleton] at hy
        subst hy
        intro hxy; subst hxy
        exact hf p (by simp) hx
      · intro x hx y hy
        simp only [List.mem_append, List.mem_singleton] at hx
        rcases hx with hx | rfl
        · exact h3 x hx y hy
        · intro hxy; subst hxy
          simp only [List.mem_flatMap] at hy
          obtain ⟨q, hq, hxq⟩ := hy
          exact hf q (by simp [hq]) hxq
    · simp only [addWatcher, hpk, ↓reduceIte]
      refine ⟨h1, ih', ?_⟩
      intro x hx y hy
      simp only [List.mem_flatMap, List.mem_map] at hy
      obtain ⟨_, ⟨q, hq, rfl⟩, hy⟩ := hy
      unfold addWatcher at hy
      split at hy
      · simp only [List.mem_append, List.mem_singleton] at hy
        rcases hy with hy | rfl
        · exact h3 x hx y (by simp only [List.mem_flatMap]; exact ⟨q, hq, hy⟩)
        · intro hxy; subst hxy; exact hf p (by simp) hx
      · exact h3 x hx y (by simp only [List.mem_flatMap]; exact ⟨q, hq, hy⟩)


/-- invariant of the authority's resource table in every reachable state -/
structure AInv (a : Auth) : Prop where
  keys : (a.res.map (·.1)).Nodup
  wnd : (allWatchers a.res).Nodup
  rinv : ∀ p ∈ a.res, RInv p.2

/-- `watch` events use a watcher that is not registered (each watch call creates a new watcher object) -/
def Fresh (a : Auth) : AEv → Prop
  | .watch _ w => ∀ p ∈ a.res, w ∉ p.2.watchers
  | _ => True

theorem inv_init (n : Nat) (ign : List Bool) : AInv (Auth.init n ign) := by
  constructor <;> simp [Auth.init, allWatchers]

theorem rinv_sameCore {q p : Key × RState} (h : SameCore q p) (hr : RInv p.2) : RInv q.2 := by
  obtain ⟨x, rfl⟩ := h
  exact ⟨hr.1, hr.2, hr.3, hr.4⟩

theorem inv_map {a : Auth} {f : Key × RState → Key × RState} (hi : AInv a)
    (hk : ∀ p, (f p).1 = p.1) (hw : ∀ p, (f p).2.watchers = p.2.watchers) (hr : ∀ p ∈ a.res, RInv (f p).2)
    {a' : Auth} (hres : a'.res = a.res.map f) : AInv a' := by
  constructor
  · rw [hres, map_keys_eq hk]; exact hi.keys
  · rw [hres, allWatchers_map_eq hw]; exact hi.wnd
  · intro p hp
    rw [hres] at hp
    simp only [List.mem_map] at hp
    obtain ⟨q, hq, rfl⟩ := hp
    exact hr q hq

theorem inv_step {a : Auth} {e : AEv} (hi : AInv a) (hf : Fresh a e) : AInv (a.step e).auth := by
  cases e with
  | update srv gen typ ver es =>
    simp only [Auth.step]
    rcases handleUpdate_shape a srv typ ver es with ⟨_, h⟩ | ⟨_, g, hg, hres, _, _⟩
    · rw [h]; exact hi
    · rw [List.map_map] at hres
      refine inv_map hi ?_ ?_ ?_ hres
      · intro p; simp only [Function.comp]; rw [(updFull_key ..).1, (sameCore_fields (sameCore_of_g hg p)).1]
      · intro p; simp only [Function.comp]; rw [(updFull_key ..).2.1, (sameCore_fields (sameCore_of_g hg p)).2.1]
      · intro p hp; exact rinv_updFull (rinv_sameCore (sameCore_of_g hg p) (hi.rinv p hp))
  | dne k =>
    refine inv_map (f := fun p => if p.1 = k then (p.1, { p.2 with cache := none, status := .notExist, version := "", err := none }) else p) hi ?_ ?_ ?_ rfl
    · intro p; split <;> rfl
    · intro p; split <;> rfl
    · intro p hp; split
      · constructor <;> simp
      · exact hi.rinv p hp
  | failure srv after =>
    simp only [Auth.step, handleFailure]
    split
    · exact hi
    · split
      · exact hi
      · split
        · refine inv_map (f := fun p => (p.1, { p.2 with chans := p.2.chans ++ [_] })) hi ?_ ?_ ?_ rfl
          · intro p; rfl
          · intro p; rfl
          · intro p hp; exact ⟨(hi.rinv p hp).1, (hi.rinv p hp).2, (hi.rinv p hp).3, (hi.rinv p hp).4⟩
        · exact hi
  | env l => exact ⟨hi.keys, hi.wnd, hi.rinv⟩
  | watch k w =>
    simp only [Fresh] at hf
    simp only [Auth.step]
    rcases watchResource_cases a k w with ⟨_, hwr⟩ | ⟨_, hwr⟩ <;> rw [hwr]
    · exact hi
    simp only [watch]
    split
    · rename_i hl
      constructor
      · simp only [List.map_append, List.map_cons, List.map_nil]
        rw [List.nodup_append]
        refine ⟨hi.keys, by simp, ?_⟩
        intro x hx y hy
        simp only [List.mem_singleton] at hy
        subst hy
        intro hxy; subst hxy
        exact lookup_none_not_mem hl hx
      · simp only [allWatchers, List.flatMap_append, List.flatMap_cons, List.flatMap_nil, List.append_nil, newRState]
        rw [List.nodup_append]
        refine ⟨hi.wnd, by simp, ?_⟩
        intro x hx y hy
        simp only [List.mem_singleton] at hy
        subst hy
        intro hxy; subst hxy
        simp only [List.mem_flatMap] at hx
        obtain ⟨p, hp, hxp⟩ := hx
        exact hf p hp hxp
      · intro p hp
        simp only [List.mem_append, List.mem_singleton] at hp
        rcases hp with hp | rfl
        · exact hi.rinv p hp
        · constructor <;> simp [newRState]
    · constructor
      · show ((a.res.map (addWatcher k w)).map (·.1)).Nodup
        rw [map_keys_eq]
        · exact hi.keys
        · intro p; unfold addWatcher; split <;> rfl
      · exact allWatchers_add hi.keys hi.wnd hf
      · intro p hp
        change p ∈ a.res.map (addWatcher k w) at hp
        simp only [List.mem_map] at hp
        obtain ⟨q, hq, rfl⟩ := hp
        have := hi.rinv q hq
        unfold addWatcher; split
        · exact ⟨this.1, this.2, this.3, this.4⟩
        · exact this
  | unwatch k w =>
    simp only [Auth.step, unwatch]
    split
    · exact hi
    · split
      · constructor
        · show ((a.res.map (dropWatcher k w)).map (·.1)).Nodup
          rw [map_keys_eq]
          · exact hi.keys
          · intro p; unfold dropWatcher; split <;> rfl
        · exact List.Nodup.sublist (allWatchers_sublist_drop k w a.res) hi.wnd
        · intro p hp
          change p ∈ a.res.map (dropWatcher k w) at hp
          simp only [List.mem_map] at hp
          obtain ⟨q, hq, rfl⟩ := hp
          have := hi.rinv q hq
          unfold dropWatcher; split
          · exact ⟨this.1, this.2, this.3, this.4⟩
          · exact this
      · split
        · constructor <;> simp [allWatchers]
        · constructor
          · show ((a.res.filter (·.1 ≠ k)).map (·.1)).Nodup
            exact List.Nodup.sublist (List.Sublist.map _ List.filter_sublist) hi.keys
          · exact List.Nodup.sublist (allWatchers_sublist_filter _ a.res) hi.wnd
          · intro p hp
            change p ∈ a.res.filter (·.1 ≠ k) at hp
            exact hi.rinv p (List.mem_filter.mp hp).1


theorem bcast_congr {r r' : RState} (h : r'.watchers = r.watchers) (ks : List CbKind) : bcast r' ks = bcast r ks := by
  unfold bcast; rw [h]

theorem cbsFor_processUpdate {a : Auth} (hnd : (allWatchers a.res).Nodup) (srv : Nat) (typ ver : String)
    (es : List (String × Upd)) (w : Nat) :
    (∀ p ∈ a.res, w ∈ p.2.watchers →
       cbsFor w (processUpdate a srv typ ver es).2 = updKinds typ ver (ignOf a srv) es p) ∧
    ((∀ p ∈ a.res, w ∉ p.2.watchers) → cbsFor w (processUpdate a srv typ ver es).2 = []) := by
  have h2 : ∀ ign, ((a.res.map fun p => (updRes typ ver es p).1).flatMap fun p => bcast p.2 (delRes typ ign es p).2)
      = a.res.flatMap fun p => bcast p.2 (delRes typ ign es (updRes typ ver es p).1).2 := by
    intro ign
    rw [List.flatMap_map]
    congr 1; funext p
    exact bcast_congr (updRes_watchers typ ver es p).1 _
  unfold processUpdate updKinds
  by_cases hs : sotw typ = true
  · simp only [hs, Bool.not_true, Bool.false_eq_true, ↓reduceIte, h2, cbsFor_append]
    constructor
    · intro p hp hw
      rw [cbsFor_flatMap_mem _ hnd hp hw, cbsFor_flatMap_mem _ hnd hp hw]
    · intro h
      rw [cbsFor_flatMap_not_mem _ h, cbsFor_flatMap_not_mem _ h]; rfl
  · simp only [hs, Bool.not_false, ↓reduceIte, Bool.false_eq_true, List.append_nil]
    constructor
    · intro p hp hw
      rw [cbsFor_flatMap_mem _ hnd hp hw]
    · intro h
      rw [cbsFor_flatMap_not_mem _ h]

/-- the ghost of a watcher agrees with the resource it watches -/
def AgreeR (g : WG) (r : RState) : Prop := g.holds = r.cache ∧ (∀ t v, r.err = some (t, v) → g.nack = some t)

/-- one resource, one update: no forbidden callback, and agreement is kept -/
theorem agree_upd {typ ver : String} {ign : Bool} {es : List (String × Upd)} {q : Key × RState} {g : WG}
    (h : AgreeR g q.2) :
    okSeq g (updKinds typ ver ign es q) = true ∧
    AgreeR ((updKinds typ ver ign es q).foldl WG.apply g) (updFull typ ver ign es q).2 := by
  obtain ⟨h1, h2⟩ := h
  by_cases ht : q.1.typ = typ
  · cases he : entLookup es q.1.name with
    | some u =>
      cases u with
      | ok c =>
        rw [updKinds_ok ht he, (upd_present ht he).2]
        simp only [updOne, onOk]
        by_cases hc : q.2.cache = some c
        · cases herr : q.2.err with
          | some tv =>
            have hn := h2 tv.1 tv.2 (by rw [herr])
            simp [hc, okSeq, WG.dup, WG.apply, AgreeR, hn]
          | none => simp [hc, okSeq, AgreeR, h1]
        · have : ¬ g.holds = some c := by rw [h1]; exact hc
          simp [hc, okSeq, WG.dup, WG.apply, AgreeR, this]
      | bad t =>
        rw [updKinds_bad ht he, (upd_present ht he).2]
        simp only [updOne, onBad]
        by_cases hd : q.2.err.map (·.1) = some t
        · cases hq : q.2.err with
          | none => simp [hq] at hd
          | some tv =>
            simp only [hq, Option.map_some, Option.some.injEq] at hd
            have hn := h2 tv.1 tv.2 (by rw [hq])
            simp [hq, hd, okSeq, AgreeR, h1]
            rw [← hd]; exact hn
        · cases hc : q.2.cache with
          | none => simp [hd, hc, okSeq, WG.dup, WG.apply, AgreeR]
          | some c => simp [hd, hc, okSeq, WG.dup, WG.apply, AgreeR, h1]
    | none =>
      rw [updKinds_absent ht he, (upd_absent ht he).2]
      by_cases hcond : sotw typ = true ∧ q.2.cache.isSome = true ∧ q.2.status ≠ .notExist ∧ ign = false
      · obtain ⟨hs, hc, hst, hi⟩ := hcond
        have hc' : q.2.cache.isNone = false := by cases hq : q.2.cache <;> simp [hq] at hc ⊢
        simp [hs, hc, hst, hi, okSeq, WG.dup, WG.apply, AgreeR, delOne, hc']
      · simp only [hcond, ↓reduceIte, okSeq, List.foldl_nil, true_and]
        split
        · unfold delOne
          repeat' split
          all_goals first | exact ⟨h1, h2⟩ | (exfalso; apply hcond; simp_all)
        · exact ⟨h1, h2⟩
  · rw [(upd_other ht).1, (upd_other ht).2]
    exact ⟨rfl, h1, h2⟩


def Agree (a : Auth) (G : Nat → WG) : Prop := ∀ p ∈ a.res, ∀ w ∈ p.2.watchers, AgreeR (G w) p.2

theorem eq_of_key_eq {res : List (Key × RState)} (hk : (res.map (·.1)).Nodup) {p q : Key × RState}
    (hp : p ∈ res) (hq : q ∈ res) (h : p.1 = q.1) : p = q := by
  induction res with
  | nil => simp at hp
  | cons x xs ih =>
    simp only [List.map_cons, List.nodup_cons, List.mem_map, not_exists, not_and] at hk
    simp only [List.mem_cons] at hp hq
    rcases hp with rfl | hp <;> rcases hq with rfl | hq
    · rfl
    · exact absurd h.symm (hk.1 q hq)
    · exact absurd h (hk.1 p hp)
    · exact ih hk.2 hp hq

theorem okSeq_initial (r : RState) : okSeq {} (initialKinds r) = true := by
  unfold initialKinds
  cases r.cache <;> cases hs : r.status <;> cases he : r.err <;> simp [okSeq, WG.dup, WG.apply]
  all_goals (try split) <;> simp [okSeq, WG.dup, WG.apply]

theorem agree_initial {r : RState} (hr : RInv r) : AgreeR ((initialKinds r).foldl WG.apply {}) r := by
  obtain ⟨h1, h2, h3, h4⟩ := hr
  unfold initialKinds AgreeR
  cases hc : r.cache <;> cases hs : r.status <;> cases he : r.err <;> simp_all [WG.apply]
  all_goals (try split) <;> simp_all [WG.apply]

theorem handleUpdate_cbsFor {a : Auth} (hnd : (allWatchers a.res).Nodup) (srv : Nat) (typ ver : String)
    (es : List (String × Upd)) (hcont : (revert a srv).2.2 = true) (w : Nat) :
    (∀ p ∈ a.res, w ∈ p.2.watchers →
       cbsFor w (handleUpdate a srv typ ver es).cbs = updKinds typ ver (ignOf a srv) es p) ∧
    ((∀ p ∈ a.res, w ∉ p.2.watchers) → cbsFor w (handleUpdate a srv typ ver es).cbs = []) := by
  cases hact : a.active with
  | none => simp [revert_none hact] at hcont
  | some act =>
    by_cases h1 : srv = act
    · subst h1
      simp only [handleUpdate, revert_same hact, ↓reduceIte]
      exact cbsFor_processUpdate hnd srv typ ver es w
    · by_cases h2 : act < srv
      · simp [revert_below hact h2] at hcont
      · have h3 : srv < act := by omega
        simp only [handleUpdate, revert_above hact h3, ↓reduceIte]
        have hnd' : (allWatchers (revertTo a srv).res).Nodup := by
          simp only [revertTo]
          rw [allWatchers_map_eq (f := restrictChans srv) (fun p => rfl)]; exact hnd
        have := cbsFor_processUpdate hnd' srv typ ver es w
        constructor
        · intro p hp hw
          have := this.1 (restrictChans srv p) (by simp only [revertTo]; exact List.mem_map_of_mem hp) hw
          rw [this]
          exact updKinds_chans ..
        · intro h
          apply this.2
          intro p' hp'
          simp only [revertTo, List.mem_map] at hp'
          obtain ⟨p, hp, rfl⟩ := hp'
          exact h p hp

theorem agreeR_sameCore {g : WG} {q p : Key × RState} (h : SameCore q p) (ha : AgreeR g p.2) : AgreeR g q.2 := by
  obtain ⟨x, rfl⟩ := h; exact ha

theorem ghost_step {a : Auth} {G : Nat → WG} {e : AEv} (hi : AInv a) (hg : Agree a G) (hf : Fresh a e) :
    (∀ w, okSeq (ghost0 G e w) (cbsFor w (a.step e).cbs) = true) ∧
    Agree (a.step e).auth (ghostStep G e (a.step e).cbs) := by
  cases e with
  | update srv gen typ ver es =>
    simp only [Auth.step, ghost0, ghostStep]
    rcases handleUpdate_shape a srv typ ver es with ⟨_, h⟩ | ⟨hcont, g, hgg, hres, _, _⟩
    · rw [h]
      refine ⟨fun w => rfl, ?_⟩
      intro p hp w hw
      exact hg p hp w hw
    · have hcb := handleUpdate_cbsFor hi.wnd srv typ ver es hcont
      constructor
      · intro w
        by_cases hex : ∃ p ∈ a.res, w ∈ p.2.watchers
        · obtain ⟨p, hp, hw⟩ := hex
          rw [(hcb w).1 p hp hw]
          exact (agree_upd (hg p hp w hw)).1
        · rw [(hcb w).2 (by intro p hp hw; exact hex ⟨p, hp, hw⟩)]; rfl
      · intro p'' hp'' w hw
        rw [hres] at hp''
        simp only [List.mem_map] at hp''
        obtain ⟨_, ⟨p, hp, rfl⟩, rfl⟩ := hp''
        have hsc := sameCore_of_g hgg p
        have hw' : w ∈ p.2.watchers := by
          rw [(updFull_key ..).2.1, (sameCore_fields hsc).2.1] at hw; exact hw
        simp only [ghostStep, ghost0]
        rw [(hcb w).1 p hp hw', ← updKinds_sameCore hsc]
        exact (agree_upd (agreeR_sameCore hsc (hg p hp w hw'))).2
  | dne k =>
    simp only [Auth.step, handleDNE, ghost0, ghostStep]
    constructor
    · intro w
      by_cases hex : ∃ p ∈ a.res, w ∈ p.2.watchers
      · obtain ⟨p, hp, hw⟩ := hex
        rw [cbsFor_flatMap_mem _ hi.wnd hp hw]
        split <;> simp [okSeq, WG.dup]
      · rw [cbsFor_flatMap_not_mem _ (by intro p hp hw; exact hex ⟨p, hp, hw⟩)]; rfl
    · intro p' hp' w hw
      simp only [List.mem_map] at hp'
      obtain ⟨p, hp, rfl⟩ := hp'
      have hw' : w ∈ p.2.watchers := by split at hw <;> exact hw
      simp only [ghostStep, ghost0]
      rw [cbsFor_flatMap_mem _ hi.wnd hp hw']
      have := hg p hp w hw'
      split
      · simp [AgreeR, WG.apply]
      · exact this
  | failure srv after =>
    simp only [Auth.step, handleFailure, ghost0, ghostStep]
    have hprop : (∀ w, okSeq (G w) (cbsFor w (propagate a)) = true) ∧
        Agree a (fun w => (cbsFor w (propagate a)).foldl WG.apply (G w)) := by
      unfold propagate
      constructor
      · intro w
        by_cases hex : ∃ p ∈ a.res, w ∈ p.2.watchers
        · obtain ⟨p, hp, hw⟩ := hex
          rw [cbsFor_flatMap_mem _ hi.wnd hp hw]
          split <;> simp [okSeq, WG.dup]
        · rw [cbsFor_flatMap_not_mem _ (by intro p hp hw; exact hex ⟨p, hp, hw⟩)]; rfl
      · intro p hp w hw
        simp only []
        rw [cbsFor_flatMap_mem _ hi.wnd hp hw]
        have := hg p hp w hw
        cases hc : p.2.cache with
        | none => simp [AgreeR, WG.apply, hc]; exact this.2
        | some c => simp [AgreeR, WG.apply, hc]; exact ⟨by rw [this.1, hc], this.2⟩
    have hprop' : (∀ w, okSeq (G w) (cbsFor w (propagate a)) = true) ∧
        Agree a (ghostStep G (.failure srv after) (propagate a)) := hprop
    split
    · exact ⟨fun w => rfl, fun p hp w hw => hg p hp w hw⟩
    · split
      · exact hprop'
      · split
        · refine ⟨fun w => rfl, ?_⟩
          intro p' hp' w hw
          simp only [fallbackTo, List.mem_map] at hp'
          obtain ⟨p, hp, rfl⟩ := hp'
          exact hg p hp w hw
        · exact hprop'
  | env l => exact ⟨fun w => rfl, fun p hp w hw => hg p hp w hw⟩
  | watch k w' =>
    simp only [Fresh] at hf
    simp only [Auth.step]
    rcases watchResource_cases a k w' with ⟨_, hwr⟩ | ⟨_, hwr⟩ <;> rw [hwr]
    · -- the watch failed: the watcher is told the error and is not registered
      have hcb : ∀ w, cbsFor w [(⟨w', .resErr .other⟩ : Cb)] = if w' = w then [.resErr .other] else [] := by
        intro w
        by_cases h : w' = w
        · subst h; simp [cbsFor]
        · simp [cbsFor, h]
      constructor
      · intro w
        rw [hcb]
        by_cases h : w' = w
        · simp [ghost0, h, okSeq, WG.dup]
        · simp only [h, ↓reduceIte]; rfl
      · intro p hp w hw
        have hne : ¬ w' = w := by intro h; subst h; exact hf p hp hw
        simp only [ghostStep, ghost0, hcb, hne, ↓reduceIte, List.foldl_nil]
        exact hg p hp w hw
    simp only [watch]
    split
    · rename_i hl
      have hnil : initialCbs w' (newRState w' (channelToUse a).2.2) = [] := by
        simp [initialCbs, initialKinds, newRState]
      simp only [hnil]
      refine ⟨fun w => rfl, ?_⟩
      intro p' hp' w hw
      simp only [ghostStep, ghost0, cbsFor_nil, List.foldl_nil]
      simp only [List.mem_append, List.mem_singleton] at hp'
      rcases hp' with hp' | rfl
      · have hne : ¬ w' = w := by intro h; subst h; exact hf p' hp' hw
        simp only [hne, ↓reduceIte]
        exact hg p' hp' w hw
      · simp only [newRState, List.mem_singleton] at hw
        subst hw
        simp [AgreeR, newRState]
    · rename_i r hl
      have hm := lookup_mem hl
      have hcb : ∀ w, cbsFor w (initialCbs w' r) = if w' = w then initialKinds r else [] := by
        intro w
        unfold initialCbs
        by_cases h : w' = w
        · subst h; simp [cbsFor_map_same]
        · simp [h, cbsFor_map_other h]
      constructor
      · intro w
        rw [hcb]
        by_cases h : w' = w
        · simp only [ghost0, h, ↓reduceIte]; exact okSeq_initial r
        · simp only [h, ↓reduceIte]; rfl
      · intro p' hp' w hw
        change p' ∈ a.res.map (addWatcher k w') at hp'
        simp only [List.mem_map] at hp'
        obtain ⟨p, hp, rfl⟩ := hp'
        simp only [ghostStep, ghost0, hcb]
        by_cases hwe : w' = w
        · subst hwe
          simp only [↓reduceIte]
          unfold addWatcher at hw ⊢
          split at hw
          · rename_i hpk
            have : p = (k, r) := eq_of_key_eq hi.keys hp hm hpk
            subst this
            simp only [↓reduceIte]
            exact agree_initial (hi.rinv _ hm)
          · exact absurd hw (hf p hp)
        · simp only [hwe, ↓reduceIte, List.foldl_nil]
          by_cases hpk : p.1 = k
          · simp only [addWatcher, hpk, ↓reduceIte, List.mem_append, List.mem_singleton] at hw ⊢
            rcases hw with hw | hw
            · exact hg p hp w hw
            · exact absurd hw.symm hwe
          · simp only [addWatcher, hpk, ↓reduceIte] at hw ⊢
            exact hg p hp w hw
  | unwatch k w' =>
    simp only [Auth.step, unwatch]
    split
    · exact ⟨fun w => rfl, fun p hp w hw => hg p hp w hw⟩
    · split
      · refine ⟨fun w => rfl, ?_⟩
        intro p' hp' w hw
        change p' ∈ a.res.map (dropWatcher k w') at hp'
        simp only [List.mem_map] at hp'
        obtain ⟨p, hp, rfl⟩ := hp'
        simp only [ghostStep, ghost0, cbsFor_nil, List.foldl_nil]
        unfold dropWatcher at hw ⊢
        split at hw
        · simp only [List.mem_filter] at hw
          simp only [↓reduceIte, *]
          exact hg p hp w hw.1
        · simp only [↓reduceIte, *]
          exact hg p hp w hw
      · split
        · exact ⟨fun w => rfl, fun p hp w hw => by simp at hp⟩
        · refine ⟨fun w => rfl, ?_⟩
          intro p' hp' w hw
          change p' ∈ a.res.filter (·.1 ≠ k) at hp'
          exact hg p' (List.mem_filter.mp hp').1 w hw


theorem amb_mem_updKinds {typ ver : String} {ign : Bool} {es : List (String × Upd)} {p : Key × RState} {er : Err} :
    CbKind.ambErr er ∈ updKinds typ ver ign es p ↔
      p.1.typ = typ ∧ p.2.cache.isSome = true ∧
      ∃ t, entLookup es p.1.name = some (.bad t) ∧ er = .nack t ∧ p.2.err.map (·.1) ≠ some t := by
  by_cases ht : p.1.typ = typ
  · cases he : entLookup es p.1.name with
    | some u =>
      cases u with
      | ok c => rw [updKinds_ok ht he]; split <;> simp [ht]
      | bad t =>
        rw [updKinds_bad ht he]
        by_cases hd : p.2.err.map (·.1) = some t
        · simp [hd, ht]
        · cases hc : p.2.cache with
          | none => simp [hd, hc, ht]
          | some c =>
            simp only [hd, ↓reduceIte, hc, Option.isNone_some, Bool.false_eq_true, List.mem_singleton,
              CbKind.ambErr.injEq, ht, Option.isSome_some, Option.some.injEq, Upd.bad.injEq, true_and]
            constructor
            · rintro rfl; exact ⟨t, rfl, rfl, hd⟩
            · rintro ⟨t', rfl, rfl, _⟩; rfl
    | none => rw [updKinds_absent ht he]; split <;> simp [ht]
  · rw [(upd_other ht).1]; simp [ht]

theorem res_mem_updKinds {typ ver : String} {ign : Bool} {es : List (String × Upd)} {p : Key × RState} {er : Err} :
    CbKind.resErr er ∈ updKinds typ ver ign es p ↔
      p.1.typ = typ ∧
      ((p.2.cache = none ∧ ∃ t, entLookup es p.1.name = some (.bad t) ∧ er = .nack t ∧ p.2.err.map (·.1) ≠ some t) ∨
       (er = .notFound ∧ entLookup es p.1.name = none ∧ sotw typ = true ∧ p.2.cache.isSome = true ∧
          p.2.status ≠ .notExist ∧ ign = false)) := by
  by_cases ht : p.1.typ = typ
  · cases he : entLookup es p.1.name with
    | some u =>
      cases u with
      | ok c => rw [updKinds_ok ht he]; split <;> simp [ht]
      | bad t =>
        rw [updKinds_bad ht he]
        by_cases hd : p.2.err.map (·.1) = some t
        · simp [hd, ht]
        · cases hc : p.2.cache with
          | some c => simp [hd, hc, ht]
          | none =>
            simp only [hd, ↓reduceIte, hc, Option.isNone_none, List.mem_singleton, CbKind.resErr.injEq, ht,
              Option.some.injEq, Upd.bad.injEq, true_and, reduceCtorEq, false_and, and_false, or_false]
            constructor
            · rintro rfl; exact ⟨t, rfl, rfl, hd⟩
            · rintro ⟨t', rfl, rfl, _⟩; rfl
    | none =>
      rw [updKinds_absent ht he]
      by_cases hcond : sotw typ = true ∧ p.2.cache.isSome = true ∧ p.2.status ≠ .notExist ∧ ign = false
      · rw [if_pos hcond]
        simp only [List.mem_singleton, CbKind.resErr.injEq]
        constructor
        · rintro rfl; exact ⟨ht, Or.inr ⟨rfl, trivial, hcond⟩⟩
        · rintro ⟨_, ⟨_, t, h, _⟩ | ⟨h, _⟩⟩
          · simp at h
          · exact h
      · rw [if_neg hcond]
        simp only [List.not_mem_nil, false_iff, not_and, not_or]
        intro _
        constructor
        · rintro _ ⟨t, h, _⟩; simp at h
        · intro _ _ h1 h2 h3 h4; exact hcond ⟨h1, h2, h3, h4⟩
  · rw [(upd_other ht).1]; simp [ht]

theorem amb_mem_propagate {a : Auth} {w : Nat} {er : Err} :
    (⟨w, .ambErr er⟩ : Cb) ∈ propagate a ↔ ∃ p ∈ a.res, w ∈ p.2.watchers ∧ p.2.cache.isSome = true ∧ er = .conn := by
  simp only [propagate, List.mem_flatMap, mem_bcast, List.mem_singleton]
  constructor
  · rintro ⟨p, hp, hw, hk⟩
    cases hc : p.2.cache with
    | none => simp [hc] at hk
    | some c => simp [hc] at hk; exact ⟨p, hp, hw, by simp [hc], hk⟩
  · rintro ⟨p, hp, hw, hc, rfl⟩
    refine ⟨p, hp, hw, ?_⟩
    cases hcc : p.2.cache with
    | none => simp [hcc] at hc
    | some c => simp

theorem res_mem_propagate {a : Auth} {w : Nat} {er : Err} :
    (⟨w, .resErr er⟩ : Cb) ∈ propagate a ↔ ∃ p ∈ a.res, w ∈ p.2.watchers ∧ p.2.cache = none ∧ er = .conn := by
  simp only [propagate, List.mem_flatMap, mem_bcast, List.mem_singleton]
  constructor
  · rintro ⟨p, hp, hw, hk⟩
    cases hc : p.2.cache with
    | none => simp [hc] at hk; exact ⟨p, hp, hw, hc, hk⟩
    | some c => simp [hc] at hk
  · rintro ⟨p, hp, hw, hc, rfl⟩
    exact ⟨p, hp, hw, by simp [hc]⟩

/-- when a stream failure is propagated to the watchers rather than answered by a fallback -/
theorem handleFailure_cbs (a : Auth) (srv : Nat) (after : Bool) :
    (handleFailure a srv after).cbs =
      if after = false ∧ (uncachedWatch a = false ∨ fallbackTarget a srv = none) then propagate a else [] := by
  unfold handleFailure
  cases after
  · by_cases hu : uncachedWatch a = true
    · cases hn : fallbackTarget a srv with
      | none => simp [hu, hn]
      | some i => simp [hu, hn, fallbackTo]
    · simp [hu]
  · simp

theorem mem_initialKinds_amb {r : RState} {er : Err} :
    CbKind.ambErr er ∈ initialKinds r ↔
      r.cache.isSome = true ∧ r.status = .nacked ∧ ∃ t v, r.err = some (t, v) ∧ er = .nack t := by
  unfold initialKinds
  cases hc : r.cache <;> cases hs : r.status <;> cases he : r.err <;> simp
  rename_i tv
  obtain ⟨t, v⟩ := tv
  constructor
  · rintro rfl; exact ⟨t, ⟨v, rfl⟩, rfl⟩
  · rintro ⟨t', ⟨v', h⟩, rfl⟩
    simp only [Prod.mk.injEq] at h
    rw [h.1]

theorem handleUpdate_cbs_iff (a : Auth) (srv : Nat) (typ ver : String) (es : List (String × Upd)) (cb : Cb) :
    cb ∈ (handleUpdate a srv typ ver es).cbs ↔
      (revert a srv).2.2 = true ∧ ∃ p ∈ a.res, cb.w ∈ p.2.watchers ∧ cb.k ∈ updKinds typ ver (ignOf a srv) es p := by
  rcases handleUpdate_shape a srv typ ver es with ⟨hf, h⟩ | ⟨ht, g, hg, _, _, hcb⟩
  · rw [h]; simp [hf]
  · rw [hcb]
    simp only [ht, true_and]
    constructor
    · rintro ⟨p, hp, hw, hk⟩; exact ⟨p, hp, hw, by rw [← updKinds_sameCore (sameCore_of_g hg p)]; exact hk⟩
    · rintro ⟨p, hp, hw, hk⟩; exact ⟨p, hp, hw, by rw [updKinds_sameCore (sameCore_of_g hg p)]; exact hk⟩

theorem mem_initialKinds_res {r : RState} {er : Err} :
    CbKind.resErr er ∈ initialKinds r ↔
      (r.status = .nacked ∧ r.cache = none ∧ ∃ t v, r.err = some (t, v) ∧ er = .nack t) ∨
      (r.status = .notExist ∧ er = .notFound) := by
  unfold initialKinds
  cases hc : r.cache <;> cases hs : r.status <;> cases he : r.err <;> simp
  rename_i tv
  obtain ⟨t, v⟩ := tv
  constructor
  · rintro rfl; exact ⟨t, ⟨v, rfl⟩, rfl⟩
  · rintro ⟨t', ⟨v', h⟩, rfl⟩
    simp only [Prod.mk.injEq] at h
    rw [h.1]

/-- after a ResourceError the watcher's resource has no cached value; after an AmbientError it still has -/
theorem error_step {a : Auth} {e : AEv} {w : Nat} {er : Err} (hi : AInv a)
    (hns : ∀ k w', e = .watch k w' → cannotStart a = false) :
    ((⟨w, .resErr er⟩ : Cb) ∈ (a.step e).cbs → ∃ p' ∈ (a.step e).auth.res, w ∈ p'.2.watchers ∧ p'.2.cache = none) ∧
    ((⟨w, .ambErr er⟩ : Cb) ∈ (a.step e).cbs → ∃ p' ∈ (a.step e).auth.res, w ∈ p'.2.watchers ∧ p'.2.cache.isSome = true) := by
  cases e with
  | update srv gen typ ver es =>
    simp only [Auth.step]
    rcases handleUpdate_shape a srv typ ver es with ⟨_, h0⟩ | ⟨_, g, hg, hres, _, hcb⟩
    · rw [h0]; simp
    · have key : ∀ k : CbKind, (⟨w, k⟩ : Cb) ∈ (handleUpdate a srv typ ver es).cbs →
          ∃ p ∈ a.res, w ∈ p.2.watchers ∧ k ∈ updKinds typ ver (ignOf a srv) es p ∧
            updFull typ ver (ignOf a srv) es (g p) ∈ (handleUpdate a srv typ ver es).auth.res ∧
            w ∈ (updFull typ ver (ignOf a srv) es (g p)).2.watchers := by
        intro k hk
        rw [hcb] at hk
        obtain ⟨p, hp, hw, hk⟩ := hk
        have hs := sameCore_of_g hg p
        refine ⟨p, hp, hw, by rw [← updKinds_sameCore hs]; exact hk, ?_, ?_⟩
        · rw [hres]; exact List.mem_map_of_mem (List.mem_map_of_mem hp)
        · rw [(updFull_key ..).2.1, (sameCore_fields hs).2.1]; exact hw
      constructor
      · intro h
        obtain ⟨p, hp, hw, hk, hm, hw'⟩ := key _ h
        refine ⟨_, hm, hw', ?_⟩
        have hs := sameCore_of_g hg p
        have hf := sameCore_fields hs
        obtain ⟨ht, hcase⟩ := res_mem_updKinds.mp hk
        have ht' : (g p).1.typ = typ := by rw [hf.1]; exact ht
        rcases hcase with ⟨hc, t, he, _, _⟩ | ⟨_, he, hsw, hc, hst, hi'⟩
        · rw [(upd_present ht' (by rw [hf.1]; exact he)).2]
          simp [updOne, onBad, hf.2.2.1, hc]
        · rw [(upd_absent ht' (by rw [hf.1]; exact he)).2]
          have hc' : (g p).2.cache.isNone = false := by rw [hf.2.2.1]; cases hq : p.2.cache <;> simp [hq] at hc ⊢
          simp [hsw, delOne, hc', hf.2.2.2.1, hst, hi']
      · intro h
        obtain ⟨p, hp, hw, hk, hm, hw'⟩ := key _ h
        refine ⟨_, hm, hw', ?_⟩
        have hs := sameCore_of_g hg p
        have hf := sameCore_fields hs
        obtain ⟨ht, hc, t, he, _, _⟩ := amb_mem_updKinds.mp hk
        have ht' : (g p).1.typ = typ := by rw [hf.1]; exact ht
        rw [(upd_present ht' (by rw [hf.1]; exact he)).2]
        simp [updOne, onBad, hf.2.2.1, hc]
  | dne k =>
    simp only [Auth.step, handleDNE, List.mem_flatMap, mem_bcast]
    constructor
    · rintro ⟨p, hp, hw, hk⟩
      split at hk
      · rename_i hpk
        refine ⟨_, List.mem_map_of_mem hp, ?_, ?_⟩ <;> simp [hpk, hw]
      · simp at hk
    · rintro ⟨p, _, _, hk⟩; split at hk <;> simp at hk
  | failure srv after =>
    simp only [Auth.step, handleFailure_cbs]
    have hsame : after = false ∧ (uncachedWatch a = false ∨ fallbackTarget a srv = none) →
        (handleFailure a srv after).auth = a := by
      rintro ⟨rfl, hc⟩
      unfold handleFailure
      rcases hc with hc | hc
      · simp [hc]
      · by_cases hu : uncachedWatch a = true <;> simp [hu, hc]
    constructor
    · intro h
      split at h
      · rename_i hc
        rw [hsame hc]
        obtain ⟨p, hp, hw, hcache, _⟩ := res_mem_propagate.mp h
        exact ⟨p, hp, hw, hcache⟩
      · simp at h
    · intro h
      split at h
      · rename_i hc
        rw [hsame hc]
        obtain ⟨p, hp, hw, hcache, _⟩ := amb_mem_propagate.mp h
        exact ⟨p, hp, hw, hcache⟩
      · simp at h
  | env l => simp [Auth.step]
  | watch k w' =>
    simp only [Auth.step]
    rcases watchResource_cases a k w' with ⟨hcs, _⟩ | ⟨_, hwr⟩
    · rw [hns k w' rfl] at hcs; simp at hcs
    rw [hwr]
    simp only [watch]
    split
    · simp [initialCbs, initialKinds, newRState]
    · rename_i r hl
      have hm := lookup_mem hl
      have hmem : addWatcher k w' (k, r) ∈ (a.res.map (addWatcher k w')) := List.mem_map_of_mem hm
      constructor
      · intro h
        simp only [initialCbs, List.mem_map, Cb.mk.injEq] at h
        obtain ⟨kk, hkk, rfl, rfl⟩ := h
        refine ⟨_, hmem, by simp [addWatcher], ?_⟩
        rcases mem_initialKinds_res.mp hkk with ⟨_, hc, _⟩ | ⟨hs, _⟩
        · simp [addWatcher, hc]
        · simp only [addWatcher, ↓reduceIte]; exact (hi.rinv _ hm).ne hs
      · intro h
        simp only [initialCbs, List.mem_map, Cb.mk.injEq] at h
        obtain ⟨kk, hkk, rfl, rfl⟩ := h
        refine ⟨_, hmem, by simp [addWatcher], ?_⟩
        simp [addWatcher, (mem_initialKinds_amb.mp hkk).1]
  | unwatch k w' =>
    simp only [Auth.step, unwatch]
    split
    · simp
    · split
      · simp
      · split <;> simp


/-- a resourceState exists only while somebody watches the resource -/
def Watched (a : Auth) : Prop := ∀ p ∈ a.res, p.2.watchers ≠ []

theorem watched_step {a : Auth} {e : AEv} (hi : AInv a) (hw : Watched a) : Watched (a.step e).auth := by
  cases e with
  | update srv gen typ ver es =>
    simp only [Auth.step]
    rcases handleUpdate_shape a srv typ ver es with ⟨_, h⟩ | ⟨_, g, hg, hres, _, _⟩
    · rw [h]; exact hw
    · intro p' hp'
      rw [hres] at hp'
      simp only [List.mem_map] at hp'
      obtain ⟨_, ⟨p, hp, rfl⟩, rfl⟩ := hp'
      rw [(updFull_key ..).2.1, (sameCore_fields (sameCore_of_g hg p)).2.1]
      exact hw p hp
  | dne k =>
    intro p' hp'
    simp only [Auth.step, handleDNE, List.mem_map] at hp'
    obtain ⟨p, hp, rfl⟩ := hp'
    split <;> exact hw p hp
  | failure srv after =>
    simp only [Auth.step, handleFailure]
    split
    · exact hw
    · split
      · exact hw
      · split
        · intro p' hp'
          simp only [fallbackTo, List.mem_map] at hp'
          obtain ⟨p, hp, rfl⟩ := hp'
          exact hw p hp
        · exact hw
  | env l => exact hw
  | watch k w =>
    simp only [Auth.step]
    rcases watchResource_cases a k w with ⟨_, hwr⟩ | ⟨_, hwr⟩ <;> rw [hwr]
    · exact hw
    simp only [watch]
    split
    · intro p' hp'
      simp only [List.mem_append, List.mem_singleton] at hp'
      rcases hp' with hp' | rfl
      · exact hw p' hp'
      · simp [newRState]
    · intro p' hp'
      change p' ∈ a.res.map (addWatcher k w) at hp'
      simp only [List.mem_map] at hp'
      obtain ⟨p, hp, rfl⟩ := hp'
      unfold addWatcher; split
      · simp
      · exact hw p hp
  | unwatch k w =>
    simp only [Auth.step, unwatch]
    split
    · exact hw
    · rename_i r hl
      split
      · rename_i hne
        intro p' hp'
        change p' ∈ a.res.map (dropWatcher k w) at hp'
        simp only [List.mem_map] at hp'
        obtain ⟨p, hp, rfl⟩ := hp'
        unfold dropWatcher; split
        · rename_i hpk
          have : p = (k, r) := eq_of_key_eq hi.keys hp (lookup_mem hl) hpk
          subst this
          exact hne
        · exact hw p hp
      · split
        · intro p hp; simp at hp
        · intro p hp
          change p ∈ a.res.filter (·.1 ≠ k) at hp
          exact hw p (List.mem_filter.mp hp).1

/-! ### the subscriptions the authority holds on its channels -/

/-- apply a channel command to the ledger of (server, resource) subscriptions -/
def ledgerCmd (L : List (Nat × Key)) : Cmd → List (Nat × Key)
  | .sub i k => L ++ [(i, k)]
  | .unsub i k => L.filter (· ≠ (i, k))
  | .release i => L.filter (·.1 ≠ i)
  | .build _ => L

def ledgerCmds (L : List (Nat × Key)) (cmds : List Cmd) : List (Nat × Key) := cmds.foldl ledgerCmd L

/-- the ledger agrees with the `xdsChannelConfigs` sets of the resource states -/
def LedgerOK (a : Auth) (L : List (Nat × Key)) : Prop :=
  ∀ i k, (i, k) ∈ L ↔ ∃ r, (k, r) ∈ a.res ∧ i ∈ r.chans

def removes : Cmd → Nat × Key → Prop
  | .unsub i k, x => x = (i, k)
  | .release i, x => x.1 = i
  | _, _ => False

def isRemoval : Cmd → Prop
  | .unsub _ _ => True
  | .release _ => True
  | _ => False

def adds : Cmd → Nat × Key → Prop
  | .sub i k, x => x = (i, k)
  | _, _ => False

def isAdd : Cmd → Prop
  | .sub _ _ => True
  | .build _ => True
  | _ => False

theorem ledger_removals (cmds : List Cmd) (L : List (Nat × Key)) (h : ∀ c ∈ cmds, isRemoval c) (x : Nat × Key) :
    x ∈ ledgerCmds L cmds ↔ x ∈ L ∧ ∀ c ∈ cmds, ¬ removes c x := by
  induction cmds generalizing L with
  | nil => simp [ledgerCmds]
  | cons c cs ih =>
    simp only [ledgerCmds, List.foldl_cons]
    have := ih (ledgerCmd L c) (fun c' hc' => h c' (by simp [hc']))
    simp only [ledgerCmds] at this
    rw [this]
    have hc := h c (by simp)
    cases c with
    | unsub i k => simp [ledgerCmd, removes]; constructor <;> (intro h'; simp_all)
    | release i => simp [ledgerCmd, removes]; constructor <;> (intro h'; simp_all)
    | sub i k => exact absurd hc (by simp [isRemoval])
    | build i => exact absurd hc (by simp [isRemoval])

theorem ledger_adds (cmds : List Cmd) (L : List (Nat × Key)) (h : ∀ c ∈ cmds, isAdd c) (x : Nat × Key) :
    x ∈ ledgerCmds L cmds ↔ x ∈ L ∨ ∃ c ∈ cmds, adds c x := by
  induction cmds generalizing L with
  | nil => simp [ledgerCmds]
  | cons c cs ih =>
    simp only [ledgerCmds, List.foldl_cons]
    have := ih (ledgerCmd L c) (fun c' hc' => h c' (by simp [hc']))
    simp only [ledgerCmds] at this
    rw [this]
    have hc := h c (by simp)
    cases c with
    | sub i k =>
      simp only [ledgerCmd, List.mem_append, List.mem_cons, List.not_mem_nil, or_false, exists_eq_or_imp, adds]
      constructor
      · rintro ((h' | h') | h')
        · exact Or.inl h'
        · exact Or.inr (Or.inl h')
        · exact Or.inr (Or.inr h')
      · rintro (h' | h' | h')
        · exact Or.inl (Or.inl h')
        · exact Or.inl (Or.inr h')
        · exact Or.inr h'
    | build i => simp [ledgerCmd, adds]
    | unsub i k => exact absurd hc (by simp [isAdd])
    | release i => exact absurd hc (by simp [isAdd])

theorem exists_map_chans {f : Key × RState → Key × RState} (hk : ∀ p, (f p).1 = p.1)
    (hc : ∀ p, (f p).2.chans = p.2.chans) (l : List (Key × RState)) (i : Nat) (k : Key) :
    (∃ r', (k, r') ∈ l.map f ∧ i ∈ r'.chans) ↔ ∃ r, (k, r) ∈ l ∧ i ∈ r.chans := by
  simp only [List.mem_map]
  constructor
  · rintro ⟨r', ⟨p, hp, heq⟩, hi⟩
    have h1 := hk p; have h2 := hc p
    rw [heq] at h1 h2
    simp only at h1 h2
    exact ⟨p.2, by rw [h1]; exact hp, by rw [← h2]; exact hi⟩
  · rintro ⟨r, hp, hi⟩
    refine ⟨(f (k, r)).2, ⟨(k, r), hp, ?_⟩, ?_⟩
    · have := hk (k, r); simp only at this
      exact Prod.ext this rfl
    · rw [hc]; exact hi

structure Bounded (a : Auth) : Prop where
  pos : 0 < a.n
  act : ∀ i, a.active = some i → i < a.n
  chans : ∀ p ∈ a.res, ∀ i ∈ p.2.chans, i < a.n

theorem mem_nextServer {a : Auth} {srv i : Nat} (h : nextServer a srv = some i) :
    srv < i ∧ i < a.n ∧ i ∉ a.opened := by
  unfold nextServer at h
  have := List.mem_of_mem_head? h
  simp only [List.mem_filter, List.mem_range, Bool.and_eq_true, decide_eq_true_eq, Bool.not_eq_true',
    List.contains_eq_mem, decide_eq_false_iff_not] at this
  exact ⟨this.2.1.1, this.1, this.2.1.2⟩

theorem nextServer_buildable {a : Auth} {srv i : Nat} (h : nextServer a srv = some i) : i ∉ a.nobuild := by
  unfold nextServer at h
  have := List.mem_of_mem_head? h
  simp only [List.mem_filter, List.mem_range, Bool.and_eq_true, decide_eq_true_eq, Bool.not_eq_true',
    List.contains_eq_mem, decide_eq_false_iff_not] at this
  exact this.2.2

theorem fallbackTarget_some {a : Auth} {srv j : Nat} (h : fallbackTarget a srv = some j) :
    a.active = some srv ∧ nextServer a srv = some j := by
  unfold fallbackTarget at h
  by_cases hact : a.active = some srv
  · simp [hact] at h; exact ⟨hact, h⟩
  · simp [hact] at h

theorem handleUpdate_n (a : Auth) (srv : Nat) (typ ver : String) (es : List (String × Upd)) :
    (handleUpdate a srv typ ver es).auth.n = a.n := by
  cases hact : a.active with
  | none => simp [handleUpdate, revert_none hact]
  | some act =>
    by_cases h1 : srv = act
    · subst h1; simp [handleUpdate, revert_same hact, processUpdate_res]
    · by_cases h2 : act < srv
      · simp [handleUpdate, revert_below hact h2]
      · have h3 : srv < act := by omega
        simp [handleUpdate, revert_above hact h3, processUpdate_res, revertTo]

theorem bounded_step {a : Auth} {e : AEv} (hb : Bounded a) : Bounded (a.step e).auth := by
  cases e with
  | update srv gen typ ver es =>
    simp only [Auth.step]
    cases hact : a.active with
    | none => simp only [handleUpdate, revert_none hact]; exact hb
    | some act =>
      by_cases h1 : srv = act
      · subst h1
        simp only [handleUpdate, revert_same hact, ↓reduceIte, processUpdate_res]
        refine ⟨hb.pos, hb.act, ?_⟩
        intro p' hp' i hi
        simp only [List.mem_map] at hp'
        obtain ⟨p, hp, rfl⟩ := hp'
        rw [(updFull_key ..).2.2] at hi
        exact hb.chans p hp i hi
      · by_cases h2 : act < srv
        · simp only [handleUpdate, revert_below hact h2]; exact hb
        · have h3 : srv < act := by omega
          simp only [handleUpdate, revert_above hact h3, ↓reduceIte, processUpdate_res]
          have hlt := hb.act act hact
          refine ⟨hb.pos, ?_, ?_⟩
          · intro i hi
            simp only [revertTo, Option.some.injEq] at hi
            subst hi; exact Nat.lt_trans h3 hlt
          · intro p' hp' i hi
            simp only [revertTo, List.mem_map] at hp'
            obtain ⟨_, ⟨p, hp, rfl⟩, rfl⟩ := hp'
            rw [(updFull_key ..).2.2] at hi
            simp only [restrictChans, List.mem_filter] at hi
            exact hb.chans p hp i hi.1
  | dne k =>
    refine ⟨hb.pos, hb.act, ?_⟩
    intro p' hp' i hi
    simp only [Auth.step, handleDNE, List.mem_map] at hp'
    obtain ⟨p, hp, rfl⟩ := hp'
    split at hi <;> exact hb.chans p hp i hi
  | failure srv after =>
    simp only [Auth.step, handleFailure]
    split
    · exact hb
    · split
      · exact hb
      · split
        · rename_i i hn
          have hi := mem_nextServer (fallbackTarget_some hn).2
          refine ⟨hb.pos, ?_, ?_⟩
          · intro j hj; simp only [fallbackTo, Option.some.injEq] at hj; subst hj; exact hi.2.1
          · intro p' hp' j hj
            simp only [fallbackTo, List.mem_map] at hp'
            obtain ⟨p, hp, rfl⟩ := hp'
            simp only [List.mem_append, List.mem_singleton] at hj
            rcases hj with hj | rfl
            · exact hb.chans p hp j hj
            · exact hi.2.1
        · exact hb
  | env l => exact ⟨hb.pos, hb.act, hb.chans⟩
  | watch k w =>
    simp only [Auth.step]
    rcases watchResource_cases a k w with ⟨_, hwr⟩ | ⟨_, hwr⟩ <;> rw [hwr]
    · exact hb
    simp only [watch]
    have hcu : (channelToUse a).1.n = a.n ∧ (channelToUse a).2.2 < a.n ∧
        (∀ i, (channelToUse a).1.active = some i → i < a.n) := by
      unfold channelToUse
      cases hact : a.active with
      | none => exact ⟨rfl, hb.pos, by intro i hi; simp at hi; subst hi; exact hb.pos⟩
      | some act => exact ⟨rfl, hb.act act hact, by intro i hi; simp only at hi; exact hb.act i hi⟩
    split
    · refine ⟨by simp only [hcu.1]; exact hb.pos, by simp only [hcu.1]; exact hcu.2.2, ?_⟩
      intro p' hp' i hi
      simp only [hcu.1]
      simp only [List.mem_append, List.mem_singleton] at hp'
      rcases hp' with hp' | rfl
      · exact hb.chans p' hp' i hi
      · simp only [newRState, List.mem_singleton] at hi; subst hi; exact hcu.2.1
    · refine ⟨by simp only [hcu.1]; exact hb.pos, by simp only [hcu.1]; exact hcu.2.2, ?_⟩
      intro p' hp' i hi
      simp only [hcu.1]
      change p' ∈ a.res.map (addWatcher k w) at hp'
      simp only [List.mem_map] at hp'
      obtain ⟨p, hp, rfl⟩ := hp'
      unfold addWatcher at hi
      split at hi <;> exact hb.chans p hp i hi
  | unwatch k w =>
    simp only [Auth.step, unwatch]
    split
    · exact hb
    · split
      · refine ⟨hb.pos, hb.act, ?_⟩
        intro p' hp' i hi
        change p' ∈ a.res.map (dropWatcher k w) at hp'
        simp only [List.mem_map] at hp'
        obtain ⟨p, hp, rfl⟩ := hp'
        unfold dropWatcher at hi
        split at hi <;> exact hb.chans p hp i hi
      · split
        · exact ⟨hb.pos, by intro i hi; simp at hi, by intro p hp; simp at hp⟩
        · refine ⟨hb.pos, hb.act, ?_⟩
          intro p hp i hi
          change p ∈ a.res.filter (·.1 ≠ k) at hp
          exact hb.chans p (List.mem_filter.mp hp).1 i hi

theorem revertCmds_removal (a : Auth) (srv : Nat) : ∀ c ∈ revertCmds a srv, isRemoval c := by
  intro c hc
  simp only [revertCmds, List.mem_flatMap, List.mem_filter, List.mem_range, decide_eq_true_eq, List.mem_append,
    List.mem_map] at hc
  obtain ⟨i, _, ⟨p, _, rfl⟩ | hc⟩ := hc
  · trivial
  · split at hc
    · simp only [List.mem_singleton] at hc; subst hc; trivial
    · simp at hc

theorem ledger_step {a : Auth} {e : AEv} {L : List (Nat × Key)} (hi : AInv a) (hb : Bounded a)
    (hl : LedgerOK a L) : LedgerOK (a.step e).auth (ledgerCmds L (a.step e).cmds) := by
  cases e with
  | update srv gen typ ver es =>
    simp only [Auth.step]
    cases hact : a.active with
    | none => simp only [handleUpdate, revert_none hact]; exact hl
    | some act =>
      by_cases h1 : srv = act
      · subst h1
        simp only [handleUpdate, revert_same hact, ↓reduceIte, processUpdate_res, ledgerCmds, List.foldl_nil]
        intro i k
        rw [hl i k]
        exact (exists_map_chans (fun p => (updFull_key ..).1) (fun p => (updFull_key ..).2.2) a.res i k).symm
      · by_cases h2 : act < srv
        · simp only [handleUpdate, revert_below hact h2]; exact hl
        · have h3 : srv < act := by omega
          simp only [handleUpdate, revert_above hact h3, ↓reduceIte, processUpdate_res]
          intro i k
          rw [ledger_removals _ _ (revertCmds_removal a srv), hl i k]
          rw [exists_map_chans (fun p => (updFull_key ..).1) (fun p => (updFull_key ..).2.2)]
          simp only [revertTo, List.mem_map]
          constructor
          · rintro ⟨⟨r, hr, hic⟩, hnr⟩
            have hle : i ≤ srv := by
              rcases Nat.lt_or_ge srv i with hgt | hle
              · exfalso
                apply hnr (Cmd.unsub i k)
                · simp only [revertCmds, List.mem_flatMap, List.mem_filter, List.mem_range, decide_eq_true_eq,
                    List.mem_append, List.mem_map]
                  exact ⟨i, ⟨hb.chans _ hr i hic, hgt⟩, Or.inl ⟨(k, r), ⟨hr, by simpa using hic⟩, rfl⟩⟩
                · rfl
              · exact hle
            exact ⟨{ r with chans := r.chans.filter (· ≤ srv) }, ⟨(k, r), hr, rfl⟩, by simp [hic, hle]⟩
          · rintro ⟨r', ⟨p, hp, heq⟩, hic⟩
            simp only [restrictChans, Prod.mk.injEq] at heq
            obtain ⟨rfl, rfl⟩ := heq
            simp only [List.mem_filter, decide_eq_true_eq] at hic
            refine ⟨⟨p.2, hp, hic.1⟩, ?_⟩
            intro c hc hrem
            simp only [revertCmds, List.mem_flatMap, List.mem_filter, List.mem_range, decide_eq_true_eq,
              List.mem_append, List.mem_map] at hc
            obtain ⟨j, ⟨_, hj⟩, ⟨q, _, rfl⟩ | hc⟩ := hc
            · simp only [removes, Prod.mk.injEq] at hrem; omega
            · split at hc
              · simp only [List.mem_singleton] at hc; subst hc
                simp only [removes] at hrem; omega
              · simp at hc
  | dne k' =>
    simp only [Auth.step, handleDNE, ledgerCmds, List.foldl_nil]
    intro i k
    rw [hl i k]
    exact (exists_map_chans (f := fun p => if p.1 = k' then (p.1, { p.2 with cache := none, status := .notExist, version := "", err := none }) else p)
      (fun p => by split <;> rfl) (fun p => by split <;> rfl) a.res i k).symm
  | failure srv after =>
    simp only [Auth.step, handleFailure]
    split
    · exact hl
    · split
      · exact hl
      · split
        · rename_i j hn
          intro i k
          rw [ledger_adds _ _ (by
            intro c hc
            simp only [fallbackTo, List.mem_cons, List.mem_map] at hc
            rcases hc with rfl | ⟨p, _, rfl⟩ <;> trivial), hl i k]
          simp only [fallbackTo, List.mem_cons, List.mem_map, exists_eq_or_imp, adds, false_or]
          constructor
          · rintro (⟨r, hr, hic⟩ | ⟨c, ⟨p, hp, rfl⟩, hadd⟩)
            · exact ⟨{ r with chans := r.chans ++ [j] }, ⟨(k, r), hr, rfl⟩, by simp [hic]⟩
            · simp only [adds, Prod.mk.injEq] at hadd
              obtain ⟨rfl, rfl⟩ := hadd
              exact ⟨{ p.2 with chans := p.2.chans ++ [i] }, ⟨p, hp, rfl⟩, by simp⟩
          · rintro ⟨r', ⟨p, hp, heq⟩, hic⟩
            simp only [Prod.mk.injEq] at heq
            obtain ⟨rfl, rfl⟩ := heq
            simp only [List.mem_append, List.mem_singleton] at hic
            rcases hic with hic | rfl
            · exact Or.inl ⟨p.2, hp, hic⟩
            · exact Or.inr ⟨_, ⟨p, hp, rfl⟩, rfl⟩
        · exact hl
  | env l => exact hl
  | watch k' w =>
    simp only [Auth.step]
    rcases watchResource_cases a k' w with ⟨_, hwr⟩ | ⟨_, hwr⟩ <;> rw [hwr]
    · exact hl
    simp only [watch]
    have hcu : ∀ c ∈ (channelToUse a).2.1, isAdd c ∧ ∀ x, ¬ adds c x := by
      intro c hc
      unfold channelToUse at hc
      split at hc
      · simp at hc
      · simp only [List.mem_singleton] at hc; subst hc; exact ⟨trivial, fun x hx => hx⟩
    split
    · rename_i hlk
      intro i k
      rw [ledger_adds _ _ (by
        intro c hc
        simp only [List.mem_append, List.mem_singleton] at hc
        rcases hc with hc | rfl
        · exact (hcu c hc).1
        · trivial), hl i k]
      simp only [List.mem_append, List.mem_singleton]
      constructor
      · rintro (⟨r, hr, hic⟩ | ⟨c, hc | rfl, hadd⟩)
        · exact ⟨r, Or.inl hr, hic⟩
        · exact absurd hadd ((hcu c hc).2 _)
        · simp only [adds, Prod.mk.injEq] at hadd
          obtain ⟨rfl, rfl⟩ := hadd
          exact ⟨_, Or.inr rfl, by simp [newRState]⟩
      · rintro ⟨r, hr | heq, hic⟩
        · exact Or.inl ⟨r, hr, hic⟩
        · simp only [Prod.mk.injEq] at heq
          obtain ⟨rfl, rfl⟩ := heq
          simp only [newRState, List.mem_singleton] at hic
          subst hic
          exact Or.inr ⟨_, Or.inr rfl, rfl⟩
    · intro i k
      rw [ledger_adds _ _ (fun c hc => (hcu c hc).1), hl i k]
      change _ ↔ ∃ r, (k, r) ∈ a.res.map (addWatcher k' w) ∧ i ∈ r.chans
      rw [exists_map_chans (by intro p; unfold addWatcher; split <;> rfl) (by intro p; unfold addWatcher; split <;> rfl)]
      constructor
      · rintro (h | ⟨c, hc, hadd⟩)
        · exact h
        · exact absurd hadd ((hcu c hc).2 _)
      · exact Or.inl
  | unwatch k' w =>
    simp only [Auth.step, unwatch]
    split
    · exact hl
    · rename_i r hlk
      have hm := lookup_mem hlk
      split
      · simp only [ledgerCmds, List.foldl_nil]
        intro i k
        rw [hl i k]
        change _ ↔ ∃ r, (k, r) ∈ a.res.map (dropWatcher k' w) ∧ i ∈ r.chans
        rw [exists_map_chans (by intro p; unfold dropWatcher; split <;> rfl) (by intro p; unfold dropWatcher; split <;> rfl)]
      · -- the last watcher leaves: unsubscribe everywhere, drop the state
        have hrem : ∀ (extra : List Cmd), (∀ c ∈ extra, isRemoval c) →
            ∀ i k, (i, k) ∈ ledgerCmds L ((r.chans.map fun j => Cmd.unsub j k') ++ extra) →
              ∃ r', (k, r') ∈ a.res.filter (·.1 ≠ k') ∧ i ∈ r'.chans := by
          intro extra hex i k hmem
          rw [ledger_removals _ _ (by
            intro c hc
            simp only [List.mem_append, List.mem_map] at hc
            rcases hc with ⟨j, _, rfl⟩ | hc
            · trivial
            · exact hex c hc), hl i k] at hmem
          obtain ⟨⟨r', hr', hic⟩, hnr⟩ := hmem
          refine ⟨r', ?_, hic⟩
          simp only [List.mem_filter, decide_eq_true_eq, ne_eq, decide_not, Bool.not_eq_eq_eq_not, Bool.not_true,
            decide_eq_false_iff_not]
          refine ⟨hr', ?_⟩
          intro hkk
          subst hkk
          have : (k, r') = (k, r) := eq_of_key_eq hi.keys hr' hm rfl
          simp only [Prod.mk.injEq, true_and] at this
          subst this
          exact hnr (Cmd.unsub i k) (by simp only [List.mem_append, List.mem_map]; exact Or.inl ⟨i, hic, rfl⟩) rfl
        split
        · rename_i hnil
          intro i k
          constructor
          · intro hmem
            obtain ⟨r', hr', _⟩ := hrem _ (by intro c hc; simp only [List.mem_map] at hc; obtain ⟨j, _, rfl⟩ := hc; trivial) i k hmem
            rw [hnil] at hr'; simp at hr'
          · rintro ⟨r', hr', _⟩; simp at hr'
        · intro i k
          constructor
          · intro hmem
            have := hrem [] (by simp) i k (by simpa using hmem)
            exact this
          · rintro ⟨r', hr', hic⟩
            change (k, r') ∈ a.res.filter (·.1 ≠ k') at hr'
            simp only [List.mem_filter, decide_eq_true_eq, ne_eq, decide_not, Bool.not_eq_eq_eq_not, Bool.not_true,
              decide_eq_false_iff_not] at hr'
            rw [ledger_removals _ _ (by intro c hc; simp only [List.mem_map] at hc; obtain ⟨j, _, rfl⟩ := hc; trivial), hl i k]
            refine ⟨⟨r', hr'.1, hic⟩, ?_⟩
            intro c hc hrm
            simp only [List.mem_map] at hc
            obtain ⟨j, _, rfl⟩ := hc
            simp only [removes, Prod.mk.injEq] at hrm
            exact hr'.2 hrm.2


/-- histories in which every `watch` call brings a new watcher (as `WatchResource` does: the returned cancel
    function is tied to that registration) -/
def FreshRun : Auth → List AEv → Prop
  | _, [] => True
  | a, e :: es => Fresh a e ∧ FreshRun (a.step e).auth es

theorem inv_run (es : List AEv) (a : Auth) (hi : AInv a) (hf : FreshRun a es) : AInv (Auth.run a es) := by
  induction es generalizing a with
  | nil => exact hi
  | cons e es ih => exact ih _ (inv_step hi hf.1) hf.2

theorem watched_run (es : List AEv) (a : Auth) (hi : AInv a) (hw : Watched a) (hf : FreshRun a es) :
    Watched (Auth.run a es) := by
  induction es generalizing a with
  | nil => exact hw
  | cons e es ih => exact ih _ (inv_step hi hf.1) (watched_step hi hw) hf.2


theorem head_filter_le (l : List Nat) (hl : l.Pairwise (· < ·)) (f : Nat → Bool) (y z : Nat)
    (hy : (l.filter f).head? = some y) (hz : z ∈ l.filter f) : y ≤ z := by
  induction l with
  | nil => simp at hz
  | cons u us ih =>
    rw [List.pairwise_cons] at hl
    simp only [List.filter_cons] at hy hz
    split at hy
    · simp only [List.head?_cons, Option.some.injEq] at hy
      subst hy
      rename_i hf
      simp only [hf, ↓reduceIte, List.mem_cons] at hz
      rcases hz with rfl | hz
      · exact Nat.le_refl _
      · exact Nat.le_of_lt (hl.1 z (List.mem_filter.mp hz).1)
    · rename_i hf
      simp only [hf] at hz
      exact ih hl.2 hy hz

/-- `nextServer` returns the FIRST server after `srv` without a channel -/
theorem nextServer_between {a : Auth} {srv j : Nat} (hn : nextServer a srv = some j) (x : Nat)
    (hx1 : srv < x) (hx2 : x < j) : x ∈ a.opened ∨ x ∈ a.nobuild := by
  have hm := mem_nextServer hn
  unfold nextServer at hn
  rcases Classical.em (x ∈ a.opened ∨ x ∈ a.nobuild) with h | h
  · exact h
  · exfalso
    have hxmem : x ∈ (List.range a.n).filter fun i => decide (srv < i) && !a.opened.contains i && !a.nobuild.contains i := by
      simp only [List.mem_filter, List.mem_range, Bool.and_eq_true, decide_eq_true_eq, Bool.not_eq_true',
        List.contains_eq_mem, decide_eq_false_iff_not]
      exact ⟨by omega, ⟨hx1, fun h1 => h (Or.inl h1)⟩, fun h2 => h (Or.inr h2)⟩
    have := head_filter_le (List.range a.n) List.pairwise_lt_range _ j x hn hxmem
    omega

theorem nextServer_none {a : Auth} {srv : Nat} (hn : nextServer a srv = none) (x : Nat) (hx1 : srv < x) (hx2 : x < a.n) :
    x ∈ a.opened ∨ x ∈ a.nobuild := by
  unfold nextServer at hn
  rcases Classical.em (x ∈ a.opened ∨ x ∈ a.nobuild) with h | h
  · exact h
  · exfalso
    have hxmem : x ∈ (List.range a.n).filter fun i => decide (srv < i) && !a.opened.contains i && !a.nobuild.contains i := by
      simp only [List.mem_filter, List.mem_range, Bool.and_eq_true, decide_eq_true_eq, Bool.not_eq_true',
        List.contains_eq_mem, decide_eq_false_iff_not]
      exact ⟨hx2, ⟨hx1, fun h1 => h (Or.inl h1)⟩, fun h2 => h (Or.inr h2)⟩
    rw [List.head?_eq_none_iff] at hn
    rw [hn] at hxmem
    simp at hxmem

/-- the channels the authority holds are exactly those of the servers 0 … active -/
def Prefix (a : Auth) : Prop :=
  (a.active = none → a.opened = []) ∧ ∀ act, a.active = some act → ∀ i, i ∈ a.opened ↔ i ≤ act

/-- no transport creation ever fails: the environment events of the history all say so -/
def NoBuildFault : AEv → Prop
  | .env l => l = []
  | _ => True

theorem handleUpdate_nobuild (a : Auth) (srv : Nat) (typ ver : String) (es : List (String × Upd)) :
    (handleUpdate a srv typ ver es).auth.nobuild = a.nobuild := by
  cases hact : a.active with
  | none => simp [handleUpdate, revert_none hact]
  | some act =>
    by_cases h1 : srv = act
    · subst h1; simp [handleUpdate, revert_same hact, processUpdate_res]
    · by_cases h2 : act < srv
      · simp [handleUpdate, revert_below hact h2]
      · have h3 : srv < act := by omega
        simp [handleUpdate, revert_above hact h3, processUpdate_res, revertTo]

theorem step_nobuild {a : Auth} {e : AEv} (he : NoBuildFault e) (hnb : a.nobuild = []) :
    (a.step e).auth.nobuild = [] := by
  cases e with
  | update srv gen typ ver es => simp only [Auth.step]; rw [handleUpdate_nobuild]; exact hnb
  | dne k => exact hnb
  | failure srv after =>
    simp only [Auth.step, handleFailure]
    split
    · exact hnb
    · split
      · exact hnb
      · split <;> exact hnb
  | watch k w =>
    simp only [Auth.step]
    rcases watchResource_cases a k w with ⟨_, hwr⟩ | ⟨_, hwr⟩ <;> rw [hwr]
    · exact hnb
    simp only [watch]
    have : (channelToUse a).1.nobuild = a.nobuild := by unfold channelToUse; split <;> rfl
    split <;> (simp only []; rw [this]; exact hnb)
  | unwatch k w =>
    simp only [Auth.step, unwatch]
    split
    · exact hnb
    · split
      · exact hnb
      · split <;> exact hnb
  | env l => simp only [NoBuildFault] at he; subst he; rfl

theorem prefix_step {a : Auth} {e : AEv} (hp : Prefix a) (hnb : a.nobuild = []) : Prefix (a.step e).auth := by
  obtain ⟨hp0, hp1⟩ := hp
  cases e with
  | update srv gen typ ver es =>
    simp only [Auth.step]
    cases hact : a.active with
    | none => simp only [handleUpdate, revert_none hact]; exact ⟨hp0, hp1⟩
    | some act =>
      by_cases h1 : srv = act
      · subst h1
        simp only [handleUpdate, revert_same hact, ↓reduceIte, processUpdate_res]
        exact ⟨hp0, hp1⟩
      · by_cases h2 : act < srv
        · simp only [handleUpdate, revert_below hact h2]; exact ⟨hp0, hp1⟩
        · have h3 : srv < act := by omega
          simp only [handleUpdate, revert_above hact h3, ↓reduceIte, processUpdate_res]
          refine ⟨by simp [revertTo], ?_⟩
          intro act' hact' i
          simp only [revertTo, Option.some.injEq] at hact'
          subst hact'
          simp only [revertTo, List.mem_filter, decide_eq_true_eq]
          have := hp1 act hact i
          constructor
          · exact fun h => h.2
          · intro h; exact ⟨this.mpr (by omega), h⟩
  | dne k => exact ⟨hp0, hp1⟩
  | failure srv after =>
    simp only [Auth.step, handleFailure]
    split
    · exact ⟨hp0, hp1⟩
    · split
      · exact ⟨hp0, hp1⟩
      · split
        · rename_i j hn0
          have hn := (fallbackTarget_some hn0).2
          have hm := mem_nextServer hn
          have hact0 := (fallbackTarget_some hn0).1
          cases hact : a.active with
          | none => rw [hact] at hact0; simp at hact0
          | some act =>
            have hsrv : srv ≤ act := by rw [hact] at hact0; simp at hact0; omega
            have hj : j = act + 1 := by
              have h1 : ¬ j ≤ act := fun h => hm.2.2 ((hp1 act hact j).mpr h)
              rcases Nat.lt_or_ge (act + 1) j with h2 | h2
              · have := nextServer_between hn (act + 1) (by omega) h2
                rw [hnb] at this
                simp only [List.not_mem_nil, or_false] at this
                have := (hp1 act hact (act + 1)).mp this
                omega
              · omega
            refine ⟨by simp [fallbackTo], ?_⟩
            intro act' hact' i
            simp only [fallbackTo, Option.some.injEq] at hact'
            subst hact'
            simp only [fallbackTo, List.mem_append, List.mem_singleton]
            have := hp1 act hact i
            constructor
            · rintro (h | h)
              · have := this.mp h; omega
              · omega
            · intro h
              rcases Nat.lt_or_ge act i with h2 | h2
              · right; omega
              · left; exact this.mpr h2
        · exact ⟨hp0, hp1⟩
  | env l => exact ⟨hp0, hp1⟩
  | watch k w =>
    simp only [Auth.step]
    rcases watchResource_cases a k w with ⟨_, hwr⟩ | ⟨_, hwr⟩ <;> rw [hwr]
    · exact ⟨hp0, hp1⟩
    simp only [watch]
    have hcu : Prefix (channelToUse a).1 := by
      unfold channelToUse
      cases hact : a.active with
      | some act => exact ⟨by intro h; simp [hact] at h, by intro act' h; simp only at h; exact hp1 act' h⟩
      | none =>
        refine ⟨by simp, ?_⟩
        intro act' h i
        simp only [Option.some.injEq] at h
        subst h
        simp [hp0 hact]
    split <;> exact hcu
  | unwatch k w =>
    simp only [Auth.step, unwatch]
    split
    · exact ⟨hp0, hp1⟩
    · split
      · exact ⟨hp0, hp1⟩
      · split
        · exact ⟨by simp, by simp⟩
        · exact ⟨hp0, hp1⟩


/-- the authority holds no channel to a server below its active one, and none at all when nothing is active -/
def NoBelow (a : Auth) : Prop :=
  (a.active = none → a.opened = []) ∧ ∀ act, a.active = some act → ∀ i ∈ a.opened, i ≤ act

theorem noBelow_step {a : Auth} {e : AEv} (hp : NoBelow a) : NoBelow (a.step e).auth := by
  obtain ⟨hp0, hp1⟩ := hp
  cases e with
  | update srv gen typ ver es =>
    simp only [Auth.step]
    cases hact : a.active with
    | none => simp only [handleUpdate, revert_none hact]; exact ⟨hp0, hp1⟩
    | some act =>
      by_cases h1 : srv = act
      · subst h1
        simp only [handleUpdate, revert_same hact, ↓reduceIte, processUpdate_res]
        exact ⟨hp0, hp1⟩
      · by_cases h2 : act < srv
        · simp only [handleUpdate, revert_below hact h2]; exact ⟨hp0, hp1⟩
        · have h3 : srv < act := by omega
          simp only [handleUpdate, revert_above hact h3, ↓reduceIte, processUpdate_res]
          refine ⟨by simp [revertTo], ?_⟩
          intro act' hact'
          simp only [revertTo, Option.some.injEq] at hact'
          subst hact'
          simp only [revertTo, List.mem_filter, decide_eq_true_eq]
          exact fun i hi => hi.2
  | dne k => exact ⟨hp0, hp1⟩
  | failure srv after =>
    simp only [Auth.step, handleFailure]
    split
    · exact ⟨hp0, hp1⟩
    · split
      · exact ⟨hp0, hp1⟩
      · split
        · rename_i j hn0
          obtain ⟨hact, hn⟩ := fallbackTarget_some hn0
          have hm := mem_nextServer hn
          refine ⟨by simp [fallbackTo], ?_⟩
          intro act' hact'
          simp only [fallbackTo, Option.some.injEq] at hact'
          subst hact'
          simp only [fallbackTo, List.mem_append, List.mem_singleton]
          rintro i (hi | rfl)
          · have := hp1 srv hact i hi; omega
          · exact Nat.le_refl _
        · exact ⟨hp0, hp1⟩
  | env l => exact ⟨hp0, hp1⟩
  | watch k w =>
    simp only [Auth.step]
    rcases watchResource_cases a k w with ⟨_, hwr⟩ | ⟨_, hwr⟩ <;> rw [hwr]
    · exact ⟨hp0, hp1⟩
    simp only [watch]
    have hcu : NoBelow (channelToUse a).1 := by
      unfold channelToUse
      cases hact : a.active with
      | some act => exact ⟨by intro h; simp [hact] at h, by intro act' h; simp only at h; exact hp1 act' h⟩
      | none =>
        refine ⟨by simp, ?_⟩
        intro act' h
        simp only [Option.some.injEq] at h
        subst h
        simp [hp0 hact]
    split <;> exact hcu
  | unwatch k w =>
    simp only [Auth.step, unwatch]
    split
    · exact ⟨hp0, hp1⟩
    · split
      · exact ⟨hp0, hp1⟩
      · split
        · exact ⟨by simp, by simp⟩
        · exact ⟨hp0, hp1⟩

/-! ### vocabulary of the trace-level theorems of C43 and its induction lemmas -/

/-- the decoder accepted content `c` for resource `k` in some response of the history -/
def Accepted (hist : List AEv) (k : Key) (c : String) : Prop :=
  ∃ srv gen ver es, AEv.update srv gen k.typ ver es ∈ hist ∧ entLookup es k.name = some (.ok c)

theorem cacheAcc_run (es : List AEv) (a : Auth) (hist : List AEv)
    (h : ∀ p ∈ a.res, ∀ c, p.2.cache = some c → Accepted hist p.1 c) :
    ∀ p ∈ (Auth.run a es).res, ∀ c, p.2.cache = some c → Accepted (hist ++ es) p.1 c := by
  induction es generalizing a hist with
  | nil => simpa [Auth.run] using h
  | cons e es ih =>
    simp only [Auth.run]
    have := ih (a.step e).auth (hist ++ [e]) (by
      intro p hp c hc
      rcases cache_step hp hc with ⟨srv, gen, ver, es', rfl, he⟩ | ⟨q, hq, hk, hqc⟩
      · exact ⟨srv, gen, ver, es', by simp, he⟩
      · obtain ⟨srv, gen, ver, es', hm, he⟩ := h q hq c hqc
        rw [hk] at hm he
        exact ⟨srv, gen, ver, es', by simp [hm], he⟩)
    simpa using this


/-- along a history, feed every watcher's callbacks (in order) to `Spec.okSeq`: the per-watcher record
    `WG` remembers the content of the last ResourceChanged (forgotten on a ResourceError) and whether a NACK
    was reported since; `okSeq` is false iff some ResourceChanged repeats the held content without a NACK in
    between. The same `okSeq` / `WG.apply` run in the monitor on the implementation's callback log. -/
def NoDupRun : Auth → (Nat → WG) → List AEv → Prop
  | _, _, [] => True
  | a, G, e :: es =>
    (∀ w, okSeq (ghost0 G e w) (cbsFor w (a.step e).cbs) = true) ∧
    NoDupRun (a.step e).auth (ghostStep G e (a.step e).cbs) es

theorem noDupRun_of_inv (es : List AEv) (a : Auth) (G : Nat → WG) (hi : AInv a) (hg : Agree a G)
    (hf : FreshRun a es) : NoDupRun a G es := by
  induction es generalizing a G with
  | nil => trivial
  | cons e es ih =>
    obtain ⟨hfe, hfr⟩ := hf
    have := ghost_step hi hg hfe
    exact ⟨this.1, ih _ _ (inv_step hi hfe) this.2 hfr⟩


/-- the per-watcher records along a history -/
def ghostRun : Auth → (Nat → WG) → List AEv → (Nat → WG)
  | _, G, [] => G
  | a, G, e :: es => ghostRun (a.step e).auth (ghostStep G e (a.step e).cbs) es

theorem agree_run (es : List AEv) (a : Auth) (G : Nat → WG) (hi : AInv a) (hg : Agree a G) (hf : FreshRun a es) :
    Agree (Auth.run a es) (ghostRun a G es) := by
  induction es generalizing a G with
  | nil => exact hg
  | cons e es ih => exact ih _ _ (inv_step hi hf.1) (ghost_step hi hg hf.1).2 hf.2


/-- the subscriptions held on the channels along a history: the commands applied to a ledger -/
def ledgerRun : Auth → List (Nat × Key) → List AEv → List (Nat × Key)
  | _, L, [] => L
  | a, L, e :: es => ledgerRun (a.step e).auth (ledgerCmds L (a.step e).cmds) es

theorem ledger_run (es : List AEv) (a : Auth) (L : List (Nat × Key)) (hi : AInv a) (hb : Bounded a) (hw : Watched a)
    (hl : LedgerOK a L) (hf : FreshRun a es) :
    LedgerOK (Auth.run a es) (ledgerRun a L es) ∧ Watched (Auth.run a es) := by
  induction es generalizing a L with
  | nil => exact ⟨hl, hw⟩
  | cons e es ih =>
    exact ih _ _ (inv_step hi hf.1) (bounded_step hb) (watched_step hi hw) (ledger_step hi hb hl) hf.2



theorem startTimers_keys (now : Nat) (typ : String) (subs : List (Key × WS)) :
    (startTimers now typ subs).map (·.1) = subs.map (·.1) := by
  unfold startTimers
  rw [List.map_map]
  apply List.map_congr_left
  intro p _
  simp only [Function.comp]
  split <;> rfl


end GrpcProofs.Lemmas.XdsAuth
