import GrpcModel.Model.Event
namespace GrpcProofs.Lemmas.Event
open GrpcModel.Event

structure Inv (s : St) : Prop where
  unfired : s.fired = false → s.f1 = 0 ∧ s.trues = 0 ∧ s.falses = 0
  won     : s.f1 + s.trues = (if s.fired then 1 else 0)
  chan    : s.closed = s.trues

theorem inv_init : Inv init := by constructor <;> simp [init]

theorem step_inv {s t : St} (r : Rule) (h : Inv s) (st : apply s r = some t) : Inv t := by
  obtain ⟨h1, h2, h3⟩ := h
  cases r <;> simp only [apply] at st <;> (try split at st) <;> simp at st <;> subst st <;>
    constructor <;> grind

end GrpcProofs.Lemmas.Event
