/-
Helper lemmas for C48 (authz translation part).
-/
import GrpcProofs.Lemmas.RBAC
namespace GrpcProofs.Lemmas.Authz
open GrpcModel.RBAC GrpcModel.Authz GrpcProofs.Lemmas.RBAC

/-! ### wildcard strings -/

theorem getStringMatcher_ok (v : Str) : (getStringMatcher v).ok = true := by
  unfold getStringMatcher
  split
  · simp [StrM.ok]
  · rename_i h1
    split
    · rename_i h2
      simp only [StrM.ok]
      cases v with
      | nil => simp at h2
      | cons a t =>
        cases t with
        | nil => simp at h2; simp [h2] at h1
        | cons b t' => simp [List.dropLast]
    · split
      · rename_i h3
        simp only [StrM.ok]
        cases v with
        | nil => simp at h3
        | cons a t =>
          cases t with
          | nil => simp at h3; simp [h3] at h1
          | cons b t' => simp
      · simp [StrM.ok]

theorem getStringMatcher_matches (pat v : Str) : (getStringMatcher pat).matches v = Spec.glob pat v := by
  unfold getStringMatcher Spec.glob
  split
  · simp [StrM.matches, Regex.matches]
  · split
    · simp [StrM.matches]
    · split
      · simp [StrM.matches]
      · simp [StrM.matches]

theorem getHeaderMatcher_ok (k v : Str) : (getHeaderMatcher k v).ok = true := by
  unfold getHeaderMatcher
  split
  · simp [HdrM.ok]
  · split
    · simp [HdrM.ok]
    · split <;> simp [HdrM.ok]

theorem getHeaderMatcher_matches (k pat : Str) (md : MD) :
    (getHeaderMatcher k pat).matches md =
      (match valueFromMD md k with | none => false | some v => Spec.glob pat v) := by
  unfold getHeaderMatcher Spec.glob
  split
  · simp only [HdrM.matches]; cases valueFromMD md k <;> simp [Regex.matches]
  · split
    · simp only [HdrM.matches]; cases valueFromMD md k <;> simp
    · split
      · simp only [HdrM.matches]; cases valueFromMD md k <;> simp
      · simp only [HdrM.matches]; cases valueFromMD md k <;> simp

/-! ### principals -/

theorem authEval_some (r : Request) (m : StrM) :
    authEval r (some m) = (r.tls && (Spec.identities r).any m.matches) := by
  unfold authEval Spec.identities
  cases r.tls
  · simp
  · cases r.certs with
    | nil => simp
    | cons c t =>
      simp only [Bool.not_true, Bool.false_eq_true, ↓reduceIte, Bool.true_and]
      split
      · simp_all
      · split <;> simp_all

theorem prinList_any_ofList_map {α : Type} (r : Request) (f : α → Prin) (l : List α) :
    (PrinList.ofList (l.map f)).any r = l.any (fun a => (f a).eval r) := by
  rw [prinList_any_eq, prinList_toList_ofList, List.any_map]; rfl

theorem permList_any_ofList_map {α : Type} (r : Request) (f : α → Perm) (l : List α) :
    (PermList.ofList (l.map f)).any r = l.any (fun a => (f a).eval r) := by
  rw [permList_any_eq, permList_toList_ofList, List.any_map]; rfl

theorem parsePeer_eval (r : Request) (ps : List Str) :
    (parsePeer ps).eval r = (ps.isEmpty || ps.any (Spec.principalMatches r)) := by
  unfold parsePeer
  split
  · rename_i h; simp [Prin.eval, h]
  · rename_i h
    simp only [Prin.eval, prinList_any_ofList_map, authEval_some]
    simp only [Bool.not_eq_true] at h
    simp only [h, Bool.false_or]
    congr 1
    funext a
    simp only [Spec.principalMatches]
    congr 2
    funext v
    exact getStringMatcher_matches a v

theorem prinList_ok_ofList (l : List Prin) : (PrinList.ofList l).ok = l.all Prin.ok := by
  induction l with
  | nil => simp [PrinList.ofList, PrinList.ok]
  | cons p t ih => simp [PrinList.ofList, PrinList.ok, ih]

theorem permList_ok_ofList (l : List Perm) : (PermList.ofList l).ok = l.all Perm.ok := by
  induction l with
  | nil => simp [PermList.ofList, PermList.ok]
  | cons p t ih => simp [PermList.ofList, PermList.ok, ih]

theorem parsePeer_ok (ps : List Str) : (parsePeer ps).ok = true := by
  unfold parsePeer
  split
  · simp [Prin.ok]
  · simp [Prin.ok, prinList_ok_ofList, getStringMatcher_ok]

/-! ### permissions -/

theorem perm_and_ofList_eval (r : Request) (l : List Perm) :
    (Perm.and (PermList.ofList l)).eval r = l.all (Perm.eval r) := by
  rw [Perm.eval, permList_all_eq, permList_toList_ofList]

theorem perm_or_ofList_eval (r : Request) (l : List Perm) :
    (Perm.or (PermList.ofList l)).eval r = l.any (Perm.eval r) := by
  rw [Perm.eval, permList_any_eq, permList_toList_ofList]

theorem header_or_eval (r : Request) (hd : Header) :
    (Perm.or (PermList.ofList (List.map (fun v => Perm.header (getHeaderMatcher (lower hd.key) v)) hd.values))).eval r
      = Spec.headerMatches r hd := by
  rw [perm_or_ofList_eval, List.any_map]
  simp only [Spec.headerMatches]
  cases hv : valueFromMD r.headers (lower hd.key) with
  | none =>
    simp only [List.any_eq_false, Function.comp]
    intro v _
    simp [Perm.eval, getHeaderMatcher_matches, hv]
  | some x =>
    congr 1
    funext v
    simp [Function.comp, Perm.eval, getHeaderMatcher_matches, hv]

theorem parseHeaders_eval (r : Request) : ∀ (hs : List Header) (perms : List Perm),
    parseHeaders hs = some perms → perms.all (Perm.eval r) = hs.all (Spec.headerMatches r)
  | [], perms, h => by
    simp [parseHeaders] at h; subst h; simp
  | hd :: t, perms, h => by
    simp only [parseHeaders] at h
    split at h
    · simp at h
    · split at h
      · simp at h
      · split at h
        · simp at h
        · cases ht : parseHeaders t with
          | none => simp [ht] at h
          | some rest =>
            simp only [ht, Option.some.injEq] at h
            subst h
            have ih := parseHeaders_eval r t rest ht
            simp only [List.all_cons, ih, header_or_eval]

theorem parseHeaders_ok : ∀ (hs : List Header) (perms : List Perm),
    parseHeaders hs = some perms → perms.all Perm.ok = true
  | [], perms, h => by simp [parseHeaders] at h; subst h; simp
  | hd :: t, perms, h => by
    simp only [parseHeaders] at h
    split at h
    · simp at h
    · split at h
      · simp at h
      · split at h
        · simp at h
        · cases ht : parseHeaders t with
          | none => simp [ht] at h
          | some rest =>
            simp only [ht, Option.some.injEq] at h
            subst h
            have ih := parseHeaders_ok t rest ht
            simp [Perm.ok, permList_ok_ofList, getHeaderMatcher_ok, ih]

theorem paths_or_eval (r : Request) (paths : List Str) :
    (Perm.or (PermList.ofList (parsePaths paths))).eval r = paths.any (fun p => Spec.glob p r.path) := by
  rw [perm_or_ofList_eval, parsePaths, List.any_map]
  congr 1
  funext p
  simp [Function.comp, Perm.eval, getStringMatcher_matches]

theorem parseRequest_eval (r : Request) (paths : List Str) (hs : List Header) (perm : Perm)
    (h : parseRequest paths hs = some perm) :
    perm.eval r = ((paths.isEmpty || paths.any (fun p => Spec.glob p r.path)) && hs.all (Spec.headerMatches r)) := by
  unfold parseRequest at h
  cases hpe : paths.isEmpty <;> cases hhe : hs.isEmpty
  · -- paths, headers
    simp only [hpe, hhe, Bool.false_eq_true, ↓reduceIte] at h
    cases hh : parseHeaders hs with
    | none => simp [hh] at h
    | some perms =>
      simp only [hh, Option.some.injEq] at h
      subst h
      have := parseHeaders_eval r hs perms hh
      rw [perm_and_ofList_eval]
      simp only [List.cons_append, List.nil_append, List.all_cons, List.all_nil, Bool.and_true, paths_or_eval,
        perm_and_ofList_eval, this, Bool.false_or]
  · -- paths only
    simp only [hpe, hhe, Bool.false_eq_true, ↓reduceIte, List.isEmpty_cons, Option.some.injEq] at h
    subst h
    have : hs = [] := by simpa using hhe
    subst this
    rw [perm_and_ofList_eval]
    simp only [List.all_cons, List.all_nil, Bool.and_true, paths_or_eval, Bool.false_or]
  · -- headers only
    simp only [hpe, hhe, Bool.false_eq_true, ↓reduceIte] at h
    cases hh : parseHeaders hs with
    | none => simp [hh] at h
    | some perms =>
      simp only [hh, Option.some.injEq] at h
      subst h
      have := parseHeaders_eval r hs perms hh
      rw [perm_and_ofList_eval]
      simp only [List.nil_append, List.all_cons, List.all_nil, Bool.and_true, perm_and_ofList_eval, this,
        Bool.true_or, Bool.true_and]
  · simp only [hpe, hhe, ↓reduceIte, List.isEmpty_nil, Option.some.injEq] at h
    subst h
    have : hs = [] := by simpa using hhe
    subst this
    simp [Perm.eval]

theorem parseRequest_ok (paths : List Str) (hs : List Header) (perm : Perm)
    (h : parseRequest paths hs = some perm) : perm.ok = true := by
  have hp : (Perm.or (PermList.ofList (parsePaths paths))).ok = true := by
    simp [Perm.ok, permList_ok_ofList, parsePaths, optStrOk, getStringMatcher_ok]
  unfold parseRequest at h
  cases hpe : paths.isEmpty <;> cases hhe : hs.isEmpty
  · simp only [hpe, hhe, Bool.false_eq_true, ↓reduceIte] at h
    cases hh : parseHeaders hs with
    | none => simp [hh] at h
    | some perms =>
      simp only [hh, Option.some.injEq] at h
      subst h
      have := parseHeaders_ok hs perms hh
      simp only [List.cons_append, List.nil_append, PermList.ofList, Perm.ok, PermList.ok, permList_ok_ofList] at *
      simp [this, hp]
  · simp only [hpe, hhe, Bool.false_eq_true, ↓reduceIte, List.isEmpty_cons, Option.some.injEq] at h
    subst h
    simp only [PermList.ofList, Perm.ok, PermList.ok] at *
    simp [hp]
  · simp only [hpe, hhe, Bool.false_eq_true, ↓reduceIte] at h
    cases hh : parseHeaders hs with
    | none => simp [hh] at h
    | some perms =>
      simp only [hh, Option.some.injEq] at h
      subst h
      have := parseHeaders_ok hs perms hh
      simp only [List.nil_append, PermList.ofList, Perm.ok, PermList.ok, permList_ok_ofList] at *
      simp [this]
  · simp only [hpe, hhe, ↓reduceIte, List.isEmpty_nil, Option.some.injEq] at h
    subst h
    simp [Perm.ok]

/-! ### one rule -/

def ruleKey (pfx : Str) (rule : Rule) : Str := pfx ++ 95 :: rule.name

/-- the RBAC policy `parseRules` emits for a rule whose request parses -/
def rulePolicy (rule : Rule) : Policy :=
  ⟨.cons ((parseRequest rule.paths rule.headers).getD .any) .nil, .cons (parsePeer rule.principals) .nil⟩

theorem ruleKey_inj (pfx : Str) (a b : Rule) : ruleKey pfx a = ruleKey pfx b ↔ a.name = b.name := by
  simp [ruleKey]

theorem rulePolicy_matches (r : Request) (rule : Rule) (perm : Perm)
    (h : parseRequest rule.paths rule.headers = some perm) :
    (rulePolicy rule).matches r = Spec.ruleMatches r rule := by
  simp only [rulePolicy, h, Option.getD_some, Policy.matches, PermList.any, PrinList.any,
    parseRequest_eval r _ _ _ h, parsePeer_eval, Spec.ruleMatches]
  cases (rule.paths.isEmpty || rule.paths.any fun p => Spec.glob p r.path) <;>
    cases rule.headers.all (Spec.headerMatches r) <;>
    cases (rule.principals.isEmpty || rule.principals.any (Spec.principalMatches r)) <;> simp

theorem rulePolicy_ok (rule : Rule) (perm : Perm)
    (h : parseRequest rule.paths rule.headers = some perm) : (rulePolicy rule).ok = true := by
  simp [rulePolicy, h, Policy.ok, PermList.ok, PrinList.ok, parseRequest_ok _ _ _ h, parsePeer_ok]

/-! ### the policy map -/

theorem mem_upsert (m : List (Str × Policy)) (k : Str) (v : Policy) (x : Str × Policy) :
    x ∈ upsert m k v ↔ x = (k, v) ∨ (x ∈ m ∧ x.1 ≠ k) := by
  simp [upsert]

theorem parseRules_cons (pfx : Str) (rule : Rule) (t : List Rule) (acc m : List (Str × Policy))
    (h : parseRules pfx (rule :: t) acc = some m) :
    (∃ perm, parseRequest rule.paths rule.headers = some perm) ∧
      parseRules pfx t (upsert acc (ruleKey pfx rule) (rulePolicy rule)) = some m := by
  simp only [parseRules] at h
  split at h
  · simp at h
  · cases hp : parseRequest rule.paths rule.headers with
    | none => simp [hp] at h
    | some perm =>
      simp only [hp] at h
      exact ⟨⟨perm, rfl⟩, by simpa [ruleKey, rulePolicy, hp] using h⟩

theorem parseRules_parsed (pfx : Str) : ∀ (rules : List Rule) (acc m : List (Str × Policy)),
    parseRules pfx rules acc = some m → ∀ rule ∈ rules, ∃ perm, parseRequest rule.paths rule.headers = some perm
  | [], _, _, _ => by simp
  | rule :: t, acc, m, h => by
    obtain ⟨h1, h2⟩ := parseRules_cons pfx rule t acc m h
    intro x hx
    rcases List.mem_cons.mp hx with rfl | hx
    · exact h1
    · exact parseRules_parsed pfx t _ m h2 x hx

theorem lastWins_sub : ∀ (rules : List Rule) (x : Rule), x ∈ Spec.lastWins rules → x ∈ rules
  | [], x, h => by simp [Spec.lastWins] at h
  | rule :: t, x, h => by
    simp only [Spec.lastWins] at h
    split at h
    · exact List.mem_cons_of_mem _ (lastWins_sub t x h)
    · rcases List.mem_cons.mp h with rfl | h
      · simp
      · exact List.mem_cons_of_mem _ (lastWins_sub t x h)

/-- the map built by `parseRules`: exactly the policies of the rules whose name no later rule repeats
    (plus what was in the accumulator under other keys). -/
theorem parseRules_mem (pfx : Str) : ∀ (rules : List Rule) (acc m : List (Str × Policy)),
    parseRules pfx rules acc = some m →
    ∀ x, x ∈ m ↔ (∃ rule ∈ Spec.lastWins rules, x = (ruleKey pfx rule, rulePolicy rule))
                  ∨ (x ∈ acc ∧ ∀ rule ∈ rules, ruleKey pfx rule ≠ x.1)
  | [], acc, m, h => by
    simp only [parseRules, Option.some.injEq] at h
    subst h
    simp [Spec.lastWins]
  | rule :: t, acc, m, h => by
    obtain ⟨_, h2⟩ := parseRules_cons pfx rule t acc m h
    have ih := parseRules_mem pfx t _ m h2
    intro x
    rw [ih x, mem_upsert]
    simp only [Spec.lastWins]
    by_cases hdup : t.any (fun r' => r'.name == rule.name) = true
    · simp only [hdup, ↓reduceIte]
      obtain ⟨r', hr', hn⟩ := List.any_eq_true.mp hdup
      have hk : ruleKey pfx r' = ruleKey pfx rule := (ruleKey_inj pfx r' rule).mpr (by simpa using hn)
      constructor
      · rintro (h | ⟨h | ⟨hx, hne⟩, hall⟩)
        · exact Or.inl h
        · exact absurd (by rw [h]; exact hk) (hall r' hr')
        · refine Or.inr ⟨hx, ?_⟩
          intro q hq
          rcases List.mem_cons.mp hq with rfl | hq
          · exact fun e => hne e.symm
          · exact hall q hq
      · rintro (h | ⟨hx, hall⟩)
        · exact Or.inl h
        · refine Or.inr ⟨Or.inr ⟨hx, ?_⟩, fun q hq => hall q (List.mem_cons_of_mem _ hq)⟩
          exact fun e => hall rule (by simp) e.symm
    · simp only [hdup, Bool.false_eq_true, ↓reduceIte]
      have hnd : ∀ q ∈ t, ruleKey pfx q ≠ ruleKey pfx rule := by
        intro q hq e
        apply hdup
        exact List.any_eq_true.mpr ⟨q, hq, by simpa using (ruleKey_inj pfx q rule).mp e⟩
      constructor
      · rintro (⟨q, hq, h⟩ | ⟨h | ⟨hx, hne⟩, hall⟩)
        · exact Or.inl ⟨q, List.mem_cons_of_mem _ hq, h⟩
        · exact Or.inl ⟨rule, by simp, h⟩
        · refine Or.inr ⟨hx, ?_⟩
          intro q hq
          rcases List.mem_cons.mp hq with rfl | hq
          · exact fun e => hne e.symm
          · exact hall q hq
      · rintro (⟨q, hq, hxe⟩ | ⟨hx, hall⟩)
        · rcases List.mem_cons.mp hq with rfl | hq
          · refine Or.inr ⟨Or.inl hxe, ?_⟩
            intro q' hq'
            rw [hxe]
            exact hnd q' hq'
          · exact Or.inl ⟨q, hq, hxe⟩
        · refine Or.inr ⟨Or.inr ⟨hx, ?_⟩, fun q hq => hall q (List.mem_cons_of_mem _ hq)⟩
          exact fun e => hall rule (by simp) e.symm

/-- whether some policy of the built map matches = whether some un-shadowed rule matches -/
theorem parseRules_any (r : Request) (pfx : Str) (rules : List Rule) (m : List (Str × Policy))
    (h : parseRules pfx rules [] = some m) :
    (m.map (·.2)).any (·.matches r) = (Spec.lastWins rules).any (Spec.ruleMatches r) := by
  have hm := parseRules_mem pfx rules [] m h
  have hp := parseRules_parsed pfx rules [] m h
  rw [Bool.eq_iff_iff]
  simp only [List.any_eq_true, List.mem_map]
  constructor
  · rintro ⟨pol, ⟨x, hx, rfl⟩, hmatch⟩
    rcases (hm x).mp hx with ⟨rule, hr, rfl⟩ | ⟨h0, _⟩
    · obtain ⟨perm, hperm⟩ := hp rule (lastWins_sub rules rule hr)
      exact ⟨rule, hr, by rw [← rulePolicy_matches r rule perm hperm]; exact hmatch⟩
    · simp at h0
  · rintro ⟨rule, hr, hmatch⟩
    obtain ⟨perm, hperm⟩ := hp rule (lastWins_sub rules rule hr)
    exact ⟨rulePolicy rule, ⟨(ruleKey pfx rule, rulePolicy rule), (hm _).mpr (Or.inl ⟨rule, hr, rfl⟩), rfl⟩,
      by rw [rulePolicy_matches r rule perm hperm]; exact hmatch⟩

theorem parseRules_ok (pfx : Str) (rules : List Rule) (m : List (Str × Policy))
    (h : parseRules pfx rules [] = some m) : (m.map (·.2)).all Policy.ok = true := by
  have hm := parseRules_mem pfx rules [] m h
  have hp := parseRules_parsed pfx rules [] m h
  simp only [List.all_eq_true, List.mem_map]
  rintro pol ⟨x, hx, rfl⟩
  rcases (hm x).mp hx with ⟨rule, hr, rfl⟩ | ⟨h0, _⟩
  · obtain ⟨perm, hperm⟩ := hp rule (lastWins_sub rules rule hr)
    exact rulePolicy_ok rule perm hperm
  · simp at h0

theorem lastWins_nodup : ∀ (rules : List Rule), (rules.map (·.name)).Nodup → Spec.lastWins rules = rules
  | [], _ => rfl
  | rule :: t, h => by
    simp only [List.map_cons, List.nodup_cons, List.mem_map, not_exists, not_and] at h
    simp only [Spec.lastWins]
    have : t.any (fun r' => r'.name == rule.name) = false := by
      rw [List.any_eq_false]
      intro q hq
      simpa using fun e => h.1 q hq e
    simp [this, lastWins_nodup t h.2]

/-! ### the whole policy -/

theorem newChainEngine_eq (c c' : Chain) (h : newChainEngine c = some c') : c' = c := by
  unfold newChainEngine at h
  split at h
  · simpa using h.symm
  · simp at h

theorem translate_cases (p : SDKPolicy) (c : Chain) (h : translate p = some c) :
    ∃ am, parseRules p.name p.allow [] = some am ∧
      ((p.deny = [] ∧ c = [⟨.allow, am.map (·.2)⟩]) ∨
       (∃ dm, parseRules p.name p.deny [] = some dm ∧ c = [⟨.deny, dm.map (·.2)⟩, ⟨.allow, am.map (·.2)⟩])) := by
  unfold translate at h
  split at h
  · simp at h
  · split at h
    · simp at h
    · cases ha : parseRules p.name p.allow [] with
      | none =>
        simp only [ha] at h
        split at h <;> simp at h
      | some am =>
        refine ⟨am, rfl, ?_⟩
        simp only [ha] at h
        cases hde : p.deny.isEmpty
        · simp only [hde, Bool.false_eq_true, ↓reduceIte] at h
          cases hd : parseRules p.name p.deny [] with
          | none => simp [hd] at h
          | some dm =>
            simp only [hd, Option.map_some, Option.some.injEq] at h
            exact Or.inr ⟨dm, rfl, h.symm⟩
        · simp only [hde, ↓reduceIte, Option.some.injEq] at h
          exact Or.inl ⟨by simpa using hde, h.symm⟩

theorem translate_ok (p : SDKPolicy) (c : Chain) (h : translate p = some c) : newChainEngine c = some c := by
  obtain ⟨am, ha, hc⟩ := translate_cases p c h
  have hao := parseRules_ok _ _ _ ha
  unfold newChainEngine
  rcases hc with ⟨_, rfl⟩ | ⟨dm, hd, rfl⟩
  · simp only [List.all_cons, List.all_nil, Bool.and_true, Engine.ok, hao]
    simp
  · have hdo := parseRules_ok _ _ _ hd
    simp only [List.all_cons, List.all_nil, Bool.and_true, Engine.ok, hao, hdo]
    simp

/-- The decision of the translated chain is the reference decision of the policy *with every rule whose name
    a later rule repeats removed*. -/
theorem static_decision (p : SDKPolicy) (c : Chain) (r : Request) (h : newStatic p = some c)
    (hw : r.wellFormed = true) :
    intercept c r =
      GrpcModel.Authz.Spec.decision { p with deny := Spec.lastWins p.deny, allow := Spec.lastWins p.allow } r := by
  unfold newStatic at h
  cases ht : translate p with
  | none => simp [ht] at h
  | some c0 =>
    simp only [ht, Option.bind_some] at h
    have := newChainEngine_eq c0 c h
    subst this
    obtain ⟨am, ha, hc⟩ := translate_cases p c ht
    have haa := parseRules_any r _ _ _ ha
    simp only [intercept, isAuthorized, hw, Bool.not_true, Bool.false_eq_true, ↓reduceIte,
      GrpcModel.Authz.Spec.decision]
    rcases hc with ⟨hd0, rfl⟩ | ⟨dm, hd, rfl⟩
    · simp only [chainLoop, Engine.findMatch, haa, hd0, Spec.lastWins, List.any_nil]
      cases hA : (Spec.lastWins p.allow).any (Spec.ruleMatches r) <;> simp
    · have hdd := parseRules_any r _ _ _ hd
      simp only [chainLoop, Engine.findMatch, haa, hdd]
      cases hD : (Spec.lastWins p.deny).any (Spec.ruleMatches r) <;>
        cases hA : (Spec.lastWins p.allow).any (Spec.ruleMatches r) <;> simp

end GrpcProofs.Lemmas.Authz
