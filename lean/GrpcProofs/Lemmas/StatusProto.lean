/-
Lemmas about the protobuf wire-format port in GrpcModel/Model/Status.lean: varint and
length-delimited round trips, and `unmarshal (marshalBody st) = some st` for google.rpc.Status.
-/
import GrpcModel.Model.Status
namespace GrpcProofs.Lemmas.StatusProto
open GrpcModel.Status GrpcModel
open GrpcModel.Base64 (Bytes)

theorem ofNat_lt (n : Nat) (h : n < 256) : (UInt8.ofNat n).toNat = n := by
  rw [UInt8.toNat_ofNat']; omega

theorem pow_split (i : Nat) (hi : i ≤ 8) : 2 ^ (64 - 7 * i) = 128 * 2 ^ (64 - 7 * (i + 1)) := by
  have : 64 - 7 * i = (64 - 7 * (i + 1)) + 7 := by omega
  rw [this, Nat.pow_add]; omega

theorem varint_aux (fuel : Nat) : ∀ i acc v (tail : Bytes), i + fuel = 10 → 1 ≤ fuel → v < 2 ^ (64 - 7 * i) →
    consumeVarintAux i acc (appendVarint fuel v ++ tail) = some (acc + v * 2 ^ (7 * i), tail) := by
  induction fuel with
  | zero => intro i acc v tail _ h; omega
  | succ f ih =>
    intro i acc v tail hi _ hv
    unfold appendVarint
    by_cases hsmall : v < 128
    · simp only [hsmall, if_true, List.singleton_append]
      unfold consumeVarintAux
      by_cases h9 : i = 9
      · subst h9
        have : v < 2 := by simpa using hv
        simp [ofNat_lt v (by omega), this]
      · simp [h9, ofNat_lt v (by omega), hsmall]
    · simp only [hsmall, if_false, List.cons_append]
      have h9 : i ≠ 9 := by
        intro e; subst e
        have : v < 2 := by simpa using hv
        omega
      have hi8 : i ≤ 8 := by omega
      unfold consumeVarintAux
      have hb : (UInt8.ofNat (v % 128 + 128)).toNat = v % 128 + 128 := ofNat_lt _ (by omega)
      simp only [h9, if_false, hb]
      rw [if_neg (by omega)]
      have hv' : v / 128 < 2 ^ (64 - 7 * (i + 1)) := by
        rw [pow_split i hi8] at hv
        exact Nat.div_lt_of_lt_mul hv
      rw [ih (i + 1) _ (v / 128) tail (by omega) (by omega) hv']
      congr 2
      have e1 : v % 128 + 128 - 128 = v % 128 := by omega
      have e2 : 2 ^ (7 * (i + 1)) = 2 ^ (7 * i) * 128 := by
        rw [show 7 * (i + 1) = 7 * i + 7 by omega, Nat.pow_add]
      rw [e1, e2]
      have h := Nat.div_add_mod v 128
      have : (v % 128) * 2 ^ (7 * i) + (v / 128) * (2 ^ (7 * i) * 128) = (128 * (v / 128) + v % 128) * 2 ^ (7 * i) := by grind
      rw [Nat.add_assoc, this, h]

theorem consumeVarint_varint (v : Nat) (hv : v < 2 ^ 64) (tail : Bytes) :
    consumeVarint (varint v ++ tail) = some (v, tail) := by
  have := varint_aux 10 0 0 v tail (by omega) (by omega) (by simpa using hv)
  simpa [consumeVarint, varint] using this

theorem consumeBytes_lenDelim (b tail : Bytes) (hb : b.length < 2 ^ 64) :
    consumeBytes (varint b.length ++ (b ++ tail)) = some (b, tail) := by
  unfold consumeBytes
  rw [consumeVarint_varint _ hb]
  simp

theorem consumeVarint_byte (b : UInt8) (hb : b.toNat < 128) (tail : Bytes) :
    consumeVarint (b :: tail) = some (b.toNat, tail) := by
  simp [consumeVarint, consumeVarintAux, hb]

theorem anyAux_nil (fuel : Nat) (a : AnyPB) : unmarshalAnyAux fuel a [] = some a := by
  cases fuel <;> simp [unmarshalAnyAux]

theorem aux_nil (fuel : Nat) (s : Status) : unmarshalAux fuel s [] = some s := by
  cases fuel <;> simp [unmarshalAux]

theorem any_field1 (fuel : Nat) (a : AnyPB) (u tail : Bytes) (hu : StatusMsg.validUtf8 u = true) (hl : u.length < 2 ^ 64) :
    unmarshalAnyAux (fuel + 1) a (lenDelim 0x0A u ++ tail) = unmarshalAnyAux fuel { a with typeUrl := u } tail := by
  simp only [lenDelim, List.cons_append, List.append_assoc]
  rw [unmarshalAnyAux]
  · simp only [consumeVarint_byte 0x0A (by decide)]
    simp [consumeBytes_lenDelim u tail hl, hu]
  · simp

theorem any_field2 (fuel : Nat) (a : AnyPB) (v tail : Bytes) (hl : v.length < 2 ^ 64) :
    unmarshalAnyAux (fuel + 1) a (lenDelim 0x12 v ++ tail) = unmarshalAnyAux fuel { a with value := v } tail := by
  simp only [lenDelim, List.cons_append, List.append_assoc]
  rw [unmarshalAnyAux]
  · simp only [consumeVarint_byte 0x12 (by decide)]
    simp [consumeBytes_lenDelim v tail hl]
  · simp

theorem lenDelim_length (t : UInt8) (b : Bytes) : b.length + 1 ≤ (lenDelim t b).length := by
  simp [lenDelim]

/-- google.protobuf.Any round-trips. -/
theorem unmarshalAny_marshal (a : AnyPB) (hu : StatusMsg.validUtf8 a.typeUrl = true)
    (hl : (marshalAnyBody a).length < 2 ^ 64) : unmarshalAny (marshalAnyBody a) = some a := by
  obtain ⟨u, v⟩ := a
  simp only at hu
  unfold unmarshalAny
  unfold marshalAnyBody at hl ⊢
  simp only at hl ⊢
  by_cases h1 : u.isEmpty = true <;> by_cases h2 : v.isEmpty = true
  · simp only [h1, h2, if_true, List.append_nil, List.length_nil]
    have e1 : u = [] := by simpa using h1
    have e2 : v = [] := by simpa using h2
    subst e1 e2; simp [unmarshalAnyAux]
  · simp only [h1, h2, if_true, Bool.false_eq_true, if_false, List.nil_append] at hl ⊢
    have e1 : u = [] := by simpa using h1
    subst e1
    have hv := lenDelim_length 0x12 v
    obtain ⟨f, hf⟩ : ∃ f, (lenDelim 0x12 v).length = f + 1 := ⟨(lenDelim 0x12 v).length - 1, by omega⟩
    rw [hf]
    have := any_field2 f ⟨[], []⟩ v [] (by omega)
    simp only [List.append_nil] at this
    rw [this, anyAux_nil]
  · simp only [h1, h2, if_true, Bool.false_eq_true, if_false, List.append_nil] at hl ⊢
    have e2 : v = [] := by simpa using h2
    subst e2
    have hv := lenDelim_length 0x0A u
    obtain ⟨f, hf⟩ : ∃ f, (lenDelim 0x0A u).length = f + 1 := ⟨(lenDelim 0x0A u).length - 1, by omega⟩
    rw [hf]
    have := any_field1 f ⟨[], []⟩ u [] hu (by omega)
    simp only [List.append_nil] at this
    rw [this, anyAux_nil]
  · simp only [h1, h2, Bool.false_eq_true, if_false] at hl ⊢
    have hu' := lenDelim_length 0x0A u
    have hv' := lenDelim_length 0x12 v
    rw [List.length_append] at hl ⊢
    obtain ⟨f, hf⟩ : ∃ f, (lenDelim 0x0A u).length + (lenDelim 0x12 v).length = f + 2 :=
      ⟨(lenDelim 0x0A u).length + (lenDelim 0x12 v).length - 2, by omega⟩
    rw [hf, any_field1 (f + 1) ⟨[], []⟩ u _ hu (by omega)]
    have := any_field2 f ⟨u, []⟩ v [] (by omega)
    simp only [List.append_nil] at this
    rw [this, anyAux_nil]

theorem u64_code (c : Nat) (hc : c < 4294967296) : u64ToCode (int32ToU64 c) = c := by
  unfold u64ToCode int32ToU64
  split <;> omega

theorem int32ToU64_lt (c : Nat) (hc : c < 4294967296) : int32ToU64 c < 2 ^ 64 := by
  unfold int32ToU64
  split <;> omega

theorem st_field1 (fuel : Nat) (s : Status) (v : Nat) (hv : v < 2 ^ 64) (tail : Bytes) :
    unmarshalAux (fuel + 1) s (0x08 :: (varint v ++ tail)) = unmarshalAux fuel { s with code := u64ToCode v } tail := by
  rw [unmarshalAux]
  · simp only [consumeVarint_byte 0x08 (by decide)]
    simp [consumeVarint_varint v hv tail]
  · simp

theorem st_field2 (fuel : Nat) (s : Status) (m tail : Bytes) (hu : StatusMsg.validUtf8 m = true) (hl : m.length < 2 ^ 64) :
    unmarshalAux (fuel + 1) s (lenDelim 0x12 m ++ tail) = unmarshalAux fuel { s with msg := m } tail := by
  simp only [lenDelim, List.cons_append, List.append_assoc]
  rw [unmarshalAux]
  · simp only [consumeVarint_byte 0x12 (by decide)]
    simp [consumeBytes_lenDelim m tail hl, hu]
  · simp

theorem st_field3 (fuel : Nat) (s : Status) (d : AnyPB) (tail : Bytes) (hu : StatusMsg.validUtf8 d.typeUrl = true)
    (hl : (marshalAnyBody d).length < 2 ^ 64) :
    unmarshalAux (fuel + 1) s (lenDelim 0x1A (marshalAnyBody d) ++ tail) = unmarshalAux fuel { s with details := s.details ++ [d] } tail := by
  simp only [lenDelim, List.cons_append, List.append_assoc]
  rw [unmarshalAux]
  · simp only [consumeVarint_byte 0x1A (by decide)]
    simp [consumeBytes_lenDelim (marshalAnyBody d) tail hl, unmarshalAny_marshal d hu hl]
  · simp

def detailsBytes (ds : List AnyPB) : Bytes := ds.flatMap fun a => lenDelim 0x1A (marshalAnyBody a)

theorem detailsBytes_len (ds : List AnyPB) : ds.length ≤ (detailsBytes ds).length := by
  induction ds with
  | nil => simp [detailsBytes]
  | cons d t ih =>
    have := lenDelim_length 0x1A (marshalAnyBody d)
    simp only [detailsBytes, List.flatMap_cons, List.length_append, List.length_cons] at ih ⊢
    omega

theorem details_loop (ds : List AnyPB) : ∀ (s : Status) (fuel : Nat), ds.length ≤ fuel →
    (∀ d ∈ ds, StatusMsg.validUtf8 d.typeUrl = true) → (detailsBytes ds).length < 2 ^ 64 →
    unmarshalAux fuel s (detailsBytes ds) = some { s with details := s.details ++ ds } := by
  induction ds with
  | nil => intro s fuel _ _ _; simp [detailsBytes, aux_nil]
  | cons d t ih =>
    intro s fuel hf hv hl
    obtain ⟨f, rfl⟩ : ∃ f, fuel = f + 1 := ⟨fuel - 1, by simp at hf; omega⟩
    have hd := lenDelim_length 0x1A (marshalAnyBody d)
    simp only [detailsBytes, List.flatMap_cons, List.length_append] at hl ⊢
    rw [st_field3 f s d _ (hv d (by simp)) (by omega)]
    have := ih { s with details := s.details ++ [d] } f (by simp at hf; omega) (fun x hx => hv x (by simp [hx]))
      (by simp only [detailsBytes]; omega)
    simp only [detailsBytes] at this
    rw [this]
    simp

/-- google.rpc.Status round-trips through the modelled protobuf encoding: for every code (uint32
    view), valid-UTF-8 message and type URLs, any values, any number of details. The size bound
    is Go's (no slice has 2^64 bytes). -/
theorem unmarshal_marshal (st : Status) (hc : st.code < 4294967296) (hm : StatusMsg.validUtf8 st.msg = true)
    (hd : ∀ d ∈ st.details, StatusMsg.validUtf8 d.typeUrl = true) (hl : (marshalBody st).length < 2 ^ 64) :
    unmarshal (marshalBody st) = some st := by
  obtain ⟨c, m, ds⟩ := st
  simp only at hc hm hd
  unfold unmarshal
  have hdl := detailsBytes_len ds
  unfold marshalBody at hl ⊢
  simp only at hl ⊢
  change ((if c = 0 then [] else 0x08 :: varint (int32ToU64 c)) ++ (if m.isEmpty = true then [] else lenDelim 0x12 m) ++ detailsBytes ds).length < 2 ^ 64 at hl
  change unmarshalAux ((if c = 0 then [] else 0x08 :: varint (int32ToU64 c)) ++ (if m.isEmpty = true then [] else lenDelim 0x12 m) ++ detailsBytes ds).length ⟨0, [], []⟩
    ((if c = 0 then [] else 0x08 :: varint (int32ToU64 c)) ++ (if m.isEmpty = true then [] else lenDelim 0x12 m) ++ detailsBytes ds) = some ⟨c, m, ds⟩
  by_cases h1 : c = 0 <;> by_cases h2 : m.isEmpty = true
  · have e2 : m = [] := by simpa using h2
    subst h1 e2
    simp only [if_true, List.isEmpty_nil, List.nil_append] at hl ⊢
    rw [details_loop ds _ _ hdl hd hl]; simp
  · subst h1
    simp only [if_true, h2, Bool.false_eq_true, if_false, List.nil_append] at hl ⊢
    have hm' := lenDelim_length 0x12 m
    rw [List.length_append] at hl
    suffices h : ∀ F, ds.length + 1 ≤ F → unmarshalAux F ⟨0, [], []⟩ (lenDelim 0x12 m ++ detailsBytes ds) = some ⟨0, m, ds⟩ from
      h _ (by rw [List.length_append]; omega)
    intro F hF
    obtain ⟨f, rfl⟩ : ∃ f, F = f + 1 := ⟨F - 1, by omega⟩
    rw [st_field2 f _ m _ hm (by omega), details_loop ds _ f (by omega) hd (by omega)]; simp
  · have e2 : m = [] := by simpa using h2
    subst e2
    simp only [h1, if_false, List.isEmpty_nil, if_true, List.append_nil, List.cons_append] at hl ⊢
    rw [List.length_cons, List.length_append] at hl
    suffices h : ∀ F, ds.length + 1 ≤ F → unmarshalAux F ⟨0, [], []⟩ (0x08 :: (varint (int32ToU64 c) ++ detailsBytes ds)) = some ⟨c, [], ds⟩ from
      h _ (by rw [List.length_cons, List.length_append]; omega)
    intro F hF
    obtain ⟨f, rfl⟩ : ∃ f, F = f + 1 := ⟨F - 1, by omega⟩
    rw [st_field1 f _ _ (int32ToU64_lt c hc), u64_code c hc, details_loop ds _ f (by omega) hd (by omega)]; simp
  · simp only [h1, h2, if_false, Bool.false_eq_true, List.cons_append, List.append_assoc] at hl ⊢
    have hm' := lenDelim_length 0x12 m
    rw [List.length_cons, List.length_append, List.length_append] at hl
    suffices h : ∀ F, ds.length + 2 ≤ F → unmarshalAux F ⟨0, [], []⟩ (0x08 :: (varint (int32ToU64 c) ++ (lenDelim 0x12 m ++ detailsBytes ds))) = some ⟨c, m, ds⟩ from
      h _ (by rw [List.length_cons, List.length_append, List.length_append]; omega)
    intro F hF
    obtain ⟨f, rfl⟩ : ∃ f, F = f + 2 := ⟨F - 2, by omega⟩
    rw [st_field1 (f + 1) _ _ (int32ToU64_lt c hc), u64_code c hc, st_field2 f _ m _ hm (by omega),
      details_loop ds _ f (by omega) hd (by omega)]; simp

end GrpcProofs.Lemmas.StatusProto