/-
Helper lemmas for C18 / C23 about GrpcModel.RetryLoop (withRetry, replay buffer, attempts).
-/
import GrpcModel.Model.RetryLoop
import GrpcProofs.Lemmas.Retry
namespace GrpcProofs.Lemmas.RetryLoop
open GrpcModel.Retry GrpcModel.RetryLoop GrpcProofs.Lemmas.Retry

/-! ### lists -/

theorem getLast?_eq_some_split {α} (l : List α) (a : α) (h : l.getLast? = some a) : l = l.dropLast ++ [a] := by
  have := List.dropLast_append_getLast? (l := l) a (by simpa using h)
  exact this.symm

/-! ### updCur -/

theorem updCur_none (st : St) (f : Att → Att) (h : st.cur = none) : st.updCur f = st := by
  unfold St.updCur; unfold St.cur at h; rw [h]

theorem updCur_some (st : St) (f : Att → Att) (a : Att) (h : st.cur = some a) :
    st.updCur f = { st with atts := st.atts.dropLast ++ [f a] } := by
  unfold St.updCur; unfold St.cur at h; rw [h]

theorem updCur_cur (st : St) (f : Att → Att) (a : Att) (h : st.cur = some a) : (st.updCur f).cur = some (f a) := by
  rw [updCur_some st f a h]; simp [St.cur]

theorem updCur_length (st : St) (f : Att → Att) : (st.updCur f).atts.length = st.atts.length := by
  cases h : st.cur with
  | none => rw [updCur_none st f h]
  | some a =>
    rw [updCur_some st f a h]
    have := getLast?_eq_some_split st.atts a h
    conv_rhs => rw [this]
    simp

/-- membership after updating the current attempt -/
theorem mem_updCur (st : St) (f : Att → Att) (x : Att) (hx : x ∈ (st.updCur f).atts) :
    x ∈ st.atts ∨ ∃ a, st.cur = some a ∧ x = f a := by
  cases h : st.cur with
  | none => rw [updCur_none st f h] at hx; exact Or.inl hx
  | some a =>
    rw [updCur_some st f a h] at hx
    simp only [List.mem_append, List.mem_singleton] at hx
    rcases hx with hx | hx
    · exact Or.inl (List.mem_of_mem_dropLast hx)
    · exact Or.inr ⟨a, rfl, hx⟩

theorem cur_mem (st : St) (a : Att) (h : st.cur = some a) : a ∈ st.atts :=
  List.mem_of_getLast? h

/-! ### replay invariant -/

/-- replay invariant with the current op's item still pending: `pb` not yet in the buffer, `pc` not yet
    written on the (live) current attempt. -/
structure RInv (st : St) (pb pc : List Wire) : Prop where
  buf : st.cs.committed = false → wireOf st.clientStreams st.replay ++ pb = st.hist
  pre : ∀ a ∈ st.atts, a.log <+: st.hist
  cur : ∀ a, st.cur = some a → a.dead = false → a.log ++ pc = st.hist
  once : st.cs.committed = false → st.started = true → startsOnce st.replay = true

theorem wireOf_append (c : Bool) (r1 r2 : List ROp) : wireOf c (r1 ++ r2) = wireOf c r1 ++ wireOf c r2 := by
  induction r1 with
  | nil => rfl
  | cons o r ih => cases o <;> simp [wireOf, ih]

theorem commit_rinv (st : St) (pb pc : List Wire) (h : RInv st pb pc) (pb' : List Wire := pb) : RInv st.commit pb' pc := by
  refine ⟨?_, h.pre, h.cur, ?_⟩
  · intro hc; simp [St.commit] at hc
  · intro hc; simp [St.commit] at hc

theorem commit_committed (st : St) : st.commit.cs.committed = true := rfl

/-- any change of the current attempt that keeps its log and can only kill it -/
theorem updCur_rinv (st : St) (f : Att → Att) (pb pc : List Wire) (h : RInv st pb pc)
    (hlog : ∀ a, (f a).log = a.log) (hdead : ∀ a, a.dead = true → (f a).dead = true) :
    RInv (st.updCur f) pb pc := by
  cases hc : st.cur with
  | none => rw [updCur_none st f hc]; exact h
  | some a =>
    have hcur := updCur_cur st f a hc
    rw [updCur_some st f a hc] at hcur ⊢
    refine ⟨h.buf, ?_, ?_, h.once⟩
    · intro x hx
      simp only [List.mem_append, List.mem_singleton] at hx
      rcases hx with hx | hx
      · exact h.pre x (List.mem_of_mem_dropLast hx)
      · subst hx; rw [hlog]; exact h.pre a (cur_mem st a hc)
    · intro x hx hd
      rw [hcur] at hx; injection hx with hx; subst hx
      rw [hlog]
      apply h.cur a hc
      cases hda : a.dead with
      | false => rfl
      | true => rw [hdead a hda] at hd; cases hd

theorem finishAttempt_rinv (st : St) (code : Nat) (pb pc : List Wire) (h : RInv st pb pc) :
    RInv (st.finishAttempt code) pb pc := by
  unfold St.finishAttempt
  apply updCur_rinv st _ pb pc h
  · intro a; split_ifs <;> rfl
  · intro a hd
    split_ifs
    · exact hd
    · simpa [Att.dead] using hd

theorem mapAtts_rinv (st : St) (g : Att → Att) (pb pc : List Wire) (h : RInv st pb pc)
    (hlog : ∀ a, (g a).log = a.log) (hdead : ∀ a, a.dead = true → (g a).dead = true) :
    RInv { st with atts := st.atts.map g } pb pc := by
  refine ⟨h.buf, ?_, ?_, h.once⟩
  · intro x hx
    simp only [List.mem_map] at hx
    obtain ⟨a, ha, rfl⟩ := hx
    rw [hlog]; exact h.pre a ha
  · intro x hx hd
    simp only [St.cur, List.getLast?_map] at hx
    cases hc : st.atts.getLast? with
    | none => rw [hc] at hx; cases hx
    | some a =>
      rw [hc] at hx; simp only [Option.map_some, Option.some.injEq] at hx; subst hx
      rw [hlog]
      apply h.cur a hc
      cases hda : a.dead with
      | false => rfl
      | true => rw [hdead a hda] at hd; cases hd

theorem react_rinv (st : St) (pb pc : List Wire) (h : RInv st pb pc) :
    RInv { st with atts := react st.atts } pb pc := by
  unfold react
  apply mapAtts_rinv st _ pb pc h
  · intro a; split_ifs <;> rfl
  · intro a hd
    split_ifs with hc
    · simp only [Att.dead, Bool.or_eq_true, Bool.and_eq_true] at hd ⊢
      simp only [Bool.and_eq_true, Bool.not_eq_true', bne_iff_ne, ne_eq] at hc
      right; exact ⟨trivial, by simpa using hc.1.2⟩
    · exact hd

theorem settle_rinv (st : St) (pb pc : List Wire) (h : RInv st pb pc) : RInv st.settle pb pc :=
  react_rinv st pb pc h

theorem write_dead (st : St) (w : Wire) (h : st.curDead = true) : st.write w = (st, false, []) := by
  simp [St.write, h]

theorem write_alive (st : St) (w : Wire) (h : st.curDead = false) :
    (st.write w).1 = st.updCur (fun a => { a with log := a.log ++ [w] }) ∧ (st.write w).2.1 = true := by
  simp [St.write, h]

theorem curDead_false_iff (st : St) : st.curDead = false ↔ ∃ a, st.cur = some a ∧ a.dead = false := by
  unfold St.curDead
  cases st.cur with
  | none => simp
  | some a => simp

/-- facts every primitive below keeps -/
structure Same (st st' : St) : Prop where
  cs : st'.cs = st.cs
  replay : st'.replay = st.replay
  hist : st'.hist = st.hist
  cstr : st'.clientStreams = st.clientStreams
  started : st'.started = st.started
  seq : st'.seq = st.seq
  pol : st'.pol = st.pol
  dis : st'.disableRetry = st.disableRetry
  maxBuf : st'.maxBuf = st.maxBuf
  rsize : st'.replaySize = st.replaySize
  len : st'.atts.length = st.atts.length

theorem Same.rfl' (st : St) : Same st st := ⟨rfl, rfl, rfl, rfl, rfl, rfl, rfl, rfl, rfl, rfl, rfl⟩

theorem Same.trans {a b c : St} (h1 : Same a b) (h2 : Same b c) : Same a c :=
  ⟨h2.cs.trans h1.cs, h2.replay.trans h1.replay, h2.hist.trans h1.hist, h2.cstr.trans h1.cstr,
   h2.started.trans h1.started, h2.seq.trans h1.seq, h2.pol.trans h1.pol, h2.dis.trans h1.dis,
   h2.maxBuf.trans h1.maxBuf, h2.rsize.trans h1.rsize, h2.len.trans h1.len⟩

theorem updCur_same (st : St) (f : Att → Att) : Same st (st.updCur f) := by
  have hl := updCur_length st f
  cases h : st.cur with
  | none => rw [updCur_none st f h]; exact Same.rfl' st
  | some a => rw [updCur_some st f a h] at hl ⊢; exact ⟨rfl, rfl, rfl, rfl, rfl, rfl, rfl, rfl, rfl, rfl, hl⟩

theorem write_alive_rinv (st : St) (w : Wire) (pb pc : List Wire) (hd : st.curDead = false)
    (h : RInv st pb (w :: pc)) :
    RInv (st.write w).1 pb pc ∧ (st.write w).1.curDead = false ∧ Same st (st.write w).1 := by
  obtain ⟨a, hc, had⟩ := (curDead_false_iff st).mp hd
  have hsame : Same st (st.write w).1 := by rw [(write_alive st w hd).1]; exact updCur_same st _
  rw [(write_alive st w hd).1, updCur_some st _ a hc]
  have hlog : a.log ++ w :: pc = st.hist := h.cur a hc had
  refine ⟨⟨h.buf, ?_, ?_, h.once⟩, ?_, ?_⟩
  · intro x hx
    simp only [List.mem_append, List.mem_singleton] at hx
    rcases hx with hx | hx
    · exact h.pre x (List.mem_of_mem_dropLast hx)
    · subst hx
      simp only
      rw [← hlog]
      exact ⟨pc, by simp⟩
  · intro x hx _
    simp only [St.cur, List.getLast?_append, List.getLast?_singleton, Option.some_or, Option.some.injEq] at hx
    subst hx
    simp only
    rw [← hlog]; simp
  · simp only [St.curDead, St.cur, List.getLast?_append, List.getLast?_singleton, Option.some_or]
    simpa [Att.dead] using had
  · rw [(write_alive st w hd).1, updCur_some st _ a hc] at hsame; exact hsame

theorem startsOnce_append (r : List ROp) (op : ROp) (h : startsOnce r = true) (hop : op ≠ .start) :
    startsOnce (r ++ [op]) = true := by
  cases r with
  | nil => simp [startsOnce] at h
  | cons o r =>
    cases o with
    | start =>
      simp only [startsOnce, Bool.not_eq_true', List.cons_append] at h ⊢
      simp only [List.contains_eq_mem, List.mem_append, List.mem_singleton, decide_eq_false_iff_not] at h ⊢
      intro hc; rcases hc with hc | hc
      · exact h hc
      · exact hop hc.symm
    | msg q z => simp [startsOnce] at h
    | half => simp [startsOnce] at h

theorem buffer_rinv (st : St) (sz : Int) (op : ROp) (pc : List Wire) (hop : op ≠ .start)
    (h : RInv st (wireOf st.clientStreams [op]) pc) : RInv (st.buffer sz op) [] pc := by
  simp only [St.buffer]
  split_ifs with hc hsz
  · exact ⟨fun hf => by simp [hc] at hf, h.pre, h.cur, fun hf => by simp [hc] at hf⟩
  · exact commit_rinv { st with replaySize := st.replaySize + sz } _ pc ⟨h.buf, h.pre, h.cur, h.once⟩ []
  · have hc' : st.cs.committed = false := by simpa using hc
    refine ⟨?_, h.pre, h.cur, ?_⟩
    · intro _
      simp only [List.append_nil]
      rw [wireOf_append]; exact h.buf hc'
    · intro _ hs
      exact startsOnce_append _ _ (h.once hc' hs) hop

/-- the state after appending `ws` to the log of the current attempt `a` -/
def withLog (s : St) (a : Att) (ws : List Wire) : St :=
  { s with atts := s.atts.dropLast ++ [{ a with log := a.log ++ ws }] }

theorem withLog_cur (s : St) (a : Att) (ws : List Wire) : (withLog s a ws).cur = some { a with log := a.log ++ ws } := by
  simp [withLog, St.cur]

theorem withLog_withLog (s : St) (a : Att) (w1 w2 : List Wire) :
    withLog (withLog s a w1) { a with log := a.log ++ w1 } w2 = withLog s a (w1 ++ w2) := by
  simp [withLog, List.append_assoc]

theorem write_withLog (s : St) (a : Att) (ws : List Wire) (w : Wire) (had : a.dead = false) :
    ((withLog s a ws).write w).1 = withLog s a (ws ++ [w]) := by
  have hc := withLog_cur s a ws
  have hd : (withLog s a ws).curDead = false := by
    rw [curDead_false_iff]; exact ⟨_, hc, by simpa [Att.dead] using had⟩
  rw [(write_alive _ w hd).1, updCur_some _ _ _ hc]
  simp [withLog, List.append_assoc]

theorem replayFold_rest (rest : List ROp) (hns : rest.contains .start = false) (s : St) (a : Att) (ws : List Wire)
    (had : a.dead = false) (evs : List Ev) :
    (rest.foldl (fun (acc : St × List Ev) op =>
      let (s, evs) := acc
      match op with
      | .start => let (s', e) := s.newAttempt; (s', evs ++ e)
      | .msg q z =>
        let (s', _, e) := s.write (.msg q z)
        if s.clientStreams then (s', evs ++ e)
        else let (s'', _, e2) := s'.write .half; (s'', evs ++ e ++ e2)
      | .half => let (s', _, e) := s.write .half; (s', evs ++ e)) (withLog s a ws, evs)).1
    = withLog s a (ws ++ wireOf s.clientStreams rest) := by
  induction rest generalizing ws evs with
  | nil => simp [wireOf]
  | cons o rest ih =>
    have hns' : rest.contains .start = false := by
      simp only [List.contains_cons, Bool.or_eq_false_iff] at hns; exact hns.2
    cases o with
    | start => simp at hns
    | msg q z =>
      simp only [List.foldl_cons]
      have hcs : (withLog s a ws).clientStreams = s.clientStreams := rfl
      cases hk : s.clientStreams with
      | true =>
        simp only [hcs, hk, if_true]
        have h1 := write_withLog s a ws (.msg q z) had
        have := ih hns' (ws ++ [.msg q z]) (evs ++ ((withLog s a ws).write (.msg q z)).2.2)
        rw [← h1] at this
        simp only [hk] at this
        rw [this]; simp [wireOf, List.append_assoc]
      | false =>
        simp only [hcs, hk, Bool.false_eq_true, if_false]
        have h1 := write_withLog s a ws (.msg q z) had
        have h2 := write_withLog s a (ws ++ [.msg q z]) .half had
        rw [← h1] at h2
        have := ih hns' (ws ++ [.msg q z] ++ [.half])
          (evs ++ ((withLog s a ws).write (.msg q z)).2.2 ++ (((withLog s a ws).write (.msg q z)).1.write .half).2.2)
        rw [← h2] at this
        simp only [hk] at this
        rw [this]; simp [wireOf, List.append_assoc]
    | half =>
      simp only [List.foldl_cons]
      have h1 := write_withLog s a ws .half had
      have := ih hns' (ws ++ [.half]) (evs ++ ((withLog s a ws).write .half).2.2)
      rw [← h1] at this
      rw [this]; simp [wireOf, List.append_assoc]

/-- the attempt a retry creates -/
def freshAtt (st : St) : Att :=
  { beh := (st.script.drop st.atts.length).headD Beh.dflt, prev := st.cs.numRetries, log := [] }

theorem freshAtt_alive (st : St) : (freshAtt st).dead = false := by simp [freshAtt, Att.dead]

theorem replayAll_spec (st : St) (rest : List ROp) (hr : st.replay = .start :: rest)
    (hns : rest.contains .start = false) :
    st.replayAll.1 =
      { st with atts := st.atts ++ [{ freshAtt st with log := wireOf st.clientStreams rest }] } := by
  unfold St.replayAll
  rw [hr, List.foldl_cons]
  have h0 : (st.newAttempt).1 = withLog { st with atts := st.atts ++ [freshAtt st] } (freshAtt st) [] := by
    simp [St.newAttempt, withLog, freshAtt]
  have := replayFold_rest rest hns { st with atts := st.atts ++ [freshAtt st] } (freshAtt st) [] (freshAtt_alive st)
    ([] ++ (st.newAttempt).2)
  rw [← h0] at this
  simp only at this ⊢
  refine this.trans ?_
  simp [withLog, freshAtt, hr]

/-! ### op(a) -/

theorem react_same (st : St) : Same st { st with atts := react st.atts } :=
  ⟨rfl, rfl, rfl, rfl, rfl, rfl, rfl, rfl, rfl, rfl, by simp [react]⟩

theorem react_cur_dead (st : St) (a : Att) (h : ({ st with atts := react st.atts } : St).cur = some a) (hd : a.dead = true) :
    ({ st with atts := react st.atts } : St).curDead = true := by
  simp [St.curDead, h, hd]

/-- `op(a)`: either the op's item reached a live attempt, or the attempt was dead and nothing
    moved, or (recv/header) only reactions / read counters changed. -/
theorem applyOp_rinv (st : St) (op : COp) (h : RInv st (st.pendOf op) (st.pendOf op)) :
    Same st (st.applyOp op).1 ∧
    ((st.applyOp op).2.1.isFail = true → (st.applyOp op).1.curDead = true ∧ RInv (st.applyOp op).1 (st.pendOf op) (st.pendOf op)) ∧
    ((st.applyOp op).2.1.isFail = false → RInv (st.applyOp op).1 (st.pendOf op) []) := by
  cases op with
  | send size =>
    simp only [St.applyOp]
    cases hd : st.curDead with
    | true =>
      rw [write_dead st _ hd]
      exact ⟨Same.rfl' st, fun _ => ⟨hd, h⟩, fun hne => by simp [Raw.isFail] at hne⟩
    | false =>
      cases hk : st.clientStreams with
      | true =>
        have h' : RInv st (st.pendOf (.send size)) (Wire.msg (if size = 0 then 0 else st.seq) size :: []) := by
          simpa [St.pendOf, hk] using h
        obtain ⟨hi, _, hs⟩ := write_alive_rinv st _ _ [] hd h'
        have hw := (write_alive st (Wire.msg (if size = 0 then 0 else st.seq) size) hd).2
        simp only [hw, Bool.not_true, Bool.false_eq_true, if_false, if_true]
        exact ⟨hs, fun hc => by simp [Raw.isFail] at hc, fun _ => hi⟩
      | false =>
        have h' : RInv st (st.pendOf (.send size)) (Wire.msg (if size = 0 then 0 else st.seq) size :: [Wire.half]) := by
          simpa [St.pendOf, hk] using h
        obtain ⟨hi, hd1, hs1⟩ := write_alive_rinv st _ _ [Wire.half] hd h'
        obtain ⟨hi2, _, hs2⟩ := write_alive_rinv _ Wire.half _ [] hd1 hi
        have hw := (write_alive st (Wire.msg (if size = 0 then 0 else st.seq) size) hd).2
        simp only [hw, Bool.not_true, Bool.false_eq_true, if_false]
        exact ⟨hs1.trans hs2, fun hc => by simp [Raw.isFail] at hc, fun _ => hi2⟩
  | half =>
    simp only [St.applyOp]
    cases hd : st.curDead with
    | true =>
      rw [write_dead st _ hd]
      refine ⟨Same.rfl' st, fun hc => by simp [Raw.isFail] at hc, fun _ => ?_⟩
      refine ⟨h.buf, h.pre, ?_, h.once⟩
      intro a hc had
      have : st.curDead = false := (curDead_false_iff st).mpr ⟨a, hc, had⟩
      rw [hd] at this; cases this
    | false =>
      have h' : RInv st (st.pendOf .half) (Wire.half :: []) := by simpa [St.pendOf] using h
      obtain ⟨hi, _, hs⟩ := write_alive_rinv st _ _ [] hd h'
      exact ⟨hs, fun hc => by simp [Raw.isFail] at hc, fun _ => hi⟩
  | recv =>
    have hr := react_rinv st _ _ h
    have hsr := react_same st
    simp only [St.applyOp]
    cases hc : ({ st with atts := react st.atts } : St).cur with
    | none => exact ⟨hsr, fun hf => by simp [Raw.isFail] at hf, fun _ => ⟨hr.buf, hr.pre, hr.cur, hr.once⟩⟩
    | some a =>
      simp only
      cases had : a.dead with
      | false => exact ⟨hsr, fun hf => by simp [Raw.isFail] at hf, fun _ => ⟨hr.buf, hr.pre, hr.cur, hr.once⟩⟩
      | true =>
        have hcd := react_cur_dead st a hc had
        have hupd := updCur_rinv _ (fun a => { a with respRead := 1 }) _ _ hr (fun _ => rfl)
          (fun a hd => by simpa [Att.dead] using hd)
        have hupds := hsr.trans (updCur_same _ (fun a => { a with respRead := 1 }))
        simp only [Bool.not_true, Bool.false_eq_true, if_false]
        repeat' (first | split_ifs | split)
        all_goals
          refine ⟨?_, ?_, ?_⟩
          · first
              | exact hsr
              | exact hupds.trans ⟨rfl, rfl, rfl, rfl, rfl, rfl, rfl, rfl, rfl, rfl, rfl⟩
          · intro hf
            first
              | (simp [Raw.isFail] at hf; done)
              | exact ⟨hcd, hr⟩
          · intro hf
            first
              | (simp [Raw.isFail] at hf; done)
              | exact ⟨hr.buf, hr.pre, hr.cur, hr.once⟩
              | exact ⟨hupd.buf, hupd.pre, hupd.cur, hupd.once⟩
  | header =>
    have hr := react_rinv st _ _ h
    have hsr := react_same st
    simp only [St.applyOp]
    cases hc : ({ st with atts := react st.atts } : St).cur with
    | none => exact ⟨hsr, fun hf => by simp [Raw.isFail] at hf, fun _ => ⟨hr.buf, hr.pre, hr.cur, hr.once⟩⟩
    | some a =>
      simp only
      cases had : a.dead with
      | false => exact ⟨hsr, fun hf => by simp [Raw.isFail] at hf, fun _ => ⟨hr.buf, hr.pre, hr.cur, hr.once⟩⟩
      | true =>
        have hcd := react_cur_dead st a hc had
        simp only [Bool.not_true, Bool.false_eq_true, if_false]
        repeat' (first | split_ifs | split)
        all_goals
          refine ⟨hsr, ?_, ?_⟩
          · intro hf
            first
              | (simp [Raw.isFail] at hf; done)
              | exact ⟨hcd, hr⟩
          · intro hf
            first
              | (simp [Raw.isFail] at hf; done)
              | exact ⟨hr.buf, hr.pre, hr.cur, hr.once⟩

/-! ### retryLocked pieces -/

theorem rinv_dead_pc (st : St) (pb pc pc' : List Wire) (hd : st.curDead = true) (h : RInv st pb pc) : RInv st pb pc' := by
  refine ⟨h.buf, h.pre, ?_, h.once⟩
  intro a hc had
  have : st.curDead = false := (curDead_false_iff st).mpr ⟨a, hc, had⟩
  rw [hd] at this; cases this

theorem rinv_committed_pb (st : St) (pb pb' pc : List Wire) (hc : st.cs.committed = true) (h : RInv st pb pc) : RInv st pb' pc := by
  refine ⟨?_, h.pre, h.cur, ?_⟩
  · intro hf; rw [hc] at hf; cases hf
  · intro hf; rw [hc] at hf; cases hf

/-- `onSuccess` after the op's item went out (or was refused by an OK-closed stream). -/
theorem onSuccess_rinv (st st1 : St) (op : COp) (pc : List Wire) (hs : Same st st1)
    (h : RInv st1 (st.pendOf op) pc) : RInv (st1.onSuccess op) [] pc := by
  cases op with
  | send size =>
    simp only [St.onSuccess]
    apply buffer_rinv _ _ _ _ (by simp)
    simpa [wireOf, St.pendOf, hs.seq, hs.cstr] using h
  | half =>
    simp only [St.onSuccess]
    apply buffer_rinv _ _ _ _ (by simp)
    simpa [wireOf, St.pendOf] using h
  | recv => exact commit_rinv _ _ _ h []
  | header => exact commit_rinv _ _ _ h []

theorem finishAttempt_same (st : St) (code : Nat) : Same st (st.finishAttempt code) := updCur_same st _

theorem curDead_true_iff (st : St) : st.curDead = true ↔ ∀ a, st.cur = some a → a.dead = true := by
  unfold St.curDead
  cases st.cur with
  | none => simp
  | some a => simp

theorem finishAttempt_keeps_dead (st : St) (code : Nat) (h : st.curDead = true) : (st.finishAttempt code).curDead = true := by
  unfold St.finishAttempt
  cases hc : st.cur with
  | none => rw [updCur_none st _ hc]; exact h
  | some a =>
    have had := (curDead_true_iff st).mp h a hc
    simp only [St.curDead, updCur_cur st _ a hc]
    split_ifs
    · exact had
    · simpa [Att.dead] using had

theorem cs_swap_rinv (st : St) (cs' : CS) (pb pc : List Wire) (h : RInv st pb pc) (hc : cs'.committed = st.cs.committed) :
    RInv { st with cs := cs' } pb pc :=
  ⟨fun hf => h.buf (hc ▸ hf), h.pre, h.cur, fun hf hs => h.once (hc ▸ hf) hs⟩

/-- everything but `cs` and the attempts' bookkeeping is kept by the decision step -/
structure SameD (st st' : St) : Prop where
  committed : st'.cs.committed = st.cs.committed
  replay : st'.replay = st.replay
  hist : st'.hist = st.hist
  cstr : st'.clientStreams = st.clientStreams
  started : st'.started = st.started
  seq : st'.seq = st.seq
  pol : st'.pol = st.pol
  dis : st'.disableRetry = st.disableRetry
  maxBuf : st'.maxBuf = st.maxBuf
  rsize : st'.replaySize = st.replaySize
  len : st'.atts.length = st.atts.length

theorem decideRetry_rinv (st : St) (raw : Raw) (pb pc : List Wire) (h : RInv st pb pc) (hd : st.curDead = true) :
    RInv (st.decideRetry raw).1 pb pc ∧ (st.decideRetry raw).1.curDead = true ∧ SameD st (st.decideRetry raw).1 := by
  have h2 := finishAttempt_rinv st raw.code pb pc h
  have hd2 := finishAttempt_keeps_dead st raw.code hd
  have hs2 := finishAttempt_same st raw.code
  simp only [St.decideRetry]
  split
  · exact ⟨h2, hd2, ⟨by rw [hs2.cs], hs2.replay, hs2.hist, hs2.cstr, hs2.started, hs2.seq, hs2.pol, hs2.dis, hs2.maxBuf, hs2.rsize, hs2.len⟩⟩
  next a hc =>
    have hf := sr_other_fields (st.finishAttempt raw.code).disableRetry
      (st.finishAttempt raw.code).pol
      (st.finishAttempt raw.code).cs (attemptView a) 0
    refine ⟨cs_swap_rinv _ _ pb pc h2 hf.2.2.1, ?_, ⟨?_, hs2.replay, hs2.hist, hs2.cstr, hs2.started, hs2.seq, hs2.pol, hs2.dis, hs2.maxBuf, hs2.rsize, hs2.len⟩⟩
    · simpa [St.curDead, St.cur] using hd2
    · simp only; rw [hf.2.2.1, hs2.cs]

theorem afterDecision_committed (cs : CS) (d : Decision) : (afterDecision cs d).committed = cs.committed := by
  cases d <;> rfl

theorem wireOf_start (c : Bool) (r : List ROp) : wireOf c (.start :: r) = wireOf c r := rfl

theorem startsOnce_split (r : List ROp) (h : startsOnce r = true) : ∃ rest, r = .start :: rest ∧ rest.contains .start = false := by
  cases r with
  | nil => simp [startsOnce] at h
  | cons o r =>
    cases o with
    | start => exact ⟨r, rfl, by simpa [startsOnce] using h⟩
    | msg q z => simp [startsOnce] at h
    | half => simp [startsOnce] at h

/-- a retry: the new attempt carries exactly the buffer, i.e. the application's history before the op. -/
theorem startRetry_rinv (st : St) (d : Decision) (pb pc : List Wire) (h : RInv st pb pc)
    (hu : st.cs.committed = false) (hst : st.started = true) :
    RInv (st.startRetry d).1 pb pb ∧ (st.startRetry d).1.curDead = false ∧
    (∃ a, (st.startRetry d).1.atts = st.atts ++ [a] ∧ a.log = wireOf st.clientStreams st.replay ∧ a.prev = (afterDecision st.cs d).numRetries) ∧
    (st.startRetry d).1.cs = afterDecision st.cs d ∧
    (st.startRetry d).1.replay = st.replay ∧ (st.startRetry d).1.hist = st.hist ∧
    (st.startRetry d).1.clientStreams = st.clientStreams ∧ (st.startRetry d).1.started = st.started ∧
    (st.startRetry d).1.seq = st.seq ∧ (st.startRetry d).1.pol = st.pol ∧ (st.startRetry d).1.disableRetry = st.disableRetry ∧
    (st.startRetry d).1.maxBuf = st.maxBuf ∧ (st.startRetry d).1.replaySize = st.replaySize := by
  obtain ⟨rest, hr, hns⟩ := startsOnce_split st.replay (h.once hu hst)
  unfold St.startRetry
  have hspec := replayAll_spec { st with cs := afterDecision st.cs d } rest hr hns
  rw [hspec]
  have hbuf := h.buf hu
  refine ⟨⟨?_, ?_, ?_, ?_⟩, ?_, ⟨_, rfl, ?_, rfl⟩, rfl, rfl, rfl, rfl, rfl, rfl, rfl, rfl, rfl, rfl⟩
  · intro _; exact hbuf
  · intro x hx
    simp only [List.mem_append, List.mem_singleton] at hx
    rcases hx with hx | hx
    · exact h.pre x hx
    · subst hx
      simp only
      rw [← hbuf, hr, wireOf_start]
      exact ⟨pb, rfl⟩
  · intro x hx _
    simp only [St.cur, List.getLast?_append, List.getLast?_singleton, Option.some_or, Option.some.injEq] at hx
    subst hx
    simp only
    rw [← hbuf, hr, wireOf_start]
  · intro hf hs; simp only at hf hs; exact h.once hu hst
  · simp [St.curDead, St.cur, Att.dead, freshAtt]
  · simp only; rw [hr, wireOf_start]

/-! ### withRetry -/

theorem applyOp_blocks_pend (st : St) (op : COp) (h : (st.applyOp op).2.1 = .blocks) : st.pendOf op = [] := by
  cases op with
  | send size =>
    simp only [St.applyOp] at h
    split_ifs at h
  | half => simp [St.applyOp] at h
  | recv => rfl
  | header => rfl

theorem classify_blocked (st : St) (raw : Raw) (h : st.classify raw = .blocked) : raw = .blocks := by
  cases raw <;> simp [St.classify] at h ⊢
  split_ifs at h

theorem classify_failure (st : St) (raw : Raw) (h : st.classify raw = .failure) : raw.isFail = true := by
  cases raw <;> simp [St.classify, Raw.isFail] at h ⊢

theorem commit_curDead (st : St) : st.commit.curDead = st.curDead := rfl

theorem pendOf_congr (st st' : St) (op : COp) (h1 : st'.seq = st.seq) (h2 : st'.clientStreams = st.clientStreams) :
    st'.pendOf op = st.pendOf op := by
  cases op <;> simp [St.pendOf, h1, h2]

/-- what `withRetry` does before a possible recursive call, for the replay invariant -/
theorem withRetry_rinv_step (st : St) (op : COp) (hst : st.started = true)
    (h : RInv st (st.pendOf op) (st.pendOf op))
    (K : St → Decision → St × Res × List Ev × List Delay)
    (hK : ∀ st3 d, st3.started = true → st3.cs.committed = false → st3.seq = st.seq → st3.clientStreams = st.clientStreams →
        RInv st3 (st.pendOf op) (st.pendOf op) →
        (K st3 d).2.1 = .outOfFuel ∨ RInv (K st3 d).1 [] []) :
    let r := st.applyOp op
    let out : St × Res × List Ev × List Delay :=
      if st.cs.committed then (r.1, rawToRes r.2.1, r.2.2, [])
      else match r.1.classify r.2.1 with
        | .blocked => (r.1, .blocked, r.2.2, [])
        | .success => (r.1.onSuccess op, rawToRes r.2.1, r.2.2, [])
        | .failure =>
          match (r.1.decideRetry r.2.1).2 with
          | .noRetry => ((r.1.decideRetry r.2.1).1.commit, rawToRes r.2.1, r.2.2, [])
          | .exhausted => ((r.1.decideRetry r.2.1).1.commit, (match r.2.1 with | .err c => .errExhausted c | _ => .exhaustedEof), r.2.2, [])
          | d => K (r.1.decideRetry r.2.1).1 d
    out.2.1 = .outOfFuel ∨ RInv out.1 [] [] := by
  intro r out
  obtain ⟨hsame, hfail, hok⟩ := applyOp_rinv st op h
  have hr1 : r.1 = (st.applyOp op).1 := rfl
  have hr2 : r.2.1 = (st.applyOp op).2.1 := rfl
  by_cases hcm : st.cs.committed = true
  · right
    have hc1 : r.1.cs.committed = true := by rw [hr1, hsame.cs]; exact hcm
    simp only [out, hcm, if_true]
    cases hf : r.2.1.isFail with
    | true =>
      obtain ⟨hd, hi⟩ := hfail (hr2 ▸ hf)
      exact rinv_committed_pb _ _ [] _ hc1 (rinv_dead_pc _ _ _ [] hd hi)
    | false => exact rinv_committed_pb _ _ [] _ hc1 (hok (hr2 ▸ hf))
  · have hu : st.cs.committed = false := by simpa using hcm
    have hu1 : r.1.cs.committed = false := by rw [hr1, hsame.cs]; exact hu
    simp only [out, hu, Bool.false_eq_true, if_false]
    cases hcl : r.1.classify r.2.1 with
    | blocked =>
      right
      simp only
      have hb := classify_blocked _ _ hcl
      have hp := applyOp_blocks_pend st op (hr2 ▸ hb)
      have := hok (by rw [← hr2, hb]; rfl)
      rw [hp] at this; exact this
    | success =>
      right
      simp only
      cases hf : r.2.1.isFail with
      | true =>
        obtain ⟨hd, hi⟩ := hfail (hr2 ▸ hf)
        exact onSuccess_rinv st r.1 op [] hsame (rinv_dead_pc _ _ _ [] hd hi)
      | false => exact onSuccess_rinv st r.1 op [] hsame (hok (hr2 ▸ hf))
    | failure =>
      simp only
      have hf := classify_failure _ _ hcl
      obtain ⟨hd, hi⟩ := hfail (hr2 ▸ hf)
      obtain ⟨hi3, hd3, hs3⟩ := decideRetry_rinv r.1 r.2.1 _ _ hi hd
      have hu3 : (r.1.decideRetry r.2.1).1.cs.committed = false := by rw [hs3.committed]; exact hu1
      cases hdec : (r.1.decideRetry r.2.1).2 with
      | noRetry =>
        right
        simp only
        exact rinv_committed_pb _ _ [] _ rfl (rinv_dead_pc _ _ _ [] (by rw [commit_curDead]; exact hd3) (commit_rinv _ _ _ hi3))
      | exhausted =>
        right
        simp only
        exact rinv_committed_pb _ _ [] _ rfl (rinv_dead_pc _ _ _ [] (by rw [commit_curDead]; exact hd3) (commit_rinv _ _ _ hi3))
      | transparent =>
        simp only
        exact hK _ _ (by rw [hs3.started, hr1, hsame.started]; exact hst) hu3
          (by rw [hs3.seq, hr1, hsame.seq]) (by rw [hs3.cstr, hr1, hsame.cstr]) hi3
      | backoff dur fp =>
        simp only
        exact hK _ _ (by rw [hs3.started, hr1, hsame.started]; exact hst) hu3
          (by rw [hs3.seq, hr1, hsame.seq]) (by rw [hs3.cstr, hr1, hsame.cstr]) hi3

/-- the continuation of `withRetry` after a positive decision -/
def contK (fuel : Nat) (op : COp) (ev : List Ev) (st3 : St) (d : Decision) : St × Res × List Ev × List Delay :=
  match fuel with
  | 0 => (st3, .outOfFuel, ev, [])
  | fuel + 1 =>
    ((St.withRetry fuel (st3.startRetry d).1 op).1, (St.withRetry fuel (st3.startRetry d).1 op).2.1,
     ev ++ (st3.startRetry d).2 ++ (St.withRetry fuel (st3.startRetry d).1 op).2.2.1,
     st3.delayOf d ++ (St.withRetry fuel (st3.startRetry d).1 op).2.2.2)

theorem withRetry_unfold (fuel : Nat) (st : St) (op : COp) :
    St.withRetry fuel st op =
      (if st.cs.committed then ((st.applyOp op).1, rawToRes (st.applyOp op).2.1, (st.applyOp op).2.2, [])
      else match (st.applyOp op).1.classify (st.applyOp op).2.1 with
        | .blocked => ((st.applyOp op).1, .blocked, (st.applyOp op).2.2, [])
        | .success => ((st.applyOp op).1.onSuccess op, rawToRes (st.applyOp op).2.1, (st.applyOp op).2.2, [])
        | .failure =>
          match ((st.applyOp op).1.decideRetry (st.applyOp op).2.1).2 with
          | .noRetry => (((st.applyOp op).1.decideRetry (st.applyOp op).2.1).1.commit, rawToRes (st.applyOp op).2.1, (st.applyOp op).2.2, [])
          | .exhausted => (((st.applyOp op).1.decideRetry (st.applyOp op).2.1).1.commit,
              (match (st.applyOp op).2.1 with | .err c => .errExhausted c | _ => .exhaustedEof), (st.applyOp op).2.2, [])
          | d => contK fuel op (st.applyOp op).2.2 ((st.applyOp op).1.decideRetry (st.applyOp op).2.1).1 d) := by
  cases fuel with
  | zero =>
    rw [St.withRetry]
    split_ifs <;> rfl
  | succ n =>
    rw [St.withRetry]
    simp only [contK]
    split_ifs
    · rfl
    · cases (st.applyOp op).1.classify (st.applyOp op).2.1 with
      | blocked => rfl
      | success => rfl
      | failure =>
        simp only
        cases ((st.applyOp op).1.decideRetry (st.applyOp op).2.1).2 <;> rfl

theorem withRetry_rinv (fuel : Nat) (st : St) (op : COp) (hst : st.started = true)
    (h : RInv st (st.pendOf op) (st.pendOf op)) :
    (St.withRetry fuel st op).2.1 = .outOfFuel ∨ RInv (St.withRetry fuel st op).1 [] [] := by
  induction fuel generalizing st with
  | zero =>
    rw [withRetry_unfold]
    exact withRetry_rinv_step st op hst h (contK 0 op (st.applyOp op).2.2)
      (fun st3 d _ _ _ _ _ => Or.inl rfl)
  | succ n ih =>
    rw [withRetry_unfold]
    refine withRetry_rinv_step st op hst h (contK (n + 1) op (st.applyOp op).2.2) ?_
    intro st3 d hs3 hu3 hseq hcs hi3
    simp only [contK]
    obtain ⟨hi5, _, _, hcs5, hr5, hh5, hc5, hst5, hq5, _⟩ := startRetry_rinv st3 d _ _ hi3 hu3 hs3
    have hp : (st3.startRetry d).1.pendOf op = st.pendOf op :=
      pendOf_congr st _ op (hq5.trans hseq) (hc5.trans hcs)
    have := ih (st3.startRetry d).1 (hst5.trans hs3) (by rw [hp]; exact hi5)
    exact this

/-! ### frames and operation boundaries -/

theorem finish_rinv (st : St) (code : Nat) (pb pc : List Wire) (h : RInv st pb pc) : RInv (st.finish code) pb pc := by
  have h1 : RInv ({ st with cs := { st.cs with finished := true } } : St) pb pc := cs_swap_rinv st _ pb pc h rfl
  have h2 := commit_rinv _ pb pc h1
  have h3 := finishAttempt_rinv _ code pb pc h2
  simp only [St.finish]
  split_ifs
  · exact h
  · exact cs_swap_rinv _ _ pb pc h3 rfl
  · exact h3

theorem finish_started (st : St) (code : Nat) : (st.finish code).started = st.started := by
  simp only [St.finish]
  split_ifs
  · rfl
  · exact (finishAttempt_same _ _).started
  · exact (finishAttempt_same _ _).started

/-- what no part of `withRetry` touches -/
structure Frame (st st' : St) : Prop where
  started : st'.started = st.started
  cstr : st'.clientStreams = st.clientStreams
  sstr : st'.serverStreams = st.serverStreams
  hist : st'.hist = st.hist
  seq : st'.seq = st.seq
  pol : st'.pol = st.pol
  dis : st'.disableRetry = st.disableRetry
  maxBuf : st'.maxBuf = st.maxBuf
  script : st'.script = st.script
  sentLast : st'.sentLast = st.sentLast

theorem Frame.refl (st : St) : Frame st st := ⟨rfl, rfl, rfl, rfl, rfl, rfl, rfl, rfl, rfl, rfl⟩

theorem Frame.trans {a b c : St} (h1 : Frame a b) (h2 : Frame b c) : Frame a c :=
  ⟨h2.started.trans h1.started, h2.cstr.trans h1.cstr, h2.sstr.trans h1.sstr, h2.hist.trans h1.hist,
   h2.seq.trans h1.seq, h2.pol.trans h1.pol, h2.dis.trans h1.dis, h2.maxBuf.trans h1.maxBuf,
   h2.script.trans h1.script, h2.sentLast.trans h1.sentLast⟩

theorem updCur_frame (st : St) (f : Att → Att) : Frame st (st.updCur f) := by
  cases h : st.cur with
  | none => rw [updCur_none st f h]; exact Frame.refl st
  | some a => rw [updCur_some st f a h]; exact ⟨rfl, rfl, rfl, rfl, rfl, rfl, rfl, rfl, rfl, rfl⟩

theorem write_frame (st : St) (w : Wire) : Frame st (st.write w).1 := by
  unfold St.write
  split_ifs
  · exact Frame.refl st
  · exact updCur_frame st _

theorem newAttempt_frame (st : St) : Frame st st.newAttempt.1 := ⟨rfl, rfl, rfl, rfl, rfl, rfl, rfl, rfl, rfl, rfl⟩

theorem commit_frame (st : St) : Frame st st.commit := ⟨rfl, rfl, rfl, rfl, rfl, rfl, rfl, rfl, rfl, rfl⟩

theorem buffer_frame (st : St) (sz : Int) (op : ROp) : Frame st (st.buffer sz op) := by
  simp only [St.buffer]
  split_ifs <;> exact ⟨rfl, rfl, rfl, rfl, rfl, rfl, rfl, rfl, rfl, rfl⟩

theorem replayAll_frame (st : St) : Frame st st.replayAll.1 := by
  unfold St.replayAll
  generalize ([] : List Ev) = evs
  induction st.replay generalizing st evs with
  | nil => exact Frame.refl st
  | cons o r ih =>
    simp only [List.foldl_cons]
    cases o with
    | start => exact (newAttempt_frame st).trans (ih _ _)
    | msg q z =>
      simp only
      split_ifs
      · exact (write_frame st _).trans (ih _ _)
      · exact ((write_frame st _).trans (write_frame _ _)).trans (ih _ _)
    | half => exact (write_frame st _).trans (ih _ _)

theorem applyOp_frame (st : St) (op : COp) : Frame st (st.applyOp op).1 := by
  cases op with
  | send size =>
    simp only [St.applyOp]
    repeat' split_ifs
    all_goals first
      | exact write_frame st _
      | exact (write_frame st _).trans (write_frame _ _)
  | half => exact write_frame st _
  | recv =>
    have h1 : Frame st { st with atts := react st.atts } := ⟨rfl, rfl, rfl, rfl, rfl, rfl, rfl, rfl, rfl, rfl⟩
    have h2 := h1.trans (updCur_frame { st with atts := react st.atts } (fun a => { a with respRead := 1 }))
    have h3 : Frame st { ({ st with atts := react st.atts } : St).updCur (fun a => { a with respRead := 1 }) with recvFirst := true } :=
      h2.trans ⟨rfl, rfl, rfl, rfl, rfl, rfl, rfl, rfl, rfl, rfl⟩
    simp only [St.applyOp]
    repeat' (first | split_ifs | split)
    all_goals first
      | exact h1
      | exact h3
  | header =>
    simp only [St.applyOp]
    repeat' (first | split_ifs | split)
    all_goals exact ⟨rfl, rfl, rfl, rfl, rfl, rfl, rfl, rfl, rfl, rfl⟩

theorem onSuccess_frame (st : St) (op : COp) : Frame st (st.onSuccess op) := by
  cases op <;> simp only [St.onSuccess]
  · exact buffer_frame _ _ _
  · exact buffer_frame _ _ _
  · exact commit_frame _
  · exact commit_frame _

theorem finishAttempt_frame (st : St) (code : Nat) : Frame st (st.finishAttempt code) := updCur_frame st _

theorem decideRetry_frame (st : St) (raw : Raw) : Frame st (st.decideRetry raw).1 := by
  simp only [St.decideRetry]
  split
  · exact finishAttempt_frame _ _
  · exact (finishAttempt_frame st raw.code).trans ⟨rfl, rfl, rfl, rfl, rfl, rfl, rfl, rfl, rfl, rfl⟩

theorem startRetry_frame (st : St) (d : Decision) : Frame st (st.startRetry d).1 :=
  Frame.trans (b := { st with cs := afterDecision st.cs d }) ⟨rfl, rfl, rfl, rfl, rfl, rfl, rfl, rfl, rfl, rfl⟩ (replayAll_frame _)

theorem withRetry_frame (fuel : Nat) (st : St) (op : COp) : Frame st (St.withRetry fuel st op).1 := by
  induction fuel generalizing st with
  | zero =>
    rw [withRetry_unfold]
    split_ifs
    · exact applyOp_frame st op
    · split
      · exact applyOp_frame st op
      · exact (applyOp_frame st op).trans (onSuccess_frame _ _)
      · split
        · exact ((applyOp_frame st op).trans (decideRetry_frame _ _)).trans (commit_frame _)
        · exact ((applyOp_frame st op).trans (decideRetry_frame _ _)).trans (commit_frame _)
        · exact (applyOp_frame st op).trans (decideRetry_frame _ _)
  | succ n ih =>
    rw [withRetry_unfold]
    split_ifs
    · exact applyOp_frame st op
    · split
      · exact applyOp_frame st op
      · exact (applyOp_frame st op).trans (onSuccess_frame _ _)
      · split
        · exact ((applyOp_frame st op).trans (decideRetry_frame _ _)).trans (commit_frame _)
        · exact ((applyOp_frame st op).trans (decideRetry_frame _ _)).trans (commit_frame _)
        · exact (((applyOp_frame st op).trans (decideRetry_frame _ _)).trans (startRetry_frame _ _)).trans (ih _)

theorem extend_hist_rinv (st : St) (item : List Wire) (h : RInv st [] []) :
    RInv { st with hist := st.hist ++ item } item item := by
  refine ⟨?_, ?_, ?_, h.once⟩
  · intro hc; have := h.buf hc; simp only [List.append_nil] at this; simp [this]
  · intro a ha
    obtain ⟨t, ht⟩ := h.pre a ha
    exact ⟨t ++ item, by simp [← ht, List.append_assoc]⟩
  · intro a hc hd
    have := h.cur a hc hd
    simp only [List.append_nil] at this
    simp [this]

/-- the replay invariant at operation boundaries -/
def Good (st : St) : Prop := RInv st [] [] ∧ st.started = true

theorem settle_frame (st : St) : Frame st st.settle := ⟨rfl, rfl, rfl, rfl, rfl, rfl, rfl, rfl, rfl, rfl⟩

theorem finish_frame (st : St) (code : Nat) : Frame st (st.finish code) := by
  have h1 : Frame st ({ st with cs := { st.cs with finished := true } } : St).commit :=
    ⟨rfl, rfl, rfl, rfl, rfl, rfl, rfl, rfl, rfl, rfl⟩
  have h2 := h1.trans (finishAttempt_frame _ code)
  simp only [St.finish]
  split_ifs
  · exact Frame.refl st
  · exact h2.trans ⟨rfl, rfl, rfl, rfl, rfl, rfl, rfl, rfl, rfl, rfl⟩
  · exact h2

theorem good_finish (st : St) (code : Nat) (h : Good st) : Good (st.finish code) :=
  ⟨finish_rinv st code [] [] h.1, (finish_frame st code).started.trans h.2⟩

theorem good_settle (st : St) (h : Good st) : Good st.settle := ⟨settle_rinv st [] [] h.1, h.2⟩

theorem withRetry_good (fuel : Nat) (st : St) (op : COp) (hst : st.started = true)
    (h : RInv st (st.pendOf op) (st.pendOf op)) :
    (St.withRetry fuel st op).2.1 = .outOfFuel ∨ Good (St.withRetry fuel st op).1 := by
  rcases withRetry_rinv fuel st op hst h with h1 | h1
  · exact Or.inl h1
  · exact Or.inr ⟨h1, (withRetry_frame fuel st op).started.trans hst⟩


theorem beginSend_rinv (st : St) (size : Nat) (h : Good st) :
    RInv (st.beginSend size) ((st.beginSend size).pendOf (.send size)) ((st.beginSend size).pendOf (.send size)) ∧
    (st.beginSend size).started = true := by
  have hA := extend_hist_rinv { st with seq := st.seq + 1 } (({ st with seq := st.seq + 1 } : St).pendOf (.send size))
    ⟨h.1.buf, h.1.pre, h.1.cur, h.1.once⟩
  exact ⟨⟨hA.buf, hA.pre, hA.cur, hA.once⟩, h.2⟩

theorem beginClose_rinv (st : St) (h : Good st) :
    RInv st.beginClose (st.beginClose.pendOf .half) (st.beginClose.pendOf .half) ∧ st.beginClose.started = true := by
  have hA := extend_hist_rinv st [Wire.half] h.1
  exact ⟨⟨hA.buf, hA.pre, hA.cur, hA.once⟩, h.2⟩

theorem endSend_good (st : St) (res : Res) (h : Good st) : Good (st.endSend res) := by
  unfold St.endSend
  split <;> first
    | exact good_settle _ (good_finish _ _ h)
    | exact good_settle _ h

theorem endRecv_good (st : St) (res : Res) (h : Good st) : Good (st.endRecv res) := by
  unfold St.endRecv
  split <;> first
    | exact good_settle _ (good_finish _ _ h)
    | exact good_settle _ h

theorem endHeader_good (st : St) (res : Res) (h : Good st) : Good (st.endHeader res) := by
  unfold St.endHeader
  split <;> first
    | exact good_settle _ (good_finish _ _ h)
    | exact good_settle _ h

theorem opSend_good (fuel : Nat) (st : St) (size : Nat) (h : Good st) :
    (st.opSend fuel size).2.1 = .outOfFuel ∨ Good (st.opSend fuel size).1 := by
  unfold St.opSend
  split_ifs
  · right
    exact good_settle _ (good_finish _ _ ⟨⟨h.1.buf, h.1.pre, h.1.cur, h.1.once⟩, h.2⟩)
  · obtain ⟨hi, hs⟩ := beginSend_rinv st size h
    rcases withRetry_good fuel _ (.send size) hs hi with hw | hw
    · exact Or.inl hw
    · exact Or.inr (endSend_good _ _ hw)

theorem opClose_good (fuel : Nat) (st : St) (h : Good st) :
    (St.withRetry fuel st.beginClose .half).2.1 = .outOfFuel ∨ Good (st.opClose fuel).1 := by
  unfold St.opClose
  split_ifs
  · exact Or.inr (good_settle _ h)
  · obtain ⟨hi, hs⟩ := beginClose_rinv st h
    rcases withRetry_good fuel _ .half hs hi with hw | hw
    · exact Or.inl hw
    · exact Or.inr (good_settle _ hw)

theorem opRecv_good (fuel : Nat) (st : St) (h : Good st) :
    (st.opRecv fuel).2.1 = .outOfFuel ∨ Good (st.opRecv fuel).1 := by
  unfold St.opRecv
  rcases withRetry_good fuel st .recv h.2 ⟨h.1.buf, h.1.pre, h.1.cur, h.1.once⟩ with hw | hw
  · exact Or.inl hw
  · exact Or.inr (endRecv_good _ _ hw)

theorem opHeader_good (fuel : Nat) (st : St) (h : Good st) :
    (St.withRetry fuel st .header).2.1 = .outOfFuel ∨ Good (st.opHeader fuel).1 := by
  unfold St.opHeader
  rcases withRetry_good fuel st .header h.2 ⟨h.1.buf, h.1.pre, h.1.cur, h.1.once⟩ with hw | hw
  · exact Or.inl hw
  · exact Or.inr (endHeader_good _ _ hw)

/-! ### fuel -/

theorem write_cs (st : St) (w : Wire) : (st.write w).1.cs = st.cs := by
  unfold St.write
  split_ifs
  · rfl
  · exact (updCur_same st _).cs

theorem replayAll_cs (st : St) : st.replayAll.1.cs = st.cs := by
  unfold St.replayAll
  generalize ([] : List Ev) = evs
  induction st.replay generalizing st evs with
  | nil => rfl
  | cons o r ih =>
    simp only [List.foldl_cons]
    cases o with
    | start => exact (ih _ _).trans rfl
    | msg q z =>
      simp only
      split_ifs
      · exact (ih _ _).trans (write_cs st _)
      · exact (ih _ _).trans ((write_cs _ _).trans (write_cs st _))
    | half => exact (ih _ _).trans (write_cs st _)

theorem startRetry_cs (st : St) (d : Decision) : (st.startRetry d).1.cs = afterDecision st.cs d := by
  unfold St.startRetry; exact replayAll_cs _

theorem applyOp_cs (st : St) (op : COp) : (st.applyOp op).1.cs = st.cs := by
  cases op with
  | send size =>
    simp only [St.applyOp]
    repeat' split_ifs
    all_goals first
      | exact write_cs st _
      | exact (write_cs _ _).trans (write_cs st _)
  | half => exact write_cs st _
  | recv =>
    have h2 := (updCur_same ({ st with atts := react st.atts } : St) (fun a => { a with respRead := 1 })).cs
    simp only [St.applyOp]
    repeat' (first | split_ifs | split)
    all_goals first
      | rfl
      | exact h2
  | header =>
    simp only [St.applyOp]
    repeat' (first | split_ifs | split)
    all_goals rfl

/-- the decision step in terms of `shouldRetry` on the unchanged bookkeeping -/
theorem decideRetry_spec (st : St) (raw : Raw) :
    ((st.decideRetry raw).2 = .noRetry ∧ (st.decideRetry raw).1.cs = st.cs) ∨
    ∃ a, (st.decideRetry raw).2 = (shouldRetry st.disableRetry st.pol st.cs (attemptView a) 0).2 ∧
         (st.decideRetry raw).1.cs = (shouldRetry st.disableRetry st.pol st.cs (attemptView a) 0).1 ∧
         (attemptView a).hasStream = true := by
  have hs := finishAttempt_same st raw.code
  simp only [St.decideRetry]
  split
  · exact Or.inl ⟨rfl, hs.cs⟩
  next a _ =>
    right
    refine ⟨a, ?_, ?_, rfl⟩
    · simp only; rw [hs.dis, hs.pol, hs.cs]
    · simp only; rw [hs.dis, hs.pol, hs.cs]

theorem retryBudget_congr (st st' : St) (h1 : st'.cs = st.cs) (h2 : st'.pol = st.pol) : st'.retryBudget = st.retryBudget := by
  simp [St.retryBudget, h1, h2]

/-- a positive decision consumes budget -/
theorem budget_decreases (dis : Bool) (pol : Option Policy) (cs : CS) (a : Attempt) (ha : a.hasStream = true)
    (d : Decision) (hd : (shouldRetry dis pol cs a 0).2 = d) (hpos : d ≠ .noRetry ∧ d ≠ .exhausted) :
    budget (afterDecision (shouldRetry dis pol cs a 0).1 d) pol + 1 ≤ budget cs pol := by
  unfold budget
  generalize hcs' : afterDecision (shouldRetry dis pol cs a 0).1 d = cs'
  have hf := sr_other_fields dis pol cs a 0
  cases d with
  | noRetry => exact absurd rfl hpos.1
  | exhausted => exact absurd rfl hpos.2
  | transparent =>
    obtain ⟨_, _, _, hc⟩ := sr_transparent_conditions dis pol cs a 0 hd
    rcases hc with ⟨hns, _⟩ | ⟨hfa, _, _⟩
    · rw [ha] at hns; cases hns
    · have h1 : cs'.firstAttempt = false := by rw [← hcs']; rfl
      have h2 : cs'.numRetries = cs.numRetries := by rw [← hcs']; exact hf.1
      simp only [h1, h2, hfa, Bool.false_eq_true, if_false, if_true]
      omega
  | backoff dur fp =>
    obtain ⟨pb, rp, _, hp, _, hlt⟩ := sr_backoff_conditions dis pol cs a 0 dur fp hd
    have h1 : cs'.firstAttempt = false := by rw [← hcs']; rfl
    have h2 : cs'.numRetries = cs.numRetries + 1 := by
      rw [← hcs']
      show (shouldRetry dis pol cs a 0).1.numRetries + 1 = _
      rw [hf.1]
    subst hp
    simp only [h1, h2, Bool.false_eq_true, if_false]
    split_ifs <;> omega

theorem rawToRes_ne_outOfFuel (raw : Raw) : rawToRes raw ≠ .outOfFuel := by cases raw <;> simp [rawToRes]

theorem withRetry_fuel (fuel : Nat) (st : St) (op : COp) (hf : st.retryBudget ≤ fuel) :
    (St.withRetry fuel st op).2.1 ≠ .outOfFuel := by
  induction fuel generalizing st with
  | zero =>
    rw [withRetry_unfold]
    split_ifs
    · exact rawToRes_ne_outOfFuel _
    · split
      · simp
      · exact rawToRes_ne_outOfFuel _
      · split
        · exact rawToRes_ne_outOfFuel _
        · split <;> simp
        next d hn he =>
          exfalso
          have hcs := applyOp_cs st op
          have hpol := (applyOp_frame st op).pol
          have hdis := (applyOp_frame st op).dis
          rcases decideRetry_spec (st.applyOp op).1 (st.applyOp op).2.1 with ⟨h1, _⟩ | ⟨a, h1, h2, ha⟩
          · exact (hn h1).elim
          · have := budget_decreases (st.applyOp op).1.disableRetry (st.applyOp op).1.pol (st.applyOp op).1.cs (attemptView a) ha
              _ h1.symm ⟨fun h => hn h, fun h => he h⟩
            simp only [hcs, hpol] at this
            simp only [St.retryBudget] at hf
            omega
  | succ n ih =>
    rw [withRetry_unfold]
    split_ifs
    · exact rawToRes_ne_outOfFuel _
    · split
      · simp
      · exact rawToRes_ne_outOfFuel _
      · split
        · exact rawToRes_ne_outOfFuel _
        · split <;> simp
        next d hn he =>
          simp only [contK]
          apply ih
          have hcs := applyOp_cs st op
          have hpol := (applyOp_frame st op).pol
          rcases decideRetry_spec (st.applyOp op).1 (st.applyOp op).2.1 with ⟨h1, _⟩ | ⟨a, h1, h2, ha⟩
          · exact (hn h1).elim
          · have hb := budget_decreases (st.applyOp op).1.disableRetry (st.applyOp op).1.pol (st.applyOp op).1.cs (attemptView a) ha
              _ h1.symm ⟨fun h => hn h, fun h => he h⟩
            have e1 : ∀ D, (((st.applyOp op).1.decideRetry (st.applyOp op).2.1).1.startRetry D).1.retryBudget =
                budget (afterDecision ((st.applyOp op).1.decideRetry (st.applyOp op).2.1).1.cs D) st.pol := by
              intro D
              unfold St.retryBudget
              rw [startRetry_cs, (startRetry_frame _ _).pol, (decideRetry_frame _ _).pol, hpol]
            rw [e1, h2, hcs, hpol]
            rw [hcs, hpol] at hb
            simp only [St.retryBudget] at hf
            omega

/-! ### more invariants of withRetry -/

/-- induction principle: a state predicate kept by the pieces of `withRetry` is kept by `withRetry`. -/
theorem withRetry_preserves (P : St → Prop)
    (hApply : ∀ st op, P st → P (st.applyOp op).1)
    (hSucc : ∀ st op, P st → P (st.onSuccess op))
    (hDec : ∀ st raw, P st → P (st.decideRetry raw).1)
    (hCommit : ∀ st, P st → P st.commit)
    (hRetry : ∀ st raw, P st → (st.decideRetry raw).2 ≠ .noRetry → (st.decideRetry raw).2 ≠ .exhausted →
        P ((st.decideRetry raw).1.startRetry (st.decideRetry raw).2).1)
    (fuel : Nat) (st : St) (op : COp) (h : P st) : P (St.withRetry fuel st op).1 := by
  induction fuel generalizing st with
  | zero =>
    rw [withRetry_unfold]
    split_ifs
    · exact hApply st op h
    · split
      · exact hApply st op h
      · exact hSucc _ op (hApply st op h)
      · split
        · exact hCommit _ (hDec _ _ (hApply st op h))
        · exact hCommit _ (hDec _ _ (hApply st op h))
        · exact hDec _ _ (hApply st op h)
  | succ n ih =>
    rw [withRetry_unfold]
    split_ifs
    · exact hApply st op h
    · split
      · exact hApply st op h
      · exact hSucc _ op (hApply st op h)
      · split
        · exact hCommit _ (hDec _ _ (hApply st op h))
        · exact hCommit _ (hDec _ _ (hApply st op h))
        next d hn he =>
          simp only [contK]
          exact ih _ (hRetry _ _ (hApply st op h) (fun hh => hn hh) (fun hh => he hh))

/-! #### small frame facts -/

theorem write_rsize (st : St) (w : Wire) : (st.write w).1.replaySize = st.replaySize ∧ (st.write w).1.atts.length = st.atts.length := by
  unfold St.write
  split_ifs
  · exact ⟨rfl, rfl⟩
  · exact ⟨(updCur_same st _).rsize, (updCur_same st _).len⟩

theorem applyOp_rsize (st : St) (op : COp) :
    (st.applyOp op).1.replaySize = st.replaySize ∧ (st.applyOp op).1.atts.length = st.atts.length := by
  cases op with
  | send size =>
    simp only [St.applyOp]
    repeat' split_ifs
    all_goals first
      | exact write_rsize st _
      | exact ⟨(write_rsize _ _).1.trans (write_rsize st _).1, (write_rsize _ _).2.trans (write_rsize st _).2⟩
  | half => exact write_rsize st _
  | recv =>
    have h2 := updCur_same ({ st with atts := react st.atts } : St) (fun a => { a with respRead := 1 })
    have hl : (react st.atts).length = st.atts.length := by simp [react]
    simp only [St.applyOp]
    repeat' (first | split_ifs | split)
    all_goals first
      | exact ⟨rfl, hl⟩
      | exact ⟨h2.rsize, h2.len.trans hl⟩
  | header =>
    have hl : (react st.atts).length = st.atts.length := by simp [react]
    simp only [St.applyOp]
    repeat' (first | split_ifs | split)
    all_goals exact ⟨rfl, hl⟩

theorem replayAll_rsize (st : St) : st.replayAll.1.replaySize = st.replaySize := by
  unfold St.replayAll
  generalize ([] : List Ev) = evs
  induction st.replay generalizing st evs with
  | nil => rfl
  | cons o r ih =>
    simp only [List.foldl_cons]
    cases o with
    | start => exact (ih _ _).trans rfl
    | msg q z =>
      simp only
      split_ifs
      · exact (ih _ _).trans (write_rsize st _).1
      · exact (ih _ _).trans ((write_rsize _ _).1.trans (write_rsize st _).1)
    | half => exact (ih _ _).trans (write_rsize st _).1

theorem decideRetry_keep (st : St) (raw : Raw) :
    (st.decideRetry raw).1.cs.committed = st.cs.committed ∧ (st.decideRetry raw).1.replaySize = st.replaySize ∧
    (st.decideRetry raw).1.atts.length = st.atts.length := by
  have hs := finishAttempt_same st raw.code
  simp only [St.decideRetry]
  split
  · exact ⟨by rw [hs.cs], hs.rsize, hs.len⟩
  next a _ =>
    have hf := sr_other_fields (st.finishAttempt raw.code).disableRetry (st.finishAttempt raw.code).pol
      (st.finishAttempt raw.code).cs (attemptView a) 0
    exact ⟨by simp only; rw [hf.2.2.1, hs.cs], hs.rsize, hs.len⟩

/-! #### the buffer never exceeds the limit while uncommitted -/

def SizeInv (st : St) : Prop := st.cs.committed = false → st.replaySize ≤ st.maxBuf

theorem buffer_size (st : St) (sz : Int) (op : ROp) (h : SizeInv st) : SizeInv (st.buffer sz op) := by
  simp only [St.buffer, SizeInv]
  split_ifs with hc hs
  · exact h
  · intro hf; simp [St.commit] at hf
  · intro _; simpa using hs

theorem withRetry_size (fuel : Nat) (st : St) (op : COp) (h : SizeInv st) : SizeInv (St.withRetry fuel st op).1 := by
  apply withRetry_preserves SizeInv _ _ _ _ _ fuel st op h
  · intro st op h hc
    rw [applyOp_cs] at hc
    rw [(applyOp_rsize st op).1, (applyOp_frame st op).maxBuf]; exact h hc
  · intro st op h
    cases op <;> simp only [St.onSuccess]
    · exact buffer_size _ _ _ h
    · exact buffer_size _ _ _ h
    · intro hc; simp [St.commit] at hc
    · intro hc; simp [St.commit] at hc
  · intro st raw h hc
    rw [(decideRetry_keep st raw).1] at hc
    rw [(decideRetry_keep st raw).2.1, (decideRetry_frame st raw).maxBuf]; exact h hc
  · intro st _ hc; simp [St.commit] at hc
  · intro st raw h _ _ hc
    rw [startRetry_cs, afterDecision_committed, (decideRetry_keep st raw).1] at hc
    unfold St.startRetry
    rw [replayAll_rsize, (replayAll_frame _).maxBuf]
    simp only
    rw [(decideRetry_keep st raw).2.1, (decideRetry_frame st raw).maxBuf]; exact h hc

/-! #### once committed, no attempt is ever created again -/

theorem withRetry_committed_atts (fuel : Nat) (st : St) (op : COp) (hc : st.cs.committed = true) :
    (St.withRetry fuel st op).1.atts.length = st.atts.length ∧ (St.withRetry fuel st op).1.cs.committed = true := by
  rw [withRetry_unfold]
  simp only [hc, if_true]
  exact ⟨(applyOp_rsize st op).2, by rw [applyOp_cs]; exact hc⟩

/-- `committed` is never reset -/
theorem withRetry_committed_mono (fuel : Nat) (st : St) (op : COp) (hc : st.cs.committed = true) :
    (St.withRetry fuel st op).1.cs.committed = true := (withRetry_committed_atts fuel st op hc).2

/-! #### delivery commits -/

theorem applyOp_delivers_op (st : St) (op : COp) (h : (rawToRes (st.applyOp op).2.1).delivers = true) :
    op = .recv ∨ op = .header := by
  cases op with
  | send size =>
    simp only [St.applyOp] at h
    repeat' split_ifs at h
    all_goals simp [rawToRes, Res.delivers] at h
  | half => simp [St.applyOp, rawToRes, Res.delivers] at h
  | recv => exact Or.inl rfl
  | header => exact Or.inr rfl

theorem rawToRes_fail (raw : Raw) (h : raw.isFail = true) : (rawToRes raw).delivers = false := by
  cases raw <;> simp [Raw.isFail, rawToRes, Res.delivers] at h ⊢

theorem withRetry_delivery_commits (fuel : Nat) (st : St) (op : COp)
    (h : (St.withRetry fuel st op).2.1.delivers = true) : (St.withRetry fuel st op).1.cs.committed = true := by
  induction fuel generalizing st with
  | zero =>
    rw [withRetry_unfold] at h ⊢
    by_cases hc : st.cs.committed = true
    · simp only [hc, if_true]; rw [applyOp_cs]; exact hc
    · have hc' : st.cs.committed = false := by simpa using hc
      simp only [hc', Bool.false_eq_true, if_false] at h ⊢
      cases hcl : (st.applyOp op).1.classify (st.applyOp op).2.1 with
      | blocked => simp [hcl, Res.delivers] at h
      | success =>
        simp only [hcl] at h ⊢
        rcases applyOp_delivers_op st op h with ho | ho <;> subst ho <;> rfl
      | failure =>
        have hf := rawToRes_fail _ (classify_failure _ _ hcl)
        simp only [hcl] at h ⊢
        cases hd : ((st.applyOp op).1.decideRetry (st.applyOp op).2.1).2 with
        | noRetry => simp only [hd] at h; rw [hf] at h; cases h
        | exhausted => simp only [hd] at h; split at h <;> simp [Res.delivers] at h
        | transparent => simp [hd, contK, Res.delivers] at h
        | backoff dur fp => simp [hd, contK, Res.delivers] at h
  | succ n ih =>
    rw [withRetry_unfold] at h ⊢
    by_cases hc : st.cs.committed = true
    · simp only [hc, if_true]; rw [applyOp_cs]; exact hc
    · have hc' : st.cs.committed = false := by simpa using hc
      simp only [hc', Bool.false_eq_true, if_false] at h ⊢
      cases hcl : (st.applyOp op).1.classify (st.applyOp op).2.1 with
      | blocked => simp [hcl, Res.delivers] at h
      | success =>
        simp only [hcl] at h ⊢
        rcases applyOp_delivers_op st op h with ho | ho <;> subst ho <;> rfl
      | failure =>
        have hf := rawToRes_fail _ (classify_failure _ _ hcl)
        simp only [hcl] at h ⊢
        cases hd : ((st.applyOp op).1.decideRetry (st.applyOp op).2.1).2 with
        | noRetry => simp only [hd] at h; rw [hf] at h; cases h
        | exhausted => simp only [hd] at h; split at h <;> simp [Res.delivers] at h
        | transparent => simp only [hd, contK] at h ⊢; exact ih _ h
        | backoff dur fp => simp only [hd, contK] at h ⊢; exact ih _ h

/-! #### the number of non-transparent attempts is bounded by the policy -/

def PrevsLe (st : St) : Prop := ∀ a ∈ st.atts, a.prev ≤ st.cs.numRetries

def NrBound (st : St) : Prop :=
  0 ≤ st.cs.numRetries ∧ (st.cs.numRetries = 0 ∨ ∃ rp, st.pol = some rp ∧ st.cs.numRetries + 1 ≤ rp.maxAttempts)

def BInv (st : St) : Prop := PrevsLe st ∧ NrBound st

theorem updCur_prevsLe (st : St) (f : Att → Att) (hf : ∀ a, (f a).prev = a.prev) (h : PrevsLe st) : PrevsLe (st.updCur f) := by
  intro x hx
  rw [(updCur_same st f).cs]
  rcases mem_updCur st f x hx with hx | ⟨a, hc, rfl⟩
  · exact h x hx
  · rw [hf]; exact h a (cur_mem st a hc)

theorem write_prevsLe (st : St) (w : Wire) (h : PrevsLe st) : PrevsLe (st.write w).1 := by
  unfold St.write
  split_ifs
  · exact h
  · exact updCur_prevsLe st _ (fun _ => rfl) h

theorem react_prevsLe (st : St) (h : PrevsLe st) : PrevsLe { st with atts := react st.atts } := by
  intro x hx
  simp only [react, List.mem_map] at hx
  obtain ⟨a, ha, rfl⟩ := hx
  have := h a ha
  split_ifs <;> exact this

theorem applyOp_binv (st : St) (op : COp) (h : BInv st) : BInv (st.applyOp op).1 := by
  refine ⟨?_, ?_⟩
  · cases op with
    | send size =>
      simp only [St.applyOp]
      repeat' split_ifs
      all_goals first
        | exact write_prevsLe st _ h.1
        | exact write_prevsLe _ _ (write_prevsLe st _ h.1)
    | half => exact write_prevsLe st _ h.1
    | recv =>
      have h1 := react_prevsLe st h.1
      have h2 := updCur_prevsLe _ (fun a => { a with respRead := 1 }) (fun _ => rfl) h1
      simp only [St.applyOp]
      repeat' (first | split_ifs | split)
      all_goals first
        | exact h1
        | exact h2
    | header =>
      have h1 := react_prevsLe st h.1
      simp only [St.applyOp]
      repeat' (first | split_ifs | split)
      all_goals exact h1
  · unfold NrBound; rw [applyOp_cs, (applyOp_frame st op).pol]; exact h.2

theorem buffer_binv (st : St) (sz : Int) (op : ROp) (h : BInv st) : BInv (st.buffer sz op) := by
  simp only [St.buffer]
  split_ifs <;> exact h

theorem finishAttempt_binv (st : St) (code : Nat) (h : BInv st) : BInv (st.finishAttempt code) := by
  refine ⟨?_, ?_⟩
  · unfold St.finishAttempt
    apply updCur_prevsLe st _ _ h.1
    intro a; split_ifs <;> rfl
  · unfold NrBound; rw [(finishAttempt_same st code).cs, (finishAttempt_same st code).pol]; exact h.2

theorem decideRetry_binv (st : St) (raw : Raw) (h : BInv st) : BInv (st.decideRetry raw).1 := by
  have h2 := finishAttempt_binv st raw.code h
  simp only [St.decideRetry]
  split
  · exact h2
  next a _ =>
    have hf := sr_other_fields (st.finishAttempt raw.code).disableRetry (st.finishAttempt raw.code).pol
      (st.finishAttempt raw.code).cs (attemptView a) 0
    refine ⟨?_, ?_⟩
    · intro x hx; simp only at hx ⊢; rw [hf.1]; exact h2.1 x hx
    · unfold NrBound; simp only; rw [hf.1]; exact h2.2

theorem replayAll_prevsLe (st : St) (h : PrevsLe st) : PrevsLe st.replayAll.1 := by
  unfold St.replayAll
  generalize ([] : List Ev) = evs
  induction st.replay generalizing st evs with
  | nil => exact h
  | cons o r ih =>
    simp only [List.foldl_cons]
    cases o with
    | start =>
      apply ih
      intro x hx
      simp only [St.newAttempt, List.mem_append, List.mem_singleton] at hx ⊢
      rcases hx with hx | hx
      · exact h x hx
      · subst hx; exact le_refl _
    | msg q z =>
      simp only
      split_ifs
      · apply ih; exact write_prevsLe st _ h
      · apply ih; exact write_prevsLe _ _ (write_prevsLe st _ h)
    | half => apply ih; exact write_prevsLe st _ h

theorem retry_binv (st : St) (raw : Raw) (h : BInv st)
    (hn : (st.decideRetry raw).2 ≠ .noRetry) (he : (st.decideRetry raw).2 ≠ .exhausted) :
    BInv ((st.decideRetry raw).1.startRetry (st.decideRetry raw).2).1 := by
  have h3 := decideRetry_binv st raw h
  have hpol : ((st.decideRetry raw).1.startRetry (st.decideRetry raw).2).1.pol = st.pol :=
    ((startRetry_frame _ _).pol).trans (decideRetry_frame st raw).pol
  have hcs := startRetry_cs (st.decideRetry raw).1 (st.decideRetry raw).2
  rcases decideRetry_spec st raw with ⟨h1, _⟩ | ⟨a, h1, h2, ha⟩
  · exact absurd h1 hn
  · have hf := sr_other_fields st.disableRetry st.pol st.cs (attemptView a) 0
    cases hd : (st.decideRetry raw).2 with
    | noRetry => exact absurd hd hn
    | exhausted => exact absurd hd he
    | transparent =>
      rw [hd] at hcs hpol
      refine ⟨?_, ?_⟩
      · unfold St.startRetry
        apply replayAll_prevsLe
        intro x hx
        simp only at hx ⊢
        exact h3.1 x hx
      · unfold NrBound; rw [hcs, hpol]
        have e : (afterDecision (st.decideRetry raw).1.cs Decision.transparent).numRetries = st.cs.numRetries := by
          show (st.decideRetry raw).1.cs.numRetries = _
          rw [h2, hf.1]
        rw [e]; exact h.2
    | backoff dur fp =>
      rw [hd] at hcs hpol
      obtain ⟨pb, rp, _, hp, _, hlt⟩ := sr_backoff_conditions st.disableRetry st.pol st.cs (attemptView a) 0 dur fp (by rw [← h1, hd])
      refine ⟨?_, ?_⟩
      · unfold St.startRetry
        apply replayAll_prevsLe
        intro x hx
        simp only at hx ⊢
        have := h3.1 x hx
        show x.prev ≤ (st.decideRetry raw).1.cs.numRetries + 1
        omega
      · unfold NrBound; rw [hcs, hpol]
        have e : (afterDecision (st.decideRetry raw).1.cs (Decision.backoff dur fp)).numRetries = st.cs.numRetries + 1 := by
          show (st.decideRetry raw).1.cs.numRetries + 1 = _
          rw [h2, hf.1]
        rw [e]
        have := h.2.1
        exact ⟨by omega, Or.inr ⟨rp, hp, by omega⟩⟩

theorem withRetry_binv (fuel : Nat) (st : St) (op : COp) (h : BInv st) : BInv (St.withRetry fuel st op).1 := by
  apply withRetry_preserves BInv _ _ _ _ _ fuel st op h
  · exact applyOp_binv
  · intro st op h
    cases op <;> simp only [St.onSuccess]
    · exact buffer_binv _ _ _ h
    · exact buffer_binv _ _ _ h
    · exact h
    · exact h
  · exact decideRetry_binv
  · intro st h; exact h
  · exact retry_binv

/-! ### operation level -/

/-- everything that holds between two application operations -/
structure OpInv (st : St) : Prop where
  good : Good st
  size : SizeInv st
  bound : BInv st

/-- fuel that is enough for any operation of this RPC -/
def fuelFor (st : St) : Nat := 1 + (match st.pol with | some rp => rp.maxAttempts.toNat | none => 0)

theorem budget_le_fuelFor (st : St) (h : BInv st) : st.retryBudget ≤ fuelFor st := by
  unfold St.retryBudget budget fuelFor
  have := h.2.1
  cases st.pol with
  | none => split_ifs <;> simp
  | some rp => simp only; split_ifs <;> omega

theorem finish_binv (st : St) (code : Nat) (h : BInv st) : BInv (st.finish code) := by
  have h1 : BInv ({ st with cs := { st.cs with finished := true } } : St).commit := h
  have h2 := finishAttempt_binv _ code h1
  simp only [St.finish]
  split_ifs
  · exact h
  · exact h2
  · exact h2

theorem finish_size (st : St) (code : Nat) : SizeInv (st.finish code) ∨ (st.cs.finished = true ∧ st.finish code = st) := by
  simp only [St.finish]
  split_ifs with hf
  · exact Or.inr ⟨hf, rfl⟩
  · left; intro hc
    have := (finishAttempt_same (({ st with cs := { st.cs with finished := true } } : St).commit) code).cs
    simp only at hc
    rw [this] at hc; simp [St.commit] at hc
  · left; intro hc
    have := (finishAttempt_same (({ st with cs := { st.cs with finished := true } } : St).commit) code).cs
    rw [this] at hc; simp [St.commit] at hc

theorem finish_size' (st : St) (code : Nat) (h : SizeInv st) : SizeInv (st.finish code) := by
  rcases finish_size st code with h1 | ⟨_, h1⟩
  · exact h1
  · rw [h1]; exact h

theorem settle_inv (st : St) (h : OpInv st) : OpInv st.settle :=
  ⟨good_settle st h.good, h.size, ⟨react_prevsLe st h.bound.1, h.bound.2⟩⟩

theorem finish_inv (st : St) (code : Nat) (h : OpInv st) : OpInv (st.finish code) :=
  ⟨good_finish st code h.good, finish_size' st code h.size, finish_binv st code h.bound⟩

theorem endSend_inv (st : St) (res : Res) (h : OpInv st) : OpInv (st.endSend res) := by
  unfold St.endSend
  split <;> first
    | exact settle_inv _ (finish_inv _ _ h)
    | exact settle_inv _ h

theorem endRecv_inv (st : St) (res : Res) (h : OpInv st) : OpInv (st.endRecv res) := by
  unfold St.endRecv
  split <;> first
    | exact settle_inv _ (finish_inv _ _ h)
    | exact settle_inv _ h

theorem endHeader_inv (st : St) (res : Res) (h : OpInv st) : OpInv (st.endHeader res) := by
  unfold St.endHeader
  split <;> first
    | exact settle_inv _ (finish_inv _ _ h)
    | exact settle_inv _ h

/-- `withRetry` from a state prepared by an operation, with enough fuel -/
theorem withRetry_inv (fuel : Nat) (st : St) (op : COp) (hst : st.started = true)
    (hr : RInv st (st.pendOf op) (st.pendOf op)) (hs : SizeInv st) (hb : BInv st) (hf : fuelFor st ≤ fuel) :
    OpInv (St.withRetry fuel st op).1 ∧ (St.withRetry fuel st op).2.1 ≠ .outOfFuel := by
  have hne := withRetry_fuel fuel st op (le_trans (budget_le_fuelFor st hb) hf)
  rcases withRetry_good fuel st op hst hr with h | h
  · exact absurd h hne
  · exact ⟨⟨h, withRetry_size fuel st op hs, withRetry_binv fuel st op hb⟩, hne⟩

theorem fuelFor_pol (st st' : St) (h : st'.pol = st.pol) : fuelFor st' = fuelFor st := by
  unfold fuelFor; rw [h]

theorem endSend_pol (st : St) (res : Res) : (st.endSend res).pol = st.pol := by
  unfold St.endSend
  split <;> first
    | exact ((finish_frame _ _).trans (settle_frame _)).pol
    | exact (settle_frame _).pol

theorem endRecv_pol (st : St) (res : Res) : (st.endRecv res).pol = st.pol := by
  unfold St.endRecv
  split <;> first
    | exact ((finish_frame _ _).trans (settle_frame _)).pol
    | exact (settle_frame _).pol

theorem endHeader_pol (st : St) (res : Res) : (st.endHeader res).pol = st.pol := by
  unfold St.endHeader
  split <;> first
    | exact ((finish_frame _ _).trans (settle_frame _)).pol
    | exact (settle_frame _).pol

theorem opSendW_fst (fuel : Nat) (st : St) (size : Nat) :
    (st.opSendW fuel size).1 = (st.opSend fuel size).1 ∧
    ((st.opSend fuel size).2.1 ≠ .outOfFuel → (st.opSendW fuel size).2.1 ≠ .outOfFuel) := by
  unfold St.opSendW
  simp only
  split_ifs
  · exact ⟨rfl, id⟩
  · refine ⟨rfl, fun hne => ?_⟩
    simp only
    split
    · simp
    · exact hne

theorem opSend_inv (fuel : Nat) (st : St) (size : Nat) (h : OpInv st) (hf : fuelFor st ≤ fuel) :
    OpInv (st.opSend fuel size).1 ∧ (st.opSend fuel size).2.1 ≠ .outOfFuel ∧
    fuelFor (st.opSend fuel size).1 = fuelFor st := by
  unfold St.opSend
  split_ifs
  · refine ⟨settle_inv _ (finish_inv _ _ ⟨⟨⟨h.good.1.buf, h.good.1.pre, h.good.1.cur, h.good.1.once⟩, h.good.2⟩, h.size, h.bound⟩), by simp, ?_⟩
    exact fuelFor_pol _ _ (((finish_frame _ _).trans (settle_frame _)).pol)
  · obtain ⟨hi, hs⟩ := beginSend_rinv st size h.good
    obtain ⟨hw, hne⟩ := withRetry_inv fuel (st.beginSend size) (.send size) hs hi h.size h.bound hf
    refine ⟨endSend_inv _ _ hw, hne, ?_⟩
    exact fuelFor_pol _ _ ((endSend_pol _ _).trans (withRetry_frame _ _ _).pol)

theorem opRecv_inv (fuel : Nat) (s : St) (hs : OpInv s) (hfs : fuelFor s ≤ fuel) :
    OpInv (s.opRecv fuel).1 ∧ (s.opRecv fuel).2.1 ≠ .outOfFuel ∧ fuelFor (s.opRecv fuel).1 = fuelFor s := by
  unfold St.opRecv
  obtain ⟨hw, hne⟩ := withRetry_inv fuel s .recv hs.good.2 ⟨hs.good.1.buf, hs.good.1.pre, hs.good.1.cur, hs.good.1.once⟩ hs.size hs.bound hfs
  exact ⟨endRecv_inv _ _ hw, hne, fuelFor_pol _ _ ((endRecv_pol _ _).trans (withRetry_frame _ _ _).pol)⟩

theorem step_inv (fuel : Nat) (st : St) (op : AppOp) (hop : op ≠ .new) (h : OpInv st) (hf : fuelFor st ≤ fuel) :
    OpInv (st.step fuel op).1 ∧ (st.step fuel op).2.1 ≠ .outOfFuel ∧ fuelFor (st.step fuel op).1 = fuelFor st := by
  cases op with
  | new => exact absurd rfl hop
  | cancel =>
    simp only [St.step, St.opCancel]
    exact ⟨settle_inv _ (finish_inv _ _ h), by simp, fuelFor_pol _ _ (((finish_frame _ _).trans (settle_frame _)).pol)⟩
  | send size =>
    have core := opSend_inv fuel st size h hf
    have hw := opSendW_fst fuel st size
    simp only [St.step]
    rw [hw.1]
    exact ⟨core.1, hw.2 core.2.1, core.2.2⟩
  | close =>
    simp only [St.step]
    unfold St.opClose
    split_ifs
    · exact ⟨settle_inv _ h, by simp, rfl⟩
    · obtain ⟨hi, hs⟩ := beginClose_rinv st h.good
      obtain ⟨hw, _⟩ := withRetry_inv fuel st.beginClose .half hs hi h.size h.bound hf
      exact ⟨settle_inv _ hw, by simp, fuelFor_pol _ _ (((settle_frame _).pol).trans (withRetry_frame _ st.beginClose _).pol)⟩
  | recv =>
    simp only [St.step, St.opRecvW]
    have c1 := opRecv_inv fuel st h hf
    split_ifs
    · exact c1
    · split
      next n heq =>
        have c2 := opRecv_inv fuel (st.opRecv fuel).1 c1.1 (by rw [c1.2.2]; exact hf)
        refine ⟨c2.1, ?_, c2.2.2.trans c1.2.2⟩
        simp only
        split
        · simp
        · simp
        · exact c2.2.1
      · exact c1
  | header =>
    simp only [St.step]
    unfold St.opHeader
    obtain ⟨hw, hne⟩ := withRetry_inv fuel st .header h.good.2 ⟨h.good.1.buf, h.good.1.pre, h.good.1.cur, h.good.1.once⟩ h.size h.bound hf
    refine ⟨endHeader_inv _ _ hw, ?_, fuelFor_pol _ _ ((endHeader_pol _ _).trans (withRetry_frame _ _ _).pol)⟩
    simp only; split <;> simp_all

theorem opNew_inv (st : St) (ha : st.atts = []) (hr : st.replay = []) (hh : st.hist = []) (hc : st.cs.committed = false)
    (hz : st.replaySize = 0) (hn : st.cs.numRetries = 0) (hm : 0 ≤ st.maxBuf) : OpInv st.opNew.1 := by
  unfold St.opNew
  apply settle_inv
  simp only [St.newAttempt, St.buffer, hc, Bool.false_eq_true, if_false, hz, ha, hr]
  have hnot : ¬ (0 + 0 > st.maxBuf) := by omega
  simp only [hnot, if_false]
  refine ⟨⟨⟨?_, ?_, ?_, ?_⟩, rfl⟩, ?_, ⟨?_, ?_⟩⟩
  · intro _; simp [wireOf, hh]
  · intro a ha'; simp at ha'; subst ha'; simp [hh]
  · intro a hca _; simp [St.cur] at hca; subst hca; simp [hh]
  · intro _ _; simp [startsOnce]
  · intro _; simp; omega
  · intro a ha'; simp at ha'; subst ha'; simp
  · exact ⟨by simp [hn], Or.inl (by simp [hn])⟩

/-- a whole application script after `new` -/
theorem run_inv (fuel : Nat) (ops : List AppOp) (st : St) (hops : ∀ o ∈ ops, o ≠ .new) (h : OpInv st) (hf : fuelFor st ≤ fuel) :
    OpInv (St.run fuel st ops).1 ∧ (∀ r ∈ (St.run fuel st ops).2.1, r ≠ .outOfFuel) := by
  induction ops generalizing st with
  | nil => exact ⟨h, by simp [St.run]⟩
  | cons o os ih =>
    have hs := step_inv fuel st o (hops o (by simp)) h hf
    have := ih (st.step fuel o).1 (fun x hx => hops x (by simp [hx])) hs.1 (by rw [hs.2.2]; exact hf)
    simp only [St.run]
    refine ⟨this.1, ?_⟩
    intro r hr
    simp only [List.mem_cons] at hr
    rcases hr with hr | hr
    · subst hr; exact hs.2.1
    · exact this.2 r hr

/-! committed states -/

theorem finish_len_committed (st : St) (code : Nat) :
    (st.finish code).atts.length = st.atts.length ∧ (st.cs.committed = true → (st.finish code).cs.committed = true) := by
  have hl := (finishAttempt_same (({ st with cs := { st.cs with finished := true } } : St).commit) code)
  simp only [St.finish]
  split_ifs
  · exact ⟨rfl, id⟩
  · exact ⟨hl.len, fun _ => by simp only; rw [hl.cs]; rfl⟩
  · exact ⟨hl.len, fun _ => by rw [hl.cs]; rfl⟩

theorem settle_len (st : St) : st.settle.atts.length = st.atts.length := by simp [St.settle, react]

theorem end_len (st : St) (res : Res) :
    ((st.endSend res).atts.length = st.atts.length ∧ (st.cs.committed = true → (st.endSend res).cs.committed = true)) ∧
    ((st.endRecv res).atts.length = st.atts.length ∧ (st.cs.committed = true → (st.endRecv res).cs.committed = true)) ∧
    ((st.endHeader res).atts.length = st.atts.length ∧ (st.cs.committed = true → (st.endHeader res).cs.committed = true)) := by
  refine ⟨?_, ?_, ?_⟩
  · unfold St.endSend
    split <;> first
      | exact ⟨(settle_len _).trans (finish_len_committed _ _).1, fun h => (finish_len_committed _ _).2 h⟩
      | exact ⟨settle_len _, id⟩
  · unfold St.endRecv
    split <;> first
      | exact ⟨(settle_len _).trans (finish_len_committed _ _).1, fun h => (finish_len_committed _ _).2 h⟩
      | exact ⟨settle_len _, id⟩
  · unfold St.endHeader
    split <;> first
      | exact ⟨(settle_len _).trans (finish_len_committed _ _).1, fun h => (finish_len_committed _ _).2 h⟩
      | exact ⟨settle_len _, id⟩

theorem opRecv_committed (fuel : Nat) (st : St) (hc : st.cs.committed = true) :
    (st.opRecv fuel).1.atts.length = st.atts.length ∧ (st.opRecv fuel).1.cs.committed = true := by
  unfold St.opRecv
  have hw := withRetry_committed_atts fuel st .recv hc
  exact ⟨((end_len _ _).2.1.1).trans hw.1, (end_len _ _).2.1.2 hw.2⟩

/-- once committed, no operation creates another attempt, and the stream stays committed -/
theorem step_committed (fuel : Nat) (st : St) (op : AppOp) (hop : op ≠ .new) (hc : st.cs.committed = true) :
    (st.step fuel op).1.atts.length = st.atts.length ∧ (st.step fuel op).1.cs.committed = true := by
  cases op with
  | new => exact absurd rfl hop
  | cancel =>
    simp only [St.step, St.opCancel]
    exact ⟨(settle_len _).trans (finish_len_committed _ _).1, (finish_len_committed _ _).2 hc⟩
  | send size =>
    simp only [St.step]
    rw [(opSendW_fst fuel st size).1]
    unfold St.opSend
    split_ifs
    · exact ⟨(settle_len _).trans (finish_len_committed _ _).1, (finish_len_committed _ _).2 hc⟩
    · have hw := withRetry_committed_atts fuel (st.beginSend size) (.send size) hc
      exact ⟨((end_len _ _).1.1).trans hw.1, (end_len _ _).1.2 hw.2⟩
  | close =>
    simp only [St.step]
    unfold St.opClose
    split_ifs
    · exact ⟨settle_len _, hc⟩
    · have hw := withRetry_committed_atts fuel st.beginClose .half hc
      exact ⟨(settle_len _).trans hw.1, hw.2⟩
  | recv =>
    simp only [St.step, St.opRecvW]
    have c1 := opRecv_committed fuel st hc
    split_ifs
    · exact c1
    · split
      · have c2 := opRecv_committed fuel (st.opRecv fuel).1 c1.2
        exact ⟨c2.1.trans c1.1, c2.2⟩
      · exact c1
  | header =>
    simp only [St.step]
    unfold St.opHeader
    have hw := withRetry_committed_atts fuel st .header hc
    exact ⟨((end_len _ _).2.2.1).trans hw.1, (end_len _ _).2.2.2 hw.2⟩

theorem opRecv_delivery (fuel : Nat) (st : St) (h : (st.opRecv fuel).2.1.delivers = true) :
    (st.opRecv fuel).1.cs.committed = true := by
  unfold St.opRecv at h ⊢
  exact (end_len _ _).2.1.2 (withRetry_delivery_commits fuel st .recv h)

/-- an operation that hands a response header or message to the application leaves the stream committed -/
theorem step_delivery_commits (fuel : Nat) (st : St) (op : AppOp) (hop : op ≠ .new)
    (h : (st.step fuel op).2.1.delivers = true) : (st.step fuel op).1.cs.committed = true := by
  cases op with
  | new => exact absurd rfl hop
  | cancel => simp [St.step, St.opCancel, Res.delivers] at h
  | send size =>
    simp only [St.step] at h ⊢
    rw [(opSendW_fst fuel st size).1]
    unfold St.opSendW at h
    simp only at h
    have key : (st.opSend fuel size).2.1.delivers = true → (st.opSend fuel size).1.cs.committed = true := by
      intro hd
      unfold St.opSend at hd ⊢
      split_ifs at hd ⊢
      · simp [Res.delivers] at hd
      · exact (end_len _ _).1.2 (withRetry_delivery_commits fuel _ _ hd)
    split_ifs at h
    · exact key h
    · apply key
      simp only at h
      split at h
      · simp [Res.delivers] at h
      · exact h
  | close =>
    simp only [St.step] at h
    unfold St.opClose at h
    split_ifs at h <;> simp [Res.delivers] at h
  | recv =>
    simp only [St.step, St.opRecvW] at h ⊢
    split_ifs at h ⊢
    · exact opRecv_delivery fuel st h
    · cases heq : (st.opRecv fuel).2.1 with
      | msg n =>
        simp only [heq] at h ⊢
        have c1 : (st.opRecv fuel).1.cs.committed = true := opRecv_delivery fuel st (by rw [heq]; rfl)
        exact (opRecv_committed fuel _ c1).2
      | hdr => simp only [heq]; exact opRecv_delivery fuel st (by rw [heq]; rfl)
      | _ => simp [heq, Res.delivers] at h
  | header =>
    simp only [St.step] at h ⊢
    unfold St.opHeader at h ⊢
    simp only at h ⊢
    apply (end_len _ _).2.2.2
    apply withRetry_delivery_commits
    split at h
    · simp [Res.delivers] at h
    · simp [Res.delivers] at h
    · exact h

/-! ### csAttempt.finish exactly once (C23) -/

/-- Done bookkeeping: every attempt but the current one has been finished exactly once, no attempt
    more than once, and after `clientStream.finish` every attempt exactly once. -/
structure FInv (st : St) : Prop where
  older : ∀ a ∈ st.atts.dropLast, a.finishCalls = 1
  most : ∀ a ∈ st.atts, a.finishCalls ≤ 1
  fin : st.cs.finished = true → (∀ a ∈ st.atts, a.finishCalls = 1) ∧ st.cs.committed = true

theorem updCur_dropLast (st : St) (f : Att → Att) : (st.updCur f).atts.dropLast = st.atts.dropLast := by
  cases h : st.cur with
  | none => rw [updCur_none st f h]
  | some a => rw [updCur_some st f a h]; simp

/-- updating the current attempt without touching its finish count -/
theorem updCur_finv (st : St) (f : Att → Att) (hf : ∀ a, (f a).finishCalls = a.finishCalls) (h : FInv st) :
    FInv (st.updCur f) := by
  have hcs := (updCur_same st f).cs
  refine ⟨?_, ?_, ?_⟩
  · rw [updCur_dropLast]; exact h.older
  · intro x hx
    rcases mem_updCur st f x hx with hx | ⟨a, hc, rfl⟩
    · exact h.most x hx
    · rw [hf]; exact h.most a (cur_mem st a hc)
  · intro hfin
    rw [hcs] at hfin ⊢
    refine ⟨?_, (h.fin hfin).2⟩
    intro x hx
    rcases mem_updCur st f x hx with hx | ⟨a, hc, rfl⟩
    · exact (h.fin hfin).1 x hx
    · rw [hf]; exact (h.fin hfin).1 a (cur_mem st a hc)

theorem write_finv (st : St) (w : Wire) (h : FInv st) : FInv (st.write w).1 := by
  unfold St.write
  split_ifs
  · exact h
  · exact updCur_finv st _ (fun _ => rfl) h

theorem react_finv (st : St) (h : FInv st) : FInv { st with atts := react st.atts } := by
  have key : ∀ a : Att, (if (!a.answered && !a.reset && a.beh.kind != .never && a.due) = true then { a with answered := true } else a).finishCalls = a.finishCalls := by
    intro a; split_ifs <;> rfl
  refine ⟨?_, ?_, ?_⟩
  · intro x hx
    simp only [react, ← List.map_dropLast, List.mem_map] at hx
    obtain ⟨a, ha, rfl⟩ := hx
    rw [key]; exact h.older a ha
  · intro x hx
    simp only [react, List.mem_map] at hx
    obtain ⟨a, ha, rfl⟩ := hx
    rw [key]; exact h.most a ha
  · intro hfin
    refine ⟨?_, (h.fin hfin).2⟩
    intro x hx
    simp only [react, List.mem_map] at hx
    obtain ⟨a, ha, rfl⟩ := hx
    rw [key]; exact (h.fin hfin).1 a ha

theorem applyOp_finv (st : St) (op : COp) (h : FInv st) : FInv (st.applyOp op).1 := by
  cases op with
  | send size =>
    simp only [St.applyOp]
    repeat' split_ifs
    all_goals first
      | exact write_finv st _ h
      | exact write_finv _ _ (write_finv st _ h)
  | half => exact write_finv st _ h
  | recv =>
    have h1 := react_finv st h
    have h2 := updCur_finv _ (fun a => { a with respRead := 1 }) (fun _ => rfl) h1
    have h3 : FInv { ({ st with atts := react st.atts } : St).updCur (fun a => { a with respRead := 1 }) with recvFirst := true } :=
      ⟨h2.older, h2.most, h2.fin⟩
    simp only [St.applyOp]
    repeat' (first | split_ifs | split)
    all_goals first
      | exact h1
      | exact h3
  | header =>
    have h1 := react_finv st h
    simp only [St.applyOp]
    repeat' (first | split_ifs | split)
    all_goals exact h1

/-- `csAttempt.finish` on the current attempt: afterwards every attempt has been finished exactly once -/
theorem finishAttempt_all (st : St) (code : Nat) (ho : ∀ a ∈ st.atts.dropLast, a.finishCalls = 1)
    (hm : ∀ a ∈ st.atts, a.finishCalls ≤ 1) : ∀ x ∈ (st.finishAttempt code).atts, x.finishCalls = 1 := by
  intro x hx
  unfold St.finishAttempt at hx
  cases hc : st.cur with
  | none =>
    rw [updCur_none st _ hc] at hx
    have : st.atts = [] := List.getLast?_eq_none_iff.mp hc
    rw [this] at hx; cases hx
  | some a =>
    rw [updCur_some st _ a hc] at hx
    simp only [List.mem_append, List.mem_singleton] at hx
    rcases hx with hx | hx
    · exact ho x hx
    · subst hx
      by_cases hpos : a.finishCalls > 0
      · simp only [hpos, if_true]
        have := hm a (cur_mem st a hc); omega
      · simp only [hpos, if_false]

theorem finishAttempt_finv (st : St) (code : Nat) (h : FInv st) :
    FInv (st.finishAttempt code) ∧ (∀ a ∈ (st.finishAttempt code).atts, a.finishCalls = 1) := by
  have hcs := (finishAttempt_same st code).cs
  have hmem := finishAttempt_all st code h.older h.most
  refine ⟨⟨?_, ?_, ?_⟩, hmem⟩
  · intro x hx; exact hmem x (List.mem_of_mem_dropLast hx)
  · intro x hx; rw [hmem x hx]
  · intro hfin; rw [hcs] at hfin ⊢; exact ⟨hmem, (h.fin hfin).2⟩

theorem commit_finv (st : St) (h : FInv st) : FInv st.commit :=
  ⟨h.older, h.most, fun hf => ⟨(h.fin hf).1, rfl⟩⟩

theorem buffer_finv (st : St) (sz : Int) (op : ROp) (h : FInv st) : FInv (st.buffer sz op) := by
  simp only [St.buffer]
  split_ifs
  · exact h
  · exact commit_finv _ ⟨h.older, h.most, h.fin⟩
  · exact ⟨h.older, h.most, h.fin⟩

theorem sr_finished (dis : Bool) (pol : Option Policy) (cs : CS) (a : Attempt) (r : ℚ) (h : cs.finished = true) :
    (shouldRetry dis pol cs a r).2 = .noRetry := by
  unfold shouldRetry; simp [h]

theorem decideRetry_finv (st : St) (raw : Raw) (h : FInv st) :
    FInv (st.decideRetry raw).1 ∧ (∀ a ∈ (st.decideRetry raw).1.atts, a.finishCalls = 1) ∧
    (st.cs.finished = true → (st.decideRetry raw).2 = .noRetry) := by
  obtain ⟨h2, hall⟩ := finishAttempt_finv st raw.code h
  have hs := finishAttempt_same st raw.code
  simp only [St.decideRetry]
  split
  · exact ⟨h2, hall, fun _ => rfl⟩
  next a _ =>
    have hf := sr_other_fields (st.finishAttempt raw.code).disableRetry (st.finishAttempt raw.code).pol
      (st.finishAttempt raw.code).cs (attemptView a) 0
    refine ⟨⟨h2.older, h2.most, ?_⟩, hall, ?_⟩
    · intro hfin
      simp only at hfin ⊢
      rw [hf.2.1] at hfin
      rw [hf.2.2.1]
      exact h2.fin hfin
    · intro hfin
      apply sr_finished
      rw [hs.cs]; exact hfin


/-- the buffer of a started, uncommitted RPC begins with its only stream-creating op -/
def OnceInv (st : St) : Prop := st.cs.committed = false → st.atts.length ≠ 0 → startsOnce st.replay = true

theorem write_replay (st : St) (w : Wire) : (st.write w).1.replay = st.replay := by
  unfold St.write
  split_ifs
  · rfl
  · exact (updCur_same st _).replay

theorem applyOp_replay (st : St) (op : COp) : (st.applyOp op).1.replay = st.replay := by
  cases op with
  | send size =>
    simp only [St.applyOp]
    repeat' split_ifs
    all_goals first
      | exact write_replay st _
      | exact (write_replay _ _).trans (write_replay st _)
  | half => exact write_replay st _
  | recv =>
    have h2 := (updCur_same ({ st with atts := react st.atts } : St) (fun a => { a with respRead := 1 })).replay
    simp only [St.applyOp]
    repeat' (first | split_ifs | split)
    all_goals first
      | rfl
      | exact h2
  | header =>
    simp only [St.applyOp]
    repeat' (first | split_ifs | split)
    all_goals rfl

theorem replayAll_replay (st : St) : st.replayAll.1.replay = st.replay := by
  unfold St.replayAll
  generalize hr : st.replay = r
  have key : ∀ (r : List ROp) (s : St) (evs : List Ev),
      (r.foldl (fun (acc : St × List Ev) op =>
        let (s, evs) := acc
        match op with
        | .start => let (s', e) := s.newAttempt; (s', evs ++ e)
        | .msg q z =>
          let (s', _, e) := s.write (.msg q z)
          if s.clientStreams then (s', evs ++ e)
          else let (s'', _, e2) := s'.write .half; (s'', evs ++ e ++ e2)
        | .half => let (s', _, e) := s.write .half; (s', evs ++ e)) (s, evs)).1.replay = s.replay := by
    intro r
    induction r with
    | nil => intro s evs; rfl
    | cons o r ih =>
      intro s evs
      simp only [List.foldl_cons]
      cases o with
      | start => exact (ih _ _).trans rfl
      | msg q z =>
        simp only
        split_ifs
        · exact (ih _ _).trans (write_replay s _)
        · exact (ih _ _).trans ((write_replay _ _).trans (write_replay s _))
      | half => exact (ih _ _).trans (write_replay s _)
  exact (key r st []).trans hr

theorem buffer_once (st : St) (sz : Int) (op : ROp) (hop : op ≠ .start) (h : OnceInv st) : OnceInv (st.buffer sz op) := by
  simp only [St.buffer, OnceInv]
  split_ifs with hc
  · exact h
  · intro hf; simp [St.commit] at hf
  · intro _ hs
    exact startsOnce_append _ _ (h (by simpa using hc) hs) hop

/-- FInv together with OnceInv is kept by `withRetry` -/
def FO (st : St) : Prop := FInv st ∧ OnceInv st

theorem withRetry_fo (fuel : Nat) (st : St) (op : COp) (h : FO st) : FO (St.withRetry fuel st op).1 := by
  apply withRetry_preserves FO _ _ _ _ _ fuel st op h
  · intro st op h
    refine ⟨applyOp_finv st op h.1, ?_⟩
    intro hc hs
    rw [applyOp_cs] at hc; rw [(applyOp_rsize st op).2] at hs; rw [applyOp_replay]
    exact h.2 hc hs
  · intro st op h
    cases op <;> simp only [St.onSuccess]
    · exact ⟨buffer_finv _ _ _ h.1, buffer_once _ _ _ (by simp) h.2⟩
    · exact ⟨buffer_finv _ _ _ h.1, buffer_once _ _ _ (by simp) h.2⟩
    · exact ⟨commit_finv _ h.1, fun hf => by simp [St.commit] at hf⟩
    · exact ⟨commit_finv _ h.1, fun hf => by simp [St.commit] at hf⟩
  · intro st raw h
    refine ⟨(decideRetry_finv st raw h.1).1, ?_⟩
    intro hc hs
    rw [(decideRetry_keep st raw).1] at hc
    rw [(decideRetry_keep st raw).2.2] at hs
    have hrep : (st.decideRetry raw).1.replay = st.replay := by
      have := (finishAttempt_same st raw.code).replay
      simp only [St.decideRetry]; split <;> exact this
    rw [hrep]; exact h.2 hc hs
  · intro st h; exact ⟨commit_finv _ h.1, fun hf => by simp [St.commit] at hf⟩
  · intro st raw h hn he
    obtain ⟨h3, hall, hfin⟩ := decideRetry_finv st raw h.1
    have hrep : (st.decideRetry raw).1.replay = st.replay := by
      have := (finishAttempt_same st raw.code).replay
      simp only [St.decideRetry]; split <;> exact this
    -- a positive decision is only taken while uncommitted and not finished
    have hunf : st.cs.finished = false ∧ st.cs.committed = false := by
      rcases decideRetry_spec st raw with ⟨h1, _⟩ | ⟨a, h1, _, _⟩
      · exact absurd h1 hn
      · cases hd : (st.decideRetry raw).2 with
        | noRetry => exact absurd hd hn
        | exhausted => exact absurd hd he
        | transparent =>
          obtain ⟨hf, hc, _⟩ := sr_transparent_conditions st.disableRetry st.pol st.cs (attemptView a) 0 (by rw [← h1, hd])
          exact ⟨hf, hc⟩
        | backoff dur fp =>
          obtain ⟨pb, rp, hs, _⟩ := sr_backoff_conditions st.disableRetry st.pol st.cs (attemptView a) 0 dur fp (by rw [← h1, hd])
          obtain ⟨_, _, _, _, _, hf, hc, _⟩ := stage_charged_pol st.disableRetry st.pol st.cs (attemptView a) pb hs
          exact ⟨hf, hc⟩
    have hu3 : (st.decideRetry raw).1.cs.committed = false := by rw [(decideRetry_keep st raw).1]; exact hunf.2
    have hne3 : (st.decideRetry raw).1.atts.length ≠ 0 := by
      rw [(decideRetry_keep st raw).2.2]
      rcases decideRetry_spec st raw with ⟨h1, _⟩ | ⟨a, _, _, _⟩
      · exact absurd h1 hn
      · -- a current attempt exists: decideRetry found one
        intro h0
        have : st.atts = [] := List.length_eq_zero_iff.mp h0
        have hcur : (st.finishAttempt raw.code).cur = none := by
          have hl := (finishAttempt_same st raw.code).len
          rw [h0] at hl
          simp [St.cur, List.length_eq_zero_iff.mp hl]
        have : (st.decideRetry raw).2 = .noRetry := by simp only [St.decideRetry, hcur]
        exact hn this
    have hso : startsOnce (st.decideRetry raw).1.replay = true := by
      rw [hrep]
      exact h.2 hunf.2 (by rw [← (decideRetry_keep st raw).2.2]; exact hne3)
    obtain ⟨rest, hr, hns⟩ := startsOnce_split _ hso
    have hspec := replayAll_spec { (st.decideRetry raw).1 with cs := afterDecision (st.decideRetry raw).1.cs (st.decideRetry raw).2 } rest hr hns
    have hfin3 : (afterDecision (st.decideRetry raw).1.cs (st.decideRetry raw).2).finished = false := by
      have e : (afterDecision (st.decideRetry raw).1.cs (st.decideRetry raw).2).finished = (st.decideRetry raw).1.cs.finished := by
        cases (st.decideRetry raw).2 <;> rfl
      rw [e]
      cases hff : (st.decideRetry raw).1.cs.finished with
      | false => rfl
      | true =>
        have := (h3.fin hff).2
        rw [hu3] at this; cases this
    unfold St.startRetry
    rw [hspec]
    refine ⟨⟨?_, ?_, ?_⟩, ?_⟩
    · intro x hx
      simp only [List.dropLast_concat] at hx
      exact hall x hx
    · intro x hx
      simp only [List.mem_append, List.mem_singleton] at hx
      rcases hx with hx | hx
      · rw [hall x hx]
      · subst hx; simp [freshAtt]
    · intro hf; simp only at hf; rw [hfin3] at hf; cases hf
    · intro _ _
      simp only
      exact hso

theorem settle_fo (st : St) (h : FO st) : FO st.settle :=
  ⟨react_finv st h.1, fun hc hl => h.2 hc (by simpa [St.settle, react] using hl)⟩

theorem finish_fo (st : St) (code : Nat) (h : FO st) : FO (st.finish code) ∧
    (∀ a ∈ (st.finish code).atts, a.finishCalls = 1) ∧ (st.finish code).cs.finished = true := by
  by_cases hf : st.cs.finished = true
  · have : st.finish code = st := by simp [St.finish, hf]
    rw [this]; exact ⟨h, (h.1.fin hf).1, hf⟩
  · set s1 : St := ({ st with cs := { st.cs with finished := true } } : St).commit with hs1
    have hall := finishAttempt_all s1 code h.1.older h.1.most
    have hsame := finishAttempt_same s1 code
    have hcs : (s1.finishAttempt code).cs.finished = true ∧ (s1.finishAttempt code).cs.committed = true := by
      rw [hsame.cs]; exact ⟨rfl, rfl⟩
    have hfo : FO (s1.finishAttempt code) := by
      refine ⟨⟨?_, ?_, ?_⟩, ?_⟩
      · intro x hx; exact hall x (List.mem_of_mem_dropLast hx)
      · intro x hx; rw [hall x hx]
      · intro _; exact ⟨hall, hcs.2⟩
      · intro hc; rw [hcs.2] at hc; cases hc
    have hform : st.finish code = s1.finishAttempt code ∨
        st.finish code = { s1.finishAttempt code with cs := { (s1.finishAttempt code).cs with throttler := successOpt (s1.finishAttempt code).cs.throttler } } := by
      simp only [St.finish, hf, Bool.false_eq_true, if_false]
      split_ifs
      · right; rfl
      · left; rfl
    rcases hform with e | e
    · rw [e]; exact ⟨hfo, hall, hcs.1⟩
    · rw [e]
      exact ⟨⟨⟨hfo.1.older, hfo.1.most, fun _ => ⟨hall, hcs.2⟩⟩, fun hc => by simp only at hc; rw [hcs.2] at hc; cases hc⟩, hall, hcs.1⟩

theorem end_fo (st : St) (res : Res) (h : FO st) : FO (st.endSend res) ∧ FO (st.endRecv res) ∧ FO (st.endHeader res) := by
  refine ⟨?_, ?_, ?_⟩
  · unfold St.endSend
    split <;> first
      | exact settle_fo _ (finish_fo _ _ h).1
      | exact settle_fo _ h
  · unfold St.endRecv
    split <;> first
      | exact settle_fo _ (finish_fo _ _ h).1
      | exact settle_fo _ h
  · unfold St.endHeader
    split <;> first
      | exact settle_fo _ (finish_fo _ _ h).1
      | exact settle_fo _ h

theorem opRecv_fo (fuel : Nat) (st : St) (h : FO st) : FO (st.opRecv fuel).1 := by
  unfold St.opRecv
  exact (end_fo _ _ (withRetry_fo fuel st .recv h)).2.1

theorem step_fo (fuel : Nat) (st : St) (op : AppOp) (hop : op ≠ .new) (h : FO st) : FO (st.step fuel op).1 := by
  cases op with
  | new => exact absurd rfl hop
  | cancel => simp only [St.step, St.opCancel]; exact settle_fo _ (finish_fo _ _ h).1
  | send size =>
    simp only [St.step]
    rw [(opSendW_fst fuel st size).1]
    unfold St.opSend
    split_ifs
    · exact settle_fo _ (finish_fo ({ st with seq := st.seq + 1 } : St) 13 ⟨⟨h.1.older, h.1.most, h.1.fin⟩, h.2⟩).1
    · exact (end_fo _ _ (withRetry_fo fuel (st.beginSend size) _ ⟨⟨h.1.older, h.1.most, h.1.fin⟩, h.2⟩)).1
  | close =>
    simp only [St.step]
    unfold St.opClose
    split_ifs
    · exact settle_fo _ h
    · exact settle_fo _ (withRetry_fo fuel st.beginClose _ ⟨⟨h.1.older, h.1.most, h.1.fin⟩, h.2⟩)
  | recv =>
    simp only [St.step, St.opRecvW]
    split_ifs
    · exact opRecv_fo fuel st h
    · split
      · exact opRecv_fo fuel _ (opRecv_fo fuel st h)
      · exact opRecv_fo fuel st h
  | header =>
    simp only [St.step]
    unfold St.opHeader
    exact (end_fo _ _ (withRetry_fo fuel st .header h)).2.2

theorem opNew_fo (st : St) (ha : st.atts = []) (hr : st.replay = []) (hc : st.cs.committed = false)
    (hf : st.cs.finished = false) : FO st.opNew.1 := by
  unfold St.opNew
  apply settle_fo
  simp only [St.newAttempt, St.buffer, hc, Bool.false_eq_true, if_false, ha, hr]
  split_ifs
  · refine ⟨⟨by simp [St.commit], by simp [St.commit], ?_⟩, ?_⟩
    · intro hff; simp [St.commit, hf] at hff
    · intro hcc; simp [St.commit] at hcc
  · refine ⟨⟨by simp, by simp, ?_⟩, ?_⟩
    · intro hff; simp [hf] at hff
    · intro _ _; simp [startsOnce]

theorem run_fo (fuel : Nat) (ops : List AppOp) (st : St) (hops : ∀ o ∈ ops, o ≠ .new) (h : FO st) :
    FO (St.run fuel st ops).1 := by
  induction ops generalizing st with
  | nil => exact h
  | cons o os ih =>
    simp only [St.run]
    exact ih _ (fun x hx => hops x (by simp [hx])) (step_fo fuel st o (hops o (by simp)) h)

end GrpcProofs.Lemmas.RetryLoop
