/-
Helper lemmas for C18 / C23 about GrpcModel.RetryLoop: parts A (replay invariant, op(a), retryLocked pieces),
B (withRetry, frames, fuel), C (size / delivery / attempt-bound invariants), D (operation level), E (finish exactly once), F (concurrent SendMsg / RecvMsg).
-/
import GrpcProofs.Lemmas.RetryLoopF
