/-
Helper lemmas for C48 (RBAC engine part).
-/
import GrpcModel.Model.RBAC
import GrpcModel.Model.Authz
namespace GrpcProofs.Lemmas.RBAC
open GrpcModel.RBAC

/-! ### and / or over child lists -/

theorem permList_all_iff (r : Request) : (l : PermList) →
    (l.all r = true ↔ ∀ p ∈ l.toList, p.eval r = true)
  | .nil => by simp [PermList.all, PermList.toList]
  | .cons p t => by
    have ih := permList_all_iff r t
    simp only [PermList.all, PermList.toList, List.mem_cons, forall_eq_or_imp]
    cases h : p.eval r <;> simp [ih]

theorem permList_any_iff (r : Request) : (l : PermList) →
    (l.any r = true ↔ ∃ p ∈ l.toList, p.eval r = true)
  | .nil => by simp [PermList.any, PermList.toList]
  | .cons p t => by
    have ih := permList_any_iff r t
    simp only [PermList.any, PermList.toList, List.mem_cons, exists_eq_or_imp]
    cases h : p.eval r <;> simp [ih]

theorem prinList_all_iff (r : Request) : (l : PrinList) →
    (l.all r = true ↔ ∀ p ∈ l.toList, p.eval r = true)
  | .nil => by simp [PrinList.all, PrinList.toList]
  | .cons p t => by
    have ih := prinList_all_iff r t
    simp only [PrinList.all, PrinList.toList, List.mem_cons, forall_eq_or_imp]
    cases h : p.eval r <;> simp [ih]

theorem prinList_any_iff (r : Request) : (l : PrinList) →
    (l.any r = true ↔ ∃ p ∈ l.toList, p.eval r = true)
  | .nil => by simp [PrinList.any, PrinList.toList]
  | .cons p t => by
    have ih := prinList_any_iff r t
    simp only [PrinList.any, PrinList.toList, List.mem_cons, exists_eq_or_imp]
    cases h : p.eval r <;> simp [ih]

theorem permList_toList_ofList (l : List Perm) : (PermList.ofList l).toList = l := by
  induction l with
  | nil => rfl
  | cons p t ih => simp [PermList.ofList, PermList.toList, ih]

theorem prinList_toList_ofList (l : List Prin) : (PrinList.ofList l).toList = l := by
  induction l with
  | nil => rfl
  | cons p t ih => simp [PrinList.ofList, PrinList.toList, ih]

theorem permList_any_eq (r : Request) (l : PermList) : l.any r = l.toList.any (Perm.eval r) := by
  rw [Bool.eq_iff_iff, permList_any_iff]; simp

theorem prinList_any_eq (r : Request) (l : PrinList) : l.any r = l.toList.any (Prin.eval r) := by
  rw [Bool.eq_iff_iff, prinList_any_iff]; simp

theorem permList_all_eq (r : Request) (l : PermList) : l.all r = l.toList.all (Perm.eval r) := by
  rw [Bool.eq_iff_iff, permList_all_iff]; simp

theorem prinList_all_eq (r : Request) (l : PrinList) : l.all r = l.toList.all (Prin.eval r) := by
  rw [Bool.eq_iff_iff, prinList_all_iff]; simp

theorem policy_matches_eq_spec (r : Request) (p : Policy) : p.matches r = Spec.policyMatches r p := by
  simp [Policy.matches, Spec.policyMatches, permList_any_eq, prinList_any_eq]

theorem findMatch_eq_spec (r : Request) (e : Engine) : e.findMatch r = e.policies.any (Spec.policyMatches r) := by
  unfold Engine.findMatch
  congr 1
  funext p
  exact policy_matches_eq_spec r p

/-! ### the engine chain -/

theorem chainLoop_allow_iff (r : Request) (c : Chain) :
    chainLoop r c = .allow ↔
      ∀ e ∈ c, (e.action = .allow → e.findMatch r = true) ∧ (e.action = .deny → e.findMatch r = false) := by
  induction c with
  | nil => simp [chainLoop]
  | cons e t ih =>
    simp only [chainLoop, List.mem_cons, forall_eq_or_imp]
    cases ha : e.action <;> cases hm : e.findMatch r <;> simp [ih]

theorem chainLoop_ne_internal (r : Request) (c : Chain) : chainLoop r c ≠ .internal := by
  induction c with
  | nil => simp [chainLoop]
  | cons e t ih =>
    simp only [chainLoop]
    split
    · simp
    · split
      · simp
      · exact ih

theorem chainLoop_eq_spec (r : Request) (c : Chain) : chainLoop r c = Spec.decision c r := by
  induction c with
  | nil => simp [chainLoop, Spec.decision, Spec.allowed]
  | cons e t ih =>
    simp only [chainLoop, Spec.decision, Spec.allowed, List.any_cons, Spec.engineRejects, ← findMatch_eq_spec]
    simp only [Spec.decision, Spec.allowed] at ih
    cases ha : e.action <;> cases hm : e.findMatch r <;> simp [ih]

/-! ### CIDR -/

theorem shift_xor_zero_iff {w : Nat} (a b : BitVec w) (n : Nat) (hn : n ≤ w) :
    ((a ^^^ b) >>> (w - n) == 0#w) = true ↔ ∀ i, i < n → a.getMsbD i = b.getMsbD i := by
  rw [beq_iff_eq]
  constructor
  · intro h i hi
    have h1 : ((a ^^^ b) >>> (w - n)).getLsbD (w - 1 - i - (w - n)) = false := by rw [h]; simp
    rw [BitVec.getLsbD_ushiftRight] at h1
    have e : w - n + (w - 1 - i - (w - n)) = w - 1 - i := by omega
    rw [e, BitVec.getLsbD_xor] at h1
    simp only [BitVec.getMsbD]
    have hw : i < w := by omega
    simp only [hw, decide_true, Bool.true_and]
    revert h1
    cases a.getLsbD (w - 1 - i) <;> cases b.getLsbD (w - 1 - i) <;> simp
  · intro h
    apply BitVec.eq_of_getLsbD_eq
    intro i hi
    rw [BitVec.getLsbD_ushiftRight, BitVec.getLsbD_xor]
    simp only [BitVec.getLsbD_zero]
    by_cases hlt : w - n + i < w
    · have := h (w - 1 - (w - n + i)) (by omega)
      simp only [BitVec.getMsbD] at this
      have hw : w - 1 - (w - n + i) < w := by omega
      simp only [hw, decide_true, Bool.true_and] at this
      have e : w - 1 - (w - 1 - (w - n + i)) = w - n + i := by omega
      rw [e] at this
      rw [this]; simp
    · have ha : a.getLsbD (w - n + i) = false := BitVec.getLsbD_of_ge a _ (by omega)
      have hb : b.getLsbD (w - n + i) = false := BitVec.getLsbD_of_ge b _ (by omega)
      simp [ha, hb]

end GrpcProofs.Lemmas.RBAC
