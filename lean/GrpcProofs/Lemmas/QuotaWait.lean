import GrpcModel.Model.QuotaWait
/-! Helper lemmas for C17 (stream-quota waiters): reachable-state invariant, stuck ⇒ no quota,
coupling with the monitor. -/
set_option linter.unusedSimpArgs false
namespace GrpcProofs.Lemmas.QuotaWait
open GrpcModel.QuotaWait

structure Inv (s : St) : Prop where
  cnt : s.waiters.length ≤ s.waiting
  old : ∀ p ∈ s.waiters, ∀ g, p.2 = .parked g → g ≤ s.gen
  sig : s.quota > 0 → (∃ p ∈ s.waiters, p.2 = .parked s.gen) → s.token = true ∨ ∃ p ∈ s.waiters, p.2 = .retry
  nodup : (s.waiters.map (·.1)).Nodup

theorem inv_init (n : Nat) : Inv (init n) := by
  constructor <;> simp [init]

theorem lookup_mem (l : List (Nat × WSt)) (w : Nat) (st : WSt) (h : l.lookup w = some st) : (w, st) ∈ l := by
  induction l with
  | nil => simp at h
  | cons p t ih =>
    obtain ⟨a, b⟩ := p
    simp only [List.lookup_cons] at h
    split at h
    · rename_i heq
      simp at heq h
      subst heq h
      simp
    · exact List.mem_cons_of_mem _ (ih h)

theorem setW_length (l : List (Nat × WSt)) (w : Nat) (st : WSt) : (setW l w st).length = l.length := by
  simp [setW]

theorem setW_mem (l : List (Nat × WSt)) (w : Nat) (st : WSt) (p : Nat × WSt) (h : p ∈ setW l w st) :
    (p ∈ l ∧ p.1 ≠ w) ∨ p = (w, st) := by
  simp only [setW, List.mem_map] at h
  obtain ⟨q, hq, rfl⟩ := h
  by_cases hw : q.1 = w
  · simp [hw]
  · simp [hw, hq]

theorem setW_has (l : List (Nat × WSt)) (w : Nat) (st st' : WSt) (h : (w, st') ∈ l) : (w, st) ∈ setW l w st := by
  simp only [setW, List.mem_map]
  exact ⟨(w, st'), h, by simp⟩

theorem setW_keep (l : List (Nat × WSt)) (w : Nat) (st : WSt) (p : Nat × WSt) (h : p ∈ l) (hne : p.1 ≠ w) :
    p ∈ setW l w st := by
  simp only [setW, List.mem_map]
  exact ⟨p, h, by simp [hne]⟩

theorem filter_lt (l : List (Nat × WSt)) (w : Nat) (st : WSt) (h : (w, st) ∈ l) :
    (l.filter (·.1 ≠ w)).length + 1 ≤ l.length := by
  induction l with
  | nil => simp at h
  | cons p t ih =>
    simp only [List.mem_cons] at h
    by_cases hp : p.1 = w
    · rw [List.filter_cons_of_neg (by simp [hp])]
      have := List.length_filter_le (fun q : Nat × WSt => decide (q.1 ≠ w)) t
      simp only [List.length_cons]
      omega
    · have hin : (w, st) ∈ t := by
        rcases h with h | h
        · exact absurd (by rw [← h]) hp
        · exact h
      have := ih hin
      rw [List.filter_cons_of_pos (by simp [hp])]
      simp only [List.length_cons]
      omega


theorem lookup_none (l : List (Nat × WSt)) (w : Nat) (h : (l.lookup w).isSome = false) : w ∉ l.map (·.1) := by
  induction l with
  | nil => simp
  | cons p t ih =>
    obtain ⟨a, b⟩ := p
    simp only [List.lookup_cons] at h
    split at h
    · simp at h
    · rename_i hne
      simp at hne
      simp only [List.map_cons, List.mem_cons, not_or]
      exact ⟨hne, ih h⟩

theorem nodup_unique (l : List (Nat × WSt)) (w : Nat) (a b : WSt) (hn : (l.map (·.1)).Nodup)
    (ha : (w, a) ∈ l) (hb : (w, b) ∈ l) : a = b := by
  induction l with
  | nil => simp at ha
  | cons p t ih =>
    simp only [List.map_cons, List.nodup_cons] at hn
    obtain ⟨hn1, hn2⟩ := hn
    simp only [List.mem_cons] at ha hb
    rcases ha with ha | ha <;> rcases hb with hb | hb
    · rw [← ha] at hb; exact (Prod.mk.inj hb).2.symm ▸ rfl
    · exfalso; apply hn1; rw [← ha]; exact List.mem_map_of_mem (f := (·.1)) hb
    · exfalso; apply hn1; rw [← hb]; exact List.mem_map_of_mem (f := (·.1)) ha
    · exact ih hn2 ha hb

theorem setW_keys (l : List (Nat × WSt)) (w : Nat) (st : WSt) : (setW l w st).map (·.1) = l.map (·.1) := by
  simp only [setW, List.map_map]
  apply List.map_congr_left
  intro p _
  by_cases hp : p.1 = w <;> simp [hp]

theorem filter_keys_nodup (l : List (Nat × WSt)) (w : Nat) (h : (l.map (·.1)).Nodup) :
    ((l.filter (·.1 ≠ w)).map (·.1)).Nodup :=
  h.sublist ((List.filter_sublist).map _)

theorem filter_sub (l : List (Nat × WSt)) (w : Nat) (p : Nat × WSt) (h : p ∈ l.filter (·.1 ≠ w)) : p ∈ l :=
  (List.mem_filter.mp h).1

theorem baton_inv (s : St) (hcnt : s.waiters.length ≤ s.waiting)
    (hold : ∀ p ∈ s.waiters, ∀ g, p.2 = .parked g → g ≤ s.gen)
    (hnd : (s.waiters.map (·.1)).Nodup) : Inv (baton s) := by
  unfold baton
  split
  · exact ⟨hcnt, hold, fun _ _ => Or.inl rfl, hnd⟩
  · rename_i h
    refine ⟨hcnt, hold, ?_, hnd⟩
    intro hq ⟨p, hp, _⟩
    have : s.waiters.length > 0 := List.length_pos_of_mem hp
    exact absurd ⟨hq, by omega⟩ h

theorem step_inv (s : St) (o : Op) (h : Inv s) : Inv (step s o).1 := by
  obtain ⟨cnt, old, sig, nodup⟩ := h
  cases o
  case newStream w =>
    simp only [step]
    split
    · exact ⟨cnt, old, sig, nodup⟩
    · rename_i hnone
      have hnone' : (s.waiters.lookup w).isSome = false := by
        cases hh : (s.waiters.lookup w).isSome
        · rfl
        · exact absurd hh hnone
      split
      · rename_i hq
        refine ⟨?_, ?_, ?_, ?_⟩
        · simp; omega
        · intro p hp g hg
          simp at hp
          rcases hp with hp | rfl
          · exact old p hp g hg
          · cases hg; exact Nat.le_refl _
        · intro hq'; simp only at hq'; omega
        · simp only [List.map_append, List.map_cons, List.map_nil]
          rw [List.nodup_append]
          refine ⟨nodup, by simp, ?_⟩
          intro a ha b hb
          simp at hb
          subst hb
          intro he
          subst he
          exact lookup_none _ _ hnone' ha
      · exact baton_inv _ cnt old nodup
  case wake w =>
    simp only [step]
    split
    · rename_i g hl
      have hmem := lookup_mem _ _ _ hl
      have key : Inv { s with waiters := setW s.waiters w .retry } ∧
                 Inv { s with token := false, waiters := setW s.waiters w .retry } := by
        constructor <;> refine ⟨?_, ?_, ?_, ?_⟩ <;> simp only [setW_length, setW_keys]
        any_goals exact cnt
        any_goals exact nodup
        any_goals (intro p hp g' hg'
                   rcases setW_mem _ _ _ _ hp with ⟨h1, _⟩ | rfl
                   · exact old p h1 g' hg'
                   · simp at hg')
        all_goals (intro _ _; exact Or.inr ⟨(w, .retry), setW_has _ _ _ _ hmem, rfl⟩)
      split
      · exact key.1
      · split
        · exact key.2
        · exact ⟨cnt, old, sig, nodup⟩
    · exact ⟨cnt, old, sig, nodup⟩
  case retry w =>
    simp only [step]
    split
    · rename_i hl
      have hmem := lookup_mem _ _ _ hl
      split
      · rename_i hq
        refine ⟨?_, ?_, ?_, ?_⟩ <;> simp only [setW_length, setW_keys]
        · exact cnt
        · intro p hp g' hg'
          rcases setW_mem _ _ _ _ hp with ⟨h1, _⟩ | rfl
          · exact old p h1 g' hg'
          · cases hg'; exact Nat.le_refl _
        · intro hq'; omega
        · exact nodup
      · apply baton_inv
        · have := filter_lt _ _ _ hmem
          simp only
          omega
        · intro p hp g hg
          exact old p (filter_sub _ _ _ hp) g hg
        · exact filter_keys_nodup _ _ nodup
    · exact ⟨cnt, old, sig, nodup⟩
  case giveUp w =>
    simp only [step]
    split
    · rename_i g hl
      have hmem := lookup_mem _ _ _ hl
      refine ⟨?_, ?_, ?_, filter_keys_nodup _ _ nodup⟩
      · have := filter_lt _ _ _ hmem
        simp only
        omega
      · intro p hp g hg
        exact old p (filter_sub _ _ _ hp) g hg
      · intro hq ⟨p, hp, hpg⟩
        rcases sig hq ⟨p, filter_sub _ _ _ hp, hpg⟩ with ht | ⟨q, hq1, hq2⟩
        · exact Or.inl ht
        · refine Or.inr ⟨q, ?_, hq2⟩
          simp only [List.mem_filter]
          refine ⟨hq1, ?_⟩
          have : q.1 ≠ w := by
            intro he
            obtain ⟨qa, qb⟩ := q
            simp only at he hq2
            subst he hq2
            have := nodup_unique _ _ _ _ nodup hq1 hmem
            simp at this
          simpa using this
    · exact ⟨cnt, old, sig, nodup⟩
  case closeStream =>
    simp only [step]
    exact baton_inv _ cnt old nodup
  case settings d =>
    simp only [step]
    split
    · rename_i hd
      refine ⟨cnt, ?_, ?_, nodup⟩
      · intro p hp g hg
        have := old p hp g hg
        simp only; omega
      · intro _ hex
        obtain ⟨p, hp, hpg⟩ := hex
        have := old p hp (s.gen + 1) hpg
        omega
    · rename_i hd
      refine ⟨cnt, old, ?_, nodup⟩
      intro hq hex
      have hq' : s.quota + d > 0 := hq
      by_cases hd0 : d > 0
      · have hw : s.waiting = 0 := by
          apply Classical.byContradiction
          intro hn
          exact hd ⟨hd0, by show s.waiting > 0; omega⟩
        obtain ⟨p, hp, _⟩ := hex
        have : s.waiters.length > 0 := List.length_pos_of_mem hp
        omega
      · exact sig (by omega) hex

theorem run_inv (ops : List Op) (s : St) (h : Inv s) : Inv (run s ops).1 := by
  induction ops generalizing s with
  | nil => simpa [run]
  | cons o os ih => simpa [run] using ih _ (step_inv s o h)


/-- If the waiters are stuck (someone waits, nobody can move), no quota is free. -/
theorem stuck_no_quota (s : St) (h : Inv s) (hs : stuck s = true) : s.quota ≤ 0 := by
  obtain ⟨cnt, old, sig, nodup⟩ := h
  simp only [stuck, Bool.and_eq_true, Bool.not_eq_true', List.any_eq_false] at hs
  obtain ⟨hne, hall⟩ := hs
  apply Classical.byContradiction
  intro hq
  have hq' : s.quota > 0 := by omega
  cases hw : s.waiters with
  | nil => simp [hw] at hne
  | cons p t =>
    have hp : p ∈ s.waiters := by rw [hw]; simp
    have hp' := hall p hp
    have hpark : p.2 = .parked s.gen ∧ s.token = false := by
      cases hst : p.2 with
      | retry => simp [canMove, hst] at hp'
      | parked g =>
        simp [canMove, hst] at hp'
        exact ⟨by rw [hp'.1], hp'.2⟩
    rcases sig hq' ⟨p, hp, hpark.1⟩ with ht | ⟨q, hq1, hq2⟩
    · simp [hpark.2] at ht
    · have := hall q hq1
      simp [canMove, hq2] at this

def MC (s : St) (m : Mon) : Prop := m.quota = s.quota

theorem step_mc (s : St) (m : Mon) (o : Op) (hm : MC s m) :
    MC (step s o).1 (Mon.step m o (step s o).2).1 ∧ ∀ c, (Mon.step m o (step s o).2).2 ≠ .viol c := by
  obtain ⟨mq⟩ := m
  simp only [MC] at hm
  subst hm
  cases o
  case newStream w =>
    simp only [step]
    split
    · simp [Mon.step, MC]
    · split
      · simp [Mon.step, MC]
      · rename_i hq
        have : s.quota > 0 := by omega
        simp [Mon.step, MC, baton, this]
        split <;> simp
  case wake w =>
    simp only [step]
    split
    · split
      · simp [Mon.step, MC]
      · split <;> simp [Mon.step, MC]
    · simp [Mon.step, MC]
  case retry w =>
    simp only [step]
    split
    · split
      · simp [Mon.step, MC]
      · rename_i hq
        have : s.quota > 0 := by omega
        simp [Mon.step, MC, baton, this]
        split <;> simp
    · simp [Mon.step, MC]
  case giveUp w =>
    simp only [step]
    split <;> simp [Mon.step, MC]
  case closeStream =>
    simp only [step, baton]
    split <;> simp [Mon.step, MC]
  case settings d =>
    simp only [step]
    split <;> simp [Mon.step, MC]

theorem verdicts_ok (ops : List Op) (s : St) (m : Mon) (h : Inv s) (hm : MC s m) :
    ∀ v ∈ verdicts s m ops, ∀ c, v ≠ .viol c := by
  induction ops generalizing s m with
  | nil => simp [verdicts]
  | cons o os ih =>
    obtain ⟨s1, s2⟩ := step_mc s m o hm
    have hi := step_inv s o h
    intro v hv
    simp only [verdicts, List.mem_cons] at hv
    rcases hv with rfl | rfl | rfl | hv
    · exact s2
    · intro c
      simp only [Mon.quiescent]
      cases hst : stuck (step s o).1
      · simp
      · have := stuck_no_quota _ hi hst
        have hle : ¬ (Mon.step m o (step s o).2).1.quota > 0 := by rw [s1]; omega
        simp [hle]
    · intro c
      have e : (step s o).1.quota = (Mon.step m o (step s o).2).1.quota := s1.symm
      simp [Mon.ledger, e]
    · exact ih _ _ hi s1 v hv

end GrpcProofs.Lemmas.QuotaWait
