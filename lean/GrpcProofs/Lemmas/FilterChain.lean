/-
Helper lemmas for C49 (server filter chain selection).
-/
import GrpcModel.Model.FilterChain
import GrpcProofs.Lemmas.RBAC
namespace GrpcProofs.Lemmas.FilterChain
open GrpcModel.FilterChain GrpcModel.Generated

/-! ### generated constants (T4) have the values the property talks about -/

theorem noPrefixMatch_eq : fcNoPrefixMatch = -2 := by decide
theorem unspecifiedPrefixMatch_eq : fcUnspecifiedPrefixMatch = -1 := by decide
theorem stAny_eq : stAny = 0 := by decide
theorem stSame_eq : stSame = 1 := by decide
theorem stExternal_eq : stExternal = 2 := by decide

/-! ### the running-maximum loop -/

def leOpt (o : Option Int) (m : Int) : Bool := match o with
  | none => true
  | some k => decide (k ≤ m)

/-- every candidate of `l` has a size ≤ m (or none) -/
def allLe (f : Slot → Option Int) (l : List Slot) (m : Int) : Bool := l.all fun s' => leOpt (f s') m

def keep (f : Slot → Option Int) (l : List Slot) (mx : Int) (s : Slot) : Bool := match f s with
  | none => false
  | some m => decide (mx ≤ m) && allLe f l m

/-- what the loop returns, written without a loop -/
def loopSpec (f : Slot → Option Int) (l : List Slot) (mx : Int) (acc : List Slot) : List Slot :=
  (if allLe f l mx then acc else []) ++ l.filter (keep f l mx)

theorem allLe_cons (f : Slot → Option Int) (s : Slot) (rest : List Slot) (m : Int) :
    allLe f (s :: rest) m = (leOpt (f s) m && allLe f rest m) := by
  simp [allLe]

theorem bestLoop_eq (f : Slot → Option Int) : ∀ (l : List Slot) (mx : Int) (acc : List Slot),
    bestLoop f l mx acc = loopSpec f l mx acc
  | [], mx, acc => by simp [bestLoop, loopSpec, allLe]
  | s :: rest, mx, acc => by
    unfold bestLoop
    cases hf : f s with
    | none =>
      simp only []
      rw [bestLoop_eq f rest mx acc]
      unfold loopSpec
      have h1 : allLe f (s :: rest) mx = allLe f rest mx := by simp [allLe_cons, hf, leOpt]
      have h2 : keep f (s :: rest) mx s = false := by simp [keep, hf]
      have h3 : ∀ x, keep f (s :: rest) mx x = keep f rest mx x := by
        intro x; simp only [keep]; cases f x with
        | none => rfl
        | some m => simp [allLe_cons, hf, leOpt]
      rw [h1, List.filter_cons, h2]
      simp only [Bool.false_eq_true, ↓reduceIte]
      congr 1
      exact List.filter_congr (fun x _ => (h3 x).symm)
    | some m =>
      simp only []
      by_cases h1 : m < mx
      · simp only [h1, ↓reduceIte]
        rw [bestLoop_eq f rest mx acc]
        unfold loopSpec
        have e1 : allLe f (s :: rest) mx = allLe f rest mx := by
          have : m ≤ mx := Int.le_of_lt h1
          simp [allLe_cons, hf, leOpt, this]
        have e2 : keep f (s :: rest) mx s = false := by
          have : ¬ mx ≤ m := by omega
          simp [keep, hf, this]
        have e3 : ∀ x, keep f (s :: rest) mx x = keep f rest mx x := by
          intro x; simp only [keep]; cases f x with
          | none => rfl
          | some k =>
            simp only [allLe_cons, hf, leOpt]
            by_cases hk : mx ≤ k
            · have : m ≤ k := by omega
              simp [hk, this]
            · simp [hk]
        rw [e1, List.filter_cons, e2]
        simp only [Bool.false_eq_true, ↓reduceIte]
        congr 1
        exact List.filter_congr (fun x _ => (e3 x).symm)
      · simp only [h1, ↓reduceIte]
        by_cases h2 : m > mx
        · simp only [h2, ↓reduceIte]
          rw [bestLoop_eq f rest m [s]]
          unfold loopSpec
          have e1 : allLe f (s :: rest) mx = false := by
            have : ¬ m ≤ mx := by omega
            simp [allLe_cons, hf, leOpt, this]
          have e2 : keep f (s :: rest) mx s = allLe f rest m := by
            have : mx ≤ m := by omega
            simp [keep, hf, this, allLe_cons, leOpt]
          have e3 : ∀ x, keep f (s :: rest) mx x = keep f rest m x := by
            intro x; simp only [keep]; cases f x with
            | none => rfl
            | some k =>
              simp only [allLe_cons, hf, leOpt]
              by_cases hk : m ≤ k
              · have : mx ≤ k := by omega
                simp [hk, this]
              · simp [hk]
          rw [e1, List.filter_cons, e2]
          simp only [Bool.false_eq_true, ↓reduceIte, List.nil_append]
          rw [List.filter_congr (fun x _ => e3 x)]
          cases allLe f rest m <;> simp
        · have heq : m = mx := by omega
          subst heq
          simp only [h2, ↓reduceIte]
          rw [bestLoop_eq f rest m (acc ++ [s])]
          unfold loopSpec
          have e1 : allLe f (s :: rest) m = allLe f rest m := by simp [allLe_cons, hf, leOpt]
          have e2 : keep f (s :: rest) m s = allLe f rest m := by simp [keep, hf, allLe_cons, leOpt]
          have e3 : ∀ x, keep f (s :: rest) m x = keep f rest m x := by
            intro x; simp only [keep]; cases f x with
            | none => rfl
            | some k =>
              simp only [allLe_cons, hf, leOpt]
              by_cases hk : m ≤ k
              · simp [hk]
              · simp [hk]
          rw [e1, List.filter_cons, e2, List.filter_congr (fun x _ => e3 x)]
          cases allLe f rest m <;> simp

/-- the loop started at `noPrefixMatch` keeps exactly the most specific candidates, provided every match size
    is at least `unspecifiedPrefixMatch` (= -1) -/
theorem best_eq_mostSpecific (f : Slot → Option Int) (l : List Slot)
    (hf : ∀ s m, f s = some m → -1 ≤ m) : best f l = Spec.mostSpecific f l := by
  unfold best Spec.mostSpecific
  rw [bestLoop_eq, noPrefixMatch_eq]
  simp only [loopSpec, List.nil_append, ite_self]
  apply List.filter_congr
  intro x _
  simp only [keep]
  cases hx : f x with
  | none => rfl
  | some m =>
    have := hf x m hx
    have h2 : (-2 : Int) ≤ m := by omega
    simp only [h2, decide_true, Bool.true_and, allLe]
    congr 1

theorem mem_mostSpecific (f : Slot → Option Int) (l : List Slot) (s : Slot) :
    s ∈ Spec.mostSpecific f l ↔
      s ∈ l ∧ ∃ m, f s = some m ∧ ∀ s' ∈ l, ∀ k, f s' = some k → k ≤ m := by
  unfold Spec.mostSpecific
  rw [List.mem_filter]
  constructor
  · rintro ⟨hs, h⟩
    refine ⟨hs, ?_⟩
    cases hf : f s with
    | none => simp [hf] at h
    | some m =>
      refine ⟨m, rfl, ?_⟩
      simp only [hf, List.all_eq_true] at h
      intro s' hs' k hk
      have := h s' hs'
      simpa [hk] using this
  · rintro ⟨hs, m, hm, hall⟩
    refine ⟨hs, ?_⟩
    simp only [hm, List.all_eq_true]
    intro s' hs'
    cases hk : f s' with
    | none => rfl
    | some k => simpa using hall s' hs' k hk

/-! ### prefixes -/

theorem matchSize_ge (p : Pfx) (ip : IP) (m : Int) (h : matchSize p ip = some m) : -1 ≤ m := by
  unfold matchSize at h
  cases p with
  | unspec => simp [unspecifiedPrefixMatch_eq] at h; omega
  | v4 a n => simp only at h; split at h <;> simp at h; omega
  | v6 a n => simp only at h; split at h <;> simp at h; omega

def Masked : Pfx → Prop
  | .unspec => True
  | .v4 a n => n ≤ 32 ∧ maskTop a n = a
  | .v6 a n => n ≤ 128 ∧ maskTop a n = a

theorem shl_shr_cancel {w : Nat} (a : BitVec w) (k : Nat) : ((a >>> k) <<< k) >>> k = a >>> k := by
  apply BitVec.eq_of_getLsbD_eq
  intro i hi
  rw [BitVec.getLsbD_ushiftRight, BitVec.getLsbD_shiftLeft, BitVec.getLsbD_ushiftRight, BitVec.getLsbD_ushiftRight]
  have e : k + i - k = i := by omega
  rw [e]
  by_cases h : k + i < w
  · have : ¬ k + i < k := by omega
    simp [h, this]
  · have : a.getLsbD (k + i) = false := BitVec.getLsbD_of_ge a _ (by omega)
    simp [this]

theorem maskTop_idem {w : Nat} (a : BitVec w) (n : Nat) : maskTop (maskTop a n) n = maskTop a n := by
  unfold maskTop
  rw [shl_shr_cancel]

theorem parsePrefix_masked (r : RawCidr) (p : Pfx) (h : parsePrefix r = some p) : Masked p := by
  unfold parsePrefix at h
  cases r with
  | bad => simp at h
  | v4 a len =>
    simp only at h
    split at h
    · rename_i hl; simp only [Option.some.injEq] at h; subst h; exact ⟨hl, maskTop_idem a len⟩
    · simp at h
  | v6 a len =>
    simp only at h
    split at h
    · split at h
      · rename_i hl; simp only [Option.some.injEq] at h; subst h; exact ⟨hl, maskTop_idem _ len⟩
      · simp at h
    · split at h
      · rename_i hl; simp only [Option.some.injEq] at h; subst h; exact ⟨hl, maskTop_idem _ len⟩
      · simp at h

theorem parseList_masked : ∀ (rs : List RawCidr) (ps : List Pfx), parseList rs = some ps → ∀ p ∈ ps, Masked p
  | [], ps, h => by simp [parseList] at h; subst h; simp
  | r :: rs, ps, h => by
    simp only [parseList] at h
    cases hp : parsePrefix r with
    | none => simp [hp] at h
    | some p0 =>
      cases hl : parseList rs with
      | none => simp [hp, hl] at h
      | some ps0 =>
        simp only [hp, hl, Option.some.injEq] at h
        subst h
        intro p hpm
        rcases List.mem_cons.mp hpm with rfl | hpm
        · exact parsePrefix_masked r _ hp
        · exact parseList_masked rs ps0 hl p hpm

theorem parsePrefixes_masked (rs : List RawCidr) (ps : List Pfx) (h : parsePrefixes rs = some ps) :
    ∀ p ∈ ps, Masked p := by
  unfold parsePrefixes at h
  cases hl : parseList rs with
  | none => simp [hl] at h
  | some l =>
    cases l with
    | nil => simp [hl] at h; subst h; intro p hp; simp at hp; subst hp; trivial
    | cons a t =>
      simp only [hl, Option.some.injEq] at h
      subst h
      exact parseList_masked rs _ hl

theorem contains_iff_shr {w : Nat} (a b : BitVec w) (k : Nat) :
    ((a ^^^ b) >>> k == 0#w) = true ↔ a >>> k = b >>> k := by
  rw [beq_iff_eq, BitVec.ushiftRight_xor_distrib, BitVec.xor_eq_zero_iff]

/-- two masked prefixes of the same length that contain the same address are the same prefix -/
theorem masked_same_size_eq (p q : Pfx) (ip : IP) (m : Int) (hp : Masked p) (hq : Masked q)
    (h1 : matchSize p ip = some m) (h2 : matchSize q ip = some m) : p = q := by
  unfold matchSize at h1 h2
  cases p with
  | unspec =>
    cases q with
    | unspec => rfl
    | v4 a n => simp only [unspecifiedPrefixMatch_eq, Option.some.injEq] at h1; subst h1; simp only at h2; split at h2 <;> simp at h2
    | v6 a n => simp only [unspecifiedPrefixMatch_eq, Option.some.injEq] at h1; subst h1; simp only at h2; split at h2 <;> simp at h2
  | v4 a n =>
    simp only at h1
    split at h1
    · rename_i hc1
      simp only [Option.some.injEq] at h1
      cases q with
      | unspec => simp only [unspecifiedPrefixMatch_eq, Option.some.injEq] at h2; omega
      | v4 a' n' =>
        simp only at h2
        split at h2
        · rename_i hc2
          simp only [Option.some.injEq] at h2
          have hn : n = n' := by omega
          subst hn
          cases ip with
          | v4 b =>
            simp only [Pfx.contains] at hc1 hc2
            have e1 := (contains_iff_shr a b (32 - n)).mp hc1
            have e2 := (contains_iff_shr a' b (32 - n)).mp hc2
            have : maskTop a n = maskTop a' n := by unfold maskTop; rw [e1, e2]
            rw [hp.2, hq.2] at this
            rw [this]
          | v6 b => simp [Pfx.contains] at hc1
        · simp at h2
      | v6 a' n' =>
        simp only at h2
        split at h2
        · rename_i hc2
          cases ip with
          | v4 b => simp [Pfx.contains] at hc2
          | v6 b => simp [Pfx.contains] at hc1
        · simp at h2
    · simp at h1
  | v6 a n =>
    simp only at h1
    split at h1
    · rename_i hc1
      simp only [Option.some.injEq] at h1
      cases q with
      | unspec => simp only [unspecifiedPrefixMatch_eq, Option.some.injEq] at h2; omega
      | v6 a' n' =>
        simp only at h2
        split at h2
        · rename_i hc2
          simp only [Option.some.injEq] at h2
          have hn : n = n' := by omega
          subst hn
          cases ip with
          | v6 b =>
            simp only [Pfx.contains] at hc1 hc2
            have e1 := (contains_iff_shr a b (128 - n)).mp hc1
            have e2 := (contains_iff_shr a' b (128 - n)).mp hc2
            have : maskTop a n = maskTop a' n := by unfold maskTop; rw [e1, e2]
            rw [hp.2, hq.2] at this
            rw [this]
          | v4 b => simp [Pfx.contains] at hc1
        · simp at h2
      | v4 a' n' =>
        simp only at h2
        split at h2
        · rename_i hc2
          cases ip with
          | v4 b => simp [Pfx.contains] at hc1
          | v6 b => simp [Pfx.contains] at hc2
        · simp at h2
    · simp at h1

/-! ### validated tables are well formed -/

def SameKey (a b : Slot) : Prop := a.dst = b.dst ∧ a.st = b.st ∧ a.src = b.src ∧ a.port = b.port

/-- no two leaves under the same (destination prefix, source type, source prefix, port) key -/
def KeysDistinct (l : List Slot) : Prop := l.Pairwise fun a b => ¬ SameKey a b

def AllMasked (l : List Slot) : Prop := ∀ s ∈ l, Masked s.dst ∧ Masked s.src

def WF (t : Table) : Prop := KeysDistinct t.slots ∧ AllMasked t.slots

theorem addPorts_wf (d : Pfx) (st : Nat) (s : Pfx) (id : Nat) (hd : Masked d) (hs : Masked s) :
    ∀ (ps : List Nat) (t t' : Table), addPorts d st s id ps t = .ok t' → WF t → WF t'
  | [], t, t', h, hw => by simp [addPorts] at h; subst h; exact hw
  | p :: ps, t, t', h, hw => by
    simp only [addPorts] at h
    split at h
    · simp at h
    · rename_i hany
      refine addPorts_wf d st s id hd hs ps _ t' h ?_
      constructor
      · show KeysDistinct (t.slots ++ [⟨d, st, s, p, id⟩])
        unfold KeysDistinct
        rw [List.pairwise_append]
        refine ⟨hw.1, by simp, ?_⟩
        intro a ha b hb
        simp only [List.mem_singleton] at hb
        subst hb
        intro hk
        apply hany
        rw [List.any_eq_true]
        exact ⟨a, ha, by simp [sameKey, hk.1, hk.2.1, hk.2.2.1, hk.2.2.2]⟩
      · intro x hx
        rcases List.mem_append.mp hx with hx | hx
        · exact hw.2 x hx
        · simp only [List.mem_singleton] at hx; subst hx; exact ⟨hd, hs⟩

theorem addSrcs_wf (d : Pfx) (st : Nat) (id : Nat) (ports : List Nat) (hd : Masked d) :
    ∀ (ss : List Pfx) (t t' : Table), (∀ s ∈ ss, Masked s) → addSrcs d st id ports ss t = .ok t' → WF t → WF t'
  | [], t, t', _, h, hw => by simp [addSrcs] at h; subst h; exact hw
  | s :: ss, t, t', hm, h, hw => by
    simp only [addSrcs] at h
    cases hp : addPorts d st s id (portKeys ports) t with
    | error e => simp [hp] at h
    | ok t1 =>
      simp only [hp] at h
      exact addSrcs_wf d st id ports hd ss t1 t' (fun x hx => hm x (List.mem_cons_of_mem _ hx)) h
        (addPorts_wf d st s id hd (hm s (by simp)) _ t t1 hp hw)

theorem wf_wipe (t : Table) (d : Pfx) (hw : WF t) :
    WF { slots := t.slots.filter (fun x => x.dst != d), rawSeen := d :: t.rawSeen } :=
  ⟨List.Pairwise.filter _ hw.1, fun s hs => hw.2 s (List.mem_filter.mp hs).1⟩

theorem addForDst_wf (c : ChainCfg) (id : Nat) (d : Pfx) (hd : Masked d) (t t' : Table)
    (h : addForDst c id d t = .ok t') (hw : WF t) : WF t' := by
  unfold addForDst at h
  split at h
  · simp at h; subst h; exact hw
  · split at h
    · simp at h; subst h; exact hw
    · split at h
      · simp at h; subst h; exact hw
      · simp only at h
        have hw1 : ∀ (b : Prop) [Decidable b], WF (if b
            then { slots := t.slots.filter (fun x => x.dst != d), rawSeen := d :: t.rawSeen } else t) := by
          intro b _
          split
          · exact wf_wipe t d hw
          · exact hw
        split at h
        · simp at h; subst h; exact hw1 _
        · split at h
          · simp at h
          · cases hp : parsePrefixes c.src with
            | none => simp [hp] at h
            | some ss =>
              simp only [hp] at h
              exact addSrcs_wf d c.srcType id c.ports hd ss _ t' (parsePrefixes_masked _ _ hp) h (hw1 _)

theorem addDsts_wf (c : ChainCfg) (id : Nat) :
    ∀ (ds : List Pfx) (t t' : Table), (∀ d ∈ ds, Masked d) → addDsts c id ds t = .ok t' → WF t → WF t'
  | [], t, t', _, h, hw => by simp [addDsts] at h; subst h; exact hw
  | d :: ds, t, t', hm, h, hw => by
    simp only [addDsts] at h
    cases hp : addForDst c id d t with
    | error e => simp [hp] at h
    | ok t1 =>
      simp only [hp] at h
      exact addDsts_wf c id ds t1 t' (fun x hx => hm x (List.mem_cons_of_mem _ hx)) h
        (addForDst_wf c id d (hm d (by simp)) t t1 hp hw)

theorem addChain_wf (c : ChainCfg) (id : Nat) (t t' : Table) (h : addChain c id t = .ok t') (hw : WF t) : WF t' := by
  unfold addChain at h
  split at h
  · simp at h; subst h; exact hw
  · cases hp : parsePrefixes c.dst with
    | none => simp [hp] at h
    | some ds =>
      simp only [hp] at h
      exact addDsts_wf c id ds t t' (parsePrefixes_masked _ _ hp) h hw

theorem addChains_wf : ∀ (cs : List ChainCfg) (id : Nat) (t t' : Table), addChains cs id t = .ok t' → WF t → WF t'
  | [], _, t, t', h, hw => by simp [addChains] at h; subst h; exact hw
  | c :: cs, id, t, t', h, hw => by
    simp only [addChains] at h
    cases hp : addChain c id t with
    | error e => simp [hp] at h
    | ok t1 =>
      simp only [hp] at h
      exact addChains_wf cs (id + 1) t1 t' h (addChain_wf c id t t1 hp hw)

theorem build_wf (hasDefault : Bool) (cs : List ChainCfg) (t : Table) (h : build hasDefault cs = .ok t) : WF t := by
  unfold build at h
  cases hp : addChains cs 0 ⟨[], []⟩ with
  | error e => simp [hp] at h
  | ok t1 =>
    simp only [hp] at h
    split at h
    · simp at h
    · simp only [Except.ok.injEq] at h
      subst h
      exact addChains_wf cs 0 _ t1 hp ⟨List.Pairwise.nil, by intro s hs; simp at hs⟩

/-! ### lookup = stage-wise narrowing -/

theorem mostSpecific_sub (f : Slot → Option Int) (l : List Slot) : ∀ s ∈ Spec.mostSpecific f l, s ∈ l := by
  intro s hs; exact ((mem_mostSpecific f l s).mp hs).1

/-- all survivors of a most-specific stage have the same size -/
theorem mostSpecific_same_size (f : Slot → Option Int) (l : List Slot) (a b : Slot)
    (ha : a ∈ Spec.mostSpecific f l) (hb : b ∈ Spec.mostSpecific f l) :
    ∃ m, f a = some m ∧ f b = some m := by
  obtain ⟨hal, ma, hma, halla⟩ := (mem_mostSpecific f l a).mp ha
  obtain ⟨hbl, mb, hmb, hallb⟩ := (mem_mostSpecific f l b).mp hb
  have h1 := halla b hbl mb hmb
  have h2 := hallb a hal ma hma
  have : ma = mb := by omega
  subst this
  exact ⟨ma, hma, hmb⟩

theorem stage1_eq (t : Table) (c : Conn) :
    (if c.wild then best (fun s => matchSize s.dst c.dst) t.slots else t.slots) = Spec.stage1 t c := by
  unfold Spec.stage1
  split
  · exact best_eq_mostSpecific _ _ (fun s m h => matchSize_ge _ _ _ h)
  · rfl

theorem srcTypeOf_ne_any (c : Conn) : srcTypeOf c ≠ stAny := by
  unfold srcTypeOf
  split <;> simp [stAny_eq, stSame_eq, stExternal_eq]

theorem bySourceType_eq (ty : Nat) (l : List Slot) :
    bySourceType ty l = l.filter fun s => s.st == ty || (s.st == stAny && l.all (·.st != ty)) := by
  unfold bySourceType
  split
  · rename_i hany
    apply List.filter_congr
    intro x _
    have : l.all (·.st != ty) = false := by
      rw [List.all_eq_false]
      obtain ⟨y, hy, hyt⟩ := List.any_eq_true.mp hany
      exact ⟨y, hy, by simpa using hyt⟩
    simp [this]
  · rename_i hany
    have hall : l.all (·.st != ty) = true := by
      rw [List.all_eq_true]
      intro y hy
      have : ¬ (y.st == ty) = true := fun h => hany (List.any_eq_true.mpr ⟨y, hy, h⟩)
      simpa using this
    apply List.filter_congr
    intro x hx
    have hx' := (List.all_eq_true.mp hall) x hx
    simp only [hall, Bool.and_true]
    have : (x.st == ty) = false := by simpa using hx'
    simp [this]

theorem stage2_eq (t : Table) (c : Conn) : bySourceType (srcTypeOf c) (Spec.stage1 t c) = Spec.stage2 t c := by
  rw [bySourceType_eq]
  rfl

theorem stage3_eq (t : Table) (c : Conn) :
    best (fun s => matchSize s.src c.src) (Spec.stage2 t c) = Spec.stage3 t c := by
  unfold Spec.stage3
  exact best_eq_mostSpecific _ _ (fun s m h => matchSize_ge _ _ _ h)

theorem stage1_sub (t : Table) (c : Conn) : ∀ s ∈ Spec.stage1 t c, s ∈ t.slots := by
  intro s hs
  unfold Spec.stage1 at hs
  split at hs
  · exact mostSpecific_sub _ _ s hs
  · exact hs

theorem stage2_sub (t : Table) (c : Conn) : ∀ s ∈ Spec.stage2 t c, s ∈ Spec.stage1 t c := by
  intro s hs
  unfold Spec.stage2 at hs
  exact (List.mem_filter.mp hs).1

theorem stage3_sub (t : Table) (c : Conn) : ∀ s ∈ Spec.stage3 t c, s ∈ Spec.stage2 t c :=
  fun s hs => mostSpecific_sub _ _ s hs

theorem keysDistinct_mostSpecific (f : Slot → Option Int) (l : List Slot) (h : KeysDistinct l) :
    KeysDistinct (Spec.mostSpecific f l) := List.Pairwise.filter _ h

theorem keysDistinct_stage3 (t : Table) (c : Conn) (h : KeysDistinct t.slots) : KeysDistinct (Spec.stage3 t c) := by
  apply keysDistinct_mostSpecific
  unfold Spec.stage2
  apply List.Pairwise.filter
  unfold Spec.stage1
  split
  · exact keysDistinct_mostSpecific _ _ h
  · exact h

/-- after the source-type stage every candidate has the same source type -/
theorem stage2_same_st (t : Table) (c : Conn) (a b : Slot) (ha : a ∈ Spec.stage2 t c) (hb : b ∈ Spec.stage2 t c) :
    a.st = b.st := by
  unfold Spec.stage2 at ha hb
  obtain ⟨ha1, ha2⟩ := List.mem_filter.mp ha
  obtain ⟨hb1, hb2⟩ := List.mem_filter.mp hb
  simp only [Bool.or_eq_true, beq_iff_eq, Bool.and_eq_true, List.all_eq_true, bne_iff_ne, ne_eq] at ha2 hb2
  rcases ha2 with ha2 | ⟨ha2, ha3⟩ <;> rcases hb2 with hb2 | ⟨hb2, hb3⟩
  · rw [ha2, hb2]
  · exact absurd ha2 (hb3 a ha1)
  · exact absurd hb2 (ha3 b hb1)
  · rw [ha2, hb2]

/-- on a wildcard listener all candidates left after the destination stage carry the same destination prefix -/
theorem stage1_same_dst (t : Table) (c : Conn) (hm : AllMasked t.slots) (hw : c.wild = true) (a b : Slot)
    (ha : a ∈ Spec.stage1 t c) (hb : b ∈ Spec.stage1 t c) : a.dst = b.dst := by
  have hat := stage1_sub t c a ha
  have hbt := stage1_sub t c b hb
  unfold Spec.stage1 at ha hb
  simp only [hw, ↓reduceIte] at ha hb
  obtain ⟨m, h1, h2⟩ := mostSpecific_same_size _ _ a b ha hb
  exact masked_same_size_eq _ _ _ m (hm a hat).1 (hm b hbt).1 h1 h2

theorem stage3_same_src (t : Table) (c : Conn) (hm : AllMasked t.slots) (a b : Slot)
    (ha : a ∈ Spec.stage3 t c) (hb : b ∈ Spec.stage3 t c) : a.src = b.src := by
  have hat := stage1_sub t c a (stage2_sub t c a (stage3_sub t c a ha))
  have hbt := stage1_sub t c b (stage2_sub t c b (stage3_sub t c b hb))
  unfold Spec.stage3 at ha hb
  obtain ⟨m, h1, h2⟩ := mostSpecific_same_size _ _ a b ha hb
  exact masked_same_size_eq _ _ _ m (hm a hat).2 (hm b hbt).2 h1 h2

/-- a list with pairwise different ports: filtering on a port leaves what `find?` finds -/
theorem filter_port_eq_find (l : List Slot) (h : l.Pairwise fun a b => a.port ≠ b.port) (p : Nat) :
    l.filter (·.port == p) = (match l.find? (·.port == p) with | some s => [s] | none => []) := by
  induction l with
  | nil => simp
  | cons x rest ih =>
    rw [List.pairwise_cons] at h
    rw [List.filter_cons, List.find?_cons]
    by_cases hx : x.port = p
    · have : ∀ y ∈ rest, (y.port == p) = false := by
        intro y hy
        have := h.1 y hy
        simp only [beq_eq_false_iff_ne, ne_eq]
        rw [← hx]
        exact fun e => this e.symm
      have hf : rest.filter (·.port == p) = [] := by
        rw [List.filter_eq_nil_iff]
        intro y hy
        simp [this y hy]
      simp [hx, hf]
    · have : (x.port == p) = false := by simpa using hx
      simp only [this, Bool.false_eq_true, ↓reduceIte]
      exact ih h.2

/-- the port stage on one port map -/
theorem stage4_of_distinct_ports (l : List Slot) (h : l.Pairwise fun a b => a.port ≠ b.port) (p : Nat) :
    (l.filter fun s => s.port == p || (s.port == 0 && l.all (·.port != p))) =
      (match byPort p l with
        | some _ => (match l.find? (·.port == p) with
            | some s => [s]
            | none => (match l.find? (·.port == 0) with | some s => [s] | none => []))
        | none => []) ∧
    (byPort p l = (match l.find? (·.port == p) with
        | some s => some s.chain
        | none => (l.find? (·.port == 0)).map (·.chain))) := by
  refine ⟨?_, rfl⟩
  unfold byPort
  cases hf : l.find? (·.port == p) with
  | some s =>
    simp only []
    have hs := List.find?_some hf
    have hmem := List.mem_of_find?_eq_some hf
    have hall : l.all (·.port != p) = false := by
      rw [List.all_eq_false]
      exact ⟨s, hmem, by simpa using hs⟩
    have : (l.filter fun s => s.port == p || (s.port == 0 && l.all (·.port != p))) = l.filter (·.port == p) := by
      apply List.filter_congr; intro x _; simp [hall]
    rw [this, filter_port_eq_find l h p, hf]
  | none =>
    have hnone : ∀ x ∈ l, (x.port == p) = false := by
      intro x hx
      have := List.find?_eq_none.mp hf x hx
      simpa using this
    have hall : l.all (·.port != p) = true := by
      rw [List.all_eq_true]; intro x hx; simpa using hnone x hx
    have : (l.filter fun s => s.port == p || (s.port == 0 && l.all (·.port != p))) = l.filter (·.port == 0) := by
      apply List.filter_congr; intro x hx; simp [hall, hnone x hx]
    rw [this, filter_port_eq_find l h 0]
    cases l.find? (·.port == 0) <;> simp

def fallback (hasDefault : Bool) : Res := if hasDefault then .dflt else .none

theorem select_of_nil (t : Table) (d : Bool) (c : Conn) (h : Spec.stage4 t c = []) :
    Spec.select t d c = fallback d := by
  simp [Spec.select, h, fallback]

theorem stage4_nil_of_stage3_nil (t : Table) (c : Conn) (h : Spec.stage3 t c = []) : Spec.stage4 t c = [] := by
  simp [Spec.stage4, h]

theorem stage3_nil_of_stage2_nil (t : Table) (c : Conn) (h : Spec.stage2 t c = []) : Spec.stage3 t c = [] := by
  simp [Spec.stage3, h, Spec.mostSpecific]

theorem stage2_nil_of_stage1_nil (t : Table) (c : Conn) (h : Spec.stage1 t c = []) : Spec.stage2 t c = [] := by
  simp [Spec.stage2, h]

/-- lookup in terms of the stages -/
theorem lookup_unfold (t : Table) (d : Bool) (c : Conn) :
    lookup t d c =
      if (Spec.stage1 t c).isEmpty then fallback d else
      if (Spec.stage2 t c).isEmpty then fallback d else
      match Spec.stage3 t c with
      | [] => fallback d
      | h :: _ =>
        if (Spec.stage3 t c).all (fun s => s.dst == h.dst && s.src == h.src) then
          match byPort c.port (Spec.stage3 t c) with
          | some id => .chain id
          | none => fallback d
        else .multiple := by
  unfold lookup
  simp only [stage1_eq, stage2_eq, stage3_eq, fallback]
  rfl

/-- **Main lemma.**  On a well-formed table lookup is the stage-wise narrowing, except that on a listener not bound
    to the wildcard address it may answer `multiple`. -/
theorem lookup_eq_select (t : Table) (d : Bool) (c : Conn) (hw : WF t) :
    lookup t d c = Spec.select t d c ∨ (c.wild = false ∧ lookup t d c = .multiple) := by
  rw [lookup_unfold]
  by_cases h1 : (Spec.stage1 t c).isEmpty = true
  · left
    have e1 : Spec.stage1 t c = [] := by simpa using h1
    simp only [h1, ↓reduceIte]
    exact (select_of_nil t d c (stage4_nil_of_stage3_nil t c (stage3_nil_of_stage2_nil t c
      (stage2_nil_of_stage1_nil t c e1)))).symm
  · simp only [h1, Bool.false_eq_true, ↓reduceIte]
    by_cases h2 : (Spec.stage2 t c).isEmpty = true
    · left
      have e2 : Spec.stage2 t c = [] := by simpa using h2
      simp only [h2, ↓reduceIte]
      exact (select_of_nil t d c (stage4_nil_of_stage3_nil t c (stage3_nil_of_stage2_nil t c e2))).symm
    · simp only [h2, Bool.false_eq_true, ↓reduceIte]
      cases h3 : Spec.stage3 t c with
      | nil =>
        left
        exact (select_of_nil t d c (stage4_nil_of_stage3_nil t c h3)).symm
      | cons hd tl =>
        simp only []
        by_cases hall : (hd :: tl).all (fun s => s.dst == hd.dst && s.src == hd.src) = true
        · left
          simp only [hall, ↓reduceIte]
          -- all candidates are in one (destination, source prefix) entry and have one source type: ports differ
          have hkd := keysDistinct_stage3 t c hw.1
          rw [h3] at hkd
          have hports : (hd :: tl).Pairwise fun a b => a.port ≠ b.port := by
            refine List.Pairwise.imp_of_mem ?_ hkd
            intro a b ha hb hk hp
            apply hk
            have ha' := (List.all_eq_true.mp hall) a ha
            have hb' := (List.all_eq_true.mp hall) b hb
            simp only [Bool.and_eq_true, beq_iff_eq] at ha' hb'
            have hst : a.st = b.st := stage2_same_st t c a b
              (stage3_sub t c a (by rw [h3]; exact ha)) (stage3_sub t c b (by rw [h3]; exact hb))
            exact ⟨by rw [ha'.1, hb'.1], hst, by rw [ha'.2, hb'.2], hp⟩
          obtain ⟨hs4, hbp⟩ := stage4_of_distinct_ports (hd :: tl) hports c.port
          unfold Spec.select Spec.stage4
          simp only [h3]
          rw [hs4, hbp]
          cases hf : (hd :: tl).find? (·.port == c.port) with
          | some s => simp
          | none =>
            cases hf0 : (hd :: tl).find? (·.port == 0) with
            | some s => simp
            | none => simp [fallback]
        · simp only [hall, Bool.false_eq_true, ↓reduceIte]
          right
          refine ⟨?_, trivial⟩
          cases hwild : c.wild with
          | false => rfl
          | true =>
            exfalso
            apply hall
            rw [List.all_eq_true]
            intro x hx
            have hx3 : x ∈ Spec.stage3 t c := by rw [h3]; exact hx
            have hh3 : hd ∈ Spec.stage3 t c := by rw [h3]; simp
            have e1 := stage1_same_dst t c hw.2 hwild x hd
              (stage2_sub t c x (stage3_sub t c x hx3)) (stage2_sub t c hd (stage3_sub t c hd hh3))
            have e2 := stage3_same_src t c hw.2 x hd hx3 hh3
            simp [e1, e2]

/-! ### every slot of a validated table comes from a filter chain's match criteria -/

/-- slot `x` is one (destination prefix, source type, source prefix, port) combination of chain `c`, and `c`
    uses no unsupported match field -/
def FromChain (c : ChainCfg) (x : Slot) : Prop :=
  c.dstPort = false ∧ c.serverNames = false ∧ c.tp < 2 ∧ c.alpn = false ∧ c.srcType < 3 ∧ x.st = c.srcType ∧
  (∃ ds, parsePrefixes c.dst = some ds ∧ x.dst ∈ ds) ∧ (∃ ss, parsePrefixes c.src = some ss ∧ x.src ∈ ss) ∧
  x.port ∈ portKeys c.ports

theorem addPorts_mem (d : Pfx) (st : Nat) (s : Pfx) (id : Nat) :
    ∀ (ps : List Nat) (t t' : Table), addPorts d st s id ps t = .ok t' →
      ∀ x ∈ t'.slots, x ∈ t.slots ∨ (x.dst = d ∧ x.st = st ∧ x.src = s ∧ x.port ∈ ps ∧ x.chain = id)
  | [], t, t', h, x, hx => by simp [addPorts] at h; subst h; exact Or.inl hx
  | p :: ps, t, t', h, x, hx => by
    simp only [addPorts] at h
    split at h
    · simp at h
    · rcases addPorts_mem d st s id ps _ t' h x hx with h1 | ⟨a, b, c, e, f⟩
      · rcases List.mem_append.mp h1 with h1 | h1
        · exact Or.inl h1
        · simp only [List.mem_singleton] at h1
          subst h1
          exact Or.inr ⟨rfl, rfl, rfl, by simp, rfl⟩
      · exact Or.inr ⟨a, b, c, List.mem_cons_of_mem _ e, f⟩

theorem addSrcs_mem (d : Pfx) (st : Nat) (id : Nat) (ports : List Nat) :
    ∀ (ss : List Pfx) (t t' : Table), addSrcs d st id ports ss t = .ok t' →
      ∀ x ∈ t'.slots, x ∈ t.slots ∨ (x.dst = d ∧ x.st = st ∧ x.src ∈ ss ∧ x.port ∈ portKeys ports ∧ x.chain = id)
  | [], t, t', h, x, hx => by simp [addSrcs] at h; subst h; exact Or.inl hx
  | s :: ss, t, t', h, x, hx => by
    simp only [addSrcs] at h
    cases hp : addPorts d st s id (portKeys ports) t with
    | error e => simp [hp] at h
    | ok t1 =>
      simp only [hp] at h
      rcases addSrcs_mem d st id ports ss t1 t' h x hx with h1 | ⟨a, b, c, e, f⟩
      · rcases addPorts_mem d st s id _ t t1 hp x h1 with h2 | ⟨a, b, c, e, f⟩
        · exact Or.inl h2
        · exact Or.inr ⟨a, b, by simp [c], e, f⟩
      · exact Or.inr ⟨a, b, List.mem_cons_of_mem _ c, e, f⟩

theorem addForDst_mem (c : ChainCfg) (id : Nat) (d : Pfx) (t t' : Table) (h : addForDst c id d t = .ok t') :
    ∀ x ∈ t'.slots, x ∈ t.slots ∨
      (c.serverNames = false ∧ c.tp < 2 ∧ c.alpn = false ∧ c.srcType < 3 ∧ x.dst = d ∧ x.st = c.srcType ∧
        (∃ ss, parsePrefixes c.src = some ss ∧ x.src ∈ ss) ∧ x.port ∈ portKeys c.ports ∧ x.chain = id) := by
  intro x hx
  unfold addForDst at h
  split at h
  · simp at h; subst h; exact Or.inl hx
  · rename_i hsn
    split at h
    · simp at h; subst h; exact Or.inl hx
    · rename_i htp
      split at h
      · simp at h; subst h; exact Or.inl hx
      · simp only at h
        have hsub : ∀ (b : Prop) [Decidable b], ∀ y ∈ (if b
            then ({ slots := t.slots.filter (fun x => x.dst != d), rawSeen := d :: t.rawSeen } : Table) else t).slots,
            y ∈ t.slots := by
          intro b _ y hy
          split at hy
          · exact (List.mem_filter.mp hy).1
          · exact hy
        split at h
        · simp at h; subst h; exact Or.inl (hsub _ x hx)
        · rename_i halpn
          split at h
          · simp at h
          · rename_i hst
            cases hp : parsePrefixes c.src with
            | none => simp [hp] at h
            | some ss =>
              simp only [hp] at h
              rcases addSrcs_mem d c.srcType id c.ports ss _ t' h x hx with h1 | ⟨a, b, e, f, g⟩
              · exact Or.inl (hsub _ x h1)
              · refine Or.inr ⟨by simpa using hsn, by omega, by simpa using halpn, by omega, a, b, ⟨ss, rfl, e⟩, f, g⟩

theorem addDsts_mem (c : ChainCfg) (id : Nat) :
    ∀ (ds : List Pfx) (t t' : Table), addDsts c id ds t = .ok t' →
      ∀ x ∈ t'.slots, x ∈ t.slots ∨
        (c.serverNames = false ∧ c.tp < 2 ∧ c.alpn = false ∧ c.srcType < 3 ∧ x.dst ∈ ds ∧ x.st = c.srcType ∧
          (∃ ss, parsePrefixes c.src = some ss ∧ x.src ∈ ss) ∧ x.port ∈ portKeys c.ports ∧ x.chain = id)
  | [], t, t', h, x, hx => by simp [addDsts] at h; subst h; exact Or.inl hx
  | d :: ds, t, t', h, x, hx => by
    simp only [addDsts] at h
    cases hp : addForDst c id d t with
    | error e => simp [hp] at h
    | ok t1 =>
      simp only [hp] at h
      rcases addDsts_mem c id ds t1 t' h x hx with h1 | ⟨a, b, e, f, g, r⟩
      · rcases addForDst_mem c id d t t1 hp x h1 with h2 | ⟨a, b, e, f, g, r⟩
        · exact Or.inl h2
        · exact Or.inr ⟨a, b, e, f, by simp [g], r⟩
      · exact Or.inr ⟨a, b, e, f, List.mem_cons_of_mem _ g, r⟩

theorem addChain_mem (c : ChainCfg) (id : Nat) (t t' : Table) (h : addChain c id t = .ok t') :
    ∀ x ∈ t'.slots, x ∈ t.slots ∨ (FromChain c x ∧ x.chain = id) := by
  intro x hx
  unfold addChain at h
  split at h
  · simp at h; subst h; exact Or.inl hx
  · rename_i hdp
    cases hp : parsePrefixes c.dst with
    | none => simp [hp] at h
    | some ds =>
      simp only [hp] at h
      rcases addDsts_mem c id ds t t' h x hx with h1 | ⟨a, b, e, f, g, r1, r2, r3, r4⟩
      · exact Or.inl h1
      · exact Or.inr ⟨⟨by simpa using hdp, a, b, e, f, r1, ⟨ds, hp, g⟩, r2, r3⟩, r4⟩

theorem addChains_mem : ∀ (cs : List ChainCfg) (id : Nat) (t t' : Table), addChains cs id t = .ok t' →
    ∀ x ∈ t'.slots, x ∈ t.slots ∨ ∃ k c, cs[k]? = some c ∧ x.chain = id + k ∧ FromChain c x
  | [], _, t, t', h, x, hx => by simp [addChains] at h; subst h; exact Or.inl hx
  | c :: cs, id, t, t', h, x, hx => by
    simp only [addChains] at h
    cases hp : addChain c id t with
    | error e => simp [hp] at h
    | ok t1 =>
      simp only [hp] at h
      rcases addChains_mem cs (id + 1) t1 t' h x hx with h1 | ⟨k, c', hk, hc, hf⟩
      · rcases addChain_mem c id t t1 hp x h1 with h2 | ⟨hf, hc⟩
        · exact Or.inl h2
        · exact Or.inr ⟨0, c, by simp, by simpa using hc, hf⟩
      · exact Or.inr ⟨k + 1, c', by simpa using hk, by omega, hf⟩

theorem build_sound (hasDefault : Bool) (cs : List ChainCfg) (t : Table) (h : build hasDefault cs = .ok t) :
    ∀ x ∈ t.slots, ∃ c, cs[x.chain]? = some c ∧ FromChain c x := by
  unfold build at h
  cases hp : addChains cs 0 ⟨[], []⟩ with
  | error e => simp [hp] at h
  | ok t1 =>
    simp only [hp] at h
    split at h
    · simp at h
    · simp only [Except.ok.injEq] at h
      subst h
      intro x hx
      rcases addChains_mem cs 0 _ t1 hp x hx with h1 | ⟨k, c, hk, hc, hf⟩
      · simp at h1
      · exact ⟨c, by rw [hc]; simpa using hk, hf⟩

theorem ite_some_iff (p : Prop) [Decidable p] (v : Int) :
    ((if p then some v else none) = some v ↔ p) ∧ ((if p then some v else none) = none ↔ ¬ p) := by
  by_cases h : p <;> simp [h]

end GrpcProofs.Lemmas.FilterChain
