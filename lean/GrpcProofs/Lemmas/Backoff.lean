/-
Helper lemmas for C20 (GrpcModel/Model/Backoff.lean).
-/
import GrpcModel.Model.Backoff
import Mathlib.Tactic.Linarith
import Mathlib.Tactic.Positivity
import Mathlib.Tactic.Ring
import Mathlib.Tactic.NormNum
import Mathlib.Algebra.Order.Field.Rat
namespace GrpcProofs.Lemmas.Backoff
open GrpcModel.Backoff

/-! ### the saturating conversion -/

theorem satConv_mono {x y : Rat} (h : x ≤ y) : satConv x ≤ satConv y := by
  unfold satConv
  split <;> split
  · exact Int.le_refl _
  · rename_i h1 h2; exact absurd (le_trans h1 h) h2
  · rename_i h1 h2
    have : x < two63 := lt_of_not_ge h1
    have h3 : x.floor < (9223372036854775808 : Int) := Rat.floor_lt_iff.mpr (by simpa [two63] using this)
    simp only [maxInt64]; omega
  · exact Rat.floor_monotone h

theorem satConv_nonneg {x : Rat} (h : 0 ≤ x) : 0 ≤ satConv x := by
  unfold satConv
  split
  · decide
  · exact Rat.le_floor_iff.mpr (by simpa using h)

theorem satConv_le_max (x : Rat) : satConv x ≤ maxInt64 := by
  unfold satConv
  split
  · exact Int.le_refl _
  · rename_i h1
    have : x < two63 := lt_of_not_ge h1
    have h3 : x.floor < (9223372036854775808 : Int) := Rat.floor_lt_iff.mpr (by simpa [two63] using this)
    simp only [maxInt64]; omega

theorem satConv_of_lt {x : Rat} (h : x < two63) : satConv x = x.floor := by
  unfold satConv; rw [if_neg (not_le.mpr h)]

theorem satConv_of_ge {x : Rat} (h : two63 ≤ x) : satConv x = maxInt64 := by
  unfold satConv; rw [if_pos h]

/-! ### the growth loop -/

theorem clampMax_eq_min (b max : Rat) : clampMax b max = min b max := by
  unfold clampMax
  split
  · rename_i h; exact (min_eq_right (le_of_lt h)).symm
  · rename_i h; exact (min_eq_left (not_lt.mp h)).symm

/-- With `0 ≤ b`, `1 ≤ mult` the loop followed by the clamp computes `min (b·mult^n) max`. -/
theorem grow_min (mult max : Rat) (hm : 1 ≤ mult) :
    ∀ (n : Nat) (b : Rat), 0 ≤ b → min (grow mult max n b) max = min (b * mult ^ n) max := by
  intro n
  induction n with
  | zero => intro b _; simp [grow]
  | succ n ih =>
    intro b hb
    unfold grow
    split
    · have hb' : 0 ≤ b * mult := mul_nonneg hb (le_trans zero_le_one hm)
      rw [ih (b * mult) hb', pow_succ]
      congr 1; ring
    · rename_i hge
      have hge : max ≤ b := not_lt.mp hge
      have h1 : (1 : Rat) ≤ mult ^ (n + 1) := one_le_pow₀ hm
      have h2 : b ≤ b * mult ^ (n + 1) := by
        calc b = b * 1 := by ring
          _ ≤ b * mult ^ (n + 1) := mul_le_mul_of_nonneg_left h1 hb
      rw [min_eq_right hge, min_eq_right (le_trans hge h2)]

theorem core_eq_target (c : Config) (n : Nat) (hb : 0 ≤ c.base) (hm : 1 ≤ c.mult) :
    core c n = target c n := by
  unfold core target
  rw [clampMax_eq_min]
  exact grow_min c.mult c.maxDelay hm n c.base (by exact_mod_cast hb)

theorem target_nonneg (c : Config) (n : Nat) (hb : 0 ≤ c.base) (hx : 0 ≤ c.maxDelay) (hm : 1 ≤ c.mult) :
    0 ≤ target c n := by
  unfold target
  apply le_min
  · exact mul_nonneg (by exact_mod_cast hb) (pow_nonneg (le_trans zero_le_one hm) n)
  · exact_mod_cast hx

/-! ### Backoff value -/

theorem backoffWith_zero (conv : Rat → Int) (c : Config) (r : Rat) : backoffWith conv c 0 r = c.base := by
  simp [backoffWith]

theorem backoffSat_nonneg_of_ne (c : Config) (n : Int) (r : Rat) (hn : n ≠ 0) : 0 ≤ backoffSat c n r := by
  unfold backoffSat backoffWith
  rw [if_neg hn]
  simp only
  split
  · exact Int.le_refl 0
  · rename_i h; exact satConv_nonneg (not_lt.mp h)

theorem factor_bounds (j r : Rat) (hj0 : 0 ≤ j) (hr0 : 0 ≤ r) (hr1 : r ≤ 1) :
    1 - j ≤ 1 + j * (r * 2 - 1) ∧ 1 + j * (r * 2 - 1) ≤ 1 + j := by
  constructor <;> nlinarith

theorem band (c : Config) (n : Nat) (r : Rat) (hb : 0 ≤ c.base) (hx : 0 ≤ c.maxDelay) (hm : 1 ≤ c.mult)
    (hj0 : 0 ≤ c.jitter) (hj1 : c.jitter ≤ 1) (hn : 1 ≤ n) (hr0 : 0 ≤ r) (hr1 : r ≤ 1) :
    satConv ((1 - c.jitter) * target c n) ≤ backoffSat c n r ∧
    backoffSat c n r ≤ satConv ((1 + c.jitter) * target c n) := by
  have hne : (n : Int) ≠ 0 := by omega
  have hm0 := target_nonneg c n hb hx hm
  obtain ⟨f1, f2⟩ := factor_bounds c.jitter r hj0 hr0 hr1
  have hf0 : 0 ≤ 1 + c.jitter * (r * 2 - 1) := le_trans (by linarith) f1
  unfold backoffSat backoffWith
  rw [if_neg hne]
  simp only [Int.toNat_natCast]
  rw [core_eq_target c n hb hm]
  have hnn : ¬ target c n * (1 + c.jitter * (r * 2 - 1)) < 0 := not_lt.mpr (mul_nonneg hm0 hf0)
  rw [if_neg hnn]
  constructor
  · apply satConv_mono
    calc (1 - c.jitter) * target c n = target c n * (1 - c.jitter) := by ring
      _ ≤ target c n * (1 + c.jitter * (r * 2 - 1)) := mul_le_mul_of_nonneg_left f1 hm0
  · apply satConv_mono
    calc target c n * (1 + c.jitter * (r * 2 - 1)) ≤ target c n * (1 + c.jitter) := mul_le_mul_of_nonneg_left f2 hm0
      _ = (1 + c.jitter) * target c n := by ring

/-! ### addrConn pacing -/

/-- Readiness: any attempt from this state (before a reset) starts at or after `u`. -/
def Ready (s : AC) (t0 u : Int) : Prop :=
  u ≤ t0 ∨ ∃ u' b', s.phase = .backoff u' b' ∧ u ≤ u'

theorem notBefore_trace (u : Int) : ∀ (ins : List In) (s : AC) (t0 : Int),
    Mono t0 ins → Ready s t0 u → notBefore u (trace s ins) = true := by
  intro ins
  induction ins with
  | nil => intro s t0 _ _; simp [trace, notBefore]
  | cons i is ih =>
    intro s t0 hmono hready
    obtain ⟨ht, hrest⟩ := hmono
    simp only [trace]
    cases i with
    | connect now bo =>
      simp only [In.time] at ht hrest
      unfold acStep
      cases hp : s.phase with
      | idle =>
        simp only [List.cons_append, List.nil_append, notBefore, Bool.and_eq_true, decide_eq_true_eq]
        have hu : u ≤ now := by
          rcases hready with h | ⟨u', b', h, _⟩
          · omega
          · rw [hp] at h; cases h
        exact ⟨hu, ih _ now hrest (Or.inl hu)⟩
      | connecting b =>
        simp only [List.nil_append]
        refine ih _ now hrest ?_
        rcases hready with h | ⟨u', b', h, _⟩
        · exact Or.inl (by omega)
        · rw [hp] at h; cases h
      | backoff u' b' =>
        simp only [List.nil_append]
        refine ih _ now hrest ?_
        rcases hready with h | ⟨u'', b'', h, hu⟩
        · exact Or.inl (by omega)
        · exact Or.inr ⟨u'', b'', h, hu⟩
      | ready =>
        simp only [List.nil_append]
        refine ih _ now hrest ?_
        rcases hready with h | ⟨u', b', h, _⟩
        · exact Or.inl (by omega)
        · rw [hp] at h; cases h
    | dialFailed now =>
      simp only [In.time] at ht hrest
      unfold acStep
      cases hp : s.phase with
      | connecting b =>
        simp only [List.cons_append, List.nil_append, notBefore]
        refine ih _ now hrest ?_
        rcases hready with h | ⟨u', b', h, _⟩
        · exact Or.inl (by omega)
        · rw [hp] at h; cases h
      | idle =>
        simp only [List.nil_append]
        refine ih _ now hrest ?_
        rcases hready with h | ⟨u', b', h, _⟩
        · exact Or.inl (by omega)
        · rw [hp] at h; cases h
      | backoff u' b' =>
        simp only [List.nil_append]
        refine ih _ now hrest ?_
        rcases hready with h | ⟨u'', b'', h, hu⟩
        · exact Or.inl (by omega)
        · exact Or.inr ⟨u'', b'', h, hu⟩
      | ready =>
        simp only [List.nil_append]
        refine ih _ now hrest ?_
        rcases hready with h | ⟨u', b', h, _⟩
        · exact Or.inl (by omega)
        · rw [hp] at h; cases h
    | dialOk now =>
      simp only [In.time] at ht hrest
      unfold acStep
      cases hp : s.phase with
      | connecting b =>
        simp only [List.cons_append, List.nil_append, notBefore]
        refine ih _ now hrest ?_
        rcases hready with h | ⟨u', b', h, _⟩
        · exact Or.inl (by omega)
        · rw [hp] at h; cases h
      | idle =>
        simp only [List.nil_append]
        refine ih _ now hrest ?_
        rcases hready with h | ⟨u', b', h, _⟩
        · exact Or.inl (by omega)
        · rw [hp] at h; cases h
      | backoff u' b' =>
        simp only [List.nil_append]
        refine ih _ now hrest ?_
        rcases hready with h | ⟨u'', b'', h, hu⟩
        · exact Or.inl (by omega)
        · exact Or.inr ⟨u'', b'', h, hu⟩
      | ready =>
        simp only [List.nil_append]
        refine ih _ now hrest ?_
        rcases hready with h | ⟨u', b', h, _⟩
        · exact Or.inl (by omega)
        · rw [hp] at h; cases h
    | timer now =>
      simp only [In.time] at ht hrest
      unfold acStep
      cases hp : s.phase with
      | backoff u' b' =>
        simp only
        split
        · rename_i hle
          simp only [List.nil_append]
          refine ih _ now hrest (Or.inl ?_)
          rcases hready with h | ⟨u'', b'', h, hu⟩
          · omega
          · rw [hp] at h; cases h; omega
        · simp only [List.nil_append]
          refine ih _ now hrest ?_
          rcases hready with h | ⟨u'', b'', h, hu⟩
          · exact Or.inl (by omega)
          · exact Or.inr ⟨u'', b'', h, hu⟩
      | idle =>
        simp only [List.nil_append]
        refine ih _ now hrest ?_
        rcases hready with h | ⟨u', b', h, _⟩
        · exact Or.inl (by omega)
        · rw [hp] at h; cases h
      | connecting b =>
        simp only [List.nil_append]
        refine ih _ now hrest ?_
        rcases hready with h | ⟨u', b', h, _⟩
        · exact Or.inl (by omega)
        · rw [hp] at h; cases h
      | ready =>
        simp only [List.nil_append]
        refine ih _ now hrest ?_
        rcases hready with h | ⟨u', b', h, _⟩
        · exact Or.inl (by omega)
        · rw [hp] at h; cases h
    | resetBackoff now =>
      unfold acStep
      cases hp : s.phase <;> simp [notBefore]
    | connLost now =>
      simp only [In.time] at ht hrest
      unfold acStep
      cases hp : s.phase with
      | ready =>
        simp only [List.nil_append]
        refine ih _ now hrest ?_
        rcases hready with h | ⟨u', b', h, _⟩
        · exact Or.inl (by omega)
        · rw [hp] at h; cases h
      | idle =>
        simp only [List.nil_append]
        refine ih _ now hrest ?_
        rcases hready with h | ⟨u', b', h, _⟩
        · exact Or.inl (by omega)
        · rw [hp] at h; cases h
      | backoff u' b' =>
        simp only [List.nil_append]
        refine ih _ now hrest ?_
        rcases hready with h | ⟨u'', b'', h, hu⟩
        · exact Or.inl (by omega)
        · exact Or.inr ⟨u'', b'', h, hu⟩
      | connecting b =>
        simp only [List.nil_append]
        refine ih _ now hrest ?_
        rcases hready with h | ⟨u', b', h, _⟩
        · exact Or.inl (by omega)
        · rw [hp] at h; cases h

    | updateAddrs now bo =>
      simp only [In.time] at ht hrest
      unfold acStep
      cases hp : s.phase with
      | idle =>
        simp only [List.nil_append]
        refine ih _ now hrest ?_
        rcases hready with h | ⟨u', b', h, _⟩
        · exact Or.inl (by omega)
        · rw [hp] at h; cases h
      | backoff u' b' =>
        simp only [List.nil_append]
        refine ih _ now hrest ?_
        rcases hready with h | ⟨u'', b'', h, hu⟩
        · exact Or.inl (by omega)
        · exact Or.inr ⟨u'', b'', h, hu⟩
      | connecting b =>
        simp only [List.cons_append, List.nil_append, notBefore, Bool.and_eq_true, decide_eq_true_eq]
        have hu : u ≤ now := by
          rcases hready with h | ⟨u', b', h, _⟩
          · omega
          · rw [hp] at h; cases h
        exact ⟨hu, ih _ now hrest (Or.inl hu)⟩
      | ready =>
        simp only [List.cons_append, List.nil_append, notBefore, Bool.and_eq_true, decide_eq_true_eq]
        have hu : u ≤ now := by
          rcases hready with h | ⟨u', b', h, _⟩
          · omega
          · rw [hp] at h; cases h
        exact ⟨hu, ih _ now hrest (Or.inl hu)⟩

theorem paced_trace : ∀ (ins : List In) (s : AC) (t0 : Int), Mono t0 ins → paced (trace s ins) = true := by
  intro ins
  induction ins with
  | nil => intro s t0 _; simp [trace, paced]
  | cons i is ih =>
    intro s t0 hmono
    obtain ⟨ht, hrest⟩ := hmono
    simp only [trace]
    cases i with
    | dialFailed now =>
      simp only [In.time] at ht hrest
      unfold acStep
      cases hp : s.phase with
      | connecting b =>
        simp only [List.cons_append, List.nil_append, paced, Bool.and_eq_true]
        refine ⟨notBefore_trace (now + b) is _ now hrest (Or.inr ⟨now + b, b, rfl, Int.le_refl _⟩), ih _ now hrest⟩
      | idle => simpa using ih _ now hrest
      | backoff u' b' => simpa using ih _ now hrest
      | ready => simpa using ih _ now hrest
    | connect now bo =>
      simp only [In.time] at ht hrest
      unfold acStep
      cases hp : s.phase <;> simpa [paced] using ih _ now hrest
    | dialOk now =>
      simp only [In.time] at ht hrest
      unfold acStep
      cases hp : s.phase <;> simpa [paced] using ih _ now hrest
    | timer now =>
      simp only [In.time] at ht hrest
      unfold acStep
      cases hp : s.phase with
      | backoff u' b' =>
        simp only
        split <;> simpa [paced] using ih _ now hrest
      | idle => simpa using ih _ now hrest
      | connecting b => simpa using ih _ now hrest
      | ready => simpa using ih _ now hrest
    | resetBackoff now =>
      simp only [In.time] at ht hrest
      unfold acStep
      cases hp : s.phase <;> simpa [paced] using ih _ now hrest
    | connLost now =>
      simp only [In.time] at ht hrest
      unfold acStep
      cases hp : s.phase <;> simpa [paced] using ih _ now hrest

    | updateAddrs now bo =>
      simp only [In.time] at ht hrest
      unfold acStep
      cases hp : s.phase <;> simpa [paced] using ih _ now hrest

/-- Failure counter matching the state: in backoff the failure is already counted but the
    index is incremented only when the timer fires. -/
def cnt (s : AC) : Nat := match s.phase with | .backoff _ _ => s.idx + 1 | _ => s.idx

theorem idxOk_trace : ∀ (ins : List In) (s : AC), idxOk (cnt s) (trace s ins) = true := by
  intro ins
  induction ins with
  | nil => intro s; simp [trace, idxOk]
  | cons i is ih =>
    intro s
    simp only [trace]
    cases i with
    | connect now bo =>
      unfold acStep
      cases hp : s.phase with
      | idle =>
        have := ih { s with phase := .connecting bo }
        simp only [cnt, hp] at this ⊢
        simpa [idxOk] using this
      | connecting b => simpa using ih s
      | backoff u b => simpa using ih s
      | ready => simpa using ih s
    | dialFailed now =>
      unfold acStep
      cases hp : s.phase with
      | connecting b =>
        have := ih { s with phase := .backoff (now + b) b }
        simp only [cnt, hp] at this ⊢
        simpa [idxOk] using this
      | idle => simpa using ih s
      | backoff u b => simpa using ih s
      | ready => simpa using ih s
    | dialOk now =>
      unfold acStep
      cases hp : s.phase with
      | connecting b =>
        have := ih { idx := 0, phase := .ready }
        simp only [cnt] at this
        simpa [idxOk] using this
      | idle => simpa using ih s
      | backoff u b => simpa using ih s
      | ready => simpa using ih s
    | timer now =>
      unfold acStep
      cases hp : s.phase with
      | backoff u b =>
        simp only
        split
        · have := ih { idx := s.idx + 1, phase := .idle }
          simp only [cnt, hp] at this ⊢
          simpa using this
        · simpa using ih s
      | idle => simpa using ih s
      | connecting b => simpa using ih s
      | ready => simpa using ih s
    | resetBackoff now =>
      unfold acStep
      cases hp : s.phase with
      | backoff u b =>
        have := ih { idx := 0, phase := .idle }
        simp only [cnt] at this
        simpa [idxOk] using this
      | idle =>
        have := ih { s with idx := 0 }
        simp only [cnt, hp] at this
        simpa [idxOk] using this
      | connecting b =>
        have := ih { s with idx := 0 }
        simp only [cnt, hp] at this
        simpa [idxOk] using this
      | ready =>
        have := ih { s with idx := 0 }
        simp only [cnt, hp] at this
        simpa [idxOk] using this
    | connLost now =>
      unfold acStep
      cases hp : s.phase with
      | ready =>
        have := ih { s with phase := .idle }
        simp only [cnt, hp] at this ⊢
        simpa using this
      | idle => simpa using ih s
      | backoff u b => simpa using ih s
      | connecting b => simpa using ih s

    | updateAddrs now bo =>
      unfold acStep
      cases hp : s.phase with
      | idle => simpa using ih s
      | backoff u b => simpa using ih s
      | connecting b =>
        have := ih { s with phase := .connecting bo }
        simp only [cnt, hp] at this ⊢
        simpa [idxOk] using this
      | ready =>
        have := ih { s with phase := .connecting bo }
        simp only [cnt, hp] at this ⊢
        simpa [idxOk] using this

end GrpcProofs.Lemmas.Backoff
