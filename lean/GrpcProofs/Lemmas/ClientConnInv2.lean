import GrpcProofs.Lemmas.ClientConnInv
/-! `Inv` is preserved by every event (`inv_step`), hence holds in every reachable state. -/
namespace GrpcProofs.Lemmas.ClientConn
open GrpcModel.ClientConn

theorem inv_connOnData {s : State} (h : Inv s) (n : Nat) : Inv (s.connOnData n) := by
  unfold State.connOnData; splits; all_goals inv_leaf

theorem inv_handleData {s : State} (h : Inv s) (sid size dl : Nat) (p es : Bool) : Inv (s.handleData sid size dl p es) := by
  unfold State.handleData
  have h' := inv_connOnData h size
  generalize s.connOnData size = t at h' ⊢
  clear h
  splits
  all_goals inv_leaf

theorem inv_handleRST {s : State} (h : Inv s) (sid code : Nat) : Inv (s.handleRST sid code) := by
  unfold State.handleRST; splits; all_goals inv_leaf

theorem inv_handleSettings {s : State} (h : Inv s) (ack : Bool) (ss : List (Nat × Nat)) : Inv (s.handleSettings ack ss) := by
  unfold State.handleSettings; splits
  all_goals inv_leaf

theorem inv_markVictims {s : State} (h : Inv s) (id up : Nat) : Inv (s.markVictims id up) := by
  obtain ⟨a, b', c, d, e, f, g, k⟩ := h
  unfold State.markVictims
  have hget : ∀ (j : Nat) (y : Strm), (s.streams.map fun x => if isVictim id up x then markF x else x)[j]? = some y →
      ∃ x, s.streams[j]? = some x ∧ y.term = x.term ∧ y.inActive = x.inActive ∧ y.inSnapshot = x.inSnapshot ∧ y.nonGRPC = x.nonGRPC := by
    intro j y hy
    simp only [List.getElem?_map] at hy
    cases hx : s.streams[j]? with
    | none => simp [hx] at hy
    | some x =>
      simp [hx] at hy
      refine ⟨x, rfl, ?_⟩
      subst hy
      split <;> simp [markF]
  refine ⟨a, b', c, d, ?_, ?_, ?_, ?_⟩
  · intro j y hy ht
    obtain ⟨x, hx, h1, h2, h3, _⟩ := hget j y hy
    have := e j x hx (h1 ▸ ht)
    rw [h2, h3]; exact this
  · intro j id' r cc hm
    obtain ⟨x, hx, hs⟩ := f j id' r cc hm
    refine ⟨if isVictim id up x then markF x else x, by simp [hx], ?_⟩
    split <;> simp [markF, hs]
  · intro j y t hy ht
    obtain ⟨x, hx, h1, _⟩ := hget j y hy
    exact g j x t hx (h1 ▸ ht)
  · intro j y cc l hy hn
    obtain ⟨x, hx, _, _, _, h4⟩ := hget j y hy
    exact k j x cc l hx (h4 ▸ hn)

theorem inv_closeVictims {s : State} (h : Inv s) (id up n : Nat) : Inv (s.closeVictims id up n) := by
  induction n with
  | zero => exact h
  | succ n ih =>
    unfold State.closeVictims
    simp only []
    splits
    all_goals inv_leaf

theorem inv_closeSnapshot {s : State} (h : Inv s) (n : Nat) : Inv (s.closeSnapshot n) := by
  induction n with
  | zero => exact h
  | succ n ih =>
    unfold State.closeSnapshot
    simp only []
    splits
    all_goals inv_leaf

theorem inv_orphanQueued {s : State} (h : Inv s) (l : List Item) : Inv (s.orphanQueued l) := by
  induction l generalizing s with
  | nil => exact h
  | cons it rest ih =>
    cases it <;> simp only [State.orphanQueued] <;> (try exact ih h)
    exact ih (h.orphan _ _ cUnavailable_le)

/-- leaving `reachable` for `draining` (GOAWAY received / GracefulClose) -/
theorem Inv.toDraining {s : State} (h : Inv s) (hc : s.tstate ≠ .closing) : Inv { s with tstate := TState.draining } := by
  obtain ⟨a, b', c, d, e, f, g, k⟩ := h
  have hnone : s.closeP = .none := by
    cases hp : s.closeP with
    | none => rfl
    | _ => exact absurd (a.mpr (by simp [hp])) hc
  refine ⟨?_, ?_, c, d, ?_, f, g, k⟩
  · simp [hnone]
  · intro hr; exact absurd (b' hr) hc
  · intro i x hx ht
    have := e i x hx ht
    exact ⟨fun _ => this.1 hc, fun hcl => by simp at hcl⟩

theorem inv_goAwayFirst {s : State} (h : Inv s) (code : Nat) (d : Bytes) (hc : s.tstate ≠ .closing) : Inv (s.goAwayFirst code d) := by
  unfold State.goAwayFirst
  simp only []
  generalize (if (code = h2EnhanceYourCalm && d = b "too_many_pings") = true then 2 else 1) = r
  have h1 : Inv ({ s with reason := r, goAwayClosed := true } : State) := Inv.aux h rfl rfl rfl rfl rfl rfl rfl
  split
  · exact Inv.notify (Inv.toDraining h1 hc) _ _ _
  · exact h1

theorem inv_goAwayKill {s : State} (h : Inv s) (id up : Nat) : Inv (s.goAwayKill id up).1 := by
  unfold State.goAwayKill
  simp only []
  split
  · inv_record; exact h
  · simp only []
    apply inv_closeVictims
    apply inv_markVictims
    inv_record; exact h

theorem inv_handleGoAway {s : State} (h : Inv s) (id code : Nat) (d : Bytes) : Inv (s.handleGoAway id code d).1 := by
  unfold State.handleGoAway
  splits
  all_goals first
    | exact h
    | (inv_record; exact h)
    | exact inv_goAwayKill h ..
    | (simp only []; apply Inv.putOther (hit := by intros; simp); apply inv_goAwayKill; apply inv_goAwayFirst h; assumption)

/-- the body of `Close`'s first critical section, from a state that is not closing; needs everything of
`Inv` except `rd` (so that it also applies right after the reader set `readerDone`) -/
theorem closeP1_core (t : State) (htc : t.tstate ≠ .closing)
    (a : t.tstate = .closing ↔ t.closeP ≠ .none)
    (e' : ∀ (i : Nat) (x : Strm), t.streams[i]? = some x → x.term = none →
      (t.tstate ≠ .closing → x.inActive = true) ∧ (t.tstate = .closing → x.inSnapshot = true ∧ t.closeP ≠ .done))
    (f : ∀ (i id : Nat) (r : Bool) (c : Nat), Item.cleanup i id r c ∈ t.cbuf → ∃ x : Strm, t.streams[i]? = some x ∧ x.term.isSome = true)
    (g : ∀ (i : Nat) (x : Strm) (tt : Term), t.streams[i]? = some x → x.term = some tt → LegalTerm tt)
    (k : ∀ (i : Nat) (x : Strm) (c l : Nat), t.streams[i]? = some x → x.nonGRPC = some (c, l) → c ≤ 16) :
    Inv ({ (({ t with tstate := TState.closing, streams := t.streams.map snapF } : State).put .outGoAway) with
          closeP := .waitWriter ((({ t with tstate := TState.closing, streams := t.streams.map snapF } : State).put .outGoAway).now + 5000) }) := by
  have hnone : t.closeP = .none := by
    cases hp : t.closeP with
    | none => rfl
    | _ => exact absurd (a.mpr (by simp [hp])) htc
  have hnow : (({ t with tstate := TState.closing, streams := t.streams.map snapF } : State).put .outGoAway).now = t.now := by
    unfold State.put; split <;> rfl
  have hst : (({ t with tstate := TState.closing, streams := t.streams.map snapF } : State).put .outGoAway).streams = t.streams.map snapF := by
    simp
  constructor
  · simp
  · simp
  · simp
  · intro tt htt; simp at htt; subst htt; rw [hnow]; exact Nat.le_refl _
  · intro i x hx ht
    simp only [hst, List.getElem?_map] at hx
    cases hy : t.streams[i]? with
    | none => simp [hy] at hx
    | some y =>
      simp [hy] at hx; subst hx
      have hty : y.term = none := by simpa [snapF] using ht
      have := (e' i y hy hty).1 htc
      simp [snapF, this]
  · intro i id r cc hm
    have hm' : Item.cleanup i id r cc ∈ t.cbuf := by
      unfold State.put at hm
      split at hm
      · exact hm
      · simp at hm; exact hm
    obtain ⟨x, hx, hs⟩ := f i id r cc hm'
    refine ⟨snapF x, by simp [hst, hx], by simpa [snapF] using hs⟩
  · intro i x tt hx ht
    simp only [hst, List.getElem?_map] at hx
    cases hy : t.streams[i]? with
    | none => simp [hy] at hx
    | some y => simp [hy] at hx; subst hx; exact g i y tt hy (by simpa [snapF] using ht)
  · intro i x cc l hx hn
    simp only [hst, List.getElem?_map] at hx
    cases hy : t.streams[i]? with
    | none => simp [hy] at hx
    | some y => simp [hy] at hx; subst hx; exact k i y cc l hy (by simpa [snapF] using hn)

theorem inv_closeP1 {s : State} (h : Inv s) (e : Bool) : Inv (s.closeP1 e) := by
  unfold State.closeP1
  split
  · exact h
  · rename_i hc
    simp only []
    split
    · have h' := h.notify 0 0 e
      exact closeP1_core _ hc h'.cp h'.live h'.cl h'.lg h'.ng
    · exact closeP1_core _ hc h.cp h.live h.cl h.lg h.ng

end GrpcProofs.Lemmas.ClientConn
