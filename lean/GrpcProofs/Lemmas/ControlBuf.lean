import GrpcModel.Model.ControlBuf
/-! Helper lemmas for C16 (controlBuffer throttling): the reachable-state invariant of the
interleaving model and its consequences. -/
set_option linter.unusedSimpArgs false
namespace GrpcProofs.Lemmas.ControlBuf
open GrpcModel.ControlBuf

/-- Invariant of every reachable state, for every interleaving. -/
structure Inv (s : St) : Prop where
  lim : 1 ≤ s.limit
  trfEq : s.closed = false → s.trf = throttledCount s.list
  chanIff : s.closed = false → (s.chan.isSome = true ↔ s.limit ≤ s.trf)
  closedClean : s.closed = true → s.chan = none ∧ s.list = []
  curOpen : ∀ g, s.chan = some g → g < s.nextGen ∧ g ∉ s.closedGens
  oldClosed : ∀ g, g < s.nextGen → s.chan ≠ some g → g ∈ s.closedGens
  closedOld : ∀ g ∈ s.closedGens, g < s.nextGen
  readersOld : ∀ p ∈ s.readers, p.2 < s.nextGen
  consumer : s.parked = true → s.wakeup = false → s.consumerWaiting = true ∧ s.list = []

theorem inv_init (limit : Nat) (h : 1 ≤ limit) : Inv (init limit) := by
  constructor <;> simp [init, throttledCount] <;> omega

theorem tc_append (l : List Item) (it : Item) :
    throttledCount (l ++ [it]) = throttledCount l + (if it.throttled then 1 else 0) := by
  cases h : it.throttled <;> simp [throttledCount, List.filter_append, h]

theorem tc_cons (h : Item) (l : List Item) :
    throttledCount (h :: l) = throttledCount l + (if h.throttled then 1 else 0) := by
  cases hh : h.throttled <;> simp [throttledCount, hh]

theorem step_put (s : St) (it : Item) (h : Inv s) : Inv (step s (.put it)).1 := by
  obtain ⟨limit, list, trf, chan, nextGen, closedGens, closed, cW, wakeup, done, parked, readers⟩ := s
  obtain ⟨lim, trfEq, chanIff, closedClean, curOpen, oldClosed, closedOld, readersOld, consumer⟩ := h
  simp only at lim trfEq chanIff closedClean curOpen oldClosed closedOld readersOld consumer
  cases closed
  case true => simp only [step, if_true]; exact ⟨lim, trfEq, chanIff, closedClean, curOpen, oldClosed, closedOld, readersOld, consumer⟩
  case false =>
  have t1 := trfEq rfl
  have t2 := chanIff rfl
  subst t1
  cases hth : it.throttled
  · cases cW <;> (constructor <;> simp [step, hth, tc_append] <;> simp_all <;> try assumption)
  · by_cases hl : throttledCount list + 1 = limit
    · have hnone : chan = none := by
        cases chan with
        | none => rfl
        | some g => have := t2.mp rfl; omega
      subst hnone
      cases cW <;> (constructor <;> simp [step, hth, tc_append, hl] <;> simp_all)
      all_goals first
        | omega
        | (intro hx; have := closedOld _ hx; omega)
        | (intro g hg hne; exact oldClosed g (by omega))
        | (intro a b hab; have := readersOld a b hab; omega)
        | (intro g hg; have := closedOld g hg; omega)
    · cases cW <;> (constructor <;> simp [step, hth, tc_append, hl] <;> simp_all <;> try assumption)
      all_goals first
        | omega
        | (constructor <;> intro <;> omega)


theorem step_get (s : St) (b : Bool) (h : Inv s) : Inv (step s (.get b)).1 := by
  obtain ⟨limit, list, trf, chan, nextGen, closedGens, closed, cW, wakeup, done, parked, readers⟩ := s
  obtain ⟨lim, trfEq, chanIff, closedClean, curOpen, oldClosed, closedOld, readersOld, consumer⟩ := h
  simp only at lim trfEq chanIff closedClean curOpen oldClosed closedOld readersOld consumer
  have same : Inv ⟨limit, list, trf, chan, nextGen, closedGens, closed, cW, wakeup, done, parked, readers⟩ :=
    ⟨lim, trfEq, chanIff, closedClean, curOpen, oldClosed, closedOld, readersOld, consumer⟩
  cases parked
  case true => simpa [step] using same
  case false =>
  cases closed
  case true => simpa [step] using same
  case false =>
  have t1 := trfEq rfl
  have t2 := chanIff rfl
  subst t1
  cases list with
  | nil =>
    cases b
    · simpa [step] using same
    · constructor <;> simp [step] <;> simp_all <;> try assumption
  | cons hd rest =>
    cases hth : hd.throttled
    · constructor <;> simp [step, hth, tc_cons] <;> simp_all [tc_cons] <;> try assumption
    · by_cases hl : throttledCount (hd :: rest) = limit
      · have hsome : ∃ g, chan = some g := by
          cases chan with
          | none => have := t2.mpr (by omega); simp at this
          | some g => exact ⟨g, rfl⟩
        obtain ⟨g, rfl⟩ := hsome
        obtain ⟨c1, c2⟩ := curOpen g rfl
        have hcont : closedGens.contains g = false := by simpa using c2
        simp only [tc_cons, hth, if_true] at hl t2
        constructor <;> simp [step, hth, tc_cons, hl, closeGen, hcont] <;> simp_all [tc_cons]
        all_goals first
          | omega
          | (intro g' hg' ; by_cases he : g' = g
             · exact Or.inl he
             · exact Or.inr (oldClosed g' hg' (by intro hx; exact he hx.symm)))
          | skip
      · simp only [tc_cons, hth, if_true] at hl t2
        constructor <;> simp [step, hth, tc_cons, hl] <;> simp_all [tc_cons] <;> try assumption
        all_goals first
          | omega
          | (constructor <;> intro <;> omega)
          | skip


theorem step_other (s : St) (o : Op) (h : Inv s)
    (ho : o = .wake ∨ o = .closeDone ∨ (∃ r, o = .thr1 r) ∨ (∃ r, o = .thr2 r)) : Inv (step s o).1 := by
  obtain ⟨limit, list, trf, chan, nextGen, closedGens, closed, cW, wakeup, done, parked, readers⟩ := s
  obtain ⟨lim, trfEq, chanIff, closedClean, curOpen, oldClosed, closedOld, readersOld, consumer⟩ := h
  simp only at lim trfEq chanIff closedClean curOpen oldClosed closedOld readersOld consumer
  have same : Inv ⟨limit, list, trf, chan, nextGen, closedGens, closed, cW, wakeup, done, parked, readers⟩ :=
    ⟨lim, trfEq, chanIff, closedClean, curOpen, oldClosed, closedOld, readersOld, consumer⟩
  rcases ho with rfl | rfl | ⟨r, rfl⟩ | ⟨r, rfl⟩
  · cases parked <;> cases wakeup <;> cases done <;>
      (constructor <;> simp [step] <;> simp_all <;> try assumption)
  · constructor <;> simp [step] <;> simp_all <;> try assumption
  · cases chan with
    | none => simpa [step] using same
    | some g =>
      have := (curOpen g rfl).1
      constructor <;> simp [step] <;> simp_all <;> try assumption
      intro a b hab
      rcases hab with hab | ⟨_, rfl⟩
      · exact readersOld a b hab
      · exact this
  · simp only [step]
    split
    · exact same
    · split
      · constructor <;> simp <;> simp_all <;> try assumption
        intro a b hab _; exact readersOld a b hab
      · exact same

theorem step_finish (s : St) (h : Inv s) : Inv (step s .finish).1 := by
  obtain ⟨limit, list, trf, chan, nextGen, closedGens, closed, cW, wakeup, done, parked, readers⟩ := s
  obtain ⟨lim, trfEq, chanIff, closedClean, curOpen, oldClosed, closedOld, readersOld, consumer⟩ := h
  simp only at lim trfEq chanIff closedClean curOpen oldClosed closedOld readersOld consumer
  have same : Inv ⟨limit, list, trf, chan, nextGen, closedGens, closed, cW, wakeup, done, parked, readers⟩ :=
    ⟨lim, trfEq, chanIff, closedClean, curOpen, oldClosed, closedOld, readersOld, consumer⟩
  cases closed
  case true => simpa [step] using same
  case false =>
  cases chan with
  | none => constructor <;> simp [step] <;> simp_all <;> try assumption
  | some g =>
    obtain ⟨c1, c2⟩ := curOpen g rfl
    have hcont : closedGens.contains g = false := by simpa using c2
    constructor <;> simp [step, closeGen, hcont] <;> simp_all
    all_goals first
      | omega
      | (intro g' hg' ; by_cases he : g' = g
         · exact Or.inl he
         · exact Or.inr (oldClosed g' hg' (by intro hx; exact he hx.symm)))
      | skip

theorem step_inv (s : St) (o : Op) (h : Inv s) : Inv (step s o).1 := by
  cases o
  case put it => exact step_put s it h
  case get b => exact step_get s b h
  case wake => exact step_other s _ h (Or.inl rfl)
  case thr1 r => exact step_other s _ h (Or.inr (Or.inr (Or.inl ⟨r, rfl⟩)))
  case thr2 r => exact step_other s _ h (Or.inr (Or.inr (Or.inr ⟨r, rfl⟩)))
  case finish => exact step_finish s h
  case closeDone => exact step_other s _ h (Or.inr (Or.inl rfl))

theorem run_inv (ops : List Op) (s : St) (h : Inv s) : Inv (run s ops).1 := by
  induction ops generalizing s with
  | nil => simpa [run]
  | cons o os ih => simpa [run] using ih _ (step_inv s o h)

theorem lookup_mem (l : List (Nat × Nat)) (r g : Nat) (h : l.lookup r = some g) : (r, g) ∈ l := by
  induction l with
  | nil => simp at h
  | cons p t ih =>
    obtain ⟨a, b⟩ := p
    simp only [List.lookup_cons] at h
    split at h
    · rename_i heq
      simp at heq h
      subst heq h
      simp
    · exact List.mem_cons_of_mem _ (ih h)

/-- A blocked reader implies: buffer open, `done` open, at least `limit` throttled items queued. -/
theorem blocked_facts (s : St) (h : Inv s) (r : Nat) (hb : readerBlocked s r = true) :
    s.closed = false ∧ s.done = false ∧ s.limit ≤ throttledCount s.list ∧ s.chan.isSome = true := by
  obtain ⟨lim, trfEq, chanIff, closedClean, curOpen, oldClosed, closedOld, readersOld, consumer⟩ := h
  simp only [readerBlocked] at hb
  split at hb
  · rename_i g hg
    simp at hb
    obtain ⟨hb1, hb2⟩ := hb
    have hmem := lookup_mem _ _ _ hg
    have hlt := readersOld _ hmem
    have hcur : s.chan = some g := by
      apply Classical.byContradiction
      intro hne
      exact hb1 (oldClosed g hlt hne)
    have hopen : s.closed = false := by
      cases hc : s.closed
      · rfl
      · have := (closedClean hc).1; simp [this] at hcur
    have h2 := (chanIff hopen).mp (by simp [hcur])
    rw [trfEq hopen] at h2
    exact ⟨hopen, hb2, h2, by simp [hcur]⟩
  · simp at hb

/-- No lost wake-up: once fewer than `limit` throttled items are queued, or the buffer is closed
    (or `done` is closed), no reader is blocked — whichever generation it loaded, whenever. -/
theorem released (s : St) (h : Inv s) (hr : throttledCount s.list < s.limit ∨ s.closed = true ∨ s.done = true)
    (r : Nat) : readerBlocked s r = false := by
  cases hb : readerBlocked s r
  · rfl
  · obtain ⟨h1, h2, h3, _⟩ := blocked_facts s h r hb
    rcases hr with hr | hr | hr
    · omega
    · simp [h1] at hr
    · simp [h2] at hr

theorem anyBlocked_facts (s : St) (h : Inv s) (hb : anyBlocked s = true) :
    s.closed = false ∧ s.done = false ∧ s.limit ≤ throttledCount s.list := by
  simp only [anyBlocked, List.any_eq_true] at hb
  obtain ⟨p, _, hp⟩ := hb
  obtain ⟨a, b, c, _⟩ := blocked_facts s h p.1 hp
  exact ⟨a, b, c⟩

/-- Model state ↔ monitor state. -/
def MC (s : St) (m : Mon) : Prop :=
  m.limit = s.limit ∧ m.closeSeen = s.closed ∧ m.doneSeen = s.done ∧ m.queue = s.list

theorem mc_init (limit : Nat) : MC (init limit) (Mon.init limit) := by simp [MC, init, Mon.init]

theorem step_mc (s : St) (m : Mon) (o : Op) (h : Inv s) (hm : MC s m) :
    MC (step s o).1 (Mon.step m o (step s o).2).1 ∧
    (∀ c, (Mon.step m o (step s o).2).2 ≠ .viol c) ∧
    (∀ c, (Mon.step m o (step s o).2).1.readers (anyBlocked (step s o).1) ≠ .viol c) := by
  have hinv' := step_inv s o h
  have hread : MC (step s o).1 (Mon.step m o (step s o).2).1 →
      ∀ c, (Mon.step m o (step s o).2).1.readers (anyBlocked (step s o).1) ≠ .viol c := by
    intro hmc c
    obtain ⟨m1, m2, m3, m4⟩ := hmc
    simp only [Mon.readers]
    cases hb : anyBlocked (step s o).1
    · simp
    · obtain ⟨b1, b2, b3⟩ := anyBlocked_facts _ hinv' hb
      have hn : ¬ throttledCount (Mon.step m o (step s o).2).1.queue < (Mon.step m o (step s o).2).1.limit := by
        rw [m1, m4]; omega
      simp [m2, m3, b1, b2, hn]
  suffices hmain : MC (step s o).1 (Mon.step m o (step s o).2).1 ∧
      (∀ c, (Mon.step m o (step s o).2).2 ≠ .viol c) from ⟨hmain.1, hmain.2, hread hmain.1⟩
  clear hread hinv'
  obtain ⟨limit, list, trf, chan, nextGen, closedGens, closed, cW, wakeup, done, parked, readers⟩ := s
  obtain ⟨mlimit, queue, closeSeen, doneSeen⟩ := m
  obtain ⟨m1, m2, m3, m4⟩ := hm
  simp only at m1 m2 m3 m4
  subst m1 m2 m3 m4
  obtain ⟨lim, trfEq, chanIff, closedClean, curOpen, oldClosed, closedOld, readersOld, consumer⟩ := h
  simp only at lim trfEq chanIff closedClean curOpen oldClosed closedOld readersOld consumer
  cases o
  case put it =>
    cases closeSeen <;> cases hth : it.throttled <;> cases cW <;> by_cases hl : trf + 1 = mlimit <;>
      simp [step, Mon.step, MC, hth, hl]
  case get b =>
    cases parked
    case true => cases b <;> simp [step, Mon.step, MC]
    case false =>
    cases closeSeen
    case true => cases b <;> simp [step, Mon.step, MC]
    case false =>
    have t1 := trfEq rfl
    have t2 := chanIff rfl
    subst t1
    cases queue with
    | nil => cases b <;> simp [step, Mon.step, MC]
    | cons hd rest =>
      cases hth : hd.throttled
      · simp [step, Mon.step, MC, hth]
      · by_cases hl : throttledCount (hd :: rest) = mlimit
        · have hsome : ∃ g, chan = some g := by
            cases chan with
            | none => have := t2.mpr (by omega); simp at this
            | some g => exact ⟨g, rfl⟩
          obtain ⟨g, rfl⟩ := hsome
          obtain ⟨c1, c2⟩ := curOpen g rfl
          have hcont : closedGens.contains g = false := by simpa using c2
          simp [step, Mon.step, MC, hth, hl, closeGen, hcont, c2]
        · simp [step, Mon.step, MC, hth, hl]
  case wake =>
    cases parked <;> cases wakeup <;> cases doneSeen <;> simp [step, Mon.step, MC]
  case thr1 r =>
    cases chan <;> simp [step, Mon.step, MC]
  case thr2 r =>
    simp only [step]
    split
    · simp [Mon.step, MC]
    · split <;> simp [Mon.step, MC]
  case finish =>
    cases closeSeen
    case true => simp [step, Mon.step, MC]
    case false =>
    cases chan with
    | none => simp [step, Mon.step, MC]
    | some g =>
      obtain ⟨c1, c2⟩ := curOpen g rfl
      have hcont : closedGens.contains g = false := by simpa using c2
      simp [step, Mon.step, MC, closeGen, hcont, c2]
  case closeDone => simp [step, Mon.step, MC]

theorem verdicts_ok (ops : List Op) (s : St) (m : Mon) (h : Inv s) (hm : MC s m) :
    ∀ v ∈ verdicts s m ops, ∀ c, v ≠ .viol c := by
  induction ops generalizing s m with
  | nil => simp [verdicts]
  | cons o os ih =>
    obtain ⟨s1, s2, s3⟩ := step_mc s m o h hm
    intro v hv
    simp only [verdicts, List.mem_cons] at hv
    rcases hv with rfl | rfl | hv
    · exact s2
    · exact s3
    · exact ih _ _ (step_inv s o h) s1 v hv


def hdrIds (l : List Item) : List Nat := (l.filter (·.hdr)).map (·.id)

/-- Ledger over a trace prefix: what the writer took so far followed by what is queued is exactly
    what was accepted; on close the queue becomes `dropped` and exactly its clientHeaders are orphaned. -/
def Ledger (s : St) (acc del : List Item) (orph : List Nat) : Prop :=
  (s.closed = false → del ++ s.list = acc ∧ orph = []) ∧
  (s.closed = true → ∃ dropped, del ++ dropped = acc ∧ orph = hdrIds dropped ∧ s.list = [])

theorem step_ledger (s : St) (o : Op) (acc del : List Item) (orph : List Nat) (h : Ledger s acc del orph) :
    Ledger (step s o).1 (acc ++ acceptedOf [(o, (step s o).2)]) (del ++ deliveredOf [(o, (step s o).2)])
      (orph ++ orphanedOf [(o, (step s o).2)]) := by
  obtain ⟨limit, list, trf, chan, nextGen, closedGens, closed, cW, wakeup, done, parked, readers⟩ := s
  obtain ⟨h1, h2⟩ := h
  simp only at h1 h2
  cases o
  case put it =>
    cases closed
    · obtain ⟨a, b⟩ := h1 rfl
      subst a b
      cases hth : it.throttled <;> cases cW <;> by_cases hl : trf + 1 = limit <;>
        simp [step, Ledger, hth, hl, acceptedOf, deliveredOf, orphanedOf]
    · simpa [step, Ledger, acceptedOf, deliveredOf, orphanedOf] using h2
  case get b =>
    cases parked
    case true => cases closed <;> simp_all [step, Ledger, acceptedOf, deliveredOf, orphanedOf]
    case false =>
    cases closed
    case true => simpa [step, Ledger, acceptedOf, deliveredOf, orphanedOf] using h2
    case false =>
    obtain ⟨a, b⟩ := h1 rfl
    subst a b
    cases list with
    | nil => cases b <;> simp [step, Ledger, acceptedOf, deliveredOf, orphanedOf]
    | cons hd rest =>
      cases hth : hd.throttled
      · simp [step, Ledger, hth, acceptedOf, deliveredOf, orphanedOf]
      · by_cases hl : trf = limit
        · cases chan with
          | none => simp [step, Ledger, hth, hl, acceptedOf, deliveredOf, orphanedOf]
          | some g =>
            by_cases hc : g ∈ closedGens <;>
              simp [step, Ledger, hth, hl, closeGen, hc, acceptedOf, deliveredOf, orphanedOf]
        · simp [step, Ledger, hth, hl, acceptedOf, deliveredOf, orphanedOf]
  case wake =>
    cases closed <;> cases parked <;> cases wakeup <;> cases done <;>
      simp_all [step, Ledger, acceptedOf, deliveredOf, orphanedOf]
  case thr1 r =>
    cases closed <;> cases chan <;> simp_all [step, Ledger, acceptedOf, deliveredOf, orphanedOf]
  case thr2 r =>
    simp only [step]
    split
    · cases closed <;> simp_all [Ledger, acceptedOf, deliveredOf, orphanedOf]
    · split <;> cases closed <;> simp_all [Ledger, acceptedOf, deliveredOf, orphanedOf]
  case finish =>
    cases closed
    case true => simpa [step, Ledger, acceptedOf, deliveredOf, orphanedOf] using h2
    case false =>
    obtain ⟨a, b⟩ := h1 rfl
    subst a b
    cases chan with
    | none => simp [step, Ledger, acceptedOf, deliveredOf, orphanedOf, hdrIds]
    | some g =>
      by_cases hc : g ∈ closedGens <;>
        simp [step, Ledger, closeGen, hc, acceptedOf, deliveredOf, orphanedOf, hdrIds]
  case closeDone =>
    cases closed <;> simp_all [step, Ledger, acceptedOf, deliveredOf, orphanedOf]

theorem acceptedOf_cons (x : Op × Out) (t : List (Op × Out)) : acceptedOf (x :: t) = acceptedOf [x] ++ acceptedOf t := by
  obtain ⟨o, out⟩ := x
  cases o <;> cases out <;> simp [acceptedOf]

theorem deliveredOf_cons (x : Op × Out) (t : List (Op × Out)) : deliveredOf (x :: t) = deliveredOf [x] ++ deliveredOf t := by
  obtain ⟨o, out⟩ := x
  cases out <;> simp [deliveredOf]

theorem orphanedOf_cons (x : Op × Out) (t : List (Op × Out)) : orphanedOf (x :: t) = orphanedOf [x] ++ orphanedOf t := by
  obtain ⟨o, out⟩ := x
  cases out <;> simp [orphanedOf]

theorem run_ledger (ops : List Op) (s : St) (acc del : List Item) (orph : List Nat) (h : Ledger s acc del orph) :
    Ledger (run s ops).1 (acc ++ acceptedOf (run s ops).2) (del ++ deliveredOf (run s ops).2)
      (orph ++ orphanedOf (run s ops).2) := by
  induction ops generalizing s acc del orph with
  | nil => simpa [run, acceptedOf, deliveredOf, orphanedOf] using h
  | cons o os ih =>
    have := ih _ _ _ _ (step_ledger s o acc del orph h)
    simp only [run]
    rw [acceptedOf_cons, deliveredOf_cons, orphanedOf_cons]
    simpa [List.append_assoc] using this

end GrpcProofs.Lemmas.ControlBuf
