/-
Invariant of the atomicSemaphore transition system (GrpcModel/Model/Semaphore.lean), C25.
-/
import GrpcModel.Model.Semaphore
namespace GrpcProofs.Lemmas.Semaphore
open GrpcModel.Semaphore

def parkedN (a : APc) : Int := if a = .parked then 1 else 0

/-- The inductive invariant. `s.s + s.c` = wake-up tokens in flight (about to be sent + buffered). -/
structure Inv (s : St) : Prop where
  cnt : s.n = (s.cap : Int) - s.h - parkedN s.apc
  le : s.h ≤ s.cap
  fin : s.fin ≤ s.h
  tokP : s.apc = .parked → s.s + s.c = if s.h < s.cap then 1 else 0
  tokN : s.apc ≠ .parked → s.s + s.c = 0

theorem inv_init (cap : Nat) : Inv (init cap) := by
  constructor <;> simp [init, parkedN]

theorem inv_step (s t : St) (r : Rule) (hi : Inv s) (hs : apply s r = some t) : Inv t := by
  obtain ⟨cnt, le, fin, tokP, tokN⟩ := hi
  cases r
  case aCall =>
    simp only [apply] at hs
    split at hs
    · rename_i ha
      cases hs
      have := tokN (by rw [ha]; simp)
      constructor <;> simp_all [parkedN]
    · cases hs
  case aAdd =>
    simp only [apply] at hs
    split at hs
    · rename_i ha
      have h0 := tokN (by rw [ha]; simp)
      simp [ha, parkedN] at cnt
      split at hs
      · rename_i hneg
        cases hs
        constructor
        · simp [parkedN]; omega
        · exact le
        · exact fin
        · intro _; simp only; split <;> omega
        · intro hne; simp at hne
      · rename_i hnn
        cases hs
        constructor
        · simp [parkedN]; omega
        · simp only; omega
        · simp only; omega
        · intro hp; simp at hp
        · intro _; exact h0
    · cases hs
  case aRecv =>
    simp only [apply] at hs
    split at hs
    · rename_i ha
      cases hs
      have h1 := tokP ha.1
      simp [ha.1, parkedN] at cnt
      have hlt : s.h < s.cap := by
        by_cases hx : s.h < s.cap
        · exact hx
        · simp [hx] at h1; omega
      simp [hlt] at h1
      constructor
      · simp [parkedN]; omega
      · simp only; omega
      · simp only; omega
      · intro hp; simp at hp
      · intro _; simp only; omega
    · cases hs
  case rCall =>
    simp only [apply] at hs
    split at hs
    · cases hs
      constructor
      · exact cnt
      · exact le
      · simp only; omega
      · exact tokP
      · exact tokN
    · cases hs
  case rAdd =>
    simp only [apply] at hs
    split at hs
    · rename_i hf
      cases hs
      by_cases hp : s.apc = .parked
      · have h1 := tokP hp
        simp [hp, parkedN] at cnt
        constructor
        · simp [hp, parkedN]; omega
        · simp only; omega
        · simp only; omega
        · intro _
          simp only
          by_cases hx : s.h < s.cap
          · simp [hx] at h1
            have : ¬ (s.n + 1 ≤ 0) := by omega
            simp [this]
            have : s.h - 1 < s.cap := by omega
            simp [this]; omega
          · simp [hx] at h1
            have hh : s.h = s.cap := by omega
            have : s.n + 1 ≤ 0 := by omega
            simp [this]
            have : s.h - 1 < s.cap := by omega
            simp [this]; omega
        · intro hne; exact absurd hp hne
      · have h0 := tokN hp
        have hpn : parkedN s.apc = 0 := by simp [parkedN, hp]
        rw [hpn] at cnt
        constructor
        · simp only [hpn]; omega
        · simp only; omega
        · simp only; omega
        · intro hq; exact absurd hq hp
        · intro _
          simp only
          have : ¬ (s.n + 1 ≤ 0) := by omega
          simp [this]; omega
    · cases hs
  case rSend =>
    simp only [apply] at hs
    split at hs
    · rename_i hf
      cases hs
      constructor
      · exact cnt
      · exact le
      · exact fin
      · intro hp; have := tokP hp; simp only at hp ⊢; omega
      · intro hp; have := tokN hp; simp only at hp ⊢; omega
    · cases hs

theorem reach_inv (cap : Nat) (s : St) (h : Reach cap s) : Inv s ∧ s.cap = cap := by
  induction h with
  | init => exact ⟨inv_init cap, rfl⟩
  | @step s0 t0 r _ hs ih =>
    refine ⟨inv_step _ _ r ih.1 hs, ?_⟩
    have : t0.cap = s0.cap := by
      cases r <;> simp only [apply] at hs <;> (repeat (split at hs)) <;> first | cases hs; rfl | cases hs
    rw [this]; exact ih.2

end GrpcProofs.Lemmas.Semaphore
