import GrpcModel.Model.LoopySpec
/-!
Helper lemmas about the loopy writer model (`GrpcModel/Model/Loopy.lean`) shared by C01, C02, C03.
-/
namespace GrpcProofs.Loopy
open GrpcModel.Loopy

/-! ### basic facts -/

theorem maxFrameLen_eq : maxFrameLen = 16384 := by decide
theorem defaultWindow_eq : defaultWindow = 65535 := by decide

theorem headerFrags_le {m : Nat} (hm : 0 < m) (L : Nat) : ∀ x ∈ headerFrags m L, x ≤ m := by
  induction L using Nat.strongRecOn with
  | _ L ih =>
    intro x hx
    rw [headerFrags] at hx
    split at hx
    · rename_i h
      rcases List.mem_cons.mp hx with rfl | hx
      · exact Nat.le_refl _
      · exact ih (L - m) (by omega) x hx
    · rename_i h
      simp only [List.mem_singleton] at hx
      subst hx
      omega

theorem headerFrags_sum (m L : Nat) : (headerFrags m L).sum = L := by
  induction L using Nat.strongRecOn with
  | _ L ih =>
    rw [headerFrags]
    split
    · rename_i h
      simp only [List.sum_cons, ih (L - m) (by omega)]
      omega
    · simp

@[simp] theorem setStr_str_same (s : St) (id : Nat) (x : OutStream) : (s.setStr id x).str id = x := by
  simp [St.setStr]

theorem setStr_str_ne (s : St) {id i : Nat} (x : OutStream) (h : i ≠ id) : (s.setStr id x).str i = s.str i := by
  simp [St.setStr, h]

@[simp] theorem setStr_keys (s : St) (id : Nat) (x : OutStream) : (s.setStr id x).keys = s.keys := rfl
@[simp] theorem setStr_active (s : St) (id : Nat) (x : OutStream) : (s.setStr id x).active = s.active := rfl
@[simp] theorem setStr_sendQuota (s : St) (id : Nat) (x : OutStream) : (s.setStr id x).sendQuota = s.sendQuota := rfl
@[simp] theorem setStr_oiws (s : St) (id : Nat) (x : OutStream) : (s.setStr id x).oiws = s.oiws := rfl
@[simp] theorem setStr_draining (s : St) (id : Nat) (x : OutStream) : (s.setStr id x).draining = s.draining := rfl
@[simp] theorem setStr_closed (s : St) (id : Nat) (x : OutStream) : (s.setStr id x).closed = s.closed := rfl
@[simp] theorem setStr_side (s : St) (id : Nat) (x : OutStream) : (s.setStr id x).side = s.side := rfl

theorem wakeOrder_perm (s : St) (order : List Nat) : (wakeOrder s order).Perm (s.keys.filter (isWaiting s)) := by
  unfold wakeOrder
  simp only
  split
  · rename_i h; exact List.isPerm_iff.mp h
  · exact List.Perm.refl _

theorem mem_wakeOrder {s : St} {order : List Nat} {i : Nat} :
    i ∈ wakeOrder s order ↔ i ∈ s.keys ∧ (s.str i).state = .waiting := by
  rw [(wakeOrder_perm s order).mem_iff, List.mem_filter]
  simp [isWaiting]

end GrpcProofs.Loopy
