import GrpcModel.Model.RLSKeys
namespace GrpcProofs.Lemmas.RLSKeys
open GrpcModel.RLSKeys

theorem get_cons (a b : Str) (t : List (Str × Str)) (k : Str) :
    mget ((a, b) :: t) k = if a = k then some b else mget t k := by
  unfold mget
  by_cases h : a = k <;> simp [List.find?, h]

theorem get_put (m : List (Str × Str)) (k v k' : Str) :
    mget (put m k v) k' = if k = k' then some v else mget m k' := by
  induction m with
  | nil => simp [put, get_cons]
  | cons x t ih =>
    obtain ⟨a, b⟩ := x
    simp only [put]
    by_cases h : a = k
    · subst h
      simp only [if_true, get_cons]
      by_cases h2 : a = k' <;> simp [h2]
    · simp only [h, if_false, get_cons, ih]
      by_cases h2 : a = k'
      · have : ¬ k = k' := fun e => h (h2.trans e.symm)
        simp [h2, this]
      · simp [h2]

theorem header_fold (md : List (Str × List Str)) (ms : List Matcher) (init : List (Str × Str)) (k : Str) :
    mget (ms.foldl (headerStep md) init) k = (headerSpec md ms k).orElse fun _ => mget init k := by
  induction ms generalizing init with
  | nil => simp [headerSpec]
  | cons m t ih =>
    simp only [List.foldl, headerSpec]
    rw [ih]
    cases h1 : headerSpec md t k with
    | some v => simp
    | none =>
      simp only [Option.orElse_none, headerStep]
      cases h2 : firstPresent md m.names with
      | none => by_cases c : m.key = k <;> simp [c]
      | some vals =>
        simp only [get_put]
        by_cases c : m.key = k <;> simp [c]

theorem const_fold (cs : List (Str × Str)) (init : List (Str × Str)) (k : Str) :
    mget (cs.foldl constStep init) k = (constSpec cs k).orElse fun _ => mget init k := by
  induction cs generalizing init with
  | nil => simp [constSpec]
  | cons c t ih =>
    simp only [List.foldl, constSpec]
    rw [ih]
    cases h1 : constSpec t k with
    | some v => simp
    | none =>
      simp only [Option.orElse_none, constStep, get_put]
      by_cases h : c.1 = k <;> simp [h]

theorem buildHeaderKeys_get (b : Builder) (md : List (Str × List Str)) (k : Str) :
    mget (buildHeaderKeys b md) k = if md = [] then none else headerSpec md b.headerKeys k := by
  unfold buildHeaderKeys
  by_cases h : md = []
  · simp [h]; rfl
  · simp only [h, if_false]
    rw [header_fold]
    cases headerSpec md b.headerKeys k <;> simp <;> rfl

end GrpcProofs.Lemmas.RLSKeys

namespace GrpcProofs.Lemmas.RLSKeys
open GrpcModel.RLSKeys

/-- the text before the first separator determines the split -/
theorem prefix_unique (s : UInt8) (a b r1 r2 : Str) (ha : s ∉ a) (hb : s ∉ b)
    (h : a ++ s :: r1 = b ++ s :: r2) : a = b ∧ r1 = r2 := by
  induction a generalizing b with
  | nil =>
    cases b with
    | nil => simp at h; exact ⟨rfl, h⟩
    | cons y b' =>
      simp at h
      exact absurd (h.1 ▸ List.mem_cons_self) hb
  | cons x a' ih =>
    cases b with
    | nil =>
      simp at h
      exact absurd (h.1 ▸ List.mem_cons_self) ha
    | cons y b' =>
      simp at h
      obtain ⟨h1, h2⟩ := h
      have := ih b' (fun hm => ha (List.mem_cons_of_mem _ hm)) (fun hm => hb (List.mem_cons_of_mem _ hm)) h2
      exact ⟨by rw [h1, this.1], this.2⟩

theorem join_cons_cons (sep a b : Str) (t : List Str) : join sep (a :: b :: t) = a ++ sep ++ join sep (b :: t) := rfl

/-- strings.Join with a one-byte separator is injective on non-empty pieces that do not contain it -/
theorem join_inj (s : UInt8) : ∀ (l1 l2 : List Str), (∀ x ∈ l1, s ∉ x ∧ x ≠ []) → (∀ x ∈ l2, s ∉ x ∧ x ≠ []) →
    join [s] l1 = join [s] l2 → l1 = l2
  | [], [], _, _, _ => rfl
  | [], [b], _, h2, h => by simp [join] at h; exact absurd h (h2 b (by simp)).2
  | [], b :: c :: t, _, _, h => by
    rw [join_cons_cons] at h; simp [join] at h
  | [a], [], h1, _, h => by simp [join] at h; exact absurd h (h1 a (by simp)).2
  | [a], [b], _, _, h => by simp [join] at h; rw [h]
  | [a], b :: c :: t, h1, _, h => by
    rw [join_cons_cons] at h
    have : s ∈ a := by rw [show join [s] [a] = a from rfl] at h; rw [h]; simp
    exact absurd this (h1 a (by simp)).1
  | a :: a2 :: t, [], _, _, h => by rw [join_cons_cons] at h; simp [join] at h
  | a :: a2 :: t, [b], _, h2, h => by
    rw [join_cons_cons] at h
    have : s ∈ b := by rw [show join [s] [b] = b from rfl] at h; rw [← h]; simp
    exact absurd this (h2 b (by simp)).1
  | a :: a2 :: t, b :: b2 :: t', h1, h2, h => by
    rw [join_cons_cons, join_cons_cons] at h
    simp only [List.append_assoc, List.singleton_append] at h
    have pu := prefix_unique s a b _ _ (h1 a (by simp)).1 (h2 b (by simp)).1 h
    have ih := join_inj s (a2 :: t) (b2 :: t') (fun x hx => h1 x (List.mem_cons_of_mem _ hx))
      (fun x hx => h2 x (List.mem_cons_of_mem _ hx)) pu.2
    rw [pu.1, ih]

/-- `k=v` -/
def enc (p : Str × Str) : Str := p.1 ++ [eqs] ++ p.2

theorem enc_inj (p q : Str × Str) (hp : eqs ∉ p.1) (hq : eqs ∉ q.1) (h : enc p = enc q) : p = q := by
  unfold enc at h
  simp only [List.append_assoc, List.singleton_append] at h
  have := prefix_unique eqs p.1 q.1 p.2 q.2 hp hq h
  exact Prod.ext this.1 this.2

theorem map_enc_inj : ∀ (l1 l2 : List (Str × Str)), (∀ p ∈ l1, eqs ∉ p.1) → (∀ p ∈ l2, eqs ∉ p.1) →
    l1.map enc = l2.map enc → l1 = l2
  | [], [], _, _, _ => rfl
  | [], _ :: _, _, _, h => by simp at h
  | _ :: _, [], _, _, h => by simp at h
  | p :: t, q :: t', h1, h2, h => by
    simp only [List.map_cons, List.cons.injEq] at h
    have e := enc_inj p q (h1 p (by simp)) (h2 q (by simp)) h.1
    have := map_enc_inj t t' (fun x hx => h1 x (List.mem_cons_of_mem _ hx)) (fun x hx => h2 x (List.mem_cons_of_mem _ hx)) h.2
    rw [e, this]

theorem mem_insertSorted (x y : Str × Str) (l : List (Str × Str)) (h : y ∈ insertSorted x l) : y = x ∨ y ∈ l := by
  induction l with
  | nil => simp [insertSorted] at h; exact Or.inl h
  | cons a t ih =>
    simp only [insertSorted] at h
    split at h
    · rcases List.mem_cons.mp h with h | h
      · exact Or.inr (h ▸ List.mem_cons_self)
      · rcases ih h with h | h
        · exact Or.inl h
        · exact Or.inr (List.mem_cons_of_mem _ h)
    · rcases List.mem_cons.mp h with h | h
      · exact Or.inl h
      · exact Or.inr h

theorem mem_sortKV_aux (m acc : List (Str × Str)) (y : Str × Str)
    (h : y ∈ m.foldl (fun acc x => insertSorted x acc) acc) : y ∈ m ∨ y ∈ acc := by
  induction m generalizing acc with
  | nil => exact Or.inr h
  | cons a t ih =>
    simp only [List.foldl] at h
    rcases ih _ h with h | h
    · exact Or.inl (List.mem_cons_of_mem _ h)
    · rcases mem_insertSorted a y acc h with h | h
      · exact Or.inl (h ▸ List.mem_cons_self)
      · exact Or.inr h

theorem mem_sortKV (m : List (Str × Str)) (y : Str × Str) (h : y ∈ sortKV m) : y ∈ m := by
  rcases mem_sortKV_aux m [] y h with h | h
  · exact h
  · cases h

/-- no key and no value contains ',' or '=' -/
def SepFree (m : List (Str × Str)) : Prop :=
  ∀ p ∈ m, comma ∉ p.1 ∧ eqs ∉ p.1 ∧ comma ∉ p.2 ∧ eqs ∉ p.2

theorem mapToString_inj_sepfree (m1 m2 : List (Str × Str)) (h1 : SepFree m1) (h2 : SepFree m2)
    (h : mapToString m1 = mapToString m2) : sortKV m1 = sortKV m2 := by
  unfold mapToString at h
  have ce : comma ≠ eqs := by decide
  have pieces : ∀ (m : List (Str × Str)), SepFree m →
      ∀ x ∈ (sortKV m).map (fun p => p.1 ++ [eqs] ++ p.2), comma ∉ x ∧ x ≠ [] := by
    intro m hm x hx
    obtain ⟨p, hp, rfl⟩ := List.mem_map.mp hx
    have := hm p (mem_sortKV m p hp)
    constructor
    · simp only [List.append_assoc, List.singleton_append, List.mem_append, List.mem_cons, not_or]
      exact ⟨this.1, ce, this.2.2.1⟩
    · simp
  have := join_inj comma _ _ (pieces m1 h1) (pieces m2 h2) h
  exact map_enc_inj _ _ (fun p hp => (h1 p (mem_sortKV m1 p hp)).2.1) (fun p hp => (h2 p (mem_sortKV m2 p hp)).2.1) this

end GrpcProofs.Lemmas.RLSKeys
