import GrpcModel.Model.RLSKeys
namespace GrpcProofs.Lemmas.RLSKeys
open GrpcModel.RLSKeys

theorem get_cons (a b : Str) (t : List (Str × Str)) (k : Str) :
    mget ((a, b) :: t) k = if a = k then some b else mget t k := by
  unfold mget
  by_cases h : a = k <;> simp [List.find?, h]

theorem get_put (m : List (Str × Str)) (k v k' : Str) :
    mget (put m k v) k' = if k = k' then some v else mget m k' := by
  induction m with
  | nil => simp [put, get_cons]
  | cons x t ih =>
    obtain ⟨a, b⟩ := x
    simp only [put]
    by_cases h : a = k
    · subst h
      simp only [if_true, get_cons]
      by_cases h2 : a = k' <;> simp [h2]
    · simp only [h, if_false, get_cons, ih]
      by_cases h2 : a = k'
      · have : ¬ k = k' := fun e => h (h2.trans e.symm)
        simp [h2, this]
      · simp [h2]

theorem header_fold (md : List (Str × List Str)) (ms : List Matcher) (init : List (Str × Str)) (k : Str) :
    mget (ms.foldl (headerStep md) init) k = (headerSpec md ms k).orElse fun _ => mget init k := by
  induction ms generalizing init with
  | nil => simp [headerSpec]
  | cons m t ih =>
    simp only [List.foldl, headerSpec]
    rw [ih]
    cases h1 : headerSpec md t k with
    | some v => simp
    | none =>
      simp only [Option.orElse_none, headerStep]
      cases h2 : firstPresent md m.names with
      | none => by_cases c : m.key = k <;> simp [c]
      | some vals =>
        simp only [get_put]
        by_cases c : m.key = k <;> simp [c]

theorem const_fold (cs : List (Str × Str)) (init : List (Str × Str)) (k : Str) :
    mget (cs.foldl constStep init) k = (constSpec cs k).orElse fun _ => mget init k := by
  induction cs generalizing init with
  | nil => simp [constSpec]
  | cons c t ih =>
    simp only [List.foldl, constSpec]
    rw [ih]
    cases h1 : constSpec t k with
    | some v => simp
    | none =>
      simp only [Option.orElse_none, constStep, get_put]
      by_cases h : c.1 = k <;> simp [h]

theorem buildHeaderKeys_get (b : Builder) (md : List (Str × List Str)) (k : Str) :
    mget (buildHeaderKeys b md) k = if md = [] then none else headerSpec md b.headerKeys k := by
  unfold buildHeaderKeys
  by_cases h : md = []
  · simp [h]; rfl
  · simp only [h, if_false]
    rw [header_fold]
    cases headerSpec md b.headerKeys k <;> simp <;> rfl

end GrpcProofs.Lemmas.RLSKeys
