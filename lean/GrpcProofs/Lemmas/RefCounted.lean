import GrpcModel.Model.RefCounted
namespace GrpcProofs.Lemmas.RefCounted
open GrpcModel.RefCounted

/-- The inductive invariant.  `pos` holds unconditionally; the ledger clauses hold as long as the
    contract of Increment has not been broken (`misuse = false`). -/
structure Inv (s : St) : Prop where
  pos  : ∀ c ∈ s.tC, 0 < c
  live : s.misuse = false → s.dead = false → s.cnt = s.held ∧ 0 < s.cnt ∧ s.z = 0 ∧ s.zeros = 0
  gone : s.misuse = false → s.dead = true → s.cnt ≤ 0 ∧ s.held = 0 ∧ s.z + s.zeros = 1

theorem inv_init : Inv init := by
  constructor <;> simp [init]

theorem step_pos {s t : St} (r : Rule) (hp : ∀ c ∈ s.tC, 0 < c) (st : apply s r = some t) :
    ∀ c ∈ t.tC, 0 < c := by
  cases r <;> simp only [apply] at st <;> (try split at st) <;> simp at st <;> subst st <;> simp only []
  all_goals try exact hp
  · rename_i hg
    intro c hc
    rcases List.mem_cons.mp hc with rfl | hc'
    · omega
    · exact hp c hc'
  · intro c hc; exact hp c (List.mem_of_mem_erase hc)
  · intro c hc; exact hp c (List.mem_of_mem_erase hc)

theorem step_inv {s t : St} (r : Rule) (h : Inv s) (st : apply s r = some t) : Inv t := by
  obtain ⟨hp, hl, hg⟩ := h
  refine ⟨step_pos r hp st, ?_, ?_⟩
  all_goals
    cases r <;> simp only [apply] at st <;> (try split at st) <;> simp at st <;> subst st <;>
      simp only [] <;> grind

end GrpcProofs.Lemmas.RefCounted
