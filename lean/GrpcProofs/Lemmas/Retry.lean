/-
Helper lemmas for C19 / C18 about GrpcModel.Retry (throttler, shouldRetry, backoff arithmetic).
-/
import GrpcModel.Model.Retry
import Mathlib.Tactic.Linarith
import Mathlib.Tactic.Positivity
import Mathlib.Tactic.NormNum
import Mathlib.Algebra.Order.Floor.Ring
import Mathlib.Data.Rat.Floor
namespace GrpcProofs.Lemmas.Retry
open GrpcModel.Retry

/-! ### throttler -/

/-- the bucket invariant -/
def InRange (t : Throttler) : Prop := 0 ≤ t.tokens ∧ t.tokens ≤ t.max

theorem throttle_tokens (t : Throttler) : t.throttle.1.tokens = max (t.tokens - 1) 0 := by
  unfold Throttler.throttle
  by_cases h : t.tokens - 1 < 0
  · simp [h, max_eq_right (le_of_lt h)]
  · simp [h, max_eq_left (not_lt.mp h)]

theorem throttle_fields (t : Throttler) :
    t.throttle.1.max = t.max ∧ t.throttle.1.thresh = t.thresh ∧ t.throttle.1.ratio = t.ratio := by
  simp [Throttler.throttle]

theorem throttle_result (t : Throttler) : t.throttle.2 = decide (t.throttle.1.tokens ≤ t.thresh) := by
  simp [Throttler.throttle]

theorem success_tokens (t : Throttler) : t.success.tokens = min (t.tokens + t.ratio) t.max := by
  unfold Throttler.success
  by_cases h : t.tokens + t.ratio > t.max
  · simp [h, min_eq_right (le_of_lt h)]
  · simp [h, min_eq_left (not_lt.mp h)]

theorem success_fields (t : Throttler) :
    t.success.max = t.max ∧ t.success.thresh = t.thresh ∧ t.success.ratio = t.ratio := by
  simp [Throttler.success]

theorem throttle_inRange (t : Throttler) (h : InRange t) : InRange t.throttle.1 := by
  obtain ⟨h0, h1⟩ := h
  refine ⟨?_, ?_⟩
  · rw [throttle_tokens]; exact le_max_right _ _
  · rw [throttle_tokens, (throttle_fields t).1]
    exact max_le (by linarith) (le_trans h0 h1)

theorem success_inRange (t : Throttler) (h : InRange t) (hr : 0 ≤ t.ratio) : InRange t.success := by
  obtain ⟨h0, h1⟩ := h
  refine ⟨?_, ?_⟩
  · rw [success_tokens]; exact le_min (by linarith) (le_trans h0 h1)
  · rw [success_tokens, (success_fields t).1]; exact min_le_right _ _

theorem run_inRange (ops : List ThrOp) (t : Throttler) (h : InRange t) (hr : 0 ≤ t.ratio) :
    InRange (t.run ops) ∧ (t.run ops).max = t.max ∧ (t.run ops).ratio = t.ratio ∧ (t.run ops).thresh = t.thresh := by
  induction ops generalizing t with
  | nil => exact ⟨h, rfl, rfl, rfl⟩
  | cons o ops ih =>
    cases o with
    | failure =>
      have f := throttle_fields t
      have := ih t.throttle.1 (throttle_inRange t h) (by rw [f.2.2]; exact hr)
      simpa [Throttler.run, f.1, f.2.1, f.2.2] using this
    | success =>
      have f := success_fields t
      have := ih t.success (success_inRange t h hr) (by rw [f.2.2]; exact hr)
      simpa [Throttler.run, f.1, f.2.1, f.2.2] using this

/-! ### shouldRetry split along `stage` -/

/-- the decision and the state after the throttler was charged (stage `charged pb`). -/
def chargedResult (rp : Policy) (cs : CS) (pb : Pushback) (r : Rat) : CS × Decision :=
  if (throttleOpt cs.throttler).2 then ({ cs with throttler := (throttleOpt cs.throttler).1 }, .noRetry)
  else if cs.numRetries + 1 ≥ rp.maxAttempts then ({ cs with throttler := (throttleOpt cs.throttler).1 }, .exhausted)
  else match pb with
    | .ms n => ({ cs with throttler := (throttleOpt cs.throttler).1, sincePushback := 0 }, .backoff (pushbackDur n) true)
    | _ => ({ cs with throttler := (throttleOpt cs.throttler).1, sincePushback := cs.sincePushback + 1 },
            .backoff (backoffDur rp cs.sincePushback r) false)

/-- `shouldRetry` split along `stage`. -/
def stagedResult (dis : Bool) (pol : Option Policy) (cs : CS) (a : Attempt) (r : Rat) : CS × Decision :=
  match stage dis pol cs a with
  | .early =>
    if cs.finished || cs.committed || a.drop then (cs, .noRetry)
    else if !a.hasStream && a.allowTransparent then (cs, .transparent)
    else if cs.firstAttempt && (a.hasStream && a.unprocessed) then (cs, .transparent)
    else (cs, .noRetry)
  | .abortPushback => ({ cs with throttler := (throttleOpt cs.throttler).1 }, .noRetry)
  | .notRetryable => (cs, .noRetry)
  | .charged pb =>
    match pol with
    | some rp => chargedResult rp cs pb r
    | none => (cs, .noRetry)

theorem shouldRetry_staged (dis : Bool) (pol : Option Policy) (cs : CS) (a : Attempt) (r : Rat) :
    shouldRetry dis pol cs a r = stagedResult dis pol cs a r := by
  unfold shouldRetry stagedResult stage
  cases h1 : (cs.finished || cs.committed || a.drop)
  case true => simp
  cases h2 : (!a.hasStream && a.allowTransparent)
  case true => simp
  cases h3 : (cs.firstAttempt && (a.hasStream && a.unprocessed))
  case true => simp
  cases h4 : dis
  case true => simp
  cases h5 : (a.hasStream && !a.trailersOnly)
  case true => simp
  simp only [Bool.false_eq_true, if_false]
  by_cases h6 : (if a.hasStream = true then parsePushback a.pushback else Pushback.absent) = Pushback.abort
  · simp only [h6, if_true]
  simp only [h6, if_false]
  cases pol with
  | none => rfl
  | some rp =>
    simp only
    cases h7 : (!rp.codes.contains a.code)
    case true => simp
    simp only [Bool.false_eq_true, if_false, chargedResult]
    cases hthr : throttleOpt cs.throttler with
    | mk thr b =>
      simp only
      cases b
      · simp only [Bool.false_eq_true, if_false]
        by_cases h8 : cs.numRetries + 1 ≥ rp.maxAttempts
        · simp only [h8, if_true]
        simp only [h8, if_false]
        cases hpb : (if a.hasStream = true then parsePushback a.pushback else Pushback.absent) <;> simp_all
      · simp only [if_true]

theorem stage_charged_pol (dis : Bool) (pol : Option Policy) (cs : CS) (a : Attempt) (pb : Pushback)
    (h : stage dis pol cs a = .charged pb) :
    ∃ rp, pol = some rp ∧ rp.codes.contains a.code = true ∧ pb ≠ .abort ∧
      pb = (if a.hasStream then parsePushback a.pushback else .absent) ∧
      cs.finished = false ∧ cs.committed = false ∧ a.drop = false ∧ dis = false ∧
      (a.hasStream = true → a.trailersOnly = true) := by
  unfold stage at h
  cases h1 : (cs.finished || cs.committed || a.drop)
  case true => simp [h1] at h
  cases h2 : (!a.hasStream && a.allowTransparent)
  case true => simp [h1, h2] at h
  cases h3 : (cs.firstAttempt && (a.hasStream && a.unprocessed))
  case true => simp [h1, h2, h3] at h
  cases h4 : dis
  case true => simp [h1, h2, h3, h4] at h
  cases h5 : (a.hasStream && !a.trailersOnly)
  case true => simp [h1, h2, h3, h4, h5] at h
  simp only [h1, h2, h3, h4, h5, Bool.false_eq_true, if_false] at h
  by_cases h6 : (if a.hasStream = true then parsePushback a.pushback else Pushback.absent) = Pushback.abort
  · simp [h6] at h
  simp only [h6, if_false] at h
  cases pol with
  | none => simp at h
  | some rp =>
    simp only [Bool.not_eq_true', List.contains_eq_mem, decide_eq_false_iff_not, ite_not] at h
    by_cases hm : a.code ∈ rp.codes
    · rw [if_pos hm] at h
      injection h with h
      refine ⟨rp, rfl, by simpa using hm, ?_, h.symm, ?_, ?_, ?_, rfl, ?_⟩
      · rw [← h]; exact h6
      · simp at h1; exact h1.1.1
      · simp at h1; exact h1.1.2
      · simp at h1; exact h1.2
      · intro hs; simp [hs] at h5; exact h5
    · rw [if_neg hm] at h; cases h

theorem sr_throttler (dis : Bool) (pol : Option Policy) (cs : CS) (a : Attempt) (r : Rat) :
    (shouldRetry dis pol cs a r).1.throttler =
      if (stage dis pol cs a).charges then (throttleOpt cs.throttler).1 else cs.throttler := by
  rw [shouldRetry_staged]
  unfold stagedResult
  cases hs : stage dis pol cs a with
  | early => simp only [Stage.charges, Bool.false_eq_true, if_false]; split_ifs <;> rfl
  | abortPushback => simp [Stage.charges]
  | notRetryable => simp [Stage.charges]
  | charged pb =>
    obtain ⟨rp, hp, -⟩ := stage_charged_pol dis pol cs a pb hs
    subst hp
    simp only [Stage.charges, if_true, chargedResult]
    split_ifs
    · rfl
    · rfl
    · cases pb <;> rfl

theorem sr_charged_decision (dis : Bool) (pol : Option Policy) (cs : CS) (a : Attempt) (r : Rat) (pb : Pushback)
    (hs : stage dis pol cs a = .charged pb) :
    ∃ rp, pol = some rp ∧ shouldRetry dis pol cs a r = chargedResult rp cs pb r := by
  obtain ⟨rp, hp, -⟩ := stage_charged_pol dis pol cs a pb hs
  refine ⟨rp, hp, ?_⟩
  rw [shouldRetry_staged]; unfold stagedResult; rw [hs]; subst hp; rfl

theorem sr_abort (dis : Bool) (pol : Option Policy) (cs : CS) (a : Attempt) (r : Rat)
    (hs : stage dis pol cs a = .abortPushback) :
    shouldRetry dis pol cs a r = ({ cs with throttler := (throttleOpt cs.throttler).1 }, .noRetry) := by
  rw [shouldRetry_staged]; unfold stagedResult; rw [hs]

/-! ### int64 conversion and the jitter band -/

theorem toInt64_of_nonneg (x : ℚ) (h0 : 0 ≤ x) (hlt : x < 9223372036854775808) :
    toInt64 x = ⌊x⌋ := by
  unfold toInt64
  have hx : ¬ x < 0 := not_lt.mpr h0
  have hf : Rat.floor x = ⌊x⌋ := rfl
  have h1 : ⌊x⌋ ≤ 9223372036854775807 := by
    have : ⌊x⌋ < 9223372036854775808 := by
      apply Int.floor_lt.mpr; exact_mod_cast hlt
    omega
  have h2 : 0 ≤ ⌊x⌋ := Int.floor_nonneg.mpr h0
  simp only [hx, if_false, hf, maxInt64, minInt64]
  rw [if_neg]; omega

theorem toInt64_overflow (x : ℚ) (h : 9223372036854775808 ≤ x) : toInt64 x = minInt64 := by
  unfold toInt64
  have hx : ¬ x < 0 := by linarith
  have hf : Rat.floor x = ⌊x⌋ := rfl
  have h1 : (9223372036854775808 : ℤ) ≤ ⌊x⌋ := by
    apply Int.le_floor.mpr; exact_mod_cast h
  simp only [hx, if_false, hf, maxInt64, minInt64]
  rw [if_pos]; left; omega

/-- the jitter band: for a non-negative base whose upper band edge fits int64 -/
theorem backoff_band (base r : ℚ) (hb : 0 ≤ base) (hr0 : 0 ≤ r) (hr1 : r < 1)
    (hfit : 6 / 5 * base < 9223372036854775808) :
    (4 / 5 * base - 1 < (toInt64 (jittered base r) : ℚ)) ∧ ((toInt64 (jittered base r) : ℚ) ≤ 6 / 5 * base) ∧
    (⌊4 / 5 * base⌋ ≤ toInt64 (jittered base r)) := by
  have hj0 : 4 / 5 * base ≤ jittered base r := by
    unfold jittered; nlinarith
  have hj1 : jittered base r ≤ 6 / 5 * base := by
    unfold jittered; nlinarith
  have hnn : 0 ≤ jittered base r := by linarith
  rw [toInt64_of_nonneg _ hnn (by linarith)]
  refine ⟨?_, ?_, ?_⟩
  · have := Int.lt_floor_add_one (jittered base r); linarith
  · have := Int.floor_le (jittered base r); linarith
  · exact Int.floor_le_floor hj0

/-- the saturating conversion of /repo 0ecebdc: the delay is ⌊cur⌋ capped at MaxInt64 -/
theorem backoffDur_band (p : Policy) (k : Nat) (r : ℚ) (hb : 0 ≤ backoffBase p k) (hr0 : 0 ≤ r) (hr1 : r < 1) :
    min ⌊4 / 5 * backoffBase p k⌋ maxInt64 ≤ backoffDur p k r ∧
    (backoffDur p k r : ℚ) ≤ 6 / 5 * backoffBase p k ∧ 0 ≤ backoffDur p k r ∧ backoffDur p k r ≤ maxInt64 := by
  have hj0 : 4 / 5 * backoffBase p k ≤ jittered (backoffBase p k) r := by unfold jittered; nlinarith
  have hj1 : jittered (backoffBase p k) r ≤ 6 / 5 * backoffBase p k := by unfold jittered; nlinarith
  have hnn : 0 ≤ jittered (backoffBase p k) r := by linarith
  unfold backoffDur
  simp only
  split_ifs with hlt
  · rw [toInt64_of_nonneg _ hnn hlt]
    refine ⟨le_trans (min_le_left _ _) (Int.floor_le_floor hj0), ?_, Int.floor_nonneg.mpr hnn, ?_⟩
    · have := Int.floor_le (jittered (backoffBase p k) r); linarith
    · have : ⌊jittered (backoffBase p k) r⌋ < 9223372036854775808 := by
        apply Int.floor_lt.mpr; exact_mod_cast hlt
      unfold maxInt64; omega
  · have hge : (9223372036854775808 : ℚ) ≤ jittered (backoffBase p k) r := not_lt.mp hlt
    refine ⟨min_le_right _ _, ?_, by unfold maxInt64; omega, le_refl _⟩
    have : ((maxInt64 : ℤ) : ℚ) ≤ 9223372036854775808 := by unfold maxInt64; norm_num
    linarith

/-- the saturating multiplication of /repo dab5ad1 -/
theorem pushbackDur_spec (n : Int) (h0 : 0 ≤ n) : pushbackDur n = min (1000000 * n) maxInt64 := by
  unfold pushbackDur
  have hdiv : (9223372036854775807 : Int) / 1000000 = 9223372036854 := by norm_num
  rw [hdiv]
  split_ifs with h
  · have : 1000000 * n ≤ maxInt64 := by unfold maxInt64; omega
    rw [min_eq_left this]
    unfold wrap64; omega
  · have : maxInt64 ≤ 1000000 * n := by unfold maxInt64; omega
    rw [min_eq_right this]

/-! ### histories -/

/-- how one `shouldRetry` call moves the property's `k`. -/
theorem sr_sincePushback (dis : Bool) (pol : Option Policy) (cs : CS) (a : Attempt) (r : Rat) :
    (shouldRetry dis pol cs a r).1.sincePushback =
      retriesSincePushback cs.sincePushback [(shouldRetry dis pol cs a r).2] := by
  rw [shouldRetry_staged]
  unfold stagedResult
  cases hs : stage dis pol cs a with
  | early => simp only; split_ifs <;> rfl
  | abortPushback => rfl
  | notRetryable => rfl
  | charged pb =>
    obtain ⟨rp, hp, -⟩ := stage_charged_pol dis pol cs a pb hs
    subst hp
    simp only [chargedResult]
    split_ifs
    · rfl
    · rfl
    · cases pb <;> rfl

theorem sr_other_fields (dis : Bool) (pol : Option Policy) (cs : CS) (a : Attempt) (r : Rat) :
    (shouldRetry dis pol cs a r).1.numRetries = cs.numRetries ∧
    (shouldRetry dis pol cs a r).1.finished = cs.finished ∧
    (shouldRetry dis pol cs a r).1.committed = cs.committed ∧
    (shouldRetry dis pol cs a r).1.firstAttempt = cs.firstAttempt := by
  rw [shouldRetry_staged]
  unfold stagedResult
  cases hs : stage dis pol cs a with
  | early => simp only; split_ifs <;> exact ⟨rfl, rfl, rfl, rfl⟩
  | abortPushback => exact ⟨rfl, rfl, rfl, rfl⟩
  | notRetryable => exact ⟨rfl, rfl, rfl, rfl⟩
  | charged pb =>
    obtain ⟨rp, hp, -⟩ := stage_charged_pol dis pol cs a pb hs
    subst hp
    simp only [chargedResult]
    split_ifs
    · exact ⟨rfl, rfl, rfl, rfl⟩
    · exact ⟨rfl, rfl, rfl, rfl⟩
    · cases pb <;> exact ⟨rfl, rfl, rfl, rfl⟩

theorem afterDecision_sincePushback (cs : CS) (d : Decision) : (afterDecision cs d).sincePushback = cs.sincePushback := by
  cases d <;> rfl

theorem run_k (dis : Bool) (pol : Option Policy) (as : List (Attempt × Rat)) (cs : CS) :
    (runAttempts dis pol cs as).1.sincePushback =
      retriesSincePushback cs.sincePushback (runAttempts dis pol cs as).2 := by
  induction as generalizing cs with
  | nil => rfl
  | cons ar rest ih =>
    obtain ⟨a, r⟩ := ar
    have h1 := sr_sincePushback dis pol cs a r
    unfold runAttempts
    cases hd : (shouldRetry dis pol cs a r) with
    | mk cs' d =>
      rw [hd] at h1
      simp only at h1 ⊢
      cases d with
      | noRetry => simpa [retriesSincePushback] using h1
      | exhausted => simpa [retriesSincePushback] using h1
      | transparent =>
        simp only
        rw [ih]
        simp only [retriesSincePushback, afterDecision_sincePushback] at h1 ⊢
        rw [h1]
      | backoff dur fp =>
        simp only
        rw [ih]
        cases fp <;> simp only [retriesSincePushback, afterDecision_sincePushback] at h1 ⊢ <;> rw [h1]

/-! ### digit strings -/

theorem isDigit_bound (b : UInt8) (h : isDigit b = true) : b.toNat - 48 ≤ 9 := by
  unfold isDigit at h
  simp only [Bool.and_eq_true, decide_eq_true_eq] at h
  have h2 : b ≤ 57 := h.2
  have : b.toNat ≤ 57 := by exact UInt8.le_iff_toNat_le.mp h2
  omega

theorem foldl_digits_bound (ds : List UInt8) (h : ds.all isDigit = true) (acc : Nat) :
    ds.foldl (fun a b => a * 10 + (b.toNat - 48)) acc < (acc + 1) * 10 ^ ds.length := by
  induction ds generalizing acc with
  | nil => simp
  | cons d ds ih =>
    simp only [List.all_cons, Bool.and_eq_true] at h
    have hd := isDigit_bound d h.1
    have := ih h.2 (acc * 10 + (d.toNat - 48))
    simp only [List.foldl_cons, List.length_cons]
    calc _ < (acc * 10 + (d.toNat - 48) + 1) * 10 ^ ds.length := this
      _ ≤ ((acc + 1) * 10) * 10 ^ ds.length := by
          apply Nat.mul_le_mul_right; omega
      _ = (acc + 1) * 10 ^ (ds.length + 1) := by ring

theorem digitsVal_lt (ds : List UInt8) (h : ds.all isDigit = true) : digitsVal ds < 10 ^ ds.length := by
  have := foldl_digits_bound ds h 0
  simpa [digitsVal] using this

/-- `ParseInt` on at most `n` bytes yields fewer than `n` digits' worth of magnitude. -/
theorem parseInt64_abs_lt (s : List UInt8) (v : Int) (h : parseInt64 s = some v) : v.natAbs < 10 ^ s.length := by
  unfold parseInt64 at h
  split at h
  next neg ds heq =>
    have hlen : ds.length ≤ s.length := by
      split at heq <;> (injection heq with h1 h2; subst h2; simp)
    split_ifs at h with he hd hneg
    all_goals
      simp only at h
      split_ifs at h
      simp only [Option.some.injEq] at h
      subst h
      have hdig : ds.all isDigit = true := by simpa using hd
      have hv := digitsVal_lt ds hdig
      have hp : 10 ^ ds.length ≤ 10 ^ s.length := Nat.pow_le_pow_right (by norm_num) hlen
      omega

/-! ### Duration.UnmarshalJSON -/

theorem durClamp_range (sec ns : Int) (h1 : -1000000000 < ns) (h2 : ns < 1000000000) :
    minInt64 ≤ durClamp sec ns ∧ durClamp sec ns ≤ maxInt64 := by
  unfold durClamp maxInt64 minInt64
  split_ifs with a b
  · omega
  · omega
  · omega

theorem durNanos_bound (hf : Bool) (frac : List UInt8) (ns : Int) (d : Bool) (h : durNanos hf frac = some (ns, d)) :
    -1000000000 < ns ∧ ns < 1000000000 := by
  unfold durNanos at h
  split_ifs at h with h1 h2
  · split at h
    · cases h
    next v hv =>
      injection h with h; injection h with h _; subst h
      have hb := parseInt64_abs_lt frac v hv
      have hl : frac.length ≤ 9 := by omega
      have hpow : (10:ℕ) ^ frac.length * 10 ^ (9 - frac.length) = 10 ^ 9 := by
        rw [← pow_add]; congr 1; omega
      have hpos : 0 < (10:ℕ) ^ (9 - frac.length) := by positivity
      have hmul : v.natAbs * 10 ^ (9 - frac.length) < 10 ^ 9 := by
        rw [← hpow]; exact Nat.mul_lt_mul_of_pos_right hb hpos
      have habs : (v * 10 ^ (9 - frac.length)).natAbs < 10 ^ 9 := by
        rw [Int.natAbs_mul]; simpa [Int.natAbs_pow] using hmul
      omega
  · injection h with h; injection h with h _; subst h; omega

theorem parseDuration_range (s : List UInt8) (d : Int) (h : parseDuration s = some d) :
    minInt64 ≤ d ∧ d ≤ maxInt64 := by
  unfold parseDuration at h
  split_ifs at h with h0
  split at h
  next neg s' _ =>
    simp only at h
    split_ifs at h with h1
    all_goals
      split at h
      · cases h
      next sec d1 hsec =>
        split at h
        · cases h
        next ns d2 hns =>
          split_ifs at h with h2
          injection h with h; subst h
          have hb := durNanos_bound _ _ ns d2 hns
          apply durClamp_range <;> omega

/-! ### when shouldRetry retries (C18) -/

theorem sr_backoff_conditions (dis : Bool) (pol : Option Policy) (cs : CS) (a : Attempt) (r : ℚ) (dur : Int) (fp : Bool)
    (h : (shouldRetry dis pol cs a r).2 = .backoff dur fp) :
    ∃ pb rp, stage dis pol cs a = .charged pb ∧ pol = some rp ∧
      (throttleOpt cs.throttler).2 = false ∧ cs.numRetries + 1 < rp.maxAttempts := by
  cases hs : stage dis pol cs a with
  | early =>
    rw [shouldRetry_staged] at h; unfold stagedResult at h; rw [hs] at h
    simp only at h; split_ifs at h
  | abortPushback => rw [sr_abort dis pol cs a r hs] at h; cases h
  | notRetryable => rw [shouldRetry_staged] at h; unfold stagedResult at h; rw [hs] at h; cases h
  | charged pb =>
    obtain ⟨rp, hp, heq⟩ := sr_charged_decision dis pol cs a r pb hs
    rw [heq] at h
    unfold chargedResult at h
    split_ifs at h with h1 h2
    refine ⟨pb, rp, rfl, hp, by simpa using h1, by omega⟩

theorem chargedResult_not_transparent (rp : Policy) (cs : CS) (pb : Pushback) (r : ℚ) :
    (chargedResult rp cs pb r).2 ≠ .transparent := by
  unfold chargedResult
  split_ifs
  · simp
  · simp
  · cases pb <;> simp

theorem sr_transparent_conditions (dis : Bool) (pol : Option Policy) (cs : CS) (a : Attempt) (r : ℚ)
    (h : (shouldRetry dis pol cs a r).2 = .transparent) :
    cs.finished = false ∧ cs.committed = false ∧ a.drop = false ∧
    ((a.hasStream = false ∧ a.allowTransparent = true) ∨
     (cs.firstAttempt = true ∧ a.hasStream = true ∧ a.unprocessed = true)) := by
  rw [shouldRetry_staged] at h
  unfold stagedResult at h
  cases hs : stage dis pol cs a with
  | early =>
    rw [hs] at h
    simp only at h
    split_ifs at h with h1 h2 h3
    · have h1' : (cs.finished || cs.committed || a.drop) = false := by simpa using h1
      simp only [Bool.or_eq_false_iff] at h1'
      refine ⟨h1'.1.1, h1'.1.2, h1'.2, Or.inl ?_⟩
      simp only [Bool.and_eq_true, Bool.not_eq_true'] at h2; exact h2
    · have h1' : (cs.finished || cs.committed || a.drop) = false := by simpa using h1
      simp only [Bool.or_eq_false_iff] at h1'
      refine ⟨h1'.1.1, h1'.1.2, h1'.2, Or.inr ?_⟩
      simp only [Bool.and_eq_true] at h3; exact ⟨h3.1, h3.2.1, h3.2.2⟩
  | abortPushback => rw [hs] at h; cases h
  | notRetryable => rw [hs] at h; cases h
  | charged pb =>
    rw [hs] at h
    cases pol with
    | none => cases h
    | some rp => exact absurd h (chargedResult_not_transparent rp cs pb r)

end GrpcProofs.Lemmas.Retry
