import GrpcProofs.Lemmas.ClientConnMono
/-! Lemmas about `handleGoAway` (C14): which streams it touches and how. -/
namespace GrpcProofs.Lemmas.ClientConn
open GrpcModel.ClientConn

theorem cUnavailable_eq : cUnavailable = 14 := by decide

/-- `closeVictims n` has processed exactly the indices below `n` -/
theorem closeVictims_get (s : State) (id up : Nat) (n i : Nat) :
    (s.closeVictims id up n).streams[i]? =
      if i < n then (s.streams[i]?).map (fun x => if isVictim id up x then closeF (some cUnavailable) cUnavailable x else x)
      else s.streams[i]? := by
  induction n generalizing i with
  | zero => simp [State.closeVictims]
  | succ n ih =>
    unfold State.closeVictims
    simp only []
    have hn : (s.closeVictims id up n).streams[n]? = s.streams[n]? := by
      have := ih n
      simpa using this
    have ih := ih i
    by_cases hin : i = n
    · subst hin
      rw [hn]
      cases hx : s.streams[i]? with
      | none => simp [ih, hx]
      | some x =>
        simp only []
        split
        · rename_i hv
          simp [closeStream_streams, List.getElem?_modify, ih, hx, hv]
        · rename_i hv
          simp [ih, hx, hv]
    · have ih' := ih
      split
      · split
        · rw [closeStream_streams, List.getElem?_modify]
          have : ¬ n = i := fun h => hin h.symm
          simp only [this, if_false]
          rw [ih']
          by_cases h1 : i < n
          · have : i < n + 1 := by omega
            simp [h1, this]
          · have : ¬ i < n + 1 := by omega
            simp [h1, this]
        · rw [ih']
          by_cases h1 : i < n
          · have : i < n + 1 := by omega
            simp [h1, this]
          · have : ¬ i < n + 1 := by omega
            simp [h1, this]
      · rw [ih']
        by_cases h1 : i < n
        · have : i < n + 1 := by omega
          simp [h1, this]
        · have : ¬ i < n + 1 := by omega
          simp [h1, this]

theorem markVictims_get (s : State) (id up i : Nat) :
    (s.markVictims id up).streams[i]? = (s.streams[i]?).map (fun x => if isVictim id up x then markF x else x) := by
  simp [State.markVictims]

@[simp] theorem markVictims_len (s : State) (id up : Nat) : (s.markVictims id up).streams.length = s.streams.length := by
  simp [State.markVictims]

theorem isVictim_markF (id up : Nat) (x : Strm) : isVictim id up (markF x) = isVictim id up x := rfl

/-- what `handleGoAway`'s marking + closing does to the stream at index `i` -/
theorem goAway_victims_get (s : State) (id up i : Nat) (x : Strm) (hx : s.streams[i]? = some x) :
    ((s.markVictims id up).closeVictims id up s.streams.length).streams[i]? =
      some (if isVictim id up x then closeF (some cUnavailable) cUnavailable (markF x) else x) := by
  have hi : i < s.streams.length := (List.getElem?_eq_some_iff.mp hx).1
  have := closeVictims_get (s.markVictims id up) id up s.streams.length i
  rw [this, markVictims_get, hx]
  simp only [hi, if_true, Option.map_some]
  by_cases hv : isVictim id up x = true
  · simp [hv, isVictim_markF]
  · simp [hv]

@[simp] theorem goAwayFirst_streams (s : State) (c : Nat) (d : Bytes) : (s.goAwayFirst c d).streams = s.streams := by
  unfold State.goAwayFirst; splits <;> rfl
@[simp] theorem goAwayFirst_prev (s : State) (c : Nat) (d : Bytes) : (s.goAwayFirst c d).prevGoAwayID = s.prevGoAwayID := by
  unfold State.goAwayFirst; splits <;> rfl
@[simp] theorem goAwayFirst_ga (s : State) (c : Nat) (d : Bytes) : (s.goAwayFirst c d).goAwayClosed = true := by
  unfold State.goAwayFirst; splits <;> rfl
theorem goAwayFirst_tstate (s : State) (c : Nat) (d : Bytes) : (s.goAwayFirst c d).tstate = .draining := by
  unfold State.goAwayFirst; splits <;> simp_all

@[simp] theorem activeCount_congr {s t : State} (h : t.streams = s.streams) : t.activeCount = s.activeCount := by
  simp [State.activeCount, h]

/-- what `goAwayKill` does to the stream at index `i` -/
theorem goAwayKill_get (s : State) (id up i : Nat) (x : Strm) (hx : s.streams[i]? = some x) :
    (s.goAwayKill id up).1.streams[i]? =
      some (if s.activeCount ≠ 0 ∧ isVictim id up x = true then closeF (some cUnavailable) cUnavailable (markF x) else x) := by
  unfold State.goAwayKill
  simp only []
  have hac : ({ s with prevGoAwayID := id } : State).activeCount = s.activeCount := activeCount_congr rfl
  rw [hac]
  by_cases h0 : s.activeCount = 0
  · simp [h0, hx]
  · have : ¬ (s.activeCount == 0) = true := by simpa using h0
    simp only [this, if_false, Bool.false_eq_true]
    rw [goAway_victims_get (s := { s with prevGoAwayID := id }) (hx := hx)]
    simp [h0]

/-- `goAwayKill` reports an error exactly when there is no active stream -/
theorem goAwayKill_err (s : State) (id up : Nat) : (s.goAwayKill id up).2 = (s.activeCount == 0) := by
  unfold State.goAwayKill
  simp only []
  have hac : ({ s with prevGoAwayID := id } : State).activeCount = s.activeCount := activeCount_congr rfl
  rw [hac]
  split <;> simp_all

theorem closeVictims_tstate (m : State) (id up n : Nat) : (m.closeVictims id up n).tstate = m.tstate := by
  induction n with
  | zero => rfl
  | succ n ih => unfold State.closeVictims; simp only []; splits <;> simp [ih]

theorem closeVictims_ga (m : State) (id up n : Nat) : (m.closeVictims id up n).goAwayClosed = m.goAwayClosed := by
  induction n with
  | zero => rfl
  | succ n ih => unfold State.closeVictims; simp only []; splits <;> simp [ih]

@[simp] theorem goAwayKill_tstate (s : State) (id up : Nat) : (s.goAwayKill id up).1.tstate = s.tstate := by
  unfold State.goAwayKill
  simp only []
  split
  · rfl
  · simp only [closeVictims_tstate]; rfl

@[simp] theorem goAwayKill_ga (s : State) (id up : Nat) : (s.goAwayKill id up).1.goAwayClosed = s.goAwayClosed := by
  unfold State.goAwayKill
  simp only []
  split
  · rfl
  · simp only [closeVictims_ga]; rfl

/-- states the transport can be in: any event sequence from a fresh transport (any configuration) -/
def Reach (s : State) : Prop := ∃ ec hs mc mh es, s = run (init ec hs mc mh) es

theorem Reach.run {s : State} (h : Reach s) (es : List Ev) : Reach (run s es) := by
  obtain ⟨ec, a, b', c, es0, rfl⟩ := h
  refine ⟨ec, a, b', c, es0 ++ es, ?_⟩
  generalize init ec a b' c = t
  induction es0 generalizing t with
  | nil => rfl
  | cons e' es0 ih2 => simp only [List.cons_append, GrpcModel.ClientConn.run]; exact ih2 _

/-- a transport that has seen a GOAWAY is never `reachable` -/
theorem Reach.ga_notReachable {s : State} (h : Reach s) (hg : s.goAwayClosed = true) : s.tstate ≠ .reachable := by
  obtain ⟨ec, a, b', c, es, rfl⟩ := h
  rcases (mono_run (init ec a b' c) es).gaNew hg with h0 | h1
  · simp [init] at h0
  · exact h1

theorem closeP1_streams (s : State) (e : Bool) :
    (s.closeP1 e).streams = if s.tstate = .closing then s.streams else s.streams.map snapF := by
  unfold State.closeP1
  split
  · rfl
  · simp only []
    split <;> simp
@[simp] theorem put_readerDone (s : State) (it : Item) : (s.put it).readerDone = s.readerDone := by
  unfold State.put; split <;> rfl
theorem closeP1_readerDone (s : State) (e : Bool) : (s.closeP1 e).readerDone = s.readerDone := by
  unfold State.closeP1
  split
  · rfl
  · simp only []
    split <;> simp [State.notify]
theorem closeP1_tstate (s : State) (e : Bool) : (s.closeP1 e).tstate = .closing := by
  unfold State.closeP1
  split
  · assumption
  · simp only []
    split <;> simp

end GrpcProofs.Lemmas.ClientConn
