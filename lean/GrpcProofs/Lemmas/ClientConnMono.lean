import GrpcProofs.Lemmas.ClientConn
/-! `Mono` for the loopy / application / Close events, `mono_step`, `mono_run`. -/
namespace GrpcProofs.Lemmas.ClientConn
open GrpcModel.ClientConn

theorem mono_loopyFlush (s : State) : Mono s s.loopyFlush.1 := by
  unfold State.loopyFlush; splits; all_goals mono_leaf

theorem mono_release (s : State) : Mono s s.release.1 := by
  unfold State.release
  splits
  all_goals first
    | mono_leaf
    | (refine Mono.trans ?_ (mono_loopyExit ..); mono_leaf)

theorem mono_loopyAbort (s : State) : Mono s s.loopyAbort.1 := by
  unfold State.loopyAbort
  splits
  all_goals first
    | mono_leaf
    | (refine Mono.trans ?_ (mono_loopyExit ..); mono_leaf)

@[simp] theorem incWaiting_streams (s : State) : s.incWaiting.streams = s.streams := rfl
@[simp] theorem incWaiting_rpcs (s : State) : s.incWaiting.rpcs = s.rpcs := rfl
@[simp] theorem incWaiting_tstate (s : State) : s.incWaiting.tstate = s.tstate := rfl
@[simp] theorem incWaiting_nextID (s : State) : s.incWaiting.nextID = s.nextID := rfl
@[simp] theorem incWaiting_ga (s : State) : s.incWaiting.goAwayClosed = s.goAwayClosed := rfl
@[simp] theorem decWaiting_streams (s : State) : s.decWaiting.streams = s.streams := by unfold State.decWaiting; rfl
@[simp] theorem decWaiting_rpcs (s : State) : s.decWaiting.rpcs = s.rpcs := by unfold State.decWaiting; rfl
@[simp] theorem decWaiting_tstate (s : State) : s.decWaiting.tstate = s.tstate := by unfold State.decWaiting; rfl
@[simp] theorem decWaiting_nextID (s : State) : s.decWaiting.nextID = s.nextID := by unfold State.decWaiting; rfl
@[simp] theorem decWaiting_ga (s : State) : s.decWaiting.goAwayClosed = s.goAwayClosed := by unfold State.decWaiting; rfl
@[simp] theorem takeQuota_streams (s : State) : s.takeQuota.streams = s.streams := rfl
@[simp] theorem takeQuota_rpcs (s : State) : s.takeQuota.rpcs = s.rpcs := rfl
@[simp] theorem takeQuota_tstate (s : State) : s.takeQuota.tstate = s.tstate := rfl
@[simp] theorem takeQuota_nextID (s : State) : s.takeQuota.nextID = s.nextID := rfl
@[simp] theorem takeQuota_ga (s : State) : s.takeQuota.goAwayClosed = s.goAwayClosed := rfl

theorem mono_register (s : State) (k : Nat) (r : Rpc) (h : s.tstate = .reachable) : Mono s (s.register k r) := by
  unfold State.register
  constructor
  · simp; smono
  · simp; rmono
  all_goals simp [h]

theorem mono_tryNewStream (s : State) (k : Nat) (first : Bool) : Mono s (s.tryNewStream k first) := by
  unfold State.tryNewStream
  splits
  all_goals first
    | mono_leaf
    | (rename_i h; simp at h; refine Mono.trans ?_ (mono_register _ _ _ h); mono_leaf)

theorem mono_newRPC (s : State) (r : Bool) (d : Option Nat) : Mono s (s.newRPC r d) := by
  unfold State.newRPC
  simp only []
  refine Mono.trans ?_ (mono_tryNewStream ..)
  constructor
  · exact SMono.refl _
  · exact RMono.append (RMono.refl _) _
  all_goals (simp <;> (try (intros; simp_all)))

theorem mono_wake (s : State) (k : Nat) (v : Via) : Mono s (s.wake k v) := by
  unfold State.wake
  splits
  all_goals first
    | mono_leaf
    | exact mono_tryNewStream ..
    | (refine Mono.trans ?_ (mono_tryNewStream ..); mono_leaf)

theorem mono_ctxFire (s : State) (k : Nat) : Mono s (s.ctxFire k) := by
  unfold State.ctxFire; splits; all_goals mono_leaf

theorem mono_cancel (s : State) (k : Nat) : Mono s (s.cancel k) := by
  unfold State.cancel; mono_leaf

theorem mono_half (s : State) (k : Nat) : Mono s (s.half k) := by
  unfold State.half; splits; all_goals mono_leaf

theorem mono_appRead (s : State) (i : Nat) : Mono s (s.appRead i) := by
  unfold State.appRead; splits; all_goals mono_leaf

theorem mono_gracefulClose (s : State) : Mono s s.gracefulClose := by
  unfold State.gracefulClose
  splits
  all_goals first
    | mono_leaf
    | (refine Mono.trans ?_ (mono_closeP1 ..); mono_leaf)
    | (refine Mono.trans ?_ (mono_put ..); mono_leaf)

theorem mono_closeP2 (s : State) : Mono s s.closeP2 := by
  unfold State.closeP2; splits; all_goals mono_leaf

theorem mono_closeP3 (s : State) : Mono s s.closeP3 := by
  unfold State.closeP3
  splits
  all_goals first
    | mono_leaf
    | (generalize hX : State.closeSnapshot _ _ = t
       have ht : Mono s t := by rw [← hX]; exact mono_closeSnapshot ..
       exact ht.trans (by mono_leaf))

/-- every event is monotone -/
theorem mono_step (s : State) (e : Ev) : Mono s (step s e).1 := by
  cases e <;> simp only [step]
  · exact mono_newRPC ..
  · exact mono_wake ..
  · exact mono_half ..
  · exact mono_cancel ..
  · exact mono_ctxFire ..
  · exact mono_appRead ..
  · exact mono_onFrame ..
  · exact mono_loopyStep ..
  · exact mono_loopyFlush ..
  · exact mono_loopyAbort ..
  · mono_leaf
  · exact mono_release ..
  · mono_leaf
  · exact mono_gracefulClose ..
  · exact mono_closeP1 ..
  · exact mono_closeP2 ..
  · exact mono_closeP3 ..
  · mono_leaf

theorem mono_run (s : State) (es : List Ev) : Mono s (run s es) := by
  induction es generalizing s with
  | nil => exact Mono.refl _
  | cons e es ih => exact (mono_step s e).trans (ih _)

end GrpcProofs.Lemmas.ClientConn
