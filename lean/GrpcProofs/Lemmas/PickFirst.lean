/-
Helper lemmas for C34, the balancer state machine.
-/
import GrpcModel.Model.PickFirst
namespace GrpcProofs.Lemmas.PickFirst
open GrpcModel.PickFirst
open GrpcModel.LbConnState (ConnState)

/-! ### well-formedness of the SubConn map -/

structure WF (s : St) : Prop where
  addrs : (s.subConns.map (·.addr)).Nodup
  le : ∀ sc ∈ s.subConns, sc.id ≤ s.scSerial
  ids : (s.subConns.map (·.id)).Nodup

/-- membership in the map determines the entry by address, and by id -/
theorem eq_of_addr {l : List SC} (h : (l.map (·.addr)).Nodup) {x y : SC} (hx : x ∈ l) (hy : y ∈ l)
    (e : x.addr = y.addr) : x = y := by
  induction l with
  | nil => simp at hx
  | cons a t ih =>
    simp only [List.map_cons, List.nodup_cons, List.mem_map, not_exists, not_and] at h
    rcases List.mem_cons.mp hx with rfl | hx' <;> rcases List.mem_cons.mp hy with rfl | hy'
    · rfl
    · exact absurd e.symm (h.1 y hy')
    · exact absurd e (h.1 x hx')
    · exact ih h.2 hx' hy'

theorem eq_of_id {l : List SC} (h : (l.map (·.id)).Nodup) {x y : SC} (hx : x ∈ l) (hy : y ∈ l)
    (e : x.id = y.id) : x = y := by
  induction l with
  | nil => simp at hx
  | cons a t ih =>
    simp only [List.map_cons, List.nodup_cons, List.mem_map, not_exists, not_and] at h
    rcases List.mem_cons.mp hx with rfl | hx' <;> rcases List.mem_cons.mp hy with rfl | hy'
    · rfl
    · exact absurd e.symm (h.1 y hy')
    · exact absurd e (h.1 x hx')
    · exact ih h.2 hx' hy'

theorem getSC_mem (s : St) (a : Addr) (sc : SC) (h : getSC s a = some sc) : sc ∈ s.subConns ∧ sc.addr = a := by
  unfold getSC at h
  exact ⟨List.mem_of_find?_eq_some h, by simpa using List.find?_some h⟩

theorem activeSC_mem (s : St) (id : Nat) (sc : SC) (h : activeSC s id = some sc) : sc ∈ s.subConns ∧ sc.id = id := by
  unfold activeSC at h
  exact ⟨List.mem_of_find?_eq_some h, by simpa using List.find?_some h⟩

/-- replacing the entry of an address by one with the same address and id -/
theorem setSC_replace (s : St) (old new : SC) (hw : WF s) (hm : old ∈ s.subConns) (ha : new.addr = old.addr)
    (hi : new.id = old.id) :
    (setSC s new).subConns = s.subConns.map (fun x => if x.addr = new.addr then new else x) ∧
    (setSC s new).subConns.map (·.addr) = s.subConns.map (·.addr) ∧
    (setSC s new).subConns.map (·.id) = s.subConns.map (·.id) := by
  have hany : s.subConns.any (fun x => decide (x.addr = new.addr)) = true := by
    simp only [List.any_eq_true, decide_eq_true_eq]; exact ⟨old, hm, ha.symm⟩
  have e : (setSC s new).subConns = s.subConns.map (fun x => if x.addr = new.addr then new else x) := by
    simp [setSC, hany]
  refine ⟨e, ?_, ?_⟩
  · rw [e, List.map_map]; apply List.map_congr_left
    intro x _; simp only [Function.comp]; split
    · next h => exact h.symm
    · rfl
  · rw [e, List.map_map]; apply List.map_congr_left
    intro x hx; simp only [Function.comp]; split
    · next h =>
      have : x = old := eq_of_addr hw.addrs hx hm (h.trans ha)
      rw [hi, this]
    · rfl

theorem wf_setSC_replace (s : St) (old new : SC) (hw : WF s) (hm : old ∈ s.subConns) (ha : new.addr = old.addr)
    (hi : new.id = old.id) : WF (setSC s new) := by
  obtain ⟨e, e1, e2⟩ := setSC_replace s old new hw hm ha hi
  refine ⟨by rw [e1]; exact hw.addrs, ?_, by rw [e2]; exact hw.ids⟩
  intro sc hsc
  rw [e] at hsc
  obtain ⟨x, hx, rfl⟩ := List.mem_map.mp hsc
  show _ ≤ s.scSerial
  split
  · rw [hi]; exact hw.le old hm
  · exact hw.le x hx

theorem mem_setSC_replace (s : St) (old new : SC) (hw : WF s) (hm : old ∈ s.subConns) (ha : new.addr = old.addr)
    (hi : new.id = old.id) (x : SC) :
    x ∈ (setSC s new).subConns ↔ x = new ∨ (x ∈ s.subConns ∧ x.addr ≠ new.addr) := by
  obtain ⟨e, _, _⟩ := setSC_replace s old new hw hm ha hi
  rw [e, List.mem_map]
  constructor
  · rintro ⟨y, hy, rfl⟩
    split
    · exact Or.inl rfl
    · next h => exact Or.inr ⟨hy, h⟩
  · rintro (rfl | ⟨hx, hne⟩)
    · exact ⟨old, hm, by simp [ha]⟩
    · exact ⟨x, hx, by simp [hne]⟩

theorem wf_congr (s s' : St) (h : WF s) (e1 : s'.subConns = s.subConns) (e2 : s'.scSerial = s.scSerial) : WF s' :=
  ⟨by rw [e1]; exact h.addrs, by rw [e1, e2]; exact h.le, by rw [e1]; exact h.ids⟩

/-- a step that keeps addresses and ids of the map entries (field updates of entries) -/
theorem wf_of_keys (s s' : St) (h : WF s) (e1 : s'.subConns.map (·.addr) = s.subConns.map (·.addr))
    (e2 : s'.subConns.map (·.id) = s.subConns.map (·.id)) (e3 : s'.scSerial = s.scSerial) : WF s' := by
  refine ⟨by rw [e1]; exact h.addrs, ?_, by rw [e2]; exact h.ids⟩
  intro sc hsc
  have : sc.id ∈ s'.subConns.map (·.id) := List.mem_map.mpr ⟨sc, hsc, rfl⟩
  rw [e2] at this
  obtain ⟨x, hx, hxi⟩ := List.mem_map.mp this
  rw [e3, ← hxi]; exact h.le x hx

theorem wf_sublist (s s' : St) (h : WF s) (sub : s'.subConns.Sublist s.subConns) (e2 : s'.scSerial = s.scSerial) : WF s' :=
  ⟨h.addrs.sublist (sub.map _), by intro sc hsc; rw [e2]; exact h.le sc (sub.subset hsc), h.ids.sublist (sub.map _)⟩

theorem wf_setSC_new (s : St) (x : SC) (hw : WF s) (hn : getSC s x.addr = none) (hi : x.id = s.scSerial + 1) :
    WF (setSC { s with scSerial := s.scSerial + 1 } x) := by
  have hnone : ∀ y ∈ s.subConns, ¬ y.addr = x.addr := by
    intro y hy; have := List.find?_eq_none.mp hn y hy; simpa using this
  have hany : s.subConns.any (fun y => decide (y.addr = x.addr)) = false := by
    simp only [List.any_eq_false, decide_eq_true_eq]; exact hnone
  have e : (setSC { s with scSerial := s.scSerial + 1 } x).subConns = s.subConns ++ [x] := by simp [setSC, hany]
  refine ⟨?_, ?_, ?_⟩
  · rw [e, List.map_append, List.nodup_append]
    refine ⟨hw.addrs, by simp, ?_⟩
    intro a ha b hb
    simp only [List.map_cons, List.map_nil, List.mem_singleton] at hb
    obtain ⟨y, hy, rfl⟩ := List.mem_map.mp ha
    rw [hb]; exact hnone y hy
  · intro sc hsc
    rw [e] at hsc
    show sc.id ≤ s.scSerial + 1
    rcases List.mem_append.mp hsc with h | h
    · have := hw.le sc h; omega
    · simp only [List.mem_singleton] at h; rw [h, hi]; exact Nat.le_refl _
  · rw [e, List.map_append, List.nodup_append]
    refine ⟨hw.ids, by simp, ?_⟩
    intro a ha b hb
    simp only [List.map_cons, List.map_nil, List.mem_singleton] at hb
    obtain ⟨y, hy, rfl⟩ := List.mem_map.mp ha
    have := hw.le y hy
    rw [hb, hi]; omega

/-! ### functions that do not touch the map -/

theorem pushState_frame (s : St) (st : ConnState) (p : Picker) :
    (pushState s st p).1.subConns = s.subConns ∧ (pushState s st p).1.scSerial = s.scSerial ∧
    (pushState s st p).1.addrs = s.addrs ∧ (pushState s st p).1.idx = s.idx ∧
    (pushState s st p).1.firstPass = s.firstPass ∧ (pushState s st p).1.timer = s.timer ∧
    (pushState s st p).1.passLog = s.passLog ∧ (pushState s st p).1.health = s.health ∧
    (pushState s st p).1.passSerial = s.passSerial ∧ (pushState s st p).1.numTF = s.numTF := by
  unfold pushState forcePush; split <;> simp

theorem schedule_eq (s : St) : schedule s = { cancelTimer s with timer := hasNext s } := by
  have e : hasNext (cancelTimer s) = hasNext s := rfl
  cases h : hasNext s <;> simp only [schedule, e, h] <;> rfl

theorem schedule_frame (s : St) :
    (schedule s).subConns = s.subConns ∧ (schedule s).scSerial = s.scSerial ∧ (schedule s).addrs = s.addrs ∧
    (schedule s).idx = s.idx ∧ (schedule s).passLog = s.passLog ∧ (schedule s).state = s.state ∧
    (schedule s).picker = s.picker ∧ (schedule s).firstPass = s.firstPass ∧ (schedule s).sticky = s.sticky := by
  rw [schedule_eq]; simp [cancelTimer]

theorem increment_frame (s : St) :
    (increment s).1.subConns = s.subConns ∧ (increment s).1.scSerial = s.scSerial ∧ (increment s).1.addrs = s.addrs ∧
    (increment s).1.passLog = s.passLog ∧ (increment s).1.state = s.state ∧ (increment s).1.picker = s.picker ∧
    s.idx ≤ (increment s).1.idx ∧ ((increment s).2 = true → (increment s).1.idx = s.idx + 1 ∧ isValid (increment s).1 = true) ∧
    ((increment s).2 = false → isValid (increment s).1 = false) ∧ (increment s).1.firstPass = s.firstPass ∧
    (increment s).1.sticky = s.sticky ∧ (increment s).1.timer = s.timer := by
  unfold increment isValid
  split
  · next h => simp at h ⊢; exact h
  · next h => simp at h ⊢

theorem endFirstPass_frame (s : St) (e : Nat) :
    (endFirstPass s e).1.subConns = s.subConns ∧ (endFirstPass s e).1.scSerial = s.scSerial ∧
    (endFirstPass s e).1.addrs = s.addrs ∧ (endFirstPass s e).1.idx = s.idx ∧
    (endFirstPass s e).1.passLog = s.passLog ∧ (endFirstPass s e).1.timer = s.timer := by
  unfold endFirstPass
  split
  · simp
  · split
    · simp
    · obtain ⟨a, b, c, d, _, f, g, _⟩ := pushState_frame { s with firstPass := false } .tf (.connErr e)
      simp only [a, b, c, d, f, g]; simp

/-! ### requestConnectionLocked -/

/-- the only state reports a connection request can cause: TRANSIENT_FAILURE with a connection error -/
def OnlyTF (evs : List Ev) : Prop := ∀ st p, Ev.push st p ∈ evs → st = .tf ∧ ∃ e, p = .connErr e

theorem onlyTF_nil : OnlyTF [] := by intro st p h; simp at h

theorem onlyTF_append {a b : List Ev} (ha : OnlyTF a) (hb : OnlyTF b) : OnlyTF (a ++ b) := by
  intro st p h
  rcases List.mem_append.mp h with h | h
  · exact ha st p h
  · exact hb st p h

theorem onlyTF_of_noPush {a : List Ev} (h : ∀ st p, Ev.push st p ∉ a) : OnlyTF a :=
  fun st p hm => absurd hm (h st p)

/-- what a connection request leaves alone / may change -/
structure ReqPost (s s' : St) : Prop where
  wf : WF s'
  addrs : s'.addrs = s.addrs
  idx : s.idx ≤ s'.idx
  log : s'.passLog = s.passLog ∨ (s'.passLog = s.passLog ++ [s'.idx] ∧ s'.idx < s'.addrs.length)
  picker : s'.picker = s.picker ∨ ∃ e, s'.picker = .connErr e
  state : s'.state = s.state ∨ s'.state = .tf
  health : s'.health = s.health
  ps : (s'.picker = s.picker ∧ s'.state = s.state) ∨ (∃ e, s'.picker = .connErr e ∧ s'.state = .tf)

theorem endFirstPass_post (s : St) (e : Nat) (hw : WF s) :
    ReqPost s (endFirstPass s e).1 ∧ OnlyTF (endFirstPass s e).2 ∧ (endFirstPass s e).1.passLog = s.passLog := by
  obtain ⟨a, b, c, d, l, _⟩ := endFirstPass_frame s e
  refine ⟨⟨wf_congr s _ hw a b, c, by rw [d]; exact Nat.le_refl _, Or.inl l, ?_, ?_, ?_, ?_⟩, ?_, l⟩
  · unfold endFirstPass
    split
    · left; rfl
    · split
      · left; rfl
      · simp only [pushState, forcePush]; split
        · left; rfl
        · right; exact ⟨e, rfl⟩
  · unfold endFirstPass
    split
    · left; rfl
    · split
      · left; rfl
      · simp only [pushState, forcePush]; split
        · left; rfl
        · right; rfl
  · unfold endFirstPass
    split
    · rfl
    · split
      · rfl
      · simp only [pushState, forcePush]; split <;> rfl
  · unfold endFirstPass
    split
    · left; exact ⟨rfl, rfl⟩
    · split
      · left; exact ⟨rfl, rfl⟩
      · simp only [pushState, forcePush]; split
        · left; exact ⟨rfl, rfl⟩
        · right; exact ⟨e, rfl, rfl⟩
  · unfold endFirstPass
    split
    · exact onlyTF_nil
    · split
      · exact onlyTF_nil
      · apply onlyTF_append
        · simp only [pushState, forcePush]; split
          · exact onlyTF_nil
          · intro st p h; simp only [List.mem_singleton, Ev.push.injEq] at h; exact ⟨h.1, e, h.2⟩
        · apply onlyTF_of_noPush; intro st p h; simp at h

theorem reqPost_rebase {a b c : St} (h : ReqPost b c) (e1 : b.addrs = a.addrs) (e2 : a.idx ≤ b.idx)
    (e3 : b.passLog = a.passLog) (e4 : b.picker = a.picker) (e5 : b.state = a.state) (e6 : b.health = a.health) :
    ReqPost a c :=
  ⟨h.wf, h.addrs.trans e1, Nat.le_trans e2 h.idx, by rw [← e3]; exact h.log, by rw [← e4]; exact h.picker,
   by rw [← e5]; exact h.state, h.health.trans e6, by rw [← e4, ← e5]; exact h.ps⟩

theorem setSC_frame (s : St) (x : SC) :
    (setSC s x).addrs = s.addrs ∧ (setSC s x).idx = s.idx ∧ (setSC s x).passLog = s.passLog ∧
    (setSC s x).picker = s.picker ∧ (setSC s x).state = s.state ∧ (setSC s x).scSerial = s.scSerial ∧
    (setSC s x).health = s.health ∧ (setSC s x).firstPass = s.firstPass ∧ (setSC s x).timer = s.timer ∧
    (setSC s x).sticky = s.sticky ∧ (setSC s x).numTF = s.numTF ∧ (setSC s x).passSerial = s.passSerial := by
  simp [setSC]

theorem isValid_congr (s s' : St) (e1 : s'.addrs = s.addrs) (e2 : s'.idx = s.idx) : isValid s' = isValid s := by
  simp [isValid, e1, e2]

theorem currentAddress_congr (s s' : St) (e1 : s'.addrs = s.addrs) (e2 : s'.idx = s.idx) :
    currentAddress s' = currentAddress s := by
  simp [currentAddress, isValid, e1, e2]

theorem ensureSC_post (s : St) (cur : Addr) (hw : WF s) :
    WF (ensureSC s cur).1 ∧ (ensureSC s cur).2.1 ∈ (ensureSC s cur).1.subConns ∧ (ensureSC s cur).2.1.addr = cur ∧
    (ensureSC s cur).1.addrs = s.addrs ∧ (ensureSC s cur).1.idx = s.idx ∧ (ensureSC s cur).1.passLog = s.passLog ∧
    (ensureSC s cur).1.picker = s.picker ∧ (ensureSC s cur).1.state = s.state ∧ (ensureSC s cur).1.health = s.health ∧
    (∀ st p, Ev.push st p ∉ (ensureSC s cur).2.2) := by
  unfold ensureSC
  cases hg : getSC s cur with
  | some sd0 =>
    exact ⟨hw, (getSC_mem s cur _ hg).1, (getSC_mem s cur _ hg).2, rfl, rfl, rfl, rfl, rfl, rfl, by intro st p h; simp at h⟩
  | none =>
    have hwn := wf_setSC_new s { id := s.scSerial + 1, addr := cur } hw hg rfl
    obtain ⟨f1, f2, f3, f4, f5, _, f7, _⟩ := setSC_frame { s with scSerial := s.scSerial + 1 } { id := s.scSerial + 1, addr := cur }
    refine ⟨hwn, ?_, rfl, f1, f2, f3, f4, f5, f7, by intro st p h; simp at h⟩
    have hnone : ∀ y ∈ s.subConns, ¬ y.addr = cur := by
      intro y hy; have := List.find?_eq_none.mp hg y hy; simpa using this
    have hany : s.subConns.any (fun y => decide (y.addr = cur)) = false := by
      simp only [List.any_eq_false, decide_eq_true_eq]; exact hnone
    simp [setSC, hany]

theorem increment_health (s : St) : (increment s).1.health = s.health := by
  unfold increment; split <;> rfl

theorem requestLoop_post (fuel : Nat) (s : St) (ev : List Ev) (hw : WF s) (hev : OnlyTF ev) :
    ReqPost s (requestLoop fuel s ev).1 ∧ OnlyTF (requestLoop fuel s ev).2 := by
  induction fuel generalizing s ev with
  | zero =>
    exact ⟨⟨hw, rfl, Nat.le_refl _, Or.inl rfl, Or.inl rfl, Or.inl rfl, rfl, Or.inl ⟨rfl, rfl⟩⟩, hev⟩
  | succ fuel ih =>
    simp only [requestLoop]
    cases hcur : currentAddress s with
    | none => exact ⟨⟨hw, rfl, Nat.le_refl _, Or.inl rfl, Or.inl rfl, Or.inl rfl, rfl, Or.inl ⟨rfl, rfl⟩⟩, hev⟩
    | some cur =>
      simp only
      have hvalid : isValid s = true := by
        unfold currentAddress at hcur; split at hcur
        · next h => exact h
        · cases hcur
      obtain ⟨hw1, hmem, _, fa, fi, fl, fp, fs, fh, hnp⟩ := ensureSC_post s cur hw
      generalize ensureSC s cur = r at hw1 hmem fa fi fl fp fs fh hnp ⊢
      have hev1 : OnlyTF (ev ++ r.2.2) := onlyTF_append hev (onlyTF_of_noPush hnp)
      cases hraw : r.2.1.raw with
      | idle =>
        simp only
        obtain ⟨g1, g2, g3, g4, g5, g6, g7, _⟩ := schedule_frame { r.1 with passLog := r.1.passLog ++ [r.1.idx] }
        refine ⟨⟨wf_congr r.1 _ hw1 g1 g2, by rw [g3]; exact fa, by rw [g4]; simp [fi], ?_, by rw [g7]; exact Or.inl fp,
          by rw [g6]; exact Or.inl fs, ?_, by rw [g7, g6]; exact Or.inl ⟨fp, fs⟩⟩, ?_⟩
        · right; rw [g5, g4, g3]
          simp only [fl, fi, fa, true_and]
          simpa [isValid] using hvalid
        · rw [schedule_eq]; exact fh
        · exact onlyTF_append hev1 (onlyTF_of_noPush (by intro st p h; simp at h))
      | connecting =>
        simp only
        obtain ⟨g1, g2, g3, g4, g5, g6, g7, _⟩ := schedule_frame r.1
        refine ⟨⟨wf_congr r.1 _ hw1 g1 g2, by rw [g3]; exact fa, by rw [g4, fi]; exact Nat.le_refl _, Or.inl (by rw [g5]; exact fl),
          by rw [g7]; exact Or.inl fp, by rw [g6]; exact Or.inl fs, ?_, by rw [g7, g6]; exact Or.inl ⟨fp, fs⟩⟩, hev1⟩
        rw [schedule_eq]; exact fh
      | ready =>
        exact ⟨⟨hw1, fa, by rw [fi]; exact Nat.le_refl _, Or.inl fl, Or.inl fp, Or.inl fs, fh, Or.inl ⟨fp, fs⟩⟩, hev1⟩
      | shutdown =>
        exact ⟨⟨hw1, fa, by rw [fi]; exact Nat.le_refl _, Or.inl fl, Or.inl fp, Or.inl fs, fh, Or.inl ⟨fp, fs⟩⟩, hev1⟩
      | tf =>
        simp only
        have hw2 : WF (setSC r.1 r.2.1.markFailed) := wf_setSC_replace r.1 r.2.1 _ hw1 hmem rfl rfl
        obtain ⟨k1, k2, k3, k4, k5, _, k7, _⟩ := setSC_frame r.1 r.2.1.markFailed
        obtain ⟨i1, i2, i3, i4, i5, i6, i7, _⟩ := increment_frame (setSC r.1 r.2.1.markFailed)
        have hw3 : WF (increment (setSC r.1 r.2.1.markFailed)).1 := wf_congr _ _ hw2 i1 i2
        have hh := increment_health (setSC r.1 r.2.1.markFailed)
        split
        · obtain ⟨r1, r2⟩ := ih (increment (setSC r.1 r.2.1.markFailed)).1 (ev ++ r.2.2) hw3 hev1
          exact ⟨reqPost_rebase r1 (by rw [i3, k1, fa]) (by rw [← fi, ← k2]; exact i7) (by rw [i4, k3, fl])
            (by rw [i6, k4, fp]) (by rw [i5, k5, fs]) (by rw [hh, k7, fh]), r2⟩
        · obtain ⟨r1, r2, _⟩ := endFirstPass_post (increment (setSC r.1 r.2.1.markFailed)).1 r.2.1.lastErr hw3
          exact ⟨reqPost_rebase r1 (by rw [i3, k1, fa]) (by rw [← fi, ← k2]; exact i7) (by rw [i4, k3, fl])
            (by rw [i6, k4, fp]) (by rw [i5, k5, fs]) (by rw [hh, k7, fh]), onlyTF_append hev1 r2⟩

theorem requestConnection_post (s : St) (hw : WF s) :
    ReqPost s (requestConnection s).1 ∧ OnlyTF (requestConnection s).2 := by
  unfold requestConnection
  split
  · exact ⟨⟨hw, rfl, Nat.le_refl _, Or.inl rfl, Or.inl rfl, Or.inl rfl, rfl, Or.inl ⟨rfl, rfl⟩⟩, onlyTF_nil⟩
  · exact requestLoop_post _ s [] hw onlyTF_nil

/-! ### connection order bookkeeping -/

/-- the ghost log of the running pass is strictly increasing and never ahead of the list index -/
def PL (s : St) : Prop := s.passLog.Pairwise (· < ·) ∧ ∀ i ∈ s.passLog, i ≤ s.idx

/-- … and every logged position is already behind the index (a new request cannot repeat one) -/
def Fresh (s : St) : Prop := s.passLog.Pairwise (· < ·) ∧ ∀ i ∈ s.passLog, i < s.idx

theorem pl_nil (s : St) (h : s.passLog = []) : PL s := by simp [PL, h]
theorem fresh_nil (s : St) (h : s.passLog = []) : Fresh s := by simp [Fresh, h]

theorem pl_congr (s s' : St) (h : PL s) (e1 : s'.passLog = s.passLog) (e2 : s.idx ≤ s'.idx) : PL s' := by
  refine ⟨by rw [e1]; exact h.1, ?_⟩
  intro i hi; rw [e1] at hi; exact Nat.le_trans (h.2 i hi) e2

theorem pl_of_fresh (s : St) (h : Fresh s) : PL s := ⟨h.1, fun i hi => Nat.le_of_lt (h.2 i hi)⟩

theorem pl_of_reqPost (s s' : St) (hf : Fresh s) (hr : ReqPost s s') : PL s' := by
  rcases hr.log with h | ⟨h, _⟩
  · refine ⟨by rw [h]; exact hf.1, ?_⟩
    intro i hi; rw [h] at hi; exact Nat.le_trans (Nat.le_of_lt (hf.2 i hi)) hr.idx
  · refine ⟨?_, ?_⟩
    · rw [h, List.pairwise_append]
      refine ⟨hf.1, by simp, ?_⟩
      intro a ha b hb
      simp only [List.mem_singleton] at hb
      rw [hb]; exact Nat.lt_of_lt_of_le (hf.2 a ha) hr.idx
    · intro i hi
      rw [h] at hi
      rcases List.mem_append.mp hi with hi | hi
      · exact Nat.le_trans (Nat.le_of_lt (hf.2 i hi)) hr.idx
      · simp only [List.mem_singleton] at hi; rw [hi]; exact Nat.le_refl _

theorem fresh_increment (s : St) (h : PL s) (hi : (increment s).2 = true) : Fresh (increment s).1 := by
  obtain ⟨_, _, _, l, _, _, _, k, _⟩ := increment_frame s
  obtain ⟨k1, _⟩ := k hi
  refine ⟨by rw [l]; exact h.1, ?_⟩
  intro i hi'; rw [l] at hi'; rw [k1]; exact Nat.lt_succ_of_le (h.2 i hi')

/-! ### what may be reported as READY -/

/-- READY is reported exactly with a SubConn picker, and that SubConn is in the map with raw state READY -/
def ReadyOK (s' : St) (evs : List Ev) : Prop :=
  ∀ st p, Ev.push st p ∈ evs →
    (st = .ready ↔ ∃ X, p = .ready X) ∧ (∀ X, p = .ready X → ∃ sc ∈ s'.subConns, sc.id = X ∧ sc.raw = .ready)

theorem readyOK_of_onlyTF (s' : St) (evs : List Ev) (h : OnlyTF evs) : ReadyOK s' evs := by
  intro st p hm
  obtain ⟨h1, e, h2⟩ := h st p hm
  subst h1 h2
  refine ⟨⟨fun h => ?_, fun h => ?_⟩, fun X h => ?_⟩
  · cases h
  · obtain ⟨X, hX⟩ := h; cases hX
  · cases h

theorem readyOK_nil (s' : St) : ReadyOK s' [] := by intro st p h; simp at h

theorem readyOK_noPush (s' : St) (evs : List Ev) (h : ∀ st p, Ev.push st p ∉ evs) : ReadyOK s' evs :=
  fun st p hm => absurd hm (h st p)

theorem readyOK_append (s' : St) (a b : List Ev) (ha : ReadyOK s' a) (hb : ReadyOK s' b) : ReadyOK s' (a ++ b) := by
  intro st p hm
  rcases List.mem_append.mp hm with h | h
  · exact ha st p h
  · exact hb st p h

/-- the events of `pushState s st p` when (st, p) is not a READY report -/
theorem readyOK_pushState_other (s s' : St) (st : ConnState) (p : Picker) (h1 : st ≠ .ready) (h2 : ∀ X, p ≠ .ready X) :
    ReadyOK s' (pushState s st p).2 := by
  intro st' p' hm
  simp only [pushState, forcePush] at hm
  split at hm
  · simp at hm
  · simp only [List.mem_singleton, Ev.push.injEq] at hm
    obtain ⟨rfl, rfl⟩ := hm
    exact ⟨⟨fun h => absurd h h1, fun ⟨X, h⟩ => absurd h (h2 X)⟩, fun X h => absurd h (h2 X)⟩

theorem readyOK_pushState_ready (s s' : St) (sc : SC) (hm : sc ∈ s'.subConns) (hr : sc.raw = .ready) :
    ReadyOK s' (pushState s .ready (.ready sc.id)).2 := by
  intro st' p' h
  simp only [pushState, forcePush] at h
  split at h
  · simp at h
  · simp only [List.mem_singleton, Ev.push.injEq] at h
    obtain ⟨rfl, rfl⟩ := h
    exact ⟨⟨fun _ => ⟨_, rfl⟩, fun _ => rfl⟩, fun X hX => by cases hX; exact ⟨sc, hm, rfl, hr⟩⟩

/-! ### the invariant kept by every op -/

structure Good (s : St) : Prop where
  wf : WF s
  pl : PL s

theorem shutdownRemaining_frame (s : St) (sel : SC) :
    (shutdownRemaining s sel).1.subConns = [sel] ∧ (shutdownRemaining s sel).1.scSerial = s.scSerial ∧
    (shutdownRemaining s sel).1.passLog = s.passLog ∧ (shutdownRemaining s sel).1.idx = s.idx ∧
    (shutdownRemaining s sel).1.addrs = s.addrs ∧ (shutdownRemaining s sel).1.timer = false ∧
    (shutdownRemaining s sel).1.health = s.health ∧ (∀ st p, Ev.push st p ∉ (shutdownRemaining s sel).2) := by
  simp [shutdownRemaining, cancelTimer]

theorem wf_single (s : St) (sel : SC) (h : s.subConns = [sel]) (hle : sel.id ≤ s.scSerial) : WF s :=
  ⟨by simp [h], by intro sc hsc; rw [h] at hsc; simp only [List.mem_singleton] at hsc; rw [hsc]; exact hle, by simp [h]⟩

theorem seekTo_frame (s : St) (a : Addr) :
    (seekTo s a).1.subConns = s.subConns ∧ (seekTo s a).1.scSerial = s.scSerial ∧ (seekTo s a).1.addrs = s.addrs ∧
    (seekTo s a).1.health = s.health ∧ (seekTo s a).1.timer = s.timer ∧
    ((seekTo s a).2 = true → (seekTo s a).1.passLog = []) ∧
    ((seekTo s a).2 = false → (seekTo s a).1 = s) := by
  unfold seekTo
  cases s.addrs.findIdx? (· = a) <;> simp

theorem pl_setSC (s : St) (x : SC) (h : PL s) : PL (setSC s x) := by
  obtain ⟨_, f2, f3, _⟩ := setSC_frame s x
  exact pl_congr s _ h f3 (by rw [f2]; exact Nat.le_refl _)

theorem good_setSC_replace (s : St) (old new : SC) (h : Good s) (hm : old ∈ s.subConns) (ha : new.addr = old.addr)
    (hi : new.id = old.id) : Good (setSC s new) :=
  ⟨wf_setSC_replace s old new h.wf hm ha hi, pl_setSC s new h.pl⟩

theorem pl_pushState (s : St) (st : ConnState) (p : Picker) (h : PL s) : PL (pushState s st p).1 := by
  obtain ⟨_, _, _, d, _, _, g, _⟩ := pushState_frame s st p
  exact pl_congr s _ h g (by rw [d]; exact Nat.le_refl _)

theorem good_pushState (s : St) (st : ConnState) (p : Picker) (h : Good s) : Good (pushState s st p).1 := by
  obtain ⟨a, b, _⟩ := pushState_frame s st p
  exact ⟨wf_congr s _ h.wf a b, pl_pushState s st p h.pl⟩

theorem mem_pushState (s : St) (st : ConnState) (p : Picker) (x : SC) :
    x ∈ (pushState s st p).1.subConns ↔ x ∈ s.subConns := by
  rw [(pushState_frame s st p).1]

/-- READY branch -/
theorem scReady_post (s : St) (sd : SC) (h : Good s) (hm : sd ∈ s.subConns) (hr : sd.raw = .ready) :
    Good (scReady s sd).1 ∧ ReadyOK (scReady s sd).1 (scReady s sd).2 := by
  obtain ⟨a1, a2, a3, a4, a5, _, _, anp⟩ := shutdownRemaining_frame s sd
  have hle : sd.id ≤ s.scSerial := h.wf.le sd hm
  -- after shutdownRemaining (+ the ghost update)
  have hw1 : WF { (shutdownRemaining s sd).1 with sticky := false } :=
    wf_single _ sd a1 (by show sd.id ≤ (shutdownRemaining s sd).1.scSerial; rw [a2]; exact hle)
  have hpl1 : PL { (shutdownRemaining s sd).1 with sticky := false } :=
    pl_congr s _ h.pl a3 (by show s.idx ≤ (shutdownRemaining s sd).1.idx; rw [a4]; exact Nat.le_refl _)
  obtain ⟨b1, b2, _, _, _, b6, b7⟩ := seekTo_frame { (shutdownRemaining s sd).1 with sticky := false } sd.addr
  simp only [scReady]
  generalize hr2 : seekTo { (shutdownRemaining s sd).1 with sticky := false } sd.addr = r2 at b1 b2 b6 b7 ⊢
  have hw2 : WF r2.1 := wf_congr _ _ hw1 b1 b2
  have hmem2 : sd ∈ r2.1.subConns := by rw [b1]; show sd ∈ (shutdownRemaining s sd).1.subConns; rw [a1]; simp
  cases hfound : r2.2 with
  | false =>
    simp only [Bool.not_false, if_true]
    have := b7 hfound
    refine ⟨⟨hw2, by rw [this]; exact hpl1⟩, readyOK_noPush _ _ anp⟩
  | true =>
    simp only [Bool.not_true, Bool.false_eq_true, if_false]
    have hpl2 : PL r2.1 := pl_nil _ (b6 hfound)
    have hg2 : Good r2.1 := ⟨hw2, hpl2⟩
    split
    · -- no health listener: READY with the SubConn
      have hg3 := good_setSC_replace r2.1 sd { sd with eff := .ready } hg2 hmem2 rfl rfl
      refine ⟨good_pushState _ _ _ hg3, ?_⟩
      apply readyOK_append _ _ _ (readyOK_noPush _ _ anp)
      have hin : ({ sd with eff := .ready } : SC) ∈ (pushState (setSC r2.1 { sd with eff := .ready }) .ready (.ready sd.id)).1.subConns := by
        rw [mem_pushState, mem_setSC_replace r2.1 sd { sd with eff := .ready } hw2 hmem2 rfl rfl]; exact Or.inl rfl
      exact readyOK_pushState_ready _ _ { sd with eff := .ready } hin hr
    · -- health listener: CONNECTING until the listener says READY
      have hg3 := good_setSC_replace r2.1 sd { sd with eff := .connecting, healthReg := true } hg2 hmem2 rfl rfl
      refine ⟨good_pushState _ _ _ hg3, ?_⟩
      apply readyOK_append
      · apply readyOK_append _ _ _ (readyOK_noPush _ _ anp)
        exact readyOK_pushState_other _ _ _ _ (by decide) (by intro X h; cases h)
      · exact readyOK_noPush _ _ (by intro st p h; simp at h)

/-- back-to-IDLE branch -/
theorem scToIdle_post (s : St) (sd : SC) (new : ConnState) (h : Good s) (hm : sd ∈ s.subConns) :
    Good (scToIdle s sd new).1 ∧ ReadyOK (scToIdle s sd new).1 (scToIdle s sd new).2 := by
  obtain ⟨a1, a2, _, _, _, _, _, anp⟩ := shutdownRemaining_frame s sd
  have hle : sd.id ≤ s.scSerial := h.wf.le sd hm
  have hw1 : WF (shutdownRemaining s sd).1 := wf_single _ sd a1 (by rw [a2]; exact hle)
  have hmem1 : sd ∈ (shutdownRemaining s sd).1.subConns := by rw [a1]; simp
  have hw2 := wf_setSC_replace (shutdownRemaining s sd).1 sd { sd with eff := new } hw1 hmem1 rfl rfl
  simp only [scToIdle]
  refine ⟨good_pushState _ _ _ ⟨wf_congr _ _ hw2 rfl rfl, pl_nil _ rfl⟩, ?_⟩
  apply readyOK_append _ _ _ (readyOK_noPush _ _ anp)
  exact readyOK_pushState_other _ _ _ _ (by decide) (by intro X h; cases h)

theorem good_cancelTimer (s : St) (h : Good s) : Good (cancelTimer s) :=
  ⟨wf_congr s _ h.wf rfl rfl, pl_congr s _ h.pl rfl (Nat.le_refl _)⟩

theorem good_endFirstPass (s : St) (e : Nat) (h : Good s) :
    Good (endFirstPass s e).1 ∧ ReadyOK (endFirstPass s e).1 (endFirstPass s e).2 := by
  obtain ⟨r1, r2, l⟩ := endFirstPass_post s e h.wf
  obtain ⟨_, _, _, d, _⟩ := endFirstPass_frame s e
  exact ⟨⟨r1.wf, pl_congr s _ h.pl l (by rw [d]; exact Nat.le_refl _)⟩, readyOK_of_onlyTF _ _ r2⟩

theorem good_requestConnection (s : St) (hw : WF s) (hf : Fresh s) :
    Good (requestConnection s).1 ∧ ReadyOK (requestConnection s).1 (requestConnection s).2 := by
  obtain ⟨r1, r2⟩ := requestConnection_post s hw
  exact ⟨⟨r1.wf, pl_of_reqPost s _ hf r1⟩, readyOK_of_onlyTF _ _ r2⟩

theorem scFirstPass_post (s : St) (sd : SC) (new : ConnState) (err : Nat) (h : Good s) (hm : sd ∈ s.subConns) :
    Good (scFirstPass s sd new err).1 ∧ ReadyOK (scFirstPass s sd new err).1 (scFirstPass s sd new err).2 := by
  cases new with
  | connecting =>
    simp only [scFirstPass]
    split
    · exact ⟨good_pushState _ _ _ (good_setSC_replace s sd { sd with eff := .connecting } h hm rfl rfl),
        readyOK_pushState_other _ _ _ _ (by decide) (by intro X h; cases h)⟩
    · exact ⟨h, readyOK_nil _⟩
  | tf =>
    simp only [scFirstPass]
    have hg1 := good_setSC_replace s sd { sd with lastErr := err, eff := .tf } h hm rfl rfl
    split
    · split
      · next hinc =>
        have hg2 := good_cancelTimer _ hg1
        have hw3 : WF (increment (cancelTimer (setSC s { sd with lastErr := err, eff := .tf }))).1 := by
          obtain ⟨i1, i2, _⟩ := increment_frame (cancelTimer (setSC s { sd with lastErr := err, eff := .tf }))
          exact wf_congr _ _ hg2.wf i1 i2
        exact good_requestConnection _ hw3 (fresh_increment _ hg2.pl hinc)
      · have hg2 := good_cancelTimer _ hg1
        obtain ⟨i1, i2, _, i4, _, _, i7, _⟩ := increment_frame (cancelTimer (setSC s { sd with lastErr := err, eff := .tf }))
        exact good_endFirstPass _ err ⟨wf_congr _ _ hg2.wf i1 i2, pl_congr _ _ hg2.pl i4 i7⟩
    · exact good_endFirstPass _ err hg1
  | idle => exact ⟨h, readyOK_nil _⟩
  | ready => exact ⟨h, readyOK_nil _⟩
  | shutdown => exact ⟨h, readyOK_nil _⟩

theorem scLater_post (s : St) (sd : SC) (new : ConnState) (err : Nat) (h : Good s) (hm : sd ∈ s.subConns) :
    Good (scLater s sd new err).1 ∧ ReadyOK (scLater s sd new err).1 (scLater s sd new err).2 := by
  cases new with
  | tf =>
    simp only [scLater]
    have hg0 : Good { s with numTF := (s.numTF + 1) % s.subConns.length } :=
      ⟨wf_congr s _ h.wf rfl rfl, pl_congr s _ h.pl rfl (Nat.le_refl _)⟩
    have hg1 := good_setSC_replace _ sd { sd with lastErr := err } hg0 hm rfl rfl
    split
    · exact ⟨good_pushState _ _ _ hg1, readyOK_pushState_other _ _ _ _ (by decide) (by intro X h; cases h)⟩
    · exact ⟨hg1, readyOK_nil _⟩
  | idle => exact ⟨h, readyOK_noPush _ _ (by intro st p hp; simp [scLater] at hp)⟩
  | connecting => exact ⟨h, readyOK_nil _⟩
  | ready => exact ⟨h, readyOK_nil _⟩
  | shutdown => exact ⟨h, readyOK_nil _⟩

theorem withRaw_keys (sd : SC) (new : ConnState) : (sd.withRaw new).addr = sd.addr ∧ (sd.withRaw new).id = sd.id ∧
    (sd.withRaw new).raw = new := ⟨rfl, rfl, rfl⟩

theorem scState_post (s : St) (id : Nat) (new : ConnState) (err : Nat) (h : Good s) :
    Good (scState s id new err).1 ∧ ReadyOK (scState s id new err).1 (scState s id new err).2 := by
  simp only [scState]
  cases ha : activeSC s id with
  | none => exact ⟨h, readyOK_nil _⟩
  | some sd0 =>
    simp only
    obtain ⟨hm0, _⟩ := activeSC_mem s id sd0 ha
    split
    · exact ⟨good_setSC_replace s sd0 _ h hm0 rfl rfl, readyOK_nil _⟩
    · have hg1 := good_setSC_replace s sd0 (sd0.withRaw new) h hm0 rfl rfl
      have hm1 : sd0.withRaw new ∈ (setSC s (sd0.withRaw new)).subConns := by
        rw [mem_setSC_replace s sd0 (sd0.withRaw new) h.wf hm0 rfl rfl]; exact Or.inl rfl
      split
      · next hr => exact scReady_post _ _ hg1 hm1 (by rw [(withRaw_keys sd0 new).2.2]; exact hr)
      · split
        · exact scToIdle_post _ _ new hg1 hm1
        · split
          · exact scFirstPass_post _ _ new err hg1 hm1
          · exact scLater_post _ _ new err hg1 hm1

theorem healthState_post (s : St) (id : Nat) (st : ConnState) (err : Nat) (h : Good s)
    (hok : ∀ sd, activeSC s id = some sd → sd.raw = .ready) :
    Good (healthState s id st err).1 ∧ ReadyOK (healthState s id st err).1 (healthState s id st err).2 := by
  simp only [healthState]
  cases ha : activeSC s id with
  | none => exact ⟨h, readyOK_nil _⟩
  | some sd =>
    simp only
    obtain ⟨hm0, _⟩ := activeSC_mem s id sd ha
    have hg1 := good_setSC_replace s sd { sd with eff := st } h hm0 rfl rfl
    have hm1 : ({ sd with eff := st } : SC) ∈ (setSC s { sd with eff := st }).subConns := by
      rw [mem_setSC_replace s sd { sd with eff := st } h.wf hm0 rfl rfl]; exact Or.inl rfl
    cases st with
    | ready =>
      refine ⟨good_pushState _ _ _ hg1, ?_⟩
      have hin : ({ sd with eff := .ready } : SC) ∈ (pushState (setSC s { sd with eff := .ready }) .ready (.ready sd.id)).1.subConns := by
        rw [mem_pushState]; exact hm1
      exact readyOK_pushState_ready _ _ { sd with eff := .ready } hin (hok sd ha)
    | tf => exact ⟨good_pushState _ _ _ hg1, readyOK_pushState_other _ _ _ _ (by decide) (by intro X h; cases h)⟩
    | connecting => exact ⟨good_pushState _ _ _ hg1, readyOK_pushState_other _ _ _ _ (by decide) (by intro X h; cases h)⟩
    | idle => exact ⟨hg1, readyOK_nil _⟩
    | shutdown => exact ⟨hg1, readyOK_nil _⟩

theorem startFirstPass_post (s : St) (h : WF s) :
    Good (startFirstPass s).1 ∧ ReadyOK (startFirstPass s).1 (startFirstPass s).2 := by
  unfold startFirstPass
  apply good_requestConnection
  · apply wf_of_keys s _ h <;> simp [List.map_map, Function.comp_def]
  · exact fresh_nil _ rfl

theorem forcePush_frame (s : St) (st : ConnState) (p : Picker) :
    (forcePush s st p).1.subConns = s.subConns ∧ (forcePush s st p).1.scSerial = s.scSerial ∧
    (forcePush s st p).1.passLog = s.passLog ∧ (forcePush s st p).1.idx = s.idx := by
  simp [forcePush]

theorem readyOK_forcePush_other (s s' : St) (st : ConnState) (p : Picker) (h1 : st ≠ .ready) (h2 : ∀ X, p ≠ .ready X) :
    ReadyOK s' (forcePush s st p).2 := by
  intro st' p' hm
  simp only [forcePush, List.mem_singleton, Ev.push.injEq] at hm
  obtain ⟨rfl, rfl⟩ := hm
  exact ⟨⟨fun h => absurd h h1, fun ⟨X, h⟩ => absurd h (h2 X)⟩, fun X h => absurd h (h2 X)⟩

theorem resolverError_post (s : St) (h : Good s) :
    Good (resolverError s).1 ∧ ReadyOK (resolverError s).1 (resolverError s).2 := by
  unfold resolverError
  split
  · exact ⟨h, readyOK_nil _⟩
  · exact ⟨good_pushState _ _ _ h, readyOK_pushState_other _ _ _ _ (by decide) (by intro X h; cases h)⟩

theorem exitIdle_post (s : St) (h : Good s) :
    Good (exitIdle s).1 ∧ ReadyOK (exitIdle s).1 (exitIdle s).2 := by
  unfold exitIdle
  split
  · have hg1 := good_pushState s .connecting .queue h
    obtain ⟨g, r⟩ := startFirstPass_post _ hg1.wf
    exact ⟨g, readyOK_append _ _ _ (readyOK_pushState_other _ _ _ _ (by decide) (by intro X h; cases h)) r⟩
  · exact ⟨h, readyOK_nil _⟩

theorem timerCallback_post (s : St) (c : Bool) (h : Good s) :
    Good (timerCallback s c).1 ∧ ReadyOK (timerCallback s c).1 (timerCallback s c).2 := by
  unfold timerCallback
  split
  · exact ⟨h, readyOK_nil _⟩
  · obtain ⟨i1, i2, _, i4, _, _, i7, _⟩ := increment_frame s
    simp only
    split
    · next hinc => exact good_requestConnection _ (wf_congr _ _ h.wf i1 i2) (fresh_increment _ h.pl hinc)
    · exact ⟨⟨wf_congr _ _ h.wf i1 i2, pl_congr _ _ h.pl i4 i7⟩, readyOK_nil _⟩

theorem timerFire_post (s : St) (h : Good s) :
    Good (timerFire s).1 ∧ ReadyOK (timerFire s).1 (timerFire s).2 := by
  unfold timerFire
  split
  · exact ⟨h, readyOK_nil _⟩
  · exact timerCallback_post _ false ⟨wf_congr s _ h.wf rfl rfl, pl_congr s _ h.pl rfl (Nat.le_refl _)⟩

theorem lateFire_post (s : St) (h : Good s) :
    Good (lateFire s).1 ∧ ReadyOK (lateFire s).1 (lateFire s).2 := by
  unfold lateFire
  split
  · exact ⟨h, readyOK_nil _⟩
  · exact timerCallback_post _ true ⟨wf_congr s _ h.wf rfl rfl, pl_congr s _ h.pl rfl (Nat.le_refl _)⟩

theorem close_post (s : St) (h : Good s) : Good (close s).1 ∧ ReadyOK (close s).1 (close s).2 := by
  simp only [close, closeSubConns, cancelTimer]
  exact ⟨⟨⟨by simp, by intro sc h; simp at h, by simp⟩, pl_congr s _ h.pl rfl (Nat.le_refl _)⟩,
    readyOK_noPush _ _ (by intro st p h; simp at h)⟩

theorem updateEmpty_post (s : St) : Good (updateEmpty s).1 ∧ ReadyOK (updateEmpty s).1 (updateEmpty s).2 := by
  simp only [updateEmpty, closeSubConns]
  have hg : Good ({ s with subConns := [], addrs := [], idx := 0, sticky := false, passLog := [], passSerial := s.passSerial + 1 } : St) :=
    ⟨⟨by simp, by intro sc h; simp at h, by simp⟩, pl_nil _ rfl⟩
  obtain ⟨g, r⟩ := resolverError_post _ hg
  exact ⟨g, readyOK_append _ _ _ (readyOK_noPush _ _ (by intro st p h; simp at h)) r⟩

theorem updateTail_post (s : St) (b : Bool) (n : Nat) (h : Good s) :
    Good (updateTail s b n).1 ∧ ReadyOK (updateTail s b n).1 (updateTail s b n).2 := by
  simp only [updateTail]
  split
  · obtain ⟨a1, a2, _⟩ := forcePush_frame s .connecting .queue
    obtain ⟨g, r⟩ := startFirstPass_post _ (wf_congr s _ h.wf a1 a2)
    exact ⟨g, readyOK_append _ _ _ (readyOK_forcePush_other _ _ _ _ (by decide) (by intro X h; cases h)) r⟩
  · split
    · exact startFirstPass_post s h.wf
    · exact ⟨h, readyOK_nil _⟩

theorem updateNonEmpty_post (s : St) (hl : Bool) (raw : List Addr) (h : Good s) :
    Good (updateNonEmpty s hl raw).1 ∧ ReadyOK (updateNonEmpty s hl raw).1 (updateNonEmpty s hl raw).2 := by
  simp only [updateNonEmpty]
  have hw2 : WF ({ s with health := hl, addrs := preprocess raw, idx := 0, passLog := [], passSerial := s.passSerial + 1 } : St) :=
    wf_congr s _ h.wf rfl rfl
  have rest : ∀ b : Bool,
      Good (updateTail (reconcile ({ s with health := hl, addrs := preprocess raw, idx := 0, passLog := [], passSerial := s.passSerial + 1 } : St) (preprocess raw)).1 b s.addrs.length).1 ∧
      ReadyOK (updateTail (reconcile ({ s with health := hl, addrs := preprocess raw, idx := 0, passLog := [], passSerial := s.passSerial + 1 } : St) (preprocess raw)).1 b s.addrs.length).1
        ((reconcile ({ s with health := hl, addrs := preprocess raw, idx := 0, passLog := [], passSerial := s.passSerial + 1 } : St) (preprocess raw)).2 ++
         (updateTail (reconcile ({ s with health := hl, addrs := preprocess raw, idx := 0, passLog := [], passSerial := s.passSerial + 1 } : St) (preprocess raw)).1 b s.addrs.length).2) := by
    intro b
    have hg3 : Good (reconcile ({ s with health := hl, addrs := preprocess raw, idx := 0, passLog := [], passSerial := s.passSerial + 1 } : St) (preprocess raw)).1 :=
      ⟨wf_sublist _ _ hw2 List.filter_sublist rfl, pl_nil _ rfl⟩
    obtain ⟨g, r⟩ := updateTail_post _ b s.addrs.length hg3
    exact ⟨g, readyOK_append _ _ _ (readyOK_noPush _ _ (by intro st p h; simp [reconcile] at h)) r⟩
  cases hp : prevReadyAddr { s with health := hl } with
  | none =>
    simp only [Bool.false_eq_true, if_false, Option.isSome_none]
    exact rest false
  | some a =>
    simp only [Option.isSome_some]
    split
    · next hk =>
      obtain ⟨b1, b2, _, _, _, b6, _⟩ := seekTo_frame ({ s with health := hl, addrs := preprocess raw, idx := 0, passLog := [], passSerial := s.passSerial + 1 } : St) a
      exact ⟨⟨wf_congr _ _ hw2 b1 b2, pl_nil _ (b6 hk)⟩, readyOK_nil _⟩
    · exact rest true

theorem updateCCS_post (s : St) (hl : Bool) (raw : List Addr) (h : Good s) :
    Good (updateCCS s hl raw).1 ∧ ReadyOK (updateCCS s hl raw).1 (updateCCS s hl raw).2.1 := by
  simp only [updateCCS]
  split
  · exact updateEmpty_post _
  · exact updateNonEmpty_post _ hl raw (good_cancelTimer s h)

theorem pick_post (s : St) (h : Good s) : Good (pick s).1 ∧ ReadyOK (pick s).1 (pick s).2.1 := by
  unfold pick
  split
  all_goals first
    | exact ⟨h, readyOK_nil _⟩
    | skip
  next used =>
    split
    · exact ⟨h, readyOK_nil _⟩
    · exact exitIdle_post _ ⟨wf_congr s _ h.wf rfl rfl, pl_congr s _ h.pl rfl (Nat.le_refl _)⟩

/-- the fake channel's rules (what the real channel guarantees to a balancer) -/
def opOk (s : St) : Op → Bool
  | .sc id x _ => decide (1 ≤ id ∧ id ≤ s.scSerial) && (x != .shutdown || (activeSC s id).isNone)
  | .health id _ _ => (activeSC s id).all fun sc => sc.healthReg && sc.raw == .ready
  | _ => true

theorem step_post (s : St) (op : Op) (h : Good s) (hok : opOk s op = true) :
    Good (step s op).1 ∧ ReadyOK (step s op).1 (step s op).2.evs := by
  cases op with
  | update hl raw => exact updateCCS_post s hl raw h
  | resErr => exact resolverError_post s h
  | sc id st err => exact scState_post s id st err h
  | health id st err =>
    apply healthState_post s id st err h
    intro sd hsd
    simp only [opOk, hsd, Option.all_some, Bool.and_eq_true, beq_iff_eq] at hok
    exact hok.2
  | tick => exact timerFire_post s h
  | late => exact lateFire_post s h
  | exitIdle => exact exitIdle_post s h
  | pick => exact pick_post s h
  | close => exact close_post s h

theorem good_init : Good {} := ⟨⟨by simp, by intro sc h; simp at h, by simp⟩, pl_nil _ rfl⟩

/-- histories in which the channel plays by its rules -/
def RunOk : St → List Op → Prop
  | _, [] => True
  | s, op :: t => opOk s op = true ∧ RunOk (step s op).1 t

theorem good_run (s : St) (ops : List Op) (h : Good s) (hok : RunOk s ops) : Good (run s ops) := by
  induction ops generalizing s with
  | nil => exact h
  | cons op t ih => exact ih _ (step_post s op h hok.1).1 hok.2

/-! ### once one becomes READY all others are shut down -/

theorem scReady_subConns (s : St) (sd : SC) (hw : WF s) (hm : sd ∈ s.subConns) :
    (scReady s sd).1.subConns.map (·.id) = [sd.id] ∧
    ∀ x ∈ s.subConns, x.id ≠ sd.id → Ev.sd x.id ∈ (scReady s sd).2 := by
  obtain ⟨a1, a2, _⟩ := shutdownRemaining_frame s sd
  have hle : sd.id ≤ s.scSerial := hw.le sd hm
  have hw1 : WF { (shutdownRemaining s sd).1 with sticky := false } :=
    wf_single _ sd a1 (by show sd.id ≤ (shutdownRemaining s sd).1.scSerial; rw [a2]; exact hle)
  obtain ⟨b1, b2, _⟩ := seekTo_frame { (shutdownRemaining s sd).1 with sticky := false } sd.addr
  have hsd : ∀ x ∈ s.subConns, x.id ≠ sd.id → Ev.sd x.id ∈ (shutdownRemaining s sd).2 := by
    intro x hx hne
    simp only [shutdownRemaining, List.mem_map, List.mem_filter]
    exact ⟨x, ⟨hx, by simpa using hne⟩, rfl⟩
  simp only [scReady]
  generalize seekTo { (shutdownRemaining s sd).1 with sticky := false } sd.addr = r2 at b1 b2 ⊢
  have hw2 : WF r2.1 := wf_congr _ _ hw1 b1 b2
  have hsub : r2.1.subConns = [sd] := by rw [b1]; exact a1
  have hmem2 : sd ∈ r2.1.subConns := by rw [hsub]; simp
  split
  · exact ⟨by rw [hsub]; rfl, hsd⟩
  · split
    · refine ⟨?_, fun x hx hne => List.mem_append_left _ (hsd x hx hne)⟩
      rw [(pushState_frame _ _ _).1, (setSC_replace r2.1 sd { sd with eff := .ready } hw2 hmem2 rfl rfl).2.2, hsub]; rfl
    · refine ⟨?_, fun x hx hne => List.mem_append_left _ (List.mem_append_left _ (hsd x hx hne))⟩
      rw [(pushState_frame _ _ _).1, (setSC_replace r2.1 sd { sd with eff := .connecting, healthReg := true } hw2 hmem2 rfl rfl).2.2, hsub]; rfl

theorem scState_ready_others (s : St) (id : Nat) (err : Nat) (sd0 : SC) (hw : WF s) (ha : activeSC s id = some sd0) :
    (scState s id .ready err).1.subConns.map (·.id) = [id] ∧
    ∀ x ∈ s.subConns, x.id ≠ id → Ev.sd x.id ∈ (scState s id .ready err).2 := by
  obtain ⟨hm0, hid⟩ := activeSC_mem s id sd0 ha
  have hw1 := wf_setSC_replace s sd0 (sd0.withRaw .ready) hw hm0 rfl rfl
  have hm1 : sd0.withRaw .ready ∈ (setSC s (sd0.withRaw .ready)).subConns := by
    rw [mem_setSC_replace s sd0 (sd0.withRaw .ready) hw hm0 rfl rfl]; exact Or.inl rfl
  obtain ⟨r1, r2⟩ := scReady_subConns (setSC s (sd0.withRaw .ready)) (sd0.withRaw .ready) hw1 hm1
  simp only [scState, ha]
  simp only [show (ConnState.ready = ConnState.shutdown) = False from by simp, if_false, if_true]
  refine ⟨by rw [r1]; show [sd0.id] = [id]; rw [hid], ?_⟩
  intro x hx hne
  apply r2 x
  · rw [mem_setSC_replace s sd0 (sd0.withRaw .ready) hw hm0 rfl rfl]
    right
    refine ⟨hx, ?_⟩
    intro he
    have : x = sd0 := eq_of_addr hw.addrs hx hm0 he
    rw [this, hid] at hne; exact hne rfl
  · show x.id ≠ sd0.id; rw [hid]; exact hne

/-! ### after every address failed TRANSIENT_FAILURE is reported -/

/-- the first pass cannot be left hanging: past the end of the list with every SubConn failed means
    TRANSIENT_FAILURE was reported and the pass is over -/
def EndOK (s : St) : Prop :=
  isValid s = false → (∀ sc ∈ s.subConns, sc.failed = true) → s.state = .tf ∧ s.firstPass = false

theorem endFirstPass_endOK (s : St) (e : Nat) : EndOK (endFirstPass s e).1 := by
  intro hv hf
  by_cases h1 : isValid s = true
  · have e1 : (endFirstPass s e).1 = s := by simp [endFirstPass, h1]
    rw [e1, h1] at hv; cases hv
  · by_cases h2 : (s.subConns.any fun x => !x.failed) = true
    · have e1 : (endFirstPass s e).1 = s := by simp [endFirstPass, h1, h2]
      rw [e1] at hf
      obtain ⟨x, hx, hxf⟩ := List.any_eq_true.mp h2
      have := hf x hx
      simp [this] at hxf
    · have e1 : (endFirstPass s e).1 = (pushState { s with firstPass := false } .tf (.connErr e)).1 := by
        simp [endFirstPass, h1, h2]
      rw [e1]
      simp only [pushState, forcePush]
      split
      · next h => exact absurd h.1.symm h.2
      · exact ⟨rfl, rfl⟩

theorem schedule_isValid (s : St) : isValid (schedule s) = isValid s := by
  rw [schedule_eq]; rfl

theorem requestLoop_endOK (fuel : Nat) (s : St) (ev : List Ev) (h0 : isValid s = true) :
    EndOK (requestLoop fuel s ev).1 := by
  induction fuel generalizing s ev with
  | zero => intro hv; simp [requestLoop, h0] at hv
  | succ fuel ih =>
    simp only [requestLoop]
    cases hcur : currentAddress s with
    | none => intro hv; simp [h0] at hv
    | some cur =>
      simp only
      have hvalid1 : isValid (ensureSC s cur).1 = true := by
        have : (ensureSC s cur).1.addrs = s.addrs ∧ (ensureSC s cur).1.idx = s.idx := by
          unfold ensureSC; cases getSC s cur <;> simp [setSC]
        rw [isValid_congr _ _ this.1 this.2]; exact h0
      generalize ensureSC s cur = r at hvalid1 ⊢
      cases hraw : r.2.1.raw with
      | idle =>
        intro hv
        simp only [schedule_isValid] at hv
        have : isValid { r.1 with passLog := r.1.passLog ++ [r.1.idx] } = isValid r.1 := rfl
        rw [this, hvalid1] at hv; cases hv
      | connecting => intro hv; simp only [schedule_isValid, hvalid1] at hv; cases hv
      | ready => intro hv; simp only [hvalid1] at hv; cases hv
      | shutdown => intro hv; simp only [hvalid1] at hv; cases hv
      | tf =>
        simp only
        split
        · next hinc =>
          exact ih _ _ ((increment_frame (setSC r.1 r.2.1.markFailed)).2.2.2.2.2.2.2.1 hinc).2
        · exact endFirstPass_endOK _ _

theorem scFirstPass_tf_endOK (s : St) (sd : SC) (err : Nat) : EndOK (scFirstPass s sd .tf err).1 := by
  simp only [scFirstPass]
  split
  · split
    · next hinc =>
      unfold requestConnection
      have hv := ((increment_frame (cancelTimer (setSC s { sd with lastErr := err, eff := .tf }))).2.2.2.2.2.2.2.1 hinc).2
      simp only [hv, Bool.not_true, Bool.false_eq_true, if_false]
      exact requestLoop_endOK _ _ _ hv
    · exact endFirstPass_endOK _ _
  · exact endFirstPass_endOK _ _

/-! ### every Connect of a running first pass is the logged one, on the SubConn of the current address -/

theorem endFirstPass_connects (s : St) (e : Nat) (id : Nat) (h : Ev.connect id ∈ (endFirstPass s e).2) :
    (endFirstPass s e).1.firstPass = false := by
  by_cases h1 : isValid s = true
  · simp [endFirstPass, h1] at h
  · by_cases h2 : (s.subConns.any fun x => !x.failed) = true
    · simp [endFirstPass, h1, h2] at h
    · have e1 : (endFirstPass s e).1 = (pushState { s with firstPass := false } .tf (.connErr e)).1 := by
        simp [endFirstPass, h1, h2]
      rw [e1, (pushState_frame _ _ _).2.2.2.2.1]

/-- what is known about a Connect issued by a connection request -/
def ConnectLogged (s0 r : St) (id : Nat) : Prop :=
  r.firstPass = false ∨
  (r.passLog = s0.passLog ++ [r.idx] ∧ ∃ sc ∈ r.subConns, sc.id = id ∧ r.addrs[r.idx]? = some sc.addr)

theorem requestLoop_connects (fuel : Nat) (s : St) (ev : List Ev) (id : Nat)
    (h : Ev.connect id ∈ (requestLoop fuel s ev).2) :
    Ev.connect id ∈ ev ∨ ConnectLogged s (requestLoop fuel s ev).1 id := by
  induction fuel generalizing s ev with
  | zero => left; exact h
  | succ fuel ih =>
    simp only [requestLoop] at h ⊢
    cases hcur : currentAddress s with
    | none => simp only [hcur] at h; left; exact h
    | some cur =>
      simp only [hcur] at h ⊢
      have hv : isValid s = true := by
        unfold currentAddress at hcur; split at hcur
        · next hh => exact hh
        · cases hcur
      have hcur' : s.addrs[s.idx]? = some cur := by simpa [currentAddress, hv] using hcur
      have he : (ensureSC s cur).2.1 ∈ (ensureSC s cur).1.subConns ∧ (ensureSC s cur).2.1.addr = cur ∧
          (ensureSC s cur).1.addrs = s.addrs ∧ (ensureSC s cur).1.idx = s.idx ∧ (ensureSC s cur).1.passLog = s.passLog ∧
          (∀ i, Ev.connect i ∉ (ensureSC s cur).2.2) := by
        unfold ensureSC
        cases hg : getSC s cur with
        | some sd0 => exact ⟨(getSC_mem s cur _ hg).1, (getSC_mem s cur _ hg).2, rfl, rfl, rfl, by intro i hi; simp at hi⟩
        | none =>
          have hnone : ∀ y ∈ s.subConns, ¬ y.addr = cur := by
            intro y hy; have := List.find?_eq_none.mp hg y hy; simpa using this
          have hany : s.subConns.any (fun y => decide (y.addr = cur)) = false := by
            simp only [List.any_eq_false, decide_eq_true_eq]; exact hnone
          exact ⟨by simp [setSC, hany], rfl, by simp [setSC], by simp [setSC], by simp [setSC], by intro i hi; simp at hi⟩
      obtain ⟨hm, haddr, fa, fi, fl, hnc⟩ := he
      generalize ensureSC s cur = r at h hm haddr fa fi fl hnc ⊢
      cases hraw : r.2.1.raw with
      | idle =>
        simp only [hraw] at h ⊢
        simp only [List.mem_append, List.mem_singleton, Ev.connect.injEq] at h
        rcases h with (h | h) | h
        · left; exact h
        · exact absurd h (hnc id)
        · right; right
          rw [schedule_eq]
          refine ⟨by simp [cancelTimer, fl, fi], r.2.1, hm, h.symm, ?_⟩
          simp [cancelTimer, fa, fi, hcur', haddr]
      | connecting =>
        simp only [hraw] at h ⊢
        rcases List.mem_append.mp h with h | h
        · left; exact h
        · exact absurd h (hnc id)
      | ready =>
        simp only [hraw] at h ⊢
        rcases List.mem_append.mp h with h | h
        · left; exact h
        · exact absurd h (hnc id)
      | shutdown =>
        simp only [hraw] at h ⊢
        rcases List.mem_append.mp h with h | h
        · left; exact h
        · exact absurd h (hnc id)
      | tf =>
        simp only [hraw] at h ⊢
        split at h
        · next hinc =>
          simp only [hinc, if_true]
          rcases ih _ _ h with h' | h'
          · rcases List.mem_append.mp h' with h' | h'
            · left; exact h'
            · exact absurd h' (hnc id)
          · right
            have hl : (increment (setSC r.1 r.2.1.markFailed)).1.passLog = s.passLog := by
              rw [(increment_frame _).2.2.2.1, (setSC_frame _ _).2.2.1, fl]
            rcases h' with h' | ⟨h1, h2⟩
            · left; exact h'
            · right; exact ⟨by rw [h1, hl], h2⟩
        · next hinc =>
          simp only [hinc, Bool.false_eq_true, if_false]
          rcases List.mem_append.mp h with h | h
          · rcases List.mem_append.mp h with h | h
            · left; exact h
            · exact absurd h (hnc id)
          · right; left; exact endFirstPass_connects _ _ id h

theorem requestConnection_connects (s : St) (id : Nat) (h : Ev.connect id ∈ (requestConnection s).2) :
    ConnectLogged s (requestConnection s).1 id := by
  unfold requestConnection at h ⊢
  split at h
  · simp at h
  · next hv =>
    simp only [hv, if_false]
    rcases requestLoop_connects _ s [] id h with h' | h'
    · simp at h'
    · exact h'

end GrpcProofs.Lemmas.PickFirst