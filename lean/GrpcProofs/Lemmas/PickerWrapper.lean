import GrpcModel.Model.PickerWrapper
/-!
Helper lemmas for C32: reachability, the inductive invariant of the pickerWrapper model and the
trace-order property of `Pick` calls.
-/
namespace GrpcProofs.Lemmas.PickerWrapper
open GrpcModel.PickerWrapper

/-- (state, trace) pairs reachable from the initial state by any sequence of actions. -/
inductive Reach : Sys → List Obs → Prop
  | init : Reach init []
  | step {s : Sys} {log : List Obs} (a : Act) : Reach s log → Reach (step s a).1 (log ++ (step s a).2.toList)

theorem runFrom_reach (acts : List Act) : ∀ s log, Reach s log → Reach (runFrom s log acts).1 (runFrom s log acts).2 := by
  induction acts with
  | nil => intro s log h; exact h
  | cons a as ih => intro s log h; exact ih _ _ (Reach.step a h)

theorem run_reach (acts : List Act) : Reach (run acts).1 (run acts).2 :=
  runFrom_reach acts _ _ Reach.init

/-- Every reachable pair is produced by `run`. -/
theorem reach_run {s : Sys} {log : List Obs} (h : Reach s log) : ∃ acts, run acts = (s, log) := by
  induction h with
  | init => exact ⟨[], rfl⟩
  | @step s log a _ ih =>
    obtain ⟨acts, ha⟩ := ih
    refine ⟨acts ++ [a], ?_⟩
    have gen : ∀ (l : List Act) s0 l0, runFrom s0 l0 (l ++ [a]) =
        ((step (runFrom s0 l0 l).1 a).1, (runFrom s0 l0 l).2 ++ (step (runFrom s0 l0 l).1 a).2.toList) := by
      intro l
      induction l with
      | nil => intro s0 l0; rfl
      | cons b bs ihb => intro s0 l0; exact ihb _ _
    unfold run at ha ⊢
    rw [gen, ha]

theorem setThr_thr (s : Sys) (tid : Nat) (t : Thread) (i : Nat) :
    (s.setThr tid t).thr i = if i = tid then some t else s.thr i := rfl

theorem setThr_sh (s : Sys) (tid : Nat) (t : Thread) : (s.setThr tid t).sh = s.sh := rfl

/-- The inductive invariant. -/
structure Inv (s : Sys) (log : List Obs) : Prop where
  /-- generation 0 (newPickerWrapper) has no picker -/
  head0 : s.sh.pickers.head? = some none
  /-- a start event is stamped with a generation that exists -/
  startLe : ∀ tid c, Obs.started tid c ∈ log → c ≤ s.sh.cur
  /-- `ch` always holds the channel of an existing generation -/
  chLe : ∀ tid t g, s.thr tid = some t → t.ch = some g → g ≤ s.sh.cur
  /-- every generation a pick blocked on / called Pick on is ≤ the generation its `ch` holds -/
  seen : ∀ tid c, (Obs.blocked tid c ∈ log ∨ ∃ p, Obs.pickCalled tid c p ∈ log) →
      ∃ t g, s.thr tid = some t ∧ t.ch = some g ∧ c ≤ g
  /-- in the select and inside Pick, `ch` is the channel of the generation being used -/
  pcCh : ∀ tid t, s.thr tid = some t → (∀ g, t.pc = .block g → t.ch = some g) ∧ (∀ g, t.pc = .inPick g → t.ch = some g)
  /-- every generation > 0 was published with exactly the picker it holds -/
  pub : ∀ g p, 0 < g → s.sh.pickers[g]? = some p → Obs.published g p ∈ log
  /-- Pick is only called on the non-nil picker that the generation holds -/
  called : ∀ tid g p, Obs.pickCalled tid g p ∈ log → s.sh.pickers[g]? = some (some p)

/-- Trace order: when `Pick` is called on generation g by pick `tid`, every earlier start event of
    that pick carries a generation ≤ g, and every generation it blocked on or called Pick on
    before is < g. -/
def PickOrder (log : List Obs) : Prop :=
  ∀ l1 l2 tid g p, log = l1 ++ Obs.pickCalled tid g p :: l2 →
    (∀ c, Obs.started tid c ∈ l1 → c ≤ g) ∧ (∀ c, Obs.blocked tid c ∈ l1 → c < g) ∧
    (∀ c p', Obs.pickCalled tid c p' ∈ l1 → c < g)

theorem cur_succ {sh : Shared} (h : sh.pickers.head? = some none) : sh.pickers.length = sh.cur + 1 := by
  unfold Shared.cur
  cases hp : sh.pickers with
  | nil => simp [hp] at h
  | cons a l => simp

theorem inv_init : Inv init [] := by
  refine ⟨rfl, ?_, ?_, ?_, ?_, ?_, ?_⟩
  · intro tid c h; simp at h
  · intro tid t g h; simp [init] at h
  · intro tid c h; simp at h
  · intro tid t h; simp [init] at h
  · intro g p hg h
    cases g with
    | zero => omega
    | succ n => simp [init] at h
  · intro tid g p h; simp at h

theorem order_nil : PickOrder [] := by
  intro l1 l2 tid g p h
  simp at h

/-- appending an event that is not a Pick call keeps the order property -/
theorem order_snoc {log : List Obs} {e : Obs} (h : PickOrder log)
    (hnew : ∀ tid g p, e = Obs.pickCalled tid g p →
      (∀ c, Obs.started tid c ∈ log → c ≤ g) ∧ (∀ c, Obs.blocked tid c ∈ log → c < g) ∧
      (∀ c p', Obs.pickCalled tid c p' ∈ log → c < g)) :
    PickOrder (log ++ [e]) := by
  intro l1 l2 tid g p heq
  rcases List.eq_nil_or_concat l2 with hl2 | ⟨l2', b, hl2⟩
  · subst hl2
    have := List.append_inj' heq rfl
    obtain ⟨h1, h2⟩ := this
    subst h1
    simp at h2
    exact hnew tid g p h2
  · subst hl2
    have heq' : log ++ [e] = (l1 ++ Obs.pickCalled tid g p :: l2') ++ [b] := by
      rw [heq]; simp
    have := List.append_inj' heq' rfl
    exact h l1 l2' tid g p this.1

theorem order_opt {log : List Obs} {o : Option Obs} (h : PickOrder log)
    (hnew : ∀ tid g p, o = some (Obs.pickCalled tid g p) →
      (∀ c, Obs.started tid c ∈ log → c ≤ g) ∧ (∀ c, Obs.blocked tid c ∈ log → c < g) ∧
      (∀ c p', Obs.pickCalled tid c p' ∈ log → c < g)) :
    PickOrder (log ++ o.toList) := by
  cases o with
  | none => simpa using h
  | some e =>
    simp only [Option.toList_some]
    apply order_snoc h
    intro tid g p he
    exact hnew tid g p (by rw [he])

theorem cur_le_of_getElem? {sh : Shared} {g : Nat} {p : Option Nat} (h : sh.pickers[g]? = some p) : g ≤ sh.cur := by
  have := (List.getElem?_eq_some_iff.mp h).1
  unfold Shared.cur; omega

/-- `updatePicker` / `reset`: a new generation is published. -/
theorem inv_publish {s : Sys} {log : List Obs} (h : Inv s log) (p : Option Nat) :
    Inv { s with sh := { s.sh with pickers := s.sh.pickers ++ [p] } } (log ++ [Obs.published (s.sh.cur + 1) p]) := by
  have hl := cur_succ h.head0
  have hcur : ({ s.sh with pickers := s.sh.pickers ++ [p] } : Shared).cur = s.sh.cur + 1 := by
    simp [Shared.cur]; omega
  refine ⟨?_, ?_, ?_, ?_, ?_, ?_, ?_⟩
  · simp [List.head?_append, h.head0]
  · intro tid c hm
    simp at hm
    have := h.startLe tid c hm
    rw [hcur]; omega
  · intro tid t g ht hg
    have := h.chLe tid t g ht hg
    rw [hcur]; omega
  · intro tid c hm
    simp at hm
    exact h.seen tid c hm
  · intro tid t ht; exact h.pcCh tid t ht
  · intro g q hg hq
    simp only [List.getElem?_append] at hq
    split at hq
    · simp; left; exact h.pub g q hg hq
    · rename_i hlt
      have : g - s.sh.pickers.length = 0 := by
        cases hk : g - s.sh.pickers.length with
        | zero => rfl
        | succ n => rw [hk] at hq; simp at hq
      rw [this] at hq
      simp at hq
      have hg' : g = s.sh.cur + 1 := by omega
      simp [hg', hq]
  · intro tid g q hm
    simp at hm
    have := h.called tid g q hm
    have hlt := (List.getElem?_eq_some_iff.mp this).1
    simp only [List.getElem?_append, hlt, if_true]
    exact this

theorem inv_close {s : Sys} {log : List Obs} (h : Inv s log) :
    Inv { s with sh := { s.sh with closed := true } } (log ++ [Obs.closedPw]) := by
  refine ⟨h.head0, ?_, h.chLe, ?_, h.pcCh, ?_, ?_⟩
  · intro tid c hm; simp at hm; exact h.startLe tid c hm
  · intro tid c hm; simp at hm; exact h.seen tid c hm
  · intro g q hg hq; simp; exact h.pub g q hg hq
  · intro tid g q hm; simp at hm; exact h.called tid g q hm

theorem inv_setSc {s : Sys} {log : List Obs} (h : Inv s log) (f : Nat → SubConnSt) :
    Inv { s with sh := { s.sh with sc := f } } log :=
  ⟨h.head0, h.startLe, h.chLe, h.seen, h.pcCh, h.pub, h.called⟩

/-- what a thread-local step may emit -/
def ThreadObsOk (s : Sys) (tid : Nat) (t' : Thread) : Obs → Prop
  | .blocked i g => i = tid ∧ t'.ch = some g
  | .pickCalled i g p => i = tid ∧ t'.ch = some g ∧ s.sh.pickers[g]? = some (some p)
  | .started _ _ => False
  | .published _ _ => False
  | _ => True

theorem inv_thread {s : Sys} {log : List Obs} (h : Inv s log) {tid : Nat} {t t' : Thread} (ht : s.thr tid = some t)
    (hch : t'.ch = t.ch ∨ t'.ch = some s.sh.cur)
    (hpc : (∀ g, t'.pc = .block g → t'.ch = some g) ∧ (∀ g, t'.pc = .inPick g → t'.ch = some g))
    (o : Option Obs) (ho : ∀ e, o = some e → ThreadObsOk s tid t' e) :
    Inv (s.setThr tid t') (log ++ o.toList) := by
  have hmono : ∀ g, t.ch = some g → ∃ g', t'.ch = some g' ∧ g ≤ g' := by
    intro g hg
    rcases hch with hc | hc
    · exact ⟨g, by rw [hc, hg], Nat.le_refl _⟩
    · exact ⟨s.sh.cur, hc, h.chLe tid t g ht hg⟩
  refine ⟨h.head0, ?_, ?_, ?_, ?_, ?_, ?_⟩
  · intro i c hm
    rw [List.mem_append] at hm
    rcases hm with hm | hm
    · exact h.startLe i c hm
    · cases o with
      | none => simp at hm
      | some e =>
        simp at hm
        have := ho e rfl
        rw [← hm] at this
        exact this.elim
  · intro i u g hu hg
    rw [setThr_thr] at hu
    split at hu
    · simp at hu; subst hu
      rcases hch with hc | hc
      · rw [hc] at hg; exact h.chLe tid t g ht hg
      · rw [hc] at hg; simp at hg; rw [setThr_sh]; omega
    · exact h.chLe i u g hu hg
  · intro i c hm
    have old : (Obs.blocked i c ∈ log ∨ ∃ p, Obs.pickCalled i c p ∈ log) →
        ∃ u g, (s.setThr tid t').thr i = some u ∧ u.ch = some g ∧ c ≤ g := by
      intro hm'
      obtain ⟨u, g, hu, hg, hc⟩ := h.seen i c hm'
      rw [setThr_thr]
      by_cases hi : i = tid
      · subst hi
        rw [ht] at hu; simp at hu; subst hu
        obtain ⟨g', hg', hle⟩ := hmono g hg
        exact ⟨t', g', by simp, hg', by omega⟩
      · exact ⟨u, g, by simp [hi, hu], hg, hc⟩
    cases o with
    | none => simp at hm; exact old hm
    | some e =>
      simp only [Option.toList_some, List.mem_append, List.mem_singleton] at hm
      have hoe := ho e rfl
      rcases hm with (hm | hm) | ⟨p, hm | hm⟩
      · exact old (Or.inl hm)
      · rw [← hm] at hoe
        obtain ⟨hi, hc⟩ := hoe
        subst hi
        exact ⟨t', c, by simp [setThr_thr], hc, Nat.le_refl _⟩
      · exact old (Or.inr ⟨p, hm⟩)
      · rw [← hm] at hoe
        obtain ⟨hi, hc, _⟩ := hoe
        subst hi
        exact ⟨t', c, by simp [setThr_thr], hc, Nat.le_refl _⟩
  · intro i u hu
    rw [setThr_thr] at hu
    split at hu
    · simp at hu; subst hu; exact hpc
    · exact h.pcCh i u hu
  · intro g q hg hq
    rw [List.mem_append]; left
    exact h.pub g q hg hq
  · intro i g q hm
    rw [List.mem_append] at hm
    rcases hm with hm | hm
    · exact h.called i g q hm
    · cases o with
      | none => simp at hm
      | some e =>
        simp at hm
        have hoe := ho e rfl
        rw [← hm] at hoe
        exact hoe.2.2

theorem inv_start {s : Sys} {log : List Obs} (h : Inv s log) {tid : Nat} (ht : s.thr tid = none) (ff : Bool) :
    Inv (s.setThr tid (newThread ff)) (log ++ [Obs.started tid s.sh.cur]) := by
  refine ⟨h.head0, ?_, ?_, ?_, ?_, ?_, ?_⟩
  · intro i c hm
    simp at hm
    rcases hm with hm | hm
    · exact h.startLe i c hm
    · rw [hm.2, setThr_sh]; exact Nat.le_refl _
  · intro i u g hu hg
    rw [setThr_thr] at hu
    split at hu
    · simp at hu; subst hu; simp [newThread] at hg
    · exact h.chLe i u g hu hg
  · intro i c hm
    simp at hm
    obtain ⟨u, g, hu, hg, hc⟩ := h.seen i c hm
    have hi : i ≠ tid := by intro hi; subst hi; rw [ht] at hu; simp at hu
    exact ⟨u, g, by simp [setThr_thr, hi, hu], hg, hc⟩
  · intro i u hu
    rw [setThr_thr] at hu
    split at hu
    · simp at hu; subst hu; simp [newThread]
    · exact h.pcCh i u hu
  · intro g q hg hq; simp; exact h.pub g q hg hq
  · intro i g q hm; simp at hm; exact h.called i g q hm

theorem pickerAt_ne_none {sh : Shared} {g : Nat} (h : sh.pickerAt g ≠ none) :
    sh.pickers[g]? = some (some ((sh.pickerAt g).getD 0)) := by
  unfold Shared.pickerAt at h ⊢
  rw [List.getD_eq_getElem?_getD] at h ⊢
  cases hq : sh.pickers[g]? with
  | none => simp [hq] at h
  | some q =>
    cases q with
    | none => simp [hq] at h
    | some v => simp

/-- Everything the invariant needs to know about one step of a pick goroutine. -/
theorem tstep_facts {s : Sys} {log : List Obs} (_h : Inv s log) {tid : Nat} {t t' : Thread} {o : Option Obs} {b : Bool}
    (_ht : s.thr tid = some t) (hs : tstep s.sh tid t b = some (t', o)) :
    (t'.ch = t.ch ∨ t'.ch = some s.sh.cur) ∧
    ((∀ g, t'.pc = .block g → t'.ch = some g) ∧ (∀ g, t'.pc = .inPick g → t'.ch = some g)) ∧
    (∀ e, o = some e → ThreadObsOk s tid t' e) ∧
    (∀ i g p, o = some (Obs.pickCalled i g p) → i = tid ∧ g = s.sh.cur ∧ t.ch ≠ some s.sh.cur) := by
  unfold tstep at hs
  split at hs
  · -- load
    split at hs
    · simp at hs; obtain ⟨h1, h2⟩ := hs; subst h1; subst h2
      simp [ThreadObsOk]
    · dsimp only at hs
      by_cases hp : s.sh.pickerAt s.sh.cur = none
      · simp [hp] at hs; obtain ⟨h1, h2⟩ := hs; subst h1; subst h2
        simp [ThreadObsOk]
      · simp only [hp, if_false] at hs
        split at hs
        · rename_i hch
          simp at hs; obtain ⟨h1, h2⟩ := hs; subst h1; subst h2
          simp [ThreadObsOk, hch]
        · rename_i hch
          simp at hs; obtain ⟨h1, h2⟩ := hs; subst h1; subst h2
          have := pickerAt_ne_none hp
          simp [ThreadObsOk, this, hch]
  · -- block
    rename_i g hpc
    dsimp only at hs
    split at hs
    · simp at hs; obtain ⟨h1, h2⟩ := hs; subst h1; subst h2
      simp [ThreadObsOk]
    · split at hs
      · simp at hs; obtain ⟨h1, h2⟩ := hs; subst h1; subst h2
        simp
      · simp at hs
  · simp at hs
  · -- check
    split at hs
    · simp at hs; obtain ⟨h1, h2⟩ := hs; subst h1; subst h2
      simp [ThreadObsOk]
    · split at hs
      · simp at hs; obtain ⟨h1, h2⟩ := hs; subst h1; subst h2
        simp [ThreadObsOk]
      · simp at hs; obtain ⟨h1, h2⟩ := hs; subst h1; subst h2
        simp
  · simp at hs

theorem pickReturn_facts (_s : Sys) (tid : Nat) (t : Thread) (r : PickResult) :
    (pickReturn tid t r).1.ch = t.ch ∧
    (∀ g, (pickReturn tid t r).1.pc ≠ .block g) ∧ (∀ g, (pickReturn tid t r).1.pc ≠ .inPick g) ∧
    (∀ e, (pickReturn tid t r).2 = some e → ∃ o, e = Obs.returned tid o) := by
  cases r <;> simp [pickReturn] <;> (try split) <;> simp

/-- The order facts available when a Pick call is emitted from a state satisfying the invariant. -/
theorem order_facts {s : Sys} {log : List Obs} (h : Inv s log) {tid : Nat} {t : Thread}
    (ht : s.thr tid = some t) (hne : t.ch ≠ some s.sh.cur) :
    (∀ c, Obs.started tid c ∈ log → c ≤ s.sh.cur) ∧ (∀ c, Obs.blocked tid c ∈ log → c < s.sh.cur) ∧
    (∀ c p', Obs.pickCalled tid c p' ∈ log → c < s.sh.cur) := by
  have key : ∀ c, (Obs.blocked tid c ∈ log ∨ ∃ p, Obs.pickCalled tid c p ∈ log) → c < s.sh.cur := by
    intro c hm
    obtain ⟨u, g, hu, hg, hc⟩ := h.seen tid c hm
    rw [ht] at hu; simp at hu; subst hu
    have := h.chLe tid t g ht hg
    have : g ≠ s.sh.cur := by intro hh; apply hne; rw [hg, hh]
    omega
  exact ⟨fun c hm => h.startLe tid c hm, fun c hm => key c (Or.inl hm), fun c p' hm => key c (Or.inr ⟨p', hm⟩)⟩

theorem inv_step {s : Sys} {log : List Obs} (a : Act) (h : Inv s log) (ho : PickOrder log) :
    Inv (step s a).1 (log ++ (step s a).2.toList) ∧ PickOrder (log ++ (step s a).2.toList) := by
  have noPick : ∀ (o : Option Obs), (∀ i g p, o ≠ some (Obs.pickCalled i g p)) → PickOrder (log ++ o.toList) := by
    intro o hn
    exact order_opt ho (fun i g p he => absurd he (hn i g p))
  cases a with
  | update p =>
    simp only [step]
    split
    · simpa using ⟨h, ho⟩
    · exact ⟨inv_publish h p, noPick _ (by simp)⟩
  | idle =>
    simp only [step]
    split
    · simpa using ⟨h, ho⟩
    · exact ⟨inv_publish h none, noPick _ (by simp)⟩
  | close =>
    simp only [step]
    split
    · simpa using ⟨h, ho⟩
    · exact ⟨inv_close h, noPick _ (by simp)⟩
  | setSc k st =>
    simp only [step]
    simpa using ⟨inv_setSc h _, ho⟩
  | start tid ff =>
    simp only [step]
    split
    · simpa using ⟨h, ho⟩
    · rename_i hn
      exact ⟨inv_start h hn ff, noPick _ (by simp)⟩
  | ctxExpire tid dl =>
    simp only [step]
    split
    · rename_i t ht
      split
      · refine ⟨?_, by simpa using ho⟩
        have := inv_thread h ht (t' := { t with ctx := if dl then .deadlineExceeded else .canceled })
          (Or.inl rfl) (h.pcCh tid t ht) none (by simp)
        simpa using this
      · simpa using ⟨h, ho⟩
    · simpa using ⟨h, ho⟩
  | step tid b =>
    simp only [step]
    split
    · rename_i t ht
      split
      · rename_i t' o hs
        obtain ⟨f1, f2, f3, f4⟩ := tstep_facts h ht hs
        refine ⟨inv_thread h ht f1 f2 o f3, ?_⟩
        apply order_opt ho
        intro i g p he
        obtain ⟨hi, hg, hne⟩ := f4 i g p he
        subst hi; subst hg
        exact order_facts h ht hne
      · simpa using ⟨h, ho⟩
    · simpa using ⟨h, ho⟩
  | pickRet tid r =>
    simp only [step]
    split
    · rename_i t ht
      split
      · obtain ⟨f1, f2, f3, f4⟩ := pickReturn_facts s tid t r
        refine ⟨?_, ?_⟩
        · apply inv_thread h ht (Or.inl f1) ⟨fun g hg => absurd hg (f2 g), fun g hg => absurd hg (f3 g)⟩
          intro e he
          obtain ⟨o, rfl⟩ := f4 e he
          simp [ThreadObsOk]
        · apply noPick
          intro i g p he
          obtain ⟨o, ho'⟩ := f4 _ he
          simp at ho'
      · simpa using ⟨h, ho⟩
    · simpa using ⟨h, ho⟩

theorem reach_inv {s : Sys} {log : List Obs} (h : Reach s log) : Inv s log ∧ PickOrder log := by
  induction h with
  | init => exact ⟨inv_init, order_nil⟩
  | step a _ ih => exact inv_step a ih.1 ih.2

/-- Every event of a reachable trace was emitted by a step from a reachable state whose trace is
    the prefix before the event. -/
theorem reach_split {s : Sys} {log : List Obs} (h : Reach s log) :
    ∀ l1 e l2, log = l1 ++ e :: l2 → ∃ s0 a, Reach s0 l1 ∧ (step s0 a).2 = some e := by
  induction h with
  | init => intro l1 e l2 h; simp at h
  | @step s log a hprev ih =>
    intro l1 e l2 heq
    cases ho : (step s a).2 with
    | none => rw [ho] at heq; simp at heq; exact ih l1 e l2 heq
    | some e0 =>
      rw [ho] at heq
      simp only [Option.toList_some] at heq
      rcases List.eq_nil_or_concat l2 with hl2 | ⟨l2', b, hl2⟩
      · subst hl2
        obtain ⟨h1, h2⟩ := List.append_inj' heq rfl
        subst h1
        simp at h2
        exact ⟨s, a, hprev, by rw [ho, h2]⟩
      · subst hl2
        have heq' : log ++ [e0] = (l1 ++ e :: l2') ++ [b] := by rw [heq]; simp
        exact ih l1 e l2' (List.append_inj' heq' rfl).1

/-! ### what a step can emit -/

/-- The observation emitted by one step of a pick goroutine, by program point. -/
theorem tstep_obs_cases {sh : Shared} {tid : Nat} {t t' : Thread} {b : Bool} {e : Obs}
    (hs : tstep sh tid t b = some (t', some e)) :
    (t.pc = Pc.load ∧ sh.closed = true ∧ e = Obs.returned tid Outcome.closing) ∨
    (t.pc = Pc.load ∧ sh.closed = false ∧ e = Obs.blocked tid sh.cur) ∨
    (t.pc = Pc.load ∧ sh.closed = false ∧ ∃ p, e = Obs.pickCalled tid sh.cur p) ∨
    (∃ g, t.pc = Pc.block g ∧ t.ctx ≠ CtxState.live ∧
      e = Obs.returned tid (Outcome.ctxErr (if t.ctx = CtxState.deadlineExceeded then GrpcModel.Generated.pwCodeDeadlineExceeded
        else GrpcModel.Generated.pwCodeCanceled) t.lastPickErr)) ∨
    (∃ sc hd tr, t.pc = Pc.check sc hd ∧ getReadyTransport (sh.sc sc) = some tr ∧
      e = Obs.returned tid (Outcome.transport sc tr t.pickBlocked)) ∨
    (∃ sc, t.pc = Pc.check sc true ∧ getReadyTransport (sh.sc sc) = none ∧ e = Obs.doneCalled tid sc) := by
  unfold tstep at hs
  split at hs
  · rename_i hpc
    split at hs
    · rename_i hcl
      simp at hs
      exact Or.inl ⟨hpc, hcl, hs.2.symm⟩
    · rename_i hcl
      simp at hcl
      dsimp only at hs
      by_cases hp : sh.pickerAt sh.cur = none
      · simp [hp] at hs
        exact Or.inr (Or.inl ⟨hpc, hcl, hs.2.symm⟩)
      · simp only [hp, if_false] at hs
        split at hs
        · simp at hs
          exact Or.inr (Or.inl ⟨hpc, hcl, hs.2.symm⟩)
        · simp at hs
          exact Or.inr (Or.inr (Or.inl ⟨hpc, hcl, _, hs.2.symm⟩))
  · rename_i g hpc
    dsimp only at hs
    split at hs
    · rename_i hc
      simp at hs
      exact Or.inr (Or.inr (Or.inr (Or.inl ⟨g, hpc, hc.1, hs.2.symm⟩)))
    · split at hs <;> simp at hs
  · simp at hs
  · rename_i sc hd hpc
    split at hs
    · rename_i tr hrt
      simp at hs
      exact Or.inr (Or.inr (Or.inr (Or.inr (Or.inl ⟨sc, hd, tr, hpc, hrt, hs.2.symm⟩))))
    · rename_i hrt
      split at hs
      · rename_i hhd
        simp at hs
        subst hhd
        exact Or.inr (Or.inr (Or.inr (Or.inr (Or.inr ⟨sc, hpc, hrt, hs.2.symm⟩))))
      · simp at hs
  · simp at hs

/-- The observation emitted when the picker's Pick returns. -/
theorem pickReturn_obs_cases {tid : Nat} {t : Thread} {r : PickResult} {e : Obs}
    (h : (pickReturn tid t r).2 = some e) :
    (∃ c, r = PickResult.statusErr c ∧
      e = Obs.returned tid (if isRestricted c then Outcome.drop GrpcModel.Generated.pwCodeInternal true else Outcome.drop c false)) ∨
    (∃ x, r = PickResult.otherErr x ∧ t.failfast = true ∧ e = Obs.returned tid (Outcome.unavailable x)) := by
  cases r with
  | noSubConn => simp [pickReturn] at h
  | foreignSubConn => simp [pickReturn] at h
  | subConn sc hd => simp [pickReturn] at h
  | statusErr c =>
    simp only [pickReturn] at h
    simp at h
    exact Or.inl ⟨c, rfl, h.symm⟩
  | otherErr x =>
    simp only [pickReturn] at h
    split at h
    · simp at h
    · rename_i hff
      simp at h
      simp at hff
      exact Or.inr ⟨x, rfl, hff, h.symm⟩

/-- The observation emitted by any step, by action. -/
theorem step_obs_cases {s : Sys} {a : Act} {e : Obs} (h : (step s a).2 = some e) :
    (∃ p, a = Act.update p ∧ s.sh.closed = false ∧ e = Obs.published (s.sh.cur + 1) p) ∨
    (a = Act.idle ∧ s.sh.closed = false ∧ e = Obs.published (s.sh.cur + 1) none) ∨
    (a = Act.close ∧ s.sh.closed = false ∧ e = Obs.closedPw) ∨
    (∃ tid ff, a = Act.start tid ff ∧ s.thr tid = none ∧ e = Obs.started tid s.sh.cur) ∨
    (∃ tid b t t', a = Act.step tid b ∧ s.thr tid = some t ∧ tstep s.sh tid t b = some (t', some e) ∧
      (step s a).1 = s.setThr tid t') ∨
    (∃ tid r t g, a = Act.pickRet tid r ∧ s.thr tid = some t ∧ t.pc = Pc.inPick g ∧ (pickReturn tid t r).2 = some e ∧
      (step s a).1 = s.setThr tid (pickReturn tid t r).1) := by
  cases a with
  | update p =>
    simp only [step] at h
    split at h
    · simp at h
    · rename_i hc; simp at hc; simp at h
      exact Or.inl ⟨p, rfl, hc, h.symm⟩
  | idle =>
    simp only [step] at h
    split at h
    · simp at h
    · rename_i hc; simp at hc; simp at h
      exact Or.inr (Or.inl ⟨rfl, hc, h.symm⟩)
  | close =>
    simp only [step] at h
    split at h
    · simp at h
    · rename_i hc; simp at hc; simp at h
      exact Or.inr (Or.inr (Or.inl ⟨rfl, hc, h.symm⟩))
  | setSc k st => simp [step] at h
  | start tid ff =>
    simp only [step] at h
    split at h
    · simp at h
    · rename_i hn; simp at h
      exact Or.inr (Or.inr (Or.inr (Or.inl ⟨tid, ff, rfl, hn, h.symm⟩)))
  | ctxExpire tid dl =>
    simp only [step] at h
    split at h
    · split at h <;> simp at h
    · simp at h
  | step tid b =>
    simp only [step] at h ⊢
    split at h
    · rename_i t ht
      split at h
      · rename_i t' o hs
        simp at h
        subst h
        exact Or.inr (Or.inr (Or.inr (Or.inr (Or.inl ⟨tid, b, t, t', rfl, ht, hs, rfl⟩))))
      · simp at h
    · simp at h
  | pickRet tid r =>
    simp only [step] at h ⊢
    split at h
    · rename_i t ht
      split at h
      · rename_i g hpc
        simp at h
        exact Or.inr (Or.inr (Or.inr (Or.inr (Or.inr ⟨tid, r, t, g, rfl, ht, hpc, h, rfl⟩))))
      · simp at h
    · simp at h

/-! ### single-step facts of the pick loop (used to state progress) -/

theorem tstep_block_wake {sh : Shared} {tid : Nat} {t : Thread} {g : Nat} (b : Bool) (hpc : t.pc = Pc.block g)
    (hcl : sh.chClosed g = true) (hctx : t.ctx = CtxState.live) :
    tstep sh tid t b = some ({ t with pc := Pc.load }, none) := by
  simp [tstep, hpc, hctx, hcl]

theorem tstep_block_stuck {sh : Shared} {tid : Nat} {t : Thread} {g : Nat} (b : Bool) (hpc : t.pc = Pc.block g)
    (hcl : sh.chClosed g = false) (hctx : t.ctx = CtxState.live) : tstep sh tid t b = none := by
  simp [tstep, hpc, hctx, hcl]

theorem tstep_load_closed {sh : Shared} {tid : Nat} {t : Thread} (b : Bool) (hpc : t.pc = Pc.load) (hcl : sh.closed = true) :
    tstep sh tid t b = some ({ t with pc := Pc.done Outcome.closing }, some (Obs.returned tid Outcome.closing)) := by
  simp [tstep, hpc, hcl]

theorem tstep_load_block {sh : Shared} {tid : Nat} {t : Thread} (b : Bool) (hpc : t.pc = Pc.load) (hopen : sh.closed = false)
    (h : sh.pickerAt sh.cur = none ∨ t.ch = some sh.cur) :
    tstep sh tid t b = some ({ t with pc := Pc.block sh.cur, ch := some sh.cur }, some (Obs.blocked tid sh.cur)) := by
  unfold tstep
  simp only [hpc, hopen]
  rcases h with h | h
  · simp [h]
  · by_cases hp : sh.pickerAt sh.cur = none
    · simp [hp]
    · simp [hp, h]

theorem tstep_load_pick {sh : Shared} {tid : Nat} {t : Thread} {q : Nat} (b : Bool) (hpc : t.pc = Pc.load) (hopen : sh.closed = false)
    (hp : sh.pickerAt sh.cur = some q) (hne : t.ch ≠ some sh.cur) :
    tstep sh tid t b = some ({ t with pc := Pc.inPick sh.cur, pickBlocked := t.pickBlocked || t.ch.isSome,
                                      ch := some sh.cur, calls := t.calls + 1 },
                             some (Obs.pickCalled tid sh.cur q)) := by
  unfold tstep
  simp [hpc, hopen, hp, hne]

theorem cur_append {sh sh' : Shared} {p : Option Nat} (h0 : sh.pickers.head? = some none)
    (h : sh'.pickers = sh.pickers ++ [p]) : sh'.cur = sh.cur + 1 ∧ sh'.pickerAt (sh.cur + 1) = p := by
  have hl := cur_succ h0
  constructor
  · simp only [Shared.cur, h, List.length_append, List.length_singleton]; omega
  · simp [Shared.pickerAt, h, List.getD_eq_getElem?_getD, hl]

/-! ### `failfast` is fixed when the pick starts -/

theorem tstep_failfast {sh : Shared} {tid : Nat} {t t' : Thread} {o : Option Obs} {b : Bool}
    (hs : tstep sh tid t b = some (t', o)) : t'.failfast = t.failfast := by
  unfold tstep at hs
  dsimp only at hs
  repeat' split at hs
  all_goals (first | (simp at hs; done) | (simp at hs; rw [← hs.1]))

theorem pickReturn_failfast (tid : Nat) (t : Thread) (r : PickResult) : (pickReturn tid t r).1.failfast = t.failfast := by
  cases r <;> simp [pickReturn] <;> split <;> simp_all

/-- no action changes the `failfast` argument of a pick that has started, and picks never disappear -/
theorem step_failfast {s : Sys} {tid : Nat} {t : Thread} (a : Act) (ht : s.thr tid = some t) :
    ∃ t', (step s a).1.thr tid = some t' ∧ t'.failfast = t.failfast := by
  cases a with
  | update p => simp only [step]; split <;> exact ⟨t, ht, rfl⟩
  | idle => simp only [step]; split <;> exact ⟨t, ht, rfl⟩
  | close => simp only [step]; split <;> exact ⟨t, ht, rfl⟩
  | setSc k st => exact ⟨t, ht, rfl⟩
  | start i ff =>
    simp only [step]
    split
    · exact ⟨t, ht, rfl⟩
    · rename_i hn
      have hi : tid ≠ i := by intro e; subst e; rw [ht] at hn; simp at hn
      exact ⟨t, by simp [setThr_thr, hi, ht], rfl⟩
  | ctxExpire i dl =>
    simp only [step]
    split
    · rename_i u hu
      split
      · by_cases hi : tid = i
        · subst hi
          rw [ht] at hu; simp at hu; subst hu
          exact ⟨{ t with ctx := if dl then .deadlineExceeded else .canceled }, by simp [setThr_thr], rfl⟩
        · exact ⟨t, by simp [setThr_thr, hi, ht], rfl⟩
      · exact ⟨t, ht, rfl⟩
    · exact ⟨t, ht, rfl⟩
  | step i b =>
    simp only [step]
    split
    · rename_i u hu
      split
      · rename_i t' o hs
        by_cases hi : tid = i
        · subst hi
          rw [ht] at hu; simp at hu; subst hu
          exact ⟨t', by simp [setThr_thr], tstep_failfast hs⟩
        · exact ⟨t, by simp [setThr_thr, hi, ht], rfl⟩
      · exact ⟨t, ht, rfl⟩
    · exact ⟨t, ht, rfl⟩
  | pickRet i r =>
    simp only [step]
    split
    · rename_i u hu
      split
      · by_cases hi : tid = i
        · subst hi
          rw [ht] at hu; simp at hu; subst hu
          exact ⟨(pickReturn tid t r).1, by simp [setThr_thr], pickReturn_failfast _ _ _⟩
        · exact ⟨t, by simp [setThr_thr, hi, ht], rfl⟩
      · exact ⟨t, ht, rfl⟩
    · exact ⟨t, ht, rfl⟩

end GrpcProofs.Lemmas.PickerWrapper
