/-
Helper lemmas about GrpcModel.RetryLoop, part D (see RetryLoopA.lean).
-/
import GrpcProofs.Lemmas.RetryLoopC
namespace GrpcProofs.Lemmas.RetryLoop
open GrpcModel.Retry GrpcModel.RetryLoop GrpcProofs.Lemmas.Retry

/-! ### operation level -/

/-- everything that holds between two application operations -/
structure OpInv (st : St) : Prop where
  good : Good st
  size : SizeInv st
  bound : BInv st

/-- fuel that is enough for any operation of this RPC -/
def fuelFor (st : St) : Nat := 1 + (match st.pol with | some rp => rp.maxAttempts.toNat | none => 0)

theorem budget_le_fuelFor (st : St) (h : BInv st) : st.retryBudget ≤ fuelFor st := by
  unfold St.retryBudget budget fuelFor
  have := h.2.1
  cases st.pol with
  | none => split_ifs <;> simp
  | some rp => simp only; split_ifs <;> omega

theorem finish_binv (st : St) (code : Nat) (h : BInv st) : BInv (st.finish code) := by
  have h1 : BInv ({ st with cs := { st.cs with finished := true } } : St).commit := h
  have h2 := finishAttempt_binv _ code h1
  simp only [St.finish]
  split_ifs
  · exact h
  · exact h2
  · exact h2

theorem finish_size (st : St) (code : Nat) : SizeInv (st.finish code) ∨ (st.cs.finished = true ∧ st.finish code = st) := by
  simp only [St.finish]
  split_ifs with hf
  · exact Or.inr ⟨hf, rfl⟩
  · left; intro hc
    have := (finishAttempt_same (({ st with cs := { st.cs with finished := true } } : St).commit) code).cs
    simp only at hc
    rw [this] at hc; simp [St.commit] at hc
  · left; intro hc
    have := (finishAttempt_same (({ st with cs := { st.cs with finished := true } } : St).commit) code).cs
    rw [this] at hc; simp [St.commit] at hc

theorem finish_size' (st : St) (code : Nat) (h : SizeInv st) : SizeInv (st.finish code) := by
  rcases finish_size st code with h1 | ⟨_, h1⟩
  · exact h1
  · rw [h1]; exact h

theorem settle_inv (st : St) (h : OpInv st) : OpInv st.settle :=
  ⟨good_settle st h.good, h.size, ⟨react_prevsLe st h.bound.1, h.bound.2⟩⟩

theorem finish_inv (st : St) (code : Nat) (h : OpInv st) : OpInv (st.finish code) :=
  ⟨good_finish st code h.good, finish_size' st code h.size, finish_binv st code h.bound⟩

theorem endSend_inv (st : St) (res : Res) (h : OpInv st) : OpInv (st.endSend res) := by
  unfold St.endSend
  split <;> first
    | exact settle_inv _ (finish_inv _ _ h)
    | exact settle_inv _ h

theorem endRecv_inv (st : St) (res : Res) (h : OpInv st) : OpInv (st.endRecv res) := by
  unfold St.endRecv
  split <;> first
    | exact settle_inv _ (finish_inv _ _ h)
    | exact settle_inv _ h

theorem endHeader_inv (st : St) (res : Res) (h : OpInv st) : OpInv (st.endHeader res) := by
  unfold St.endHeader
  split <;> first
    | exact settle_inv _ (finish_inv _ _ h)
    | exact settle_inv _ h

/-- `withRetry` from a state prepared by an operation, with enough fuel -/
theorem withRetry_inv (fuel : Nat) (st : St) (op : COp) (hst : st.started = true)
    (hr : RInv st (st.pendOf op) (st.pendOf op)) (hs : SizeInv st) (hb : BInv st) (hf : fuelFor st ≤ fuel) :
    OpInv (St.withRetry fuel st op).1 ∧ (St.withRetry fuel st op).2.1 ≠ .outOfFuel := by
  have hne := withRetry_fuel fuel st op (le_trans (budget_le_fuelFor st hb) hf)
  rcases withRetry_good fuel st op hst hr with h | h
  · exact absurd h hne
  · exact ⟨⟨h, withRetry_size fuel st op hs, withRetry_binv fuel st op hb⟩, hne⟩

theorem fuelFor_pol (st st' : St) (h : st'.pol = st.pol) : fuelFor st' = fuelFor st := by
  unfold fuelFor; rw [h]

theorem endSend_pol (st : St) (res : Res) : (st.endSend res).pol = st.pol := by
  unfold St.endSend
  split <;> first
    | exact ((finish_frame _ _).trans (settle_frame _)).pol
    | exact (settle_frame _).pol

theorem endRecv_pol (st : St) (res : Res) : (st.endRecv res).pol = st.pol := by
  unfold St.endRecv
  split <;> first
    | exact ((finish_frame _ _).trans (settle_frame _)).pol
    | exact (settle_frame _).pol

theorem endHeader_pol (st : St) (res : Res) : (st.endHeader res).pol = st.pol := by
  unfold St.endHeader
  split <;> first
    | exact ((finish_frame _ _).trans (settle_frame _)).pol
    | exact (settle_frame _).pol

theorem opSendW_fst (fuel : Nat) (st : St) (size : Nat) :
    (st.opSendW fuel size).1 = (st.opSend fuel size).1 ∧
    ((st.opSend fuel size).2.1 ≠ .outOfFuel → (st.opSendW fuel size).2.1 ≠ .outOfFuel) := by
  unfold St.opSendW
  simp only
  split_ifs
  · exact ⟨rfl, id⟩
  · refine ⟨rfl, fun hne => ?_⟩
    simp only
    split
    · simp
    · exact hne

theorem opSend_inv (fuel : Nat) (st : St) (size : Nat) (h : OpInv st) (hf : fuelFor st ≤ fuel) :
    OpInv (st.opSend fuel size).1 ∧ (st.opSend fuel size).2.1 ≠ .outOfFuel ∧
    fuelFor (st.opSend fuel size).1 = fuelFor st := by
  unfold St.opSend
  split_ifs
  · refine ⟨settle_inv _ (finish_inv _ _ ⟨⟨⟨h.good.1.buf, h.good.1.pre, h.good.1.cur, h.good.1.once⟩, h.good.2⟩, h.size, h.bound⟩), by simp, ?_⟩
    exact fuelFor_pol _ _ (((finish_frame _ _).trans (settle_frame _)).pol)
  · obtain ⟨hi, hs⟩ := beginSend_rinv st size h.good
    obtain ⟨hw, hne⟩ := withRetry_inv fuel (st.beginSend size) (.send size) hs hi h.size h.bound hf
    refine ⟨endSend_inv _ _ hw, hne, ?_⟩
    exact fuelFor_pol _ _ ((endSend_pol _ _).trans (withRetry_frame _ _ _).pol)

theorem opRecv_inv (fuel : Nat) (s : St) (hs : OpInv s) (hfs : fuelFor s ≤ fuel) :
    OpInv (s.opRecv fuel).1 ∧ (s.opRecv fuel).2.1 ≠ .outOfFuel ∧ fuelFor (s.opRecv fuel).1 = fuelFor s := by
  unfold St.opRecv
  obtain ⟨hw, hne⟩ := withRetry_inv fuel s .recv hs.good.2 ⟨hs.good.1.buf, hs.good.1.pre, hs.good.1.cur, hs.good.1.once⟩ hs.size hs.bound hfs
  exact ⟨endRecv_inv _ _ hw, hne, fuelFor_pol _ _ ((endRecv_pol _ _).trans (withRetry_frame _ _ _).pol)⟩

theorem step_inv (fuel : Nat) (st : St) (op : AppOp) (hop : op ≠ .new) (h : OpInv st) (hf : fuelFor st ≤ fuel) :
    OpInv (st.step fuel op).1 ∧ (st.step fuel op).2.1 ≠ .outOfFuel ∧ fuelFor (st.step fuel op).1 = fuelFor st := by
  cases op with
  | new => exact absurd rfl hop
  | cancel =>
    simp only [St.step, St.opCancel]
    exact ⟨settle_inv _ (finish_inv _ _ h), by simp, fuelFor_pol _ _ (((finish_frame _ _).trans (settle_frame _)).pol)⟩
  | send size =>
    have core := opSend_inv fuel st size h hf
    have hw := opSendW_fst fuel st size
    simp only [St.step]
    rw [hw.1]
    exact ⟨core.1, hw.2 core.2.1, core.2.2⟩
  | close =>
    simp only [St.step]
    unfold St.opClose
    split_ifs
    · exact ⟨settle_inv _ h, by simp, rfl⟩
    · obtain ⟨hi, hs⟩ := beginClose_rinv st h.good
      obtain ⟨hw, _⟩ := withRetry_inv fuel st.beginClose .half hs hi h.size h.bound hf
      exact ⟨settle_inv _ hw, by simp, fuelFor_pol _ _ (((settle_frame _).pol).trans (withRetry_frame _ st.beginClose _).pol)⟩
  | recv =>
    simp only [St.step, St.opRecvW]
    have c1 := opRecv_inv fuel st h hf
    split_ifs
    · exact c1
    · split
      next n heq =>
        have c2 := opRecv_inv fuel (st.opRecv fuel).1 c1.1 (by rw [c1.2.2]; exact hf)
        refine ⟨c2.1, ?_, c2.2.2.trans c1.2.2⟩
        simp only
        split
        · simp
        · simp
        · exact c2.2.1
      · exact c1
  | header =>
    simp only [St.step]
    unfold St.opHeader
    obtain ⟨hw, hne⟩ := withRetry_inv fuel st .header h.good.2 ⟨h.good.1.buf, h.good.1.pre, h.good.1.cur, h.good.1.once⟩ h.size h.bound hf
    refine ⟨endHeader_inv _ _ hw, ?_, fuelFor_pol _ _ ((endHeader_pol _ _).trans (withRetry_frame _ _ _).pol)⟩
    simp only; split <;> simp_all

theorem opNewOk_inv (st : St) (ha : st.atts = []) (hr : st.replay = []) (hh : st.hist = []) (hc : st.cs.committed = false)
    (hz : st.replaySize = 0) (hn : NrBound st) (hm : 0 ≤ st.maxBuf) : OpInv st.opNewOk.1 := by
  unfold St.opNewOk
  apply settle_inv
  simp only [St.newAttempt, St.buffer, hc, Bool.false_eq_true, if_false, hz, ha, hr]
  have hnot : ¬ (0 + 0 > st.maxBuf) := by omega
  simp only [hnot, if_false]
  refine ⟨⟨⟨?_, ?_, ?_, ?_⟩, rfl⟩, ?_, ⟨?_, ?_⟩⟩
  · intro _; simp [wireOf, hh]
  · intro a ha'; simp at ha'; subst ha'; simp [hh]
  · intro a hca _; simp [St.cur] at hca; subst hca; simp [hh]
  · intro _ _; simp [startsOnce]
  · intro _; simp; omega
  · intro a ha'; simp at ha'; subst ha'; simp
  · exact hn

/-- `newClientStream` returned a stream (possibly after attempts whose stream creation failed were
    retried): the invariants hold from there on -/
theorem opNew_inv (fuel : Nat) (st : St) (ha : st.atts = []) (hr : st.replay = []) (hh : st.hist = []) (hc : st.cs.committed = false)
    (hz : st.replaySize = 0) (hn : NrBound st) (hm : 0 ≤ st.maxBuf) (hok : (st.opNew fuel).2.1 = .ok) :
    OpInv (st.opNew fuel).1 := by
  induction fuel generalizing st with
  | zero =>
    rw [St.opNew] at hok ⊢
    cases hns : st.nsScript with
    | nil => exact opNewOk_inv st ha hr hh hc hz hn hm
    | cons o rest =>
      cases o with
      | none => exact opNewOk_inv { st with nsScript := rest } ha hr hh hc hz hn hm
      | some c =>
        exfalso
        simp only [hns] at hok
        split at hok <;> simp at hok
  | succ n ih =>
    rw [St.opNew] at hok ⊢
    cases hns : st.nsScript with
    | nil => exact opNewOk_inv st ha hr hh hc hz hn hm
    | cons o rest =>
      cases o with
      | none => exact opNewOk_inv { st with nsScript := rest } ha hr hh hc hz hn hm
      | some c =>
        simp only [hns] at hok ⊢
        have hf := sr_other_fields st.disableRetry st.pol st.cs (noStreamView c) 0
        cases hd : (shouldRetry st.disableRetry st.pol st.cs (noStreamView c) 0).2 with
        | noRetry => simp [hd] at hok
        | exhausted => simp [hd] at hok
        | transparent =>
          simp only [hd] at hok ⊢
          apply ih
          · exact ha
          · exact hr
          · exact hh
          · show (afterDecision _ _).committed = false
            rw [afterDecision_committed, hf.2.2.1]; exact hc
          · exact hz
          · have e : (afterDecision (shouldRetry st.disableRetry st.pol st.cs (noStreamView c) 0).1 Decision.transparent).numRetries
                = st.cs.numRetries := hf.1
            unfold NrBound
            simp only
            rw [e]; exact hn
          · exact hm
          · exact hok
        | backoff dur fp =>
          simp only [hd] at hok ⊢
          obtain ⟨pb, rp, _, hp, _, hlt⟩ := sr_backoff_conditions st.disableRetry st.pol st.cs (noStreamView c) 0 dur fp hd
          apply ih
          · exact ha
          · exact hr
          · exact hh
          · show (afterDecision _ _).committed = false
            rw [afterDecision_committed, hf.2.2.1]; exact hc
          · exact hz
          · have e : (afterDecision (shouldRetry st.disableRetry st.pol st.cs (noStreamView c) 0).1 (Decision.backoff dur fp)).numRetries
                = st.cs.numRetries + 1 := by
              show (shouldRetry st.disableRetry st.pol st.cs (noStreamView c) 0).1.numRetries + 1 = _
              rw [hf.1]
            unfold NrBound
            simp only
            rw [e]
            have := hn.1
            exact ⟨by omega, Or.inr ⟨rp, hp, by omega⟩⟩
          · exact hm
          · exact hok

/-- a whole application script after `new` -/
theorem run_inv (fuel : Nat) (ops : List AppOp) (st : St) (hops : ∀ o ∈ ops, o ≠ .new) (h : OpInv st) (hf : fuelFor st ≤ fuel) :
    OpInv (St.run fuel st ops).1 ∧ (∀ r ∈ (St.run fuel st ops).2.1, r ≠ .outOfFuel) := by
  induction ops generalizing st with
  | nil => exact ⟨h, by simp [St.run]⟩
  | cons o os ih =>
    have hs := step_inv fuel st o (hops o (by simp)) h hf
    have := ih (st.step fuel o).1 (fun x hx => hops x (by simp [hx])) hs.1 (by rw [hs.2.2]; exact hf)
    simp only [St.run]
    refine ⟨this.1, ?_⟩
    intro r hr
    simp only [List.mem_cons] at hr
    rcases hr with hr | hr
    · subst hr; exact hs.2.1
    · exact this.2 r hr

/-! committed states -/

theorem finish_len_committed (st : St) (code : Nat) :
    (st.finish code).atts.length = st.atts.length ∧ (st.cs.committed = true → (st.finish code).cs.committed = true) := by
  have hl := (finishAttempt_same (({ st with cs := { st.cs with finished := true } } : St).commit) code)
  simp only [St.finish]
  split_ifs
  · exact ⟨rfl, id⟩
  · exact ⟨hl.len, fun _ => by simp only; rw [hl.cs]; rfl⟩
  · exact ⟨hl.len, fun _ => by rw [hl.cs]; rfl⟩

theorem settle_len (st : St) : st.settle.atts.length = st.atts.length := by simp [St.settle, react]

theorem end_len (st : St) (res : Res) :
    ((st.endSend res).atts.length = st.atts.length ∧ (st.cs.committed = true → (st.endSend res).cs.committed = true)) ∧
    ((st.endRecv res).atts.length = st.atts.length ∧ (st.cs.committed = true → (st.endRecv res).cs.committed = true)) ∧
    ((st.endHeader res).atts.length = st.atts.length ∧ (st.cs.committed = true → (st.endHeader res).cs.committed = true)) := by
  refine ⟨?_, ?_, ?_⟩
  · unfold St.endSend
    split <;> first
      | exact ⟨(settle_len _).trans (finish_len_committed _ _).1, fun h => (finish_len_committed _ _).2 h⟩
      | exact ⟨settle_len _, id⟩
  · unfold St.endRecv
    split <;> first
      | exact ⟨(settle_len _).trans (finish_len_committed _ _).1, fun h => (finish_len_committed _ _).2 h⟩
      | exact ⟨settle_len _, id⟩
  · unfold St.endHeader
    split <;> first
      | exact ⟨(settle_len _).trans (finish_len_committed _ _).1, fun h => (finish_len_committed _ _).2 h⟩
      | exact ⟨settle_len _, id⟩

theorem opRecv_committed (fuel : Nat) (st : St) (hc : st.cs.committed = true) :
    (st.opRecv fuel).1.atts.length = st.atts.length ∧ (st.opRecv fuel).1.cs.committed = true := by
  unfold St.opRecv
  have hw := withRetry_committed_atts fuel st .recv hc
  exact ⟨((end_len _ _).2.1.1).trans hw.1, (end_len _ _).2.1.2 hw.2⟩

/-- once committed, no operation creates another attempt, and the stream stays committed -/
theorem step_committed (fuel : Nat) (st : St) (op : AppOp) (hop : op ≠ .new) (hc : st.cs.committed = true) :
    (st.step fuel op).1.atts.length = st.atts.length ∧ (st.step fuel op).1.cs.committed = true := by
  cases op with
  | new => exact absurd rfl hop
  | cancel =>
    simp only [St.step, St.opCancel]
    exact ⟨(settle_len _).trans (finish_len_committed _ _).1, (finish_len_committed _ _).2 hc⟩
  | send size =>
    simp only [St.step]
    rw [(opSendW_fst fuel st size).1]
    unfold St.opSend
    split_ifs
    · exact ⟨(settle_len _).trans (finish_len_committed _ _).1, (finish_len_committed _ _).2 hc⟩
    · have hw := withRetry_committed_atts fuel (st.beginSend size) (.send size) hc
      exact ⟨((end_len _ _).1.1).trans hw.1, (end_len _ _).1.2 hw.2⟩
  | close =>
    simp only [St.step]
    unfold St.opClose
    split_ifs
    · exact ⟨settle_len _, hc⟩
    · have hw := withRetry_committed_atts fuel st.beginClose .half hc
      exact ⟨(settle_len _).trans hw.1, hw.2⟩
  | recv =>
    simp only [St.step, St.opRecvW]
    have c1 := opRecv_committed fuel st hc
    split_ifs
    · exact c1
    · split
      · have c2 := opRecv_committed fuel (st.opRecv fuel).1 c1.2
        exact ⟨c2.1.trans c1.1, c2.2⟩
      · exact c1
  | header =>
    simp only [St.step]
    unfold St.opHeader
    have hw := withRetry_committed_atts fuel st .header hc
    exact ⟨((end_len _ _).2.2.1).trans hw.1, (end_len _ _).2.2.2 hw.2⟩

theorem opRecv_delivery (fuel : Nat) (st : St) (h : (st.opRecv fuel).2.1.delivers = true) :
    (st.opRecv fuel).1.cs.committed = true := by
  unfold St.opRecv at h ⊢
  exact (end_len _ _).2.1.2 (withRetry_delivery_commits fuel st .recv h)

/-- an operation that hands a response header or message to the application leaves the stream committed -/
theorem step_delivery_commits (fuel : Nat) (st : St) (op : AppOp) (hop : op ≠ .new)
    (h : (st.step fuel op).2.1.delivers = true) : (st.step fuel op).1.cs.committed = true := by
  cases op with
  | new => exact absurd rfl hop
  | cancel => simp [St.step, St.opCancel, Res.delivers] at h
  | send size =>
    simp only [St.step] at h ⊢
    rw [(opSendW_fst fuel st size).1]
    unfold St.opSendW at h
    simp only at h
    have key : (st.opSend fuel size).2.1.delivers = true → (st.opSend fuel size).1.cs.committed = true := by
      intro hd
      unfold St.opSend at hd ⊢
      split_ifs at hd ⊢
      · simp [Res.delivers] at hd
      · exact (end_len _ _).1.2 (withRetry_delivery_commits fuel _ _ hd)
    split_ifs at h
    · exact key h
    · apply key
      simp only at h
      split at h
      · simp [Res.delivers] at h
      · exact h
  | close =>
    simp only [St.step] at h
    unfold St.opClose at h
    split_ifs at h <;> simp [Res.delivers] at h
  | recv =>
    simp only [St.step, St.opRecvW] at h ⊢
    split_ifs at h ⊢
    · exact opRecv_delivery fuel st h
    · cases heq : (st.opRecv fuel).2.1 with
      | msg n =>
        simp only [heq] at h ⊢
        have c1 : (st.opRecv fuel).1.cs.committed = true := opRecv_delivery fuel st (by rw [heq]; rfl)
        exact (opRecv_committed fuel _ c1).2
      | hdr => simp only [heq]; exact opRecv_delivery fuel st (by rw [heq]; rfl)
      | _ => simp [heq, Res.delivers] at h
  | header =>
    simp only [St.step] at h ⊢
    unfold St.opHeader at h ⊢
    simp only at h ⊢
    apply (end_len _ _).2.2.2
    apply withRetry_delivery_commits
    split at h
    · simp [Res.delivers] at h
    · simp [Res.delivers] at h
    · exact h


end GrpcProofs.Lemmas.RetryLoop
