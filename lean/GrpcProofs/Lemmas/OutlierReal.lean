/-
C40 helper: the exact rational decision procedure `belowMean` of the model is the real-number
criterion  successRate < mean − √variance · (factor/1000)  (Mathlib reals).
-/
import Mathlib.Analysis.Real.Sqrt
import GrpcModel.Model.Outlier
namespace GrpcProofs.Lemmas.OutlierReal
open GrpcModel.Outlier

theorem sum_sq_nonneg (l : List Rat) (h : ∀ x ∈ l, 0 ≤ x) : 0 ≤ l.sum := List.sum_nonneg h

theorem variance_nonneg (l : List Ep) : 0 ≤ variance l := by
  unfold variance
  apply div_nonneg
  · apply List.sum_nonneg
    intro x hx
    obtain ⟨e, _, rfl⟩ := List.mem_map.mp hx
    exact mul_self_nonneg _
  · exact Nat.cast_nonneg _

theorem belowMean_iff_real (l : List Ep) (factor : Nat) (e : Ep) :
    belowMean l factor e = true ↔
      ((rate e : ℚ) : ℝ) < ((mean l : ℚ) : ℝ) - Real.sqrt ((variance l : ℚ) : ℝ) * ((factor : ℝ) / 1000) := by
  have hv : (0 : ℝ) ≤ ((variance l : ℚ) : ℝ) := by exact_mod_cast variance_nonneg l
  have ht : (0 : ℝ) ≤ (factor : ℝ) / 1000 := by positivity
  unfold belowMean
  simp only [Bool.and_eq_true, decide_eq_true_eq]
  set d : ℚ := mean l - rate e with hd
  set t : ℚ := (factor : ℚ) / 1000 with htq
  have hdr : ((d : ℚ) : ℝ) = ((mean l : ℚ) : ℝ) - ((rate e : ℚ) : ℝ) := by simp [hd]
  have htr : ((t : ℚ) : ℝ) = (factor : ℝ) / 1000 := by simp [htq]
  have key : Real.sqrt ((variance l : ℚ) : ℝ) * ((factor : ℝ) / 1000) = Real.sqrt (((variance l * (t * t) : ℚ)) : ℝ) := by
    push_cast
    rw [Real.sqrt_mul hv, Real.sqrt_mul_self (by rw [htr]; exact ht), htr]
  rw [key]
  constructor
  · rintro ⟨h0, hlt⟩
    have h0r : (0 : ℝ) < (d : ℝ) := by exact_mod_cast h0
    have hltr : ((variance l * (t * t) : ℚ) : ℝ) < ((d * d : ℚ) : ℝ) := by exact_mod_cast hlt
    have : Real.sqrt ((variance l * (t * t) : ℚ) : ℝ) < (d : ℝ) := by
      rw [Real.sqrt_lt' h0r]
      push_cast at hltr ⊢
      nlinarith
    rw [hdr] at this
    linarith
  · intro h
    have hs : Real.sqrt ((variance l * (t * t) : ℚ) : ℝ) < (d : ℝ) := by rw [hdr]; linarith
    have h0r : (0 : ℝ) < (d : ℝ) := lt_of_le_of_lt (Real.sqrt_nonneg _) hs
    refine ⟨by exact_mod_cast h0r, ?_⟩
    rw [Real.sqrt_lt' h0r] at hs
    have : ((variance l * (t * t) : ℚ) : ℝ) < ((d * d : ℚ) : ℝ) := by push_cast at hs ⊢; nlinarith
    exact_mod_cast this

end GrpcProofs.Lemmas.OutlierReal
