/-
Helper lemmas for C53 (buffer pools); model in GrpcModel/Model/MemPool.lean.
-/
import GrpcModel.Model.MemPool
namespace GrpcProofs.Lemmas.MemPool
open GrpcModel.MemPool GrpcModel.Generated

/-- sized sub-pools are sized pools and only store buffers at least as large as their size;
    the fallback is a SimpleBufferPool -/
def PoolOK (p : Pool) : Prop :=
  (∀ (i : Nat) (s : Sub), p.subs[i]? = some s → s.simple = false ∧ ∀ b ∈ s.store, s.size ≤ b.cap) ∧
  p.fallback.simple = true

theorem firstGE_spec (l : List Sub) (n k i : Nat) (h : firstGE l n k = some i) :
    k ≤ i ∧ ∃ s, l[i - k]? = some s ∧ n ≤ s.size := by
  induction l generalizing k with
  | nil => simp [firstGE] at h
  | cons s t ih =>
    simp only [firstGE] at h
    split at h
    · simp at h; subst h; exact ⟨Nat.le_refl _, s, by simp, by omega⟩
    · obtain ⟨h1, s', h2, h3⟩ := ih (k + 1) h
      refine ⟨by omega, s', ?_, h3⟩
      have : i - k = (i - (k + 1)) + 1 := by omega
      rw [this]; simpa using h2

theorem lastLE_spec (l : List Sub) (n k : Nat) (acc : Option Nat) (i : Nat) (h : lastLE l n k acc = some i) :
    acc = some i ∨ (k ≤ i ∧ ∃ s, l[i - k]? = some s ∧ s.size ≤ n) := by
  induction l generalizing k acc with
  | nil => simp [lastLE] at h; exact Or.inl h
  | cons s t ih =>
    simp only [lastLE] at h
    split at h
    · rcases ih (k + 1) (some k) h with h1 | ⟨h1, s', h2, h3⟩
      · simp at h1; subst h1
        exact Or.inr ⟨Nat.le_refl _, s, by simp, by assumption⟩
      · refine Or.inr ⟨by omega, s', ?_, h3⟩
        have : i - k = (i - (k + 1)) + 1 := by omega
        rw [this]; simpa using h2
    · exact Or.inl h

theorem floorPow2_le (fuel n : Nat) (h : 0 < n) : floorPow2 fuel n ≤ n := by
  induction fuel generalizing n with
  | zero => simp [floorPow2]; omega
  | succ f ih =>
    simp only [floorPow2]
    split
    · omega
    · have := ih (n / 2) (by omega)
      omega

theorem refForGet_sub {p : Pool} {n i : Nat} (h : refForGet p n = .sub i) :
    ∃ s, p.subs[i]? = some s ∧ n ≤ s.size := by
  unfold refForGet at h
  split at h
  · cases h
  · cases h
  · split at h
    · cases h
    · split at h
      · rename_i j hj
        cases h
        obtain ⟨_, s, h2, h3⟩ := firstGE_spec _ _ _ _ hj
        exact ⟨s, by simpa using h2, h3⟩
      · cases h
  · split at h
    · rename_i j hj
      cases h
      obtain ⟨_, s, h2, h3⟩ := firstGE_spec _ _ _ _ hj
      exact ⟨s, by simpa using h2, h3⟩
    · cases h

theorem refForPut_sub {p : Pool} {c i : Nat} (h : refForPut p c = some (.sub i)) :
    ∃ s, p.subs[i]? = some s ∧ s.size ≤ c := by
  unfold refForPut at h
  split at h
  · cases h
  · cases h
  · split at h
    · cases h
    · split at h
      · cases h
      · split at h
        · rename_i hc0 _ j hj
          cases h
          rcases lastLE_spec _ _ _ _ _ hj with h1 | ⟨_, s, h2, h3⟩
          · cases h1
          · have := floorPow2_le c c (by omega)
            exact ⟨s, by simpa using h2, by omega⟩
        · cases h
  · split at h
    · split at h
      · rename_i j hj s hs
        split at h
        · cases h
        · cases h; exact ⟨s, hs, by omega⟩
      · cases h
    · cases h

theorem roundup_ge (n : Nat) : n ≤ (n + goPageSize - 1) / goPageSize * goPageSize := by
  unfold goPageSize; omega

/-- Get(n): length n and capacity ≥ n, whatever sync.Pool does -/
theorem get_len_cap {p : Pool} (hp : PoolOK p) {n : Nat} {g : Got} {p' : Pool}
    (h : (g, p') ∈ getOutcomes p n) : g.len = n ∧ n ≤ g.buf.cap := by
  unfold getOutcomes at h
  split at h
  · simp at h; obtain ⟨rfl, _⟩ := h; exact ⟨rfl, Nat.le_refl _⟩
  · rename_i r0 hnop
    split at h
    · simp at h
    · rename_i s hs
      -- facts about the chosen sub-pool
      have hsub : (s.simple = true) ∨ (s.simple = false ∧ n ≤ s.size ∧ ∀ b ∈ s.store, s.size ≤ b.cap) := by
        cases hrr : refForGet p n with
        | sub i =>
          rw [hrr] at hs
          obtain ⟨s', h1, h2⟩ := refForGet_sub hrr
          simp only [getSub] at hs
          rw [h1] at hs; cases hs
          obtain ⟨q1, q2⟩ := hp.1 i s h1
          exact Or.inr ⟨q1, h2, q2⟩
        | fallback =>
          rw [hrr] at hs
          simp only [getSub] at hs; cases hs
          exact Or.inl hp.2
        | nop => exact (hnop hrr).elim
      simp only [List.mem_cons, List.mem_map, List.mem_filter, Prod.mk.injEq] at h
      rcases h with ⟨rfl, _⟩ | ⟨b, ⟨hb, hf⟩, rfl, _⟩
      · refine ⟨rfl, ?_⟩
        simp only [freshCap]
        rcases hsub with h1 | ⟨h1, h2, _⟩
        · simp [h1]; exact roundup_ge n
        · simp [h1]; exact h2
      · refine ⟨rfl, ?_⟩
        simp only []
        rcases hsub with h1 | ⟨h1, h2, h3⟩
        · simp [h1] at hf; exact hf
        · have := h3 b hb; omega

/-- a zeroing sub-pool hands out zeroed buffers; fresh buffers are always zero -/
theorem get_zero {p : Pool} {n : Nat} {g : Got} {p' : Pool} (h : (g, p') ∈ getOutcomes p n) :
    (g.reused = false → g.buf.zero = true) ∧
    (∀ s, getSub p (refForGet p n) = some s → s.zeroing = true → g.buf.zero = true) := by
  unfold getOutcomes at h
  split at h
  · simp at h; obtain ⟨rfl, _⟩ := h
    exact ⟨fun _ => rfl, fun _ _ _ => rfl⟩
  · rename_i r0 hnop
    split at h
    · simp at h
    · rename_i s hs
      simp only [List.mem_cons, List.mem_map, List.mem_filter, Prod.mk.injEq] at h
      rcases h with ⟨rfl, _⟩ | ⟨b, ⟨hb, hf⟩, rfl, _⟩
      · exact ⟨fun _ => rfl, fun _ _ _ => rfl⟩
      · refine ⟨fun hh => by simp at hh, fun s' hs' hz => ?_⟩
        rw [hs] at hs'; cases hs'
        simp [hz]

/-- a reused buffer was in the chosen sub-pool's bag and one copy of it leaves the bag;
    a fresh buffer has a new identity -/
theorem get_takes_from_store {p : Pool} {n : Nat} {g : Got} {p' : Pool} (h : (g, p') ∈ getOutcomes p n) :
    (g.reused = false → g.buf.id = p.nextId ∧ p'.nextId = p.nextId + 1) ∧
    (g.reused = true → ∃ s b, getSub p (refForGet p n) = some s ∧ b ∈ s.store ∧ b.id = g.buf.id ∧
        p' = setSub p (refForGet p n) { s with store := s.store.erase b }) := by
  unfold getOutcomes at h
  split at h
  · simp at h; obtain ⟨rfl, rfl⟩ := h
    exact ⟨fun _ => ⟨rfl, rfl⟩, fun hh => by simp at hh⟩
  · rename_i r0 hnop
    split at h
    · simp at h
    · rename_i s hs
      simp only [List.mem_cons, List.mem_map, List.mem_filter, Prod.mk.injEq] at h
      rcases h with ⟨rfl, rfl⟩ | ⟨b, ⟨hb, hf⟩, rfl, rfl⟩
      · exact ⟨fun _ => ⟨rfl, rfl⟩, fun hh => by simp at hh⟩
      · exact ⟨fun hh => by simp at hh, fun _ => ⟨s, b, hs, hb, rfl, rfl⟩⟩



theorem poolOK_setSub {p : Pool} (hp : PoolOK p) {r : Ref} {s s' : Sub} (hs : getSub p r = some s)
    (h1 : s'.simple = s.simple) (h2 : s'.size = s.size)
    (h3 : s.simple = false → ∀ b ∈ s'.store, b ∈ s.store ∨ s.size ≤ b.cap) : PoolOK (setSub p r s') := by
  cases r with
  | sub i =>
    simp only [getSub] at hs
    simp only [setSub]
    refine ⟨fun j sj hj => ?_, hp.2⟩
    simp only [] at hj
    rw [List.getElem?_set] at hj
    by_cases hij : i = j
    · subst hij
      have hlt : i < p.subs.length := by
        rcases Nat.lt_or_ge i p.subs.length with h | h
        · exact h
        · rw [List.getElem?_eq_none h] at hs; cases hs
      simp [hlt] at hj; subst hj
      obtain ⟨q1, q2⟩ := hp.1 i s hs
      refine ⟨by rw [h1]; exact q1, fun b hb => ?_⟩
      rw [h2]
      rcases h3 q1 b hb with hb' | hb'
      · exact q2 b hb'
      · exact hb'
    · simp only [hij, if_false] at hj
      exact hp.1 j sj hj
  | fallback =>
    simp only [getSub, Option.some.injEq] at hs
    simp only [setSub]
    exact ⟨hp.1, by simp only []; rw [h1, ← hs]; exact hp.2⟩
  | nop => exact hp

theorem poolOK_put {p : Pool} (hp : PoolOK p) (b : Buf) : PoolOK (put p b) := by
  unfold put
  split
  · exact hp
  · rename_i r hr
    split
    · exact hp
    · rename_i s hs
      refine poolOK_setSub hp hs rfl rfl (fun hsimple x hx => ?_)
      simp only [List.mem_cons] at hx
      rcases hx with rfl | hx
      · cases r with
        | sub i =>
          obtain ⟨s', h1, h2⟩ := refForPut_sub hr
          simp only [getSub] at hs
          rw [h1] at hs; cases hs
          exact Or.inr h2
        | fallback =>
          simp only [getSub, Option.some.injEq] at hs
          rw [← hs, hp.2] at hsimple; cases hsimple
        | nop => simp [getSub] at hs
      · exact Or.inl hx

theorem poolOK_get {p : Pool} (hp : PoolOK p) {n : Nat} {g : Got} {p' : Pool}
    (h : (g, p') ∈ getOutcomes p n) : PoolOK p' := by
  rcases hg : g.reused with _ | _
  · have := (get_takes_from_store h).1 hg
    unfold getOutcomes at h
    split at h
    · simp at h; obtain ⟨_, rfl⟩ := h; exact hp
    · split at h
      · simp at h
      · simp only [List.mem_cons, List.mem_map, List.mem_filter, Prod.mk.injEq] at h
        rcases h with ⟨_, rfl⟩ | ⟨b, _, rfl, _⟩
        · exact hp
        · simp at hg
  · obtain ⟨s, b, hs, hb, _, rfl⟩ := (get_takes_from_store h).2 hg
    exact poolOK_setSub hp hs rfl rfl (fun _ x hx => Or.inl (List.mem_of_mem_erase hx))

theorem poolOK_newBinary (exps : List Nat) (z : Bool) : PoolOK (newBinary exps z) := by
  refine ⟨fun i s hs => ?_, rfl⟩
  simp only [newBinary, List.getElem?_map, Option.map_eq_some_iff] at hs
  obtain ⟨e, _, rfl⟩ := hs
  exact ⟨rfl, by simp⟩

theorem poolOK_newTiered (sizes : List Nat) : PoolOK (newTiered sizes) := by
  refine ⟨fun i s hs => ?_, rfl⟩
  simp only [newTiered, List.getElem?_map, Option.map_eq_some_iff] at hs
  obtain ⟨e, _, rfl⟩ := hs
  exact ⟨rfl, by simp⟩

theorem poolOK_newSimple (z : Bool) : PoolOK (newSimple z) := ⟨fun i s hs => by simp [newSimple] at hs, rfl⟩
theorem poolOK_newNop : PoolOK newNop := ⟨fun i s hs => by simp [newNop] at hs, rfl⟩

end GrpcProofs.Lemmas.MemPool
