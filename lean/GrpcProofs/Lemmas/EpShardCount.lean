/-
Pure arithmetic behind round-robin fairness (C35): among k consecutive integers a, a+1, …, a+k-1
the residue class i (mod n) occurs ⌊k/n⌋ or ⌈k/n⌉ times.
-/
namespace GrpcProofs.Lemmas.EpShardCount

/-- number of j < m with j % n = i -/
def below (n i m : Nat) : Nat := (List.range m).countP (fun j => decide (j % n = i))

theorem dvd_shift (n i m : Nat) (hi : i < n) : n ∣ m + (n - 1 - i) + 1 ↔ m % n = i := by
  have hn : 0 < n := by omega
  have e : m + (n - 1 - i) + 1 = m % n + (n - i) + n * (m / n) := by
    have := Nat.div_add_mod m n
    omega
  rw [Nat.dvd_iff_mod_eq_zero, e, Nat.add_mul_mod_self_left]
  have hr : m % n < n := Nat.mod_lt _ hn
  generalize m % n = r at hr ⊢
  by_cases h : r + (n - i) < n
  · rw [Nat.mod_eq_of_lt h]; omega
  · have h2 : r + (n - i) - n < n := by omega
    rw [Nat.mod_eq_sub_mod (by omega), Nat.mod_eq_of_lt h2]; omega

theorem below_eq (n i : Nat) (hi : i < n) (m : Nat) : below n i m = (m + (n - 1 - i)) / n := by
  induction m with
  | zero =>
    simp only [below, List.range_zero, List.countP_nil, Nat.zero_add]
    exact (Nat.div_eq_of_lt (by omega)).symm
  | succ m ih =>
    have e : m + 1 + (n - 1 - i) = m + (n - 1 - i) + 1 := by omega
    unfold below at ih ⊢
    rw [List.range_succ, List.countP_append, ih, e, Nat.succ_div]
    simp only [List.countP_cons, List.countP_nil, Nat.zero_add, dvd_shift n i m hi, decide_eq_true_eq]

/-- number of j < k with (a + j) % n = i -/
def window (n a k i : Nat) : Nat := (List.range k).countP (fun j => decide ((a + j) % n = i))

theorem window_eq (n a k i : Nat) : below n i (a + k) = below n i a + window n a k i := by
  unfold below window
  rw [List.range_add, List.countP_append, List.countP_map]
  rfl

/-- `c` is ⌊k/n⌋ or ⌈k/n⌉ (the model's `fair`, as a Prop) -/
theorem window_fair (n a k i : Nat) (hi : i < n) :
    window n a k i = k / n ∨ (window n a k i = k / n + 1 ∧ k % n ≠ 0) := by
  have hn : 0 < n := by omega
  have h := window_eq n a k i
  rw [below_eq n i hi, below_eq n i hi] at h
  have e : a + k + (n - 1 - i) = (a + (n - 1 - i)) + k := by omega
  rw [e, Nat.add_div hn] at h
  have hr : (a + (n - 1 - i)) % n < n := Nat.mod_lt _ hn
  split at h
  · next hle => right; constructor <;> omega
  · left; omega

end GrpcProofs.Lemmas.EpShardCount
