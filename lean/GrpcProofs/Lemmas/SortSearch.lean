/-
`sort.Search` correctness (binary search), shared by C37 (ring.pick) and C38 (randomWRR.Next).
-/
import GrpcModel.Model.SortSearch
namespace GrpcProofs.Lemmas.SortSearch
open GrpcModel.SortSearch

/-- `f` is false … false true … true -/
def Mono (f : Nat → Bool) : Prop := ∀ a b, a ≤ b → f a = true → f b = true

theorem searchLoop_spec (f : Nat → Bool) (n : Nat) (hm : Mono f) :
    ∀ fuel i j, i ≤ j → j ≤ n → j - i ≤ fuel →
      (∀ k, k < i → f k = false) → (∀ k, j ≤ k → k < n → f k = true) →
      i ≤ searchLoop f fuel i j ∧ searchLoop f fuel i j ≤ j ∧
      (∀ k, k < searchLoop f fuel i j → f k = false) ∧
      (∀ k, searchLoop f fuel i j ≤ k → k < n → f k = true) := by
  intro fuel
  induction fuel with
  | zero =>
    intro i j hij hjn hf hlo hhi
    have : i = j := by omega
    subst this
    exact ⟨Nat.le_refl _, Nat.le_refl _, hlo, hhi⟩
  | succ fuel ih =>
    intro i j hij hjn hf hlo hhi
    unfold searchLoop
    by_cases hlt : i < j
    · simp only [hlt, if_true]
      have h1 : i ≤ (i + j) / 2 := by omega
      have h2 : (i + j) / 2 < j := by omega
      cases hfh : f ((i + j) / 2) with
      | false =>
        simp only [Bool.not_false, if_true]
        have hlo' : ∀ k, k < (i + j) / 2 + 1 → f k = false := by
          intro k hk
          cases hfk : f k with
          | false => rfl
          | true =>
            have := hm k ((i + j) / 2) (by omega) hfk
            rw [hfh] at this; cases this
        obtain ⟨a, b, c, d⟩ := ih ((i + j) / 2 + 1) j (by omega) hjn (by omega) hlo' hhi
        exact ⟨by omega, b, c, d⟩
      | true =>
        simp only [Bool.not_true, Bool.false_eq_true, if_false]
        have hhi' : ∀ k, (i + j) / 2 ≤ k → k < n → f k = true := by
          intro k hk _
          exact hm _ k hk hfh
        obtain ⟨a, b, c, d⟩ := ih i ((i + j) / 2) h1 (by omega) (by omega) hlo hhi'
        exact ⟨a, by omega, c, d⟩
    · simp only [hlt, if_false]
      have : i = j := by omega
      subst this
      exact ⟨Nat.le_refl _, Nat.le_refl _, hlo, hhi⟩

/-- `sort.Search(n, f)` for a monotone predicate: the smallest index in [0, n] at which `f` holds
    (n if it never does). -/
theorem search_spec (n : Nat) (f : Nat → Bool) (hm : Mono f) :
    search n f ≤ n ∧ (∀ k, k < search n f → f k = false) ∧
    (∀ k, search n f ≤ k → k < n → f k = true) := by
  obtain ⟨_, b, c, d⟩ := searchLoop_spec f n hm n 0 n (Nat.zero_le _) (Nat.le_refl _) (by omega)
    (by intro k hk; omega) (by intro k h1 h2; omega)
  exact ⟨b, c, d⟩

/-- … and that index is unique. -/
theorem search_eq (n : Nat) (f : Nat → Bool) (hm : Mono f) (i : Nat) (hi : i ≤ n)
    (hlo : ∀ k, k < i → f k = false) (hhi : ∀ k, i ≤ k → k < n → f k = true) :
    search n f = i := by
  obtain ⟨a, b, c⟩ := search_spec n f hm
  rcases Nat.lt_trichotomy (search n f) i with h | h | h
  · have h1 := c (search n f) (Nat.le_refl _) (by omega)
    rw [hlo _ h] at h1; cases h1
  · exact h
  · have h1 := hhi i (Nat.le_refl _) (by omega)
    rw [b i h] at h1; cases h1

end GrpcProofs.Lemmas.SortSearch
