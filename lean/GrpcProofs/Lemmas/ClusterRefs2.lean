import GrpcProofs.Lemmas.ClusterRefs
/-! C51, clause 3 under the hypothesis that no clusterInfo with a used unsubscribe is re-referenced:
    consistency between the resolver's table and the dependency manager's dynamic references. -/
namespace GrpcProofs.Lemmas.ClusterRefs
open GrpcModel.ClusterRefs

/-- per-cluster consistency: an unspent clusterInfo holds exactly one dynamic reference and at least
    one reference count; a spent one holds none (and, unless a spent one was ever re-referenced,
    has reference count 0); clusters without clusterInfo have no dynamic reference -/
def G1at (s : State) (c : Name) : Prop := match findInfo s.active c with
  | none => dynOf s c = 0
  | some i => if i.spent = true then dynOf s c = 0 ∧ (s.reusedSpent = false → i.refCount = 0)
              else 1 ≤ i.refCount ∧ dynOf s c = 1

def G1 (s : State) : Prop := ∀ c, G1at s c

theorem G1at_some {s : State} {c : Name} {i : Info} (hf : findInfo s.active c = some i) :
    G1at s c ↔ (if i.spent = true then dynOf s c = 0 ∧ (s.reusedSpent = false → i.refCount = 0)
                else 1 ≤ i.refCount ∧ dynOf s c = 1) := by
  unfold G1at; rw [hf]

theorem G1at_none {s : State} {c : Name} (hf : findInfo s.active c = none) : G1at s c ↔ dynOf s c = 0 := by
  unfold G1at; rw [hf]

/-- the statement about c only depends on c's entry, c's dynamic count and the ghost flag -/
theorem G1at_transfer {s s' : State} {x : Name} (hf : findInfo s'.active x = findInfo s.active x)
    (hd : dynOf s' x = dynOf s x) (hr : s'.reusedSpent = false → s.reusedSpent = false) (h : G1at s x) : G1at s' x := by
  cases hfx : findInfo s.active x with
  | none =>
    rw [G1at_none hfx] at h
    rw [G1at_none (hf.trans hfx), hd]; exact h
  | some j =>
    rw [G1at_some hfx] at h
    rw [G1at_some (hf.trans hfx), hd]
    split at h
    · rename_i hs; rw [if_pos hs]; exact ⟨h.1, fun hh => h.2 (hr hh)⟩
    · rename_i hs; rw [if_neg hs]; exact h

/-- a spent clusterInfo is still named by the route the dependency manager has, or an update is queued -/
def B2 (s : State) : Prop :=
  s.reusedSpent = false → ∀ c i, findInfo s.active c = some i → i.spent = true → (c ∈ s.static ∨ s.queue ≠ [])

/-- the queue only grows, by updates that carry the current static route -/
structure Ext (s s' : State) : Prop where
  static : s'.static = s.static
  reused : s'.reusedSpent = false → s.reusedSpent = false
  queue : ∃ extra, s'.queue = s.queue ++ extra ∧ ∀ u ∈ extra, u.route = s.static

theorem Ext.refl (s : State) : Ext s s := ⟨rfl, id, [], by simp, by simp⟩
theorem Ext.trans {a b c : State} (h1 : Ext a b) (h2 : Ext b c) : Ext a c := by
  obtain ⟨e1, q1, r1⟩ := h1.queue
  obtain ⟨e2, q2, r2⟩ := h2.queue
  refine ⟨h2.static.trans h1.static, fun h => h1.reused (h2.reused h), e1 ++ e2, by rw [q2, q1, List.append_assoc], ?_⟩
  intro u hu
  rcases List.mem_append.mp hu with h | h
  · exact r1 u h
  · rw [← h1.static]; exact r2 u h

theorem Ext.queue_ne {s s' : State} (h : Ext s s') (hq : s.queue ≠ []) : s'.queue ≠ [] := by
  obtain ⟨e, q, _⟩ := h.queue
  rw [q]
  intro h'
  exact hq (List.append_eq_nil_iff.mp h').1

theorem sendUpdate_ext (s : State) : Ext s (sendUpdate s) ∧ (sendUpdate s).queue ≠ [] ∧ (sendUpdate s).dyn = s.dyn :=
  ⟨⟨rfl, id, [{ route := s.static, clusters := subs s }], rfl, by simp⟩, by simp [sendUpdate], rfl⟩

theorem dynOf_congr {s s' : State} (h : s'.dyn = s.dyn) (c : Name) : dynOf s' c = dynOf s c := by
  unfold dynOf; rw [h]

/-- unsubscribeFromCluster: dynamic count of c minus one; an update unless c still has a reference -/
theorem unsubscribeDM_ext (s : State) (c : Name) :
    Ext s (unsubscribeDM s c) ∧ (unsubscribeDM s c).active = s.active ∧
    (∀ x, dynOf (unsubscribeDM s c) x = if x = c then dynOf s c - 1 else dynOf s x) ∧
    (dynOf s c = 1 → c ∈ s.static ∨ (unsubscribeDM s c).queue ≠ []) := by
  have hd : ∀ x, (s.dyn.erase c).count x = if x = c then s.dyn.count c - 1 else s.dyn.count x := by
    intro x
    by_cases hx : x = c
    · subst hx; simp [List.count_erase_self]
    · simp [hx, List.count_erase_of_ne hx]
  unfold unsubscribeDM
  dsimp only
  split
  · rename_i hcond
    obtain ⟨e, q, d⟩ := sendUpdate_ext { s with dyn := s.dyn.erase c }
    refine ⟨⟨e.static, e.reused, e.queue⟩, rfl, ?_, fun _ => Or.inr q⟩
    intro x; rw [dynOf_congr d]; exact hd x
  · rename_i hcond
    refine ⟨⟨rfl, id, [], by simp, by simp⟩, rfl, hd, ?_⟩
    intro h1
    left
    by_cases hs : c ∈ s.static
    · exact hs
    · exfalso; apply hcond
      exact ⟨by rw [h1], by simpa using hs⟩

theorem subscribe_ext (s : State) (c : Name) :
    Ext s (subscribe s c) ∧ (subscribe s c).active = s.active ∧
    (∀ x, dynOf (subscribe s c) x = if x = c then dynOf s c + 1 else dynOf s x) := by
  have hd : ∀ x, (s.dyn ++ [c]).count x = if x = c then s.dyn.count c + 1 else s.dyn.count x := by
    intro x
    by_cases hx : x = c
    · subst hx; simp
    · have : ¬ c = x := fun e => hx e.symm
      simp [hx, List.count_cons, this]
  unfold subscribe
  dsimp only
  split
  · exact ⟨⟨rfl, id, [], by simp, by simp⟩, rfl, hd⟩
  · refine ⟨⟨rfl, id, ?_⟩, rfl, hd⟩
    simp only [sendUpdate, List.append_assoc]
    refine ⟨_, rfl, ?_⟩
    intro u hu
    simp only [List.mem_append, List.mem_cons, List.not_mem_nil, or_false] at hu
    rcases hu with (h | h) | h <;> subst h <;> rfl


/-! ### unsubscribe / release / acquire keep the table and the dependency manager consistent -/

theorem unsubscribe_good (s : State) (c : Name) (hg : G1 s)
    (h0 : ∀ i, findInfo s.active c = some i → i.refCount = 0) :
    G1 (unsubscribe s c) ∧ Ext s (unsubscribe s c) ∧ (B2 s → B2 (unsubscribe s c)) := by
  unfold unsubscribe
  cases hf : findInfo s.active c with
  | none => exact ⟨hg, Ext.refl s, id⟩
  | some i =>
    simp only
    split
    · exact ⟨hg, Ext.refl s, id⟩
    · rename_i hsp
      have hsp' : i.spent = false := by simpa using hsp
      obtain ⟨e0, ha, hd, hq⟩ := unsubscribeDM_ext { s with active := modifyInfo s.active c markSpent } c
      have e : Ext s (unsubscribeDM { s with active := modifyInfo s.active c markSpent } c) :=
        Ext.trans (b := { s with active := modifyInfo s.active c markSpent }) ⟨rfl, id, [], by simp, by simp⟩ e0
      generalize unsubscribeDM { s with active := modifyInfo s.active c markSpent } c = s' at e0 ha hd hq e
      have hgc := (G1at_some hf).mp (hg c)
      simp only [hsp', Bool.false_eq_true, if_false] at hgc
      have hfi : ∀ x, findInfo s'.active x = if x = c then some (markSpent i) else findInfo s.active x := by
        intro x
        rw [ha]
        simp only
        rw [findInfo_modify s.active c x markSpent (fun _ => rfl), hf]
        rfl
      have hdy : ∀ x, dynOf s' x = if x = c then dynOf s c - 1 else dynOf s x := hd
      refine ⟨?_, e, ?_⟩
      · intro x
        by_cases hx : x = c
        · subst hx
          have hfx : findInfo s'.active x = some (markSpent i) := by rw [hfi x]; simp
          rw [G1at_some hfx, hdy x]
          simp only [markSpent, if_true]
          exact ⟨by rw [hgc.2], fun _ => h0 i hf⟩
        · exact G1at_transfer (by rw [hfi x]; simp [hx]) (by rw [hdy x]; simp [hx]) e.reused (hg x)
      · intro hb hr x j hj hs
        by_cases hx : x = c
        · subst hx
          rcases hq hgc.2 with h | h
          · exact Or.inl (by rw [e.static]; exact h)
          · exact Or.inr h
        · rw [hfi x] at hj
          simp only [hx, if_false] at hj
          rcases hb (e.reused hr) x j hj hs with h | h
          · exact Or.inl (by rw [e.static]; exact h)
          · exact Or.inr (e.queue_ne h)

theorem release_good (s : State) (c : Name) (hg : G1 s) :
    G1 (release s c) ∧ Ext s (release s c) ∧ (B2 s → B2 (release s c)) := by
  unfold release
  cases hf : findInfo s.active c with
  | none => exact ⟨hg, Ext.refl s, id⟩
  | some i =>
    simp only
    have hfi1 : ∀ x, findInfo (modifyInfo s.active c decr) x = if x = c then some (decr i) else findInfo s.active x := by
      intro x
      rw [findInfo_modify s.active c x decr (fun _ => rfl), hf]
      rfl
    have hgc := (G1at_some hf).mp (hg c)
    have e1 : Ext s { s with active := modifyInfo s.active c decr } := ⟨rfl, id, [], by simp, by simp⟩
    -- the table after the decrement, seen as a state
    have hg1 : i.refCount - 1 ≠ 0 ∨ i.spent = true → G1 { s with active := modifyInfo s.active c decr } := by
      intro hcase x
      by_cases hx : x = c
      · subst hx
        have hfx : findInfo ({ s with active := modifyInfo s.active x decr } : State).active x = some (decr i) := by
          simp only; rw [hfi1 x]; simp
        rw [G1at_some hfx]
        by_cases hsp : i.spent = true
        · simp only [hsp, if_true, decr] at hgc ⊢
          exact ⟨hgc.1, fun hr => by rw [hgc.2 hr]⟩
        · simp only [hsp, if_false, decr] at hgc ⊢
          rcases hcase with h | h
          · exact ⟨by omega, hgc.2⟩
          · exact absurd h hsp
      · exact G1at_transfer (s := s) (s' := { s with active := modifyInfo s.active c decr })
          (by show findInfo (modifyInfo s.active c decr) x = findInfo s.active x; rw [hfi1 x]; simp [hx]) rfl id (hg x)
    have hb1 : B2 s → B2 { s with active := modifyInfo s.active c decr } := by
      intro hb hr x j hj hs
      simp only at hj
      rw [hfi1 x] at hj
      by_cases hx : x = c
      · subst hx
        simp only [if_true, Option.some.injEq] at hj
        subst hj
        exact hb hr x i hf (by simpa [decr] using hs)
      · simp only [hx, if_false] at hj
        exact hb hr x j hj hs
    split
    · rename_i hz
      by_cases hsp : i.spent = true
      · -- already spent: unsubscribe is a no-op
        have hgs := hg1 (Or.inr hsp)
        obtain ⟨a, b, c'⟩ := unsubscribe_good { s with active := modifyInfo s.active c decr } c hgs
          (by intro j hj; simp only at hj; rw [hfi1 c] at hj; simp at hj; subst hj; simpa [decr] using hz)
        exact ⟨a, Ext.trans e1 b, fun hb => c' (hb1 hb)⟩
      · -- unspent, count reaches 0: do the unsubscribe by hand (G1 is broken in between)
        have hsp' : i.spent = false := by simpa using hsp
        simp only [hsp', Bool.false_eq_true, if_false] at hgc
        unfold unsubscribe
        simp only
        rw [hfi1 c]
        simp only [if_true, decr, hsp', Bool.false_eq_true, if_false]
        obtain ⟨e0, ha, hd, hq⟩ := unsubscribeDM_ext
          { s with active := modifyInfo (modifyInfo s.active c decr) c markSpent } c
        have e : Ext s (unsubscribeDM { s with active := modifyInfo (modifyInfo s.active c decr) c markSpent } c) :=
          Ext.trans (b := { s with active := modifyInfo (modifyInfo s.active c decr) c markSpent })
            ⟨rfl, id, [], by simp, by simp⟩ e0
        generalize unsubscribeDM { s with active := modifyInfo (modifyInfo s.active c decr) c markSpent } c = s' at e0 ha hd hq e
        have hfi : ∀ x, findInfo s'.active x = if x = c then some (markSpent (decr i)) else findInfo s.active x := by
          intro x
          rw [ha]
          simp only
          rw [findInfo_modify (modifyInfo s.active c decr) c x markSpent (fun _ => rfl), hfi1 c]
          by_cases hx : x = c
          · simp [hx]
          · simp only [hx, if_false]; rw [hfi1 x]; simp [hx]
        have hdy : ∀ x, dynOf s' x = if x = c then dynOf s c - 1 else dynOf s x := hd
        refine ⟨?_, e, ?_⟩
        · intro x
          by_cases hx : x = c
          · subst hx
            have hfx : findInfo s'.active x = some (markSpent (decr i)) := by rw [hfi x]; simp
            rw [G1at_some hfx, hdy x]
            simp only [markSpent, decr, if_true]
            exact ⟨by rw [hgc.2], fun _ => hz⟩
          · exact G1at_transfer (by rw [hfi x]; simp [hx]) (by rw [hdy x]; simp [hx]) e.reused (hg x)
        · intro hb hr x j hj hs
          by_cases hx : x = c
          · subst hx
            rcases hq hgc.2 with h | h
            · exact Or.inl (by rw [e.static]; exact h)
            · exact Or.inr h
          · rw [hfi x] at hj
            simp only [hx, if_false] at hj
            rcases hb (e.reused hr) x j hj hs with h | h
            · exact Or.inl (by rw [e.static]; exact h)
            · exact Or.inr (e.queue_ne h)
    · rename_i hz
      exact ⟨hg1 (Or.inl hz), e1, hb1⟩


theorem acquire_good (s : State) (c : Name) (hg : G1 s) :
    G1 (acquireCS s c) ∧ Ext s (acquireCS s c) ∧ (B2 s → B2 (acquireCS s c)) := by
  unfold acquireCS
  cases hf : findInfo s.active c with
  | some i =>
    simp only
    have hfi : ∀ x, findInfo (modifyInfo s.active c incr) x = if x = c then some (incr i) else findInfo s.active x := by
      intro x
      rw [findInfo_modify s.active c x incr (fun _ => rfl), hf]
      rfl
    have hr : (s.reusedSpent || i.spent) = false → s.reusedSpent = false ∧ i.spent = false := by
      intro h; simpa using h
    have hgc := (G1at_some hf).mp (hg c)
    refine ⟨?_, ⟨rfl, fun h => (hr h).1, [], by simp, by simp⟩, ?_⟩
    · intro x
      by_cases hx : x = c
      · subst hx
        have hfx : findInfo ({ s with active := modifyInfo s.active x incr, reusedSpent := s.reusedSpent || i.spent } : State).active x
            = some (incr i) := by simp only; rw [hfi x]; simp
        rw [G1at_some hfx]
        by_cases hsp : i.spent = true
        · simp only [hsp, if_true, incr] at hgc ⊢
          exact ⟨hgc.1, fun h => by simp at h⟩
        · simp only [hsp, if_false, incr] at hgc ⊢
          exact ⟨by omega, hgc.2⟩
      · exact G1at_transfer (s := s) (s' := { s with active := modifyInfo s.active c incr, reusedSpent := s.reusedSpent || i.spent })
          (by show findInfo (modifyInfo s.active c incr) x = findInfo s.active x; rw [hfi x]; simp [hx]) rfl
          (fun h => (hr h).1) (hg x)
    · intro hb h x j hj hs
      simp only at hj h
      rw [hfi x] at hj
      by_cases hx : x = c
      · subst hx
        simp only [if_true, Option.some.injEq] at hj
        subst hj
        have := (hr h).2
        simp [incr, this] at hs
      · simp only [hx, if_false] at hj
        exact hb (hr h).1 x j hj hs
  | none =>
    simp only
    obtain ⟨e, ha, hd⟩ := subscribe_ext s c
    generalize subscribe s c = s1 at e ha hd
    have hgc := (G1at_none hf).mp (hg c)
    have hfi : ∀ x, findInfo (s1.active ++ [{ name := c, refCount := 1, spent := false }]) x
        = if x = c then some { name := c, refCount := 1, spent := false } else findInfo s.active x := by
      intro x
      rw [findInfo_append, ha]
      by_cases hx : x = c
      · subst hx; simp [hf]
      · have : ¬ c = x := fun e => hx e.symm
        cases findInfo s.active x <;> simp [hx, this]
    have e' : Ext s { s1 with active := s1.active ++ [{ name := c, refCount := 1, spent := false }] } :=
      Ext.trans e ⟨rfl, id, [], by simp, by simp⟩
    refine ⟨?_, e', ?_⟩
    · intro x
      by_cases hx : x = c
      · subst hx
        have hfx : findInfo ({ s1 with active := s1.active ++ [{ name := x, refCount := 1, spent := false }] } : State).active x
            = some { name := x, refCount := 1, spent := false } := by simp only; rw [hfi x]; simp
        rw [G1at_some hfx]
        simp only [Bool.false_eq_true, if_false]
        refine ⟨Nat.le_refl 1, ?_⟩
        show dynOf s1 x = 1
        rw [hd x, hgc]; simp
      · exact G1at_transfer (s := s) (s' := { s1 with active := s1.active ++ [{ name := c, refCount := 1, spent := false }] })
          (by show findInfo (s1.active ++ [_]) x = findInfo s.active x; rw [hfi x]; simp [hx])
          (by show dynOf s1 x = dynOf s x; rw [hd x]; simp [hx]) e'.reused (hg x)
    · intro hb h x j hj hs
      simp only at hj
      rw [hfi x] at hj
      by_cases hx : x = c
      · subst hx
        simp only [if_true, Option.some.injEq] at hj
        subst hj
        simp at hs
      · simp only [hx, if_false] at hj
        rcases hb (e'.reused h) x j hj hs with h' | h'
        · exact Or.inl (by rw [e'.static]; exact h')
        · exact Or.inr (e'.queue_ne h')

theorem foldl_good (f : State → Name → State)
    (hf : ∀ s c, G1 s → G1 (f s c) ∧ Ext s (f s c) ∧ (B2 s → B2 (f s c))) (l : List Name) (s : State) (hg : G1 s) :
    G1 (l.foldl f s) ∧ Ext s (l.foldl f s) ∧ (B2 s → B2 (l.foldl f s)) := by
  induction l generalizing s with
  | nil => exact ⟨hg, Ext.refl s, id⟩
  | cons c l ih =>
    obtain ⟨a1, a2, a3⟩ := hf s c hg
    obtain ⟨b1, b2, b3⟩ := ih (f s c) a1
    exact ⟨b1, Ext.trans a2 b2, fun h => b3 (a3 h)⟩

theorem rc_zero_info {a : List Info} {c : Name} (h : rc a c = 0) : ∀ i, findInfo a c = some i → i.refCount = 0 := by
  intro i hi
  simpa [rc, hi] using h

theorem foldl_unsubscribe_good (l : List Name) (s : State) (hg : G1 s) (h0 : ∀ c ∈ l, rc s.active c = 0) :
    G1 (l.foldl unsubscribe s) ∧ Ext s (l.foldl unsubscribe s) ∧ (B2 s → B2 (l.foldl unsubscribe s)) := by
  induction l generalizing s with
  | nil => exact ⟨hg, Ext.refl s, id⟩
  | cons c l ih =>
    obtain ⟨a1, a2, a3⟩ := unsubscribe_good s c hg (rc_zero_info (h0 c (by simp)))
    obtain ⟨_, hrc, _⟩ := unsubscribe_frame s c
    obtain ⟨b1, b2, b3⟩ := ih (unsubscribe s c) a1 (fun x hx => by rw [hrc x]; exact h0 x (by simp [hx]))
    exact ⟨b1, Ext.trans a2 b2, fun h => b3 (a3 h)⟩

theorem findInfo_filter (a : List Info) (p : Info → Bool) (x : Name) (hnd : (names a).Nodup) :
    findInfo (a.filter p) x = (findInfo a x).filter p := by
  induction a with
  | nil => simp [findInfo_nil]
  | cons i a ih =>
    have hnd' : (names a).Nodup := by simp [names] at hnd ⊢; exact hnd.2
    have hni : i.name ∉ names a := by simp [names] at hnd ⊢; exact hnd.1
    rw [List.filter_cons, findInfo_cons]
    by_cases hp : p i = true
    · simp only [hp, if_true, findInfo_cons]
      by_cases hx : i.name = x
      · simp [hx, Option.filter, hp]
      · simp only [hx, if_false]; exact ih hnd'
    · have hp' : p i = false := by simpa using hp
      simp only [hp', Bool.false_eq_true, if_false]
      rw [ih hnd']
      by_cases hx : i.name = x
      · subst hx
        simp [(findInfo_none_iff a i.name).mpr hni, Option.filter, hp']
      · simp [hx]

theorem info_unique (l : List Info) (hnd : (names l).Nodup) (q r : Info) (hq : q ∈ l) (hr : r ∈ l) (h : q.name = r.name) : q = r := by
  induction l with
  | nil => simp at hq
  | cons z zs ih =>
    simp only [names, List.map_cons, List.nodup_cons] at hnd
    rcases List.mem_cons.mp hq with rfl | hq'
    · rcases List.mem_cons.mp hr with h' | hr'
      · exact h'.symm
      · exact absurd (by rw [h]; exact List.mem_map_of_mem hr') hnd.1
    · rcases List.mem_cons.mp hr with rfl | hr'
      · exact absurd (by rw [← h]; exact List.mem_map_of_mem hq') hnd.1
      · exact ih hnd.2 hq' hr'

theorem prune_good (s : State) (hg : G1 s) (hnd : (names s.active).Nodup) :
    G1 (prune s) ∧ Ext s (prune s) ∧ B2 (prune s) := by
  unfold prune
  dsimp only
  have hdead : ∀ c ∈ (s.active.filter (·.refCount = 0)).map (·.name), rc s.active c = 0 := by
    intro c hc
    obtain ⟨i, hi, rfl⟩ := List.mem_map.mp hc
    have hi' := List.mem_filter.mp hi
    -- with distinct names the entry found for i.name is i itself
    cases hf : findInfo s.active i.name with
    | none => simp [rc, hf]
    | some j =>
      have hj := findInfo_some_name hf
      have : j = i := info_unique s.active hnd j i hj.2 hi'.1 hj.1
      subst this
      simpa [rc, hf] using hi'.2
  obtain ⟨a1, a2, _⟩ := foldl_unsubscribe_good _ s hg hdead
  obtain ⟨f1, _, _⟩ := foldl_unsubscribe_frame ((s.active.filter (·.refCount = 0)).map (·.name)) s
  generalize List.foldl unsubscribe s ((s.active.filter (·.refCount = 0)).map (·.name)) = t at a1 a2 f1
  have hndt : (names t.active).Nodup := by rw [f1]; exact hnd
  have hfi : ∀ x, findInfo (t.active.filter (fun i => i.refCount ≠ 0)) x = (findInfo t.active x).filter (fun i => i.refCount ≠ 0) :=
    fun x => findInfo_filter _ _ x hndt
  have e' : Ext s { t with active := t.active.filter (fun i => i.refCount ≠ 0) } := Ext.trans a2 ⟨rfl, id, [], by simp, by simp⟩
  have hg' : G1 { t with active := t.active.filter (fun i => i.refCount ≠ 0) } := by
    intro x
    have hgx := a1 x
    cases hfx : findInfo t.active x with
    | none =>
      have : findInfo ({ t with active := t.active.filter (fun i => i.refCount ≠ 0) } : State).active x = none := by
        simp only; rw [hfi x, hfx]; rfl
      rw [G1at_none this]
      exact (G1at_none hfx).mp hgx
    | some j =>
      by_cases hz : j.refCount = 0
      · have : findInfo ({ t with active := t.active.filter (fun i => i.refCount ≠ 0) } : State).active x = none := by
          simp only; rw [hfi x, hfx]; simp [Option.filter, hz]
        rw [G1at_none this]
        have := (G1at_some hfx).mp hgx
        split at this
        · exact this.1
        · omega
      · exact G1at_transfer (s := t) (s' := { t with active := t.active.filter (fun i => i.refCount ≠ 0) })
          (by show findInfo (t.active.filter _) x = findInfo t.active x; rw [hfi x, hfx]; simp [Option.filter, hz]) rfl id hgx
  refine ⟨hg', e', ?_⟩
  intro hr x j hj hs
  exfalso
  have hgx := (G1at_some hj).mp (hg' x)
  simp only [hs, if_true] at hgx
  have hz := hgx.2 hr
  simp only at hj
  rw [hfi x] at hj
  cases hfx : findInfo t.active x with
  | none => rw [hfx] at hj; simp [Option.filter] at hj
  | some k =>
    rw [hfx] at hj
    simp only [Option.filter] at hj
    split at hj
    · rename_i hk
      simp only [Option.some.injEq] at hj
      subst hj
      simp at hk
      exact hk hz
    · cases hj


/-! ### the resolver eventually sees the route the dependency manager has -/

/-- the last queued update — or, with an empty queue, the current selector — carries the static route -/
def LastIs (q : List Upd) (cur static : List Name) : Prop :=
  match q.reverse with
  | [] => cur = static
  | u :: _ => u.route = static

theorem LastIs_append (q extra : List Upd) (cur static : List Name) (hne : extra ≠ [])
    (h : ∀ u ∈ extra, u.route = static) : LastIs (q ++ extra) cur static := by
  unfold LastIs
  rw [List.reverse_append]
  cases he : extra.reverse with
  | nil => exact absurd (List.reverse_eq_nil_iff.mp he) hne
  | cons v vs =>
    simp only [List.cons_append]
    apply h
    have : v ∈ extra.reverse := by rw [he]; simp
    simpa using this

theorem LastIs_ext {s s' : State} (cur : List Name) (e : Ext s s') (h : LastIs s.queue cur s.static) :
    LastIs s'.queue cur s'.static := by
  obtain ⟨extra, hq, hr⟩ := e.queue
  rw [hq, e.static]
  by_cases hne : extra = []
  · subst hne; simpa using h
  · exact LastIs_append _ _ _ _ hne hr

theorem dedup_of_nodup (l : List Name) (h : l.Nodup) : dedup l = l := by
  induction l with
  | nil => rfl
  | cons a l ih =>
    rw [List.nodup_cons] at h
    simp [dedup, h.1, ih h.2]

structure Inv2 (s : State) : Prop where
  g1 : G1 s
  b2 : B2 s
  staticNd : s.static.Nodup
  last : LastIs s.queue (curList s) s.static
  sc : s.pushedSC = names s.active
  curNone : s.cur = none → s.active = []

theorem inv2_init : Inv2 init := by
  refine ⟨?_, ?_, by simp [init], by simp [init, LastIs, curList], by simp [init, names], fun _ => rfl⟩
  · intro c; simp [G1at, init, findInfo_nil, dynOf]
  · intro _ c i h; simp [init, findInfo_nil] at h

theorem G1_transfer {s s' : State} (ha : s'.active = s.active) (hd : s'.dyn = s.dyn)
    (hr : s'.reusedSpent = false → s.reusedSpent = false) (h : G1 s) : G1 s' :=
  fun x => G1at_transfer (by rw [ha]) (dynOf_congr hd x) hr (h x)

theorem stopOld_good (s : State) (hg : G1 s) : G1 (stopOld s) ∧ Ext s (stopOld s) ∧ (B2 s → B2 (stopOld s)) := by
  unfold stopOld
  cases s.cur with
  | none => exact ⟨hg, Ext.refl s, id⟩
  | some old => exact foldl_good release release_good old s hg

theorem LastIs_tail (u : Upd) (rest : List Upd) (c c' st : List Name) (hne : rest ≠ [])
    (h : LastIs (u :: rest) c st) : LastIs rest c' st := by
  unfold LastIs at *
  rw [List.reverse_cons] at h
  cases hr : rest.reverse with
  | nil => exact absurd (List.reverse_eq_nil_iff.mp hr) hne
  | cons v vs => rw [hr] at h; simpa using h

theorem deliver_inv2 (s : State) (hi1 : Inv1 s) (hi : Inv2 s) : Inv2 (deliver s) := by
  unfold deliver
  split
  · exact hi
  · rename_i u rest hq
    dsimp only
    have hr := nodup_dedup u.route
    have g0 : G1 { s with queue := rest } := G1_transfer rfl rfl id hi.g1
    obtain ⟨n1, _, _, sm1⟩ := foldl_acquire_frame (dedup u.route) hr { s with queue := rest } hi1.nd
    obtain ⟨g1, e1, _⟩ := foldl_good acquireCS acquire_good (dedup u.route) { s with queue := rest } g0
    generalize List.foldl acquireCS { s with queue := rest } (dedup u.route) = s1 at n1 sm1 g1 e1
    obtain ⟨n2, _, _, sm2⟩ := prune_frame s1 n1
    obtain ⟨g2, e2, b2⟩ := prune_good s1 g1 n1
    generalize prune s1 = s2 at n2 sm2 g2 e2 b2
    have g3 : G1 (pushConfig s2 u) := G1_transfer rfl rfl id g2
    have b3 : B2 (pushConfig s2 u) := fun h x j hj hs => b2 h x j hj hs
    have e3 : Ext s2 (pushConfig s2 u) := ⟨rfl, id, [], by simp [pushConfig], by simp⟩
    have hcur2 : s2.cur = s.cur := by rw [sm2.cur, sm1.cur]
    have hcl3 : curList (pushConfig s2 u) = curList s := by simp [curList, pushConfig, hcur2]
    obtain ⟨c1, _, c3⟩ := stopOld_frame (pushConfig s2 u) (by rw [hcl3]; exact hi1.curNd)
    obtain ⟨g4, e4, b4⟩ := stopOld_good (pushConfig s2 u) g3
    generalize stopOld (pushConfig s2 u) = s4 at c1 c3 g4 e4 b4
    have E : Ext { s with queue := rest } s4 := Ext.trans e1 (Ext.trans e2 (Ext.trans e3 e4))
    obtain ⟨extra, hq4, hr4⟩ := E.queue
    have hst : s4.static = s.static := E.static
    refine ⟨G1_transfer rfl rfl id g4, fun h x j hj hs => b4 b3 h x j hj hs, ?_, ?_, ?_, fun h => by cases h⟩
    · show s4.static.Nodup
      rw [hst]; exact hi.staticNd
    · show LastIs s4.queue (dedup u.route) s4.static
      rw [hq4, hst]
      simp only
      by_cases hne : extra = []
      · subst hne
        simp only [List.append_nil]
        have hl := hi.last
        rw [hq] at hl
        cases rest with
        | nil =>
          have : u.route = s.static := by simpa [LastIs] using hl
          show dedup u.route = s.static
          rw [this]; exact dedup_of_nodup _ hi.staticNd
        | cons v vs => exact LastIs_tail u (v :: vs) _ _ _ (by simp) hl
      · exact LastIs_append _ _ _ _ hne hr4
    · show s4.pushedSC = names s4.active
      rw [c3.sc, c1]
      rfl

theorem step_inv2 (s : State) (o : Op) (hi1 : Inv1 s) (hi : Inv2 s) : Inv2 (step s o) := by
  cases o with
  | rds r =>
    simp only [step]
    obtain ⟨e, hq, hd⟩ := sendUpdate_ext { s with static := dedup r }
    have ha : (sendUpdate { s with static := dedup r }).active = s.active := rfl
    refine ⟨G1_transfer ha hd e.reused hi.g1, ?_, ?_, ?_, ?_, ?_⟩
    · intro _ x j _ _
      exact Or.inr hq
    · show (dedup r).Nodup
      exact nodup_dedup r
    · show LastIs (s.queue ++ [_]) (curList s) (dedup r)
      exact LastIs_append _ _ _ _ (by simp) (by intro u hu; simp at hu; subst hu; rfl)
    · exact hi.sc
    · exact hi.curNone
  | deliver => exact deliver_inv2 s hi1 hi
  | regen =>
    simp only [step]
    obtain ⟨g2, e2, b2⟩ := prune_good s hi.g1 hi1.nd
    obtain ⟨_, hm, _, sm⟩ := prune_frame s hi1.nd
    generalize prune s = s2 at g2 e2 b2 sm hm
    refine ⟨G1_transfer rfl rfl id g2, fun h x j hj hs => b2 h x j hj hs, ?_, ?_, rfl, ?_⟩
    · show s2.static.Nodup
      rw [e2.static]; exact hi.staticNd
    · show LastIs s2.queue (curList _) s2.static
      have hcl : curList ({ s2 with pushedSC := s2.active.map (fun i => i.name), pushes := s2.pushes + 1 } : State) = curList s := by
        simp [curList, sm.cur]
      rw [hcl]
      exact LastIs_ext (curList s) e2 hi.last
    · intro h
      have h0 : s.cur = none := by rw [← sm.cur]; exact h
      have ha := hi.curNone h0
      show s2.active = []
      -- with an empty table there is nothing to prune
      have : names s2.active = [] := by
        rw [List.eq_nil_iff_forall_not_mem]
        intro x hx
        have := ((hm x).mp hx).1
        rw [ha] at this
        simp [names] at this
      simpa [names] using this
  | select rid c =>
    simp only [step]
    split
    · exact hi
    · cases hc : s.cur with
      | none => exact hi
      | some cl =>
        simp only
        split
        · rename_i hcc
          cases hf : findInfo s.active c with
          | none => exact hi
          | some i =>
            simp only
            have hfi : ∀ x, findInfo (modifyInfo s.active c incr) x = if x = c then some (incr i) else findInfo s.active x := by
              intro x
              rw [findInfo_modify s.active c x incr (fun _ => rfl), hf]
              rfl
            have hccur : (curList s).contains c = true := by simpa [curList, hc] using hcc
            have hrc : 1 ≤ i.refCount := by
              have := hi1.eq c
              simp only [rc, hf, Option.map_some, Option.getD_some, ind, hccur, if_true] at this
              omega
            have hgc := (G1at_some hf).mp (hi.g1 c)
            refine ⟨?_, ?_, hi.staticNd, ?_, ?_, fun h => by simp [hc] at h⟩
            · intro x
              by_cases hx : x = c
              · subst hx
                have hfx : findInfo (modifyInfo s.active x incr) x = some (incr i) := by rw [hfi x]; simp
                refine (G1at_some (i := incr i) (by exact hfx)).mpr ?_
                by_cases hsp : i.spent = true
                · simp only [hsp, if_true, incr] at hgc ⊢
                  refine ⟨hgc.1, fun h => ?_⟩
                  have := hgc.2 h
                  omega
                · simp only [hsp, if_false, incr] at hgc ⊢
                  exact ⟨by omega, hgc.2⟩
              · refine G1at_transfer (s := s) ?_ rfl id (hi.g1 x)
                show findInfo (modifyInfo s.active c incr) x = findInfo s.active x
                rw [hfi x]; simp [hx]
            · intro h x j hj hs
              simp only at hj
              rw [hfi x] at hj
              by_cases hx : x = c
              · subst hx
                simp only [if_true, Option.some.injEq] at hj
                subst hj
                exact hi.b2 h x i hf (by simpa [incr] using hs)
              · simp only [hx, if_false] at hj
                exact hi.b2 h x j hj hs
            · have hl := hi.last
              simp only [curList, hc] at hl ⊢
              exact hl
            · show s.pushedSC = names (modifyInfo s.active c incr)
              rw [names_modify s.active c incr (fun _ => rfl)]; exact hi.sc
        · exact hi
  | commit rid =>
    simp only [step]
    cases hf : s.rpcs.find? (·.id == rid) with
    | none => exact hi
    | some r =>
      simp only
      split
      · exact hi
      · have hstate : ∀ s0 : State, s0.active = s.active → s0.dyn = s.dyn → s0.reusedSpent = s.reusedSpent → s0.static = s.static →
            s0.queue = s.queue → s0.cur = s.cur → s0.pushedSC = s.pushedSC → Inv2 (release s0 r.cluster) := by
          intro s0 ha hd hre hst hqu hcu hsc
          have g0 : G1 s0 := G1_transfer ha hd (fun h => by rw [← hre]; exact h) hi.g1
          have b0 : B2 s0 := by
            intro h x j hj hs
            rw [ha] at hj
            rw [hst, hqu]
            exact hi.b2 (by rw [← hre]; exact h) x j hj hs
          obtain ⟨g, e, b⟩ := release_good s0 r.cluster g0
          obtain ⟨c1, _, c3⟩ := release_frame s0 r.cluster
          generalize release s0 r.cluster = s' at g e b c1 c3
          refine ⟨g, b b0, ?_, ?_, ?_, ?_⟩
          · rw [e.static, hst]; exact hi.staticNd
          · have hcl : curList s' = curList s := by simp [curList, c3.cur, hcu]
            rw [hcl]
            have hl0 : LastIs s0.queue (curList s) s0.static := by rw [hqu, hst]; exact hi.last
            exact LastIs_ext (curList s) e hl0
          · rw [c3.sc, c1, hsc, ha]; exact hi.sc
          · intro h
            have h0 : s.cur = none := by rw [← hcu, ← c3.cur]; exact h
            have := hi.curNone h0
            have hn : names s'.active = [] := by rw [c1, ha]; simp [names, this]
            simpa [names] using hn
        exact hstate _ rfl rfl rfl rfl rfl rfl rfl

theorem run_inv2 (ops : List Op) : Inv1 (run ops) ∧ Inv2 (run ops) := by
  unfold run
  suffices ∀ s, Inv1 s ∧ Inv2 s → Inv1 (ops.foldl step s) ∧ Inv2 (ops.foldl step s) from this init ⟨inv1_init, inv2_init⟩
  induction ops with
  | nil => intro s h; exact h
  | cons o ops ih => intro s h; exact ih _ ⟨step_inv1 s o h.1, step_inv2 s o h.1 h.2⟩

theorem inflightCount_zero (s : State) (h : inflight s = []) (c : Name) : inflightCount s c = 0 := by
  unfold inflight at h
  unfold inflightCount
  have hf : s.rpcs.filter (fun r => !r.committed) = [] := by simpa using h
  rw [List.length_eq_zero_iff, List.filter_eq_nil_iff]
  intro r hr
  have := (List.filter_eq_nil_iff.mp hf) r hr
  simp at this ⊢
  intro h'; rw [this] at h'; cases h'

/-- clause 3 for runs in which no clusterInfo with a used unsubscribe is re-referenced -/
theorem dropped_of_not_reused (ops : List Op) (hr : (run ops).reusedSpent = false)
    (hq : quiescent (run ops) = true) : dropped (run ops) = true := by
  obtain ⟨i1, i2⟩ := run_inv2 ops
  generalize run ops = s at hr hq i1 i2
  simp only [quiescent, Bool.and_eq_true, List.isEmpty_iff] at hq
  obtain ⟨hqe, hie⟩ := hq
  unfold dropped
  cases hc : s.cur with
  | none =>
    simp only
    rw [i2.sc, i2.curNone hc]; rfl
  | some cl =>
    simp only [List.all_eq_true]
    intro c hcm
    rw [i2.sc] at hcm
    cases hf : findInfo s.active c with
    | none => exact absurd hcm ((findInfo_none_iff s.active c).mp hf)
    | some i =>
      have hg := (G1at_some hf).mp (i2.g1 c)
      have heq := i1.eq c
      simp only [rc, hf, Option.map_some, Option.getD_some, inflightCount_zero s hie c, Nat.add_zero, curList, hc] at heq
      by_cases hsp : i.spent = true
      · exfalso
        simp only [hsp, if_true] at hg
        have hz := hg.2 hr
        rcases i2.b2 hr c i hf hsp with h | h
        · have hl := i2.last
          rw [hqe] at hl
          have : curList s = s.static := by simpa [LastIs] using hl
          rw [← this] at h
          have hcc : cl.contains c = true := by simpa [curList, hc] using h
          rw [hz] at heq
          have h1 : ind (cl.contains c) = 1 := by simp only [ind, hcc, if_true]
          omega
        · exact h hqe
      · rw [if_neg hsp] at hg
        by_cases hcc : cl.contains c = true
        · exact hcc
        · exfalso
          have hb : cl.contains c = false := Bool.eq_false_iff.mpr hcc
          have : ind (cl.contains c) = 0 := by simp only [ind, hb, Bool.false_eq_true, if_false]
          omega

end GrpcProofs.Lemmas.ClusterRefs
