import GrpcProofs.Lemmas.ClientConnInv3
/-! `Inv` for flush/abort/release, the application events and the later phases of `Close`; `inv_step`. -/
namespace GrpcProofs.Lemmas.ClientConn
open GrpcModel.ClientConn

theorem inv_loopyFlush {s : State} (h : Inv s) : Inv s.loopyFlush.1 := by
  unfold State.loopyFlush; splits
  all_goals first | exact h | exact Inv.aux h rfl rfl rfl rfl rfl rfl rfl

theorem inv_release {s : State} (h : Inv s) : Inv s.release.1 := by
  unfold State.release
  simp only []
  have h0 : Inv ({ s with held := false } : State) := Inv.aux h rfl rfl rfl rfl rfl rfl rfl
  splits
  all_goals first
    | exact h0
    | exact Inv.aux h0 rfl rfl rfl rfl rfl rfl rfl
    | (refine inv_loopyExit ?_ _; exact Inv.aux h0 rfl rfl rfl rfl rfl rfl rfl)

theorem inv_loopyAbort {s : State} (h : Inv s) : Inv s.loopyAbort.1 := by
  unfold State.loopyAbort
  splits
  all_goals first
    | exact h
    | (refine inv_loopyExit ?_ _; exact Inv.aux h rfl rfl rfl rfl rfl rfl rfl)

theorem Inv.updRpc {s : State} (h : Inv s) (k : Nat) (f : Rpc → Rpc) : Inv (s.updRpc k f) := Inv.aux h rfl rfl rfl rfl rfl rfl rfl

theorem inv_register {s : State} (h : Inv s) (k : Nat) (r : Rpc) (hr : s.tstate = .reachable) : Inv (s.register k r) := by
  unfold State.register
  simp only []
  apply Inv.updRpc
  apply Inv.sendToken
  obtain ⟨a, b', c, d, e, f, g, kk⟩ := h
  have hget : ∀ (j : Nat) (y : Strm) (z : Strm), (s.streams ++ [z])[j]? = some y → s.streams[j]? = some y ∨ y = z := by
    intro j y z hy
    by_cases hj : j < s.streams.length
    · left; rw [List.getElem?_append_left hj] at hy; exact hy
    · right
      rw [List.getElem?_append_right (by omega)] at hy
      cases hjj : j - s.streams.length with
      | zero => simp [hjj] at hy; exact hy.symm
      | succ n => simp [hjj] at hy
  constructor
  · exact a
  · exact b'
  · exact c
  · exact d
  · intro j y hy ht
    rcases hget j y _ hy with h1 | h1
    · exact e j y h1 ht
    · subst h1; simp [hr]
  · intro j id r' cc hm
    simp only [List.mem_append, List.mem_singleton] at hm
    rcases hm with hm | hm
    · obtain ⟨x, hx, hs⟩ := f j id r' cc hm
      refine ⟨x, ?_, hs⟩
      show (s.streams ++ _)[j]? = some x
      rw [List.getElem?_append_left (List.getElem?_eq_some_iff.mp hx).1]; exact hx
    · exact absurd hm (by simp)
  · intro j y t hy ht
    rcases hget j y _ hy with h1 | h1
    · exact g j y t h1 ht
    · subst h1; simp at ht
  · intro j y cc l hy hn
    rcases hget j y _ hy with h1 | h1
    · exact kk j y cc l h1 hn
    · subst h1; simp at hn

theorem inv_tryNewStream {s : State} (h : Inv s) (k : Nat) (first : Bool) : Inv (s.tryNewStream k first) := by
  unfold State.tryNewStream
  splits
  all_goals first
    | exact h
    | exact h.updRpc _ _
    | exact Inv.updRpc (Inv.aux h rfl rfl rfl rfl rfl rfl rfl) _ _
    | exact Inv.aux h rfl rfl rfl rfl rfl rfl rfl
    | (rename_i hh; simp at hh
       first
       | exact inv_register (s := s.takeQuota) (Inv.aux h rfl rfl rfl rfl rfl rfl rfl) _ _ hh
       | exact inv_register (s := s.decWaiting.takeQuota) (Inv.aux h rfl rfl rfl rfl rfl rfl rfl) _ _ hh)

theorem inv_newRPC {s : State} (h : Inv s) (r : Bool) (d : Option Nat) : Inv (s.newRPC r d) := by
  unfold State.newRPC
  simp only []
  refine inv_tryNewStream ?_ _ _
  exact Inv.aux h rfl rfl rfl rfl rfl rfl rfl

theorem inv_wake {s : State} (h : Inv s) (k : Nat) (v : Via) : Inv (s.wake k v) := by
  unfold State.wake
  splits
  all_goals first
    | exact h
    | exact h.updRpc _ _
    | exact inv_tryNewStream h _ _
    | (refine inv_tryNewStream ?_ _ _; exact Inv.aux h rfl rfl rfl rfl rfl rfl rfl)

theorem inv_ctxFire {s : State} (h : Inv s) (k : Nat) : Inv (s.ctxFire k) := by
  unfold State.ctxFire
  splits
  all_goals first
    | exact h
    | (apply Inv.closeStream h; intro kk hk; have hk' := Option.some.inj hk; subst hk'; first | exact cCanceled_le | exact cDeadline_le)

theorem inv_half {s : State} (h : Inv s) (k : Nat) : Inv (s.half k) := by
  unfold State.half; splits; all_goals inv_leaf

theorem inv_appRead {s : State} (h : Inv s) (i : Nat) : Inv (s.appRead i) := by
  unfold State.appRead; splits; all_goals inv_leaf

theorem inv_gracefulClose {s : State} (h : Inv s) : Inv s.gracefulClose := by
  unfold State.gracefulClose
  split
  · exact h
  · rename_i hr
    have hr' : s.tstate = .reachable := by simpa using hr
    have h1 : Inv ({ s with tstate := TState.draining } : State) := h.toDraining (by rw [hr']; simp)
    have h2 := h1.notify 0 0 false
    simp only []
    split
    · exact inv_closeP1 h2 true
    · exact h2.putOther _ (by intros; simp)

theorem inv_closeP2 {s : State} (h : Inv s) : Inv s.closeP2 := by
  unfold State.closeP2
  split
  · rename_i t hp
    split
    · obtain ⟨a, b', c, d, e, f, g, k⟩ := h
      refine ⟨?_, b', ?_, ?_, ?_, f, g, k⟩
      · simp; exact a.mpr (by simp [hp])
      · intro _; rfl
      · intro tt htt; simp at htt
      · intro i x hx ht
        have := e i x hx ht
        exact ⟨this.1, fun hc => ⟨(this.2 hc).1, by simp⟩⟩
    · exact h
  · exact h

/-- `closeSnapshot n` has processed exactly the indices below `n` -/
theorem closeSnapshot_get (s : State) (n i : Nat) :
    (s.closeSnapshot n).streams[i]? =
      if i < n then (s.streams[i]?).map (fun x => if x.inSnapshot then closeF (some cUnavailable) cUnavailable x else x)
      else s.streams[i]? := by
  induction n generalizing i with
  | zero => simp [State.closeSnapshot]
  | succ n ih =>
    unfold State.closeSnapshot
    simp only []
    have hn : (s.closeSnapshot n).streams[n]? = s.streams[n]? := by
      have := ih n
      simpa using this
    have ih := ih i
    by_cases hin : i = n
    · subst hin
      rw [hn]
      cases hx : s.streams[i]? with
      | none => simp [ih, hx]
      | some x =>
        simp only []
        split
        · rename_i hv
          simp [closeStream_streams, ih, hx, hv]
        · rename_i hv
          simp [ih, hx, hv]
    · split
      · split
        · rw [closeStream_streams, List.getElem?_modify]
          have : ¬ n = i := fun h => hin h.symm
          simp only [this, if_false]
          rw [ih]
          by_cases h1 : i < n
          · have : i < n + 1 := by omega
            simp [h1, this]
          · have : ¬ i < n + 1 := by omega
            simp [h1, this]
        · rw [ih]
          by_cases h1 : i < n
          · have : i < n + 1 := by omega
            simp [h1, this]
          · have : ¬ i < n + 1 := by omega
            simp [h1, this]
      · rw [ih]
        by_cases h1 : i < n
        · have : i < n + 1 := by omega
          simp [h1, this]
        · have : ¬ i < n + 1 := by omega
          simp [h1, this]

@[simp] theorem closeSnapshot_len (s : State) (n : Nat) : (s.closeSnapshot n).streams.length = s.streams.length := by
  induction n with
  | zero => rfl
  | succ n ih => unfold State.closeSnapshot; simp only []; splits <;> simp [ih]

theorem closeSnapshot_tstate (s : State) (n : Nat) : (s.closeSnapshot n).tstate = s.tstate := by
  induction n with
  | zero => rfl
  | succ n ih => unfold State.closeSnapshot; simp only []; splits <;> simp [ih]

@[simp] theorem closeStream_ctxDone (s : State) (i : Nat) (e : Option Nat) (st : Nat) (r : Bool) (c : Nat) :
    (s.closeStream i e st r c).ctxDone = s.ctxDone := by
  unfold State.closeStream; split <;> (try rfl); split <;> (try rfl); simp only []; split <;> (try rfl)
  unfold State.sendToken; split <;> rfl

theorem closeSnapshot_ctxDone (s : State) (n : Nat) : (s.closeSnapshot n).ctxDone = s.ctxDone := by
  induction n with
  | zero => rfl
  | succ n ih => unfold State.closeSnapshot; simp only []; splits <;> simp [ih]

theorem inv_closeP3 {s : State} (h : Inv s) : Inv s.closeP3 := by
  unfold State.closeP3
  split
  · rename_i hp
    split
    · exact h
    · simp only []
      have h1 := inv_closeSnapshot h s.streams.length
      have hcl : s.tstate = .closing := h.cp.mpr (by simp [hp])
      obtain ⟨a, b', c, d, e, f, g, k⟩ := h1
      refine ⟨?_, b', ?_, ?_, ?_, f, g, k⟩
      · simp; rw [closeSnapshot_tstate]; exact hcl
      · intro _; show (s.closeSnapshot s.streams.length).ctxDone = true; rw [closeSnapshot_ctxDone]; exact h.cd (Or.inl hp)
      · intro tt htt; simp at htt
      · -- every stream of the snapshot now has its outcome
        intro i y hy ht
        exfalso
        have hg := closeSnapshot_get s s.streams.length i
        have hi : i < s.streams.length := by
          have := (List.getElem?_eq_some_iff.mp hy).1
          simpa using this
        simp only [hi, if_true] at hg
        rw [hy] at hg
        cases hx : s.streams[i]? with
        | none => simp [hx] at hg
        | some x =>
          simp [hx] at hg
          by_cases hsn : x.inSnapshot = true
          · simp [hsn] at hg
            subst hg
            unfold closeF at ht
            split at ht
            · rename_i hs; rw [ht] at hs; simp at hs
            · simp at ht
          · simp [hsn] at hg
            subst hg
            have := (h.live i y hx ht).2 hcl
            exact hsn this.1
  · exact h

/-- every event preserves the invariant -/
theorem inv_step {s : State} (h : Inv s) (e : Ev) : Inv (step s e).1 := by
  cases e <;> simp only [step]
  · exact inv_newRPC h ..
  · exact inv_wake h ..
  · exact inv_half h ..
  · exact h.updRpc _ _
  · exact inv_ctxFire h ..
  · exact inv_appRead h ..
  · exact inv_onFrame h ..
  · exact inv_loopyStep h
  · exact inv_loopyFlush h
  · exact inv_loopyAbort h
  · exact Inv.aux h rfl rfl rfl rfl rfl rfl rfl
  · exact inv_release h
  · exact Inv.aux h rfl rfl rfl rfl rfl rfl rfl
  · exact inv_gracefulClose h
  · exact inv_closeP1 h _
  · exact inv_closeP2 h
  · exact inv_closeP3 h
  · obtain ⟨a, b', c, d, e, f, g, k⟩ := h
    exact ⟨a, b', c, fun t ht => by have := d t ht; simp; omega, e, f, g, k⟩

theorem inv_run {s : State} (h : Inv s) (es : List Ev) : Inv (run s es) := by
  induction es generalizing s with
  | nil => exact h
  | cons e es ih => exact ih (inv_step h e)

theorem Reach.inv {s : State} (h : Reach s) : Inv s := by
  obtain ⟨ec, a, b', c, es, rfl⟩ := h
  exact inv_run (inv_init ..) es

end GrpcProofs.Lemmas.ClientConn
