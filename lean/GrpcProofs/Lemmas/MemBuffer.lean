/-
Helper lemmas for C53 (mem.Buffer reference counting); model in GrpcModel/Model/MemBuffer.lean.
-/
import GrpcModel.Model.MemBuffer
namespace GrpcProofs.Lemmas.MemBuffer
open GrpcModel.MemBuffer

/-- The reference-counting invariant of the heap of `*buffer` structs. -/
def InvO (objs : List Obj) : Prop :=
  (∀ (i : Nat) (o : Obj), objs[i]? = some o →
     o.root < objs.length ∧ o.refs = o.own + o.kids.length ∧
     (o.root = i → o.puts = if o.refs = 0 then 1 else 0) ∧
     (o.root ≠ i → o.kids = [] ∧ o.puts = 0 ∧
        ∃ r : Obj, objs[o.root]? = some r ∧ r.root = o.root ∧ (0 < o.refs → i ∈ r.kids))) ∧
  (∀ (r : Nat) (ro : Obj), objs[r]? = some ro → ro.kids.Nodup ∧
     ∀ k ∈ ro.kids, k ≠ r ∧ ∃ ko : Obj, objs[k]? = some ko ∧ ko.root = r ∧ 0 < ko.refs)

theorem inv_nil : InvO [] := by
  constructor <;> intro i o h <;> simp at h

theorem get_set {objs : List Obj} {i j : Nat} {o o' : Obj} (hi : objs[i]? = some o) :
    (objs.set i o')[j]? = if i = j then some o' else objs[j]? := by
  rw [List.getElem?_set]
  by_cases h : i = j
  · subst h
    have : i < objs.length := by
      rcases Nat.lt_or_ge i objs.length with h | h
      · exact h
      · rw [List.getElem?_eq_none h] at hi; cases hi
    simp [this]
  · simp [h]

theorem lt_of_get {objs : List Obj} {i : Nat} {o : Obj} (hi : objs[i]? = some o) : i < objs.length := by
  rcases Nat.lt_or_ge i objs.length with h | h
  · exact h
  · rw [List.getElem?_eq_none h] at hi; cases hi

/-- kids are never roots: a kid's root pointer differs from itself -/
theorem kid_not_root {objs : List Obj} (h : InvO objs) {r k : Nat} {ro ko : Obj}
    (hr : objs[r]? = some ro) (hk : k ∈ ro.kids) (hko : objs[k]? = some ko) : ko.root = r ∧ k ≠ r := by
  obtain ⟨hne, ko', hko', hroot, _⟩ := (h.2 r ro hr).2 k hk
  rw [hko] at hko'; cases hko'
  exact ⟨hroot, hne⟩

/-- replacing object i by one with the same root/kids/puts, the same liveness and a balanced counter -/
theorem inv_update_same {objs : List Obj} (h : InvO objs) {i : Nat} {o o' : Obj}
    (hi : objs[i]? = some o) (hroot : o'.root = o.root) (hkids : o'.kids = o.kids) (hputs : o'.puts = o.puts)
    (hlive : o.refs = 0 ↔ o'.refs = 0) (hbal : o'.refs = o'.own + o'.kids.length) :
    InvO (objs.set i o') := by
  obtain ⟨hA, hB⟩ := h
  have hlen : (objs.set i o').length = objs.length := List.length_set ..
  constructor
  · intro j oj hj
    rw [get_set hi] at hj
    by_cases hij : i = j
    · subst hij
      simp at hj; subst hj
      obtain ⟨a1, a2, a3, a4⟩ := hA i o hi
      refine ⟨by rw [hlen, hroot]; exact a1, hbal, ?_, ?_⟩
      · intro hr
        rw [hroot] at hr
        rw [hputs, a3 hr]
        by_cases h0 : o.refs = 0
        · simp [h0, hlive.1 h0]
        · have : ¬ o'.refs = 0 := fun hh => h0 (hlive.2 hh)
          simp [h0, this]
      · intro hr
        rw [hroot] at hr
        obtain ⟨b1, b2, r, b3, b4, b5⟩ := a4 hr
        refine ⟨by rw [hkids]; exact b1, by rw [hputs]; exact b2, ?_⟩
        rw [hroot, get_set hi]
        have : ¬ i = o.root := fun hh => hr hh.symm
        simp only [this, if_false]
        refine ⟨r, b3, b4, fun hpos => b5 ?_⟩
        rcases Nat.eq_zero_or_pos o.refs with h0 | h0
        · have := hlive.1 h0; omega
        · exact h0
    · simp only [hij, if_false] at hj
      obtain ⟨a1, a2, a3, a4⟩ := hA j oj hj
      refine ⟨by rw [hlen]; exact a1, a2, a3, ?_⟩
      intro hr
      obtain ⟨b1, b2, r, b3, b4, b5⟩ := a4 hr
      refine ⟨b1, b2, ?_⟩
      rw [get_set hi]
      by_cases hir : i = oj.root
      · simp only [hir, if_true]
        rw [← hir] at b3
        rw [hi] at b3; cases b3
        exact ⟨o', by rfl, by rw [hroot, b4], fun hp => by rw [hkids]; exact b5 hp⟩
      · simp only [hir, if_false]
        exact ⟨r, b3, b4, b5⟩
  · intro r ro hr
    rw [get_set hi] at hr
    have key : ∀ (kids : List Nat) (rr : Nat),
        (∀ k ∈ kids, k ≠ rr ∧ ∃ ko : Obj, objs[k]? = some ko ∧ ko.root = rr ∧ 0 < ko.refs) →
        ∀ k ∈ kids, k ≠ rr ∧ ∃ ko : Obj, (objs.set i o')[k]? = some ko ∧ ko.root = rr ∧ 0 < ko.refs := by
      intro kids rr hk k hkm
      obtain ⟨c1, ko, c2, c3, c4⟩ := hk k hkm
      refine ⟨c1, ?_⟩
      rw [get_set hi]
      by_cases hik : i = k
      · subst hik
        rw [hi] at c2; cases c2
        refine ⟨o', by simp, by rw [hroot]; exact c3, ?_⟩
        rcases Nat.eq_zero_or_pos o'.refs with h0 | h0
        · have := hlive.2 h0; omega
        · exact h0
      · simp only [hik, if_false]
        exact ⟨ko, c2, c3, c4⟩
    by_cases hir : i = r
    · subst hir
      simp at hr; subst hr
      obtain ⟨d1, d2⟩ := hB i o hi
      rw [hkids]
      exact ⟨d1, key o.kids i d2⟩
    · simp only [hir, if_false] at hr
      obtain ⟨d1, d2⟩ := hB r ro hr
      exact ⟨d1, key ro.kids r d2⟩


theorem inv_acquire {st st' : St} {i : Nat} (h : InvO st.objs) (ha : acquire st i = some st') : InvO st'.objs := by
  unfold acquire at ha
  cases hi : st.objs[i]? with
  | none => simp [hi] at ha
  | some o =>
    simp only [hi] at ha
    by_cases h0 : o.refs = 0
    · simp [h0] at ha
    · simp only [h0, if_false, Option.some.injEq] at ha
      subst ha
      obtain ⟨_, a2, _, _⟩ := h.1 i o hi
      exact inv_update_same h hi rfl rfl rfl (by simp [h0]) (by simp; omega)

theorem inv_narrow {st : St} {i off len : Nat} (h : InvO st.objs) : InvO (narrow st i off len).objs := by
  unfold narrow
  cases hi : st.objs[i]? with
  | none => exact h
  | some o =>
    obtain ⟨_, a2, _, _⟩ := h.1 i o hi
    exact inv_update_same h hi rfl rfl rfl Iff.rfl a2

theorem get_append_new {objs : List Obj} {x : Obj} {j : Nat} {oj : Obj} (h : (objs ++ [x])[j]? = some oj) :
    (j < objs.length ∧ objs[j]? = some oj) ∨ (j = objs.length ∧ oj = x) := by
  rw [List.getElem?_append] at h
  by_cases hj : j < objs.length
  · simp only [hj, if_true] at h; exact Or.inl ⟨hj, h⟩
  · simp only [hj, if_false] at h
    have : j - objs.length = 0 := by
      rcases Nat.eq_zero_or_pos (j - objs.length) with h0 | h0
      · exact h0
      · rw [List.getElem?_eq_none (by simp; omega)] at h; cases h
    rw [this] at h; simp at h
    exact Or.inr ⟨by omega, h.symm⟩

theorem get_append_old {objs : List Obj} {x : Obj} {j : Nat} {oj : Obj} (h : objs[j]? = some oj) :
    (objs ++ [x])[j]? = some oj := by
  rw [List.getElem?_append_left (lt_of_get h)]; exact h

/-- a fresh root (NewBuffer) -/
theorem inv_new_root {objs : List Obj} (h : InvO objs) (off n m : Nat) :
    InvO (objs ++ [⟨1, off, n, objs.length, m, 1, [], 0⟩]) := by
  obtain ⟨hA, hB⟩ := h
  constructor
  · intro j oj hj
    rcases get_append_new hj with ⟨hlt, hold⟩ | ⟨rfl, rfl⟩
    · obtain ⟨a1, a2, a3, a4⟩ := hA j oj hold
      refine ⟨by simp; omega, a2, a3, fun hr => ?_⟩
      obtain ⟨b1, b2, r, b3, b4, b5⟩ := a4 hr
      exact ⟨b1, b2, r, get_append_old b3, b4, b5⟩
    · refine ⟨by simp, by simp, fun _ => by simp, fun hr => absurd rfl hr⟩
  · intro r ro hr
    rcases get_append_new hr with ⟨hlt, hold⟩ | ⟨rfl, rfl⟩
    · obtain ⟨d1, d2⟩ := hB r ro hold
      refine ⟨d1, fun k hk => ?_⟩
      obtain ⟨c1, ko, c2, c3, c4⟩ := d2 k hk
      exact ⟨c1, ko, get_append_old c2, c3, c4⟩
    · simp

theorem inv_newBuffer {st : St} {m n : Nat} (h : InvO st.objs) : InvO (newBuffer st m n).1.objs := by
  unfold newBuffer
  cases st.mems[m]? with
  | none => exact h
  | some x =>
    simp only []
    split
    · exact h
    · exact inv_new_root h 0 n m

theorem inv_poolGet {st : St} {n : Nat} {c : Bytes} (h : InvO st.objs) : InvO (poolGet st n c).1.objs := h

theorem inv_poolPut {st : St} {m : Nat} (h : InvO st.objs) : InvO (poolPut st m).1.objs := by
  unfold poolPut; cases st.mems[m]? <;> exact h



theorem inv_new_view {objs : List Obj} (h : InvO objs) {R : Nat} {r : Obj} (hR : objs[R]? = some r)
    (hroot : r.root = R) (hlive : 0 < r.refs) (off len : Nat) :
    InvO ((objs.set R { r with refs := r.refs + 1, kids := objs.length :: r.kids }) ++
      [⟨1, off, len, R, 0, 1, [], 0⟩]) := by
  obtain ⟨hA, hB⟩ := h
  have hRlt := lt_of_get hR
  have hlen : (objs.set R { r with refs := r.refs + 1, kids := objs.length :: r.kids }).length = objs.length :=
    List.length_set ..
  -- lookup in the new heap
  have look : ∀ j oj, objs[j]? = some oj →
      (objs.set R { r with refs := r.refs + 1, kids := objs.length :: r.kids } ++ [⟨1, off, len, R, 0, 1, [], 0⟩])[j]?
        = some (if R = j then { r with refs := r.refs + 1, kids := objs.length :: r.kids } else oj) := by
    intro j oj hj
    rw [List.getElem?_append_left (by rw [hlen]; exact lt_of_get hj), get_set hR]
    by_cases hRj : R = j <;> simp [hRj, hj]
  constructor
  · intro j oj hj
    rcases get_append_new hj with ⟨hlt, hold⟩ | ⟨hjeq, rfl⟩
    · rw [get_set hR] at hold
      by_cases hRj : R = j
      · subst hRj
        simp at hold; subst hold
        obtain ⟨a1, a2, a3, a4⟩ := hA R r hR
        refine ⟨by simp; omega, by simp; omega, fun _ => ?_, fun hne => absurd hroot hne⟩
        have := a3 hroot
        have hr0 : ¬ r.refs = 0 := by omega
        simp [hr0] at this
        simp [this]
      · simp only [hRj, if_false] at hold
        obtain ⟨a1, a2, a3, a4⟩ := hA j oj hold
        refine ⟨by simp; omega, a2, a3, fun hr => ?_⟩
        obtain ⟨b1, b2, rr, b3, b4, b5⟩ := a4 hr
        refine ⟨b1, b2, ?_⟩
        rw [look _ _ b3]
        by_cases hRr : R = oj.root
        · simp only [hRr, if_true]
          rw [← hRr, hR] at b3; cases b3
          exact ⟨_, rfl, hroot.trans hRr, fun hp => List.mem_cons_of_mem _ (b5 hp)⟩
        · simp only [hRr, if_false]
          exact ⟨rr, rfl, b4, b5⟩
    · rw [hlen] at hjeq
      subst hjeq
      refine ⟨by simp; omega, by simp, fun hh => by simp at hh; omega, fun _ => ⟨rfl, rfl, ?_⟩⟩
      simp only []
      rw [look R r hR]
      simp only [if_true]
      exact ⟨_, rfl, hroot, fun _ => List.mem_cons_self⟩
  · intro q qo hq
    have keyk : ∀ (kids : List Nat) (rr : Nat),
        (∀ k ∈ kids, k ≠ rr ∧ ∃ ko : Obj, objs[k]? = some ko ∧ ko.root = rr ∧ 0 < ko.refs) →
        ∀ k ∈ kids, k ≠ rr ∧ ∃ ko : Obj,
          (objs.set R { r with refs := r.refs + 1, kids := objs.length :: r.kids } ++ [⟨1, off, len, R, 0, 1, [], 0⟩])[k]? = some ko
            ∧ ko.root = rr ∧ 0 < ko.refs := by
      intro kids rr hk k hkm
      obtain ⟨c1, ko, c2, c3, c4⟩ := hk k hkm
      refine ⟨c1, ?_⟩
      rw [look k ko c2]
      by_cases hRk : R = k
      · subst hRk
        rw [hR] at c2; cases c2
        simp only [if_true]
        exact ⟨_, rfl, c3, by simp⟩
      · simp only [hRk, if_false]
        exact ⟨ko, rfl, c3, c4⟩
    rcases get_append_new hq with ⟨hlt, hold⟩ | ⟨hqeq, rfl⟩
    · rw [get_set hR] at hold
      by_cases hRq : R = q
      · subst hRq
        simp at hold; subst hold
        obtain ⟨d1, d2⟩ := hB R r hR
        simp only []
        constructor
        · rw [List.nodup_cons]
          refine ⟨fun hin => ?_, d1⟩
          obtain ⟨_, ko, c2, _, _⟩ := d2 _ hin
          have := lt_of_get c2
          omega
        · intro k hk
          rcases List.mem_cons.1 hk with rfl | hk
          · refine ⟨by omega, ⟨1, off, len, R, 0, 1, [], 0⟩, ?_, rfl, by simp⟩
            rw [List.getElem?_append_right (by rw [hlen]; omega)]
            simp [hlen]
          · exact keyk r.kids R d2 k hk
      · simp only [hRq, if_false] at hold
        obtain ⟨d1, d2⟩ := hB q qo hold
        exact ⟨d1, keyk qo.kids q d2⟩
    · simp

theorem root_of_obj {objs : List Obj} (h : InvO objs) {b : Nat} {o : Obj} (hb : objs[b]? = some o) :
    ∃ r, objs[o.root]? = some r ∧ r.root = o.root := by
  obtain ⟨_, _, _, a4⟩ := h.1 b o hb
  by_cases hr : o.root = b
  · exact ⟨o, by rw [hr]; exact hb, rfl⟩
  · obtain ⟨_, _, r, b3, b4, _⟩ := a4 hr
    exact ⟨r, b3, b4⟩

theorem inv_newView {st st' : St} {b off len id : Nat} (h : InvO st.objs)
    (hv : newView st b off len = some (st', id)) : InvO st'.objs ∧ id = st.objs.length := by
  unfold newView at hv
  cases hb : st.objs[b]? with
  | none => simp [hb] at hv
  | some o =>
    simp only [hb] at hv
    by_cases h0 : o.refs = 0
    · simp [h0] at hv
    · simp only [h0, if_false] at hv
      obtain ⟨r, hr, hroot⟩ := root_of_obj h hb
      simp only [hr] at hv
      by_cases hr0 : r.refs = 0
      · simp [hr0] at hv
      · simp only [hr0, if_false, Option.some.injEq, Prod.mk.injEq] at hv
        obtain ⟨rfl, rfl⟩ := hv
        refine ⟨?_, rfl⟩
        simp only [setObj]
        exact inv_new_view h hr hroot (by omega) off len



/-- the root's last reference goes -/
theorem inv_free_root {objs : List Obj} (h : InvO objs) {i : Nat} {o : Obj} (hi : objs[i]? = some o)
    (hroot : o.root = i) (hrefs : o.refs = 1) (hown : o.own ≠ 0) :
    InvO (objs.set i { o with refs := 0, own := o.own - 1, kids := [], puts := o.puts + 1 }) := by
  obtain ⟨hA, hB⟩ := h
  obtain ⟨a1, a2, a3, _⟩ := hA i o hi
  have hkids : o.kids = [] := by
    cases hk : o.kids with
    | nil => rfl
    | cons x t => rw [hk] at a2; simp at a2; omega
  have hown1 : o.own = 1 := by rw [hkids] at a2; simp at a2; omega
  have hputs : o.puts = 0 := by have := a3 hroot; simpa [hrefs] using this
  have hlen : (objs.set i { o with refs := 0, own := o.own - 1, kids := [], puts := o.puts + 1 }).length = objs.length :=
    List.length_set ..
  constructor
  · intro j oj hj
    rw [get_set hi] at hj
    by_cases hij : i = j
    · subst hij
      simp at hj; subst hj
      exact ⟨by simpa [hlen] using a1, by simp [hown1], fun _ => by simp [hputs], fun hne => absurd hroot hne⟩
    · simp only [hij, if_false] at hj
      obtain ⟨b1, b2, b3, b4⟩ := hA j oj hj
      refine ⟨by rw [hlen]; exact b1, b2, b3, fun hr => ?_⟩
      obtain ⟨c1, c2, r, c3, c4, c5⟩ := b4 hr
      refine ⟨c1, c2, ?_⟩
      rw [get_set hi]
      by_cases hir : i = oj.root
      · simp only [hir, if_true]
        rw [← hir, hi] at c3; cases c3
        refine ⟨_, rfl, by simpa using c4, fun hp => ?_⟩
        have := c5 hp
        rw [hkids] at this; cases this
      · simp only [hir, if_false]
        exact ⟨r, c3, c4, c5⟩
  · intro q qo hq
    rw [get_set hi] at hq
    by_cases hiq : i = q
    · subst hiq
      simp at hq; subst hq
      simp
    · simp only [hiq, if_false] at hq
      obtain ⟨d1, d2⟩ := hB q qo hq
      refine ⟨d1, fun k hk => ?_⟩
      obtain ⟨e1, ko, e2, e3, e4⟩ := d2 k hk
      refine ⟨e1, ?_⟩
      rw [get_set hi]
      by_cases hik : i = k
      · subst hik
        rw [hi] at e2; cases e2
        exact absurd (hroot.symm.trans e3) hiq
      · simp only [hik, if_false]
        exact ⟨ko, e2, e3, e4⟩

theorem arith1 (a b c : Nat) (h : a = b + c) (hc : 0 < c) : a - 1 = b + (c - 1) := by omega

theorem get_set2 {objs : List Obj} {i R j : Nat} {o r a b : Obj} (hi : objs[i]? = some o)
    (hR : objs[R]? = some r) (hne : i ≠ R) :
    ((objs.set i a).set R b)[j]? = if R = j then some b else if i = j then some a else objs[j]? := by
  have h1 : (objs.set i a)[R]? = some r := by rw [get_set hi]; simp [hne, hR]
  rw [get_set h1, get_set hi]

/-- a view's last reference goes: its root loses one reference (and is returned to the pool if that
    was the last) -/
theorem inv_free_view {objs : List Obj} (h : InvO objs) {i : Nat} {o r r' : Obj} (hi : objs[i]? = some o)
    (hview : o.root ≠ i) (hrefs : o.refs = 1) (hR : objs[o.root]? = some r)
    (h1 : r'.root = r.root) (h2 : r'.own = r.own) (h3 : r'.kids = r.kids.erase i) (h4 : r'.refs = r.refs - 1)
    (h5 : r'.puts = if r.refs - 1 = 0 then 1 else 0) :
    InvO ((objs.set i { o with refs := 0, own := o.own - 1, kids := [] }).set o.root r') := by
  obtain ⟨hA, hB⟩ := h
  obtain ⟨a1, a2, _, a4⟩ := hA i o hi
  obtain ⟨okids, oputs, r0, hr0, rroot, rmem⟩ := a4 hview
  rw [hR] at hr0; cases hr0
  have imem : i ∈ r.kids := rmem (by rw [hrefs]; exact Nat.one_pos)
  have oown : o.own = 1 := by rw [okids] at a2; simp at a2; omega
  obtain ⟨ra1, ra2, ra3, _⟩ := hA o.root r hR
  obtain ⟨rnodup, rkids⟩ := hB o.root r hR
  have hne : i ≠ o.root := fun hh => hview hh.symm
  have hlenE : (r.kids.erase i).length = r.kids.length - 1 := List.length_erase_of_mem imem
  have hkpos : 0 < r.kids.length := List.length_pos_of_mem imem
  have hlen : ((objs.set i { o with refs := 0, own := o.own - 1, kids := [] }).set o.root r').length = objs.length := by
    simp
  have hbal : r.refs - 1 = r.own + (r.kids.length - 1) := arith1 _ _ _ ra2 hkpos
  have look := fun j => @get_set2 objs i o.root j o r { o with refs := 0, own := o.own - 1, kids := [] } r' hi hR hne
  constructor
  · intro j oj hj
    rw [look] at hj
    by_cases hRj : o.root = j
    · subst hRj
      simp at hj; subst hj
      refine ⟨by rw [hlen, h1, rroot]; exact a1, by rw [h4, h2, h3, hlenE]; exact hbal, fun _ => ?_, fun hh => absurd (h1.trans rroot) hh⟩
      rw [h5, h4]
    · simp only [hRj, if_false] at hj
      by_cases hij : i = j
      · subst hij
        simp at hj; subst hj
        refine ⟨by rw [hlen]; exact a1, by simp [oown], fun hh => absurd hh hview, fun _ => ⟨rfl, oputs, ?_⟩⟩
        simp only []
        rw [look]; simp only [if_true]
        exact ⟨r', rfl, h1.trans rroot, fun hp => by simp at hp⟩
      · simp only [hij, if_false] at hj
        obtain ⟨b1, b2, b3, b4⟩ := hA j oj hj
        refine ⟨by rw [hlen]; exact b1, b2, b3, fun hr => ?_⟩
        obtain ⟨c1, c2, rr, c3, c4, c5⟩ := b4 hr
        refine ⟨c1, c2, ?_⟩
        rw [look]
        by_cases hRr : o.root = oj.root
        · simp only [hRr, if_true]
          rw [← hRr, hR] at c3; cases c3
          refine ⟨r', rfl, by rw [h1, rroot, hRr], fun hp => ?_⟩
          rw [h3]
          exact (List.mem_erase_of_ne (fun hh => hij hh.symm)).2 (c5 hp)
        · simp only [hRr, if_false]
          by_cases hir : i = oj.root
          · exfalso
            rw [← hir, hi] at c3; cases c3
            exact hview (c4.trans hir.symm)
          · simp only [hir, if_false]
            exact ⟨rr, c3, c4, c5⟩
  · intro q qo hq
    rw [look] at hq
    by_cases hRq : o.root = q
    · subst hRq
      simp at hq; subst hq
      rw [h3]
      refine ⟨rnodup.erase i, fun k hk => ?_⟩
      have hk' := (rnodup.mem_erase_iff).1 hk
      obtain ⟨e1, ko, e2, e3, e4⟩ := rkids k hk'.2
      refine ⟨e1, ?_⟩
      rw [look]
      have : ¬ o.root = k := fun hh => e1 hh.symm
      have hik : ¬ i = k := fun hh => hk'.1 hh.symm
      simp only [this, hik, if_false]
      exact ⟨ko, e2, e3, e4⟩
    · simp only [hRq, if_false] at hq
      by_cases hiq : i = q
      · subst hiq
        simp at hq; subst hq
        simp
      · simp only [hiq, if_false] at hq
        obtain ⟨d1, d2⟩ := hB q qo hq
        refine ⟨d1, fun k hk => ?_⟩
        obtain ⟨e1, ko, e2, e3, e4⟩ := d2 k hk
        refine ⟨e1, ?_⟩
        rw [look]
        by_cases hRk : o.root = k
        · exfalso
          rw [← hRk, hR] at e2; cases e2
          exact e1 (hRk.symm.trans (rroot.symm.trans e3))
        · simp only [hRk, if_false]
          by_cases hik : i = k
          · exfalso
            subst hik
            rw [hi] at e2; cases e2
            exact hRq e3
          · simp only [hik, if_false]
            exact ⟨ko, e2, e3, e4⟩



theorem objs_poolPut (st : St) (m : Nat) : (poolPut st m).1.objs = st.objs := by
  unfold poolPut; cases st.mems[m]? <;> rfl

theorem root_live_puts {objs : List Obj} (h : InvO objs) {R : Nat} {r : Obj} (hR : objs[R]? = some r)
    (hroot : r.root = R) (hlive : r.refs ≠ 0) : r.puts = 0 := by
  have := (h.1 R r hR).2.2.1 hroot
  simpa [hlive] using this

theorem erase_only_kid {l : List Nat} {i a : Nat} (hm : i ∈ l) (hl : 1 = a + l.length) : l.erase i = [] := by
  match l, hm, hl with
  | [x], hm, _ => simp at hm; subst hm; simp
  | _ :: _ :: _, _, hl => simp at hl; omega

theorem inv_release {st st' : St} {i : Nat} {evs : List Ev} (h : InvO st.objs)
    (hr : release st i = some (st', evs)) : InvO st'.objs := by
  unfold release at hr
  cases hi : st.objs[i]? with
  | none => simp [hi] at hr
  | some o =>
    simp only [hi] at hr
    by_cases h0 : o.refs = 0
    · simp [h0] at hr
    · simp only [h0, if_false] at hr
      by_cases hown : o.own = 0
      · simp [hown] at hr
      · simp only [hown, if_false] at hr
        obtain ⟨a1, a2, a3, a4⟩ := h.1 i o hi
        by_cases h1 : o.refs > 1
        · simp only [h1, if_true, Option.some.injEq, Prod.mk.injEq] at hr
          obtain ⟨rfl, _⟩ := hr
          exact inv_update_same h hi rfl rfl rfl (by simp; omega) (by simp; omega)
        · simp only [h1, if_false] at hr
          have hone : o.refs = 1 := by omega
          by_cases hroot : o.root = i
          · rw [if_pos hroot] at hr
            simp only [Option.some.injEq, Prod.mk.injEq] at hr
            obtain ⟨rfl, _⟩ := hr
            rw [objs_poolPut]
            exact inv_free_root h hi hroot hone hown
          · rw [if_neg hroot] at hr
            obtain ⟨okids, oputs, r, hR, rroot, rmem⟩ := a4 hroot
            have hR1 : (setObj st i { o with refs := 0, own := o.own - 1, kids := [] }).objs[o.root]? = some r := by
              simp only [setObj]
              rw [get_set hi]
              have : ¬ i = o.root := fun hh => hroot hh.symm
              simp [this, hR]
            simp only [hR1] at hr
            have imem : i ∈ r.kids := rmem (by rw [hone]; exact Nat.one_pos)
            obtain ⟨_, ra2, _, _⟩ := h.1 o.root r hR
            by_cases hr0 : r.refs = 0
            · simp [hr0] at hr
            · simp only [hr0, if_false] at hr
              have rputs := root_live_puts h hR rroot hr0
              by_cases hr1 : r.refs > 1
              · simp only [hr1, if_true, Option.some.injEq, Prod.mk.injEq] at hr
                obtain ⟨rfl, _⟩ := hr
                simp only [setObj]
                refine inv_free_view h hi hroot hone hR rfl rfl rfl rfl ?_
                have : ¬ r.refs - 1 = 0 := by omega
                simp [this, rputs]
              · simp only [hr1, if_false, Option.some.injEq, Prod.mk.injEq] at hr
                obtain ⟨rfl, _⟩ := hr
                rw [objs_poolPut]
                simp only [setObj]
                have hrone : r.refs = 1 := by omega
                refine inv_free_view h hi hroot hone hR rfl rfl ?_ (by simp [hrone]) (by simp [hrone, rputs])
                simp only []
                exact (erase_only_kid imem (by rw [← hrone]; exact ra2)).symm



/-! ### the exported operations are compositions of the primitives -/

theorem inv_refVal {st st' : St} {v : Val} (h : InvO st.objs) (hr : refVal st v = some st') : InvO st'.objs := by
  cases v <;> simp only [refVal, Option.some.injEq, reduceCtorEq] at hr
  · exact inv_acquire h hr
  · subst hr; exact h
  · subst hr; exact h

theorem inv_freeVal {st st' : St} {v : Val} {evs : List Ev} (h : InvO st.objs)
    (hr : freeVal st v = some (st', evs)) : InvO st'.objs := by
  cases v <;> simp only [freeVal, Option.some.injEq, Prod.mk.injEq, reduceCtorEq] at hr
  · exact inv_release h hr
  · obtain ⟨rfl, _⟩ := hr; exact h
  · obtain ⟨rfl, _⟩ := hr; exact h

theorem inv_sliceVal {st st' : St} {v v' : Val} {s e : Nat} (h : InvO st.objs)
    (hr : sliceVal st v s e = some (st', v')) : InvO st'.objs := by
  cases v with
  | buf i =>
    simp only [sliceVal] at hr
    cases hi : st.objs[i]? with
    | none => simp [hi] at hr
    | some o =>
      simp only [hi] at hr
      split at hr
      · cases hr
      · split at hr
        · cases hr
        · split at hr
          · simp only [Option.some.injEq, Prod.mk.injEq] at hr; obtain ⟨rfl, _⟩ := hr; exact h
          · split at hr
            · cases ha : acquire st i with
              | none => simp [ha] at hr
              | some s1 => simp [ha] at hr; obtain ⟨rfl, _⟩ := hr; exact inv_acquire h ha
            · cases hv : newView st i (o.off + s) (e - s) with
              | none => simp [hv] at hr
              | some p => simp [hv] at hr; obtain ⟨rfl, _⟩ := hr; exact (inv_newView h hv).1
  | sl arr n =>
    simp only [sliceVal] at hr
    split at hr
    · simp only [Option.some.injEq, Prod.mk.injEq] at hr; obtain ⟨rfl, _⟩ := hr; exact h
    · cases hr
  | empty =>
    simp only [sliceVal] at hr
    split at hr
    · simp only [Option.some.injEq, Prod.mk.injEq] at hr; obtain ⟨rfl, _⟩ := hr; exact h
    · cases hr
  | nil => simp [sliceVal] at hr

theorem inv_splitVal {st st' : St} {v l r : Val} {n : Nat} (h : InvO st.objs)
    (hr : splitVal st v n = some (st', l, r)) : InvO st'.objs := by
  cases v with
  | buf i =>
    simp only [splitVal] at hr
    cases hi : st.objs[i]? with
    | none => simp [hi] at hr
    | some o =>
      simp only [hi] at hr
      split at hr
      · cases hr
      · cases hv : newView st i (o.off + n) (o.len - n) with
        | none => simp [hv] at hr
        | some p =>
          simp [hv] at hr
          obtain ⟨rfl, _⟩ := hr
          exact inv_narrow (inv_newView h hv).1
  | sl arr len =>
    simp only [splitVal] at hr
    split at hr
    · simp only [Option.some.injEq, Prod.mk.injEq] at hr; obtain ⟨rfl, _⟩ := hr; exact h
    · cases hr
  | empty => simp only [splitVal, Option.some.injEq, Prod.mk.injEq] at hr; obtain ⟨rfl, _⟩ := hr; exact h
  | nil => simp [splitVal] at hr

theorem inv_readVal {st st' : St} {v rest : Val} {n : Nat} {b : Bytes} {evs : List Ev} (h : InvO st.objs)
    (hr : readVal st v n = some (st', b, rest, evs)) : InvO st'.objs := by
  cases v with
  | buf i =>
    simp only [readVal] at hr
    cases hi : st.objs[i]? with
    | none => simp [hi] at hr
    | some o =>
      simp only [hi] at hr
      split at hr
      · cases hr
      · split at hr
        · cases hrel : release st i with
          | none => simp [hrel] at hr
          | some p => simp [hrel] at hr; obtain ⟨rfl, _⟩ := hr; exact inv_release h hrel
        · simp only [Option.some.injEq, Prod.mk.injEq] at hr; obtain ⟨rfl, _⟩ := hr; exact inv_narrow h
  | sl arr len =>
    simp only [readVal] at hr
    split at hr <;> (simp only [Option.some.injEq, Prod.mk.injEq] at hr; obtain ⟨rfl, _⟩ := hr; exact h)
  | empty => simp only [readVal, Option.some.injEq, Prod.mk.injEq] at hr; obtain ⟨rfl, _⟩ := hr; exact h
  | nil => simp [readVal] at hr

theorem inv_copyVal {st : St} {data : Bytes} (h : InvO st.objs) : InvO (copyVal st data).1.objs := by
  unfold copyVal
  split
  · exact h
  · exact inv_newBuffer (inv_poolGet h)

theorem inv_refAll {st st' : St} {vs : List Val} (h : InvO st.objs) (hr : refAll st vs = some st') : InvO st'.objs := by
  induction vs generalizing st with
  | nil => simp [refAll] at hr; subst hr; exact h
  | cons v t ih =>
    simp only [refAll] at hr
    cases h1 : refVal st v with
    | none => simp [h1] at hr
    | some s1 => simp [h1] at hr; exact ih (inv_refVal h h1) hr

theorem inv_freeAll {st st' : St} {vs : List Val} {evs : List Ev} (h : InvO st.objs)
    (hr : freeAll st vs = some (st', evs)) : InvO st'.objs := by
  induction vs generalizing st evs with
  | nil => simp [freeAll] at hr; obtain ⟨rfl, _⟩ := hr; exact h
  | cons v t ih =>
    simp only [freeAll] at hr
    cases h1 : freeVal st v with
    | none => simp [h1] at hr
    | some p =>
      simp [h1] at hr
      obtain ⟨q, evs2, hq2, rfl, _⟩ := hr
      exact ih (inv_freeVal h (by rw [h1])) hq2

theorem inv_matToBuf {st st' : St} {vs : List Val} {v : Val} {evs : List Ev} (h : InvO st.objs)
    (hr : matToBuf st vs = some (st', v, evs)) : InvO st'.objs := by
  unfold matToBuf at hr
  split at hr
  · rename_i v0
    simp only [Option.map_eq_some_iff, Prod.mk.injEq] at hr
    obtain ⟨s1, h1, rfl, _⟩ := hr
    exact inv_refVal h h1
  · cases hd : dataAll st vs with
    | none => simp [hd] at hr
    | some d =>
      simp only [hd] at hr
      split at hr
      · simp only [Option.some.injEq, Prod.mk.injEq] at hr; obtain ⟨rfl, _⟩ := hr; exact h
      · simp only [Option.some.injEq, Prod.mk.injEq] at hr; obtain ⟨rfl, _⟩ := hr
        exact inv_newBuffer (inv_poolGet h)



theorem inv_freeFirst {st st' : St} {r r' : Rd} {evs : List Ev} {b : Bool} (h : InvO st.objs)
    (hr : freeFirstIfEmpty st r = some (st', r', evs, b)) : InvO st'.objs := by
  unfold freeFirstIfEmpty at hr
  split at hr
  · simp only [Option.some.injEq, Prod.mk.injEq] at hr; obtain ⟨rfl, _⟩ := hr; exact h
  · rename_i v t _
    cases hl : lenOf st v with
    | none => simp [hl] at hr
    | some l =>
      simp only [hl] at hr
      split at hr
      · simp only [Option.some.injEq, Prod.mk.injEq] at hr; obtain ⟨rfl, _⟩ := hr; exact h
      · simp only [Option.map_eq_some_iff, Prod.mk.injEq] at hr
        obtain ⟨q, hq, rfl, _⟩ := hr
        exact inv_freeVal h (by rw [hq])

theorem inv_rdRead (fuel : Nat) {st st' : St} {r r' : Rd} {n : Nat} {acc b : Bytes} {evs evs' : List Ev}
    (h : InvO st.objs) (hr : rdRead fuel st r n acc evs = some (st', r', b, evs')) : InvO st'.objs := by
  induction fuel generalizing st r n acc evs with
  | zero => simp only [rdRead, Option.some.injEq, Prod.mk.injEq] at hr; obtain ⟨rfl, _⟩ := hr; exact h
  | succ f ih =>
    simp only [rdRead] at hr
    split at hr
    · simp only [Option.some.injEq, Prod.mk.injEq] at hr; obtain ⟨rfl, _⟩ := hr; exact h
    · split at hr
      · cases hr
      · rename_i v t _
        cases hd : dataOf st v with
        | none => simp [hd] at hr
        | some d =>
          simp only [hd] at hr
          split at hr
          · cases hr
          · split at hr
            · cases hr
            · rename_i st2 r2 e2 _ hff
              exact ih (inv_freeFirst h hff) hr

theorem inv_rdDiscard (fuel : Nat) {st st' : St} {r r' : Rd} {n n' : Nat} {evs evs' : List Ev}
    (h : InvO st.objs) (hr : rdDiscard fuel st r n evs = some (st', r', n', evs')) : InvO st'.objs := by
  induction fuel generalizing st r n evs with
  | zero => simp only [rdDiscard, Option.some.injEq, Prod.mk.injEq] at hr; obtain ⟨rfl, _⟩ := hr; exact h
  | succ f ih =>
    simp only [rdDiscard] at hr
    split at hr
    · simp only [Option.some.injEq, Prod.mk.injEq] at hr; obtain ⟨rfl, _⟩ := hr; exact h
    · split at hr
      · cases hr
      · rename_i v t _
        cases hd : dataOf st v with
        | none => simp [hd] at hr
        | some d =>
          simp only [hd] at hr
          split at hr
          · cases hf : freeVal st v with
            | none => simp [hf] at hr
            | some q => simp only [hf] at hr; exact ih (inv_freeVal h (by rw [hf])) hr
          · exact ih h hr

theorem inv_rdSkip (fuel : Nat) {st st' : St} {r r' : Rd} {evs evs' : List Ev}
    (h : InvO st.objs) (hr : rdSkip fuel st r evs = some (st', r', evs')) : InvO st'.objs := by
  induction fuel generalizing st r evs with
  | zero => simp only [rdSkip, Option.some.injEq, Prod.mk.injEq] at hr; obtain ⟨rfl, _⟩ := hr; exact h
  | succ f ih =>
    simp only [rdSkip] at hr
    split at hr
    · cases hr
    · rename_i st2 r2 e2 again hff
      split at hr
      · exact ih (inv_freeFirst h hff) hr
      · simp only [Option.some.injEq, Prod.mk.injEq] at hr; obtain ⟨rfl, _⟩ := hr; exact inv_freeFirst h hff

theorem inv_rdByte {st st' : St} {r r' : Rd} {b : Option UInt8} {evs : List Ev}
    (h : InvO st.objs) (hr : rdByte st r = some (st', r', b, evs)) : InvO st'.objs := by
  unfold rdByte at hr
  split at hr
  · simp only [Option.some.injEq, Prod.mk.injEq] at hr; obtain ⟨rfl, _⟩ := hr; exact h
  · split at hr
    · cases hr
    · rename_i st1 r1 e1 hsk
      have h1 := inv_rdSkip _ h hsk
      split at hr
      · cases hr
      · split at hr
        · cases hr
        · split at hr
          · cases hr
          · simp only [Option.map_eq_some_iff, Prod.mk.injEq] at hr
            obtain ⟨q, hq, rfl, _⟩ := hr
            obtain ⟨q1, q2, q3, q4⟩ := q
            exact inv_freeFirst h1 hq

theorem inv_readAll {st st' : St} {r r' : Rd} {v : Option Val} {evs : List Ev}
    (h : InvO st.objs) (hr : readAll st r = some (st', r', v, evs)) : InvO st'.objs := by
  unfold readAll at hr
  split at hr
  · cases hr
  · simp only [] at hr
    split at hr
    · cases hr
    · rename_i st1 r1 bytes evs1 hrd
      have h1 : InvO st1.objs := inv_rdRead _ (inv_poolGet h) hrd
      split at hr
      · simp only [Option.some.injEq, Prod.mk.injEq] at hr; obtain ⟨rfl, _⟩ := hr; exact inv_poolPut h1
      · simp only [Option.some.injEq, Prod.mk.injEq] at hr; obtain ⟨rfl, _⟩ := hr
        apply inv_newBuffer
        split <;> exact h1




/-! ### the bytes of a memory never change (so a window shows what was written before NewBuffer) -/

/-- every memory of `s0` still exists in `st` with the same bytes -/
def Keep (s0 st : St) : Prop :=
  ∀ (m : Nat) (x : Mem), s0.mems[m]? = some x → ∃ x' : Mem, st.mems[m]? = some x' ∧ x'.bytes = x.bytes

theorem keep_refl (st : St) : Keep st st := fun _ x h => ⟨x, h, rfl⟩

theorem keep_of_mems {s0 st st' : St} (h : Keep s0 st) (he : st'.mems = st.mems) : Keep s0 st' := by
  intro m x hm; rw [he]; exact h m x hm

theorem keep_acquire {s0 st st' : St} {i : Nat} (h : Keep s0 st) (ha : acquire st i = some st') : Keep s0 st' := by
  unfold acquire at ha
  cases hi : st.objs[i]? with
  | none => simp [hi] at ha
  | some o =>
    simp only [hi] at ha
    split at ha
    · cases ha
    · simp only [Option.some.injEq] at ha; subst ha; exact keep_of_mems h rfl

theorem keep_narrow {s0 st : St} {i off len : Nat} (h : Keep s0 st) : Keep s0 (narrow st i off len) := by
  unfold narrow
  cases st.objs[i]? with
  | none => exact h
  | some o => exact keep_of_mems h rfl

theorem keep_poolGet {s0 st : St} {n : Nat} {c : Bytes} (h : Keep s0 st) : Keep s0 (poolGet st n c).1 := by
  intro m x hm
  obtain ⟨x', h1, h2⟩ := h m x hm
  refine ⟨x', ?_, h2⟩
  simp only [poolGet]
  rw [List.getElem?_append_left]
  · exact h1
  · rcases Nat.lt_or_ge m st.mems.length with hl | hl
    · exact hl
    · rw [List.getElem?_eq_none hl] at h1; cases h1

theorem keep_poolPut {s0 st : St} {m : Nat} (h : Keep s0 st) : Keep s0 (poolPut st m).1 := by
  unfold poolPut
  cases hm : st.mems[m]? with
  | none => exact h
  | some y =>
    intro k x hk
    obtain ⟨x', h1, h2⟩ := h k x hk
    simp only []
    rw [List.getElem?_set]
    by_cases hmk : m = k
    · subst hmk
      rw [hm] at h1; cases h1
      have : m < st.mems.length := by
        rcases Nat.lt_or_ge m st.mems.length with hl | hl
        · exact hl
        · rw [List.getElem?_eq_none hl] at hm; cases hm
      exact ⟨{ y with puts := y.puts + 1 }, by simp [this], h2⟩
    · simp only [hmk, if_false]; exact ⟨x', h1, h2⟩

theorem keep_newBuffer {s0 st : St} {m n : Nat} (h : Keep s0 st) : Keep s0 (newBuffer st m n).1 := by
  unfold newBuffer
  cases st.mems[m]? with
  | none => exact h
  | some x =>
    simp only []
    split
    · exact h
    · exact keep_of_mems h rfl

theorem keep_newView {s0 st st' : St} {b off len id : Nat} (h : Keep s0 st)
    (hv : newView st b off len = some (st', id)) : Keep s0 st' ∧ True := by
  refine ⟨?_, trivial⟩
  unfold newView at hv
  cases hb : st.objs[b]? with
  | none => simp [hb] at hv
  | some o =>
    simp only [hb] at hv
    split at hv
    · cases hv
    · cases hr : st.objs[o.root]? with
      | none => simp [hr] at hv
      | some r =>
        simp only [hr] at hv
        split at hv
        · cases hv
        · simp only [Option.some.injEq, Prod.mk.injEq] at hv
          obtain ⟨rfl, _⟩ := hv
          exact keep_of_mems h rfl

theorem keep_release {s0 st st' : St} {i : Nat} {evs : List Ev} (h : Keep s0 st)
    (hr : release st i = some (st', evs)) : Keep s0 st' := by
  unfold release at hr
  cases hi : st.objs[i]? with
  | none => simp [hi] at hr
  | some o =>
    simp only [hi] at hr
    split at hr
    · cases hr
    · split at hr
      · cases hr
      · split at hr
        · simp only [Option.some.injEq, Prod.mk.injEq] at hr; obtain ⟨rfl, _⟩ := hr; exact keep_of_mems h rfl
        · split at hr
          · simp only [Option.some.injEq, Prod.mk.injEq] at hr; obtain ⟨rfl, _⟩ := hr
            exact keep_poolPut (keep_of_mems h rfl)
          · split at hr
            · cases hr
            · split at hr
              · cases hr
              · split at hr
                · simp only [Option.some.injEq, Prod.mk.injEq] at hr; obtain ⟨rfl, _⟩ := hr
                  exact keep_of_mems h rfl
                · simp only [Option.some.injEq, Prod.mk.injEq] at hr; obtain ⟨rfl, _⟩ := hr
                  exact keep_poolPut (keep_of_mems h rfl)

theorem keep_refVal {s0 : St} {st st' : St} {v : Val} (h : Keep s0 st) (hr : refVal st v = some st') : Keep s0 st' := by
  cases v <;> simp only [refVal, Option.some.injEq, reduceCtorEq] at hr
  · exact keep_acquire h hr
  · subst hr; exact h
  · subst hr; exact h

theorem keep_freeVal {s0 : St} {st st' : St} {v : Val} {evs : List Ev} (h : Keep s0 st)
    (hr : freeVal st v = some (st', evs)) : Keep s0 st' := by
  cases v <;> simp only [freeVal, Option.some.injEq, Prod.mk.injEq, reduceCtorEq] at hr
  · exact keep_release h hr
  · obtain ⟨rfl, _⟩ := hr; exact h
  · obtain ⟨rfl, _⟩ := hr; exact h

theorem keep_sliceVal {s0 : St} {st st' : St} {v v' : Val} {s e : Nat} (h : Keep s0 st)
    (hr : sliceVal st v s e = some (st', v')) : Keep s0 st' := by
  cases v with
  | buf i =>
    simp only [sliceVal] at hr
    cases hi : st.objs[i]? with
    | none => simp [hi] at hr
    | some o =>
      simp only [hi] at hr
      split at hr
      · cases hr
      · split at hr
        · cases hr
        · split at hr
          · simp only [Option.some.injEq, Prod.mk.injEq] at hr; obtain ⟨rfl, _⟩ := hr; exact h
          · split at hr
            · cases ha : acquire st i with
              | none => simp [ha] at hr
              | some s1 => simp [ha] at hr; obtain ⟨rfl, _⟩ := hr; exact keep_acquire h ha
            · cases hv : newView st i (o.off + s) (e - s) with
              | none => simp [hv] at hr
              | some p => simp [hv] at hr; obtain ⟨rfl, _⟩ := hr; exact (keep_newView h hv).1
  | sl arr n =>
    simp only [sliceVal] at hr
    split at hr
    · simp only [Option.some.injEq, Prod.mk.injEq] at hr; obtain ⟨rfl, _⟩ := hr; exact h
    · cases hr
  | empty =>
    simp only [sliceVal] at hr
    split at hr
    · simp only [Option.some.injEq, Prod.mk.injEq] at hr; obtain ⟨rfl, _⟩ := hr; exact h
    · cases hr
  | nil => simp [sliceVal] at hr

theorem keep_splitVal {s0 : St} {st st' : St} {v l r : Val} {n : Nat} (h : Keep s0 st)
    (hr : splitVal st v n = some (st', l, r)) : Keep s0 st' := by
  cases v with
  | buf i =>
    simp only [splitVal] at hr
    cases hi : st.objs[i]? with
    | none => simp [hi] at hr
    | some o =>
      simp only [hi] at hr
      split at hr
      · cases hr
      · cases hv : newView st i (o.off + n) (o.len - n) with
        | none => simp [hv] at hr
        | some p =>
          simp [hv] at hr
          obtain ⟨rfl, _⟩ := hr
          exact keep_narrow (keep_newView h hv).1
  | sl arr len =>
    simp only [splitVal] at hr
    split at hr
    · simp only [Option.some.injEq, Prod.mk.injEq] at hr; obtain ⟨rfl, _⟩ := hr; exact h
    · cases hr
  | empty => simp only [splitVal, Option.some.injEq, Prod.mk.injEq] at hr; obtain ⟨rfl, _⟩ := hr; exact h
  | nil => simp [splitVal] at hr

theorem keep_readVal {s0 : St} {st st' : St} {v rest : Val} {n : Nat} {b : Bytes} {evs : List Ev} (h : Keep s0 st)
    (hr : readVal st v n = some (st', b, rest, evs)) : Keep s0 st' := by
  cases v with
  | buf i =>
    simp only [readVal] at hr
    cases hi : st.objs[i]? with
    | none => simp [hi] at hr
    | some o =>
      simp only [hi] at hr
      split at hr
      · cases hr
      · split at hr
        · cases hrel : release st i with
          | none => simp [hrel] at hr
          | some p => simp [hrel] at hr; obtain ⟨rfl, _⟩ := hr; exact keep_release h hrel
        · simp only [Option.some.injEq, Prod.mk.injEq] at hr; obtain ⟨rfl, _⟩ := hr; exact keep_narrow h
  | sl arr len =>
    simp only [readVal] at hr
    split at hr <;> (simp only [Option.some.injEq, Prod.mk.injEq] at hr; obtain ⟨rfl, _⟩ := hr; exact h)
  | empty => simp only [readVal, Option.some.injEq, Prod.mk.injEq] at hr; obtain ⟨rfl, _⟩ := hr; exact h
  | nil => simp [readVal] at hr

theorem keep_copyVal {s0 : St} {st : St} {data : Bytes} (h : Keep s0 st) : Keep s0 (copyVal st data).1 := by
  unfold copyVal
  split
  · exact h
  · exact keep_newBuffer (keep_poolGet h)

theorem keep_refAll {s0 : St} {st st' : St} {vs : List Val} (h : Keep s0 st) (hr : refAll st vs = some st') : Keep s0 st' := by
  induction vs generalizing st with
  | nil => simp [refAll] at hr; subst hr; exact h
  | cons v t ih =>
    simp only [refAll] at hr
    cases h1 : refVal st v with
    | none => simp [h1] at hr
    | some s1 => simp [h1] at hr; exact ih (keep_refVal h h1) hr

theorem keep_freeAll {s0 : St} {st st' : St} {vs : List Val} {evs : List Ev} (h : Keep s0 st)
    (hr : freeAll st vs = some (st', evs)) : Keep s0 st' := by
  induction vs generalizing st evs with
  | nil => simp [freeAll] at hr; obtain ⟨rfl, _⟩ := hr; exact h
  | cons v t ih =>
    simp only [freeAll] at hr
    cases h1 : freeVal st v with
    | none => simp [h1] at hr
    | some p =>
      simp [h1] at hr
      obtain ⟨q, evs2, hq2, rfl, _⟩ := hr
      exact ih (keep_freeVal h (by rw [h1])) hq2

theorem keep_matToBuf {s0 : St} {st st' : St} {vs : List Val} {v : Val} {evs : List Ev} (h : Keep s0 st)
    (hr : matToBuf st vs = some (st', v, evs)) : Keep s0 st' := by
  unfold matToBuf at hr
  split at hr
  · rename_i v0
    simp only [Option.map_eq_some_iff, Prod.mk.injEq] at hr
    obtain ⟨s1, h1, rfl, _⟩ := hr
    exact keep_refVal h h1
  · cases hd : dataAll st vs with
    | none => simp [hd] at hr
    | some d =>
      simp only [hd] at hr
      split at hr
      · simp only [Option.some.injEq, Prod.mk.injEq] at hr; obtain ⟨rfl, _⟩ := hr; exact h
      · simp only [Option.some.injEq, Prod.mk.injEq] at hr; obtain ⟨rfl, _⟩ := hr
        exact keep_newBuffer (keep_poolGet h)



theorem keep_freeFirst {s0 : St} {st st' : St} {r r' : Rd} {evs : List Ev} {b : Bool} (h : Keep s0 st)
    (hr : freeFirstIfEmpty st r = some (st', r', evs, b)) : Keep s0 st' := by
  unfold freeFirstIfEmpty at hr
  split at hr
  · simp only [Option.some.injEq, Prod.mk.injEq] at hr; obtain ⟨rfl, _⟩ := hr; exact h
  · rename_i v t _
    cases hl : lenOf st v with
    | none => simp [hl] at hr
    | some l =>
      simp only [hl] at hr
      split at hr
      · simp only [Option.some.injEq, Prod.mk.injEq] at hr; obtain ⟨rfl, _⟩ := hr; exact h
      · simp only [Option.map_eq_some_iff, Prod.mk.injEq] at hr
        obtain ⟨q, hq, rfl, _⟩ := hr
        exact keep_freeVal h (by rw [hq])

theorem keep_rdRead (fuel : Nat) {s0 : St} {st st' : St} {r r' : Rd} {n : Nat} {acc b : Bytes} {evs evs' : List Ev}
    (h : Keep s0 st) (hr : rdRead fuel st r n acc evs = some (st', r', b, evs')) : Keep s0 st' := by
  induction fuel generalizing st r n acc evs with
  | zero => simp only [rdRead, Option.some.injEq, Prod.mk.injEq] at hr; obtain ⟨rfl, _⟩ := hr; exact h
  | succ f ih =>
    simp only [rdRead] at hr
    split at hr
    · simp only [Option.some.injEq, Prod.mk.injEq] at hr; obtain ⟨rfl, _⟩ := hr; exact h
    · split at hr
      · cases hr
      · rename_i v t _
        cases hd : dataOf st v with
        | none => simp [hd] at hr
        | some d =>
          simp only [hd] at hr
          split at hr
          · cases hr
          · split at hr
            · cases hr
            · rename_i st2 r2 e2 _ hff
              exact ih (keep_freeFirst h hff) hr

theorem keep_rdDiscard (fuel : Nat) {s0 : St} {st st' : St} {r r' : Rd} {n n' : Nat} {evs evs' : List Ev}
    (h : Keep s0 st) (hr : rdDiscard fuel st r n evs = some (st', r', n', evs')) : Keep s0 st' := by
  induction fuel generalizing st r n evs with
  | zero => simp only [rdDiscard, Option.some.injEq, Prod.mk.injEq] at hr; obtain ⟨rfl, _⟩ := hr; exact h
  | succ f ih =>
    simp only [rdDiscard] at hr
    split at hr
    · simp only [Option.some.injEq, Prod.mk.injEq] at hr; obtain ⟨rfl, _⟩ := hr; exact h
    · split at hr
      · cases hr
      · rename_i v t _
        cases hd : dataOf st v with
        | none => simp [hd] at hr
        | some d =>
          simp only [hd] at hr
          split at hr
          · cases hf : freeVal st v with
            | none => simp [hf] at hr
            | some q => simp only [hf] at hr; exact ih (keep_freeVal h (by rw [hf])) hr
          · exact ih h hr

theorem keep_rdSkip (fuel : Nat) {s0 : St} {st st' : St} {r r' : Rd} {evs evs' : List Ev}
    (h : Keep s0 st) (hr : rdSkip fuel st r evs = some (st', r', evs')) : Keep s0 st' := by
  induction fuel generalizing st r evs with
  | zero => simp only [rdSkip, Option.some.injEq, Prod.mk.injEq] at hr; obtain ⟨rfl, _⟩ := hr; exact h
  | succ f ih =>
    simp only [rdSkip] at hr
    split at hr
    · cases hr
    · rename_i st2 r2 e2 again hff
      split at hr
      · exact ih (keep_freeFirst h hff) hr
      · simp only [Option.some.injEq, Prod.mk.injEq] at hr; obtain ⟨rfl, _⟩ := hr; exact keep_freeFirst h hff

theorem keep_rdByte {s0 : St} {st st' : St} {r r' : Rd} {b : Option UInt8} {evs : List Ev}
    (h : Keep s0 st) (hr : rdByte st r = some (st', r', b, evs)) : Keep s0 st' := by
  unfold rdByte at hr
  split at hr
  · simp only [Option.some.injEq, Prod.mk.injEq] at hr; obtain ⟨rfl, _⟩ := hr; exact h
  · split at hr
    · cases hr
    · rename_i st1 r1 e1 hsk
      have h1 := keep_rdSkip _ h hsk
      split at hr
      · cases hr
      · split at hr
        · cases hr
        · split at hr
          · cases hr
          · simp only [Option.map_eq_some_iff, Prod.mk.injEq] at hr
            obtain ⟨q, hq, rfl, _⟩ := hr
            obtain ⟨q1, q2, q3, q4⟩ := q
            exact keep_freeFirst h1 hq


theorem keep_readAll {st st' : St} {r r' : Rd} {v : Option Val} {evs : List Ev}
    (hr : readAll st r = some (st', r', v, evs)) : Keep st st' := by
  unfold readAll at hr
  split at hr
  · cases hr
  · simp only [] at hr
    split at hr
    · cases hr
    · rename_i st1 r1 bytes evs1 hrd
      have h1 : Keep st st1 := keep_rdRead _ (keep_poolGet (keep_refl st)) hrd
      split at hr
      · simp only [Option.some.injEq, Prod.mk.injEq] at hr; obtain ⟨rfl, _⟩ := hr; exact keep_poolPut h1
      · simp only [Option.some.injEq, Prod.mk.injEq] at hr; obtain ⟨rfl, _⟩ := hr
        apply keep_newBuffer
        split
        · rename_i x hx
          intro m y hm
          obtain ⟨y', q1, q2⟩ := h1 m y hm
          have hlt : m < st.mems.length := by
            rcases Nat.lt_or_ge m st.mems.length with hl | hl
            · exact hl
            · rw [List.getElem?_eq_none hl] at hm; cases hm
          refine ⟨y', ?_, q2⟩
          simp only [poolGet]
          rw [List.getElem?_set]
          have : ¬ st.mems.length = m := by omega
          simp only [this, if_false]
          exact q1
        · exact h1

/-- no operation changes the bytes of an existing memory -/
theorem keep_step {st st' : St} (hs : Step st st') : Keep st st' := by
  cases hs with
  | frame _ hm => exact keep_of_mems (keep_refl st) hm
  | newbuf n c k => exact keep_newBuffer (keep_poolGet (keep_refl st))
  | copy data => exact keep_copyVal (keep_refl st)
  | ref hr => exact keep_refVal (keep_refl st) hr
  | free hr => exact keep_freeVal (keep_refl st) hr
  | slice hr => exact keep_sliceVal (keep_refl st) hr
  | split hr => exact keep_splitVal (keep_refl st) hr
  | read hr => exact keep_readVal (keep_refl st) hr
  | mattobuf hr => exact keep_matToBuf (keep_refl st) hr
  | reader hr => exact keep_refAll (keep_refl st) hr
  | close hr => exact keep_freeAll (keep_refl st) hr
  | rread hr => exact keep_rdRead _ (keep_refl st) hr
  | rdiscard hr => exact keep_rdDiscard _ (keep_refl st) hr
  | rbyte hr => exact keep_rdByte (keep_refl st) hr
  | readall hr => exact keep_readAll hr

theorem inv_step {st st' : St} (h : InvO st.objs) (hs : Step st st') : InvO st'.objs := by
  cases hs with
  | frame he _ => rw [he]; exact h
  | newbuf n c k => exact inv_newBuffer (inv_poolGet h)
  | copy data => exact inv_copyVal h
  | ref hr => exact inv_refVal h hr
  | free hr => exact inv_freeVal h hr
  | slice hr => exact inv_sliceVal h hr
  | split hr => exact inv_splitVal h hr
  | read hr => exact inv_readVal h hr
  | mattobuf hr => exact inv_matToBuf h hr
  | reader hr => exact inv_refAll h hr
  | close hr => exact inv_freeAll h hr
  | rread hr => exact inv_rdRead _ h hr
  | rdiscard hr => exact inv_rdDiscard _ h hr
  | rbyte hr => exact inv_rdByte h hr
  | readall hr => exact inv_readAll h hr

theorem inv_reach {st : St} (h : Reach st) : InvO st.objs := by
  induction h with
  | init => exact inv_nil
  | step _ hs ih => exact inv_step ih hs

end GrpcProofs.Lemmas.MemBuffer
