/-
Helper lemmas about GrpcModel.RetryLoop, part C (see RetryLoopA.lean).
-/
import GrpcProofs.Lemmas.RetryLoopB
namespace GrpcProofs.Lemmas.RetryLoop
open GrpcModel.Retry GrpcModel.RetryLoop GrpcProofs.Lemmas.Retry

/-! ### more invariants of withRetry -/

/-- induction principle: a state predicate kept by the pieces of `withRetry` is kept by `withRetry`.
    `J st d` is whatever is known about a positive decision `d` at state `st` (it travels from
    `decideRetry` through the failed stream creations to `startRetry`). -/
theorem withRetry_preserves (P : St → Prop) (J : St → Decision → Prop)
    (hApply : ∀ st op, P st → P (st.applyOp op).1)
    (hSucc : ∀ st op, P st → P (st.onSuccess op))
    (hDec : ∀ st raw, P st → P (st.decideRetry raw).1)
    (hDecJ : ∀ st raw, P st → (st.decideRetry raw).2 ≠ .noRetry → (st.decideRetry raw).2 ≠ .exhausted →
        J (st.decideRetry raw).1 (st.decideRetry raw).2)
    (hCommit : ∀ st, P st → P st.commit)
    (hPop : ∀ st d rest, P st → J st d → P { st with nsScript := rest } ∧ J { st with nsScript := rest } d)
    (hFail : ∀ st d c, P st → J st d → P (st.failStep d c).1 ∧
        ((st.failStep d c).2 ≠ .noRetry → (st.failStep d c).2 ≠ .exhausted → J (st.failStep d c).1 (st.failStep d c).2))
    (hStart : ∀ st d, P st → J st d → P (st.startRetry d).1)
    (fuel : Nat) (st : St) (op : COp) (h : P st) : P (St.withRetry fuel st op).1 := by
  induction fuel generalizing st with
  | zero =>
    rw [withRetry_unfold]
    split_ifs
    · exact hApply st op h
    · split
      · exact hApply st op h
      · exact hSucc _ op (hApply st op h)
      · split
        · exact hCommit _ (hDec _ _ (hApply st op h))
        · exact hCommit _ (hDec _ _ (hApply st op h))
        · exact hDec _ _ (hApply st op h)
  | succ n ih =>
    rw [withRetry_unfold]
    split_ifs
    · exact hApply st op h
    · split
      · exact hApply st op h
      · exact hSucc _ op (hApply st op h)
      · cases hdd : ((st.applyOp op).1.decideRetry (st.applyOp op).2.1).2 with
        | noRetry => exact hCommit _ (hDec _ _ (hApply st op h))
        | exhausted => exact hCommit _ (hDec _ _ (hApply st op h))
        | transparent =>
          have hP3 := hDec _ (st.applyOp op).2.1 (hApply st op h)
          have hJ3 := hDecJ _ (st.applyOp op).2.1 (hApply st op h) (by rw [hdd]; simp) (by rw [hdd]; simp)
          rw [hdd] at hJ3
          have hF := failLoop_preserves P J hPop hFail n _ _ hP3 hJ3
          simp only [contK]
          cases hna : (((st.applyOp op).1.decideRetry (st.applyOp op).2.1).1.nextAttempt n Decision.transparent).2.1 with
          | some r =>
            simp only
            rw [(nextAttempt_some n _ _ r hna).2]
            exact hCommit _ hF.1
          | none =>
            simp only
            obtain ⟨hnone, hst⟩ := nextAttempt_none n _ _ hna
            rw [hst]
            exact ih _ (hStart _ _ hF.1 (hF.2 hnone))
        | backoff dur fp =>
          have hP3 := hDec _ (st.applyOp op).2.1 (hApply st op h)
          have hJ3 := hDecJ _ (st.applyOp op).2.1 (hApply st op h) (by rw [hdd]; simp) (by rw [hdd]; simp)
          rw [hdd] at hJ3
          have hF := failLoop_preserves P J hPop hFail n _ _ hP3 hJ3
          simp only [contK]
          cases hna : (((st.applyOp op).1.decideRetry (st.applyOp op).2.1).1.nextAttempt n (Decision.backoff dur fp)).2.1 with
          | some r =>
            simp only
            rw [(nextAttempt_some n _ _ r hna).2]
            exact hCommit _ hF.1
          | none =>
            simp only
            obtain ⟨hnone, hst⟩ := nextAttempt_none n _ _ hna
            rw [hst]
            exact ih _ (hStart _ _ hF.1 (hF.2 hnone))

/-! #### small frame facts -/

theorem write_rsize (st : St) (w : Wire) : (st.write w).1.replaySize = st.replaySize ∧ (st.write w).1.atts.length = st.atts.length := by
  unfold St.write
  split_ifs
  · exact ⟨rfl, rfl⟩
  · exact ⟨(updCur_same st _).rsize, (updCur_same st _).len⟩

theorem applyOp_rsize (st : St) (op : COp) :
    (st.applyOp op).1.replaySize = st.replaySize ∧ (st.applyOp op).1.atts.length = st.atts.length := by
  cases op with
  | send size =>
    simp only [St.applyOp]
    repeat' split_ifs
    all_goals first
      | exact write_rsize st _
      | exact ⟨(write_rsize _ _).1.trans (write_rsize st _).1, (write_rsize _ _).2.trans (write_rsize st _).2⟩
  | half => exact write_rsize st _
  | recv =>
    have h2 := updCur_same ({ st with atts := react st.atts } : St) (fun a => { a with respRead := 1 })
    have hl : (react st.atts).length = st.atts.length := by simp [react]
    simp only [St.applyOp]
    repeat' (first | split_ifs | split)
    all_goals first
      | exact ⟨rfl, hl⟩
      | exact ⟨h2.rsize, h2.len.trans hl⟩
  | header =>
    have hl : (react st.atts).length = st.atts.length := by simp [react]
    simp only [St.applyOp]
    repeat' (first | split_ifs | split)
    all_goals exact ⟨rfl, hl⟩

theorem replayAll_rsize (st : St) : st.replayAll.1.replaySize = st.replaySize := by
  unfold St.replayAll
  generalize ([] : List Ev) = evs
  induction st.replay generalizing st evs with
  | nil => rfl
  | cons o r ih =>
    simp only [List.foldl_cons]
    cases o with
    | start => exact (ih _ _).trans rfl
    | msg q z =>
      simp only
      split_ifs
      · exact (ih _ _).trans (write_rsize st _).1
      · exact (ih _ _).trans ((write_rsize _ _).1.trans (write_rsize st _).1)
    | half => exact (ih _ _).trans (write_rsize st _).1

theorem decideRetry_keep (st : St) (raw : Raw) :
    (st.decideRetry raw).1.cs.committed = st.cs.committed ∧ (st.decideRetry raw).1.replaySize = st.replaySize ∧
    (st.decideRetry raw).1.atts.length = st.atts.length := by
  have hs := finishAttempt_same st raw.code
  simp only [St.decideRetry]
  split
  · exact ⟨by rw [hs.cs], hs.rsize, hs.len⟩
  next a _ =>
    have hf := sr_other_fields (st.finishAttempt raw.code).disableRetry (st.finishAttempt raw.code).pol
      (st.finishAttempt raw.code).cs (attemptView a) 0
    exact ⟨by simp only; rw [hf.2.2.1, hs.cs], hs.rsize, hs.len⟩

/-! #### the buffer never exceeds the limit while uncommitted -/

def SizeInv (st : St) : Prop := st.cs.committed = false → st.replaySize ≤ st.maxBuf

theorem buffer_size (st : St) (sz : Int) (op : ROp) (h : SizeInv st) : SizeInv (st.buffer sz op) := by
  simp only [St.buffer, SizeInv]
  split_ifs with hc hs
  · exact h
  · intro hf; simp [St.commit] at hf
  · intro _; simpa using hs

theorem withRetry_size (fuel : Nat) (st : St) (op : COp) (h : SizeInv st) : SizeInv (St.withRetry fuel st op).1 := by
  apply withRetry_preserves SizeInv (fun _ _ => True) _ _ _ _ _ _ _ _ fuel st op h
  · intro st op h hc
    rw [applyOp_cs] at hc
    rw [(applyOp_rsize st op).1, (applyOp_frame st op).maxBuf]; exact h hc
  · intro st op h
    cases op <;> simp only [St.onSuccess]
    · exact buffer_size _ _ _ h
    · exact buffer_size _ _ _ h
    · intro hc; simp [St.commit] at hc
    · intro hc; simp [St.commit] at hc
  · intro st raw h hc
    rw [(decideRetry_keep st raw).1] at hc
    rw [(decideRetry_keep st raw).2.1, (decideRetry_frame st raw).maxBuf]; exact h hc
  · intro _ _ _ _ _; trivial
  · intro st _ hc; simp [St.commit] at hc
  · intro st d rest h _; exact ⟨h, trivial⟩
  · intro st d c h _
    have hc := failStep_core st d c
    refine ⟨?_, fun _ _ => trivial⟩
    intro hcm
    rw [hc.committed] at hcm
    rw [hc.rsize, hc.maxBuf]; exact h hcm
  · intro st d h _ hc
    rw [startRetry_cs, afterDecision_committed] at hc
    unfold St.startRetry
    rw [replayAll_rsize, (replayAll_frame _).maxBuf]
    exact h hc

/-! #### once committed, no attempt is ever created again -/

theorem withRetry_committed_atts (fuel : Nat) (st : St) (op : COp) (hc : st.cs.committed = true) :
    (St.withRetry fuel st op).1.atts.length = st.atts.length ∧ (St.withRetry fuel st op).1.cs.committed = true := by
  rw [withRetry_unfold]
  simp only [hc, if_true]
  exact ⟨(applyOp_rsize st op).2, by rw [applyOp_cs]; exact hc⟩

/-- `committed` is never reset -/
theorem withRetry_committed_mono (fuel : Nat) (st : St) (op : COp) (hc : st.cs.committed = true) :
    (St.withRetry fuel st op).1.cs.committed = true := (withRetry_committed_atts fuel st op hc).2

/-! #### delivery commits -/

theorem applyOp_delivers_op (st : St) (op : COp) (h : (rawToRes (st.applyOp op).2.1).delivers = true) :
    op = .recv ∨ op = .header := by
  cases op with
  | send size =>
    simp only [St.applyOp] at h
    repeat' split_ifs at h
    all_goals simp [rawToRes, Res.delivers] at h
  | half => simp [St.applyOp, rawToRes, Res.delivers] at h
  | recv => exact Or.inl rfl
  | header => exact Or.inr rfl

theorem rawToRes_fail (raw : Raw) (h : raw.isFail = true) : (rawToRes raw).delivers = false := by
  cases raw <;> simp [Raw.isFail, rawToRes, Res.delivers] at h ⊢

/-- when `failLoop` gives up the operation returns an error -/
theorem failLoop_res (fuel : Nat) (st : St) (d : Decision) (r : Res) (h : (st.failLoop fuel d).2.1 = some r) :
    r.delivers = false := by
  induction fuel generalizing st d with
  | zero =>
    rw [St.failLoop] at h
    cases hns : st.nsScript with
    | nil => simp [hns] at h
    | cons o rest =>
      cases o with
      | none => simp [hns] at h
      | some c =>
        simp only [hns] at h
        cases hd : (st.failStep d c).2 <;> simp only [hd, Option.some.injEq] at h <;> subst h <;> rfl
  | succ n ih =>
    rw [St.failLoop] at h
    cases hns : st.nsScript with
    | nil => simp [hns] at h
    | cons o rest =>
      cases o with
      | none => simp [hns] at h
      | some c =>
        simp only [hns] at h
        cases hd : (st.failStep d c).2 with
        | noRetry => simp only [hd, Option.some.injEq] at h; subst h; rfl
        | exhausted => simp only [hd, Option.some.injEq] at h; subst h; rfl
        | transparent => simp only [hd] at h; exact ih _ _ h
        | backoff dur fp => simp only [hd] at h; exact ih _ _ h

theorem contK_delivery (n : Nat) (op : COp) (ev : List Ev) (S : St) (D : Decision)
    (ih : ∀ s : St, (St.withRetry n s op).2.1.delivers = true → (St.withRetry n s op).1.cs.committed = true)
    (h : (contK (n + 1) op ev S D).2.1.delivers = true) : (contK (n + 1) op ev S D).1.cs.committed = true := by
  simp only [contK] at h ⊢
  cases hna : (S.nextAttempt n D).2.1 with
  | some r =>
    simp only [hna] at h ⊢
    have := failLoop_res n S D r (nextAttempt_some n S D r hna).1
    rw [this] at h; cases h
  | none =>
    simp only [hna] at h ⊢
    exact ih _ h

theorem withRetry_delivery_commits (fuel : Nat) (st : St) (op : COp)
    (h : (St.withRetry fuel st op).2.1.delivers = true) : (St.withRetry fuel st op).1.cs.committed = true := by
  induction fuel generalizing st with
  | zero =>
    rw [withRetry_unfold] at h ⊢
    by_cases hc : st.cs.committed = true
    · simp only [hc, if_true]; rw [applyOp_cs]; exact hc
    · have hc' : st.cs.committed = false := by simpa using hc
      simp only [hc', Bool.false_eq_true, if_false] at h ⊢
      cases hcl : (st.applyOp op).1.classify (st.applyOp op).2.1 with
      | blocked => simp [hcl, Res.delivers] at h
      | success =>
        simp only [hcl] at h ⊢
        rcases applyOp_delivers_op st op h with ho | ho <;> subst ho <;> rfl
      | failure =>
        have hf := rawToRes_fail _ (classify_failure _ _ hcl)
        simp only [hcl] at h ⊢
        cases hd : ((st.applyOp op).1.decideRetry (st.applyOp op).2.1).2 with
        | noRetry => simp only [hd] at h; rw [hf] at h; cases h
        | exhausted => simp only [hd] at h; split at h <;> simp [Res.delivers] at h
        | transparent => simp [hd, contK, Res.delivers] at h
        | backoff dur fp => simp [hd, contK, Res.delivers] at h
  | succ n ih =>
    rw [withRetry_unfold] at h ⊢
    by_cases hc : st.cs.committed = true
    · simp only [hc, if_true]; rw [applyOp_cs]; exact hc
    · have hc' : st.cs.committed = false := by simpa using hc
      simp only [hc', Bool.false_eq_true, if_false] at h ⊢
      cases hcl : (st.applyOp op).1.classify (st.applyOp op).2.1 with
      | blocked => simp [hcl, Res.delivers] at h
      | success =>
        simp only [hcl] at h ⊢
        rcases applyOp_delivers_op st op h with ho | ho <;> subst ho <;> rfl
      | failure =>
        have hf := rawToRes_fail _ (classify_failure _ _ hcl)
        simp only [hcl] at h ⊢
        cases hd : ((st.applyOp op).1.decideRetry (st.applyOp op).2.1).2 with
        | noRetry => simp only [hd] at h; rw [hf] at h; cases h
        | exhausted => simp only [hd] at h; split at h <;> simp [Res.delivers] at h
        | transparent => simp only [hd] at h ⊢; exact contK_delivery n op _ _ _ ih h
        | backoff dur fp => simp only [hd] at h ⊢; exact contK_delivery n op _ _ _ ih h

/-! #### the number of non-transparent attempts is bounded by the policy -/

def PrevsLe (st : St) : Prop := ∀ a ∈ st.atts, a.prev ≤ st.cs.numRetries

def NrBound (st : St) : Prop :=
  0 ≤ st.cs.numRetries ∧ (st.cs.numRetries = 0 ∨ ∃ rp, st.pol = some rp ∧ st.cs.numRetries + 1 ≤ rp.maxAttempts)

def BInv (st : St) : Prop := PrevsLe st ∧ NrBound st

theorem updCur_prevsLe (st : St) (f : Att → Att) (hf : ∀ a, (f a).prev = a.prev) (h : PrevsLe st) : PrevsLe (st.updCur f) := by
  intro x hx
  rw [(updCur_same st f).cs]
  rcases mem_updCur st f x hx with hx | ⟨a, hc, rfl⟩
  · exact h x hx
  · rw [hf]; exact h a (cur_mem st a hc)

theorem write_prevsLe (st : St) (w : Wire) (h : PrevsLe st) : PrevsLe (st.write w).1 := by
  unfold St.write
  split_ifs
  · exact h
  · exact updCur_prevsLe st _ (fun _ => rfl) h

theorem react_prevsLe (st : St) (h : PrevsLe st) : PrevsLe { st with atts := react st.atts } := by
  intro x hx
  simp only [react, List.mem_map] at hx
  obtain ⟨a, ha, rfl⟩ := hx
  have := h a ha
  split_ifs <;> exact this

theorem applyOp_binv (st : St) (op : COp) (h : BInv st) : BInv (st.applyOp op).1 := by
  refine ⟨?_, ?_⟩
  · cases op with
    | send size =>
      simp only [St.applyOp]
      repeat' split_ifs
      all_goals first
        | exact write_prevsLe st _ h.1
        | exact write_prevsLe _ _ (write_prevsLe st _ h.1)
    | half => exact write_prevsLe st _ h.1
    | recv =>
      have h1 := react_prevsLe st h.1
      have h2 := updCur_prevsLe _ (fun a => { a with respRead := 1 }) (fun _ => rfl) h1
      simp only [St.applyOp]
      repeat' (first | split_ifs | split)
      all_goals first
        | exact h1
        | exact h2
    | header =>
      have h1 := react_prevsLe st h.1
      simp only [St.applyOp]
      repeat' (first | split_ifs | split)
      all_goals exact h1
  · unfold NrBound; rw [applyOp_cs, (applyOp_frame st op).pol]; exact h.2

theorem buffer_binv (st : St) (sz : Int) (op : ROp) (h : BInv st) : BInv (st.buffer sz op) := by
  simp only [St.buffer]
  split_ifs <;> exact h

theorem finishAttempt_binv (st : St) (code : Nat) (h : BInv st) : BInv (st.finishAttempt code) := by
  refine ⟨?_, ?_⟩
  · unfold St.finishAttempt
    apply updCur_prevsLe st _ _ h.1
    intro a; split_ifs <;> rfl
  · unfold NrBound; rw [(finishAttempt_same st code).cs, (finishAttempt_same st code).pol]; exact h.2

theorem decideRetry_binv (st : St) (raw : Raw) (h : BInv st) : BInv (st.decideRetry raw).1 := by
  have h2 := finishAttempt_binv st raw.code h
  simp only [St.decideRetry]
  split
  · exact h2
  next a _ =>
    have hf := sr_other_fields (st.finishAttempt raw.code).disableRetry (st.finishAttempt raw.code).pol
      (st.finishAttempt raw.code).cs (attemptView a) 0
    refine ⟨?_, ?_⟩
    · intro x hx; simp only at hx ⊢; rw [hf.1]; exact h2.1 x hx
    · unfold NrBound; simp only; rw [hf.1]; exact h2.2

theorem replayAll_prevsLe (st : St) (h : PrevsLe st) : PrevsLe st.replayAll.1 := by
  unfold St.replayAll
  generalize ([] : List Ev) = evs
  induction st.replay generalizing st evs with
  | nil => exact h
  | cons o r ih =>
    simp only [List.foldl_cons]
    cases o with
    | start =>
      apply ih
      intro x hx
      simp only [St.newAttempt, List.mem_append, List.mem_singleton] at hx ⊢
      rcases hx with hx | hx
      · exact h x hx
      · subst hx; exact le_refl _
    | msg q z =>
      simp only
      split_ifs
      · apply ih; exact write_prevsLe st _ h
      · apply ih; exact write_prevsLe _ _ (write_prevsLe st _ h)
    | half => apply ih; exact write_prevsLe st _ h

/-- what is known about a positive decision for the attempt bound -/
def JB (st : St) (d : Decision) : Prop :=
  d = .transparent ∨ ∃ dur fp rp, d = .backoff dur fp ∧ st.pol = some rp ∧ st.cs.numRetries + 1 < rp.maxAttempts

theorem afterDecision_numRetries (cs : CS) (d : Decision) :
    (afterDecision cs d).numRetries = cs.numRetries ∨
    (∃ dur fp, d = .backoff dur fp ∧ (afterDecision cs d).numRetries = cs.numRetries + 1) := by
  cases d with
  | noRetry => exact Or.inl rfl
  | exhausted => exact Or.inl rfl
  | transparent => exact Or.inl rfl
  | backoff dur fp => exact Or.inr ⟨dur, fp, rfl, rfl⟩

/-- applying the counters of a justified decision keeps the bound -/
theorem nrBound_after (st : St) (d : Decision) (h : BInv st) (hj : JB st d) :
    st.cs.numRetries ≤ (afterDecision st.cs d).numRetries ∧
    0 ≤ (afterDecision st.cs d).numRetries ∧
    ((afterDecision st.cs d).numRetries = 0 ∨ ∃ rp, st.pol = some rp ∧ (afterDecision st.cs d).numRetries + 1 ≤ rp.maxAttempts) := by
  have h0 := h.2.1
  rcases hj with hd | ⟨dur, fp, rp, hd, hp, hlt⟩
  · subst hd
    exact ⟨le_refl _, h0, h.2.2⟩
  · subst hd
    have e : (afterDecision st.cs (Decision.backoff dur fp)).numRetries = st.cs.numRetries + 1 := rfl
    rw [e]
    exact ⟨by omega, by omega, Or.inr ⟨rp, hp, by omega⟩⟩

theorem decideRetry_jb (st : St) (raw : Raw) (hn : (st.decideRetry raw).2 ≠ .noRetry) (he : (st.decideRetry raw).2 ≠ .exhausted) :
    JB (st.decideRetry raw).1 (st.decideRetry raw).2 := by
  rcases decideRetry_spec st raw with ⟨h1, _⟩ | ⟨a, h1, h2, ha⟩
  · exact absurd h1 hn
  · have hf := sr_other_fields st.disableRetry st.pol st.cs (attemptView a) 0
    cases hd : (st.decideRetry raw).2 with
    | noRetry => exact absurd hd hn
    | exhausted => exact absurd hd he
    | transparent => exact Or.inl rfl
    | backoff dur fp =>
      obtain ⟨pb, rp, _, hp, _, hlt⟩ := sr_backoff_conditions st.disableRetry st.pol st.cs (attemptView a) 0 dur fp (by rw [← h1, hd])
      refine Or.inr ⟨dur, fp, rp, rfl, ?_, ?_⟩
      · rw [(decideRetry_frame st raw).pol]; exact hp
      · rw [h2, hf.1]; exact hlt

theorem failStep_binv (st : St) (d : Decision) (c : Nat) (h : BInv st) (hj : JB st d) :
    BInv (st.failStep d c).1 ∧
    ((st.failStep d c).2 ≠ .noRetry → (st.failStep d c).2 ≠ .exhausted → JB (st.failStep d c).1 (st.failStep d c).2) := by
  have hc := failStep_core st d c
  have hf := sr_other_fields st.disableRetry st.pol (afterDecision st.cs d) (noStreamView c) 0
  have hnr : (st.failStep d c).1.cs.numRetries = (afterDecision st.cs d).numRetries := hf.1
  obtain ⟨hle, h0, hb⟩ := nrBound_after st d h hj
  refine ⟨⟨?_, ?_⟩, ?_⟩
  · intro x hx
    rw [hc.atts] at hx
    rw [hnr]
    exact le_trans (h.1 x hx) hle
  · unfold NrBound
    rw [hnr, hc.pol]
    exact ⟨h0, hb⟩
  · intro hn he
    cases hd : (st.failStep d c).2 with
    | noRetry => exact absurd hd hn
    | exhausted => exact absurd hd he
    | transparent => exact Or.inl rfl
    | backoff dur fp =>
      obtain ⟨pb, rp, _, hp, _, hlt⟩ := sr_backoff_conditions st.disableRetry st.pol (afterDecision st.cs d) (noStreamView c) 0 dur fp hd
      refine Or.inr ⟨dur, fp, rp, rfl, ?_, ?_⟩
      · rw [hc.pol]; exact hp
      · rw [hnr]; exact hlt

theorem startRetry_binv (st : St) (d : Decision) (h : BInv st) (hj : JB st d) : BInv (st.startRetry d).1 := by
  obtain ⟨hle, h0, hb⟩ := nrBound_after st d h hj
  have hcs := startRetry_cs st d
  have hpol : (st.startRetry d).1.pol = st.pol := (startRetry_frame st d).pol
  refine ⟨?_, ?_⟩
  · unfold St.startRetry
    apply replayAll_prevsLe
    intro x hx
    simp only at hx ⊢
    exact le_trans (h.1 x hx) hle
  · unfold NrBound
    rw [hcs, hpol]
    exact ⟨h0, hb⟩

theorem withRetry_binv (fuel : Nat) (st : St) (op : COp) (h : BInv st) : BInv (St.withRetry fuel st op).1 := by
  apply withRetry_preserves BInv JB _ _ _ _ _ _ _ _ fuel st op h
  · exact applyOp_binv
  · intro st op h
    cases op <;> simp only [St.onSuccess]
    · exact buffer_binv _ _ _ h
    · exact buffer_binv _ _ _ h
    · exact h
    · exact h
  · exact decideRetry_binv
  · intro st raw _ hn he; exact decideRetry_jb st raw hn he
  · intro st h; exact h
  · intro st d rest h hj; exact ⟨h, hj⟩
  · exact failStep_binv
  · exact startRetry_binv

end GrpcProofs.Lemmas.RetryLoop
