/-
Helper lemmas for C04 (inFlow / trInFlow).  The property theorems are in
GrpcProofs/Properties/C04.lean.
-/
import GrpcModel.Model.InFlow
namespace GrpcProofs.Lemmas.InFlow
open GrpcModel.InFlow GrpcModel.Generated

/-- Invariant of a stream's receive bookkeeping along protocol-conforming histories (stream alive). -/
structure FInv (strict : Bool) (s : State) : Prop where
  alive : s.g.failed = false
  cfg : s.g.cfg = s.f.limit
  ledger : s.g.adv = (s.f.limit : Int) + s.f.delta - ((s.f.pd : Int) + s.f.pu)
  pd : s.f.pd = s.g.outstanding
  delta : s.f.delta ≤ s.g.want
  pu : s.f.pu = 0 ∨ s.f.pu < s.f.limit / 4
  limMax : s.f.limit ≤ 2147483647
  deltaMax : s.f.delta ≤ 2147483647
  sumMax : s.f.limit + s.f.delta ≤ 2147483647 ∨ s.f.limit ≤ 16777216
  strictMax : strict = true → s.f.limit + s.f.delta ≤ 2147483647
  nonneg : 0 ≤ s.g.adv
  infl : ∀ sz p, s.g.inflight = some (sz, p) → p ≤ sz ∧ 0 < sz ∧ sz < 16777216

theorem c_max : fcMaxWindowSize = 2147483647 := rfl
theorem c_bdp : fcBdpLimit = 16777216 := rfl

/-- `onData` without wrap-around: adds to pendingData; errors iff the window is exceeded. -/
theorem onData_spec (f : InFlow) (n : Nat) (h1 : f.pd + f.pu ≤ f.limit + f.delta)
    (h2 : f.limit + f.delta ≤ 2147483647 + 16777216) (hn : n < 16777216) :
    (f.onData n).1 = { f with pd := f.pd + n }
    ∧ ((f.onData n).2 = true ↔ f.pd + n + f.pu > f.limit + f.delta) := by
  unfold InFlow.onData add32
  simp only [W]
  have e1 : (f.pd + n) % 4294967296 = f.pd + n := by omega
  have e2 : (f.pd + n + f.pu) % 4294967296 = f.pd + n + f.pu := by omega
  have e3 : (f.limit + f.delta) % 4294967296 = f.limit + f.delta := by omega
  simp only [e1, e2, e3, decide_eq_true_eq, and_self]

/-- `onRead k` without wrap-around (k ≤ pendingData): the returned increment `w` and the new fields. -/
theorem onRead_spec (f : InFlow) (k : Nat) (hk : k ≤ f.pd) (hpd : f.pd ≤ 2147483647 + 16777216 + 16777216)
    (hpu : f.pu = 0 ∨ f.pu < f.limit / 4) (hl : f.limit ≤ 2147483647) (hd : f.delta ≤ 2147483647) :
    ∃ w pu', (f.onRead k) = ({ f with pd := f.pd - k, delta := f.delta - k, pu := pu' }, w)
      ∧ pu' + w = f.pu + (k - f.delta)
      ∧ (pu' = 0 ∨ (w = 0 ∧ pu' < f.limit / 4)) := by
  unfold InFlow.onRead
  by_cases h0 : f.pd = 0
  · simp only [h0, ↓reduceIte]
    have : k = 0 := by omega
    subst this
    refine ⟨0, f.pu, ?_, by omega, ?_⟩
    · cases f; simp_all
    · rcases hpu with h | h
      · exact Or.inl h
      · exact Or.inr ⟨rfl, h⟩
  · simp only [h0, ↓reduceIte, sub32, add32, W]
    have e1 : (f.pd + 4294967296 - k % 4294967296) % 4294967296 = f.pd - k := by omega
    by_cases hkd : k > f.delta
    · simp only [hkd, ↓reduceIte]
      have e2 : (k + 4294967296 - f.delta % 4294967296) % 4294967296 = k - f.delta := by omega
      have e3 : (f.pu + (k - f.delta)) % 4294967296 = f.pu + (k - f.delta) := by omega
      have e4 : f.delta - k = 0 := by omega
      simp only [e1, e2, e3, e4]
      by_cases hfl : f.pu + (k - f.delta) ≥ f.limit / 4
      · simp only [hfl, ↓reduceIte]
        exact ⟨_, 0, rfl, by omega, Or.inl rfl⟩
      · simp only [hfl, ↓reduceIte]
        exact ⟨0, _, rfl, by omega, Or.inr ⟨rfl, by omega⟩⟩
    · simp only [hkd, ↓reduceIte]
      have e2 : (f.delta + 4294967296 - k % 4294967296) % 4294967296 = f.delta - k := by omega
      have e3 : (f.pu + 0) % 4294967296 = f.pu := by omega
      simp only [e1, e2, e3]
      by_cases hfl : f.pu ≥ f.limit / 4
      · simp only [hfl, ↓reduceIte]
        exact ⟨_, 0, rfl, by omega, Or.inl rfl⟩
      · simp only [hfl, ↓reduceIte]
        exact ⟨0, _, rfl, by omega, Or.inr ⟨rfl, by omega⟩⟩

theorem i32_sub32 (a b : Nat) (ha : a ≤ 2147483647) (hb : b ≤ 2147483647) :
    i32 (sub32 a b) = (a : Int) - b := by
  unfold i32 sub32
  simp only [W]
  by_cases hge : b ≤ a
  · have e : (a + 4294967296 - b % 4294967296) % 4294967296 = a - b := by omega
    have : a - b < 2147483648 := by omega
    simp only [e, this, ↓reduceIte]; omega
  · have e : (a + 4294967296 - b % 4294967296) % 4294967296 = a + 4294967296 - b := by omega
    have : ¬ (a + 4294967296 - b < 2147483648) := by omega
    simp only [e, this, ↓reduceIte]; omega

theorem add32_small (a b : Nat) (h : a + b < 4294967296) : add32 a b = a + b := by
  unfold add32; simp only [W]; omega

theorem sub32_small (a b : Nat) (h : b ≤ a) (ha : a < 4294967296) : sub32 a b = a - b := by
  unfold sub32; simp only [W]; omega

/-- `maybeAdjust n` when no extra window is outstanding (delta = 0) and nothing wraps. -/
theorem maybeAdjust_spec (f : InFlow) (n : Nat)
    (h1 : f.pd + f.pu ≤ f.limit) (hl : f.limit ≤ 2147483647) :
    let n1 := if n > 2147483647 then 2147483647 else n
    let d := if f.limit + n1 > 2147483647 then 2147483647 - f.limit else n1
    ((n1 : Int) - f.pd > (f.limit : Int) - (f.pd + f.pu) →
      f.maybeAdjust n = ({ f with delta := d }, d))
    ∧ (¬ ((n1 : Int) - f.pd > (f.limit : Int) - (f.pd + f.pu)) → f.maybeAdjust n = (f, 0)) := by
  intro n1 d
  have hn1le : n1 ≤ 2147483647 := by
    show (if n > 2147483647 then 2147483647 else n) ≤ 2147483647
    split <;> omega
  unfold InFlow.maybeAdjust
  simp only [maxInt32, c_max]
  have hn1 : (if n > 2147483647 then 2147483647 else n) = n1 := rfl
  simp only [hn1]
  rw [add32_small f.pd f.pu (by omega), i32_sub32 f.limit (f.pd + f.pu) hl (by omega),
    i32_sub32 n1 f.pd hn1le (by omega), add32_small f.limit n1 (by omega),
    sub32_small 2147483647 f.limit hl (by omega)]
  have hd' : (if f.limit + n1 > 2147483647 then 2147483647 - f.limit else n1) = d := rfl
  simp only [hd']
  constructor
  · intro h
    have h' : (n1 : Int) - f.pd > (f.limit : Int) - ((f.pd + f.pu : Nat) : Int) := by omega
    simp only [h', ↓reduceIte]
  · intro h
    have h' : ¬ ((n1 : Int) - f.pd > (f.limit : Int) - ((f.pd + f.pu : Nat) : Int)) := by omega
    simp only [h', ↓reduceIte]

theorem step_eq (s : State) (op : Op) :
    step s op = ({ f := (implStep s.f op).1, g := s.g.next op (implStep s.f op).2 }, (implStep s.f op).2) := rfl

/-- DATA frame: accepted iff it fits the window the peer holds; invariant kept when accepted. -/
theorem step_data (strict : Bool) (s : State) (size : Nat) (pad : Option Nat) (hi : FInv strict s)
    (hl : s.g.legal strict s.f.delta (.data size pad) = true) :
    ((step s (.data size pad)).2 = .accepted ↔ (size : Int) ≤ s.g.adv)
    ∧ ((step s (.data size pad)).2 = .rejected ↔ (size : Int) > s.g.adv)
    ∧ ((step s (.data size pad)).2 = .accepted → FInv strict (step s (.data size pad)).1) := by
  obtain ⟨ha, hc, hled, hpd, hdl, hpu, hlm, hdm, hsm, hst, hnn, hinf⟩ := hi
  simp only [Ghost.legal, Bool.and_eq_true, Bool.not_eq_true', decide_eq_true_eq,
    Option.isNone_iff_eq_none] at hl
  obtain ⟨⟨⟨⟨_, hnone⟩, hpos⟩, hsz⟩, hpad⟩ := hl
  have hsum : s.f.pd + s.f.pu ≤ s.f.limit + s.f.delta := by omega
  have hbound : s.f.limit + s.f.delta ≤ 2147483647 + 16777216 := by omega
  obtain ⟨e1, e2⟩ := onData_spec s.f size hsum hbound hsz
  have hout : (implStep s.f (.data size pad)).2
      = if (s.f.onData size).2 then Out.rejected else Out.accepted := rfl
  have hf : (implStep s.f (.data size pad)).1 = (s.f.onData size).1 := rfl
  have hrej : (s.f.onData size).2 = true ↔ (size : Int) > s.g.adv := by rw [e2, hled]; omega
  rw [step_eq, hout, hf]
  cases hb : (s.f.onData size).2 with
  | true =>
    have := hrej.mp hb
    simp only [↓reduceIte]
    refine ⟨by constructor <;> intro h <;> first | cases h | trivial | omega, by constructor <;> intro _ <;> first | rfl | trivial | omega, by intro h; cases h⟩
  | false =>
    have hle : (size : Int) ≤ s.g.adv := by
      have : ¬ ((size : Int) > s.g.adv) := fun h => by rw [hrej.mpr h] at hb; cases hb
      omega
    simp only [Bool.false_eq_true, ↓reduceIte]
    refine ⟨by constructor <;> intro _ <;> first | rfl | trivial | omega, by constructor <;> intro h <;> first | cases h | trivial | omega, ?_⟩
    intro _
    rw [e1]
    cases pad with
    | none =>
      simp only [Ghost.next]
      refine ⟨ha, hc, ?_, ?_, hdl, hpu, hlm, hdm, hsm, hst, ?_, ?_⟩
      · simp only; rw [hled]; omega
      · simp only [Ghost.outstanding, hnone] at hpd ⊢; omega
      · simp only; omega
      · intro sz p h; simp only [hnone] at h; cases h
    | some p =>
      simp only [Ghost.next]
      refine ⟨ha, hc, ?_, ?_, hdl, hpu, hlm, hdm, hsm, hst, ?_, ?_⟩
      · simp only; rw [hled]; omega
      · simp only [Ghost.outstanding, hnone] at hpd ⊢; omega
      · simp only; omega
      · intro sz p' h
        simp only [Option.some.injEq, Prod.mk.injEq] at h
        obtain ⟨h1, h2⟩ := h
        subst h1; subst h2
        exact ⟨by simpa using hpad, hpos, hsz⟩

/-- the application read k bytes: `onRead(k)` -/
theorem step_read (strict : Bool) (s : State) (k : Nat) (hi : FInv strict s)
    (hl : s.g.legal strict s.f.delta (.read k) = true) :
    ∃ w, (step s (.read k)).2 = .wu w ∧ FInv strict (step s (.read k)).1
      ∧ (step s (.read k)).1.g.adv = s.g.adv + w := by
  obtain ⟨ha, hc, hled, hpd, hdl, hpu, hlm, hdm, hsm, hst, hnn, hinf⟩ := hi
  simp only [Ghost.legal, Bool.and_eq_true, Bool.not_eq_true', decide_eq_true_eq] at hl
  obtain ⟨⟨_, hkw⟩, hka⟩ := hl
  have hkpd : k ≤ s.f.pd := by rw [hpd]; unfold Ghost.outstanding; omega
  have hpdb : s.f.pd ≤ 2147483647 + 16777216 + 16777216 := by omega
  obtain ⟨w, pu', e, hsum, hpu'⟩ := onRead_spec s.f k hkpd hpdb hpu hlm hdm
  have hout : (implStep s.f (.read k)) = ((s.f.onRead k).1, .wu (s.f.onRead k).2) := rfl
  rw [step_eq, hout, e]
  refine ⟨w, rfl, ?_, rfl⟩
  simp only [Ghost.next]
  refine ⟨ha, hc, ?_, ?_, ?_, ?_, hlm, ?_, ?_, ?_, ?_, hinf⟩
  · simp only; rw [hled]; omega
  · simp only [Ghost.outstanding] at hpd ⊢; omega
  · simp only; omega
  · simp only; rcases hpu' with h | ⟨_, h⟩
    · exact Or.inl h
    · exact Or.inr h
  · simp only; omega
  · simp only; rcases hsm with h | h
    · left; omega
    · right; exact h
  · intro hs; have := hst hs; simp only; omega
  · simp only; omega

/-- padding of a padded frame is given back: `onRead(size - dataLen)` -/
theorem step_pad (strict : Bool) (s : State) (p : Nat) (hi : FInv strict s)
    (hl : s.g.legal strict s.f.delta (.pad p) = true) :
    ∃ w, (step s (.pad p)).2 = .wu w ∧ FInv strict (step s (.pad p)).1
      ∧ (step s (.pad p)).1.g.adv = s.g.adv + w := by
  obtain ⟨ha, hc, hled, hpd, hdl, hpu, hlm, hdm, hsm, hst, hnn, hinf⟩ := hi
  simp only [Ghost.legal, Bool.and_eq_true, Bool.not_eq_true'] at hl
  obtain ⟨_, hfl⟩ := hl
  cases hin : s.g.inflight with
  | none => rw [hin] at hfl; cases hfl
  | some sp =>
    obtain ⟨sz, p'⟩ := sp
    rw [hin] at hfl
    simp only [decide_eq_true_eq] at hfl
    subst hfl
    obtain ⟨hple, hpos, hszb⟩ := hinf sz p hin
    have hkpd : p ≤ s.f.pd := by rw [hpd]; unfold Ghost.outstanding; rw [hin]; simp only; omega
    have hpdb : s.f.pd ≤ 2147483647 + 16777216 + 16777216 := by omega
    obtain ⟨w, pu', e, hsum, hpu'⟩ := onRead_spec s.f p hkpd hpdb hpu hlm hdm
    have hout : (implStep s.f (.pad p)) = ((s.f.onRead p).1, .wu (s.f.onRead p).2) := rfl
    rw [step_eq, hout, e]
    have hnext : s.g.next (.pad p) (.wu w)
        = { s.g with adv := s.g.adv + w, avail := s.g.avail + (sz - p), inflight := none } := by
      simp only [Ghost.next, hin]
    rw [hnext]
    refine ⟨w, rfl, ?_, rfl⟩
    refine ⟨ha, hc, ?_, ?_, ?_, ?_, hlm, ?_, ?_, ?_, ?_, ?_⟩
    · simp only; rw [hled]; omega
    · simp only [Ghost.outstanding, hin] at hpd ⊢; omega
    · simp only; omega
    · simp only; rcases hpu' with h | ⟨_, h⟩
      · exact Or.inl h
      · exact Or.inr h
    · simp only; omega
    · simp only; rcases hsm with h | h
      · left; omega
      · right; exact h
    · intro hs; have := hst hs; simp only; omega
    · simp only; omega
    · intro a b h; cases h

/-- a BDP update raises the limit (and the peer's window through SETTINGS) -/
theorem step_bdp (strict : Bool) (s : State) (n : Nat) (hi : FInv strict s)
    (hl : s.g.legal strict s.f.delta (.bdp n) = true) :
    (step s (.bdp n)).2 = .done ∧ FInv strict (step s (.bdp n)).1
      ∧ (step s (.bdp n)).1.g.adv = s.g.adv + ((n : Int) - s.g.cfg) := by
  obtain ⟨ha, hc, hled, hpd, hdl, hpu, hlm, hdm, hsm, hst, hnn, hinf⟩ := hi
  simp only [Ghost.legal, Bool.and_eq_true, Bool.not_eq_true', decide_eq_true_eq, c_bdp, c_max,
    Bool.or_eq_true] at hl
  obtain ⟨⟨⟨_, hge⟩, hle⟩, hs⟩ := hl
  have hle : n ≤ 16777216 := of_decide_eq_true hle
  refine ⟨rfl, ?_, rfl⟩
  rw [step_eq]
  show FInv strict { f := s.f.newLimit n, g := s.g.next (.bdp n) .done }
  simp only [InFlow.newLimit, Ghost.next]
  refine ⟨ha, rfl, ?_, hpd, hdl, ?_, ?_, hdm, Or.inr hle, ?_, ?_, hinf⟩
  · simp only; rw [hled, hc]; omega
  · simp only; rcases hpu with h | h
    · exact Or.inl h
    · right; rw [hc] at hge; omega
  · simp only; omega
  · intro hst'; simp only; rcases hs with h | h
    · rw [hst'] at h; cases h
    · exact of_decide_eq_true h
  · simp only; rw [hc] at hge ⊢; omega

/-- a new read request: `maybeAdjust(uint32(n))`; a read larger than the window is granted -/
theorem step_req (strict : Bool) (s : State) (n : Nat) (hi : FInv strict s)
    (hl : s.g.legal strict s.f.delta (.req n) = true) :
    ∃ w, (step s (.req n)).2 = .wu w ∧ FInv strict (step s (.req n)).1
      ∧ (step s (.req n)).1.g.adv = s.g.adv + w
      ∧ ((step s (.req n)).1.g.adv ≥ ((if n > 2147483647 then 2147483647 else n : Nat) : Int) - s.f.pd
          ∨ s.f.limit + w = 2147483647)
      ∧ (step s (.req n)).1.f.delta = w ∧ (step s (.req n)).1.f.limit = s.f.limit := by
  obtain ⟨ha, hc, hled, hpd, hdl, hpu, hlm, hdm, hsm, hst, hnn, hinf⟩ := hi
  simp only [Ghost.legal, Bool.and_eq_true, Bool.not_eq_true', decide_eq_true_eq] at hl
  obtain ⟨⟨_, hw0⟩, hnW⟩ := hl
  have hd0 : s.f.delta = 0 := by omega
  have hsum : s.f.pd + s.f.pu ≤ s.f.limit := by omega
  have hmod : n % W = n := Nat.mod_eq_of_lt hnW
  obtain ⟨hyes, hno⟩ := maybeAdjust_spec s.f n hsum hlm
  have hout : (implStep s.f (.req n)) = ((s.f.maybeAdjust (n % W)).1, .wu (s.f.maybeAdjust (n % W)).2) := by simp only [implStep]
  rw [step_eq, hout, hmod]
  have hn1le : (if n > 2147483647 then 2147483647 else n) ≤ 2147483647 := by split <;> omega
  have hn1n : (if n > 2147483647 then 2147483647 else n) ≤ n := by split <;> omega
  clear hmod hout hnW
  generalize (if n > 2147483647 then 2147483647 else n) = n1 at *
  by_cases htrig : ((n1 : Int) - s.f.pd > (s.f.limit : Int) - (s.f.pd + s.f.pu))
  · rw [hyes htrig]
    by_cases hcl : s.f.limit + n1 > 2147483647
    · simp only [hcl, ↓reduceIte, Ghost.next]
      refine ⟨_, rfl, ⟨ha, hc, ?_, hpd, ?_, hpu, hlm, ?_, ?_, ?_, ?_, hinf⟩, rfl, ?_, ?_⟩
      · simp only; rw [hled, hd0]; omega
      · simp only; omega
      · simp only; omega
      · simp only; left; omega
      · intro _; simp only; omega
      · simp only; omega
      · right; omega
      · exact ⟨by first | rfl | trivial, by first | rfl | trivial⟩
    · simp only [hcl, ↓reduceIte, Ghost.next]
      refine ⟨_, rfl, ⟨ha, hc, ?_, hpd, ?_, hpu, hlm, ?_, ?_, ?_, ?_, hinf⟩, rfl, ?_, ?_⟩
      · simp only; rw [hled, hd0]; omega
      · simp only; omega
      · simp only; omega
      · simp only; left; omega
      · intro _; simp only; omega
      · simp only; omega
      · left; omega
      · exact ⟨by first | rfl | trivial, by first | rfl | trivial⟩
  · rw [hno htrig]
    simp only [Ghost.next]
    refine ⟨0, rfl, ⟨ha, hc, ?_, hpd, ?_, hpu, hlm, hdm, hsm, hst, ?_, hinf⟩, rfl, ?_, ?_⟩
    · simp only; rw [hled]; omega
    · simp only; omega
    · simp only; omega
    · left; rw [hled, hd0]; omega
    · exact ⟨by first | exact hd0 | trivial, by first | rfl | trivial⟩

theorem run_nil (s : State) : run s [] = (s, []) := rfl
theorem run_cons (s : State) (o : Op) (os : List Op) :
    run s (o :: os) = ((run (step s o).1 os).1, (step s o).2 :: (run (step s o).1 os).2) := rfl

theorem run_append (s : State) (a b : List Op) :
    run s (a ++ b) = ((run (run s a).1 b).1, (run s a).2 ++ (run (run s a).1 b).2) := by
  induction a generalizing s with
  | nil => rfl
  | cons o os ih => simp only [List.cons_append, run_cons, ih]

theorem legalRun_append (strict : Bool) (s : State) (a b : List Op) :
    legalRun strict s (a ++ b) = (legalRun strict s a && legalRun strict (run s a).1 b) := by
  induction a generalizing s with
  | nil => simp [legalRun, run_nil]
  | cons o os ih => simp only [List.cons_append, legalRun, ih, run_cons, Bool.and_assoc]

theorem finv_init (strict : Bool) (l : Nat) (hl : l ≤ 2147483647) : FInv strict (State.init l) := by
  refine ⟨rfl, rfl, ?_, rfl, Nat.le_refl _, Or.inl rfl, hl, by simp [State.init], ?_, ?_, ?_, ?_⟩
  · simp [State.init, Ghost.init]
  · left; simp [State.init]; exact hl
  · intro _; simp [State.init]; exact hl
  · simp [State.init, Ghost.init]
  · intro sz p h; cases h

/-- one legal step from a live state: either the frame is rejected (stream gone) or the invariant holds again -/
theorem step_inv (strict : Bool) (s : State) (op : Op) (hi : FInv strict s)
    (hl : s.g.legal strict s.f.delta op = true) :
    (step s op).2 = .rejected ∨ FInv strict (step s op).1 := by
  cases op with
  | data size pad =>
    obtain ⟨h1, h2, h3⟩ := step_data strict s size pad hi hl
    by_cases h : (size : Int) ≤ s.g.adv
    · exact Or.inr (h3 (h1.mpr h))
    · exact Or.inl (h2.mpr (by omega))
  | pad p => obtain ⟨w, _, h, _⟩ := step_pad strict s p hi hl; exact Or.inr h
  | req n => obtain ⟨w, _, h, _⟩ := step_req strict s n hi hl; exact Or.inr h
  | read k => obtain ⟨w, _, h, _⟩ := step_read strict s k hi hl; exact Or.inr h
  | bdp n => exact Or.inr (step_bdp strict s n hi hl).2.1

/-- after a rejection the stream is marked failed and nothing is legal any more -/
theorem rejected_failed (s : State) (op : Op) (h : (step s op).2 = .rejected) :
    (step s op).1.g.failed = true := by
  cases op with
  | data size pad =>
    rw [step_eq] at h ⊢
    simp only at h ⊢
    rw [h]; rfl
  | pad p => rw [step_eq] at h; simp only [implStep] at h; cases h
  | req n => rw [step_eq] at h; simp only [implStep] at h; cases h
  | read k => rw [step_eq] at h; simp only [implStep] at h; cases h
  | bdp n => rw [step_eq] at h; simp only [implStep] at h; cases h

theorem failed_not_legal (strict : Bool) (g : Ghost) (d : Nat) (op : Op) (h : g.failed = true) :
    g.legal strict d op = false := by
  cases op <;> simp [Ghost.legal, h]

/-- Along every legal history from a fresh stream: the invariant holds as long as no frame has been
    rejected (and a rejection can only be the last step). -/
theorem run_inv (strict : Bool) (s : State) (ops : List Op) (hi : FInv strict s)
    (hl : legalRun strict s ops = true) :
    FInv strict (run s ops).1 ∨ (run s ops).1.g.failed = true := by
  induction ops generalizing s with
  | nil => exact Or.inl hi
  | cons o os ih =>
    simp only [legalRun, Bool.and_eq_true] at hl
    rw [run_cons]
    rcases step_inv strict s o hi hl.1 with hrej | hinv
    · have hf := rejected_failed s o hrej
      cases os with
      | nil => exact Or.inr hf
      | cons o2 os2 =>
        have := hl.2
        simp only [legalRun, Bool.and_eq_true] at this
        rw [failed_not_legal strict _ _ o2 hf] at this
        exact absurd this.1 (by simp)
    · exact ih _ hinv hl.2

/-- what the (strict) invariant says about the window the peer holds -/
theorem finv_window (s : State) (hi : FInv true s) :
    s.g.adv ≤ 2147483647 ∧ 0 ≤ s.g.adv
    ∧ (s.f.pd = 0 → (s.g.adv ≥ (s.f.limit : Int) ∨ s.g.adv + ((s.f.limit / 4 : Nat) : Int) > (s.f.limit : Int))
        ∧ (s.f.limit = 0 ∨ s.g.adv > 0)) := by
  obtain ⟨ha, hc, hled, hpd, hdl, hpu, hlm, hdm, hsm, hst, hnn, hinf⟩ := hi
  have hs := hst rfl
  refine ⟨by omega, by omega, ?_⟩
  intro hpd0
  refine ⟨by rcases hpu with h | h <;> first | (left; omega) | (right; omega), ?_⟩
  by_cases hz : s.f.limit = 0
  · exact Or.inl hz
  · right; omega

theorem finv_windowErr (s : State) (hi : FInv true s) : s.g.windowErr = none := by
  obtain ⟨h1, h2, h3⟩ := finv_window s hi
  have hc := hi.cfg
  have hpd := hi.pd
  unfold Ghost.windowErr
  have e1 : ¬ (s.g.adv > (maxInt32 : Int)) := by simp only [maxInt32]; omega
  have e2 : ¬ (s.g.adv < 0) := by omega
  simp only [e1, e2, ↓reduceIte]
  by_cases h0 : s.g.outstanding = 0
  · obtain ⟨a, b⟩ := h3 (by omega)
    have hr : s.g.restored = true := by
      unfold Ghost.restored
      rw [hc]
      simp only [Bool.and_eq_true, Bool.or_eq_true, decide_eq_true_eq]
      exact ⟨a, b⟩
    simp [h0, hr]
  · simp [h0]

/-- the model's answer to a legal op from a (strict) invariant state satisfies the property predicate -/
theorem step_verdict (s : State) (op : Op) (hi : FInv true s)
    (hl : s.g.legal true s.f.delta op = true) : s.g.verdict op (step s op).2 = .ok () := by
  cases op with
  | data size pad =>
    obtain ⟨h1, h2, _⟩ := step_data true s size pad hi hl
    by_cases h : (size : Int) ≤ s.g.adv
    · rw [h1.mpr h]; simp only [Ghost.verdict]
      have : ¬ ((size : Int) > s.g.adv) := by omega
      simp only [this, ↓reduceIte]
    · rw [h2.mpr (by omega)]; simp only [Ghost.verdict, h, ↓reduceIte]
  | pad p =>
    obtain ⟨w, ho, hinv, _⟩ := step_pad true s p hi hl
    have he := finv_windowErr _ hinv
    rw [step_eq] at he; simp only at he
    rw [step_eq] at ho; simp only at ho
    rw [ho] at he
    rw [step_eq]; simp only; rw [ho]
    simp only [Ghost.verdict, he]
  | read k =>
    obtain ⟨w, ho, hinv, _⟩ := step_read true s k hi hl
    have he := finv_windowErr _ hinv
    rw [step_eq] at he; simp only at he
    rw [step_eq] at ho; simp only at ho
    rw [ho] at he
    rw [step_eq]; simp only; rw [ho]
    simp only [Ghost.verdict, he]
  | bdp n =>
    obtain ⟨ho, hinv, _⟩ := step_bdp true s n hi hl
    have he := finv_windowErr _ hinv
    rw [step_eq] at he; simp only at he
    rw [step_eq] at ho; simp only at ho
    rw [ho] at he
    rw [step_eq]; simp only; rw [ho]
    simp only [Ghost.verdict, he]
  | req n =>
    obtain ⟨w, ho, hinv, hadv, hgr, _, _⟩ := step_req true s n hi hl
    have he := finv_windowErr _ hinv
    rw [step_eq] at he hgr; simp only at he hgr
    rw [step_eq] at ho; simp only at ho
    rw [ho] at he hgr
    rw [step_eq]; simp only; rw [ho]
    have hg : s.g.readGranted (s.g.next (.req n) (.wu w)) n w = true := by
      unfold Ghost.readGranted
      simp only [Bool.or_eq_true, decide_eq_true_eq, maxInt32]
      rw [hi.cfg, ← hi.pd]
      exact hgr
    simp only [Ghost.verdict, he, hg, ↓reduceIte]

/-! ### connection level -/

structure TInv (s : TState) : Prop where
  limMax : s.f.limit ≤ 2147483647
  un : s.f.unacked = 0 ∨ s.f.unacked < s.f.limit / 4
  ledger : s.adv = (s.f.limit : Int) - s.f.unacked

theorem tinv_init (l : Nat) (h : l ≤ 2147483647) : TInv (TState.init l) :=
  ⟨h, Or.inl rfl, by simp [TState.init]⟩

theorem tstep_inv (s : TState) (op : TOp) (hi : TInv s) (hl : s.legal op = true) :
    TInv (tstep s op).1 := by
  obtain ⟨hlm, hun, hled⟩ := hi
  cases op with
  | data n =>
    simp only [TState.legal, Bool.and_eq_true, decide_eq_true_eq] at hl
    obtain ⟨hn, hsz⟩ := hl
    have hsum : s.f.unacked + n ≤ s.f.limit := by omega
    simp only [tstep, TrInFlow.onData, TrInFlow.reset, TrInFlow.updateEws]
    rw [add32_small s.f.unacked n (by omega)]
    by_cases hq : s.f.unacked + n < s.f.limit / 4
    · simp only [hq, ↓reduceIte]
      exact ⟨hlm, Or.inr hq, by simp only; omega⟩
    · simp only [hq, ↓reduceIte]
      exact ⟨hlm, Or.inl rfl, by simp only; omega⟩
  | reset =>
    simp only [tstep, TrInFlow.reset, TrInFlow.updateEws]
    exact ⟨hlm, Or.inl rfl, by simp only; omega⟩
  | bdp n =>
    simp only [TState.legal, Bool.and_eq_true, decide_eq_true_eq, c_bdp] at hl
    obtain ⟨hge, hle⟩ := hl
    have hle : n ≤ 16777216 := of_decide_eq_true hle
    simp only [tstep, TrInFlow.newLimit, TrInFlow.updateEws]
    rw [sub32_small n s.f.limit hge (by omega)]
    refine ⟨by simp only; omega, ?_, by simp only; omega⟩
    simp only
    rcases hun with h | h
    · exact Or.inl h
    · right; omega

theorem trun_inv (s : TState) (ops : List TOp) (hi : TInv s) (hl : tlegalRun s ops = true) :
    TInv (trun s ops) := by
  induction ops generalizing s with
  | nil => exact hi
  | cons o os ih =>
    simp only [tlegalRun, Bool.and_eq_true] at hl
    exact ih _ (tstep_inv s o hi hl.1) hl.2

end GrpcProofs.Lemmas.InFlow
