import GrpcModel.Model.WriteQuota
/-! Helper lemmas for C17 (writeQuota): reachable-state invariant and coupling with the monitor. -/
namespace GrpcProofs.Lemmas.WriteQuota
open GrpcModel.WriteQuota

/-- Invariant of every reachable state, for every interleaving (single getter). -/
structure Inv (s : St) : Prop where
  subPos : ∀ sz, s.gpc = .sub sz → s.quota > 0
  waitSig : ∀ sz, s.gpc = .wait sz → s.quota > 0 → s.token = true ∨ s.pend > 0

theorem inv_init (sz : Nat) : Inv (init sz) := by
  constructor <;> simp [init]

theorem step_inv (s : St) (o : Op) (h : Inv s) : Inv (step s o).1 := by
  obtain ⟨quota, token, done, gpc, pend⟩ := s
  obtain ⟨h1, h2⟩ := h
  simp only at h1 h2
  cases o
  case get sz => cases gpc <;> (constructor <;> simp_all [step])
  case gstep =>
    cases gpc
    case idle => constructor <;> simp_all [step]
    case check sz =>
      by_cases hq : quota > 0
      · constructor <;> simp [step, hq]
      · constructor <;> simp [step, hq]
    case sub sz => constructor <;> simp_all [step]
    case wait sz =>
      cases token <;> cases done <;> (constructor <;> simp_all [step])
  case gdone =>
    cases gpc <;> cases done <;> (constructor <;> simp_all [step])
  case repl n =>
    by_cases hc : quota ≤ 0 ∧ quota + (n : Int) > 0
    · constructor <;> simp_all [step]
    · constructor <;> simp [step, hc]
      · intro sz hsz; have := h1 sz hsz; omega
      · intro sz hsz hq
        have hpos : quota > 0 := by
          apply Classical.byContradiction
          intro hn
          exact hc ⟨by omega, hq⟩
        exact h2 sz hsz hpos
  case sig =>
    by_cases hp : pend > 0
    · constructor <;> simp_all [step]
    · constructor <;> simp_all [step]
  case closeDone => constructor <;> simp_all [step]

theorem run_inv (ops : List Op) (s : St) (h : Inv s) : Inv (run s ops).1 := by
  induction ops generalizing s with
  | nil => simpa [run]
  | cons o os ih => simpa [run] using ih _ (step_inv s o h)

/-- A stuck getter means the quota is exhausted. -/
theorem stuck_exhausted (s : St) (h : Inv s) (hs : stuck s = true) : s.quota ≤ 0 ∧ s.done = false := by
  obtain ⟨quota, token, done, gpc, pend⟩ := s
  obtain ⟨h1, h2⟩ := h
  simp only at h1 h2
  cases gpc <;> simp [stuck] at hs
  case wait sz =>
    obtain ⟨⟨ht, hd⟩, hp⟩ := hs
    refine ⟨?_, hd⟩
    apply Classical.byContradiction
    intro hn
    simp only at hn
    have := h2 sz rfl (by omega)
    simp [ht, hp] at this

def MC (s : St) (m : Mon) : Prop := m.quota = s.quota ∧ m.doneSeen = s.done

theorem mc_init (sz : Nat) : MC (init sz) (Mon.init sz) := by simp [MC, init, Mon.init]

theorem step_mc (s : St) (m : Mon) (o : Op) (h : Inv s) (hm : MC s m) :
    MC (step s o).1 (Mon.step m o (step s o).2).1 ∧ ∀ c, (Mon.step m o (step s o).2).2 ≠ .viol c := by
  obtain ⟨quota, token, done, gpc, pend⟩ := s
  obtain ⟨mq, md⟩ := m
  obtain ⟨h1, h2⟩ := h
  obtain ⟨m1, m2⟩ := hm
  simp only at h1 h2 m1 m2
  subst m1 m2
  cases o
  case get sz => cases gpc <;> simp [step, Mon.step, MC]
  case gstep =>
    cases gpc
    case idle => simp [step, Mon.step, MC]
    case check sz => by_cases hq : mq > 0 <;> simp [step, Mon.step, MC, hq]
    case sub sz =>
      have := h1 sz rfl
      simp [step, Mon.step, MC, this]
    case wait sz => cases token <;> cases md <;> simp [step, Mon.step, MC]
  case gdone => cases gpc <;> cases md <;> simp [step, Mon.step, MC]
  case repl n =>
    by_cases hc : mq ≤ 0 ∧ mq + (n : Int) > 0 <;> simp [step, Mon.step, MC, hc]
  case sig => by_cases hp : pend > 0 <;> simp [step, Mon.step, MC, hp]
  case closeDone => simp [step, Mon.step, MC]

theorem verdicts_ok (ops : List Op) (s : St) (m : Mon) (h : Inv s) (hm : MC s m) :
    ∀ v ∈ verdicts s m ops, ∀ c, v ≠ .viol c := by
  induction ops generalizing s m with
  | nil => simp [verdicts]
  | cons o os ih =>
    obtain ⟨s1, s2⟩ := step_mc s m o h hm
    have hi := step_inv s o h
    intro v hv
    simp only [verdicts, List.mem_cons] at hv
    rcases hv with rfl | rfl | rfl | hv
    · exact s2
    · intro c
      simp only [Mon.quiescent]
      cases hst : stuck (step s o).1
      · simp
      · obtain ⟨e1, e2⟩ := stuck_exhausted _ hi hst
        obtain ⟨c1, c2⟩ := s1
        have hle : ¬ (Mon.step m o (step s o).2).1.quota > 0 := by rw [c1]; omega
        simp [c2, e2, hle]
    · intro c
      obtain ⟨c1, c2⟩ := s1
      simp [Mon.ledger, c1]
    · exact ih _ _ hi s1 v hv

/-- Ledger: quota = initial − granted + replenished, along every trace. -/
theorem step_ledger (s : St) (o : Op) :
    (step s o).1.quota = s.quota - grantedSum [(o, (step s o).2)] + replSum [(o, (step s o).2)] := by
  obtain ⟨quota, token, done, gpc, pend⟩ := s
  cases o
  case get sz => cases gpc <;> simp [step, grantedSum, replSum]
  case gstep =>
    cases gpc
    case idle => simp [step, grantedSum, replSum]
    case check sz => by_cases hq : quota > 0 <;> simp [step, grantedSum, replSum, hq]
    case sub sz => simp [step, grantedSum, replSum]
    case wait sz => cases token <;> cases done <;> simp [step, grantedSum, replSum]
  case gdone => cases gpc <;> cases done <;> simp [step, grantedSum, replSum]
  case repl n => by_cases hc : quota ≤ 0 ∧ quota + (n : Int) > 0 <;> simp [step, grantedSum, replSum, hc]
  case sig => by_cases hp : pend > 0 <;> simp [step, grantedSum, replSum, hp]
  case closeDone => simp [step, grantedSum, replSum]

theorem grantedSum_cons (x : Op × Out) (t : List (Op × Out)) : grantedSum (x :: t) = grantedSum [x] + grantedSum t := by
  obtain ⟨o, out⟩ := x
  cases out <;> simp [grantedSum]

theorem replSum_cons (x : Op × Out) (t : List (Op × Out)) : replSum (x :: t) = replSum [x] + replSum t := by
  obtain ⟨o, out⟩ := x
  cases o <;> simp [replSum]

theorem run_ledger (ops : List Op) (s : St) :
    (run s ops).1.quota = s.quota - grantedSum (run s ops).2 + replSum (run s ops).2 := by
  induction ops generalizing s with
  | nil => simp [run, grantedSum, replSum]
  | cons o os ih =>
    have e0 := ih (step s o).1
    have e1 := step_ledger s o
    have e2 := grantedSum_cons (o, (step s o).2) (run (step s o).1 os).2
    have e3 := replSum_cons (o, (step s o).2) (run (step s o).1 os).2
    simp only [run]
    omega

end GrpcProofs.Lemmas.WriteQuota
