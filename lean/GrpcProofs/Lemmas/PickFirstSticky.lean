/-
Helper lemmas for C34: sticky TRANSIENT_FAILURE, for histories without a non-empty resolver update
while in TRANSIENT_FAILURE (with such an update it fails: F13).
-/
import GrpcProofs.Lemmas.PickFirstReady
namespace GrpcProofs.Lemmas.PickFirstSticky
open GrpcModel.PickFirst GrpcProofs.Lemmas.PickFirst GrpcProofs.Lemmas.PickFirstReady
open GrpcModel.LbConnState (ConnState)

/-- "in TRANSIENT_FAILURE because every address failed": the first pass is over, TRANSIENT_FAILURE
    is the reported state, no SubConn is READY -/
structure InTF (s : St) : Prop where
  wf : WF s
  state : s.state = .tf
  firstPass : s.firstPass = false
  noReady : NoReady s

/-- every state report in `evs` is TRANSIENT_FAILURE -/
def AllTF (evs : List Ev) : Prop := ∀ st p, Ev.push st p ∈ evs → st = .tf

theorem allTF_of_onlyTF {evs : List Ev} (h : OnlyTF evs) : AllTF evs := fun st p hm => (h st p hm).1
theorem allTF_nil : AllTF [] := by intro st p h; simp at h

theorem requestLoop_firstPass (fuel : Nat) (s : St) (ev : List Ev) :
    (requestLoop fuel s ev).1.firstPass = s.firstPass ∨ (requestLoop fuel s ev).1.firstPass = false := by
  induction fuel generalizing s ev with
  | zero => left; rfl
  | succ fuel ih =>
    simp only [requestLoop]
    cases hcur : currentAddress s with
    | none => left; rfl
    | some cur =>
      simp only
      have he : (ensureSC s cur).1.firstPass = s.firstPass := by
        unfold ensureSC; cases getSC s cur <;> simp [setSC]
      generalize ensureSC s cur = r at he ⊢
      cases hraw : r.2.1.raw with
      | idle => simp only; left; rw [schedule_eq]; exact he
      | connecting => simp only; left; rw [schedule_eq]; exact he
      | ready => simp only; left; exact he
      | shutdown => simp only; left; exact he
      | tf =>
        simp only
        have hf : (increment (setSC r.1 r.2.1.markFailed)).1.firstPass = s.firstPass := by
          rw [(increment_frame _).2.2.2.2.2.2.2.2.2.1, (setSC_frame _ _).2.2.2.2.2.2.2.1, he]
        split
        · rcases ih (increment (setSC r.1 r.2.1.markFailed)).1 (ev ++ r.2.2) with h | h
          · left; rw [h, hf]
          · right; exact h
        · unfold endFirstPass
          split
          · left; exact hf
          · split
            · left; exact hf
            · right; rw [(pushState_frame _ _ _).2.2.2.2.1]

theorem inTF_requestConnection (s : St) (h : InTF s) :
    InTF (requestConnection s).1 ∧ AllTF (requestConnection s).2 := by
  obtain ⟨r1, r2⟩ := requestConnection_post s h.wf
  have hm := requestConnection_mapPost s h.wf
  refine ⟨⟨r1.wf, ?_, ?_, ?_⟩, allTF_of_onlyTF r2⟩
  · rcases r1.state with e | e
    · rw [e]; exact h.state
    · exact e
  · unfold requestConnection
    split
    · exact h.firstPass
    · rcases requestLoop_firstPass (s.addrs.length + 1) s [] with e | e
      · rw [e]; exact h.firstPass
      · exact e
  · intro sc hsc hr
    obtain ⟨sc0, h0, r0⟩ := hm.raws sc hsc hr
    exact h.noReady sc0 h0 r0

/-- ops that may end the sticky period (a SubConn became READY, or connected and dropped) or that the
    partial statement excludes (a non-empty resolver update: F13) -/
def excluded (s : St) : Op → Bool
  | .update _ raw => !raw.isEmpty
  | .sc id st _ => match activeSC s id with
    | some sd => st == .ready || (sd.raw == .connecting && st == .idle)
    | none => false
  | _ => false

theorem inTF_step (s : St) (op : Op) (h : InTF s) (hok : opOk s op = true) (hex : excluded s op = false) :
    AllTF (step s op).2.evs ∧ (op ≠ .close → InTF (step s op).1) := by
  cases op with
  | update hl raw =>
    have hraw : raw.isEmpty = true := by simpa [excluded] using hex
    simp only [step, updateCCS, hraw, if_true]
    simp only [updateEmpty, closeSubConns, cancelTimer]
    obtain ⟨e1, e2, e3, e4⟩ := resolverError_of_empty ({ s with timer := false, subConns := [], addrs := [], idx := 0, sticky := false, passLog := [], passSerial := s.passSerial + 1 } : St) rfl
    refine ⟨?_, fun _ => ⟨⟨by rw [e3]; simp, by intro sc hsc; rw [e3] at hsc; simp at hsc, by rw [e3]; simp⟩, e1, ?_, ?_⟩⟩
    · intro st p hm
      rcases List.mem_append.mp hm with hm | hm
      · simp at hm
      · simp only [resolverError, pushState, forcePush] at hm
        split at hm
        · simp at hm
        · split at hm
          · simp at hm
          · simp only [List.mem_singleton, Ev.push.injEq] at hm; exact hm.1
    · simp only [resolverError, pushState, forcePush]
      split
      · exact h.firstPass
      · split <;> exact h.firstPass
    · intro sc hsc; rw [e3] at hsc; simp at hsc
  | resErr =>
    simp only [step, resolverError]
    have hc : ¬ (s.state ≠ .tf ∧ s.addrs.length > 0) := by rw [h.state]; simp
    rw [if_neg hc]
    obtain ⟨a, b, _, _, e, _⟩ := pushState_frame s .tf .resErr
    refine ⟨?_, fun _ => ⟨wf_congr s _ h.wf a b, pushState_state _ _ _, by rw [e]; exact h.firstPass,
      fun sc hsc => h.noReady sc (a ▸ hsc)⟩⟩
    intro st p hm
    simp only [pushState, forcePush] at hm
    split at hm
    · simp at hm
    · simp only [List.mem_singleton, Ev.push.injEq] at hm; exact hm.1
  | sc id st err =>
    simp only [step, scState]
    cases ha : activeSC s id with
    | none => exact ⟨allTF_nil, fun _ => h⟩
    | some sd0 =>
      simp only
      obtain ⟨hm0, _⟩ := activeSC_mem s id sd0 ha
      have hnr0 := h.noReady sd0 hm0
      simp only [excluded, ha, Bool.or_eq_false_iff, Bool.and_eq_false_iff, beq_eq_false_iff_ne, ne_eq] at hex
      have hok' : st ≠ .shutdown := by
        simp only [opOk, ha, Option.isNone_some, Bool.or_false, Bool.and_eq_true, bne_iff_ne, ne_eq] at hok
        exact hok.2
      simp only [hok', if_false, hex.1, hnr0, false_or]
      have hnot : ¬ (sd0.raw = .connecting ∧ st = .idle) := by
        intro hc; rcases hex.2 with h1 | h1
        · exact h1 hc.1
        · exact h1 hc.2
      simp only [hnot, if_false]
      have hfp : (setSC s (sd0.withRaw st)).firstPass = false := by rw [(setSC_frame _ _).2.2.2.2.2.2.2.1]; exact h.firstPass
      simp only [hfp, Bool.false_eq_true, if_false]
      -- after the first pass: keep re-connecting
      have hw1 := wf_setSC_replace s sd0 (sd0.withRaw st) h.wf hm0 rfl rfl
      have hm1 : sd0.withRaw st ∈ (setSC s (sd0.withRaw st)).subConns := by
        rw [mem_setSC_replace s sd0 (sd0.withRaw st) h.wf hm0 rfl rfl]; exact Or.inl rfl
      have hin1 : InTF (setSC s (sd0.withRaw st)) := by
        refine ⟨hw1, by rw [(setSC_frame _ _).2.2.2.2.1]; exact h.state, hfp, ?_⟩
        exact noReady_setSC s sd0 (sd0.withRaw st) h.wf hm0 rfl rfl h.noReady hex.1
      cases st with
      | tf =>
        simp only [scLater]
        have hin2 : InTF (setSC { setSC s (sd0.withRaw .tf) with numTF := ((setSC s (sd0.withRaw .tf)).numTF + 1) % (setSC s (sd0.withRaw .tf)).subConns.length } { sd0.withRaw .tf with lastErr := err }) := by
          have hw0 : WF ({ setSC s (sd0.withRaw .tf) with numTF := ((setSC s (sd0.withRaw .tf)).numTF + 1) % (setSC s (sd0.withRaw .tf)).subConns.length } : St) := wf_congr _ _ hw1 rfl rfl
          refine ⟨wf_setSC_replace _ (sd0.withRaw .tf) _ hw0 hm1 rfl rfl, ?_, ?_, ?_⟩
          · rw [(setSC_frame _ _).2.2.2.2.1]; exact hin1.state
          · rw [(setSC_frame _ _).2.2.2.2.2.2.2.1]; exact hin1.firstPass
          · exact noReady_setSC _ (sd0.withRaw .tf) _ hw0 hm1 rfl rfl hin1.noReady (by show ConnState.tf ≠ ConnState.ready; decide)
        split
        · obtain ⟨a, b, _, _, e, _⟩ := pushState_frame (setSC { setSC s (sd0.withRaw .tf) with numTF := ((setSC s (sd0.withRaw .tf)).numTF + 1) % (setSC s (sd0.withRaw .tf)).subConns.length } { sd0.withRaw .tf with lastErr := err }) .tf (.connErr err)
          refine ⟨?_, fun _ => ⟨wf_congr _ _ hin2.wf a b, pushState_state _ _ _, by rw [e]; exact hin2.firstPass,
            fun sc hsc => hin2.noReady sc (a ▸ hsc)⟩⟩
          intro st p hm
          simp only [pushState, forcePush] at hm
          split at hm
          · simp at hm
          · simp only [List.mem_singleton, Ev.push.injEq] at hm; exact hm.1
        · exact ⟨allTF_nil, fun _ => hin2⟩
      | idle => exact ⟨by intro st p hm; simp [scLater] at hm, fun _ => hin1⟩
      | connecting => exact ⟨allTF_nil, fun _ => hin1⟩
      | ready => exact absurd rfl hex.1
      | shutdown => exact absurd rfl hok'
  | health id st err =>
    simp only [step, healthState]
    cases ha : activeSC s id with
    | none => exact ⟨allTF_nil, fun _ => h⟩
    | some sd =>
      obtain ⟨hm0, _⟩ := activeSC_mem s id sd ha
      simp only [opOk, ha, Option.all_some, Bool.and_eq_true, beq_iff_eq] at hok
      exact absurd hok.2 (h.noReady sd hm0)
  | tick =>
    simp only [step, timerFire]
    split
    · exact ⟨allTF_nil, fun _ => h⟩
    · have h1 : InTF { s with timer := false } := ⟨wf_congr s _ h.wf rfl rfl, h.state, h.firstPass, h.noReady⟩
      obtain ⟨i1, i2, _, _, i5, _, _, _, _, i10, _⟩ := increment_frame { s with timer := false }
      have h2 : InTF (increment { s with timer := false }).1 :=
        ⟨wf_congr _ _ h1.wf i1 i2, by rw [i5]; exact h1.state, by rw [i10]; exact h1.firstPass,
          fun sc hsc => h1.noReady sc (i1 ▸ hsc)⟩
      split
      · obtain ⟨a, b⟩ := inTF_requestConnection _ h2
        exact ⟨b, fun _ => a⟩
      · exact ⟨allTF_nil, fun _ => h2⟩
  | exitIdle =>
    simp only [step, exitIdle, h.state]
    exact ⟨by intro st p hm; simp at hm, fun _ => by simpa using h⟩
  | pick =>
    simp only [step]
    unfold pick
    split
    all_goals first
      | exact ⟨allTF_nil, fun _ => h⟩
      | skip
    next used _ =>
      split
      · exact ⟨allTF_nil, fun _ => h⟩
      · have : (exitIdle { s with picker := .idle true }) = ({ s with picker := .idle true }, []) := by
          simp [exitIdle, h.state]
        simp only [this]
        exact ⟨allTF_nil, fun _ => ⟨wf_congr s _ h.wf rfl rfl, h.state, h.firstPass, h.noReady⟩⟩
  | close =>
    refine ⟨?_, fun hne => absurd rfl hne⟩
    intro st p hm
    simp [step, close, closeSubConns, cancelTimer] at hm

end GrpcProofs.Lemmas.PickFirstSticky
