/-
Helper lemmas for C34: sticky TRANSIENT_FAILURE (code as of /repo 97a72f7, which repaired F13).
-/
import GrpcProofs.Lemmas.PickFirstReady
import GrpcProofs.Lemmas.PickFirstAddr
namespace GrpcProofs.Lemmas.PickFirstSticky
open GrpcModel.PickFirst GrpcProofs.Lemmas.PickFirst GrpcProofs.Lemmas.PickFirstReady
open GrpcModel.LbConnState (ConnState)

/-- "in TRANSIENT_FAILURE with a non-empty address list and no READY SubConn" — the situation after
    every address failed (whether or not a new first pass has been started by a resolver update) -/
structure InTF (s : St) : Prop where
  wf : WF s
  state : s.state = .tf
  addrs : s.addrs ≠ []
  noReady : NoReady s

/-- every state report in `evs` is TRANSIENT_FAILURE -/
def AllTF (evs : List Ev) : Prop := ∀ st p, Ev.push st p ∈ evs → st = .tf

theorem allTF_of_onlyTF {evs : List Ev} (h : OnlyTF evs) : AllTF evs := fun st p hm => (h st p hm).1
theorem allTF_nil : AllTF [] := by intro st p h; simp at h

theorem requestLoop_firstPass (fuel : Nat) (s : St) (ev : List Ev) :
    (requestLoop fuel s ev).1.firstPass = s.firstPass ∨ (requestLoop fuel s ev).1.firstPass = false := by
  induction fuel generalizing s ev with
  | zero => left; rfl
  | succ fuel ih =>
    simp only [requestLoop]
    cases hcur : currentAddress s with
    | none => left; rfl
    | some cur =>
      simp only
      have he : (ensureSC s cur).1.firstPass = s.firstPass := by
        unfold ensureSC; cases getSC s cur <;> simp [setSC]
      generalize ensureSC s cur = r at he ⊢
      cases hraw : r.2.1.raw with
      | idle => simp only; left; rw [schedule_eq]; exact he
      | connecting => simp only; left; rw [schedule_eq]; exact he
      | ready => simp only; left; exact he
      | shutdown => simp only; left; exact he
      | tf =>
        simp only
        have hf : (increment (setSC r.1 r.2.1.markFailed)).1.firstPass = s.firstPass := by
          rw [(increment_frame _).2.2.2.2.2.2.2.2.2.1, (setSC_frame _ _).2.2.2.2.2.2.2.1, he]
        split
        · rcases ih (increment (setSC r.1 r.2.1.markFailed)).1 (ev ++ r.2.2) with h | h
          · left; rw [h, hf]
          · right; exact h
        · unfold endFirstPass
          split
          · left; exact hf
          · split
            · left; exact hf
            · right; rw [(pushState_frame _ _ _).2.2.2.2.1]

theorem inTF_of_posts (s s' : St) (h : InTF s) (r1 : ReqPost s s') (hm : MapPost s s') : InTF s' := by
  refine ⟨r1.wf, ?_, by rw [r1.addrs]; exact h.addrs, ?_⟩
  · rcases r1.state with e | e
    · rw [e]; exact h.state
    · exact e
  · intro sc hsc hr
    obtain ⟨sc0, h0, r0⟩ := hm.raws sc hsc hr
    exact h.noReady sc0 h0 r0

theorem inTF_requestConnection (s : St) (h : InTF s) :
    InTF (requestConnection s).1 ∧ AllTF (requestConnection s).2 := by
  obtain ⟨r1, r2⟩ := requestConnection_post s h.wf
  exact ⟨inTF_of_posts s _ h r1 (requestConnection_mapPost s h.wf), allTF_of_onlyTF r2⟩

theorem inTF_endFirstPass (s : St) (e : Nat) (h : InTF s) :
    InTF (endFirstPass s e).1 ∧ AllTF (endFirstPass s e).2 := by
  obtain ⟨r1, r2, _⟩ := endFirstPass_post s e h.wf
  exact ⟨inTF_of_posts s _ h r1 (endFirstPass_mapPost s e), allTF_of_onlyTF r2⟩

theorem inTF_startFirstPass (s : St) (h : InTF s) : InTF (startFirstPass s).1 ∧ AllTF (startFirstPass s).2 := by
  unfold startFirstPass
  apply inTF_requestConnection
  refine ⟨?_, h.state, h.addrs, ?_⟩
  · apply wf_of_keys s _ h.wf <;> simp [List.map_map, Function.comp_def]
  · intro sc hsc
    simp only [List.mem_map] at hsc
    obtain ⟨x, hx, rfl⟩ := hsc
    exact h.noReady x hx

theorem preprocess_ne_nil (raw : List Addr) (h : raw ≠ []) : preprocess raw ≠ [] := by
  intro he
  have hp := (GrpcProofs.Lemmas.PickFirstAddr.interleave_spec (deDup raw)).1
  unfold preprocess at he
  rw [he] at hp
  have hd : deDup raw = [] := List.Perm.eq_nil (hp.symm)
  cases raw with
  | nil => exact h rfl
  | cons a t => simp [deDup, deDupAux] at hd

/-- the ops that end the sticky period: a SubConn of the map becomes READY, or goes CONNECTING→IDLE
    (connected and dropped, issue 7862) -/
def ends (s : St) : Op → Bool
  | .sc id st _ => match activeSC s id with
    | some sd => st == .ready || (sd.raw == .connecting && st == .idle)
    | none => false
  | _ => false

/-- the resolver emptied the list: everything is torn down, the situation is over -/
def emptied : Op → Bool
  | .update _ raw => raw.isEmpty
  | _ => false

theorem inTF_step (s : St) (op : Op) (h : InTF s) (hok : opOk s op = true) (hex : ends s op = false) :
    AllTF (step s op).2.evs ∧ (op ≠ .close → emptied op = false → InTF (step s op).1) := by
  cases op with
  | update hl raw =>
    simp only [step, updateCCS]
    by_cases hraw : raw.isEmpty = true
    · -- empty list: only the resolver error (TRANSIENT_FAILURE) is reported
      simp only [hraw, if_true]
      refine ⟨?_, fun _ he => by simp [emptied, hraw] at he⟩
      simp only [updateEmpty, closeSubConns, cancelTimer]
      intro st p hm
      rcases List.mem_append.mp hm with hm | hm
      · simp at hm
      · simp only [resolverError, pushState, forcePush] at hm
        split at hm
        · simp at hm
        · split at hm
          · simp at hm
          · simp only [List.mem_singleton, Ev.push.injEq] at hm; exact hm.1
    · -- any non-empty list: a new first pass starts, TRANSIENT_FAILURE stays
      simp only [hraw, Bool.false_eq_true, if_false]
      have hne : raw ≠ [] := by intro e; rw [e] at hraw; exact hraw rfl
      have hw2 : WF ({ cancelTimer s with health := hl, addrs := preprocess raw, idx := 0, passLog := [], passSerial := (cancelTimer s).passSerial + 1 } : St) :=
        wf_congr s _ h.wf rfl rfl
      have hp : prevReadyAddr { cancelTimer s with health := hl } = none := by
        unfold prevReadyAddr
        cases hc : currentAddress { cancelTimer s with health := hl } with
        | none => rfl
        | some a =>
          simp only
          cases hg : getSC { cancelTimer s with health := hl } a with
          | none => simp
          | some sc =>
            have hm := (getSC_mem _ a sc hg).1
            have : sc.raw ≠ .ready := h.noReady sc hm
            simp [this]
      have hlen : (cancelTimer s).addrs.length ≠ 0 := by
        show s.addrs.length ≠ 0
        intro e; exact h.addrs (List.eq_nil_of_length_eq_zero e)
      have hr : InTF (reconcile ({ cancelTimer s with health := hl, addrs := preprocess raw, idx := 0, passLog := [], passSerial := (cancelTimer s).passSerial + 1 } : St) (preprocess raw)).1 := by
        refine ⟨wf_reconcile _ _ hw2, h.state, preprocess_ne_nil raw hne, ?_⟩
        intro sc hsc
        simp only [reconcile, List.mem_filter] at hsc
        exact h.noReady sc hsc.1
      simp only [updateNonEmpty, hp, Bool.false_eq_true, if_false, Option.isSome_none]
      have ht : updateTail (reconcile ({ cancelTimer s with health := hl, addrs := preprocess raw, idx := 0, passLog := [], passSerial := (cancelTimer s).passSerial + 1 } : St) (preprocess raw)).1 false (cancelTimer s).addrs.length
          = startFirstPass (reconcile ({ cancelTimer s with health := hl, addrs := preprocess raw, idx := 0, passLog := [], passSerial := (cancelTimer s).passSerial + 1 } : St) (preprocess raw)).1 := by
        have hst := hr.state
        simp only [updateTail, hst, hlen, Bool.false_eq_true, false_or, or_false]
        simp
      rw [ht]
      obtain ⟨a, b⟩ := inTF_startFirstPass _ hr
      refine ⟨?_, fun _ _ => a⟩
      intro st p hm
      rcases List.mem_append.mp hm with hm | hm
      · simp [reconcile] at hm
      · exact b st p hm
  | resErr =>
    simp only [step, resolverError]
    have hc : ¬ (s.state ≠ .tf ∧ s.addrs.length > 0) := by rw [h.state]; simp
    rw [if_neg hc]
    obtain ⟨a, b, c, _⟩ := pushState_frame s .tf .resErr
    refine ⟨?_, fun _ _ => ⟨wf_congr s _ h.wf a b, pushState_state _ _ _, by rw [c]; exact h.addrs,
      fun sc hsc => h.noReady sc (a ▸ hsc)⟩⟩
    intro st p hm
    simp only [pushState, forcePush] at hm
    split at hm
    · simp at hm
    · simp only [List.mem_singleton, Ev.push.injEq] at hm; exact hm.1
  | sc id st err =>
    simp only [step, scState]
    cases ha : activeSC s id with
    | none => exact ⟨allTF_nil, fun _ _ => h⟩
    | some sd0 =>
      simp only
      obtain ⟨hm0, _⟩ := activeSC_mem s id sd0 ha
      have hnr0 := h.noReady sd0 hm0
      simp only [ends, ha, Bool.or_eq_false_iff, Bool.and_eq_false_iff, beq_eq_false_iff_ne, ne_eq] at hex
      have hok' : st ≠ .shutdown := by
        simp only [opOk, ha, Option.isNone_some, Bool.or_false, Bool.and_eq_true, bne_iff_ne, ne_eq] at hok
        exact hok.2
      simp only [hok', if_false, hex.1, hnr0, false_or]
      have hnot : ¬ (sd0.raw = .connecting ∧ st = .idle) := by
        intro hc; rcases hex.2 with h1 | h1
        · exact h1 hc.1
        · exact h1 hc.2
      simp only [hnot, if_false]
      have hw1 := wf_setSC_replace s sd0 (sd0.withRaw st) h.wf hm0 rfl rfl
      have hm1 : sd0.withRaw st ∈ (setSC s (sd0.withRaw st)).subConns := by
        rw [mem_setSC_replace s sd0 (sd0.withRaw st) h.wf hm0 rfl rfl]; exact Or.inl rfl
      have hin1 : InTF (setSC s (sd0.withRaw st)) := by
        refine ⟨hw1, by rw [(setSC_frame _ _).2.2.2.2.1]; exact h.state, by rw [(setSC_frame _ _).1]; exact h.addrs, ?_⟩
        exact noReady_setSC s sd0 (sd0.withRaw st) h.wf hm0 rfl rfl h.noReady hex.1
      split
      · -- a first pass is running (started by a resolver update received in TRANSIENT_FAILURE)
        cases st with
        | connecting =>
          -- the repaired line: nothing is reported while the balancer is in TRANSIENT_FAILURE
          simp only [scFirstPass, hin1.state, ne_eq, not_true_eq_false, and_false, if_false]
          exact ⟨allTF_nil, fun _ _ => hin1⟩
        | tf =>
          simp only [scFirstPass]
          have hin2 : InTF (setSC (setSC s (sd0.withRaw .tf)) { sd0.withRaw .tf with lastErr := err, eff := .tf }) := by
            refine ⟨wf_setSC_replace _ (sd0.withRaw .tf) _ hw1 hm1 rfl rfl, by rw [(setSC_frame _ _).2.2.2.2.1]; exact hin1.state,
              by rw [(setSC_frame _ _).1]; exact hin1.addrs, ?_⟩
            exact noReady_setSC _ (sd0.withRaw .tf) _ hw1 hm1 rfl rfl hin1.noReady (by show ConnState.tf ≠ ConnState.ready; decide)
          split
          · have hin3 : InTF (cancelTimer (setSC (setSC s (sd0.withRaw .tf)) { sd0.withRaw .tf with lastErr := err, eff := .tf })) :=
              ⟨wf_congr _ _ hin2.wf rfl rfl, hin2.state, hin2.addrs, hin2.noReady⟩
            obtain ⟨i1, i2, i3, _, i5, _⟩ := increment_frame (cancelTimer (setSC (setSC s (sd0.withRaw .tf)) { sd0.withRaw .tf with lastErr := err, eff := .tf }))
            have hin4 : InTF (increment (cancelTimer (setSC (setSC s (sd0.withRaw .tf)) { sd0.withRaw .tf with lastErr := err, eff := .tf }))).1 :=
              ⟨wf_congr _ _ hin3.wf i1 i2, by rw [i5]; exact hin3.state, by rw [i3]; exact hin3.addrs,
                fun sc hsc => hin3.noReady sc (i1 ▸ hsc)⟩
            split
            · obtain ⟨a, b⟩ := inTF_requestConnection _ hin4
              exact ⟨b, fun _ _ => a⟩
            · obtain ⟨a, b⟩ := inTF_endFirstPass _ err hin4
              exact ⟨b, fun _ _ => a⟩
          · obtain ⟨a, b⟩ := inTF_endFirstPass _ err hin2
            exact ⟨b, fun _ _ => a⟩
        | idle => exact ⟨allTF_nil, fun _ _ => hin1⟩
        | ready => exact absurd rfl hex.1
        | shutdown => exact absurd rfl hok'
      · -- after the first pass: keep re-connecting
        cases st with
        | tf =>
          simp only [scLater]
          have hin2 : InTF (setSC { setSC s (sd0.withRaw .tf) with numTF := ((setSC s (sd0.withRaw .tf)).numTF + 1) % (setSC s (sd0.withRaw .tf)).subConns.length } { sd0.withRaw .tf with lastErr := err }) := by
            have hw0 : WF ({ setSC s (sd0.withRaw .tf) with numTF := ((setSC s (sd0.withRaw .tf)).numTF + 1) % (setSC s (sd0.withRaw .tf)).subConns.length } : St) := wf_congr _ _ hw1 rfl rfl
            refine ⟨wf_setSC_replace _ (sd0.withRaw .tf) _ hw0 hm1 rfl rfl, ?_, ?_, ?_⟩
            · rw [(setSC_frame _ _).2.2.2.2.1]; exact hin1.state
            · rw [(setSC_frame _ _).1]; exact hin1.addrs
            · exact noReady_setSC _ (sd0.withRaw .tf) _ hw0 hm1 rfl rfl hin1.noReady (by show ConnState.tf ≠ ConnState.ready; decide)
          split
          · obtain ⟨a, b, c, _⟩ := pushState_frame (setSC { setSC s (sd0.withRaw .tf) with numTF := ((setSC s (sd0.withRaw .tf)).numTF + 1) % (setSC s (sd0.withRaw .tf)).subConns.length } { sd0.withRaw .tf with lastErr := err }) .tf (.connErr err)
            refine ⟨?_, fun _ _ => ⟨wf_congr _ _ hin2.wf a b, pushState_state _ _ _, by rw [c]; exact hin2.addrs,
              fun sc hsc => hin2.noReady sc (a ▸ hsc)⟩⟩
            intro st p hm
            simp only [pushState, forcePush] at hm
            split at hm
            · simp at hm
            · simp only [List.mem_singleton, Ev.push.injEq] at hm; exact hm.1
          · exact ⟨allTF_nil, fun _ _ => hin2⟩
        | idle => exact ⟨by intro st p hm; simp [scLater] at hm, fun _ _ => hin1⟩
        | connecting => exact ⟨allTF_nil, fun _ _ => hin1⟩
        | ready => exact absurd rfl hex.1
        | shutdown => exact absurd rfl hok'
  | health id st err =>
    simp only [step, healthState]
    cases ha : activeSC s id with
    | none => exact ⟨allTF_nil, fun _ _ => h⟩
    | some sd =>
      obtain ⟨hm0, _⟩ := activeSC_mem s id sd ha
      simp only [opOk, ha, Option.all_some, Bool.and_eq_true, beq_iff_eq] at hok
      exact absurd hok.2 (h.noReady sd hm0)
  | tick =>
    simp only [step, timerFire]
    split
    · exact ⟨allTF_nil, fun _ _ => h⟩
    · have h1 : InTF { s with timer := false } := ⟨wf_congr s _ h.wf rfl rfl, h.state, h.addrs, h.noReady⟩
      obtain ⟨i1, i2, i3, _, i5, _⟩ := increment_frame { s with timer := false }
      have h2 : InTF (increment { s with timer := false }).1 :=
        ⟨wf_congr _ _ h1.wf i1 i2, by rw [i5]; exact h1.state, by rw [i3]; exact h1.addrs,
          fun sc hsc => h1.noReady sc (i1 ▸ hsc)⟩
      simp only [timerCallback, Bool.false_eq_true, if_false]
      split
      · obtain ⟨a, b⟩ := inTF_requestConnection _ h2
        exact ⟨b, fun _ _ => a⟩
      · exact ⟨allTF_nil, fun _ _ => h2⟩
  | late =>
    simp only [step, lateFire_eq]
    refine ⟨allTF_nil, fun _ _ => ?_⟩
    split
    · exact h
    · exact ⟨wf_congr s _ h.wf rfl rfl, h.state, h.addrs, h.noReady⟩
  | exitIdle =>
    simp only [step, exitIdle, h.state]
    exact ⟨by intro st p hm; simp at hm, fun _ _ => by simpa using h⟩
  | pick =>
    simp only [step]
    unfold pick
    split
    all_goals first
      | exact ⟨allTF_nil, fun _ _ => h⟩
      | skip
    next used _ =>
      split
      · exact ⟨allTF_nil, fun _ _ => h⟩
      · have : (exitIdle { s with picker := .idle true }) = ({ s with picker := .idle true }, []) := by
          simp [exitIdle, h.state]
        simp only [this]
        exact ⟨allTF_nil, fun _ _ => ⟨wf_congr s _ h.wf rfl rfl, h.state, h.addrs, h.noReady⟩⟩
  | close =>
    refine ⟨?_, fun hne => absurd rfl hne⟩
    intro st p hm
    simp [step, close, closeSubConns, cancelTimer] at hm

def isClose : Op → Bool
  | .close => true
  | _ => false

/-- a continuation made of ops that neither end the sticky period nor tear the balancer down -/
def Quiet : St → List Op → Prop
  | _, [] => True
  | s, op :: t => opOk s op = true ∧ ends s op = false ∧ isClose op = false ∧ emptied op = false ∧ Quiet (step s op).1 t

theorem inTF_run (s : St) (ops : List Op) (h : InTF s) (hq : Quiet s ops) : InTF (run s ops) := by
  induction ops generalizing s with
  | nil => exact h
  | cons op t ih =>
    obtain ⟨h1, h2, h3, h4, h5⟩ := hq
    exact ih _ ((inTF_step s op h h1 h2).2 (by intro e; rw [e] at h3; cases h3) h4) h5

end GrpcProofs.Lemmas.PickFirstSticky
