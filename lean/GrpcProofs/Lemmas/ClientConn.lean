import GrpcModel.Model.ClientConn
/-!
Helper lemmas about `GrpcModel.ClientConn` (client HTTP/2 transport model), shared by C14 and C11.

`Mono s s'` : what can never be undone along any execution — a stream keeps its id and, once it has
a terminal outcome, that outcome; a transport that left `reachable` never returns and opens no
stream; a finished `NewStream` keeps its result.  `mono_step : Mono s (step s e).1` for every event.
-/
namespace GrpcProofs.Lemmas.ClientConn
open GrpcModel.ClientConn

/-! ## stream lists -/

/-- an update of a stream record that keeps its identity and never rewrites a terminal outcome -/
def Safe (f : Strm → Strm) : Prop :=
  ∀ x, (f x).id = x.id ∧ (f x).rpc = x.rpc ∧ (∀ t, x.term = some t → (f x).term = some t)

/-- `l'` extends `l` and agrees with it on identity and on terminal outcomes already assigned -/
def SMono (l l' : List Strm) : Prop :=
  l.length ≤ l'.length ∧
  ∀ (i : Nat) (x : Strm), l[i]? = some x → ∃ y : Strm, l'[i]? = some y ∧ y.id = x.id ∧ y.rpc = x.rpc ∧ (∀ t, x.term = some t → y.term = some t)

theorem SMono.refl (l : List Strm) : SMono l l :=
  ⟨Nat.le_refl _, fun _ x h => ⟨x, h, rfl, rfl, fun _ h => h⟩⟩

theorem SMono.trans {a b c : List Strm} (h1 : SMono a b) (h2 : SMono b c) : SMono a c := by
  refine ⟨Nat.le_trans h1.1 h2.1, fun i x hx => ?_⟩
  obtain ⟨y, hy, e1, e2, e3⟩ := h1.2 i x hx
  obtain ⟨z, hz, f1, f2, f3⟩ := h2.2 i y hy
  exact ⟨z, hz, f1.trans e1, f2.trans e2, fun t ht => f3 t (e3 t ht)⟩

theorem SMono.modify {l0 l : List Strm} (h : SMono l0 l) (i : Nat) {f : Strm → Strm} (hf : Safe f) :
    SMono l0 (l.modify i f) := by
  refine SMono.trans h ⟨by simp, fun j x hx => ?_⟩
  rw [List.getElem?_modify, hx]
  by_cases hij : i = j
  · simp [hij]; exact hf x
  · simp [hij]

theorem SMono.append {l0 l : List Strm} (h : SMono l0 l) (t : List Strm) : SMono l0 (l ++ t) := by
  refine SMono.trans h ⟨by simp, fun j x hx => ⟨x, ?_, rfl, rfl, fun _ h => h⟩⟩
  rw [List.getElem?_append_left]
  · exact hx
  · exact (List.getElem?_eq_some_iff.mp hx).1

theorem SMono.map {l0 l : List Strm} (h : SMono l0 l) {f : Strm → Strm} (hf : Safe f) : SMono l0 (l.map f) := by
  refine SMono.trans h ⟨by simp, fun j x hx => ?_⟩
  simp [hx]; exact hf x

theorem safe_closeF (e : Option Nat) (st : Nat) : Safe (closeF e st) := by
  intro x; unfold closeF; split <;> simp_all

theorem safe_orphanF (e : Nat) : Safe (orphanF e) := by
  intro x; unfold orphanF; split <;> simp_all

/-- tactic for `Safe (fun x => { x with … })` where the update does not mention id / rpc / term -/
macro "safe_upd" : tactic => `(tactic| (intro x; (try split) <;> simp_all))

end GrpcProofs.Lemmas.ClientConn
