import GrpcModel.Model.ClientConn
/-!
Helper lemmas about `GrpcModel.ClientConn` (client HTTP/2 transport model), shared by C14 and C11.

`Mono s s'` : what can never be undone along any execution — a stream keeps its id and, once it has
a terminal outcome, that outcome; a transport that left `reachable` never returns and opens no
stream; a finished `NewStream` keeps its result.  `mono_step : Mono s (step s e).1` for every event.
-/
namespace GrpcProofs.Lemmas.ClientConn
open GrpcModel.ClientConn

/-! ## stream lists -/

/-- an update of a stream record that keeps its identity and never rewrites a terminal outcome -/
def Safe (f : Strm → Strm) : Prop :=
  ∀ x, (f x).id = x.id ∧ (f x).rpc = x.rpc ∧ (∀ t, x.term = some t → (f x).term = some t)

/-- `l'` extends `l` and agrees with it on identity and on terminal outcomes already assigned -/
def SMono (l l' : List Strm) : Prop :=
  l.length ≤ l'.length ∧
  ∀ (i : Nat) (x : Strm), l[i]? = some x → ∃ y : Strm, l'[i]? = some y ∧ y.id = x.id ∧ y.rpc = x.rpc ∧ (∀ t, x.term = some t → y.term = some t)

theorem SMono.refl (l : List Strm) : SMono l l :=
  ⟨Nat.le_refl _, fun _ x h => ⟨x, h, rfl, rfl, fun _ h => h⟩⟩

theorem SMono.trans {a b c : List Strm} (h1 : SMono a b) (h2 : SMono b c) : SMono a c := by
  refine ⟨Nat.le_trans h1.1 h2.1, fun i x hx => ?_⟩
  obtain ⟨y, hy, e1, e2, e3⟩ := h1.2 i x hx
  obtain ⟨z, hz, f1, f2, f3⟩ := h2.2 i y hy
  exact ⟨z, hz, f1.trans e1, f2.trans e2, fun t ht => f3 t (e3 t ht)⟩

theorem SMono.modify {l0 l : List Strm} (h : SMono l0 l) (i : Nat) {f : Strm → Strm} (hf : Safe f) :
    SMono l0 (l.modify i f) := by
  refine SMono.trans h ⟨by simp, fun j x hx => ?_⟩
  rw [List.getElem?_modify, hx]
  by_cases hij : i = j
  · simp [hij]; exact hf x
  · simp [hij]

theorem SMono.append {l0 l : List Strm} (h : SMono l0 l) (t : List Strm) : SMono l0 (l ++ t) := by
  refine SMono.trans h ⟨by simp, fun j x hx => ⟨x, ?_, rfl, rfl, fun _ h => h⟩⟩
  rw [List.getElem?_append_left]
  · exact hx
  · exact (List.getElem?_eq_some_iff.mp hx).1

theorem SMono.map {l0 l : List Strm} (h : SMono l0 l) {f : Strm → Strm} (hf : Safe f) : SMono l0 (l.map f) := by
  refine SMono.trans h ⟨by simp, fun j x hx => ?_⟩
  simp [hx]; exact hf x

theorem safe_closeF (e : Option Nat) (st : Nat) : Safe (closeF e st) := by
  intro x; unfold closeF; split <;> simp_all

theorem safe_orphanF (e : Nat) : Safe (orphanF e) := by
  intro x; unfold orphanF; split <;> simp_all

/-- tactic for `Safe (fun x => { x with … })` where the update does not mention id / rpc / term -/
macro "safe_upd" : tactic => `(tactic| (intro x; (try split) <;> simp_all))

theorem safe_hdrF : Safe hdrF := by intro x; unfold hdrF; split <;> simp_all
theorem safe_snapF : Safe snapF := by intro x; simp [snapF]
theorem safe_markF : Safe markF := by intro x; simp [markF]
theorem safe_deactF : Safe deactF := by intro x; simp [deactF]
theorem safe_msgF (m : Bytes) : Safe (msgF m) := by intro x; unfold msgF; split <;> simp_all

/-! ## rpc lists -/

/-- a finished NewStream keeps its result -/
def RMono (l l' : List Rpc) : Prop :=
  l.length ≤ l'.length ∧
  ∀ (k : Nat) (r : Rpc), l[k]? = some r → ∃ r' : Rpc, l'[k]? = some r' ∧
    (∀ c b, r.st = .failed c b → r'.st = .failed c b) ∧ (∀ i, r.st = .opened i → r'.st = .opened i)

def RSafe (f : Rpc → Rpc) : Prop :=
  ∀ r, (∀ c b, r.st = .failed c b → (f r).st = .failed c b) ∧ (∀ i, r.st = .opened i → (f r).st = .opened i)

theorem RMono.refl (l : List Rpc) : RMono l l := ⟨Nat.le_refl _, fun _ r h => ⟨r, h, fun _ _ h => h, fun _ h => h⟩⟩

theorem RMono.trans {a b c : List Rpc} (h1 : RMono a b) (h2 : RMono b c) : RMono a c := by
  refine ⟨Nat.le_trans h1.1 h2.1, fun i x hx => ?_⟩
  obtain ⟨y, hy, e1, e2⟩ := h1.2 i x hx
  obtain ⟨z, hz, f1, f2⟩ := h2.2 i y hy
  exact ⟨z, hz, fun c b h => f1 c b (e1 c b h), fun j h => f2 j (e2 j h)⟩

theorem RMono.modify {l0 l : List Rpc} (h : RMono l0 l) (i : Nat) {f : Rpc → Rpc} (hf : RSafe f) :
    RMono l0 (l.modify i f) := by
  refine RMono.trans h ⟨by simp, fun j x hx => ?_⟩
  rw [List.getElem?_modify, hx]
  by_cases hij : i = j
  · exact ⟨f x, by simp [hij], hf x⟩
  · exact ⟨x, by simp [hij], fun _ _ h => h, fun _ h => h⟩

theorem RMono.append {l0 l : List Rpc} (h : RMono l0 l) (t : List Rpc) : RMono l0 (l ++ t) := by
  refine RMono.trans h ⟨by simp, fun j x hx => ⟨x, ?_, fun _ _ h => h, fun _ h => h⟩⟩
  rw [List.getElem?_append_left]
  · exact hx
  · exact (List.getElem?_eq_some_iff.mp hx).1

theorem rsafe_setSt (v : RpcSt) : RSafe (setSt v) := by
  intro r; unfold setSt; split <;> simp_all

/-! ## states -/

structure Mono (s s' : State) : Prop where
  str : SMono s.streams s'.streams
  rpc : RMono s.rpcs s'.rpcs
  notReach : s.tstate ≠ .reachable → s'.tstate ≠ .reachable
  closing : s.tstate = .closing → s'.tstate = .closing
  frozen : s.tstate ≠ .reachable → s'.nextID = s.nextID ∧ s'.streams.length = s.streams.length
  ga : s.goAwayClosed = true → s'.goAwayClosed = true
  gaNew : s'.goAwayClosed = true → s.goAwayClosed = true ∨ s'.tstate ≠ .reachable

theorem Mono.refl (s : State) : Mono s s :=
  ⟨SMono.refl _, RMono.refl _, id, id, fun _ => ⟨rfl, rfl⟩, id, Or.inl⟩

theorem Mono.trans {a b c : State} (h1 : Mono a b) (h2 : Mono b c) : Mono a c := by
  refine ⟨SMono.trans h1.str h2.str, RMono.trans h1.rpc h2.rpc, fun h => h2.notReach (h1.notReach h),
    fun h => h2.closing (h1.closing h), fun h => ?_, fun h => h2.ga (h1.ga h), fun h => ?_⟩
  · have a1 := h1.frozen h
    have a2 := h2.frozen (h1.notReach h)
    exact ⟨a2.1.trans a1.1, a2.2.trans a1.2⟩
  · rcases h2.gaNew h with hb | hc
    · rcases h1.gaNew hb with ha | hb'
      · exact Or.inl ha
      · exact Or.inr (h2.notReach hb')
    · exact Or.inr hc

/-! ### projections of the primitives onto the fields `Mono` talks about -/

section proj
variable (s : State)

@[simp] theorem updStream_streams (i : Nat) (f : Strm → Strm) : (s.updStream i f).streams = s.streams.modify i f := rfl
@[simp] theorem updStream_rpcs (i : Nat) (f : Strm → Strm) : (s.updStream i f).rpcs = s.rpcs := rfl
@[simp] theorem updStream_tstate (i : Nat) (f : Strm → Strm) : (s.updStream i f).tstate = s.tstate := rfl
@[simp] theorem updStream_nextID (i : Nat) (f : Strm → Strm) : (s.updStream i f).nextID = s.nextID := rfl
@[simp] theorem updStream_ga (i : Nat) (f : Strm → Strm) : (s.updStream i f).goAwayClosed = s.goAwayClosed := rfl

@[simp] theorem updRpc_streams (i : Nat) (f : Rpc → Rpc) : (s.updRpc i f).streams = s.streams := rfl
@[simp] theorem updRpc_rpcs (i : Nat) (f : Rpc → Rpc) : (s.updRpc i f).rpcs = s.rpcs.modify i f := rfl
@[simp] theorem updRpc_tstate (i : Nat) (f : Rpc → Rpc) : (s.updRpc i f).tstate = s.tstate := rfl
@[simp] theorem updRpc_nextID (i : Nat) (f : Rpc → Rpc) : (s.updRpc i f).nextID = s.nextID := rfl
@[simp] theorem updRpc_ga (i : Nat) (f : Rpc → Rpc) : (s.updRpc i f).goAwayClosed = s.goAwayClosed := rfl

@[simp] theorem setMsg_streams (i : Nat) (x : Strm) (m : Bytes) : (s.setMsg i x m).streams = s.streams.modify i (msgF m) := rfl
@[simp] theorem setMsg_rpcs (i : Nat) (x : Strm) (m : Bytes) : (s.setMsg i x m).rpcs = s.rpcs := rfl
@[simp] theorem setMsg_tstate (i : Nat) (x : Strm) (m : Bytes) : (s.setMsg i x m).tstate = s.tstate := rfl
@[simp] theorem setMsg_nextID (i : Nat) (x : Strm) (m : Bytes) : (s.setMsg i x m).nextID = s.nextID := rfl
@[simp] theorem setMsg_ga (i : Nat) (x : Strm) (m : Bytes) : (s.setMsg i x m).goAwayClosed = s.goAwayClosed := rfl

@[simp] theorem orphan_streams (i e : Nat) : (s.orphan i e).streams = s.streams.modify i (orphanF e) := rfl
@[simp] theorem orphan_rpcs (i e : Nat) : (s.orphan i e).rpcs = s.rpcs := rfl
@[simp] theorem orphan_tstate (i e : Nat) : (s.orphan i e).tstate = s.tstate := rfl
@[simp] theorem orphan_nextID (i e : Nat) : (s.orphan i e).nextID = s.nextID := rfl
@[simp] theorem orphan_ga (i e : Nat) : (s.orphan i e).goAwayClosed = s.goAwayClosed := rfl

@[simp] theorem put_streams (it : Item) : (s.put it).streams = s.streams := by unfold State.put; split <;> rfl
@[simp] theorem put_rpcs (it : Item) : (s.put it).rpcs = s.rpcs := by unfold State.put; split <;> rfl
@[simp] theorem put_tstate (it : Item) : (s.put it).tstate = s.tstate := by unfold State.put; split <;> rfl
@[simp] theorem put_nextID (it : Item) : (s.put it).nextID = s.nextID := by unfold State.put; split <;> rfl
@[simp] theorem put_ga (it : Item) : (s.put it).goAwayClosed = s.goAwayClosed := by unfold State.put; split <;> rfl

@[simp] theorem sendToken_streams : s.sendToken.streams = s.streams := by unfold State.sendToken; split <;> rfl
@[simp] theorem sendToken_rpcs : s.sendToken.rpcs = s.rpcs := by unfold State.sendToken; split <;> rfl
@[simp] theorem sendToken_tstate : s.sendToken.tstate = s.tstate := by unfold State.sendToken; split <;> rfl
@[simp] theorem sendToken_nextID : s.sendToken.nextID = s.nextID := by unfold State.sendToken; split <;> rfl
@[simp] theorem sendToken_ga : s.sendToken.goAwayClosed = s.goAwayClosed := by unfold State.sendToken; split <;> rfl

@[simp] theorem notify_streams (a b' : Nat) (c : Bool) : (s.notify a b' c).streams = s.streams := rfl
@[simp] theorem notify_rpcs (a b' : Nat) (c : Bool) : (s.notify a b' c).rpcs = s.rpcs := rfl
@[simp] theorem notify_tstate (a b' : Nat) (c : Bool) : (s.notify a b' c).tstate = s.tstate := rfl
@[simp] theorem notify_nextID (a b' : Nat) (c : Bool) : (s.notify a b' c).nextID = s.nextID := rfl
@[simp] theorem notify_ga (a b' : Nat) (c : Bool) : (s.notify a b' c).goAwayClosed = s.goAwayClosed := rfl

@[simp] theorem write_streams (w : Wire) : (s.write w).streams = s.streams := rfl
@[simp] theorem write_rpcs (w : Wire) : (s.write w).rpcs = s.rpcs := rfl
@[simp] theorem write_tstate (w : Wire) : (s.write w).tstate = s.tstate := rfl
@[simp] theorem write_nextID (w : Wire) : (s.write w).nextID = s.nextID := rfl
@[simp] theorem write_ga (w : Wire) : (s.write w).goAwayClosed = s.goAwayClosed := rfl

end proj

theorem modify_closeF_of_isSome (l : List Strm) (i : Nat) (e : Option Nat) (st : Nat) (x : Strm)
    (h : l[i]? = some x) (hx : x.term.isSome = true) : l.modify i (closeF e st) = l := by
  apply List.ext_getElem?
  intro j
  rw [List.getElem?_modify]
  by_cases hij : i = j
  · subst hij; simp [h, closeF, hx]
  · simp [hij]

theorem modify_of_none {α} (l : List α) (i : Nat) (f : α → α) (h : l[i]? = none) : l.modify i f = l := by
  apply List.ext_getElem?
  intro j
  rw [List.getElem?_modify]
  by_cases hij : i = j
  · subst hij; simp [h]
  · simp [hij]

@[simp] theorem closeStream_streams (s : State) (i : Nat) (e : Option Nat) (st : Nat) (r : Bool) (c : Nat) :
    (s.closeStream i e st r c).streams = s.streams.modify i (closeF e st) := by
  unfold State.closeStream
  split
  · rename_i h; exact (modify_of_none _ _ _ h).symm
  · rename_i str h
    split
    · rename_i hx; exact (modify_closeF_of_isSome _ _ _ _ _ h hx).symm
    · simp only []; split <;> simp

macro "cs_proj" : tactic => `(tactic|
  (unfold State.closeStream; split <;> (try rfl); split <;> (try rfl); simp only []; split <;> simp))

@[simp] theorem closeStream_rpcs (s : State) (i : Nat) (e : Option Nat) (st : Nat) (r : Bool) (c : Nat) :
    (s.closeStream i e st r c).rpcs = s.rpcs := by cs_proj
@[simp] theorem closeStream_tstate (s : State) (i : Nat) (e : Option Nat) (st : Nat) (r : Bool) (c : Nat) :
    (s.closeStream i e st r c).tstate = s.tstate := by cs_proj
@[simp] theorem closeStream_nextID (s : State) (i : Nat) (e : Option Nat) (st : Nat) (r : Bool) (c : Nat) :
    (s.closeStream i e st r c).nextID = s.nextID := by cs_proj
@[simp] theorem closeStream_ga (s : State) (i : Nat) (e : Option Nat) (st : Nat) (r : Bool) (c : Nat) :
    (s.closeStream i e st r c).goAwayClosed = s.goAwayClosed := by cs_proj

/-! ### Mono of the primitives -/

/-- a state whose Mono-relevant fields are given componentwise -/
theorem Mono.of_fields {s0 s s' : State} (h : Mono s0 s) (hs : SMono s.streams s'.streams)
    (hl : s'.streams.length = s.streams.length) (h1 : RMono s.rpcs s'.rpcs) (h2 : s'.tstate = s.tstate)
    (h3 : s'.nextID = s.nextID) (h4 : s'.goAwayClosed = s.goAwayClosed) : Mono s0 s' := by
  refine Mono.trans h ⟨hs, h1, by rw [h2]; exact id, by rw [h2]; exact id, fun _ => ⟨h3, hl⟩, by rw [h4]; exact id,
    by rw [h4]; exact Or.inl⟩

macro "smono" : tactic => `(tactic|
  repeat (first
    | exact SMono.refl _
    | apply SMono.modify (hf := safe_closeF _ _)
    | apply SMono.modify (hf := safe_orphanF _)
    | apply SMono.modify (hf := safe_hdrF)
    | apply SMono.modify (hf := safe_deactF)
    | apply SMono.modify (hf := safe_msgF _)
    | (apply SMono.modify; case hf => safe_upd)
    | apply SMono.append
    | apply SMono.map (hf := safe_snapF)))

macro "rmono" : tactic => `(tactic|
  repeat (first
    | exact RMono.refl _
    | apply RMono.modify (hf := rsafe_setSt _)
    | (apply RMono.modify; case hf => (intro r; simp))
    | apply RMono.append))

/-- case-split every `if`/`match` of the goal, inlining `let`s when they are in the way -/
macro "splits" : tactic => `(tactic| repeat' (first | split | (simp only []; split)))

/-- leaf of a handler: a composition of primitives and record updates applied to `s` -/
macro "mono_leaf" : tactic => `(tactic|
  (first
   | exact Mono.refl _
   | (constructor
      · (try simp) <;> smono
      · (try simp) <;> rmono
      · (try simp) <;> (try (intros; simp_all))
      · (try simp) <;> (try (intros; simp_all))
      · (try simp) <;> (try (intros; simp_all))
      · (try simp) <;> (try (intros; simp_all))
      · (try simp) <;> (try (intros; simp_all)))))

theorem mono_closeStream (s : State) (i : Nat) (e : Option Nat) (st : Nat) (r : Bool) (c : Nat) :
    Mono s (s.closeStream i e st r c) := by mono_leaf

theorem mono_operateHeaders (s : State) (sid : Nat) (es tr : Bool) (fs : List (Bytes × Bytes)) :
    Mono s (s.operateHeaders sid es tr fs) := by
  unfold State.operateHeaders
  splits
  all_goals mono_leaf

theorem Mono.closeStream {s0 s : State} (h : Mono s0 s) (i : Nat) (e : Option Nat) (st : Nat) (r : Bool) (c : Nat) :
    Mono s0 (s.closeStream i e st r c) := h.trans (mono_closeStream ..)

theorem mono_connOnData (s : State) (n : Nat) : Mono s (s.connOnData n) := by
  unfold State.connOnData; splits; all_goals mono_leaf

theorem mono_handleData (s : State) (sid size dl : Nat) (p es : Bool) : Mono s (s.handleData sid size dl p es) := by
  unfold State.handleData
  refine (mono_connOnData s size).trans ?_
  generalize s.connOnData size = s
  splits
  all_goals mono_leaf

theorem mono_handleRST (s : State) (sid code : Nat) : Mono s (s.handleRST sid code) := by
  unfold State.handleRST; splits; all_goals mono_leaf

theorem mono_handleSettings (s : State) (ack : Bool) (ss : List (Nat × Nat)) : Mono s (s.handleSettings ack ss) := by
  unfold State.handleSettings; splits; all_goals mono_leaf

theorem mono_markVictims (s : State) (id upper : Nat) : Mono s (s.markVictims id upper) := by
  unfold State.markVictims
  constructor
  · refine ⟨by simp, fun j x hx => ?_⟩
    simp only [List.getElem?_map, hx, Option.map_some]
    refine ⟨_, rfl, ?_⟩
    split <;> simp [markF]
  · exact RMono.refl _
  · exact fun h => h
  · exact fun h => h
  · intro _; simp
  · exact fun h => h
  · exact fun h => Or.inl h

theorem mono_closeVictims (s : State) (id upper : Nat) (n : Nat) : Mono s (s.closeVictims id upper n) := by
  induction n with
  | zero => exact Mono.refl _
  | succ n ih =>
    unfold State.closeVictims
    simp only []
    split
    · split
      · exact ih.closeStream ..
      · exact ih
    · exact ih

theorem mono_closeSnapshot (s : State) (n : Nat) : Mono s (s.closeSnapshot n) := by
  induction n with
  | zero => exact Mono.refl _
  | succ n ih =>
    unfold State.closeSnapshot
    simp only []
    split
    · split
      · exact ih.closeStream ..
      · exact ih
    · exact ih

theorem mono_orphan (s : State) (i e : Nat) : Mono s (s.orphan i e) := by mono_leaf

theorem mono_orphanQueued (s : State) (l : List Item) : Mono s (s.orphanQueued l) := by
  induction l generalizing s with
  | nil => exact Mono.refl _
  | cons it rest ih =>
    cases it <;> simp only [State.orphanQueued] <;> (try exact ih _)
    exact (mono_orphan ..).trans (ih _)

theorem mono_put (s : State) (it : Item) : Mono s (s.put it) := by mono_leaf

theorem mono_goAwayFirst (s : State) (code : Nat) (d : Bytes) (h : s.tstate ≠ .closing) : Mono s (s.goAwayFirst code d) := by
  unfold State.goAwayFirst; splits
  all_goals (constructor <;> simp_all [SMono.refl, RMono.refl])

theorem mono_goAwayKill (s : State) (id up : Nat) : Mono s (s.goAwayKill id up).1 := by
  unfold State.goAwayKill
  splits
  all_goals first
    | mono_leaf
    | (refine Mono.trans ?_ (mono_closeVictims ..); refine Mono.trans ?_ (mono_markVictims ..); mono_leaf)

theorem mono_handleGoAway (s : State) (id code : Nat) (d : Bytes) : Mono s (s.handleGoAway id code d).1 := by
  unfold State.handleGoAway
  splits
  all_goals first
    | mono_leaf
    | exact mono_goAwayKill ..
    | exact (mono_goAwayFirst _ _ _ (by assumption)).trans ((mono_goAwayKill ..).trans (mono_put ..))

theorem mono_closeP1 (s : State) (e : Bool) : Mono s (s.closeP1 e) := by
  unfold State.closeP1
  splits
  all_goals first
    | mono_leaf
    | (constructor
       · simp; exact SMono.map (SMono.refl _) safe_snapF
       · simp; exact RMono.refl _
       all_goals simp)

theorem mono_readerExit (s : State) : Mono s s.readerExit := by
  unfold State.readerExit
  split
  · exact Mono.refl _
  · refine Mono.trans ?_ (mono_closeP1 ..); mono_leaf

theorem mono_onFrame (s : State) (f : Frame) : Mono s (s.onFrame f) := by
  unfold State.onFrame
  split
  · exact Mono.refl _
  · cases f <;> simp only []
    · exact mono_operateHeaders ..
    · exact mono_handleData ..
    · exact mono_handleRST ..
    · exact mono_handleSettings ..
    · split
      · exact Mono.refl _
      · exact mono_put ..
    · split
      · exact (mono_handleGoAway ..).trans (mono_readerExit ..)
      · exact mono_handleGoAway ..
    · exact mono_put ..
    · exact Mono.refl _
    · split
      · exact Mono.refl _
      · exact mono_closeStream ..
    · exact mono_readerExit ..

theorem mono_finish (s : State) : Mono s s.finish := by
  unfold State.finish
  split
  · exact Mono.refl _
  · refine Mono.trans (mono_orphanQueued s s.cbuf) ?_
    mono_leaf

theorem mono_loopyExit (s : State) (c : Bool) : Mono s (s.loopyExit c).1 := by
  unfold State.loopyExit
  split
  · mono_leaf
  · simp only []
    generalize hX : State.finish _ = t
    have ht : Mono s t := by rw [← hX]; exact Mono.trans (by mono_leaf) (mono_finish _)
    exact ht.trans (by mono_leaf)

theorem mono_loopyStep (s : State) : Mono s s.loopyStep.1 := by
  unfold State.loopyStep
  splits
  all_goals first
    | mono_leaf
    | (refine Mono.trans ?_ (mono_loopyExit ..); mono_leaf)
    | (refine Mono.trans ?_ (mono_loopyExit ..); refine Mono.trans ?_ (mono_orphan ..); mono_leaf)

end GrpcProofs.Lemmas.ClientConn
