/-
Helper lemmas for C34, address pre-processing (deDupAddresses, interleaveAddresses).
-/
import GrpcModel.Model.PickFirst
namespace GrpcProofs.Lemmas.PickFirstAddr
open GrpcModel.PickFirst

/-! ### deDup -/

theorem deDupAux_spec (seen l : List Addr) :
    (deDupAux seen l).Nodup ∧ (∀ a, a ∈ deDupAux seen l ↔ a ∈ l ∧ a ∉ seen) ∧ (deDupAux seen l).Sublist l := by
  induction l generalizing seen with
  | nil => simp [deDupAux]
  | cons x t ih =>
    simp only [deDupAux]
    split
    · next hx =>
      obtain ⟨h1, h2, h3⟩ := ih seen
      refine ⟨h1, ?_, h3.trans (List.sublist_cons_self x t)⟩
      intro a; rw [h2]
      constructor
      · rintro ⟨ha, hs⟩; exact ⟨List.mem_cons_of_mem _ ha, hs⟩
      · rintro ⟨ha, hs⟩
        rcases List.mem_cons.mp ha with rfl | ha
        · exact absurd hx hs
        · exact ⟨ha, hs⟩
    · next hx =>
      obtain ⟨h1, h2, h3⟩ := ih (x :: seen)
      refine ⟨?_, ?_, h3.cons_cons x⟩
      · rw [List.nodup_cons]
        refine ⟨?_, h1⟩
        intro hm; have := (h2 x).mp hm; simp at this
      · intro a
        simp only [List.mem_cons, h2]
        constructor
        · rintro (rfl | ⟨ha, hs⟩)
          · exact ⟨Or.inl rfl, hx⟩
          · exact ⟨Or.inr ha, fun h => hs (Or.inr h)⟩
        · rintro ⟨rfl | ha, hs⟩
          · exact Or.inl rfl
          · by_cases hax : a = x
            · exact Or.inl hax
            · exact Or.inr ⟨ha, by rintro (h | h); exact hax h; exact hs h⟩

/-! ### takeFam / round / interleaveLoop -/

abbrev famIs (g : Fam) : Addr → Bool := fun a => decide (a.fam = g)

theorem takeFam_some (f : Fam) (l : List Addr) (a : Addr) (r : List Addr) (h : takeFam f l = some (a, r)) :
    a.fam = f ∧ l.Perm (a :: r) ∧ (∀ g, l.filter (famIs g) = if f = g then a :: r.filter (famIs g) else r.filter (famIs g)) ∧
    r.length + 1 = l.length := by
  induction l generalizing a r with
  | nil => simp [takeFam] at h
  | cons x t ih =>
    simp only [takeFam] at h
    split at h
    · next hx =>
      cases h
      refine ⟨hx, List.Perm.refl _, ?_, rfl⟩
      intro g
      by_cases hg : f = g
      · subst hg; simp [famIs, hx]
      · have : ¬ x.fam = g := by rw [hx]; exact hg
        simp [famIs, hg, this]
    · next hx =>
      cases ht : takeFam f t with
      | none => simp [ht] at h
      | some p =>
        obtain ⟨y, r'⟩ := p
        simp only [ht, Option.some.injEq, Prod.mk.injEq] at h
        obtain ⟨rfl, rfl⟩ := h
        obtain ⟨h1, h2, h3, h4⟩ := ih y r' ht
        refine ⟨h1, ?_, ?_, by simp; omega⟩
        · exact (List.Perm.cons x h2).trans (List.Perm.swap y x r')
        · intro g
          simp only [List.filter_cons, h3 g]
          by_cases hg : f = g
          · subst hg; simp [famIs, hx]
          · simp only [hg, if_false]

theorem takeFam_none (f : Fam) (l : List Addr) (h : takeFam f l = none) : ∀ a ∈ l, a.fam ≠ f := by
  induction l with
  | nil => simp
  | cons x t ih =>
    simp only [takeFam] at h
    split at h
    · cases h
    · next hx =>
      cases ht : takeFam f t with
      | some p => simp [ht] at h
      | none =>
        intro a ha
        rcases List.mem_cons.mp ha with rfl | ha
        · exact hx
        · exact ih ht a ha

theorem round_spec (order : List Fam) (rest : List Addr) :
    rest.Perm ((round order rest).1 ++ (round order rest).2) ∧
    (∀ g, rest.filter (famIs g) = (round order rest).1.filter (famIs g) ++ (round order rest).2.filter (famIs g)) := by
  induction order generalizing rest with
  | nil => simp [round]
  | cons f fs ih =>
    simp only [round]
    cases ht : takeFam f rest with
    | none => exact ih rest
    | some p =>
      obtain ⟨a, rest'⟩ := p
      obtain ⟨h1, h2, h3, _⟩ := takeFam_some f rest a rest' ht
      obtain ⟨i1, i2⟩ := ih rest'
      refine ⟨h2.trans (List.Perm.cons a i1), ?_⟩
      intro g
      rw [h3 g]
      simp only [List.cons_append, List.filter_cons]
      by_cases hg : f = g
      · subst hg; simp [famIs, h1, i2]
      · have : ¬ a.fam = g := by rw [h1]; exact hg
        simp [famIs, hg, this, i2]

theorem round_progress (order : List Fam) (rest : List Addr) (a : Addr) (ha : a ∈ rest) (hf : a.fam ∈ order) :
    (round order rest).2.length < rest.length := by
  induction order generalizing rest a with
  | nil => simp at hf
  | cons f fs ih =>
    simp only [round]
    cases ht : takeFam f rest with
    | some p =>
      obtain ⟨x, rest'⟩ := p
      obtain ⟨_, _, _, h4⟩ := takeFam_some f rest x rest' ht
      have := (round_spec fs rest').1.length_eq
      simp only [List.length_append] at this
      simp only; omega
    | none =>
      have hn := takeFam_none f rest ht a ha
      rcases List.mem_cons.mp hf with h | h
      · exact absurd h hn
      · exact ih rest a ha h

theorem loop_spec (order : List Fam) (fuel : Nat) (rest : List Addr) (hfuel : rest.length ≤ fuel)
    (hord : ∀ a ∈ rest, a.fam ∈ order) :
    (interleaveLoop order fuel rest).Perm rest ∧
    ∀ g, (interleaveLoop order fuel rest).filter (famIs g) = rest.filter (famIs g) := by
  induction fuel generalizing rest with
  | zero =>
    have : rest = [] := List.eq_nil_of_length_eq_zero (by omega)
    subst this; simp [interleaveLoop]
  | succ fuel ih =>
    simp only [interleaveLoop]
    cases rest with
    | nil => simp
    | cons x t =>
      simp only [List.isEmpty_cons, Bool.false_eq_true, if_false]
      have hp := round_progress order (x :: t) x (List.mem_cons_self) (hord x (List.mem_cons_self))
      obtain ⟨r1, r2⟩ := round_spec order (x :: t)
      have hsub : ∀ a ∈ (round order (x :: t)).2, a.fam ∈ order := by
        intro a ha
        exact hord a (r1.mem_iff.mpr (List.mem_append_right _ ha))
      obtain ⟨i1, i2⟩ := ih (round order (x :: t)).2 (by simp only [List.length_cons] at hp hfuel; omega) hsub
      refine ⟨(List.Perm.append_left _ i1).trans r1.symm, ?_⟩
      intro g
      rw [List.filter_append, i2 g, r2 g]

theorem famOrder_mem (l : List Addr) (a : Addr) (ha : a ∈ l) : a.fam ∈ famOrder l := by
  induction l with
  | nil => simp at ha
  | cons x t ih =>
    simp only [famOrder, List.mem_cons]
    by_cases h : a.fam = x.fam
    · exact Or.inl h
    · right
      rcases List.mem_cons.mp ha with rfl | ha
      · exact absurd rfl h
      · exact List.mem_filter.mpr ⟨ih ha, by simpa using h⟩

theorem interleave_spec (l : List Addr) :
    (interleave l).Perm l ∧ ∀ g, (interleave l).filter (famIs g) = l.filter (famIs g) :=
  loop_spec (famOrder l) l.length l (Nat.le_refl _) (fun a ha => famOrder_mem l a ha)

theorem interleave_head (l : List Addr) : (interleave l).head? = l.head? := by
  cases l with
  | nil => rfl
  | cons x t =>
    simp only [interleave, List.length_cons, interleaveLoop, List.isEmpty_cons, Bool.false_eq_true, if_false,
      famOrder, round, takeFam, if_true]
    rfl

end GrpcProofs.Lemmas.PickFirstAddr
