/-
Helper lemmas for C33 (gracefulswitch).
-/
import GrpcModel.Model.GracefulSwitch
namespace GrpcProofs.Lemmas.GracefulSwitch
open GrpcModel.GracefulSwitch
open GrpcModel.LbConnState (ConnState)

/-- invariant of every reachable state -/
structure Inv (s : St) : Prop where
  distinct : ∀ c p, s.current = some c → s.pending = some p → c.id ≠ p.id
  curLe : ∀ c, s.current = some c → c.id ≤ s.serial
  pendLe : ∀ p, s.pending = some p → p.id ≤ s.serial
  pendCur : ∀ p, s.pending = some p → s.current.isSome
  pendConn : ∀ p, s.pending = some p → p.last.state = .connecting
  graceful : ∀ c, s.current = some c → c.last = initBState ∨ s.pushed = some (c.id, c.last)
  closedNone : s.closed = true → s.current = none ∧ s.pending = none

/-- The five ways a state report can go (`b` = the reported state with its fresh picker). -/
inductive Report (s : St) (id : Nat) (x : ConnState) (s' : St) (evs : List Ev) : Prop
  | stale (h : curOrPend s id = false) (hev : evs = [])
      (hc : s'.current = s.current) (hp : s'.pending = s.pending) (hpu : s'.pushed = s.pushed)
  | curFwd (c : BW) (hcur : s.current = some c) (hid : c.id = id) (hno : x = .ready ∨ s.pending = none)
      (hev : evs = [.push id ⟨x, s.pkSerial + 1⟩])
      (hc : s'.current = some { c with last := ⟨x, s.pkSerial + 1⟩ }) (hp : s'.pending = s.pending)
      (hpu : s'.pushed = some (id, ⟨x, s.pkSerial + 1⟩))
  | curSwap (c p : BW) (hcur : s.current = some c) (hpend : s.pending = some p) (hid : c.id = id) (hx : x ≠ .ready)
      (hev : evs = .push p.id p.last :: closeBW (some c))
      (hc : s'.current = some p) (hp : s'.pending = none) (hpu : s'.pushed = some (p.id, p.last))
  | pendSwap (c p : BW) (hcur : s.current = some c) (hpend : s.pending = some p) (hid : p.id = id)
      (hx : x ≠ .connecting ∨ c.last.state ≠ .ready)
      (hev : evs = .push p.id ⟨x, s.pkSerial + 1⟩ :: closeBW (some c))
      (hc : s'.current = some { p with last := ⟨x, s.pkSerial + 1⟩ }) (hp : s'.pending = none)
      (hpu : s'.pushed = some (p.id, ⟨x, s.pkSerial + 1⟩))
  | pendWait (c p : BW) (hcur : s.current = some c) (hpend : s.pending = some p) (hid : p.id = id)
      (hx : x = .connecting) (hr : c.last.state = .ready) (hev : evs = [])
      (hc : s'.current = s.current) (hp : s'.pending = some { p with last := ⟨x, s.pkSerial + 1⟩ })
      (hpu : s'.pushed = s.pushed)

theorem closeBW_last (c : BW) (b : BState) : closeBW (some { c with last := b }) = closeBW (some c) := rfl

theorem updateState_report (s : St) (h : Inv s) (id : Nat) (x : ConnState) :
    Report s id x (updateState s id x).1 (updateState s id x).2 := by
  cases hc : s.current with
  | none =>
    have hp : s.pending = none := by
      cases hp : s.pending with
      | none => rfl
      | some p => have := h.pendCur p hp; simp [hc] at this
    apply Report.stale <;> simp [updateState, setLast, curOrPend, isCur, isPend, hc, hp]
  | some c =>
    cases hp : s.pending with
    | none =>
      by_cases hid : c.id = id
      · apply Report.curFwd c hc hid (Or.inr hp) <;>
          simp [updateState, setLast, curOrPend, isCur, isPend, hc, hp, hid]
      · apply Report.stale <;> simp [updateState, setLast, curOrPend, isCur, isPend, hc, hp, hid]
    | some p =>
      have hd := h.distinct c p hc hp
      by_cases hid : c.id = id
      · have hpid : ¬ p.id = id := fun e => hd (hid.trans e.symm)
        by_cases hx : x = .ready
        · apply Report.curFwd c hc hid (Or.inl hx) <;>
            simp [updateState, setLast, curOrPend, isCur, isPend, hc, hp, hid, hpid, hx]
        · apply Report.curSwap c p hc hp hid hx <;>
            simp [updateState, setLast, curOrPend, isCur, isPend, hc, hp, hid, hpid, hx, swap, closeBW, toDead]
      · by_cases hpid : p.id = id
        · by_cases hx : x ≠ .connecting ∨ c.last.state ≠ .ready
          · apply Report.pendSwap c p hc hp hpid hx <;>
              simp [updateState, setLast, curOrPend, isCur, isPend, hc, hp, hid, hpid, hx, swap, closeBW, toDead]
          · have hx1 : x = .connecting := by
              apply Classical.byContradiction; intro hn; exact hx (Or.inl hn)
            have hx2 : c.last.state = .ready := by
              apply Classical.byContradiction; intro hn; exact hx (Or.inr hn)
            apply Report.pendWait c p hc hp hpid hx1 hx2 <;>
              simp [updateState, setLast, curOrPend, isCur, isPend, hc, hp, hid, hpid, hx1, hx2]
        · apply Report.stale <;> simp [updateState, setLast, curOrPend, isCur, isPend, hc, hp, hid, hpid]

theorem swap_frame (s : St) :
    (swap s).1.serial = s.serial ∧ (swap s).1.closed = s.closed ∧ (swap s).1.scSerial = s.scSerial := by
  unfold swap; cases s.pending <;> simp

theorem updateState_frame (s : St) (id : Nat) (x : ConnState) :
    (updateState s id x).1.serial = s.serial ∧ (updateState s id x).1.closed = s.closed ∧
    (updateState s id x).1.scSerial = s.scSerial := by
  simp only [updateState]
  split
  · simp [setLast]
  · split
    · split
      · simp [swap_frame, setLast]
      · simp [setLast]
    · split
      · simp [swap_frame, setLast]
      · simp [setLast]

theorem inv_updateState (s : St) (h : Inv s) (id : Nat) (x : ConnState) : Inv (updateState s id x).1 := by
  obtain ⟨hs, hcl, _⟩ := updateState_frame s id x
  have hclosed : ∀ c, s.current = some c → (updateState s id x).1.closed = true → False := by
    intro c hc h1; rw [hcl] at h1; have := (h.closedNone h1).1; simp [hc] at this
  cases updateState_report s h id x with
  | stale _ _ hc hp hpu =>
    exact ⟨by rw [hc, hp]; exact h.distinct, by rw [hc, hs]; exact h.curLe, by rw [hp, hs]; exact h.pendLe,
      by rw [hc, hp]; exact h.pendCur, by rw [hp]; exact h.pendConn, by rw [hc, hpu]; exact h.graceful,
      by rw [hcl, hc, hp]; exact h.closedNone⟩
  | curFwd c hcur hid _ _ hc hp hpu =>
    refine ⟨?_, ?_, ?_, ?_, ?_, ?_, ?_⟩
    · intro c' p' h1 h2; rw [hc] at h1; rw [hp] at h2; cases h1; exact h.distinct c p' hcur h2
    · intro c' h1; rw [hc] at h1; cases h1; rw [hs]; exact h.curLe c hcur
    · intro p' h2; rw [hp] at h2; rw [hs]; exact h.pendLe p' h2
    · intro p' _; rw [hc]; rfl
    · intro p' h2; rw [hp] at h2; exact h.pendConn p' h2
    · intro c' h1; rw [hc] at h1; cases h1; right; rw [hpu]; simp [hid]
    · intro h1; exact (hclosed c hcur h1).elim
  | curSwap c p hcur hpend _ _ _ hc hp hpu =>
    refine ⟨?_, ?_, ?_, ?_, ?_, ?_, ?_⟩
    · intro c' p' _ h2; rw [hp] at h2; cases h2
    · intro c' h1; rw [hc] at h1; cases h1; rw [hs]; exact h.pendLe p hpend
    · intro p' h2; rw [hp] at h2; cases h2
    · intro p' h2; rw [hp] at h2; cases h2
    · intro p' h2; rw [hp] at h2; cases h2
    · intro c' h1; rw [hc] at h1; cases h1; right; exact hpu
    · intro h1; exact (hclosed c hcur h1).elim
  | pendSwap c p hcur hpend _ _ _ hc hp hpu =>
    refine ⟨?_, ?_, ?_, ?_, ?_, ?_, ?_⟩
    · intro c' p' _ h2; rw [hp] at h2; cases h2
    · intro c' h1; rw [hc] at h1; cases h1; rw [hs]; exact h.pendLe p hpend
    · intro p' h2; rw [hp] at h2; cases h2
    · intro p' h2; rw [hp] at h2; cases h2
    · intro p' h2; rw [hp] at h2; cases h2
    · intro c' h1; rw [hc] at h1; cases h1; right; exact hpu
    · intro h1; exact (hclosed c hcur h1).elim
  | pendWait c p hcur hpend _ hx _ _ hc hp hpu =>
    refine ⟨?_, ?_, ?_, ?_, ?_, ?_, ?_⟩
    · intro c' p' h1 h2; rw [hc] at h1; rw [hp] at h2; cases h2; exact h.distinct c' p h1 hpend
    · intro c' h1; rw [hc] at h1; rw [hs]; exact h.curLe c' h1
    · intro p' h2; rw [hp] at h2; cases h2; rw [hs]; exact h.pendLe p hpend
    · intro p' _; rw [hc, hcur]; rfl
    · intro p' h2; rw [hp] at h2; cases h2; exact hx
    · intro c' h1; rw [hc] at h1; rw [hpu]; exact h.graceful c' h1
    · intro h1; exact (hclosed c hcur h1).elim

/-! ### steps that keep the roles (ids and last states) -/

def key (w : BW) : Nat × BState := (w.id, w.last)

theorem map_key_some {a b : Option BW} (h : a.map key = b.map key) (w : BW) (ha : a = some w) :
    ∃ w', b = some w' ∧ w'.id = w.id ∧ w'.last = w.last := by
  subst ha
  cases b with
  | none => simp at h
  | some w' =>
    simp only [Option.map_some, Option.some.injEq, key, Prod.mk.injEq] at h
    exact ⟨w', rfl, h.1.symm, h.2.symm⟩

theorem inv_of_same (s s' : St) (h : Inv s) (hc : s'.current.map key = s.current.map key)
    (hp : s'.pending.map key = s.pending.map key) (hs : s'.serial = s.serial) (hcl : s'.closed = s.closed)
    (hpu : s'.pushed = s.pushed) : Inv s' := by
  refine ⟨?_, ?_, ?_, ?_, ?_, ?_, ?_⟩
  · intro c p h1 h2
    obtain ⟨c0, e1, i1, _⟩ := map_key_some hc c h1
    obtain ⟨p0, e2, i2, _⟩ := map_key_some hp p h2
    rw [← i1, ← i2]; exact h.distinct c0 p0 e1 e2
  · intro c h1
    obtain ⟨c0, e1, i1, _⟩ := map_key_some hc c h1
    rw [hs, ← i1]; exact h.curLe c0 e1
  · intro p h2
    obtain ⟨p0, e2, i2, _⟩ := map_key_some hp p h2
    rw [hs, ← i2]; exact h.pendLe p0 e2
  · intro p h2
    obtain ⟨p0, e2, _, _⟩ := map_key_some hp p h2
    have := h.pendCur p0 e2
    cases h3 : s.current with
    | none => simp [h3] at this
    | some c0 =>
      cases h4 : s'.current with
      | none => simp [h3, h4] at hc
      | some _ => rfl
  · intro p h2
    obtain ⟨p0, e2, _, l2⟩ := map_key_some hp p h2
    rw [← l2]; exact h.pendConn p0 e2
  · intro c h1
    obtain ⟨c0, e1, i1, l1⟩ := map_key_some hc c h1
    rw [hpu, ← i1, ← l1]; exact h.graceful c0 e1
  · intro h1
    rw [hcl] at h1
    obtain ⟨a, b⟩ := h.closedNone h1
    rw [a] at hc; rw [b] at hp
    constructor
    · cases h4 : s'.current with
      | none => rfl
      | some _ => simp [h4] at hc
    · cases h4 : s'.pending with
      | none => rfl
      | some _ => simp [h4] at hp

theorem newSubConn_same (s : St) (id : Nat) :
    (newSubConn s id).1.current.map key = s.current.map key ∧
    (newSubConn s id).1.pending.map key = s.pending.map key ∧
    (newSubConn s id).1.serial = s.serial ∧ (newSubConn s id).1.closed = s.closed ∧
    (newSubConn s id).1.pushed = s.pushed := by
  simp only [newSubConn]
  split
  · simp
  · refine ⟨?_, ?_, rfl, rfl, rfl⟩ <;>
    · simp only [Option.map_map]
      congr 1
      funext w
      simp only [Function.comp, addSc, key]
      split <;> rfl

theorem inv_newSubConn (s : St) (h : Inv s) (id : Nat) : Inv (newSubConn s id).1 := by
  obtain ⟨a, b, c, d, e⟩ := newSubConn_same s id
  exact inv_of_same s _ h a b c d e

theorem subConnState_same (s : St) (sc : Nat) (x : ConnState) (l : Bool) :
    (subConnState s sc x l).1.current.map key = s.current.map key ∧
    (subConnState s sc x l).1.pending.map key = s.pending.map key ∧
    (subConnState s sc x l).1.serial = s.serial ∧ (subConnState s sc x l).1.closed = s.closed ∧
    (subConnState s sc x l).1.pushed = s.pushed := by
  simp only [subConnState]
  split
  · simp
  · split
    · refine ⟨?_, ?_, rfl, rfl, rfl⟩ <;>
      · simp only [Option.map_map]
        congr 1
        funext w
        simp only [Function.comp, rmSc, key]
        split <;> rfl
    · simp

theorem nscEnd_same (s : St) (sc : Nat) :
    (nscEnd s sc).1.current.map key = s.current.map key ∧
    (nscEnd s sc).1.pending.map key = s.pending.map key ∧
    (nscEnd s sc).1.serial = s.serial ∧ (nscEnd s sc).1.closed = s.closed ∧
    (nscEnd s sc).1.pushed = s.pushed := by
  simp only [nscEnd]
  split
  · simp
  · split
    · refine ⟨?_, ?_, rfl, rfl, rfl⟩ <;>
      · simp only [Option.map_map]
        congr 1
        funext w
        simp only [Function.comp, addSc, key]
        split <;> rfl
    · simp

theorem nscEnd_noPush (s : St) (sc : Nat) (o : Nat) (b : BState) : Ev.push o b ∉ (nscEnd s sc).2 := by
  simp only [nscEnd]
  split
  · simp
  · split <;> simp

theorem inv_subConnState (s : St) (h : Inv s) (sc : Nat) (x : ConnState) (l : Bool) :
    Inv (subConnState s sc x l).1 := by
  obtain ⟨a, b, c, d, e⟩ := subConnState_same s sc x l
  exact inv_of_same s _ h a b c d e

theorem inv_runScript (s : St) (h : Inv s) (id : Nat) (sc : Script) : Inv (runScript s id sc).1 := by
  cases sc with
  | st x => exact inv_updateState s h id x
  | nsc => exact inv_newSubConn s h id
  | nothing => exact h
  | retNil => exact h
  | retErr => exact h

/-! ### switchTo -/

/-- the state after the new wrapper was installed (before Build runs) -/
def install (s : St) (name : Nat) : St :=
  let bw : BW := ⟨s.serial + 1, name, initBState, []⟩
  if s.current.isNone then { s with current := some bw, serial := s.serial + 1 }
  else { s with pending := some bw, dead := toDead s.dead s.pending, serial := s.serial + 1 }

theorem pending_none_of_current_none (s : St) (h : Inv s) (hc : s.current = none) : s.pending = none := by
  cases hp : s.pending with
  | none => rfl
  | some p => have := h.pendCur p hp; simp [hc] at this

theorem inv_install (s : St) (h : Inv s) (hcl : s.closed = false) (name : Nat) : Inv (install s name) := by
  unfold install
  cases hc : s.current with
  | none =>
    have hp := pending_none_of_current_none s h hc
    simp only [Option.isNone_none, if_true]
    refine ⟨?_, ?_, ?_, ?_, ?_, ?_, ?_⟩
    · intro c p _ h2; simp [hp] at h2
    · intro c h1; simp only [Option.some.injEq] at h1; subst h1; simp
    · intro p h2; simp [hp] at h2
    · intro p h2; simp [hp] at h2
    · intro p h2; simp [hp] at h2
    · intro c h1; simp only [Option.some.injEq] at h1; subst h1; left; rfl
    · intro h1; simp [hcl] at h1
  | some c =>
    simp only [Option.isNone_some, Bool.false_eq_true, if_false]
    have hle := h.curLe c hc
    refine ⟨?_, ?_, ?_, ?_, ?_, ?_, ?_⟩
    · intro c' p h1 h2
      simp only [hc, Option.some.injEq] at h1 h2; subst h1; subst h2; simp; omega
    · intro c' h1; simp only [hc, Option.some.injEq] at h1; subst h1; simp; omega
    · intro p h2; simp only [Option.some.injEq] at h2; subst h2; simp
    · intro p _; simp [hc]
    · intro p h2; simp only [Option.some.injEq] at h2; subst h2; rfl
    · intro c' h1; simp only [hc, Option.some.injEq] at h1; subst h1; exact h.graceful _ hc
    · intro h1; simp [hcl] at h1

theorem switchTo_eq (s : St) (name : Nat) (sc : Script) :
    switchTo s name sc =
      if s.closed then (s, [], .closed) else
      if sc = .retNil then
        (if (install s name).pending.isSome then { install s name with pending := none }
         else { install s name with current := none },
         closeBW s.pending ++ [.build (s.serial + 1)], .bad)
      else ((runScript (install s name) (s.serial + 1) sc).1,
            closeBW s.pending ++ [.build (s.serial + 1)] ++ (runScript (install s name) (s.serial + 1) sc).2, .ok) := by
  unfold switchTo install
  split
  · rfl
  · split <;> rfl

theorem inv_switchTo (s : St) (h : Inv s) (name : Nat) (sc : Script) : Inv (switchTo s name sc).1 := by
  rw [switchTo_eq]
  split
  · exact h
  · next hcl =>
    have hi := inv_install s h (by simpa using hcl) name
    split
    · split
      · exact ⟨by intro c p _ h2; simp at h2, hi.curLe, by intro p h2; simp at h2, by intro p h2; simp at h2,
          by intro p h2; simp at h2, hi.graceful, by intro h1; have := hi.closedNone h1; simp [this.1]⟩
      · next hp =>
        have hp' : (install s name).pending = none := by simpa using hp
        exact ⟨by intro c p h1 _; simp at h1, by intro c h1; simp at h1, by simpa [hp'] using hi.pendLe,
          by intro p h2; simp [hp'] at h2, by intro p h2; simp [hp'] at h2, by intro c h1; simp at h1,
          by intro _; exact ⟨rfl, hp'⟩⟩
    · exact inv_runScript _ hi _ _

/-! ### the two per-op predicates as Props -/

def Role (s : St) (w : BW) : Prop := s.current = some w ∨ s.pending = some w

def PushOK (s' : St) (evs : List Ev) : Prop :=
  ∀ o b, Ev.push o b ∈ evs → match s'.current with | some c => o = c.id | none => o = 0

theorem pushesFromCurrent_iff (s' : St) (evs : List Ev) : pushesFromCurrent s' evs = true ↔ PushOK s' evs := by
  simp only [pushesFromCurrent, List.all_eq_true, PushOK]
  constructor
  · intro h o b hm
    have := h _ hm
    cases hc : s'.current <;> simpa [hc] using this
  · intro h e he
    cases e <;> try rfl
    next o b =>
      have := h o b he
      cases hc : s'.current <;> simpa [hc] using this

def Retired (s s' : St) (evs : List Ev) : Prop :=
  ∀ w, Role s w → curOrPend s' w.id = false →
    Ev.closeChild w.id ∈ evs ∧ ∀ sc ∈ w.subconns, Ev.sd sc ∈ evs

theorem retiredClosed_iff (s s' : St) (evs : List Ev) : retiredClosed s s' evs = true ↔ Retired s s' evs := by
  simp only [retiredClosed, List.all_eq_true, List.mem_append, Option.mem_toList, Bool.or_eq_true,
    Bool.and_eq_true, List.contains_iff_mem, Retired, Role]
  constructor
  · intro h w hw hf
    rcases h w (by simpa [Option.mem_def] using hw) with h1 | h1
    · simp [hf] at h1
    · exact h1
  · intro h w hw
    cases hcp : curOrPend s' w.id with
    | true => left; rfl
    | false => right; exact h w (by simpa [Option.mem_def] using hw) hcp

/-- roles of `s` (other than child `x`) that are still roles in `s1` kept their SubConn sets -/
def Keeps (x : Nat) (s s1 : St) : Prop :=
  ∀ w, Role s w → w.id ≠ x → curOrPend s1 w.id = true → ∃ w1, Role s1 w1 ∧ w1.id = w.id ∧ w1.subconns = w.subconns

theorem curOrPend_of_role (s : St) (w : BW) (h : Role s w) : curOrPend s w.id = true := by
  rcases h with h | h <;> simp [curOrPend, isCur, isPend, h]

theorem role_of_curOrPend (s : St) (id : Nat) (h : curOrPend s id = true) : ∃ w, Role s w ∧ w.id = id := by
  simp only [curOrPend, isCur, isPend, Bool.or_eq_true, Option.any_eq_true, decide_eq_true_eq] at h
  rcases h with ⟨w, h1, h2⟩ | ⟨w, h1, h2⟩
  · exact ⟨w, Or.inl h1, h2⟩
  · exact ⟨w, Or.inr h1, h2⟩

theorem retired_trans (x : Nat) (s s1 s2 : St) (ev1 ev2 : List Ev) (hx : ∀ w, Role s w → w.id ≠ x)
    (h1 : Retired s s1 ev1) (h2 : Retired s1 s2 ev2) (k : Keeps x s s1) : Retired s s2 (ev1 ++ ev2) := by
  intro w hw hf
  cases hcp : curOrPend s1 w.id with
  | false =>
    obtain ⟨a, b⟩ := h1 w hw hcp
    exact ⟨List.mem_append_left _ a, fun sc hsc => List.mem_append_left _ (b sc hsc)⟩
  | true =>
    obtain ⟨w1, r1, i1, e1⟩ := k w hw (hx w hw) hcp
    obtain ⟨a, b⟩ := h2 w1 r1 (by rw [i1]; exact hf)
    rw [i1] at a
    exact ⟨List.mem_append_right _ a, fun sc hsc => List.mem_append_right _ (b sc (e1 ▸ hsc))⟩

theorem keeps_trans (x : Nat) (s s1 s2 : St) (k1 : Keeps x s s1) (k2 : Keeps x s1 s2)
    (mono : ∀ id, curOrPend s2 id = true → curOrPend s id = true → curOrPend s1 id = true) : Keeps x s s2 := by
  intro w hw hne h2
  have h1 := mono w.id h2 (curOrPend_of_role s w hw)
  obtain ⟨w1, r1, i1, e1⟩ := k1 w hw hne h1
  obtain ⟨w2, r2, i2, e2⟩ := k2 w1 r1 (by rw [i1]; exact hne) (by rw [i1]; exact h2)
  exact ⟨w2, r2, i2.trans i1, e2.trans e1⟩

/-! ### a state report -/

theorem pushOK_updateState (s : St) (h : Inv s) (id : Nat) (x : ConnState) :
    PushOK (updateState s id x).1 (updateState s id x).2 := by
  intro o b hm
  cases updateState_report s h id x with
  | stale _ hev => rw [hev] at hm; simp at hm
  | curFwd c _ hid _ hev hc =>
    rw [hev] at hm; simp only [List.mem_singleton, Ev.push.injEq] at hm
    rw [hc]; simp [hm.1, hid]
  | curSwap c p _ _ _ _ hev hc =>
    rw [hev] at hm; simp only [closeBW, List.mem_cons, Ev.push.injEq, List.mem_map] at hm
    rw [hc]
    rcases hm with hm | hm | ⟨_, _, hm⟩
    · exact hm.1
    · cases hm
    · cases hm
  | pendSwap c p _ _ _ _ hev hc =>
    rw [hev] at hm; simp only [closeBW, List.mem_cons, Ev.push.injEq, List.mem_map] at hm
    rw [hc]
    rcases hm with hm | hm | ⟨_, _, hm⟩
    · exact hm.1
    · cases hm
    · cases hm
  | pendWait _ _ _ _ _ _ _ hev => rw [hev] at hm; simp at hm

theorem roles_updateState (s : St) (h : Inv s) (id : Nat) (x : ConnState) (w : BW) (hw : Role s w) :
    (∃ w1, Role (updateState s id x).1 w1 ∧ w1.id = w.id ∧ w1.subconns = w.subconns) ∨
    (curOrPend (updateState s id x).1 w.id = false ∧
      Ev.closeChild w.id ∈ (updateState s id x).2 ∧ ∀ sc ∈ w.subconns, Ev.sd sc ∈ (updateState s id x).2) := by
  cases updateState_report s h id x with
  | stale _ _ hc hp =>
    left; exact ⟨w, by rcases hw with hw | hw; exact Or.inl (hc ▸ hw); exact Or.inr (hp ▸ hw), rfl, rfl⟩
  | curFwd c hcur _ _ _ hc hp =>
    left
    rcases hw with hw | hw
    · rw [hcur] at hw; cases hw; exact ⟨_, Or.inl hc, rfl, rfl⟩
    · exact ⟨w, Or.inr (hp ▸ hw), rfl, rfl⟩
  | curSwap c p hcur hpend _ _ hev hc hp =>
    have hd := h.distinct c p hcur hpend
    rcases hw with hw | hw
    · rw [hcur] at hw; cases hw
      right
      refine ⟨?_, ?_, ?_⟩
      · simp [curOrPend, isCur, isPend, hc, hp, Ne.symm hd]
      · rw [hev]; simp [closeBW]
      · intro sc hsc; rw [hev]; simp [closeBW, hsc]
    · rw [hpend] at hw; cases hw; left; exact ⟨_, Or.inl hc, rfl, rfl⟩
  | pendSwap c p hcur hpend _ _ hev hc hp =>
    have hd := h.distinct c p hcur hpend
    rcases hw with hw | hw
    · rw [hcur] at hw; cases hw
      right
      refine ⟨?_, ?_, ?_⟩
      · simp [curOrPend, isCur, isPend, hc, hp, Ne.symm hd]
      · rw [hev]; simp [closeBW]
      · intro sc hsc; rw [hev]; simp [closeBW, hsc]
    · rw [hpend] at hw; cases hw; left; exact ⟨_, Or.inl hc, rfl, rfl⟩
  | pendWait c p hcur hpend _ _ _ _ hc hp =>
    left
    rcases hw with hw | hw
    · exact ⟨w, Or.inl (hc ▸ hw), rfl, rfl⟩
    · rw [hpend] at hw; cases hw; exact ⟨_, Or.inr hp, rfl, rfl⟩

theorem retired_updateState (s : St) (h : Inv s) (id : Nat) (x : ConnState) :
    Retired s (updateState s id x).1 (updateState s id x).2 := by
  intro w hw hf
  rcases roles_updateState s h id x w hw with ⟨w1, r1, i1, _⟩ | ⟨_, a, b⟩
  · have := curOrPend_of_role _ w1 r1; rw [i1, hf] at this; cases this
  · exact ⟨a, b⟩

theorem keeps_updateState (y : Nat) (s : St) (h : Inv s) (id : Nat) (x : ConnState) :
    Keeps y s (updateState s id x).1 := by
  intro w hw _ hcp
  rcases roles_updateState s h id x w hw with r | ⟨hf, _⟩
  · exact r
  · rw [hf] at hcp; cases hcp

/-- roles after a report were roles before (no new role appears) -/
theorem mono_updateState (s : St) (h : Inv s) (id : Nat) (x : ConnState) (i : Nat)
    (hi : curOrPend (updateState s id x).1 i = true) : curOrPend s i = true := by
  obtain ⟨w, hw, rfl⟩ := role_of_curOrPend _ _ hi
  cases updateState_report s h id x with
  | stale _ _ hc hp => exact curOrPend_of_role s w (by rcases hw with hw | hw; exact Or.inl (hc ▸ hw); exact Or.inr (hp ▸ hw))
  | curFwd c hcur _ _ _ hc hp =>
    rcases hw with hw | hw
    · rw [hc] at hw; cases hw; exact curOrPend_of_role s c (Or.inl hcur)
    · exact curOrPend_of_role s w (Or.inr (hp ▸ hw))
  | curSwap c p _ hpend _ _ _ hc hp =>
    rcases hw with hw | hw
    · rw [hc] at hw; cases hw; exact curOrPend_of_role s w (Or.inr hpend)
    · rw [hp] at hw; cases hw
  | pendSwap c p _ hpend _ _ _ hc hp =>
    rcases hw with hw | hw
    · rw [hc] at hw; cases hw; exact curOrPend_of_role s p (Or.inr hpend)
    · rw [hp] at hw; cases hw
  | pendWait c p _ hpend _ _ _ _ hc hp =>
    rcases hw with hw | hw
    · exact curOrPend_of_role s w (Or.inl (hc ▸ hw))
    · rw [hp] at hw; cases hw; exact curOrPend_of_role s p (Or.inr hpend)

/-! ### steps that keep the role ids -/

theorem curOrPend_of_same (s s' : St) (hc : s'.current.map key = s.current.map key)
    (hp : s'.pending.map key = s.pending.map key) (i : Nat) : curOrPend s' i = curOrPend s i := by
  have e1 : s'.current.map (·.id) = s.current.map (·.id) := by
    have := congrArg (Option.map Prod.fst) hc; simpa [Option.map_map, Function.comp_def, key] using this
  have e2 : s'.pending.map (·.id) = s.pending.map (·.id) := by
    have := congrArg (Option.map Prod.fst) hp; simpa [Option.map_map, Function.comp_def, key] using this
  have a : ∀ (o : Option BW), o.any (fun w => decide (w.id = i)) = (o.map (·.id)).any (fun j => decide (j = i)) := by
    intro o; cases o <;> rfl
  simp only [curOrPend, isCur, isPend, a, e1, e2]

theorem retired_of_same (s s' : St) (evs : List Ev) (hc : s'.current.map key = s.current.map key)
    (hp : s'.pending.map key = s.pending.map key) : Retired s s' evs := by
  intro w hw hf
  rw [curOrPend_of_same s s' hc hp, curOrPend_of_role s w hw] at hf
  cases hf

theorem newSubConn_noPush (s : St) (id : Nat) (o : Nat) (b : BState) : Ev.push o b ∉ (newSubConn s id).2 := by
  simp only [newSubConn]; split <;> simp

theorem keeps_newSubConn (s : St) (id : Nat) : Keeps id s (newSubConn s id).1 := by
  intro w hw hne _
  simp only [newSubConn]
  split
  · exact ⟨w, hw, rfl, rfl⟩
  · refine ⟨w, ?_, rfl, rfl⟩
    rcases hw with hw | hw
    · left; simp [hw, addSc, hne]
    · right; simp [hw, addSc, hne]

theorem runScript_serial (s : St) (id : Nat) (sc : Script) : (runScript s id sc).1.serial = s.serial := by
  cases sc with
  | st x => exact (updateState_frame s id x).1
  | nsc => exact (newSubConn_same s id).2.2.1
  | nothing => rfl
  | retNil => rfl
  | retErr => rfl

theorem pushOK_runScript (s : St) (h : Inv s) (id : Nat) (sc : Script) :
    PushOK (runScript s id sc).1 (runScript s id sc).2 := by
  cases sc with
  | st x => exact pushOK_updateState s h id x
  | nsc => intro o b hm; exact absurd hm (newSubConn_noPush s id o b)
  | nothing => intro o b hm; simp [runScript] at hm
  | retNil => intro o b hm; simp [runScript] at hm
  | retErr => intro o b hm; simp [runScript] at hm

theorem retired_runScript (s : St) (h : Inv s) (id : Nat) (sc : Script) :
    Retired s (runScript s id sc).1 (runScript s id sc).2 := by
  cases sc with
  | st x => exact retired_updateState s h id x
  | nsc => exact retired_of_same s _ _ (newSubConn_same s id).1 (newSubConn_same s id).2.1
  | nothing => exact retired_of_same s _ _ rfl rfl
  | retNil => exact retired_of_same s _ _ rfl rfl
  | retErr => exact retired_of_same s _ _ rfl rfl

theorem keeps_refl (x : Nat) (s : St) : Keeps x s s := fun w hw _ _ => ⟨w, hw, rfl, rfl⟩

theorem keeps_runScript (s : St) (h : Inv s) (id : Nat) (sc : Script) : Keeps id s (runScript s id sc).1 := by
  cases sc with
  | st x => exact keeps_updateState id s h id x
  | nsc => exact keeps_newSubConn s id
  | nothing => exact keeps_refl _ _
  | retNil => exact keeps_refl _ _
  | retErr => exact keeps_refl _ _

theorem mono_runScript (s : St) (h : Inv s) (id : Nat) (sc : Script) (i : Nat)
    (hi : curOrPend (runScript s id sc).1 i = true) : curOrPend s i = true := by
  cases sc with
  | st x => exact mono_updateState s h id x i hi
  | nsc => rw [← curOrPend_of_same s _ (newSubConn_same s id).1 (newSubConn_same s id).2.1]; exact hi
  | nothing => exact hi
  | retNil => exact hi
  | retErr => exact hi

theorem retired_mono (s s' : St) (ev ev' : List Ev) (h : Retired s s' ev) (sub : ∀ e ∈ ev, e ∈ ev') :
    Retired s s' ev' := by
  intro w hw hf
  obtain ⟨a, b⟩ := h w hw hf
  exact ⟨sub _ a, fun sc hsc => sub _ (b sc hsc)⟩

/-! ### install -/

theorem install_none (s : St) (name : Nat) (hc : s.current = none) :
    (install s name).current = some ⟨s.serial + 1, name, initBState, []⟩ ∧ (install s name).pending = s.pending := by
  simp [install, hc]

theorem install_some (s : St) (name : Nat) (c : BW) (hc : s.current = some c) :
    (install s name).current = some c ∧ (install s name).pending = some ⟨s.serial + 1, name, initBState, []⟩ := by
  simp [install, hc]

theorem role_le (s : St) (h : Inv s) (w : BW) (hw : Role s w) : w.id ≤ s.serial := by
  rcases hw with hw | hw
  · exact h.curLe w hw
  · exact h.pendLe w hw

theorem retired_install (s : St) (h : Inv s) (name : Nat) :
    Retired s (install s name) (closeBW s.pending ++ [.build (s.serial + 1)]) := by
  intro w hw hf
  cases hc : s.current with
  | none =>
    have hp := pending_none_of_current_none s h hc
    rcases hw with hw | hw
    · rw [hc] at hw; cases hw
    · rw [hp] at hw; cases hw
  | some c =>
    obtain ⟨e1, e2⟩ := install_some s name c hc
    rcases hw with hw | hw
    · rw [hc] at hw; cases hw
      simp [curOrPend, isCur, e1] at hf
    · rw [hw]; simp [closeBW]

theorem keeps_install (x : Nat) (s : St) (h : Inv s) (name : Nat) : Keeps x s (install s name) := by
  intro w hw _ hcp
  cases hc : s.current with
  | none =>
    have hp := pending_none_of_current_none s h hc
    rcases hw with hw | hw
    · rw [hc] at hw; cases hw
    · rw [hp] at hw; cases hw
  | some c =>
    obtain ⟨e1, e2⟩ := install_some s name c hc
    rcases hw with hw | hw
    · rw [hc] at hw; cases hw; exact ⟨w, Or.inl e1, rfl, rfl⟩
    · have hd := h.distinct c w hc hw
      have hl := h.pendLe w hw
      simp only [curOrPend, isCur, isPend, e1, e2, Option.any_some, Bool.or_eq_true, decide_eq_true_eq] at hcp
      rcases hcp with hcp | hcp
      · exact absurd hcp hd
      · omega

/-- a push during Build means the new policy is now the current one and nothing is pending -/
theorem build_push (s : St) (h : Inv s) (hcl : s.closed = false) (name : Nat) (sc : Script) (o : Nat) (b : BState)
    (hm : Ev.push o b ∈ (runScript (install s name) (s.serial + 1) sc).2) :
    (runScript (install s name) (s.serial + 1) sc).1.current.map (·.id) = some (s.serial + 1) ∧
    (runScript (install s name) (s.serial + 1) sc).1.pending = none := by
  have hi := inv_install s h hcl name
  cases sc with
  | nsc => exact absurd hm (newSubConn_noPush _ _ o b)
  | nothing => simp [runScript] at hm
  | retNil => simp [runScript] at hm
  | retErr => simp [runScript] at hm
  | st x =>
    simp only [runScript] at hm ⊢
    cases updateState_report (install s name) hi (s.serial + 1) x with
    | stale _ hev => rw [hev] at hm; simp at hm
    | pendWait _ _ _ _ _ _ _ hev => rw [hev] at hm; simp at hm
    | curFwd c hcur hid _ _ hc hp =>
      cases hs : s.current with
      | none =>
        obtain ⟨_, e2⟩ := install_none s name hs
        rw [hc, hp, e2, pending_none_of_current_none s h hs]; simp [hid]
      | some c0 =>
        obtain ⟨e1, _⟩ := install_some s name c0 hs
        rw [e1] at hcur; cases hcur
        have := h.curLe c hs; omega
    | curSwap c p hcur hpend hid =>
      cases hs : s.current with
      | none =>
        obtain ⟨_, e2⟩ := install_none s name hs
        rw [e2, pending_none_of_current_none s h hs] at hpend; cases hpend
      | some c0 =>
        obtain ⟨e1, _⟩ := install_some s name c0 hs
        rw [e1] at hcur; cases hcur
        have := h.curLe c hs; omega
    | pendSwap c p _ _ hid _ _ hc hp => rw [hc, hp]; simp [hid]

/-- … and it stays so through whatever the new policy does next in the same call -/
theorem stays_current (s : St) (h : Inv s) (id : Nat) (sc : Script)
    (hc : s.current.map (·.id) = some id) (hp : s.pending = none) :
    (runScript s id sc).1.current.map (·.id) = some id := by
  cases sc with
  | nothing => exact hc
  | retNil => exact hc
  | retErr => exact hc
  | nsc =>
    have := (newSubConn_same s id).1
    have e := congrArg (Option.map Prod.fst) this
    simp only [Option.map_map, Function.comp_def, key] at e
    simp only [runScript]; rw [e]; exact hc
  | st x =>
    simp only [runScript]
    cases updateState_report s h id x with
    | stale _ _ hc' => rw [hc']; exact hc
    | curFwd c _ hid _ _ hc' => rw [hc']; simp [hid]
    | curSwap c p _ hpend => rw [hp] at hpend; cases hpend
    | pendSwap c p _ hpend => rw [hp] at hpend; cases hpend
    | pendWait c p _ hpend => rw [hp] at hpend; cases hpend

/-! ### every op -/

theorem closeBW_noPush (w : Option BW) (o : Nat) (b : BState) : Ev.push o b ∉ closeBW w := by
  cases w <;> simp [closeBW]

structure StepOK (s s' : St) (evs : List Ev) : Prop where
  inv : Inv s'
  push : PushOK s' evs
  retired : Retired s s' evs

theorem stepOK_same (s s' : St) (h : Inv s) (evs : List Ev) (hc : s'.current.map key = s.current.map key)
    (hp : s'.pending.map key = s.pending.map key) (hs : s'.serial = s.serial) (hcl : s'.closed = s.closed)
    (hpu : s'.pushed = s.pushed) (np : ∀ o b, Ev.push o b ∉ evs) : StepOK s s' evs :=
  ⟨inv_of_same s s' h hc hp hs hcl hpu, fun o b hm => absurd hm (np o b), retired_of_same s s' evs hc hp⟩

theorem stepOK_runScript (s : St) (h : Inv s) (id : Nat) (sc : Script) (pre : List Ev)
    (np : ∀ o b, Ev.push o b ∉ pre) :
    StepOK s (runScript s id sc).1 (pre ++ (runScript s id sc).2) := by
  refine ⟨inv_runScript s h id sc, ?_, ?_⟩
  · intro o b hm
    rcases List.mem_append.mp hm with hm | hm
    · exact absurd hm (np o b)
    · exact pushOK_runScript s h id sc o b hm
  · exact retired_mono _ _ _ _ (retired_runScript s h id sc) (fun e he => List.mem_append_right _ he)

theorem stepOK_switchTo (s : St) (h : Inv s) (name : Nat) (sc : Script) :
    StepOK s (switchTo s name sc).1 (switchTo s name sc).2.1 := by
  refine ⟨inv_switchTo s h name sc, ?_, ?_⟩
  · rw [switchTo_eq]
    split
    · intro o b hm; simp at hm
    · next hcl =>
      have hi := inv_install s h (by simpa using hcl) name
      split
      · intro o b hm
        simp only [List.mem_append, List.mem_singleton] at hm
        rcases hm with hm | hm
        · exact absurd hm (closeBW_noPush _ o b)
        · cases hm
      · intro o b hm
        simp only [List.mem_append, List.mem_singleton] at hm
        rcases hm with (hm | hm) | hm
        · exact absurd hm (closeBW_noPush _ o b)
        · cases hm
        · exact pushOK_runScript _ hi _ _ o b hm
  · rw [switchTo_eq]
    split
    · exact retired_of_same s s _ rfl rfl
    · next hcl =>
      have hi := inv_install s h (by simpa using hcl) name
      have hr := retired_install s h name
      split
      · -- Build returned nil: the new wrapper is dropped again
        intro w hw hf
        apply hr w hw
        cases hc : s.current with
        | none =>
          have hp := pending_none_of_current_none s h hc
          rcases hw with hw | hw
          · rw [hc] at hw; cases hw
          · rw [hp] at hw; cases hw
        | some c =>
          obtain ⟨e1, e2⟩ := install_some s name c hc
          simp only [e2, Option.isSome_some, if_true] at hf
          simp only [curOrPend, isCur, isPend, e1, e2, Bool.or_eq_false_iff] at hf ⊢
          simp only [Option.any_none, and_true] at hf
          have hl := role_le s h w hw
          refine ⟨hf, ?_⟩
          simp only [Option.any_some, decide_eq_false_iff_not]; omega
      · have := retired_trans (s.serial + 1) s (install s name) _ _ _
          (fun w hw => by have := role_le s h w hw; omega) hr
          (retired_runScript (install s name) hi (s.serial + 1) sc) (keeps_install _ s h name)
        exact this

theorem latest_none (s : St) (_h : Inv s) (hl : latest s = none) : s.current = none ∧ s.pending = none := by
  unfold latest at hl
  cases hp : s.pending with
  | some p => simp [hp] at hl
  | none => simp only [hp] at hl; exact ⟨hl, rfl⟩

theorem stepOK_ucc (s : St) (h : Inv s) (name : Option Nat) (build sc : Script) :
    StepOK s (step s (.ucc name build sc)).1 (step s (.ucc name build sc)).2.1 := by
  have fwd : ∀ w : BW, StepOK s (runScript s w.id sc).1 ([] ++ [Ev.ucc w.id] ++ (runScript s w.id sc).2) := by
    intro w
    exact stepOK_runScript s h w.id sc _ (by intro o b hm; simp at hm)
  have closedCase : StepOK s s [] := stepOK_same s s h [] rfl rfl rfl rfl rfl (by intro o b hm; simp at hm)
  cases name with
  | none =>
    simp only [step]
    cases hl : latest s with
    | none => exact closedCase
    | some w => exact fwd w
  | some n =>
    simp only [step]
    split
    · -- automatic switch
      have hsw := stepOK_switchTo s h n build
      split
      · exact hsw
      · next hr =>
        -- the switch succeeded: not closed, Build did not return nil
        have hr' : (switchTo s n build).2.2 = .ok := by simpa using hr
        rw [switchTo_eq] at hr' hsw ⊢
        split at hr'
        · cases hr'
        · next hcl =>
          split at hr'
          · cases hr'
          · next hnil =>
            simp only [hcl, hnil, if_false, Bool.false_eq_true, ↓reduceIte] at hsw ⊢
            have hcl' : s.closed = false := by simpa using hcl
            have hi := inv_install s h hcl' n
            generalize ht : runScript (install s n) (s.serial + 1) build = r1 at hsw ⊢
            have hser : r1.1.serial = s.serial + 1 := by
              rw [← ht, runScript_serial]; simp [install]; split <;> rfl
            have hinv1 : Inv r1.1 := by rw [← ht]; exact inv_runScript _ hi _ _
            simp only [hser]
            refine ⟨inv_runScript _ hinv1 _ _, ?_, ?_⟩
            · intro o b hm
              simp only [List.mem_append, List.mem_singleton] at hm
              rcases hm with ((((hm | hm) | hm) | hm) | hm)
              · exact absurd hm (closeBW_noPush _ o b)
              · cases hm
              · -- pushed during Build: the new policy is current and stays current
                have hb := build_push s h hcl' n build o b (by rw [ht]; exact hm)
                rw [ht] at hb
                have ho := hsw.push o b (by simp [hm])
                have hst := stays_current r1.1 hinv1 (s.serial + 1) sc hb.1 hb.2
                cases hc1 : r1.1.current with
                | none => simp [hc1] at hb
                | some c1 =>
                  simp only [hc1] at ho
                  simp only [hc1, Option.map_some, Option.some.injEq] at hb
                  cases hc2 : (runScript r1.1 (s.serial + 1) sc).1.current with
                  | none => simp [hc2] at hst
                  | some c2 =>
                    simp only [hc2, Option.map_some, Option.some.injEq] at hst
                    show o = c2.id
                    omega
              · cases hm
              · exact pushOK_runScript _ hinv1 _ _ o b hm
            · have k1 : Keeps (s.serial + 1) s r1.1 := by
                rw [← ht]
                exact keeps_trans _ s (install s n) _ (keeps_install _ s h n) (keeps_runScript _ hi _ _)
                  (fun i hi2 _ => mono_runScript _ hi _ _ i hi2)
              have := retired_trans (s.serial + 1) s r1.1 _ _ _
                (fun w hw => by have := role_le s h w hw; omega) hsw.retired
                (retired_mono _ _ _ ([Ev.ucc (s.serial + 1)] ++ (runScript r1.1 (s.serial + 1) sc).2)
                  (retired_runScript r1.1 hinv1 (s.serial + 1) sc) (fun e he => List.mem_append_right _ he)) k1
              simpa [List.append_assoc] using this
    · cases hl : latest s with
      | none => exact closedCase
      | some w => exact fwd w

theorem stepOK_step (s : St) (h : Inv s) (op : Op) : StepOK s (step s op).1 (step s op).2.1 := by
  have same : ∀ evs : List Ev, (∀ o b, Ev.push o b ∉ evs) → StepOK s s evs :=
    fun evs np => stepOK_same s s h evs rfl rfl rfl rfl rfl np
  cases op with
  | switchTo name sc => exact stepOK_switchTo s h name sc
  | ucc name build sc => exact stepOK_ucc s h name build sc
  | resErr =>
    simp only [step]
    cases hl : latest s with
    | some w => exact same _ (by intro o b hm; simp at hm)
    | none =>
      obtain ⟨hc, hp⟩ := latest_none s h hl
      refine ⟨?_, ?_, ?_⟩
      · exact ⟨by intro c p h1; simp [hc] at h1, by intro c h1; simp [hc] at h1, by intro p h2; simp [hp] at h2,
          by intro p h2; simp [hp] at h2, by intro p h2; simp [hp] at h2, by intro c h1; simp [hc] at h1,
          by intro _; exact ⟨hc, hp⟩⟩
      · intro o b hm
        simp only [List.mem_singleton, Ev.push.injEq] at hm
        simp [hc, hm.1]
      · exact retired_of_same s _ _ rfl rfl
  | exitIdle =>
    simp only [step]
    cases hl : latest s with
    | some w => exact same _ (by intro o b hm; simp at hm)
    | none => exact same _ (by intro o b hm; simp at hm)
  | close =>
    simp only [step]
    refine ⟨?_, ?_, ?_⟩
    · exact ⟨by intro c p h1; simp at h1, by intro c h1; simp at h1, by intro p h2; simp at h2,
        by intro p h2; simp at h2, by intro p h2; simp at h2, by intro c h1; simp at h1, by intro _; exact ⟨rfl, rfl⟩⟩
    · intro o b hm
      rcases List.mem_append.mp hm with hm | hm <;> exact absurd hm (closeBW_noPush _ o b)
    · intro w hw _
      rcases hw with hw | hw
      · rw [hw]; simp only [closeBW]; refine ⟨by simp, fun sc hsc => ?_⟩; simp [hsc]
      · rw [hw]; simp only [closeBW]; refine ⟨by simp, fun sc hsc => ?_⟩; simp [hsc]
  | st child x =>
    simp only [step]
    exact ⟨inv_updateState s h child x, pushOK_updateState s h child x, retired_updateState s h child x⟩
  | nsc child =>
    simp only [step]
    obtain ⟨a, b, c, d, e⟩ := newSubConn_same s child
    exact stepOK_same s _ h _ a b c d e (newSubConn_noPush s child)
  | nscb child =>
    simp only [step, nscBegin]
    split
    · exact same _ (by intro o b hm; simp at hm)
    · exact stepOK_same s _ h _ rfl rfl rfl rfl rfl (by intro o b hm; simp at hm)
  | nsce sc =>
    simp only [step]
    obtain ⟨a, b, c, d, e⟩ := nscEnd_same s sc
    exact stepOK_same s _ h _ a b c d e (nscEnd_noPush s sc)
  | scst sc x =>
    simp only [step]
    obtain ⟨a, b, c, d, e⟩ := subConnState_same s sc x true
    refine stepOK_same s _ h _ a b c d e ?_
    intro o b hm; simp only [subConnState] at hm; split at hm <;> simp at hm
  | uscs sc x =>
    simp only [step]
    obtain ⟨a, b, c, d, e⟩ := subConnState_same s sc x false
    refine stepOK_same s _ h _ a b c d e ?_
    intro o b hm; simp only [subConnState] at hm; split at hm <;> simp at hm
  | scsd sc => simp only [step]; exact same _ (by intro o b hm; simp at hm)
  | rn child => simp only [step]; exact same _ (by intro o b hm; split at hm <;> simp at hm)
  | ua child sc => simp only [step]; exact same _ (by intro o b hm; split at hm <;> simp at hm)

theorem inv_init : Inv {} :=
  ⟨by intro c p h1; simp at h1, by intro c h1; simp at h1, by intro p h2; simp at h2, by intro p h2; simp at h2,
   by intro p h2; simp at h2, by intro c h1; simp at h1, by intro h1; simp at h1⟩

theorem inv_run (s : St) (h : Inv s) (ops : List Op) : Inv (run s ops) := by
  induction ops generalizing s with
  | nil => exact h
  | cons op t ih => exact ih _ (stepOK_step s h op).inv

/-! ### the swap rule -/

/-- value of `shouldSwap` in each of the five cases -/
theorem shouldSwap_report (s : St) (h : Inv s) (id : Nat) (x : ConnState) :
    (shouldSwap s id x = true ∧ ∃ c p, s.current = some c ∧ s.pending = some p ∧ (c.id = id ∨ p.id = id)) ∨
    (shouldSwap s id x = false) := by
  cases updateState_report s h id x with
  | stale hcp =>
    simp only [curOrPend, Bool.or_eq_false_iff] at hcp
    right; simp [shouldSwap, hcp.1, hcp.2]
  | curFwd c hcur hid hno =>
    have hnp : isPend s id = false := by
      cases hp : s.pending with
      | none => simp [isPend, hp]
      | some p => have := h.distinct c p hcur hp; simp [isPend, hp]; omega
    right
    rcases hno with hno | hno <;> simp [shouldSwap, hnp, hno]
  | curSwap c p hcur hpend hid hx =>
    left
    refine ⟨?_, c, p, hcur, hpend, Or.inl hid⟩
    simp [shouldSwap, isCur, hcur, hid, hpend, hx]
  | pendSwap c p hcur hpend hid hx =>
    left
    refine ⟨?_, c, p, hcur, hpend, Or.inr hid⟩
    rcases hx with hx | hx <;> simp [shouldSwap, isPend, hpend, hid, hcur, hx]
  | pendWait c p hcur hpend hid hx hr =>
    have hd := h.distinct c p hcur hpend
    have hic : isCur s id = false := by simp [isCur, hcur]; omega
    right; simp [shouldSwap, hic, hcur, hx, hr]

theorem report_spec (s : St) (h : Inv s) (id : Nat) (x : ConnState) :
    (updateState s id x).2 = specReport s id x := by
  cases updateState_report s h id x with
  | stale hcp hev =>
    simp only [curOrPend, Bool.or_eq_false_iff] at hcp
    rw [hev]; simp [specReport, shouldSwap, hcp.1, hcp.2]
  | curFwd c hcur hid hno hev =>
    have hnp : isPend s id = false := by
      cases hp : s.pending with
      | none => simp [isPend, hp]
      | some p => have := h.distinct c p hcur hp; simp [isPend, hp]; omega
    have hic : isCur s id = true := by simp [isCur, hcur, hid]
    have hss : shouldSwap s id x = false := by
      rcases hno with hno | hno <;> simp [shouldSwap, hnp, hno]
    rw [hev]; unfold specReport; rw [hss, hic]; rfl
  | curSwap c p hcur hpend hid hx hev =>
    have hd := h.distinct c p hcur hpend
    have hss : shouldSwap s id x = true := by simp [shouldSwap, isCur, hcur, hid, hpend, hx]
    have hpid : ¬ p.id = id := by omega
    rw [hev]; unfold specReport; rw [hss]; simp only [hpend, hpid, if_false, if_true, hcur]
  | pendSwap c p hcur hpend hid hx hev =>
    have hss : shouldSwap s id x = true := by
      rcases hx with hx | hx <;> simp [shouldSwap, isPend, hpend, hid, hcur, hx]
    rw [hev]; unfold specReport; rw [hss]; simp only [hpend, hid, if_true, hcur]
  | pendWait c p hcur hpend hid hx hr hev =>
    have hd := h.distinct c p hcur hpend
    have hic : isCur s id = false := by simp [isCur, hcur]; omega
    have hss : shouldSwap s id x = false := by simp [shouldSwap, hic, hcur, hx, hr]
    rw [hev]; unfold specReport; rw [hss, hic]; rfl

theorem report_effect (s : St) (h : Inv s) (id : Nat) (x : ConnState) :
    (shouldSwap s id x = true →
      (updateState s id x).1.current.map (·.id) = s.pending.map (·.id) ∧ (updateState s id x).1.pending = none ∧
      ∀ c, s.current = some c → curOrPend (updateState s id x).1 c.id = false) ∧
    (shouldSwap s id x = false →
      (updateState s id x).1.current.map (·.id) = s.current.map (·.id) ∧
      (updateState s id x).1.pending.map (·.id) = s.pending.map (·.id)) := by
  cases updateState_report s h id x with
  | stale hcp _ hc hp =>
    simp only [curOrPend, Bool.or_eq_false_iff] at hcp
    have hss : shouldSwap s id x = false := by simp [shouldSwap, hcp.1, hcp.2]
    rw [hss, hc, hp]; simp
  | curFwd c hcur hid hno _ hc hp =>
    have hnp : isPend s id = false := by
      cases hp' : s.pending with
      | none => simp [isPend, hp']
      | some p => have := h.distinct c p hcur hp'; simp [isPend, hp']; omega
    have hss : shouldSwap s id x = false := by
      rcases hno with hno | hno <;> simp [shouldSwap, hnp, hno]
    rw [hss, hc, hp, hcur]; simp
  | curSwap c p hcur hpend hid hx _ hc hp =>
    have hd := h.distinct c p hcur hpend
    have hss : shouldSwap s id x = true := by simp [shouldSwap, isCur, hcur, hid, hpend, hx]
    rw [hss, hc, hp, hpend, hcur]
    simp [curOrPend, isCur, isPend, hc, hp]; omega
  | pendSwap c p hcur hpend hid hx _ hc hp =>
    have hd := h.distinct c p hcur hpend
    have hss : shouldSwap s id x = true := by
      rcases hx with hx | hx <;> simp [shouldSwap, isPend, hpend, hid, hcur, hx]
    rw [hss, hc, hp, hpend, hcur]
    simp [curOrPend, isCur, isPend, hc, hp]; omega
  | pendWait c p hcur hpend hid hx hr _ hc hp =>
    have hd := h.distinct c p hcur hpend
    have hic : isCur s id = false := by simp [isCur, hcur]; omega
    have hss : shouldSwap s id x = false := by simp [shouldSwap, hic, hcur, hx, hr]
    rw [hss, hc, hp, hpend]; simp

theorem step_closed (s : St) (op : Op) (hcl : s.closed = true) : (step s op).1.closed = true := by
  cases op with
  | switchTo name sc => simp [step, switchTo, hcl]
  | ucc name build sc =>
    have fwd : ∀ (w : BW), (runScript s w.id sc).1.closed = true := by
      intro w
      cases sc with
      | st x => simp only [runScript]; rw [(updateState_frame s w.id x).2.1]; exact hcl
      | nsc => simp only [runScript]; rw [(newSubConn_same s w.id).2.2.2.1]; exact hcl
      | nothing => exact hcl
      | retNil => exact hcl
      | retErr => exact hcl
    cases name with
    | none => simp only [step]; cases latest s <;> simp [hcl, fwd]
    | some n =>
      simp only [step]
      split
      · simp [switchTo, hcl]
      · cases latest s <;> simp [hcl, fwd]
  | resErr => simp only [step]; cases latest s <;> simp [hcl]
  | exitIdle => simp only [step]; cases latest s <;> simp [hcl]
  | close => simp [step]
  | st child x => simp only [step]; rw [(updateState_frame s child x).2.1]; exact hcl
  | nsc child => simp only [step]; rw [(newSubConn_same s child).2.2.2.1]; exact hcl
  | nscb child => simp only [step, nscBegin]; split <;> exact hcl
  | nsce sc => simp only [step]; rw [(nscEnd_same s sc).2.2.2.1]; exact hcl
  | scst sc x => simp only [step]; rw [(subConnState_same s sc x true).2.2.2.1]; exact hcl
  | uscs sc x => simp only [step]; rw [(subConnState_same s sc x false).2.2.2.1]; exact hcl
  | scsd sc => simp [step, hcl]
  | rn child => simp [step, hcl]
  | ua child sc => simp [step, hcl]

theorem run_closed (s : St) (ops : List Op) (hcl : s.closed = true) : (run s ops).closed = true := by
  induction ops generalizing s with
  | nil => exact hcl
  | cons op t ih => exact ih _ (step_closed s op hcl)

end GrpcProofs.Lemmas.GracefulSwitch
