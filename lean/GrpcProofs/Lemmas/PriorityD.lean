/-
Helper lemmas for C39, part 4: init-timer callbacks that have been dispatched but have not yet
obtained the balancer's mutex (`St.pending`).  No operation other than `dispatch` / `runcb` touches
them or the clock, and a callback waits only for a timer whose deadline has passed.
-/
import GrpcProofs.Lemmas.PriorityC
namespace GrpcProofs.Lemmas.Priority
open GrpcModel.Priority

/-- the waiting callbacks and the clock are untouched -/
structure Frame (s t : St) : Prop where
  pending : t.pending = s.pending
  now : t.now = s.now

theorem Frame.refl (s : St) : Frame s s := ⟨rfl, rfl⟩
theorem Frame.trans {a b c : St} (h1 : Frame a b) (h2 : Frame b c) : Frame a c :=
  ⟨h2.pending.trans h1.pending, h2.now.trans h1.now⟩

theorem stopChild_frame (s : St) (n : Nat) (imm : Bool) : Frame s (stopChild s n imm) := by
  unfold stopChild
  repeat' split
  all_goals exact ⟨rfl, rfl⟩

theorem startChild_frame (s : St) (n : Nat) : Frame s (startChild s n) := by
  unfold startChild
  split
  · exact ⟨rfl, rfl⟩
  · split
    · exact ⟨rfl, rfl⟩
    · dsimp only
      split
      · split <;> exact ⟨rfl, rfl⟩
      · exact ⟨rfl, rfl⟩

theorem stopLower_frame (s : St) (lower : List Nat) : Frame s (stopLower s lower) := by
  unfold stopLower
  induction lower generalizing s with
  | nil => exact Frame.refl s
  | cons n rest ih =>
    simp only [List.foldl_cons]
    exact (stopChild_frame s n false).trans (ih _)

theorem switchTo_frame (s : St) (c : Child) (rest : List Nat) : Frame s (switchTo s c rest) := by
  unfold switchTo
  have h1 := stopLower_frame s rest
  simp only
  split
  · exact h1
  · split
    · exact (Frame.trans h1 (⟨rfl, rfl⟩ : Frame (stopLower s rest) { stopLower s rest with inUse := some c.name })).trans
        (startChild_frame _ c.name)
    · exact Frame.trans h1 ⟨rfl, rfl⟩

theorem syncFrom_frame (s : St) (upd : Option Nat) (rest : List Nat) : Frame s (syncFrom s upd rest) := by
  induction rest with
  | nil => exact Frame.refl s
  | cons n rest' ih =>
    simp only [syncFrom]
    split
    · exact ih
    · split
      · split
        · exact Frame.trans (⟨rfl, rfl⟩ : Frame s (sendUp s _)) (switchTo_frame _ _ _)
        · exact switchTo_frame _ _ _
      · exact ih

theorem sync_frame (s : St) (upd : Option Nat) : Frame s (sync s upd) := syncFrom_frame s upd s.prios

theorem handleChild_frame (s : St) (n : Nat) (p : PState) : Frame s (handleChild s n p) := by
  unfold handleChild
  split
  · exact Frame.refl s
  · split
    · exact Frame.refl s
    · exact Frame.trans (⟨rfl, rfl⟩ : Frame s (modChild s n _)) (sync_frame _ _)

theorem handleChild_frame' (s t : St) (hp : t.pending = s.pending) (hn : t.now = s.now) (n : Nat) (p : PState) :
    Frame s (handleChild t n p) :=
  Frame.trans ⟨hp, hn⟩ (handleChild_frame t n p)

theorem drain_frame (fuel : Nat) (s : St) : Frame s (drain fuel s) := by
  induction fuel generalizing s with
  | zero => exact Frame.refl s
  | succ k ih =>
    unfold drain
    split
    · exact Frame.refl s
    · next n p rest _ =>
      exact (Frame.trans (⟨rfl, rfl⟩ : Frame s { s with queue := rest }) (handleChild_frame _ n p)).trans (ih _)

theorem settle_frame (s : St) : Frame s (settle s) := drain_frame _ s

theorem timerFire_frame (s : St) (n : Nat) : Frame s (timerFire s n) := by
  unfold timerFire
  exact (Frame.trans (⟨rfl, rfl⟩ : Frame s (modChild s n _)) (sync_frame _ _)).trans (settle_frame _)

theorem updChild_frame (s : St) (nt : Nat × Nat) : Frame s (updChild s nt) := by
  unfold updChild
  split
  · exact ⟨rfl, rfl⟩
  · next c _ =>
    simp only
    have h1 : Frame s (if c.typ ≠ nt.2 then modChild (stopChild s nt.1 true) nt.1 fun c => { c with typ := nt.2 } else s) := by
      split
      · exact Frame.trans (stopChild_frame s nt.1 true) ⟨rfl, rfl⟩
      · exact Frame.refl s
    split
    · split
      · exact Frame.trans h1 ⟨rfl, rfl⟩
      · exact h1
    · exact h1

theorem foldl_updChild_frame (kids : List (Nat × Nat)) (s : St) : Frame s (kids.foldl updChild s) := by
  induction kids generalizing s with
  | nil => exact Frame.refl s
  | cons nt rest ih =>
    simp only [List.foldl_cons]
    exact (updChild_frame s nt).trans (ih _)

theorem foldl_stop_frame (l : List Nat) (s : St) : Frame s (l.foldl (fun s n => stopChild s n true) s) := by
  induction l generalizing s with
  | nil => exact Frame.refl s
  | cons n rest ih =>
    simp only [List.foldl_cons]
    exact (stopChild_frame s n true).trans (ih _)

theorem dropChildren_frame (s : St) (keep : List Nat) : Frame s (dropChildren s keep) := by
  unfold dropChildren
  simp only
  exact Frame.trans (foldl_stop_frame _ s) ⟨rfl, rfl⟩

theorem update_frame (s : St) (prios : List Nat) (kids : List (Nat × Nat)) : Frame s (update s prios kids) := by
  unfold update
  simp only
  have h1 := (foldl_updChild_frame kids s).trans (dropChildren_frame (kids.foldl updChild s) (kids.map (·.1)))
  have h2 : Frame s { dropChildren (kids.foldl updChild s) (kids.map (·.1)) with prios := prios } := Frame.trans h1 ⟨rfl, rfl⟩
  split
  · exact Frame.trans h2 ⟨rfl, rfl⟩
  · exact (h2.trans (sync_frame _ _)).trans (settle_frame _)

/-- a callback waits only for a timer whose deadline has passed -/
def PendOK (s : St) : Prop := ∀ p ∈ s.pending, p.2 ≤ s.now

theorem pendOK_frame {s t : St} (h : PendOK s) (f : Frame s t) : PendOK t := by
  intro p hp; rw [f.pending] at hp; rw [f.now]; exact h p hp

theorem step_pendOK (s : St) (h : PendOK s) (op : Op) : PendOK (step s op) := by
  have hc : Frame s (clearOut s) := ⟨rfl, rfl⟩
  cases op with
  | update prios kids => exact pendOK_frame h (hc.trans (update_frame _ prios kids))
  | child n conn =>
    show PendOK ((childReport (clearOut s) n conn).getD (clearOut s))
    unfold childReport
    split
    · exact pendOK_frame h hc
    · simp only [Option.getD_some]
      refine pendOK_frame h ((hc.trans ?_).trans (settle_frame _))
      apply handleChild_frame' <;> rfl
  | timer n =>
    show PendOK (match findChild s n with
      | some c => if c.timer.isSome then timerFire (clearOut s) n else clearOut s
      | none => clearOut s)
    split
    · split
      · exact pendOK_frame h (hc.trans (timerFire_frame _ n))
      · exact pendOK_frame h hc
    · exact pendOK_frame h hc
  | expire n =>
    show PendOK (match findSb s n with
      | some b => if b.cachedUntil.isSome then cacheExpire (clearOut s) n else clearOut s
      | none => clearOut s)
    split
    · split
      · exact pendOK_frame h (hc.trans ⟨rfl, rfl⟩)
      · exact pendOK_frame h hc
    · exact pendOK_frame h hc
  | advance d =>
    intro p hp
    have := h p hp
    show p.2 ≤ s.now + (d : Int)
    omega
  | dispatch n =>
    show PendOK (dispatch (clearOut s) n)
    unfold dispatch
    split
    · exact pendOK_frame h hc
    · split
      · exact pendOK_frame h hc
      · next c _ d hd =>
        split
        · next hcond =>
          intro p hp
          have hp' : p ∈ s.pending ++ [(n, d)] := hp
          rcases List.mem_append.mp hp' with h1 | h1
          · exact h p h1
          · simp only [List.mem_singleton] at h1
            subst h1
            exact hcond.1
        · exact pendOK_frame h hc
  | runcb =>
    show PendOK (runCallback (clearOut s))
    rw [runCallback_eq]
    split
    · exact pendOK_frame h hc
    · next n d rest hpend =>
      have h1 : PendOK { clearOut s with pending := rest } := by
        intro p hp
        have hp' : p ∈ s.pending := by
          have : (clearOut s).pending = s.pending := rfl
          rw [← this, hpend]; exact List.mem_cons_of_mem _ hp
        exact h p hp'
      split
      · exact h1
      · split
        · exact pendOK_frame h1 (timerFire_frame _ n)
        · exact h1

theorem reach_pendOK {s : St} (h : Reach s) : PendOK s := by
  induction h with
  | init => intro p hp; simp [GrpcModel.Priority.init] at hp
  | step op _ _ ih => exact step_pendOK _ ih op

end GrpcProofs.Lemmas.Priority
