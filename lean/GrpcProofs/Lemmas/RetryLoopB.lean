/-
Helper lemmas about GrpcModel.RetryLoop, part B (see RetryLoopA.lean).
-/
import GrpcProofs.Lemmas.RetryLoopA
namespace GrpcProofs.Lemmas.RetryLoop
open GrpcModel.Retry GrpcModel.RetryLoop GrpcProofs.Lemmas.Retry

/-! ### withRetry -/

theorem applyOp_blocks_pend (st : St) (op : COp) (h : (st.applyOp op).2.1 = .blocks) : st.pendOf op = [] := by
  cases op with
  | send size =>
    simp only [St.applyOp] at h
    split_ifs at h
  | half => simp [St.applyOp] at h
  | recv => rfl
  | header => rfl

theorem classify_blocked (st : St) (raw : Raw) (h : st.classify raw = .blocked) : raw = .blocks := by
  cases raw <;> simp [St.classify] at h ⊢
  split_ifs at h

theorem classify_failure (st : St) (raw : Raw) (h : st.classify raw = .failure) : raw.isFail = true := by
  cases raw <;> simp [St.classify, Raw.isFail] at h ⊢

theorem commit_curDead (st : St) : st.commit.curDead = st.curDead := rfl

theorem pendOf_congr (st st' : St) (op : COp) (h1 : st'.seq = st.seq) (h2 : st'.clientStreams = st.clientStreams) :
    st'.pendOf op = st.pendOf op := by
  cases op <;> simp [St.pendOf, h1, h2]

/-- what `withRetry` does before a possible recursive call, for the replay invariant -/
theorem withRetry_rinv_step (st : St) (op : COp) (hst : st.started = true)
    (h : RInv st (st.pendOf op) (st.pendOf op))
    (K : St → Decision → St × Res × List Ev × List Delay)
    (hK : ∀ st3 d, st3.started = true → st3.cs.committed = false → st3.seq = st.seq → st3.clientStreams = st.clientStreams →
        RInv st3 (st.pendOf op) (st.pendOf op) → st3.curDead = true →
        (K st3 d).2.1 = .outOfFuel ∨ RInv (K st3 d).1 [] []) :
    let r := st.applyOp op
    let out : St × Res × List Ev × List Delay :=
      if st.cs.committed then (r.1, rawToRes r.2.1, r.2.2, [])
      else match r.1.classify r.2.1 with
        | .blocked => (r.1, .blocked, r.2.2, [])
        | .success => (r.1.onSuccess op, rawToRes r.2.1, r.2.2, [])
        | .failure =>
          match (r.1.decideRetry r.2.1).2 with
          | .noRetry => ((r.1.decideRetry r.2.1).1.commit, rawToRes r.2.1, r.2.2, [])
          | .exhausted => ((r.1.decideRetry r.2.1).1.commit, (match r.2.1 with | .err c => .errExhausted c | _ => .exhaustedEof), r.2.2, [])
          | d => K (r.1.decideRetry r.2.1).1 d
    out.2.1 = .outOfFuel ∨ RInv out.1 [] [] := by
  intro r out
  obtain ⟨hsame, hfail, hok⟩ := applyOp_rinv st op h
  have hr1 : r.1 = (st.applyOp op).1 := rfl
  have hr2 : r.2.1 = (st.applyOp op).2.1 := rfl
  by_cases hcm : st.cs.committed = true
  · right
    have hc1 : r.1.cs.committed = true := by rw [hr1, hsame.cs]; exact hcm
    simp only [out, hcm, if_true]
    cases hf : r.2.1.isFail with
    | true =>
      obtain ⟨hd, hi⟩ := hfail (hr2 ▸ hf)
      exact rinv_committed_pb _ _ [] _ hc1 (rinv_dead_pc _ _ _ [] hd hi)
    | false => exact rinv_committed_pb _ _ [] _ hc1 (hok (hr2 ▸ hf))
  · have hu : st.cs.committed = false := by simpa using hcm
    have hu1 : r.1.cs.committed = false := by rw [hr1, hsame.cs]; exact hu
    simp only [out, hu, Bool.false_eq_true, if_false]
    cases hcl : r.1.classify r.2.1 with
    | blocked =>
      right
      simp only
      have hb := classify_blocked _ _ hcl
      have hp := applyOp_blocks_pend st op (hr2 ▸ hb)
      have := hok (by rw [← hr2, hb]; rfl)
      rw [hp] at this; exact this
    | success =>
      right
      simp only
      cases hf : r.2.1.isFail with
      | true =>
        obtain ⟨hd, hi⟩ := hfail (hr2 ▸ hf)
        exact onSuccess_rinv st r.1 op [] hsame (rinv_dead_pc _ _ _ [] hd hi)
      | false => exact onSuccess_rinv st r.1 op [] hsame (hok (hr2 ▸ hf))
    | failure =>
      simp only
      have hf := classify_failure _ _ hcl
      obtain ⟨hd, hi⟩ := hfail (hr2 ▸ hf)
      obtain ⟨hi3, hd3, hs3⟩ := decideRetry_rinv r.1 r.2.1 _ _ hi hd
      have hu3 : (r.1.decideRetry r.2.1).1.cs.committed = false := by rw [hs3.committed]; exact hu1
      cases hdec : (r.1.decideRetry r.2.1).2 with
      | noRetry =>
        right
        simp only
        exact rinv_committed_pb _ _ [] _ rfl (rinv_dead_pc _ _ _ [] (by rw [commit_curDead]; exact hd3) (commit_rinv _ _ _ hi3))
      | exhausted =>
        right
        simp only
        exact rinv_committed_pb _ _ [] _ rfl (rinv_dead_pc _ _ _ [] (by rw [commit_curDead]; exact hd3) (commit_rinv _ _ _ hi3))
      | transparent =>
        simp only
        exact hK _ _ (by rw [hs3.started, hr1, hsame.started]; exact hst) hu3
          (by rw [hs3.seq, hr1, hsame.seq]) (by rw [hs3.cstr, hr1, hsame.cstr]) hi3 hd3
      | backoff dur fp =>
        simp only
        exact hK _ _ (by rw [hs3.started, hr1, hsame.started]; exact hst) hu3
          (by rw [hs3.seq, hr1, hsame.seq]) (by rw [hs3.cstr, hr1, hsame.cstr]) hi3 hd3

/-! #### attempts whose stream creation fails (`failLoop`, `nextAttempt`) -/

theorem afterDecision_finished (cs : CS) (d : Decision) : (afterDecision cs d).finished = cs.finished := by
  cases d <;> rfl

/-- what `failLoop` never touches -/
structure Core (st st' : St) : Prop where
  atts : st'.atts = st.atts
  replay : st'.replay = st.replay
  hist : st'.hist = st.hist
  started : st'.started = st.started
  cstr : st'.clientStreams = st.clientStreams
  sstr : st'.serverStreams = st.serverStreams
  seq : st'.seq = st.seq
  rsize : st'.replaySize = st.replaySize
  maxBuf : st'.maxBuf = st.maxBuf
  pol : st'.pol = st.pol
  dis : st'.disableRetry = st.disableRetry
  script : st'.script = st.script
  sentLast : st'.sentLast = st.sentLast
  committed : st'.cs.committed = st.cs.committed
  finished : st'.cs.finished = st.cs.finished

theorem Core.refl (st : St) : Core st st := ⟨rfl, rfl, rfl, rfl, rfl, rfl, rfl, rfl, rfl, rfl, rfl, rfl, rfl, rfl, rfl⟩

theorem Core.trans {a b c : St} (h1 : Core a b) (h2 : Core b c) : Core a c :=
  ⟨h2.atts.trans h1.atts, h2.replay.trans h1.replay, h2.hist.trans h1.hist, h2.started.trans h1.started,
   h2.cstr.trans h1.cstr, h2.sstr.trans h1.sstr, h2.seq.trans h1.seq, h2.rsize.trans h1.rsize,
   h2.maxBuf.trans h1.maxBuf, h2.pol.trans h1.pol, h2.dis.trans h1.dis, h2.script.trans h1.script,
   h2.sentLast.trans h1.sentLast, h2.committed.trans h1.committed, h2.finished.trans h1.finished⟩

/-- one failed stream creation touches nothing but the retry counters / throttler, the creation
    script and the failed-attempt bookkeeping -/
theorem failStep_core (st : St) (d : Decision) (c : Nat) : Core st (st.failStep d c).1 := by
  have hf := sr_other_fields st.disableRetry st.pol (afterDecision st.cs d) (noStreamView c) 0
  refine ⟨rfl, rfl, rfl, rfl, rfl, rfl, rfl, rfl, rfl, rfl, rfl, rfl, rfl, ?_, ?_⟩
  · show (shouldRetry st.disableRetry st.pol (afterDecision st.cs d) (noStreamView c) 0).1.committed = _
    rw [hf.2.2.1, afterDecision_committed]
  · show (shouldRetry st.disableRetry st.pol (afterDecision st.cs d) (noStreamView c) 0).1.finished = _
    rw [hf.2.1, afterDecision_finished]

/-- induction principle for `failLoop` -/
theorem failLoop_preserves (P : St → Prop) (J : St → Decision → Prop)
    (hpop : ∀ st d rest, P st → J st d → P { st with nsScript := rest } ∧ J { st with nsScript := rest } d)
    (hstep : ∀ st d c, P st → J st d → P (st.failStep d c).1 ∧
        ((st.failStep d c).2 ≠ .noRetry → (st.failStep d c).2 ≠ .exhausted → J (st.failStep d c).1 (st.failStep d c).2))
    (fuel : Nat) (st : St) (d : Decision) (hP : P st) (hJ : J st d) :
    P (st.failLoop fuel d).1 ∧
    ((st.failLoop fuel d).2.1 = none → J (st.failLoop fuel d).1 (st.failLoop fuel d).2.2.1) := by
  induction fuel generalizing st d with
  | zero =>
    rw [St.failLoop]
    cases hns : st.nsScript with
    | nil => exact ⟨hP, fun _ => hJ⟩
    | cons o rest =>
      cases o with
      | none => exact ⟨(hpop st d rest hP hJ).1, fun _ => (hpop st d rest hP hJ).2⟩
      | some c =>
        simp only
        have hs := hstep st d c hP hJ
        cases hd : (st.failStep d c).2 <;> simp only [hd] <;> exact ⟨hs.1, fun h => by cases h⟩
  | succ n ih =>
    rw [St.failLoop]
    cases hns : st.nsScript with
    | nil => exact ⟨hP, fun _ => hJ⟩
    | cons o rest =>
      cases o with
      | none => exact ⟨(hpop st d rest hP hJ).1, fun _ => (hpop st d rest hP hJ).2⟩
      | some c =>
        simp only
        have hs := hstep st d c hP hJ
        cases hd : (st.failStep d c).2 with
        | noRetry => simp only [hd]; exact ⟨hs.1, fun h => by cases h⟩
        | exhausted => simp only [hd]; exact ⟨hs.1, fun h => by cases h⟩
        | transparent =>
          simp only [hd]
          exact ih (st.failStep d c).1 .transparent hs.1 (by rw [← hd]; exact hs.2 (by rw [hd]; simp) (by rw [hd]; simp))
        | backoff dur fp =>
          simp only [hd]
          exact ih (st.failStep d c).1 (.backoff dur fp) hs.1 (by rw [← hd]; exact hs.2 (by rw [hd]; simp) (by rw [hd]; simp))

theorem failLoop_core (fuel : Nat) (st : St) (d : Decision) : Core st (st.failLoop fuel d).1 :=
  (failLoop_preserves (fun s => Core st s) (fun _ _ => True)
    (fun s _ rest h _ => ⟨⟨h.atts, h.replay, h.hist, h.started, h.cstr, h.sstr, h.seq, h.rsize, h.maxBuf, h.pol, h.dis,
      h.script, h.sentLast, h.committed, h.finished⟩, trivial⟩)
    (fun s d c h _ => ⟨h.trans (failStep_core s d c), fun _ _ => trivial⟩)
    fuel st d (Core.refl st) trivial).1

theorem rinv_core {st st' : St} (h : Core st st') (pb pc : List Wire) (hi : RInv st pb pc) : RInv st' pb pc := by
  refine ⟨?_, ?_, ?_, ?_⟩
  · intro hc; rw [h.committed] at hc; rw [h.cstr, h.replay, h.hist]; exact hi.buf hc
  · intro a ha; rw [h.atts] at ha; rw [h.hist]; exact hi.pre a ha
  · intro a hc hd
    have : st.cur = some a := by simpa [St.cur, h.atts] using hc
    rw [h.hist]; exact hi.cur a this hd
  · intro hc hs; rw [h.committed] at hc; rw [h.started] at hs; rw [h.replay]; exact hi.once hc hs

theorem curDead_core {st st' : St} (h : Core st st') : st'.curDead = st.curDead := by
  simp [St.curDead, St.cur, h.atts]

theorem nextAttempt_some (fuel : Nat) (st : St) (d : Decision) (r : Res) (h : (st.nextAttempt fuel d).2.1 = some r) :
    (st.failLoop fuel d).2.1 = some r ∧ (st.nextAttempt fuel d).1 = (st.failLoop fuel d).1 := by
  cases hf : (st.failLoop fuel d).2.1 with
  | none => simp [St.nextAttempt, hf] at h
  | some r' =>
    simp only [St.nextAttempt, hf] at h ⊢
    simp only [Option.some.injEq] at h
    exact ⟨congrArg some h, trivial⟩

theorem nextAttempt_none (fuel : Nat) (st : St) (d : Decision) (h : (st.nextAttempt fuel d).2.1 = none) :
    (st.failLoop fuel d).2.1 = none ∧
    (st.nextAttempt fuel d).1 = ((st.failLoop fuel d).1.startRetry (st.failLoop fuel d).2.2.1).1 := by
  cases hf : (st.failLoop fuel d).2.1 with
  | none => simp only [St.nextAttempt, hf]; exact ⟨trivial, trivial⟩
  | some r' => simp [St.nextAttempt, hf] at h

/-- the continuation of `withRetry` after a positive decision -/
def contK (fuel : Nat) (op : COp) (ev : List Ev) (st3 : St) (d : Decision) : St × Res × List Ev × List Delay :=
  match fuel with
  | 0 => (st3, .outOfFuel, ev, [])
  | fuel + 1 =>
    match (st3.nextAttempt fuel d).2.1 with
    | some r => ((st3.nextAttempt fuel d).1.commit, r, ev ++ (st3.nextAttempt fuel d).2.2.1,
        st3.delayOf d ++ (st3.nextAttempt fuel d).2.2.2)
    | none =>
      ((St.withRetry fuel (st3.nextAttempt fuel d).1 op).1, (St.withRetry fuel (st3.nextAttempt fuel d).1 op).2.1,
       ev ++ (st3.nextAttempt fuel d).2.2.1 ++ (St.withRetry fuel (st3.nextAttempt fuel d).1 op).2.2.1,
       st3.delayOf d ++ (st3.nextAttempt fuel d).2.2.2 ++ (St.withRetry fuel (st3.nextAttempt fuel d).1 op).2.2.2)

theorem withRetry_unfold (fuel : Nat) (st : St) (op : COp) :
    St.withRetry fuel st op =
      (if st.cs.committed then ((st.applyOp op).1, rawToRes (st.applyOp op).2.1, (st.applyOp op).2.2, [])
      else match (st.applyOp op).1.classify (st.applyOp op).2.1 with
        | .blocked => ((st.applyOp op).1, .blocked, (st.applyOp op).2.2, [])
        | .success => ((st.applyOp op).1.onSuccess op, rawToRes (st.applyOp op).2.1, (st.applyOp op).2.2, [])
        | .failure =>
          match ((st.applyOp op).1.decideRetry (st.applyOp op).2.1).2 with
          | .noRetry => (((st.applyOp op).1.decideRetry (st.applyOp op).2.1).1.commit, rawToRes (st.applyOp op).2.1, (st.applyOp op).2.2, [])
          | .exhausted => (((st.applyOp op).1.decideRetry (st.applyOp op).2.1).1.commit,
              (match (st.applyOp op).2.1 with | .err c => .errExhausted c | _ => .exhaustedEof), (st.applyOp op).2.2, [])
          | d => contK fuel op (st.applyOp op).2.2 ((st.applyOp op).1.decideRetry (st.applyOp op).2.1).1 d) := by
  cases fuel with
  | zero =>
    rw [St.withRetry]
    split_ifs <;> rfl
  | succ n =>
    rw [St.withRetry]
    simp only [contK]
    split_ifs
    · rfl
    · cases (st.applyOp op).1.classify (st.applyOp op).2.1 with
      | blocked => rfl
      | success => rfl
      | failure =>
        simp only
        cases ((st.applyOp op).1.decideRetry (st.applyOp op).2.1).2 with
        | noRetry => rfl
        | exhausted => rfl
        | transparent =>
          simp only
          cases (((st.applyOp op).1.decideRetry (st.applyOp op).2.1).1.nextAttempt n Decision.transparent).2.1 <;> rfl
        | backoff dur fp =>
          simp only
          cases (((st.applyOp op).1.decideRetry (st.applyOp op).2.1).1.nextAttempt n (Decision.backoff dur fp)).2.1 <;> rfl

theorem withRetry_rinv (fuel : Nat) (st : St) (op : COp) (hst : st.started = true)
    (h : RInv st (st.pendOf op) (st.pendOf op)) :
    (St.withRetry fuel st op).2.1 = .outOfFuel ∨ RInv (St.withRetry fuel st op).1 [] [] := by
  induction fuel generalizing st with
  | zero =>
    rw [withRetry_unfold]
    exact withRetry_rinv_step st op hst h (contK 0 op (st.applyOp op).2.2)
      (fun st3 d _ _ _ _ _ _ => Or.inl rfl)
  | succ n ih =>
    rw [withRetry_unfold]
    refine withRetry_rinv_step st op hst h (contK (n + 1) op (st.applyOp op).2.2) ?_
    intro st3 d hs3 hu3 hseq hcs hi3 hd3
    simp only [contK]
    have hcore := failLoop_core n st3 d
    cases hn : (st3.nextAttempt n d).2.1 with
    | some r =>
      right
      simp only
      rw [(nextAttempt_some n st3 d r hn).2]
      have hi4 := rinv_core hcore _ _ hi3
      have hd4 : (st3.failLoop n d).1.curDead = true := by rw [curDead_core hcore]; exact hd3
      exact rinv_committed_pb _ _ [] _ rfl (rinv_dead_pc _ _ _ [] (by rw [commit_curDead]; exact hd4) (commit_rinv _ _ _ hi4))
    | none =>
      simp only
      rw [(nextAttempt_none n st3 d hn).2]
      have hi4 := rinv_core hcore _ _ hi3
      have hu4 : (st3.failLoop n d).1.cs.committed = false := by rw [hcore.committed]; exact hu3
      have hs4 : (st3.failLoop n d).1.started = true := by rw [hcore.started]; exact hs3
      obtain ⟨hi5, _, _, hcs5, hr5, hh5, hc5, hst5, hq5, _⟩ :=
        startRetry_rinv (st3.failLoop n d).1 (st3.failLoop n d).2.2.1 _ _ hi4 hu4 hs4
      have hp : (((st3.failLoop n d).1.startRetry (st3.failLoop n d).2.2.1).1).pendOf op = st.pendOf op :=
        pendOf_congr st _ op ((hq5.trans hcore.seq).trans hseq) ((hc5.trans hcore.cstr).trans hcs)
      exact ih _ (hst5.trans hs4) (by rw [hp]; exact hi5)

/-! ### frames and operation boundaries -/

theorem finish_rinv (st : St) (code : Nat) (pb pc : List Wire) (h : RInv st pb pc) : RInv (st.finish code) pb pc := by
  have h1 : RInv ({ st with cs := { st.cs with finished := true } } : St) pb pc := cs_swap_rinv st _ pb pc h rfl
  have h2 := commit_rinv _ pb pc h1
  have h3 := finishAttempt_rinv _ code pb pc h2
  simp only [St.finish]
  split_ifs
  · exact h
  · exact cs_swap_rinv _ _ pb pc h3 rfl
  · exact h3

theorem finish_started (st : St) (code : Nat) : (st.finish code).started = st.started := by
  simp only [St.finish]
  split_ifs
  · rfl
  · exact (finishAttempt_same _ _).started
  · exact (finishAttempt_same _ _).started

/-- what no part of `withRetry` touches -/
structure Frame (st st' : St) : Prop where
  started : st'.started = st.started
  cstr : st'.clientStreams = st.clientStreams
  sstr : st'.serverStreams = st.serverStreams
  hist : st'.hist = st.hist
  seq : st'.seq = st.seq
  pol : st'.pol = st.pol
  dis : st'.disableRetry = st.disableRetry
  maxBuf : st'.maxBuf = st.maxBuf
  script : st'.script = st.script
  sentLast : st'.sentLast = st.sentLast

theorem Frame.refl (st : St) : Frame st st := ⟨rfl, rfl, rfl, rfl, rfl, rfl, rfl, rfl, rfl, rfl⟩

theorem Frame.trans {a b c : St} (h1 : Frame a b) (h2 : Frame b c) : Frame a c :=
  ⟨h2.started.trans h1.started, h2.cstr.trans h1.cstr, h2.sstr.trans h1.sstr, h2.hist.trans h1.hist,
   h2.seq.trans h1.seq, h2.pol.trans h1.pol, h2.dis.trans h1.dis, h2.maxBuf.trans h1.maxBuf,
   h2.script.trans h1.script, h2.sentLast.trans h1.sentLast⟩

theorem updCur_frame (st : St) (f : Att → Att) : Frame st (st.updCur f) := by
  cases h : st.cur with
  | none => rw [updCur_none st f h]; exact Frame.refl st
  | some a => rw [updCur_some st f a h]; exact ⟨rfl, rfl, rfl, rfl, rfl, rfl, rfl, rfl, rfl, rfl⟩

theorem write_frame (st : St) (w : Wire) : Frame st (st.write w).1 := by
  unfold St.write
  split_ifs
  · exact Frame.refl st
  · exact updCur_frame st _

theorem newAttempt_frame (st : St) : Frame st st.newAttempt.1 := ⟨rfl, rfl, rfl, rfl, rfl, rfl, rfl, rfl, rfl, rfl⟩

theorem commit_frame (st : St) : Frame st st.commit := ⟨rfl, rfl, rfl, rfl, rfl, rfl, rfl, rfl, rfl, rfl⟩

theorem buffer_frame (st : St) (sz : Int) (op : ROp) : Frame st (st.buffer sz op) := by
  simp only [St.buffer]
  split_ifs <;> exact ⟨rfl, rfl, rfl, rfl, rfl, rfl, rfl, rfl, rfl, rfl⟩

theorem replayAll_frame (st : St) : Frame st st.replayAll.1 := by
  unfold St.replayAll
  generalize ([] : List Ev) = evs
  induction st.replay generalizing st evs with
  | nil => exact Frame.refl st
  | cons o r ih =>
    simp only [List.foldl_cons]
    cases o with
    | start => exact (newAttempt_frame st).trans (ih _ _)
    | msg q z =>
      simp only
      split_ifs
      · exact (write_frame st _).trans (ih _ _)
      · exact ((write_frame st _).trans (write_frame _ _)).trans (ih _ _)
    | half => exact (write_frame st _).trans (ih _ _)

theorem applyOp_frame (st : St) (op : COp) : Frame st (st.applyOp op).1 := by
  cases op with
  | send size =>
    simp only [St.applyOp]
    repeat' split_ifs
    all_goals first
      | exact write_frame st _
      | exact (write_frame st _).trans (write_frame _ _)
  | half => exact write_frame st _
  | recv =>
    have h1 : Frame st { st with atts := react st.atts } := ⟨rfl, rfl, rfl, rfl, rfl, rfl, rfl, rfl, rfl, rfl⟩
    have h2 := h1.trans (updCur_frame { st with atts := react st.atts } (fun a => { a with respRead := 1 }))
    have h3 : Frame st { ({ st with atts := react st.atts } : St).updCur (fun a => { a with respRead := 1 }) with recvFirst := true } :=
      h2.trans ⟨rfl, rfl, rfl, rfl, rfl, rfl, rfl, rfl, rfl, rfl⟩
    simp only [St.applyOp]
    repeat' (first | split_ifs | split)
    all_goals first
      | exact h1
      | exact h3
  | header =>
    simp only [St.applyOp]
    repeat' (first | split_ifs | split)
    all_goals exact ⟨rfl, rfl, rfl, rfl, rfl, rfl, rfl, rfl, rfl, rfl⟩

theorem onSuccess_frame (st : St) (op : COp) : Frame st (st.onSuccess op) := by
  cases op <;> simp only [St.onSuccess]
  · exact buffer_frame _ _ _
  · exact buffer_frame _ _ _
  · exact commit_frame _
  · exact commit_frame _

theorem finishAttempt_frame (st : St) (code : Nat) : Frame st (st.finishAttempt code) := updCur_frame st _

theorem decideRetry_frame (st : St) (raw : Raw) : Frame st (st.decideRetry raw).1 := by
  simp only [St.decideRetry]
  split
  · exact finishAttempt_frame _ _
  · exact (finishAttempt_frame st raw.code).trans ⟨rfl, rfl, rfl, rfl, rfl, rfl, rfl, rfl, rfl, rfl⟩

theorem startRetry_frame (st : St) (d : Decision) : Frame st (st.startRetry d).1 :=
  Frame.trans (b := { st with cs := afterDecision st.cs d }) ⟨rfl, rfl, rfl, rfl, rfl, rfl, rfl, rfl, rfl, rfl⟩ (replayAll_frame _)

theorem core_frame {st st' : St} (h : Core st st') : Frame st st' :=
  ⟨h.started, h.cstr, h.sstr, h.hist, h.seq, h.pol, h.dis, h.maxBuf, h.script, h.sentLast⟩

theorem nextAttempt_frame (fuel : Nat) (st : St) (d : Decision) : Frame st (st.nextAttempt fuel d).1 := by
  cases h : (st.nextAttempt fuel d).2.1 with
  | some r => rw [(nextAttempt_some fuel st d r h).2]; exact core_frame (failLoop_core fuel st d)
  | none =>
    rw [(nextAttempt_none fuel st d h).2]
    exact (core_frame (failLoop_core fuel st d)).trans (startRetry_frame _ _)

theorem withRetry_frame (fuel : Nat) (st : St) (op : COp) : Frame st (St.withRetry fuel st op).1 := by
  induction fuel generalizing st with
  | zero =>
    rw [withRetry_unfold]
    split_ifs
    · exact applyOp_frame st op
    · split
      · exact applyOp_frame st op
      · exact (applyOp_frame st op).trans (onSuccess_frame _ _)
      · split
        · exact ((applyOp_frame st op).trans (decideRetry_frame _ _)).trans (commit_frame _)
        · exact ((applyOp_frame st op).trans (decideRetry_frame _ _)).trans (commit_frame _)
        · exact (applyOp_frame st op).trans (decideRetry_frame _ _)
  | succ n ih =>
    rw [withRetry_unfold]
    split_ifs
    · exact applyOp_frame st op
    · split
      · exact applyOp_frame st op
      · exact (applyOp_frame st op).trans (onSuccess_frame _ _)
      · split
        · exact ((applyOp_frame st op).trans (decideRetry_frame _ _)).trans (commit_frame _)
        · exact ((applyOp_frame st op).trans (decideRetry_frame _ _)).trans (commit_frame _)
        · simp only [contK]
          split
          · exact (((applyOp_frame st op).trans (decideRetry_frame _ _)).trans (nextAttempt_frame _ _ _)).trans (commit_frame _)
          · exact (((applyOp_frame st op).trans (decideRetry_frame _ _)).trans (nextAttempt_frame _ _ _)).trans (ih _)

theorem extend_hist_rinv (st : St) (item : List Wire) (h : RInv st [] []) :
    RInv { st with hist := st.hist ++ item } item item := by
  refine ⟨?_, ?_, ?_, h.once⟩
  · intro hc; have := h.buf hc; simp only [List.append_nil] at this; simp [this]
  · intro a ha
    obtain ⟨t, ht⟩ := h.pre a ha
    exact ⟨t ++ item, by simp [← ht, List.append_assoc]⟩
  · intro a hc hd
    have := h.cur a hc hd
    simp only [List.append_nil] at this
    simp [this]

/-- the replay invariant at operation boundaries -/
def Good (st : St) : Prop := RInv st [] [] ∧ st.started = true

theorem settle_frame (st : St) : Frame st st.settle := ⟨rfl, rfl, rfl, rfl, rfl, rfl, rfl, rfl, rfl, rfl⟩

theorem finish_frame (st : St) (code : Nat) : Frame st (st.finish code) := by
  have h1 : Frame st ({ st with cs := { st.cs with finished := true } } : St).commit :=
    ⟨rfl, rfl, rfl, rfl, rfl, rfl, rfl, rfl, rfl, rfl⟩
  have h2 := h1.trans (finishAttempt_frame _ code)
  simp only [St.finish]
  split_ifs
  · exact Frame.refl st
  · exact h2.trans ⟨rfl, rfl, rfl, rfl, rfl, rfl, rfl, rfl, rfl, rfl⟩
  · exact h2

theorem good_finish (st : St) (code : Nat) (h : Good st) : Good (st.finish code) :=
  ⟨finish_rinv st code [] [] h.1, (finish_frame st code).started.trans h.2⟩

theorem good_settle (st : St) (h : Good st) : Good st.settle := ⟨settle_rinv st [] [] h.1, h.2⟩

theorem withRetry_good (fuel : Nat) (st : St) (op : COp) (hst : st.started = true)
    (h : RInv st (st.pendOf op) (st.pendOf op)) :
    (St.withRetry fuel st op).2.1 = .outOfFuel ∨ Good (St.withRetry fuel st op).1 := by
  rcases withRetry_rinv fuel st op hst h with h1 | h1
  · exact Or.inl h1
  · exact Or.inr ⟨h1, (withRetry_frame fuel st op).started.trans hst⟩


theorem beginSend_rinv (st : St) (size : Nat) (h : Good st) :
    RInv (st.beginSend size) ((st.beginSend size).pendOf (.send size)) ((st.beginSend size).pendOf (.send size)) ∧
    (st.beginSend size).started = true := by
  have hA := extend_hist_rinv { st with seq := st.seq + 1 } (({ st with seq := st.seq + 1 } : St).pendOf (.send size))
    ⟨h.1.buf, h.1.pre, h.1.cur, h.1.once⟩
  exact ⟨⟨hA.buf, hA.pre, hA.cur, hA.once⟩, h.2⟩

theorem beginClose_rinv (st : St) (h : Good st) :
    RInv st.beginClose (st.beginClose.pendOf .half) (st.beginClose.pendOf .half) ∧ st.beginClose.started = true := by
  have hA := extend_hist_rinv st [Wire.half] h.1
  exact ⟨⟨hA.buf, hA.pre, hA.cur, hA.once⟩, h.2⟩

theorem endSend_good (st : St) (res : Res) (h : Good st) : Good (st.endSend res) := by
  unfold St.endSend
  split <;> first
    | exact good_settle _ (good_finish _ _ h)
    | exact good_settle _ h

theorem endRecv_good (st : St) (res : Res) (h : Good st) : Good (st.endRecv res) := by
  unfold St.endRecv
  split <;> first
    | exact good_settle _ (good_finish _ _ h)
    | exact good_settle _ h

theorem endHeader_good (st : St) (res : Res) (h : Good st) : Good (st.endHeader res) := by
  unfold St.endHeader
  split <;> first
    | exact good_settle _ (good_finish _ _ h)
    | exact good_settle _ h

theorem opSend_good (fuel : Nat) (st : St) (size : Nat) (h : Good st) :
    (st.opSend fuel size).2.1 = .outOfFuel ∨ Good (st.opSend fuel size).1 := by
  unfold St.opSend
  split_ifs
  · right
    exact good_settle _ (good_finish _ _ ⟨⟨h.1.buf, h.1.pre, h.1.cur, h.1.once⟩, h.2⟩)
  · obtain ⟨hi, hs⟩ := beginSend_rinv st size h
    rcases withRetry_good fuel _ (.send size) hs hi with hw | hw
    · exact Or.inl hw
    · exact Or.inr (endSend_good _ _ hw)

theorem opClose_good (fuel : Nat) (st : St) (h : Good st) :
    (St.withRetry fuel st.beginClose .half).2.1 = .outOfFuel ∨ Good (st.opClose fuel).1 := by
  unfold St.opClose
  split_ifs
  · exact Or.inr (good_settle _ h)
  · obtain ⟨hi, hs⟩ := beginClose_rinv st h
    rcases withRetry_good fuel _ .half hs hi with hw | hw
    · exact Or.inl hw
    · exact Or.inr (good_settle _ hw)

theorem opRecv_good (fuel : Nat) (st : St) (h : Good st) :
    (st.opRecv fuel).2.1 = .outOfFuel ∨ Good (st.opRecv fuel).1 := by
  unfold St.opRecv
  rcases withRetry_good fuel st .recv h.2 ⟨h.1.buf, h.1.pre, h.1.cur, h.1.once⟩ with hw | hw
  · exact Or.inl hw
  · exact Or.inr (endRecv_good _ _ hw)

theorem opHeader_good (fuel : Nat) (st : St) (h : Good st) :
    (St.withRetry fuel st .header).2.1 = .outOfFuel ∨ Good (st.opHeader fuel).1 := by
  unfold St.opHeader
  rcases withRetry_good fuel st .header h.2 ⟨h.1.buf, h.1.pre, h.1.cur, h.1.once⟩ with hw | hw
  · exact Or.inl hw
  · exact Or.inr (endHeader_good _ _ hw)

/-! ### fuel -/

theorem write_cs (st : St) (w : Wire) : (st.write w).1.cs = st.cs := by
  unfold St.write
  split_ifs
  · rfl
  · exact (updCur_same st _).cs

theorem replayAll_cs (st : St) : st.replayAll.1.cs = st.cs := by
  unfold St.replayAll
  generalize ([] : List Ev) = evs
  induction st.replay generalizing st evs with
  | nil => rfl
  | cons o r ih =>
    simp only [List.foldl_cons]
    cases o with
    | start => exact (ih _ _).trans rfl
    | msg q z =>
      simp only
      split_ifs
      · exact (ih _ _).trans (write_cs st _)
      · exact (ih _ _).trans ((write_cs _ _).trans (write_cs st _))
    | half => exact (ih _ _).trans (write_cs st _)

theorem startRetry_cs (st : St) (d : Decision) : (st.startRetry d).1.cs = afterDecision st.cs d := by
  unfold St.startRetry; exact replayAll_cs _

theorem applyOp_cs (st : St) (op : COp) : (st.applyOp op).1.cs = st.cs := by
  cases op with
  | send size =>
    simp only [St.applyOp]
    repeat' split_ifs
    all_goals first
      | exact write_cs st _
      | exact (write_cs _ _).trans (write_cs st _)
  | half => exact write_cs st _
  | recv =>
    have h2 := (updCur_same ({ st with atts := react st.atts } : St) (fun a => { a with respRead := 1 })).cs
    simp only [St.applyOp]
    repeat' (first | split_ifs | split)
    all_goals first
      | rfl
      | exact h2
  | header =>
    simp only [St.applyOp]
    repeat' (first | split_ifs | split)
    all_goals rfl

/-- the decision step in terms of `shouldRetry` on the unchanged bookkeeping -/
theorem decideRetry_spec (st : St) (raw : Raw) :
    ((st.decideRetry raw).2 = .noRetry ∧ (st.decideRetry raw).1.cs = st.cs) ∨
    ∃ a, (st.decideRetry raw).2 = (shouldRetry st.disableRetry st.pol st.cs (attemptView a) 0).2 ∧
         (st.decideRetry raw).1.cs = (shouldRetry st.disableRetry st.pol st.cs (attemptView a) 0).1 ∧
         (attemptView a).hasStream = true := by
  have hs := finishAttempt_same st raw.code
  simp only [St.decideRetry]
  split
  · exact Or.inl ⟨rfl, hs.cs⟩
  next a _ =>
    right
    refine ⟨a, ?_, ?_, rfl⟩
    · simp only; rw [hs.dis, hs.pol, hs.cs]
    · simp only; rw [hs.dis, hs.pol, hs.cs]

theorem retryBudget_congr (st st' : St) (h1 : st'.cs = st.cs) (h2 : st'.pol = st.pol) : st'.retryBudget = st.retryBudget := by
  simp [St.retryBudget, h1, h2]

/-- a positive decision consumes budget -/
theorem budget_decreases (dis : Bool) (pol : Option Policy) (cs : CS) (a : Attempt)
    (ha : a.hasStream = true ∨ a.allowTransparent = false)
    (d : Decision) (hd : (shouldRetry dis pol cs a 0).2 = d) (hpos : d ≠ .noRetry ∧ d ≠ .exhausted) :
    budget (afterDecision (shouldRetry dis pol cs a 0).1 d) pol + 1 ≤ budget cs pol := by
  unfold budget
  generalize hcs' : afterDecision (shouldRetry dis pol cs a 0).1 d = cs'
  have hf := sr_other_fields dis pol cs a 0
  cases d with
  | noRetry => exact absurd rfl hpos.1
  | exhausted => exact absurd rfl hpos.2
  | transparent =>
    obtain ⟨_, _, _, hc⟩ := sr_transparent_conditions dis pol cs a 0 hd
    rcases hc with ⟨hns, hat⟩ | ⟨hfa, _, _⟩
    · rcases ha with ha | ha
      · rw [ha] at hns; cases hns
      · rw [ha] at hat; cases hat
    · have h1 : cs'.firstAttempt = false := by rw [← hcs']; rfl
      have h2 : cs'.numRetries = cs.numRetries := by rw [← hcs']; exact hf.1
      simp only [h1, h2, hfa, Bool.false_eq_true, if_false, if_true]
      omega
  | backoff dur fp =>
    obtain ⟨pb, rp, _, hp, _, hlt⟩ := sr_backoff_conditions dis pol cs a 0 dur fp hd
    have h1 : cs'.firstAttempt = false := by rw [← hcs']; rfl
    have h2 : cs'.numRetries = cs.numRetries + 1 := by
      rw [← hcs']
      show (shouldRetry dis pol cs a 0).1.numRetries + 1 = _
      rw [hf.1]
    subst hp
    simp only [h1, h2, Bool.false_eq_true, if_false]
    split_ifs <;> omega

theorem rawToRes_ne_outOfFuel (raw : Raw) : rawToRes raw ≠ .outOfFuel := by cases raw <;> simp [rawToRes]

theorem budget_congr (cs cs' : CS) (pol : Option Policy) (h1 : cs'.firstAttempt = cs.firstAttempt)
    (h2 : cs'.numRetries = cs.numRetries) : budget cs' pol = budget cs pol := by
  unfold budget; rw [h1, h2]

/-- while stream creation keeps failing the budget keeps shrinking: `failLoop` never runs out of fuel
    and hands over a decision whose budget is not larger than the one it was entered with -/
theorem failLoop_budget (fuel : Nat) (st : St) (d : Decision)
    (hb : budget (afterDecision st.cs d) st.pol ≤ fuel) :
    (st.failLoop fuel d).2.1 ≠ some .outOfFuel ∧
    ((st.failLoop fuel d).2.1 = none →
      budget (afterDecision (st.failLoop fuel d).1.cs (st.failLoop fuel d).2.2.1) (st.failLoop fuel d).1.pol
        ≤ budget (afterDecision st.cs d) st.pol) := by
  induction fuel generalizing st d with
  | zero =>
    rw [St.failLoop]
    cases hns : st.nsScript with
    | nil => exact ⟨by simp, fun _ => le_refl _⟩
    | cons o rest =>
      cases o with
      | none => exact ⟨by simp, fun _ => le_refl _⟩
      | some c =>
        simp only
        have hdec := budget_decreases st.disableRetry st.pol (afterDecision st.cs d) (noStreamView c) (Or.inr rfl)
        cases hd : (st.failStep d c).2 with
        | noRetry => simp [hd]
        | exhausted => simp [hd]
        | transparent =>
          exfalso
          have := hdec .transparent hd ⟨by simp, by simp⟩
          omega
        | backoff dur fp =>
          exfalso
          have := hdec (.backoff dur fp) hd ⟨by simp, by simp⟩
          omega
  | succ n ih =>
    rw [St.failLoop]
    cases hns : st.nsScript with
    | nil => exact ⟨by simp, fun _ => le_refl _⟩
    | cons o rest =>
      cases o with
      | none => exact ⟨by simp, fun _ => le_refl _⟩
      | some c =>
        simp only
        have hdec := budget_decreases st.disableRetry st.pol (afterDecision st.cs d) (noStreamView c) (Or.inr rfl)
        have hpol : (st.failStep d c).1.pol = st.pol := (failStep_core st d c).pol
        cases hd : (st.failStep d c).2 with
        | noRetry => simp [hd]
        | exhausted => simp [hd]
        | transparent =>
          simp only [hd]
          have hlt := hdec .transparent hd ⟨by simp, by simp⟩
          have hcs : (st.failStep d c).1.cs = (shouldRetry st.disableRetry st.pol (afterDecision st.cs d) (noStreamView c) 0).1 := rfl
          have := ih (st.failStep d c).1 .transparent (by rw [hcs, hpol]; omega)
          refine ⟨this.1, fun h => le_trans (this.2 h) ?_⟩
          rw [hcs, hpol]; omega
        | backoff dur fp =>
          simp only [hd]
          have hlt := hdec (.backoff dur fp) hd ⟨by simp, by simp⟩
          have hcs : (st.failStep d c).1.cs = (shouldRetry st.disableRetry st.pol (afterDecision st.cs d) (noStreamView c) 0).1 := rfl
          have := ih (st.failStep d c).1 (.backoff dur fp) (by rw [hcs, hpol]; omega)
          refine ⟨this.1, fun h => le_trans (this.2 h) ?_⟩
          rw [hcs, hpol]; omega

/-- the continuation never runs out of fuel when the budget fits -/
theorem contK_fuel (n : Nat) (op : COp) (ev : List Ev)
    (ih : ∀ s : St, s.retryBudget ≤ n → (St.withRetry n s op).2.1 ≠ .outOfFuel)
    (S : St) (raw : Raw) (hbud : S.retryBudget ≤ n + 1) (D : Decision) (hD : (S.decideRetry raw).2 = D)
    (hn : D ≠ .noRetry) (he : D ≠ .exhausted) :
    (contK (n + 1) op ev (S.decideRetry raw).1 D).2.1 ≠ .outOfFuel := by
  rcases decideRetry_spec S raw with ⟨h1, _⟩ | ⟨a, h1, h2, ha⟩
  · rw [hD] at h1; exact absurd h1 hn
  · have hb := budget_decreases S.disableRetry S.pol S.cs (attemptView a) (Or.inl ha) D (by rw [← h1, hD]) ⟨hn, he⟩
    simp only [St.retryBudget] at hbud
    have hpol3 : (S.decideRetry raw).1.pol = S.pol := (decideRetry_frame _ _).pol
    have hb3 : budget (afterDecision (S.decideRetry raw).1.cs D) (S.decideRetry raw).1.pol ≤ n := by
      rw [hpol3, h2]; omega
    have hfl := failLoop_budget n _ D hb3
    simp only [contK]
    cases hna : ((S.decideRetry raw).1.nextAttempt n D).2.1 with
    | some r =>
      have := (nextAttempt_some n _ D r hna).1
      intro hr
      simp only at hr
      subst hr
      exact hfl.1 this
    | none =>
      obtain ⟨hnone, hst⟩ := nextAttempt_none n _ D hna
      show (St.withRetry n ((S.decideRetry raw).1.nextAttempt n D).1 op).2.1 ≠ .outOfFuel
      apply ih
      rw [hst]
      unfold St.retryBudget
      rw [startRetry_cs, (startRetry_frame _ _).pol]
      exact le_trans (hfl.2 hnone) hb3

theorem withRetry_fuel (fuel : Nat) (st : St) (op : COp) (hf : st.retryBudget ≤ fuel) :
    (St.withRetry fuel st op).2.1 ≠ .outOfFuel := by
  induction fuel generalizing st with
  | zero =>
    rw [withRetry_unfold]
    split_ifs
    · exact rawToRes_ne_outOfFuel _
    · split
      · simp
      · exact rawToRes_ne_outOfFuel _
      · split
        · exact rawToRes_ne_outOfFuel _
        · split <;> simp
        next d hn he =>
          exfalso
          have hcs := applyOp_cs st op
          have hpol := (applyOp_frame st op).pol
          rcases decideRetry_spec (st.applyOp op).1 (st.applyOp op).2.1 with ⟨h1, _⟩ | ⟨a, h1, h2, ha⟩
          · exact (hn h1).elim
          · have := budget_decreases (st.applyOp op).1.disableRetry (st.applyOp op).1.pol (st.applyOp op).1.cs (attemptView a) (Or.inl ha)
              _ h1.symm ⟨fun h => hn h, fun h => he h⟩
            simp only [hcs, hpol] at this
            simp only [St.retryBudget] at hf
            omega
  | succ n ih =>
    rw [withRetry_unfold]
    have hbud : (st.applyOp op).1.retryBudget ≤ n + 1 := by
      unfold St.retryBudget; rw [applyOp_cs, (applyOp_frame st op).pol]; exact hf
    split_ifs
    · exact rawToRes_ne_outOfFuel _
    · split
      · simp
      · exact rawToRes_ne_outOfFuel _
      · cases hdd : ((st.applyOp op).1.decideRetry (st.applyOp op).2.1).2 with
        | noRetry => exact rawToRes_ne_outOfFuel _
        | exhausted => simp only; split <;> simp
        | transparent =>
          exact contK_fuel n op _ ih (st.applyOp op).1 (st.applyOp op).2.1 hbud .transparent hdd (by simp) (by simp)
        | backoff dur fp =>
          exact contK_fuel n op _ ih (st.applyOp op).1 (st.applyOp op).2.1 hbud (.backoff dur fp) hdd (by simp) (by simp)

end GrpcProofs.Lemmas.RetryLoop
