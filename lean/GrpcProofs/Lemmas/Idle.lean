import GrpcModel.Model.Idle
namespace GrpcProofs.Lemmas.Idle
open GrpcModel.Idle

theorem M_pos : 0 < M := by decide

def inTry (s : St) : Prop :=
  s.t1 > 0 ∨ s.holder = .t2 ∨ s.holder = .t2u ∨ s.holder = .t3 ∨ s.holder = .t3cb ∨ s.holder = .t3u

def tryCount (s : St) : Nat :=
  s.t1 + (if s.holder = .t2 ∨ s.holder = .t2u ∨ s.holder = .t3 ∨ s.holder = .t3cb ∨ s.holder = .t3u then 1 else 0)

def exiting (s : St) : Bool := s.holder = .xrcb || s.holder = .xr2 || s.holder = .xccb || s.holder = .xc2

def entering (s : St) : Bool := s.holder = .t3cb

/-- The inductive invariant. -/
structure Inv (s : St) : Prop where
  ledger  : s.cnt = s.counted - (if s.off then M else 0)
  bound   : s.counted < M
  idleOff : s.idle = true → s.off = true
  offTry  : s.off = true → s.idle = false → tryCount s = 1
  tryOff  : tryCount s ≥ 1 → s.off = true ∧ s.idle = false
  tryOne  : tryCount s ≤ 1
  exitIdle : exiting s = true → s.idle = true
  zOpen   : s.closed = false → s.z = 0
  safe    : s.closed = false → s.idle = true → s.b2f = 0 ∧ s.b2s = 0 ∧ s.inCall = 0 ∧ s.holder ≠ .xr3
  late    : s.closed = false → (s.holder = .t3 ∨ s.holder = .t3cb) → s.b2f = 0 ∧ s.b2s = 0 ∧ s.inCall = 0
  alt     : s.exits = s.enters + (if (s.idle = true ∧ exiting s = false) ∨ entering s = true then 0 else 1)

theorem inv_init : Inv init := by
  have hM := M_pos
  constructor <;> simp [init, St.counted, tryCount, exiting, entering] <;> omega

macro "idle_rule" : tactic => `(tactic|
  (intro s t h st
   obtain ⟨h1, h2, h3, h4, h5, h6, h7, h8, h9, h10, h11⟩ := h
   have hM := M_pos
   simp only [apply] at st
   try split at st
   all_goals simp at st
   all_goals subst st
   all_goals constructor
   all_goals grind [St.counted, tryCount, exiting, entering]))

theorem step_beginCheck : ∀ (s t : St), Inv s → apply s .beginCheck = some t → Inv t := by idle_rule
theorem step_beginAddFast : ∀ (s t : St), Inv s → apply s .beginAddFast = some t → Inv t := by idle_rule
theorem step_beginAddSlow : ∀ (s t : St), Inv s → apply s .beginAddSlow = some t → Inv t := by idle_rule
theorem step_beginStoreFast : ∀ (s t : St), Inv s → apply s .beginStoreFast = some t → Inv t := by idle_rule
theorem step_exitLockR : ∀ (s t : St), Inv s → apply s .exitLockR = some t → Inv t := by idle_rule
theorem step_exitCheckClosedR : ∀ (s t : St), Inv s → apply s .exitCheckClosedR = some t → Inv t := by idle_rule
theorem step_exitCheckNotIdleR : ∀ (s t : St), Inv s → apply s .exitCheckNotIdleR = some t → Inv t := by idle_rule
theorem step_exitCheckIdleR : ∀ (s t : St), Inv s → apply s .exitCheckIdleR = some t → Inv t := by idle_rule
theorem step_exitCbDoneR : ∀ (s t : St), Inv s → apply s .exitCbDoneR = some t → Inv t := by idle_rule
theorem step_exitAddR : ∀ (s t : St), Inv s → apply s .exitAddR = some t → Inv t := by idle_rule
theorem step_exitResetR : ∀ (s t : St), Inv s → apply s .exitResetR = some t → Inv t := by idle_rule
theorem step_beginStoreSlow : ∀ (s t : St), Inv s → apply s .beginStoreSlow = some t → Inv t := by idle_rule
theorem step_connectLock : ∀ (s t : St), Inv s → apply s .connectLock = some t → Inv t := by idle_rule
theorem step_exitCheckClosedC : ∀ (s t : St), Inv s → apply s .exitCheckClosedC = some t → Inv t := by idle_rule
theorem step_exitCheckNotIdleC : ∀ (s t : St), Inv s → apply s .exitCheckNotIdleC = some t → Inv t := by idle_rule
theorem step_exitCheckIdleC : ∀ (s t : St), Inv s → apply s .exitCheckIdleC = some t → Inv t := by idle_rule
theorem step_exitCbDoneC : ∀ (s t : St), Inv s → apply s .exitCbDoneC = some t → Inv t := by idle_rule
theorem step_exitAddC : ∀ (s t : St), Inv s → apply s .exitAddC = some t → Inv t := by idle_rule
theorem step_exitResetC : ∀ (s t : St), Inv s → apply s .exitResetC = some t → Inv t := by idle_rule
theorem step_endCheckOpen : ∀ (s t : St), Inv s → apply s .endCheckOpen = some t → Inv t := by idle_rule
theorem step_endCheckClosed : ∀ (s t : St), Inv s → apply s .endCheckClosed = some t → Inv t := by idle_rule
theorem step_endStoreTime : ∀ (s t : St), Inv s → apply s .endStoreTime = some t → Inv t := by idle_rule
theorem step_endAdd : ∀ (s t : St), Inv s → apply s .endAdd = some t → Inv t := by idle_rule
theorem step_timerCheck : ∀ (s t : St), Inv s → apply s .timerCheck = some t → Inv t := by idle_rule
theorem step_timerLoadBusy : ∀ (s t : St), Inv s → apply s .timerLoadBusy = some t → Inv t := by idle_rule
theorem step_timerLoadFree : ∀ (s t : St), Inv s → apply s .timerLoadFree = some t → Inv t := by idle_rule
theorem step_timerActYes : ∀ (s t : St), Inv s → apply s .timerActYes = some t → Inv t := by idle_rule
theorem step_timerActNo : ∀ (s t : St), Inv s → apply s .timerActNo = some t → Inv t := by idle_rule
theorem step_timerStoreAct : ∀ (s t : St), Inv s → apply s .timerStoreAct = some t → Inv t := by idle_rule
theorem step_timerLoadTime : ∀ (s t : St), Inv s → apply s .timerLoadTime = some t → Inv t := by idle_rule
theorem step_casOk : ∀ (s t : St), Inv s → apply s .casOk = some t → Inv t := by idle_rule
theorem step_casFail : ∀ (s t : St), Inv s → apply s .casFail = some t → Inv t := by idle_rule
theorem step_tryLock : ∀ (s t : St), Inv s → apply s .tryLock = some t → Inv t := by idle_rule
theorem step_tryLoadLost : ∀ (s t : St), Inv s → apply s .tryLoadLost = some t → Inv t := by idle_rule
theorem step_tryLoadOk : ∀ (s t : St), Inv s → apply s .tryLoadOk = some t → Inv t := by idle_rule
theorem step_tryUndo2 : ∀ (s t : St), Inv s → apply s .tryUndo2 = some t → Inv t := by idle_rule
theorem step_tryActYes : ∀ (s t : St), Inv s → apply s .tryActYes = some t → Inv t := by idle_rule
theorem step_tryEnter : ∀ (s t : St), Inv s → apply s .tryEnter = some t → Inv t := by idle_rule
theorem step_tryEnterDone : ∀ (s t : St), Inv s → apply s .tryEnterDone = some t → Inv t := by idle_rule
theorem step_tryUndo3 : ∀ (s t : St), Inv s → apply s .tryUndo3 = some t → Inv t := by idle_rule
theorem step_resetLock : ∀ (s t : St), Inv s → apply s .resetLock = some t → Inv t := by idle_rule
theorem step_resetDone : ∀ (s t : St), Inv s → apply s .resetDone = some t → Inv t := by idle_rule
theorem step_close : ∀ (s t : St), Inv s → apply s .close = some t → Inv t := by idle_rule

theorem step_inv {s t : St} (r : Rule) (h : Inv s) (st : apply s r = some t) : Inv t := by
  cases r
  · exact step_beginCheck s t h st
  · exact step_beginAddFast s t h st
  · exact step_beginAddSlow s t h st
  · exact step_beginStoreFast s t h st
  · exact step_exitLockR s t h st
  · exact step_exitCheckClosedR s t h st
  · exact step_exitCheckNotIdleR s t h st
  · exact step_exitCheckIdleR s t h st
  · exact step_exitCbDoneR s t h st
  · exact step_exitAddR s t h st
  · exact step_exitResetR s t h st
  · exact step_beginStoreSlow s t h st
  · exact step_connectLock s t h st
  · exact step_exitCheckClosedC s t h st
  · exact step_exitCheckNotIdleC s t h st
  · exact step_exitCheckIdleC s t h st
  · exact step_exitCbDoneC s t h st
  · exact step_exitAddC s t h st
  · exact step_exitResetC s t h st
  · exact step_endCheckOpen s t h st
  · exact step_endCheckClosed s t h st
  · exact step_endStoreTime s t h st
  · exact step_endAdd s t h st
  · exact step_timerCheck s t h st
  · exact step_timerLoadBusy s t h st
  · exact step_timerLoadFree s t h st
  · exact step_timerActYes s t h st
  · exact step_timerActNo s t h st
  · exact step_timerStoreAct s t h st
  · exact step_timerLoadTime s t h st
  · exact step_casOk s t h st
  · exact step_casFail s t h st
  · exact step_tryLock s t h st
  · exact step_tryLoadLost s t h st
  · exact step_tryLoadOk s t h st
  · exact step_tryUndo2 s t h st
  · exact step_tryActYes s t h st
  · exact step_tryEnter s t h st
  · exact step_tryEnterDone s t h st
  · exact step_tryUndo3 s t h st
  · exact step_resetLock s t h st
  · exact step_resetDone s t h st
  · exact step_close s t h st

end GrpcProofs.Lemmas.Idle
