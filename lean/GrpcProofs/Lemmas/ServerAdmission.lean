import GrpcModel.Model.ServerAdmission
/-!
Lemmas about the server admission model (C12): what the header loop of operateHeaders computes,
and what an untruncated, accepted framer result looks like.
-/
namespace GrpcProofs.ServerAdmission
open GrpcModel.ServerAdmission GrpcModel.Generated

/-! ### header kinds -/

theorem kindOf_contentType : kindOf (str "content-type") = .contentType := by decide
theorem kindOf_method : kindOf (str ":method") = .method := by decide
theorem kindOf_path : kindOf (str ":path") = .path := by decide
theorem kindOf_timeout : kindOf (str "grpc-timeout") = .timeout := by decide
theorem kindOf_connection : kindOf (str "connection") = .connection := by decide
theorem kindOf_authority : kindOf (str ":authority") = .other := by decide
theorem kindOf_host : kindOf (str "host") = .other := by decide

/-- a name that selects one of the named arms is that literal name -/
theorem kindOf_ne_other {n : Bytes} (h : kindOf n ≠ .other) :
    n = str "content-type" ∨ n = str "grpc-accept-encoding" ∨ n = str "grpc-encoding" ∨ n = str ":method" ∨
    n = str ":path" ∨ n = str "grpc-timeout" ∨ n = str "connection" := by
  unfold kindOf at h
  split at h
  · rename_i e; left; simpa using e
  split at h
  · rename_i e; right; left; simpa using e
  split at h
  · rename_i e; right; right; left; simpa using e
  split at h
  · rename_i e; right; right; right; left; simpa using e
  split at h
  · rename_i e; right; right; right; right; left; simpa using e
  split at h
  · rename_i e; right; right; right; right; right; left; simpa using e
  split at h
  · rename_i e; right; right; right; right; right; right; simpa using e
  · exact absurd rfl h

theorem kindOf_eq_timeout {n : Bytes} (h : kindOf n = .timeout) : n = str "grpc-timeout" := by
  unfold kindOf at h
  split at h; · cases h
  split at h; · cases h
  split at h; · cases h
  split at h; · cases h
  split at h; · cases h
  split at h
  · rename_i e; simpa using e
  split at h <;> cases h

theorem kindOf_eq_contentType {n : Bytes} (h : kindOf n = .contentType) : n = str "content-type" := by
  unfold kindOf at h
  split at h
  · rename_i e; simpa using e
  split at h; · cases h
  split at h; · cases h
  split at h; · cases h
  split at h; · cases h
  split at h; · cases h
  split at h <;> cases h

theorem kindOf_eq_connection {n : Bytes} (h : kindOf n = .connection) : n = str "connection" := by
  unfold kindOf at h
  split at h; · cases h
  split at h; · cases h
  split at h; · cases h
  split at h; · cases h
  split at h; · cases h
  split at h; · cases h
  split at h
  · rename_i e; simpa using e
  · cases h

/-- none of the seven literal names ends in `-bin` -/
theorem bin_suffix_other {n : Bytes} (h : hasSuffix n (str "-bin") = true) : kindOf n = .other := by
  cases hk : kindOf n with
  | other => rfl
  | _ =>
    exfalso
    rcases kindOf_ne_other (n := n) (by rw [hk]; intro c; cases c) with e | e | e | e | e | e | e <;>
      (subst e; revert h; decide)

/-! ### the header loop as a fold: each flag is a monoid homomorphism -/

def setsHeaderError (f : Field) : Bool :=
  match kindOf f.name with
  | .timeout => (GrpcModel.Timeout.decodeBytes f.value).isNone
  | .other => !(isReservedHeader f.name && !isWhitelistedHeader f.name) && !metadataHeaderOK f
  | _ => false

def setsGRPC (f : Field) : Bool :=
  match kindOf f.name with
  | .contentType => validContentType f.value
  | _ => false

def setsProtocolError (f : Field) : Bool :=
  match kindOf f.name with
  | .connection => true
  | _ => false

/-- the field is appended to `mdata[n]` by the default arm -/
def countsAs (n : Bytes) (f : Field) : Bool :=
  match kindOf f.name with
  | .other => !(isReservedHeader f.name && !isWhitelistedHeader f.name) && metadataHeaderOK f && f.name == n
  | _ => false

theorem parseField_headerError (p : Parsed) (f : Field) :
    (parseField p f).headerError = (p.headerError || setsHeaderError f) := by
  unfold parseField setsHeaderError
  cases kindOf f.name <;> simp
  · split <;> simp
  · cases GrpcModel.Timeout.decodeBytes f.value <;> simp
  · cases hres : isReservedHeader f.name <;> cases hwl : isWhitelistedHeader f.name <;>
      cases hm : metadataHeaderOK f <;> simp <;> (repeat' split) <;> simp

theorem parseField_isGRPC (p : Parsed) (f : Field) :
    (parseField p f).isGRPC = (p.isGRPC || setsGRPC f) := by
  unfold parseField setsGRPC
  cases kindOf f.name <;> simp
  · split <;> simp [*]
  · cases GrpcModel.Timeout.decodeBytes f.value <;> simp
  · (repeat' split) <;> simp

theorem parseField_protocolError (p : Parsed) (f : Field) :
    (parseField p f).protocolError = (p.protocolError || setsProtocolError f) := by
  unfold parseField setsProtocolError
  cases kindOf f.name <;> simp
  · split <;> simp
  · cases GrpcModel.Timeout.decodeBytes f.value <;> simp
  · (repeat' split) <;> simp


theorem kindOf_eq_method {n : Bytes} (h : kindOf n = .method) : n = str ":method" := by
  unfold kindOf at h
  split at h; · cases h
  split at h; · cases h
  split at h; · cases h
  split at h
  · rename_i e; simpa using e
  split at h; · cases h
  split at h; · cases h
  split at h <;> cases h

theorem parseField_nAuthority (p : Parsed) (f : Field) :
    (parseField p f).nAuthority = p.nAuthority + (if countsAs (str ":authority") f then 1 else 0) := by
  unfold parseField countsAs
  cases kindOf f.name <;> simp
  · split <;> simp
  · cases GrpcModel.Timeout.decodeBytes f.value <;> simp
  · cases hres : isReservedHeader f.name <;> cases hwl : isWhitelistedHeader f.name <;>
      cases hm : metadataHeaderOK f <;> simp <;> (repeat' split) <;> simp_all

theorem authority_ne_host : str ":authority" ≠ str "host" := by decide
theorem host_ne_authority : str "host" ≠ str ":authority" := by decide

theorem parseField_nHost (p : Parsed) (f : Field) :
    (parseField p f).nHost = p.nHost + (if countsAs (str "host") f then 1 else 0) := by
  unfold parseField countsAs
  cases kindOf f.name <;> simp
  · split <;> simp
  · cases GrpcModel.Timeout.decodeBytes f.value <;> simp
  · cases hres : isReservedHeader f.name <;> cases hwl : isWhitelistedHeader f.name <;>
      cases hm : metadataHeaderOK f <;> simp <;> (repeat' split) <;> simp_all [authority_ne_host, host_ne_authority]

theorem parseField_method (p : Parsed) (f : Field) :
    (parseField p f).method = if kindOf f.name = .method then some f.value else p.method := by
  unfold parseField
  cases kindOf f.name <;> simp
  · split <;> simp
  · cases GrpcModel.Timeout.decodeBytes f.value <;> simp
  · (repeat' split) <;> simp

/-! ### folds -/

theorem foldl_or {α β : Type} (step : β → α → β) (proj : β → Bool) (g : α → Bool)
    (h : ∀ b a, proj (step b a) = (proj b || g a)) (l : List α) (b : β) :
    proj (l.foldl step b) = (proj b || l.any g) := by
  induction l generalizing b with
  | nil => simp
  | cons a t ih => simp only [List.foldl_cons, List.any_cons]; rw [ih, h, Bool.or_assoc]

theorem foldl_count {α β : Type} (step : β → α → β) (proj : β → Nat) (g : α → Bool)
    (h : ∀ b a, proj (step b a) = proj b + (if g a then 1 else 0)) (l : List α) (b : β) :
    proj (l.foldl step b) = proj b + l.countP g := by
  induction l generalizing b with
  | nil => simp
  | cons a t ih =>
    simp only [List.foldl_cons, List.countP_cons]; rw [ih, h]; omega

theorem parse_headerError (fs : List Field) : (parse fs).headerError = fs.any setsHeaderError := by
  unfold parse; rw [foldl_or parseField (·.headerError) setsHeaderError parseField_headerError]; rfl

theorem parse_isGRPC (fs : List Field) : (parse fs).isGRPC = fs.any setsGRPC := by
  unfold parse; rw [foldl_or parseField (·.isGRPC) setsGRPC parseField_isGRPC]; rfl

theorem parse_protocolError (fs : List Field) : (parse fs).protocolError = fs.any setsProtocolError := by
  unfold parse; rw [foldl_or parseField (·.protocolError) setsProtocolError parseField_protocolError]; rfl

theorem parse_nAuthority (fs : List Field) : (parse fs).nAuthority = fs.countP (countsAs (str ":authority")) := by
  unfold parse; rw [foldl_count parseField (·.nAuthority) _ parseField_nAuthority]; simp

theorem parse_nHost (fs : List Field) : (parse fs).nHost = fs.countP (countsAs (str "host")) := by
  unfold parse; rw [foldl_count parseField (·.nHost) _ parseField_nHost]; simp

/-- `httpMethod` after the loop is the value of some `:method` field -/
theorem foldl_method (fs : List Field) (p : Parsed) (v : Bytes)
    (h : (fs.foldl parseField p).method = some v) :
    p.method = some v ∨ ∃ f ∈ fs, f.name = str ":method" ∧ f.value = v := by
  induction fs generalizing p with
  | nil => left; exact h
  | cons a t ih =>
    simp only [List.foldl_cons] at h
    rcases ih _ h with h1 | ⟨f, hf, hn, hv⟩
    · rw [parseField_method] at h1
      split at h1
      · rename_i hk
        right; exact ⟨a, List.mem_cons_self .., kindOf_eq_method hk, by simpa using h1⟩
      · left; exact h1
    · right; exact ⟨f, List.mem_cons_of_mem _ hf, hn, hv⟩

/-- every `:method` field seen after the last one is … the last one: if the loop ends with value `v`,
every `:method` field that is the ONLY one has value `v` (used with uniqueness from the framer) -/
theorem foldl_method_all (fs : List Field) (p : Parsed) (v : Bytes)
    (h : (fs.foldl parseField p).method = some v)
    (huniq : fs.countP (fun f => f.name == str ":method") ≤ 1) :
    ∀ f ∈ fs, f.name = str ":method" → f.value = v := by
  induction fs generalizing p with
  | nil => intro f hf; cases hf
  | cons a t ih =>
    intro f hf hn
    simp only [List.foldl_cons] at h
    simp only [List.countP_cons] at huniq
    rcases List.mem_cons.mp hf with rfl | hft
    · -- f is the head: no further :method in t
      have hno : ∀ g ∈ t, ¬ g.name = str ":method" := by
        intro g hg hgn
        have hpos : 0 < t.countP (fun f => f.name == str ":method") :=
          List.countP_pos_iff.mpr ⟨g, hg, by rw [hgn]; exact beq_self_eq_true _⟩
        have hhead : (f.name == str ":method") = true := by rw [hn]; exact beq_self_eq_true _
        rw [hhead] at huniq
        simp only [↓reduceIte] at huniq
        omega
      rcases foldl_method t _ v h with h1 | ⟨g, hg, hgn, _⟩
      · rw [parseField_method, hn, kindOf_method] at h1; simpa using h1
      · exact absurd hgn (hno g hg)
    · exact ih _ h (by split at huniq <;> omega) f hft hn


/-! ### the framer: an accepted, untruncated block is delivered unchanged, pseudo headers first and unique -/

def good (st : FrSt) : Bool := !st.invalid && !st.truncated

/-- no pseudo header after a regular one (`saw` = a regular header has been seen) -/
def orderOK : Bool → List Field → Bool
  | _, [] => true
  | saw, f :: t => if isPseudo f then !saw && orderOK saw t else orderOK true t

theorem frStep_good (st : FrSt) (f : Field) (h : good (frStep st f) = true) :
    good st = true ∧ (frStep st f).out = f :: st.out ∧
    (frStep st f).sawRegular = (st.sawRegular || !isPseudo f) ∧ (isPseudo f = true → st.sawRegular = false) := by
  by_cases hb : (st.invalid || st.truncated) = true
  · -- emit disabled: the state does not change, so it is not good
    have e : frStep st f = st := by unfold frStep; simp only [hb, ↓reduceIte]
    rw [e] at h
    unfold good at h
    simp only [Bool.or_eq_true] at hb
    rcases hb with hb | hb <;> simp [hb] at h
  · have hb' : (st.invalid || st.truncated) = false := by simpa using hb
    have hgood : good st = true := by
      unfold good
      simp only [Bool.or_eq_false_iff] at hb'
      simp [hb'.1, hb'.2]
    by_cases hbad : (!validValue f.value || (if isPseudo f then st.sawRegular else !validWireName f.name)) = true
    · have e : frStep st f = { st with invalid := true, sawRegular := st.sawRegular || !isPseudo f } := by
        unfold frStep; simp only [hb', Bool.false_eq_true, ↓reduceIte, hbad]
      rw [e] at h; unfold good at h; simp at h
    · by_cases hbig : f.name.length + f.value.length + 32 > st.remain
      · have e : frStep st f = { st with truncated := true, remain := 0, sawRegular := st.sawRegular || !isPseudo f } := by
          unfold frStep; simp only [hb', Bool.false_eq_true, ↓reduceIte, hbad, hbig]
        rw [e] at h; unfold good at h; simp at h
      · have e : frStep st f = { st with remain := st.remain - (f.name.length + f.value.length + 32), out := f :: st.out,
                                         sawRegular := st.sawRegular || !isPseudo f } := by
          unfold frStep; simp only [hb', Bool.false_eq_true, ↓reduceIte, hbad, hbig]
        rw [e]
        refine ⟨hgood, rfl, rfl, ?_⟩
        intro hp
        cases hs : st.sawRegular
        · rfl
        · exfalso; apply hbad; simp [hp, hs]

theorem foldl_good (raw : List Field) (st : FrSt) (h : good (raw.foldl frStep st) = true) :
    good st = true ∧ (raw.foldl frStep st).out = raw.reverse ++ st.out ∧ orderOK st.sawRegular raw = true := by
  induction raw generalizing st with
  | nil => exact ⟨h, by simp, rfl⟩
  | cons f t ih =>
    simp only [List.foldl_cons] at h ⊢
    obtain ⟨hg, hout, hord⟩ := ih _ h
    obtain ⟨hg0, hout0, hsaw, hps⟩ := frStep_good st f hg
    refine ⟨hg0, ?_, ?_⟩
    · rw [hout, hout0]; simp
    · unfold orderOK
      rw [hsaw] at hord
      by_cases hp : isPseudo f = true
      · simp only [hp, ↓reduceIte, Bool.and_eq_true, Bool.not_eq_true']
        refine ⟨hps hp, ?_⟩
        simpa [hp] using hord
      · simp only [hp, Bool.false_eq_true, ↓reduceIte]
        simpa [hp] using hord

theorem framer_ok_untruncated {m : Nat} {raw fields : List Field} (h : framer m raw = .ok fields false) :
    fields = raw ∧ orderOK false raw = true ∧ checkPseudos raw = true := by
  unfold framer at h
  simp only at h
  split at h
  · cases h
  · split at h
    · cases h
    · rename_i hinv hcp
      injection h with h1 h2
      have hgood : good (raw.foldl frStep { remain := m }) = true := by
        unfold good
        simp only [Bool.not_eq_true] at hinv
        rw [hinv, h2]; rfl
      obtain ⟨_, hout, hord⟩ := foldl_good raw _ hgood
      have hrev : (raw.foldl frStep { remain := m }).out.reverse = raw := by
        rw [hout]; simp
      rw [hrev] at h1 hcp
      exact ⟨h1.symm, hord, by simpa using hcp⟩

/-- a pseudo-named field is a pseudo field -/
theorem isPseudo_of_name {f : Field} {n : Bytes} (hn : f.name = n) (hp : n.head? = some 58) : isPseudo f = true := by
  unfold isPseudo; rw [hn, hp]; rfl

theorem count_no_pseudo (t : List Field) (n : Bytes) (hp : n.head? = some 58) (h : orderOK true t = true) :
    countName t n = 0 := by
  induction t with
  | nil => rfl
  | cons f t ih =>
    unfold orderOK at h
    by_cases hf : isPseudo f = true
    · simp [hf] at h
    · simp only [hf, Bool.false_eq_true, ↓reduceIte] at h
      unfold countName at ih ⊢
      rw [List.countP_cons, ih h]
      have : (f.name == n) = false := by
        cases hfn : f.name == n
        · rfl
        · exact absurd (isPseudo_of_name (by simpa using hfn) hp) hf
      simp [this]

theorem count_pseudoPrefix (raw : List Field) (n : Bytes) (hp : n.head? = some 58) (h : orderOK false raw = true) :
    countName raw n = countName (pseudoPrefix raw) n := by
  induction raw with
  | nil => rfl
  | cons f t ih =>
    unfold orderOK at h
    unfold pseudoPrefix
    by_cases hf : isPseudo f = true
    · simp only [hf, ↓reduceIte, Bool.not_false, Bool.true_and] at h ⊢
      unfold countName at ih ⊢
      rw [List.countP_cons, List.countP_cons, ih h]
    · simp only [hf, Bool.false_eq_true, ↓reduceIte] at h ⊢
      have h0 := count_no_pseudo t n hp h
      unfold countName at h0 ⊢
      rw [List.countP_cons, h0]
      have : (f.name == n) = false := by
        cases hfn : f.name == n
        · rfl
        · exact absurd (isPseudo_of_name (by simpa using hfn) hp) hf
      simp [this]

theorem checkPseudosAux_count (l : List Field) (seen : List Bytes) (a b : Bool) (n : Bytes)
    (h : checkPseudosAux seen a b l = true) :
    countName l n ≤ (if seen.contains n then 0 else 1) := by
  induction l generalizing seen a b with
  | nil => simp [countName]
  | cons f t ih =>
    unfold checkPseudosAux at h
    simp only at h
    split at h
    · cases h
    · split at h
      · cases h
      · rename_i _ hseen
        have := ih _ _ _ h
        unfold countName at this ⊢
        rw [List.countP_cons]
        by_cases hfn : f.name = n
        · subst hfn
          simp only [beq_self_eq_true, ↓reduceIte]
          simp only [List.contains_cons, beq_self_eq_true, Bool.true_or, ↓reduceIte] at this
          simp only [Bool.not_eq_true] at hseen
          rw [hseen]; simp only [Bool.false_eq_true, ↓reduceIte]; omega
        · have hne : (f.name == n) = false := by simpa using hfn
          simp only [hne, Bool.false_eq_true, ↓reduceIte, Nat.add_zero]
          have hc : (f.name :: seen).contains n = seen.contains n := by
            simp only [List.contains_cons]
            have : (n == f.name) = false := by simpa using fun e => hfn e.symm
            rw [this]; rfl
          rw [hc] at this; exact this

/-- in an accepted block a pseudo header name occurs at most once -/
theorem framer_pseudo_unique {m : Nat} {raw fields : List Field} (h : framer m raw = .ok fields false)
    (n : Bytes) (hp : n.head? = some 58) : countName raw n ≤ 1 := by
  obtain ⟨_, hord, hcp⟩ := framer_ok_untruncated h
  rw [count_pseudoPrefix raw n hp hord]
  unfold checkPseudos at hcp
  have := checkPseudosAux_count _ [] false false n hcp
  simpa using this

end GrpcProofs.ServerAdmission
