/-
Helper lemmas for C40, part 3: the consistency invariant between the endpoint map, the `sws` lists
and the sub-connection wrappers (`J`), preserved by every operation; consequence: a live wrapper
that points to a current endpoint is ejected iff that endpoint is.
-/
import GrpcProofs.Lemmas.OutlierB
namespace GrpcProofs.Lemmas.Outlier
open GrpcModel.Outlier

/-- the wrapper points to this endpointInfo object and is alive -/
def Attached (w : Scw) (e : Ep) : Prop := w.dead = false ∧ w.addr = e.id ∧ w.ep = some e.gen

/-- consistency of the endpoint map, the `sws` lists and the wrappers -/
structure J (s : St) : Prop where
  nd : (idsOf s.eps).Nodup
  A : ∀ e ∈ s.eps, ∀ x ∈ e.sws, ∃ w ∈ s.scws, w.serial = x ∧ Attached w e
  B : ∀ w ∈ s.scws, ∀ e ∈ s.eps, Attached w e → w.serial ∈ e.sws
  S : (s.scws.map (·.serial)).Nodup
  Sb : ∀ w ∈ s.scws, w.serial < s.nextSerial
  G : ∀ e ∈ s.eps, e.gen < s.nextGen
  Gw : ∀ w ∈ s.scws, ∀ g, w.ep = some g → g < s.nextGen
  E : ∀ w ∈ s.scws, ∀ e ∈ s.eps, Attached w e → w.ejected = e.ejected

structure Skel (w v : Scw) : Prop where
  serial : v.serial = w.serial
  addr : v.addr = w.addr
  ep : v.ep = w.ep
  dead : v.dead = w.dead

structure EpSkel (e f : Ep) : Prop where
  id : f.id = e.id
  gen : f.gen = e.gen
  sws : f.sws = e.sws

theorem eq_of_nodup_serial {scws : List Scw} (h : (scws.map (·.serial)).Nodup) {a b : Scw} (ha : a ∈ scws) (hb : b ∈ scws)
    (hs : a.serial = b.serial) : a = b := by
  induction scws with
  | nil => cases ha
  | cons x xs ih =>
    simp only [List.map_cons, List.nodup_cons] at h
    rcases List.mem_cons.mp ha with rfl | ha' <;> rcases List.mem_cons.mp hb with rfl | hb'
    · rfl
    · exact absurd (by rw [hs]; exact List.mem_map_of_mem hb') h.1
    · exact absurd (by rw [← hs]; exact List.mem_map_of_mem ha') h.1
    · exact ih h.2 ha' hb'

/-- generic preservation: wrappers and endpoints are mapped keeping their skeletons, and the
    `ejected` flags / ejection states still agree on attached pairs -/
theorem J_of_maps {s t : St} (h : J s) (g : Scw → Scw) (f : Ep → Ep)
    (hg : ∀ w, Skel w (g w)) (hf : ∀ e, EpSkel e (f e))
    (hs : t.scws = s.scws.map g) (he : t.eps = s.eps.map f)
    (hns : t.nextSerial = s.nextSerial) (hng : t.nextGen = s.nextGen)
    (hE : ∀ w ∈ s.scws, ∀ e ∈ s.eps, Attached w e → (g w).ejected = (f e).ejected) : J t := by
  have att : ∀ w e, Attached (g w) (f e) ↔ Attached w e := by
    intro w e; simp only [Attached, (hg w).dead, (hg w).addr, (hg w).ep, (hf e).id, (hf e).gen]
  constructor
  · rw [he]; simp only [idsOf, List.map_map]
    have : (fun x => x.id) ∘ f = fun x => x.id := by funext x; exact (hf x).id
    rw [this]; exact h.nd
  · intro e' he' x hx
    rw [he] at he'; obtain ⟨e, hem, rfl⟩ := List.mem_map.mp he'
    rw [(hf e).sws] at hx
    obtain ⟨w, hw, hser, hatt⟩ := h.A e hem x hx
    exact ⟨g w, by rw [hs]; exact List.mem_map_of_mem hw, by rw [(hg w).serial, hser], (att w e).mpr hatt⟩
  · intro w' hw' e' he' hatt
    rw [hs] at hw'; obtain ⟨w, hw, rfl⟩ := List.mem_map.mp hw'
    rw [he] at he'; obtain ⟨e, hem, rfl⟩ := List.mem_map.mp he'
    rw [(hg w).serial, (hf e).sws]
    exact h.B w hw e hem ((att w e).mp hatt)
  · rw [hs, List.map_map]
    have : (fun x => x.serial) ∘ g = fun x => x.serial := by funext x; exact (hg x).serial
    rw [this]; exact h.S
  · intro w' hw'
    rw [hs] at hw'; obtain ⟨w, hw, rfl⟩ := List.mem_map.mp hw'
    rw [(hg w).serial, hns]; exact h.Sb w hw
  · intro e' he'
    rw [he] at he'; obtain ⟨e, hem, rfl⟩ := List.mem_map.mp he'
    rw [(hf e).gen, hng]; exact h.G e hem
  · intro w' hw' gg hgg
    rw [hs] at hw'; obtain ⟨w, hw, rfl⟩ := List.mem_map.mp hw'
    rw [(hg w).ep] at hgg
    rw [hng]; exact h.Gw w hw gg hgg
  · intro w' hw' e' he' hatt
    rw [hs] at hw'; obtain ⟨w, hw, rfl⟩ := List.mem_map.mp hw'
    rw [he] at he'; obtain ⟨e, hem, rfl⟩ := List.mem_map.mp he'
    exact hE w hw e hem ((att w e).mp hatt)

/-! ### what a batch of ejection updates does to the wrappers -/

/-- the flag of the wrapper with serial `x` after the updates `cmds` -/
def finalFlag (cmds : List Cmd) (x : Nat) (b : Bool) : Bool :=
  cmds.foldl (fun b c => if c.1 = x then c.2 else b) b

/-- `handleEjection` / `handleUnejection` on the wrapper addressed by the update -/
def cmdMap (c : Cmd) (w : Scw) : Scw :=
  if w.serial = c.1 then
    (if c.2 then { w with ejected := true, last := if w.hl then some 3 else w.last }
     else { w with ejected := false, last := if w.hl then some w.latestHealth else w.last })
  else w

theorem cmdMap_skel (c : Cmd) (w : Scw) : Skel w (cmdMap c w) := by
  unfold cmdMap; split
  · split <;> exact ⟨rfl, rfl, rfl, rfl⟩
  · exact ⟨rfl, rfl, rfl, rfl⟩

theorem cmdMap_ejected (c : Cmd) (w : Scw) : (cmdMap c w).ejected = if c.1 = w.serial then c.2 else w.ejected := by
  unfold cmdMap
  by_cases h : w.serial = c.1
  · simp only [h, if_true]; split <;> simp_all
  · have : ¬ c.1 = w.serial := fun hh => h hh.symm
    simp [h, this]

theorem applyCmd_map (scws : List Scw) (dl : List Dl) (c : Cmd) : (applyCmd (scws, dl) c).1 = scws.map (cmdMap c) := by
  simp only [applyCmd]
  split
  · next hf =>
    have hnone : ∀ w ∈ scws, w.serial ≠ c.1 := by
      intro w hw hs
      unfold findScw at hf
      have := List.find?_eq_none.mp hf w hw
      simp [hs] at this
    symm
    calc scws.map (cmdMap c) = scws.map id := by
          apply List.map_congr_left; intro w hw; simp [cmdMap, hnone w hw]
      _ = scws := List.map_id _
  · split
    · next h2 =>
      simp only [updScw]
      apply List.map_congr_left; intro w _; simp [cmdMap, h2]
    · next h2 =>
      simp only [updScw]
      apply List.map_congr_left; intro w _; simp [cmdMap, h2]

/-- all updates of a batch, as one map -/
def cmdsMap (cmds : List Cmd) (w : Scw) : Scw := cmds.foldl (fun w c => cmdMap c w) w

theorem cmdsMap_skel (cmds : List Cmd) (w : Scw) : Skel w (cmdsMap cmds w) := by
  induction cmds generalizing w with
  | nil => exact ⟨rfl, rfl, rfl, rfl⟩
  | cons c cs ih =>
    have h1 := cmdMap_skel c w
    have h2 := ih (cmdMap c w)
    exact ⟨h2.serial.trans h1.serial, h2.addr.trans h1.addr, h2.ep.trans h1.ep, h2.dead.trans h1.dead⟩

theorem cmdsMap_ejected (cmds : List Cmd) (w : Scw) : (cmdsMap cmds w).ejected = finalFlag cmds w.serial w.ejected := by
  induction cmds generalizing w with
  | nil => rfl
  | cons c cs ih =>
    show (cmdsMap cs (cmdMap c w)).ejected = finalFlag cs w.serial (if c.1 = w.serial then c.2 else w.ejected)
    rw [ih, (cmdMap_skel c w).serial, cmdMap_ejected]

theorem applyCmds_map (scws : List Scw) (cmds : List Cmd) : (applyCmds scws cmds).1 = scws.map (cmdsMap cmds) := by
  unfold applyCmds
  suffices h : ∀ (acc : List Scw × List Dl), (cmds.foldl applyCmd acc).1 = acc.1.map (cmdsMap cmds) from h _
  induction cmds with
  | nil =>
    intro acc
    have : cmdsMap [] = id := by funext w; rfl
    simp [this]
  | cons c cs ih =>
    intro acc
    obtain ⟨sc, dl⟩ := acc
    simp only [List.foldl_cons]
    rw [ih, applyCmd_map, List.map_map]
    rfl

theorem finalFlag_append (a b : List Cmd) (x : Nat) (f : Bool) : finalFlag (a ++ b) x f = finalFlag b x (finalFlag a x f) := by
  simp [finalFlag, List.foldl_append]

/-- a batch in which every update carries the same flag `v` -/
theorem finalFlag_const (cmds : List Cmd) (v : Bool) (hv : ∀ c ∈ cmds, c.2 = v) (x : Nat) (f : Bool) :
    finalFlag cmds x f = if x ∈ cmds.map (·.1) then v else f := by
  induction cmds generalizing f with
  | nil => simp [finalFlag]
  | cons c cs ih =>
    have hc := hv c (by simp)
    have := ih (fun c' hc' => hv c' (by simp [hc'])) (if c.1 = x then c.2 else f)
    show finalFlag cs x (if c.1 = x then c.2 else f) = _
    rw [this]
    by_cases h1 : c.1 = x
    · simp [h1, hc]
    · have h1' : ¬ x = c.1 := fun h => h1 h.symm
      simp [h1, h1']

/-! ### who owns a serial -/

theorem Attached.same_ep {s : St} (h : J s) {w : Scw} {e1 e2 : Ep} (h1 : e1 ∈ s.eps) (h2 : e2 ∈ s.eps)
    (a1 : Attached w e1) (a2 : Attached w e2) : e1 = e2 :=
  eq_of_nodup_ids h.nd h1 h2 (by rw [← a1.2.1, ← a2.2.1])

/-- a serial in the `sws` of an endpoint belongs to a wrapper attached to that endpoint only -/
theorem serial_owner {s : St} (h : J s) {w : Scw} (hw : w ∈ s.scws) {e1 e2 : Ep} (h1 : e1 ∈ s.eps) (h2 : e2 ∈ s.eps)
    (hx : w.serial ∈ e1.sws) (a2 : Attached w e2) : e1 = e2 := by
  obtain ⟨w', hw', hser, a1⟩ := h.A e1 h1 w.serial hx
  have : w' = w := eq_of_nodup_serial h.S hw' hw hser
  subst this
  exact Attached.same_ep h h1 h2 a1 a2

/-! ### a run of the interval timer keeps J -/

theorem unejStep_flag_true (c : Cfg) (now : Int) (z : Ep) (h : (unejStep c now z).2 = true) : (unejStep c now z).1.ej = none := by
  unfold unejStep at h ⊢
  split <;> split <;> simp_all

theorem unejStep_flag_false (c : Cfg) (now : Int) (z : Ep) (h : (unejStep c now z).2 = false) : (unejStep c now z).1.ej = z.ej := by
  unfold unejStep at h ⊢
  split <;> split <;> simp_all

theorem unejStep_skel (c : Cfg) (now : Int) (z : Ep) : EpSkel z (unejStep c now z).1 := by
  unfold unejStep; split <;> split <;> exact ⟨rfl, rfl, rfl⟩

theorem swsOf_of_mem {eps : List Ep} (hn : (idsOf eps).Nodup) {e : Ep} (he : e ∈ eps) : swsOf eps e.id = e.sws := by
  unfold swsOf
  have hs := findEp_isSome_of_mem (eps := eps) (id := e.id) (by simp only [idsOf, List.mem_map]; exact ⟨e, he, rfl⟩)
  cases hf : findEp eps e.id with
  | none => simp [hf] at hs
  | some e' =>
    obtain ⟨h1, h2⟩ := findEp_some hf
    have := eq_of_nodup_ids hn h1 he h2
    simp [this]

theorem mem_ejCmds {eps : List Ep} {js : List Nat} {x : Nat} :
    x ∈ (ejCmds eps js).map (·.1) ↔ ∃ j ∈ js, x ∈ swsOf eps j := by
  simp only [ejCmds, List.map_flatMap, List.mem_flatMap, List.map_map, Function.comp_def, List.map_id']

theorem ejCmds_flag {eps : List Ep} {js : List Nat} : ∀ c ∈ ejCmds eps js, c.2 = true := by
  intro c hc
  simp only [ejCmds, List.mem_flatMap, List.mem_map] at hc
  obtain ⟨_, _, _, _, rfl⟩ := hc
  rfl

/-- the un-ejection updates of the last loop -/
def unejCmds (c : Cfg) (now : Int) (eps : List Ep) : List Cmd := (unejPass c now eps).2.2

theorem mem_unejCmds {c : Cfg} {now : Int} {eps : List Ep} {x : Nat} :
    x ∈ (unejCmds c now eps).map (·.1) ↔ ∃ z ∈ eps, (unejStep c now z).2 = true ∧ x ∈ z.sws := by
  simp only [unejCmds, unejPass, List.map_flatMap, List.mem_flatMap, List.mem_filter, List.mem_map, List.map_map,
    Function.comp_def]
  constructor
  · rintro ⟨p, ⟨⟨z, hz, rfl⟩, hflag⟩, hx⟩
    refine ⟨z, hz, hflag, ?_⟩
    have := (unejStep_skel c now z).sws
    simpa [this] using hx
  · rintro ⟨z, hz, hflag, hx⟩
    refine ⟨unejStep c now z, ⟨⟨z, hz, rfl⟩, hflag⟩, ?_⟩
    have := (unejStep_skel c now z).sws
    simpa [this] using hx

theorem unejCmds_flag {c : Cfg} {now : Int} {eps : List Ep} : ∀ cmd ∈ unejCmds c now eps, cmd.2 = false := by
  intro cmd hc
  simp only [unejCmds, unejPass, List.mem_flatMap, List.mem_map] at hc
  obtain ⟨_, _, _, _, rfl⟩ := hc
  rfl

theorem fire_scws (s : St) (c : Cfg) (hc : s.cfg = some c) (oS oF d : List Nat) :
    (fire s oS oF d).1.scws = s.scws.map (cmdsMap ((algsLoop c s oS oF d).cmds ++ unejCmds c s.now (algsLoop c s oS oF d).eps)) ∧
    (fire s oS oF d).1.nextSerial = s.nextSerial ∧ (fire s oS oF d).1.nextGen = s.nextGen := by
  unfold fire
  rw [hc]
  simp only [fireCore_eq]
  exact ⟨applyCmds_map _ _, trivial, trivial⟩

theorem J_fire (s : St) (h : J s) (oS oF d : List Nat) : J (fire s oS oF d).1 := by
  cases hc : s.cfg with
  | none => rw [fire_nocfg s hc]; exact h
  | some c =>
    obtain ⟨he, _, _⟩ := fire_state s c hc oS oF d
    obtain ⟨hsc, hns, hng⟩ := fire_scws s c hc oS oF d
    obtain ⟨js1, js2, sp⟩ := algsLoop_spec c s oS oF d
    obtain ⟨js, hjs⟩ : ∃ js, js = js1 ++ js2 := ⟨_, rfl⟩
    have spe := sp.eps
    have spc := sp.cmds
    rw [← hjs] at spe spc
    let F : Ep → Ep := fun e => (unejStep c s.now (applyEj s.now js e.swap)).1
    have hF : ∀ e, EpSkel e (F e) := by
      intro e
      have h1 := unejStep_skel c s.now (applyEj s.now js e.swap)
      have h2 := applyEj_sameRest s.now js e.swap
      exact ⟨h1.id.trans h2.id, h1.gen.trans h2.gen, h1.sws.trans h2.sws⟩
    have heps : (fire s oS oF d).1.eps = s.eps.map F := by
      rw [he, unejPass_eps, spe]
      simp only [swapped, List.map_map]
      rfl
    have hl2 : (algsLoop c s oS oF d).eps = s.eps.map (fun e => applyEj s.now js e.swap) := by
      rw [spe]; simp only [swapped, List.map_map]; rfl
    apply J_of_maps h _ F (fun w => cmdsMap_skel _ w) hF hsc heps hns hng
    intro w hw e hem hatt
    rw [cmdsMap_ejected, finalFlag_append, spc]
    rw [finalFlag_const _ false unejCmds_flag, finalFlag_const _ true ejCmds_flag]
    have hx : w.serial ∈ e.sws := h.B w hw e hem hatt
    have hnd : (idsOf (swapped s)).Nodup := by rw [idsOf_swapped]; exact h.nd
    -- membership in the two batches, in terms of e
    have m1 : w.serial ∈ (ejCmds (swapped s) js).map (·.1) ↔ e.id ∈ js := by
      rw [mem_ejCmds]
      constructor
      · rintro ⟨j, hj, hxs⟩
        unfold swsOf at hxs
        cases hf : findEp (swapped s) j with
        | none => simp [hf] at hxs
        | some e' =>
          simp only [hf] at hxs
          obtain ⟨hm, hid⟩ := findEp_some hf
          obtain ⟨e0, he0, rfl⟩ := mem_swapped hm
          have : e0 = e := serial_owner h hw he0 hem hxs hatt
          subst this
          rw [← hid] at hj; exact hj
      · intro hj
        refine ⟨e.id, hj, ?_⟩
        have : swsOf (swapped s) e.swap.id = e.swap.sws := swsOf_of_mem hnd (List.mem_map_of_mem hem)
        exact this ▸ hx
    have m2 : w.serial ∈ (unejCmds c s.now (algsLoop c s oS oF d).eps).map (·.1) ↔
        (unejStep c s.now (applyEj s.now js e.swap)).2 = true := by
      rw [mem_unejCmds, hl2]
      constructor
      · rintro ⟨z, hz, hflag, hxs⟩
        obtain ⟨e0, he0, rfl⟩ := List.mem_map.mp hz
        have hsw : (applyEj s.now js e0.swap).sws = e0.sws := (applyEj_sameRest s.now js e0.swap).sws
        rw [hsw] at hxs
        have : e0 = e := serial_owner h hw he0 hem hxs hatt
        subst this; exact hflag
      · intro hflag
        refine ⟨_, List.mem_map_of_mem hem, hflag, ?_⟩
        rw [(applyEj_sameRest s.now js e.swap).sws]; exact hx
    show (if w.serial ∈ _ then false else if w.serial ∈ _ then true else w.ejected) = (F e).ejected
    by_cases hflag : (unejStep c s.now (applyEj s.now js e.swap)).2 = true
    · have := unejStep_flag_true c s.now _ hflag
      simp [m2.mpr hflag, F, Ep.ejected, this]
    · have hflag' : (unejStep c s.now (applyEj s.now js e.swap)).2 = false := by simpa using hflag
      have hej := unejStep_flag_false c s.now _ hflag'
      have hn2 : ¬ w.serial ∈ (unejCmds c s.now (algsLoop c s oS oF d).eps).map (·.1) := fun hh => hflag (m2.mp hh)
      simp only [hn2, if_false]
      by_cases hj : e.id ∈ js
      · have : (applyEj s.now js e.swap).ej = some s.now := applyEj_mem s.now js e.swap hj
        simp [m1.mpr hj, F, Ep.ejected, hej, this]
      · have hn1 : ¬ w.serial ∈ (ejCmds (swapped s) js).map (·.1) := fun hh => hj (m1.mp hh)
        have : applyEj s.now js e.swap = e.swap := applyEj_not_mem s.now js e.swap hj
        rw [this] at hej
        have hej' : (F e).ejected = e.ejected := by
          show (unejStep c s.now (applyEj s.now js e.swap)).1.ej.isSome = e.ej.isSome
          rw [this, hej]; rfl
        simp only [hn1, if_false, hej']
        exact h.E w hw e hem hatt

/-! ### the other operations keep J -/

theorem J_congr {s t : St} (h : J s) (hs : t.scws = s.scws) (he : t.eps = s.eps)
    (hns : t.nextSerial = s.nextSerial) (hng : t.nextGen = s.nextGen) : J t := by
  apply J_of_maps h id id (fun _ => ⟨rfl, rfl, rfl, rfl⟩) (fun _ => ⟨rfl, rfl, rfl⟩) (by simp [hs]) (by simp [he]) hns hng
  intro w hw e he' ha; exact h.E w hw e he' ha

theorem J_calls (s : St) (h : J s) (a b c : Nat) : J (calls s a b c).1 := by
  unfold calls
  repeat' split
  all_goals first
    | exact h
    | (refine J_of_maps h id ?f (fun _ => ⟨rfl, rfl, rfl, rfl⟩) ?hf ?hs ?he ?hns ?hng ?hE
       case he => rfl
       case hs => simp
       case hns => rfl
       case hng => rfl
       case hf => intro e; split <;> exact ⟨rfl, rfl, rfl⟩
       case hE =>
         intro w hw e he ha
         have := h.E w hw e he ha
         simp only [id]; split <;> exact this)

theorem J_updScw (s : St) (h : J s) (serial : Nat) (f : Scw → Scw) (hf : ∀ w, Skel w (f w) ∧ (f w).ejected = w.ejected)
    {t : St} (hs : t.scws = updScw s.scws serial f) (he : t.eps = s.eps)
    (hns : t.nextSerial = s.nextSerial) (hng : t.nextGen = s.nextGen) : J t := by
  apply J_of_maps h (fun w => if w.serial = serial then f w else w) id _ (fun _ => ⟨rfl, rfl, rfl⟩) hs (by simp [he]) hns hng
  · intro w hw e he' ha
    have := h.E w hw e he' ha
    simp only [id]; split
    · rw [(hf w).2]; exact this
    · exact this
  · intro w; split
    · exact (hf w).1
    · exact ⟨rfl, rfl, rfl, rfl⟩

theorem J_scUpdate (s : St) (h : J s) (a b : Nat) : J (scUpdate s a b).1 := by
  unfold scUpdate
  repeat' split
  all_goals first
    | exact h
    | (refine J_updScw s h a ?f ?hf ?hs ?he ?hns ?hng
       case hs => rfl
       case he => rfl
       case hns => rfl
       case hng => rfl
       case hf => intro w; exact ⟨⟨rfl, rfl, rfl, rfl⟩, rfl⟩)

theorem J_healthUpdate (s : St) (h : J s) (a b : Nat) : J (healthUpdate s a b).1 := by
  unfold healthUpdate
  repeat' split
  all_goals first
    | exact h
    | (refine J_updScw s h a ?f ?hf ?hs ?he ?hns ?hng
       case hs => rfl
       case he => rfl
       case hns => rfl
       case hng => rfl
       case hf => intro w; split <;> exact ⟨⟨rfl, rfl, rfl, rfl⟩, rfl⟩)

theorem findEp_eq_of_mem {eps : List Ep} (hn : (idsOf eps).Nodup) {e : Ep} (he : e ∈ eps) : findEp eps e.id = some e := by
  have hs := findEp_isSome_of_mem (eps := eps) (id := e.id) (by simp only [idsOf, List.mem_map]; exact ⟨e, he, rfl⟩)
  cases hf : findEp eps e.id with
  | none => simp [hf] at hs
  | some e' =>
    obtain ⟨h1, h2⟩ := findEp_some hf
    rw [eq_of_nodup_ids hn h1 he h2]

theorem J_newScw (s : St) (h : J s) (id : Nat) : J (newScw s id) := by
  unfold newScw
  constructor
  · -- nd
    simp only [idsOf, List.map_map]
    have : ((fun x : Ep => x.id) ∘ fun x : Ep => if x.id = id then { x with sws := x.sws ++ [s.nextSerial] } else x) = fun x => x.id := by
      funext x; simp only [Function.comp]; split <;> rfl
    rw [this]; exact h.nd
  · -- A
    intro e' he' x hx
    obtain ⟨e, hem, rfl⟩ := List.mem_map.mp he'
    simp only [List.mem_append, List.mem_singleton]
    by_cases hid : e.id = id
    · subst hid
      simp only [if_true, List.mem_append, List.mem_singleton] at hx ⊢
      rcases hx with hx | rfl
      · obtain ⟨w, hw, hser, hatt⟩ := h.A e hem x hx
        exact ⟨w, Or.inl hw, hser, hatt⟩
      · refine ⟨_, Or.inr rfl, rfl, rfl, rfl, ?_⟩
        simp [findEp_eq_of_mem h.nd hem]
    · simp only [hid, if_false] at hx ⊢
      obtain ⟨w, hw, hser, hatt⟩ := h.A e hem x hx
      exact ⟨w, Or.inl hw, hser, hatt⟩
  · -- B
    intro w' hw' e' he' hatt
    obtain ⟨e, hem, rfl⟩ := List.mem_map.mp he'
    simp only [List.mem_append, List.mem_singleton] at hw'
    have hatt' : Attached w' e := by
      by_cases hid : e.id = id
      · simpa [Attached, hid] using hatt
      · simpa [Attached, hid] using hatt
    rcases hw' with hw' | rfl
    · have := h.B w' hw' e hem hatt'
      by_cases hid : e.id = id
      · simp [hid, this]
      · simp [hid, this]
    · have hid : e.id = id := hatt'.2.1.symm
      simp [hid]
  · -- S
    simp only [List.map_append, List.map_cons, List.map_nil]
    rw [List.nodup_append]
    refine ⟨h.S, by simp, ?_⟩
    intro a ha b hb
    simp only [List.mem_singleton] at hb
    obtain ⟨w, hw, rfl⟩ := List.mem_map.mp ha
    have := h.Sb w hw
    omega
  · -- Sb
    intro w' hw'
    simp only [List.mem_append, List.mem_singleton] at hw'
    rcases hw' with hw' | rfl
    · have := h.Sb w' hw'; show w'.serial < s.nextSerial + 1; omega
    · show s.nextSerial < s.nextSerial + 1; omega
  · -- G
    intro e' he'
    obtain ⟨e, hem, rfl⟩ := List.mem_map.mp he'
    have := h.G e hem
    split <;> exact this
  · -- Gw
    intro w' hw' g hg
    simp only [List.mem_append, List.mem_singleton] at hw'
    rcases hw' with hw' | rfl
    · exact h.Gw w' hw' g hg
    · simp only at hg
      cases hf : findEp s.eps id with
      | none => simp [hf] at hg
      | some e0 =>
        simp only [hf, Option.map_some, Option.some.injEq] at hg
        rw [← hg]; exact h.G e0 (findEp_some hf).1
  · -- E
    intro w' hw' e' he' hatt
    obtain ⟨e, hem, rfl⟩ := List.mem_map.mp he'
    simp only [List.mem_append, List.mem_singleton] at hw'
    have hatt' : Attached w' e := by
      by_cases hid : e.id = id
      · simpa [Attached, hid] using hatt
      · simpa [Attached, hid] using hatt
    have hej : (if e.id = id then { e with sws := e.sws ++ [s.nextSerial] } else e).ejected = e.ejected := by
      split <;> rfl
    rw [hej]
    rcases hw' with hw' | rfl
    · exact h.E w' hw' e hem hatt'
    · have hid : e.id = id := hatt'.2.1.symm
      have := findEp_eq_of_mem h.nd hem
      rw [hid] at this
      simp [this]

theorem J_shutScw (s : St) (h : J s) (serial : Nat) : J (shutScw s serial).1 := by
  unfold shutScw
  split
  · exact h
  · next w1 hf =>
    split
    · exact h
    · next hdead =>
      have hw1 : w1 ∈ s.scws ∧ w1.serial = serial := by
        unfold findScw at hf
        exact ⟨List.mem_of_find?_eq_some hf, by simpa using List.find?_some hf⟩
      -- the two maps
      let g : Scw → Scw := fun w => if w.serial = serial then { w with dead := true, hl := false, last := none, raw := some 4 } else w
      let m : Ep → Ep := fun x => if x.id = w1.addr ∧ some x.gen = w1.ep then { x with sws := x.sws.filter (· ≠ serial) } else x
      have hm : ∀ e, (m e).id = e.id ∧ (m e).gen = e.gen ∧ (m e).ej = e.ej := by
        intro e; simp only [m]; split <;> exact ⟨rfl, rfl, rfl⟩
      have hmsws : ∀ e x, x ∈ (m e).sws → x ∈ e.sws := by
        intro e x hx; simp only [m] at hx; split at hx
        · exact (List.mem_filter.mp hx).1
        · exact hx
      have hmsws' : ∀ e x, x ∈ e.sws → x ≠ serial → x ∈ (m e).sws := by
        intro e x hx hne; simp only [m]; split
        · exact List.mem_filter.mpr ⟨hx, by simpa using hne⟩
        · exact hx
      have hg : ∀ w, w.serial ≠ serial → g w = w := by intro w hne; simp [g, hne]
      have hgd : ∀ w, w.serial = serial → (g w).dead = true := by intro w he; simp [g, he]
      have hgs : ∀ w, (g w).serial = w.serial ∧ (g w).ep = w.ep := by
        intro w; simp only [g]; split <;> exact ⟨rfl, rfl⟩
      show J { s with scws := s.scws.map g, eps := s.eps.map m }
      constructor
      · simp only [idsOf, List.map_map]
        have : ((fun x : Ep => x.id) ∘ m) = fun x => x.id := by funext x; exact (hm x).1
        rw [this]; exact h.nd
      · intro e' he' x hx
        obtain ⟨e, hem, rfl⟩ := List.mem_map.mp he'
        have hx0 := hmsws e x hx
        obtain ⟨w, hw, hser, hatt⟩ := h.A e hem x hx0
        have hne : w.serial ≠ serial := by
          intro heq
          have : w = w1 := eq_of_nodup_serial h.S hw hw1.1 (heq.trans hw1.2.symm)
          subst this
          -- then e is the endpoint whose list was filtered, so x ≠ serial
          have hc : e.id = w.addr ∧ some e.gen = w.ep := ⟨hatt.2.1.symm, hatt.2.2.symm⟩
          simp only [m, hc, and_self, if_true] at hx
          have := (List.mem_filter.mp hx).2
          rw [← hser, heq] at this
          simp at this
        refine ⟨w, ?_, hser, ?_⟩
        · have : g w = w := hg w hne
          rw [← this]; exact List.mem_map_of_mem hw
        · exact ⟨hatt.1, hatt.2.1.trans (hm e).1.symm, hatt.2.2.trans (by rw [(hm e).2.1])⟩
      · intro w' hw' e' he' hatt
        obtain ⟨w, hw, rfl⟩ := List.mem_map.mp hw'
        obtain ⟨e, hem, rfl⟩ := List.mem_map.mp he'
        have hne : w.serial ≠ serial := by
          intro heq; have := hgd w heq; rw [hatt.1] at this; cases this
        rw [hg w hne] at hatt ⊢
        have hatt' : Attached w e := ⟨hatt.1, hatt.2.1.trans (hm e).1, hatt.2.2.trans (by rw [(hm e).2.1])⟩
        exact hmsws' e _ (h.B w hw e hem hatt') hne
      · show ((s.scws.map g).map (·.serial)).Nodup
        rw [List.map_map]
        have : ((fun x : Scw => x.serial) ∘ g) = fun x => x.serial := by funext x; exact (hgs x).1
        rw [this]; exact h.S
      · intro w' hw'
        obtain ⟨w, hw, rfl⟩ := List.mem_map.mp hw'
        rw [(hgs w).1]; exact h.Sb w hw
      · intro e' he'
        obtain ⟨e, hem, rfl⟩ := List.mem_map.mp he'
        rw [(hm e).2.1]; exact h.G e hem
      · intro w' hw' gg hgg
        obtain ⟨w, hw, rfl⟩ := List.mem_map.mp hw'
        rw [(hgs w).2] at hgg; exact h.Gw w hw gg hgg
      · intro w' hw' e' he' hatt
        obtain ⟨w, hw, rfl⟩ := List.mem_map.mp hw'
        obtain ⟨e, hem, rfl⟩ := List.mem_map.mp he'
        have hne : w.serial ≠ serial := by
          intro heq; have := hgd w heq; rw [hatt.1] at this; cases this
        rw [hg w hne] at hatt ⊢
        have hatt' : Attached w e := ⟨hatt.1, hatt.2.1.trans (hm e).1, hatt.2.2.trans (by rw [(hm e).2.1])⟩
        show w.ejected = (m e).ej.isSome
        rw [(hm e).2.2]; exact h.E w hw e hem hatt'

theorem J_childUpdate (s : St) (h : J s) (ids : List Nat) : J (childUpdate s ids).1 := by
  unfold childUpdate
  have h1 : ∀ (ws : List Scw) (acc : St × List Dl), J acc.1 →
      J (ws.foldl (fun (acc : St × List Dl) w => let (s', d) := shutScw acc.1 w.serial; (s', acc.2 ++ d)) acc).1 := by
    intro ws
    induction ws with
    | nil => intro acc h; exact h
    | cons w ws ih =>
      intro acc h
      simp only [List.foldl_cons]
      apply ih
      exact J_shutScw acc.1 h w.serial
  have h2 : ∀ (l : List Nat) (acc : St), J acc →
      J (l.foldl (fun (acc : St) id => if acc.scws.any (fun w => !w.dead && w.addr = id) then acc else newScw acc id) acc) := by
    intro l
    induction l with
    | nil => intro acc h; exact h
    | cons id l ih =>
      intro acc h
      simp only [List.foldl_cons]
      apply ih
      split
      · exact h
      · exact J_newScw acc h id
  simp only
  apply h2
  apply h1
  exact h

/-! ### UpdateClientConnState keeps J -/

theorem mem_insertEp {e x : Ep} {l : List Ep} : x ∈ insertEp e l ↔ x = e ∨ x ∈ l := by
  have := (insertEp_perm e l).mem_iff (a := x)
  simpa using this

structure AddGen (eps0 : List Ep) (g0 : Nat) (acc : List Ep × Nat) : Prop where
  le : g0 ≤ acc.2
  mem : ∀ x ∈ acc.1, x ∈ eps0 ∨ (Fresh x ∧ g0 ≤ x.gen ∧ x.gen < acc.2)

theorem addEps_gens_fold (ids : List Nat) (eps0 : List Ep) (g0 : Nat) (acc : List Ep × Nat) (h : AddGen eps0 g0 acc) :
    AddGen eps0 g0 (ids.foldl (fun (acc : List Ep × Nat) id =>
      if (findEp acc.1 id).isSome then acc else (insertEp (newEp id acc.2) acc.1, acc.2 + 1)) acc) := by
  induction ids generalizing acc with
  | nil => exact h
  | cons id ids ih =>
    simp only [List.foldl_cons]
    apply ih
    split
    · exact h
    · constructor
      · have := h.le; show g0 ≤ acc.2 + 1; omega
      · intro x hx
        rcases mem_insertEp.mp hx with rfl | hx
        · right; exact ⟨⟨rfl, rfl, rfl⟩, h.le, by show acc.2 < acc.2 + 1; omega⟩
        · rcases h.mem x hx with h1 | ⟨hf, h2, h3⟩
          · exact Or.inl h1
          · right; exact ⟨hf, h2, by show x.gen < acc.2 + 1; omega⟩

theorem addEps_gens (ids : List Nat) (eps : List Ep) (gen : Nat) : AddGen eps gen (addEps ids eps gen) := by
  unfold addEps
  exact addEps_gens_fold ids eps gen (eps, gen) ⟨Nat.le_refl _, fun x hx => Or.inl hx⟩

theorem updEps_mem_gen (s : St) (ids : List Nat) {u : Ep} (hu : u ∈ updEps s ids) :
    u ∈ s.eps ∨ (Fresh u ∧ s.nextGen ≤ u.gen ∧ u.gen < (addEps ids s.eps s.nextGen).2) := by
  unfold updEps at hu
  exact (addEps_gens ids s.eps s.nextGen).mem u (List.mem_filter.mp hu).1

/-- the state after the part of UpdateClientConnState that runs under b.mu and after the
    un-ejection updates it queued have been handled -/
def stage1 (s : St) (c : Cfg) (ids : List Nat) : St :=
  { (updateCore s c ids).1 with scws := (applyCmds (updateCore s c ids).1.scws (updateCore s c ids).2).1 }

theorem updateCore_misc (s : St) (c : Cfg) (ids : List Nat) :
    (updateCore s c ids).1.scws = s.scws ∧ (updateCore s c ids).1.nextSerial = s.nextSerial ∧
    (updateCore s c ids).1.nextGen = (addEps ids s.eps s.nextGen).2 ∧
    (updateCore s c ids).2 = (if c.noop then ((updEps s ids).filter Ep.ejected).flatMap (fun e => e.sws.map fun x => (x, false)) else []) := by
  unfold updateCore updEps
  simp only [onNoop]
  split
  · exact ⟨rfl, rfl, rfl, rfl⟩
  · split <;> exact ⟨rfl, rfl, rfl, rfl⟩

theorem J_stage1 (s : St) (h : J s) (c : Cfg) (ids : List Nat) : J (stage1 s c ids) := by
  obtain ⟨hsc, hns, hng, hcmds⟩ := updateCore_misc s c ids
  have heps := updateCore_eps s c ids
  -- the endpoint list as a map of updEps
  obtain ⟨m, hm, hmap, hmej⟩ : ∃ m : Ep → Ep, (∀ e, EpSkel e (m e)) ∧ (updateCore s c ids).1.eps = (updEps s ids).map m ∧
      (∀ e, (m e).ej = if c.noop then none else e.ej) := by
    rw [heps]
    cases hn : c.noop with
    | true => exact ⟨fun e => { e with ej := none, mult := 0 }, fun _ => ⟨rfl, rfl, rfl⟩, by simp, fun _ => by simp⟩
    | false =>
      cases s.timerStart with
      | none => exact ⟨Ep.clear, fun _ => ⟨rfl, rfl, rfl⟩, by simp, fun _ => by simp [Ep.clear]⟩
      | some _ => exact ⟨id, fun _ => ⟨rfl, rfl, rfl⟩, by simp, fun _ => by simp⟩
  have hscws : (stage1 s c ids).scws = s.scws.map (cmdsMap (updateCore s c ids).2) := by
    show (applyCmds (updateCore s c ids).1.scws (updateCore s c ids).2).1 = _
    rw [applyCmds_map, hsc]
  have hepsS : (stage1 s c ids).eps = (updEps s ids).map m := hmap
  have hnsS : (stage1 s c ids).nextSerial = s.nextSerial := hns
  have hngS : (stage1 s c ids).nextGen = (addEps ids s.eps s.nextGen).2 := hng
  have hgle : s.nextGen ≤ (addEps ids s.eps s.nextGen).2 := (addEps_gens ids s.eps s.nextGen).le
  -- an attached pair in the new state comes from an attached pair in the old one
  have old : ∀ w ∈ s.scws, ∀ u ∈ updEps s ids, Attached (cmdsMap (updateCore s c ids).2 w) (m u) → u ∈ s.eps ∧ Attached w u := by
    intro w hw u hu hatt
    have sk := cmdsMap_skel (updateCore s c ids).2 w
    have hatt' : Attached w u := ⟨sk.dead ▸ hatt.1, by rw [← sk.addr, hatt.2.1, (hm u).id], by rw [← sk.ep, hatt.2.2, (hm u).gen]⟩
    rcases updEps_mem_gen s ids hu with hin | ⟨_, hge, _⟩
    · exact ⟨hin, hatt'⟩
    · have := h.Gw w hw u.gen hatt'.2.2
      omega
  constructor
  · rw [hepsS]; simp only [idsOf, List.map_map]
    have : ((fun x : Ep => x.id) ∘ m) = fun x => x.id := by funext x; exact (hm x).id
    rw [this]; exact updEps_nodup s ids h.nd
  · intro e' he' x hx
    rw [hepsS] at he'; obtain ⟨u, hu, rfl⟩ := List.mem_map.mp he'
    rw [(hm u).sws] at hx
    rcases updEps_mem_gen s ids hu with hin | ⟨hf, _, _⟩
    · obtain ⟨w, hw, hser, hatt⟩ := h.A u hin x hx
      have sk := cmdsMap_skel (updateCore s c ids).2 w
      refine ⟨cmdsMap (updateCore s c ids).2 w, by rw [hscws]; exact List.mem_map_of_mem hw, by rw [sk.serial, hser], ?_⟩
      exact ⟨by rw [sk.dead]; exact hatt.1, by rw [sk.addr, hatt.2.1, (hm u).id], by rw [sk.ep, hatt.2.2, (hm u).gen]⟩
    · rw [hf.2.2] at hx; cases hx
  · intro w' hw' e' he' hatt
    rw [hscws] at hw'; obtain ⟨w, hw, rfl⟩ := List.mem_map.mp hw'
    rw [hepsS] at he'; obtain ⟨u, hu, rfl⟩ := List.mem_map.mp he'
    obtain ⟨hin, hatt'⟩ := old w hw u hu hatt
    rw [(cmdsMap_skel _ w).serial, (hm u).sws]
    exact h.B w hw u hin hatt'
  · rw [hscws, List.map_map]
    have : ((fun x : Scw => x.serial) ∘ cmdsMap (updateCore s c ids).2) = fun x => x.serial := by
      funext x; exact (cmdsMap_skel _ x).serial
    rw [this]; exact h.S
  · intro w' hw'
    rw [hscws] at hw'; obtain ⟨w, hw, rfl⟩ := List.mem_map.mp hw'
    rw [(cmdsMap_skel _ w).serial, hnsS]; exact h.Sb w hw
  · intro e' he'
    rw [hepsS] at he'; obtain ⟨u, hu, rfl⟩ := List.mem_map.mp he'
    rw [(hm u).gen, hngS]
    rcases updEps_mem_gen s ids hu with hin | ⟨_, _, hlt⟩
    · have := h.G u hin; omega
    · exact hlt
  · intro w' hw' gg hgg
    rw [hscws] at hw'; obtain ⟨w, hw, rfl⟩ := List.mem_map.mp hw'
    rw [(cmdsMap_skel _ w).ep] at hgg
    have := h.Gw w hw gg hgg
    rw [hngS]; omega
  · intro w' hw' e' he' hatt
    rw [hscws] at hw'; obtain ⟨w, hw, rfl⟩ := List.mem_map.mp hw'
    rw [hepsS] at he'; obtain ⟨u, hu, rfl⟩ := List.mem_map.mp he'
    obtain ⟨hin, hatt'⟩ := old w hw u hu hatt
    have hE := h.E w hw u hin hatt'
    rw [cmdsMap_ejected, hcmds]
    show _ = (m u).ej.isSome
    rw [hmej u]
    cases hn : c.noop with
    | false => simp [finalFlag]; exact hE
    | true =>
      simp only [if_true, Option.isSome_none]
      rw [finalFlag_const _ false (by
        intro cmd hc
        simp only [List.mem_flatMap, List.mem_map] at hc
        obtain ⟨_, _, _, _, rfl⟩ := hc; rfl)]
      split
      · rfl
      · next hnot =>
        -- not addressed by any un-ejection: u was not ejected
        rw [hE]
        cases hue : u.ejected with
        | false => rfl
        | true =>
          exfalso
          apply hnot
          simp only [List.map_flatMap, List.mem_flatMap, List.mem_filter, List.map_map, Function.comp_def, List.map_id']
          exact ⟨u, ⟨hu, hue⟩, by simpa using h.B w hw u hin hatt'⟩

theorem update_stage (s : St) (c : Cfg) (ids : List Nat) :
    (update s c ids).1.scws = (childUpdate (stage1 s c ids) ids).1.scws ∧
    (update s c ids).1.eps = (childUpdate (stage1 s c ids) ids).1.eps ∧
    (update s c ids).1.nextSerial = (childUpdate (stage1 s c ids) ids).1.nextSerial ∧
    (update s c ids).1.nextGen = (childUpdate (stage1 s c ids) ids).1.nextGen := by
  unfold update stage1
  simp only
  refine ⟨?_, ?_, ?_, ?_⟩ <;> (repeat' split) <;> rfl

theorem J_update (s : St) (h : J s) (c : Cfg) (ids : List Nat) : J (update s c ids).1 := by
  obtain ⟨h1, h2, h3, h4⟩ := update_stage s c ids
  exact J_congr (J_childUpdate _ (J_stage1 s h c ids) ids) h1 h2 h3 h4

theorem J_step (s : St) (h : J s) (op : Op) : J (step s op) := by
  cases op with
  | update c ids => exact J_update s h c ids
  | fire a b c => exact J_fire s h a b c
  | calls a b c => exact J_calls s h a b c
  | sc a b => exact J_scUpdate s h a b
  | health a b => exact J_healthUpdate s h a b
  | newsc a =>
    show J (childNewSc s a).1
    unfold childNewSc; split
    · exact h
    · exact J_newScw s h a
  | rmsc a =>
    show J (childRmSc s a).1
    unfold childRmSc; split
    · exact h
    · exact J_shutScw s h a
  | childstate a =>
    show J (childState s a).1
    unfold childState; split
    · exact h
    · exact J_congr h rfl rfl rfl rfl
  | quiet b => exact J_congr h rfl rfl rfl rfl
  | advance d => exact J_congr h rfl rfl rfl rfl

theorem reach_J {s : St} (h : Reach s) : J s := by
  induction h with
  | init =>
    constructor <;> simp [GrpcModel.Outlier.init, idsOf]
  | step op _ ih => exact J_step _ ih op

end GrpcProofs.Lemmas.Outlier
