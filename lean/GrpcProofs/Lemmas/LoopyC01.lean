import GrpcProofs.Lemmas.Loopy
/-! Ledger invariant for C01: the writer's `sendQuota` / `oiws − bytesOutStanding` never exceed the peer's windows. -/
namespace GrpcProofs.Loopy
open GrpcModel.Loopy GrpcModel.Loopy.C01

/-- The ledger invariant (ignoring `closed`). -/
structure LedCore (s : St) (p : Peer) : Prop where
  conn : (s.sendQuota : Int) ≤ p.conn
  iws : p.iws = s.oiws
  win : ∀ id ∈ s.keys, p.win id = some (s.quota id)
  act : ∀ id ∈ s.active, id ∈ s.keys

/-- Frames that the ledger does not look at. -/
def Inert : Out → Prop
  | .data .. => False
  | .headers _ _ frags => ∀ x ∈ frags, x ≤ 16384
  | _ => True

theorem send_inert (p : Peer) {o : Out} (h : Inert o) : p.send o = (p, none) := by
  cases o <;> simp only [Inert] at h <;> try rfl
  · rename_i id es frags
    simp only [Peer.send]
    have : frags.all (fun x => decide (x ≤ 16384)) = true := by
      simp only [List.all_eq_true, decide_eq_true_eq]; exact h
    simp [this]

theorem sendAll_inert (p : Peer) {os : List Out} (h : ∀ o ∈ os, Inert o) : p.sendAll os = (p, none) := by
  induction os with
  | nil => rfl
  | cons o os ih =>
    simp only [Peer.sendAll, send_inert p (h o (List.mem_cons_self))]
    exact ih (fun o' ho' => h o' (List.mem_cons_of_mem _ ho'))

theorem sendAll_append (p p1 : Peer) (a b : List Out) (h : p.sendAll a = (p1, none)) :
    p.sendAll (a ++ b) = p1.sendAll b := by
  induction a generalizing p with
  | nil => simp only [Peer.sendAll] at h; cases h; rfl
  | cons o os ih =>
    simp only [List.cons_append, Peer.sendAll] at h ⊢
    rcases hs : p.send o with ⟨p2, _ | e⟩
    · rw [hs] at h; simp only at h ⊢; exact ih p2 h
    · rw [hs] at h; simp at h

theorem inert_writeHeader (id : Nat) (es : Bool) (hb : Nat) (ow : Bool) : ∀ o ∈ writeHeader id es hb ow, Inert o := by
  intro o ho
  simp only [writeHeader, List.mem_append, List.mem_singleton] at ho
  rcases ho with ho | rfl
  · split at ho
    · simp only [List.mem_singleton] at ho; subst ho; trivial
    · simp at ho
  · simp only [Inert]
    have := headerFrags_le (m := maxFrameLen) (by decide) hb
    rw [maxFrameLen_eq] at this
    exact this

/-! ### cleanupStream -/

theorem cleanupStream_outs_inert (s : St) (id : Nat) (rst : Bool) (code : Nat) :
    ∀ o ∈ (cleanupStream s id rst code).outs, Inert o := by
  intro o ho
  simp only [cleanupStream, List.mem_cons] at ho
  rcases ho with rfl | ho
  · trivial
  · split at ho
    · simp only [List.mem_singleton] at ho; subst ho; trivial
    · simp at ho

theorem removeStream_led {s : St} {p : Peer} (h : LedCore s p) (id : Nat) : LedCore (removeStream s id) p := by
  unfold removeStream
  split
  · refine ⟨h.conn, h.iws, ?_, ?_⟩
    · intro i hi
      simp only [List.mem_filter] at hi
      exact h.win i hi.1
    · intro i hi
      simp only [List.mem_filter] at hi ⊢
      exact ⟨h.act i hi.1, hi.2⟩
  · exact h

theorem cleanupStream_led {s : St} {p : Peer} (h : LedCore s p) (id : Nat) (rst : Bool) (code : Nat) :
    LedCore (cleanupStream s id rst code).st p := removeStream_led h id


/-! ### one step -/

theorem mstep_of_inert {p : Peer} {o : Op} {outs : List Out} {st : St}
    (hrecv : p.recv o outs = p) (hin : ∀ x ∈ outs, Inert x) (hst : LedCore st p) :
    ∃ p', mstep p o outs = (p', none) ∧ LedCore st p' :=
  ⟨p, by simp only [mstep, hrecv, sendAll_inert p hin], hst⟩

theorem mstep_of_inert' {p p1 : Peer} {o : Op} {outs : List Out} {st : St}
    (hrecv : p.recv o outs = p1) (hin : ∀ x ∈ outs, Inert x) (hst : LedCore st p1) :
    ∃ p', mstep p o outs = (p', none) ∧ LedCore st p' :=
  ⟨p1, by simp only [mstep, hrecv, sendAll_inert p1 hin], hst⟩

theorem led_setStr_sameBytes {s : St} {p : Peer} (h : LedCore s p) (id : Nat) (x : OutStream)
    (hb : x.bytesOut = (s.str id).bytesOut) : LedCore (s.setStr id x) p := by
  refine ⟨h.conn, h.iws, ?_, h.act⟩
  intro i hi
  rw [h.win i hi]
  by_cases hid : i = id
  · subst hid; simp [St.quota, hb]
  · simp [St.quota, setStr_str_ne _ _ hid]

theorem led_active {s : St} {p : Peer} (h : LedCore s p) (l : List Nat) (hl : ∀ i ∈ l, i ∈ s.keys) :
    LedCore { s with active := l } p :=
  ⟨h.conn, h.iws, h.win, hl⟩

theorem winUpdate_led {s : St} {p : Peer} (h : LedCore s p) (id inc : Nat) :
    ∃ p', mstep p (.winUpdate id inc) (incomingWindowUpdate s id inc).outs = (p', none) ∧
      LedCore (incomingWindowUpdate s id inc).st p' := by
  unfold incomingWindowUpdate
  by_cases h0 : id = 0
  · subst h0
    simp only [if_true]
    refine mstep_of_inert' (p1 := { p with conn := p.conn + inc }) (by simp [Peer.recv]) (by simp) ?_
    refine ⟨?_, h.iws, h.win, h.act⟩
    have := h.conn
    have h2 : (s.sendQuota + inc) % 2 ^ 32 ≤ s.sendQuota + inc := Nat.mod_le _ _
    simp only
    omega
  · simp only [h0, if_false]
    by_cases hk : id ∈ s.keys
    · simp only [hk, if_true]
      have hw := h.win id hk
      have hp : p.recv (.winUpdate id inc) [] = p.setWin id (some (s.quota id + inc)) := by
        simp [Peer.recv, h0, hw]
      split
      · refine mstep_of_inert' hp (by simp) ?_
        refine ⟨h.conn, h.iws, ?_, ?_⟩
        · intro i hi
          by_cases hid : i = id
          · subst hid; simp [Peer.setWin, St.quota]; omega
          · simp only [Peer.setWin, hid, if_false]
            rw [h.win i hi]
            simp [St.quota, setStr_str_ne _ _ hid]
        · intro i hi
          simp only [List.mem_append, List.mem_singleton] at hi
          rcases hi with hi | rfl
          · exact h.act i hi
          · exact hk
      · refine mstep_of_inert' hp (by simp) ?_
        refine ⟨h.conn, h.iws, ?_, h.act⟩
        intro i hi
        by_cases hid : i = id
        · subst hid; simp [Peer.setWin, St.quota]; omega
        · simp only [Peer.setWin, hid, if_false]
          rw [h.win i hi]
          simp [St.quota, setStr_str_ne _ _ hid]
    · simp only [hk, if_false]
      refine mstep_of_inert' (p1 := p.setWin id ((p.win id).map (· + (inc : Int)))) (by simp [Peer.recv, h0]) (by simp) ?_
      refine ⟨h.conn, h.iws, ?_, h.act⟩
      intro i hi
      have : i ≠ id := fun e => hk (e ▸ hi)
      simp only [Peer.setWin, this, if_false]
      exact h.win i hi


theorem applyIWS_led {s : St} {p : Peer} (h : LedCore s p) (v : Nat) (order : List Nat) :
    LedCore (applyIWS s v order) (p.setting (4, v)) := by
  have hwin : ∀ (str' : Nat → OutStream), (∀ i, (str' i).bytesOut = (s.str i).bytesOut) →
      ∀ i ∈ s.keys, (p.setting (4, v)).win i = some ((v : Int) - (str' i).bytesOut) := by
    intro str' hs i hi
    simp only [Peer.setting, if_true, h.win i hi, Option.map_some, St.quota, h.iws, hs]
    congr 1; omega
  unfold applyIWS
  split
  · refine ⟨h.conn, by simp [Peer.setting], ?_, ?_⟩
    · intro i hi
      simp only [St.quota]
      refine hwin (fun i => if (s.str i).state = SState.waiting then { s.str i with state := .active } else s.str i) ?_ i hi
      intro j; split <;> rfl
    · intro i hi
      simp only [List.mem_append] at hi
      rcases hi with hi | hi
      · exact h.act i hi
      · exact (mem_wakeOrder.mp hi).1
  · refine ⟨h.conn, by simp [Peer.setting], ?_, h.act⟩
    intro i hi
    exact hwin _ (fun _ => rfl) i hi

theorem applySettings_led {s : St} {p : Peer} (h : LedCore s p) (ss : List (Nat × Nat)) (order : List Nat) :
    LedCore (applySettings s ss order) (ss.foldl Peer.setting p) := by
  unfold applySettings
  induction ss generalizing s p with
  | nil => exact h
  | cons kv ss ih =>
    simp only [List.foldl_cons]
    apply ih
    by_cases h4 : kv.1 = 4
    · have : kv = (4, kv.2) := by cases kv; simp_all
      simp only [h4, if_true]
      rw [this]
      exact applyIWS_led h kv.2 order
    · simp only [h4, if_false, Peer.setting]
      exact h


theorem led_newStream {s : St} {p : Peer} (h : LedCore s p) {id : Nat} (hk : id ∉ s.keys) :
    LedCore ({ s with keys := s.keys ++ [id] }.setStr id {}) (p.setWin id (some p.iws)) := by
  refine ⟨h.conn, h.iws, ?_, ?_⟩
  · intro i hi
    simp only [setStr_keys, List.mem_append, List.mem_singleton] at hi
    by_cases hid : i = id
    · subst hid; simp [Peer.setWin, St.quota, h.iws]
    · rcases hi with hi | hi
      · simp only [Peer.setWin, hid, if_false, h.win i hi]
        simp [St.quota, St.setStr, hid]
      · exact absurd hi hid
  · intro i hi
    simp only [setStr_keys, List.mem_append]
    exact Or.inl (h.act i hi)

theorem register_led {s : St} {p : Peer} (h : LedCore s p) (id : Nat) :
    ∃ p', mstep p (.register id) (registerStream s id).outs = (p', none) ∧ LedCore (registerStream s id).st p' := by
  unfold registerStream
  split
  · exact mstep_of_inert (by simp [Peer.recv]) (by simp [Inert]) h
  · rename_i hk
    exact mstep_of_inert' (p1 := p.setWin id (some p.iws)) (by simp [Peer.recv]) (by simp) (led_newStream h hk)

theorem hasHeaders_writeHeader (id : Nat) (es : Bool) (hb : Nat) (ow : Bool) (pre : List Out) :
    hasHeaders id (pre ++ writeHeader id es hb ow) = true := by
  simp [hasHeaders, writeHeader]

theorem clientHeader_led {s : St} {p : Peer} (h : LedCore s p) (id hb : Nat) (ie : Bool) :
    ∃ p', mstep p (.clientHeaders id hb ie) (clientHeader s id hb ie).outs = (p', none) ∧
      LedCore (clientHeader s id hb ie).st p' := by
  unfold clientHeader
  split
  · exact mstep_of_inert (by simp [Peer.recv, hasHeaders]) (by simp [Inert]) h
  split
  · exact mstep_of_inert (by simp [Peer.recv, hasHeaders]) (by simp [Inert]) h
  split
  · exact mstep_of_inert (by simp [Peer.recv, hasHeaders]) (by simp [Inert]) h
  · rename_i hk
    refine mstep_of_inert' (p1 := p.setWin id (some p.iws)) ?_ ?_ (led_newStream h hk)
    · have := hasHeaders_writeHeader id false hb true [.cb .initStream id]
      simp only [List.singleton_append] at this
      simp [Peer.recv, this]
    · intro x hx
      simp only [List.mem_cons] at hx
      rcases hx with rfl | hx
      · trivial
      · exact inert_writeHeader _ _ _ _ x hx

theorem serverHeader_led {s : St} {p : Peer} (h : LedCore s p) (id : Nat) (es : Bool) (hb : Nat) (rst : Bool) (code : Nat) :
    ∃ p', mstep p (.serverHeaders id es hb rst code) (serverHeader s id es hb rst code).outs = (p', none) ∧
      LedCore (serverHeader s id es hb rst code).st p' := by
  unfold serverHeader
  split
  · exact mstep_of_inert (by simp [Peer.recv]) (by simp) h
  split
  · exact mstep_of_inert (by simp [Peer.recv]) (inert_writeHeader _ _ _ _) h
  simp only
  split
  · exact mstep_of_inert (by simp [Peer.recv]) (by simp) (led_setStr_sameBytes h id _ rfl)
  · refine mstep_of_inert (by simp [Peer.recv]) ?_ (cleanupStream_led h id rst code)
    intro x hx
    rcases List.mem_append.mp hx with hx | hx
    · exact inert_writeHeader _ _ _ _ x hx
    · exact cleanupStream_outs_inert _ _ _ _ x hx

theorem preprocessData_led {s : St} {p : Peer} (h : LedCore s p) (id hl d : Nat) (es : Bool) :
    ∃ p', mstep p (.data id hl d es) (preprocessData s id hl d es).outs = (p', none) ∧
      LedCore (preprocessData s id hl d es).st p' := by
  unfold preprocessData
  split
  · exact mstep_of_inert (by simp [Peer.recv]) (by simp) h
  rename_i hk
  simp only [Decidable.not_not] at hk
  simp only
  split
  · refine mstep_of_inert (by simp [Peer.recv]) (by simp) ?_
    have := led_setStr_sameBytes h id
      ({ state := .active, items := (s.str id).items ++ [.data (s.str id).wr hl d es], bytesOut := (s.str id).bytesOut,
         wr := (s.str id).wr + hl + d, repl := (s.str id).repl } : OutStream) rfl
    refine ⟨this.conn, this.iws, this.win, ?_⟩
    intro i hi
    simp only [List.mem_append, List.mem_singleton] at hi
    rcases hi with hi | rfl
    · exact h.act i hi
    · exact hk
  · exact mstep_of_inert (by simp [Peer.recv]) (by simp) (led_setStr_sameBytes h id _ rfl)

theorem led_draining {s : St} {p : Peer} (h : LedCore s p) (b : Bool) : LedCore { s with draining := b } p :=
  ⟨h.conn, h.iws, h.win, h.act⟩


theorem usaw_led {s : St} {p : Peer} (h : LedCore s p) (id hb : Nat) (hk : id ∈ s.keys) (pre : List Out) :
    ∃ extra, (updateStreamAfterWrite s id hb pre).outs = pre ++ extra ∧ (∀ o ∈ extra, Inert o) ∧
      LedCore (updateStreamAfterWrite s id hb pre).st p := by
  unfold updateStreamAfterWrite
  simp only
  split
  · exact ⟨[], by simp, by simp, led_setStr_sameBytes h id _ rfl⟩
  · rename_i rst code _ _
    refine ⟨writeHeader id true hb true ++ (cleanupStream s id rst code).outs, by simp, ?_, cleanupStream_led h id rst code⟩
    intro x hx
    rcases List.mem_append.mp hx with hx | hx
    · exact inert_writeHeader _ _ _ _ x hx
    · exact cleanupStream_outs_inert _ _ _ _ x hx
  · split
    · exact ⟨[], by simp, by simp, led_setStr_sameBytes h id _ rfl⟩
    · refine ⟨[], by simp, by simp, led_active h _ ?_⟩
      intro i hi
      simp only [List.mem_append, List.mem_singleton] at hi
      rcases hi with hi | rfl
      · exact h.act i hi
      · exact hk

theorem writeChunk_led {s : St} {p : Peer} (h : LedCore s p) (id hb off hl d : Nat) (es : Bool) (tl : List Item)
    (hSize dSize : Nat) (hk : id ∈ s.keys) (hsz1 : hSize + dSize ≤ 16384) (hsz2 : hSize + dSize ≤ s.sendQuota)
    (hsz3 : 0 < hSize + dSize → ((hSize + dSize : Nat) : Int) ≤ s.quota id) :
    ∃ p', p.sendAll (writeChunk s id hb off hl d es tl hSize dSize).outs = (p', none) ∧
      LedCore (writeChunk s id hb off hl d es tl hSize dSize).st p' := by
  have hw := h.win id hk
  -- ledger after the DATA frame
  let p2 : Peer := if hSize + dSize = 0 then p else
    ({ p with conn := p.conn - ((hSize + dSize : Nat) : Int) }).setWin id (some (s.quota id - ((hSize + dSize : Nat) : Int)))
  have hsend : p.sendAll [.cb .onEachWrite id, .data id off (hSize + dSize) (es && (hl + d - hSize - dSize == 0))] = (p2, none) := by
    have hc := h.conn
    simp only [Peer.sendAll, Peer.send, p2]
    by_cases h0 : hSize + dSize = 0
    · simp [h0]
    · have h3 := hsz3 (by omega)
      have : ¬ (hSize + dSize > 16384) := by omega
      simp only [this, h0, if_false, hw]
      have : ¬ (((hSize + dSize : Nat) : Int) > p.conn) := by omega
      simp only [this, if_false]
      have : ¬ (((hSize + dSize : Nat) : Int) > s.quota id) := by omega
      simp only [this, if_false]
  have h2 : LedCore ({ s with sendQuota := s.sendQuota - (hSize + dSize) }.setStr id
      { s.str id with items := (if hl + d - hSize - dSize = 0 then tl else .data (off + (hSize + dSize)) (hl - hSize) (d - dSize) es :: tl),
                      bytesOut := (s.str id).bytesOut + ((hSize + dSize : Nat) : Int), repl := (s.str id).repl + (hSize + dSize) }) p2 := by
    have hc := h.conn
    refine ⟨?_, ?_, ?_, h.act⟩
    · simp only [setStr_sendQuota, p2]
      split
      · omega
      · simp only [Peer.setWin]; omega
    · simp only [setStr_oiws, p2]
      split
      · exact h.iws
      · exact h.iws
    · intro i hi
      simp only [setStr_keys] at hi
      by_cases hid : i = id
      · subst hid
        simp only [p2, St.quota, setStr_str_same, setStr_oiws]
        split
        · rename_i h0; rw [hw]; simp only [St.quota]; congr 1; omega
        · simp only [Peer.setWin, if_true]; congr 1; omega
      · have hwi := h.win i hi
        simp only [p2, St.quota, setStr_oiws, setStr_str_ne _ _ hid]
        split
        · exact hwi
        · simp only [Peer.setWin, hid, if_false]; exact hwi
  obtain ⟨extra, ho, hin, hl3⟩ := usaw_led h2 id hb (by simpa using hk)
    [.cb .onEachWrite id, .data id off (hSize + dSize) (es && (hl + d - hSize - dSize == 0))]
  refine ⟨p2, ?_, hl3⟩
  simp only [writeChunk, ho]
  rw [sendAll_append p p2 _ _ hsend]
  exact sendAll_inert p2 hin

theorem processData_led {s : St} {p : Peer} (h : LedCore s p) (hb : Nat) :
    ∃ p', mstep p (.tick hb) (processData s hb).outs = (p', none) ∧ LedCore (processData s hb).st p' := by
  unfold processData
  split
  · exact mstep_of_inert (by simp [Peer.recv]) (by simp) h
  split
  · exact mstep_of_inert (by simp [Peer.recv]) (by simp) h
  rename_i id rest hact
  have hk : id ∈ s.keys := h.act id (by simp [hact])
  have hrest : ∀ i ∈ rest, i ∈ s.keys := fun i hi => h.act i (by simp [hact, hi])
  have h1 : LedCore { s with active := rest } p := led_active h rest hrest
  simp only
  split
  · exact mstep_of_inert (by simp [Peer.recv]) (by simp [Inert]) h1
  · exact mstep_of_inert (by simp [Peer.recv]) (by simp [Inert]) h1
  rename_i off hl d es tl hitems
  split
  · exact mstep_of_inert (by simp [Peer.recv]) (by simp) (led_setStr_sameBytes h1 id _ rfl)
  rename_i hq
  generalize hms : min (min maxFrameLen (max (s.quota id) 0).toNat) s.sendQuota = maxSize
  generalize hhs : min maxSize hl = hSize
  generalize hds : min (maxSize - hSize) d = dSize
  have hsz1 : hSize + dSize ≤ 16384 := by have := maxFrameLen_eq; omega
  have hsz2 : hSize + dSize ≤ s.sendQuota := by omega
  have hsz3 : 0 < hSize + dSize → ((hSize + dSize : Nat) : Int) ≤ s.quota id := by omega
  obtain ⟨p', h1', h2'⟩ := writeChunk_led h1 id hb off hl d es tl hSize dSize hk hsz1 hsz2 hsz3
  exact ⟨p', by simpa [mstep, Peer.recv] using h1', h2'⟩

theorem handleItem_led {s : St} {p : Peer} (h : LedCore s p) (o : Op) :
    ∃ p', mstep p o (handleItem s o).outs = (p', none) ∧ LedCore (handleItem s o).st p' := by
  cases o with
  | winUpdate id inc => exact winUpdate_led h id inc
  | outWinUpdate id inc => exact mstep_of_inert (by simp [Peer.recv]) (by simp [handleItem, Inert]) h
  | settings ss order =>
    exact mstep_of_inert' (p1 := ss.foldl Peer.setting p) (by simp [Peer.recv]) (by simp [handleItem, Inert])
      (applySettings_led h ss order)
  | outSettings ss => exact mstep_of_inert (by simp [Peer.recv]) (by simp [handleItem, Inert]) h
  | register id => exact register_led h id
  | clientHeaders id hb ie => exact clientHeader_led h id hb ie
  | serverHeaders id es hb rst code => exact serverHeader_led h id es hb rst code
  | data id hl d es => exact preprocessData_led h id hl d es
  | cleanup id rst code =>
    exact mstep_of_inert (by simp [Peer.recv]) (cleanupStream_outs_inert s id rst code) (cleanupStream_led h id rst code)
  | earlyAbort id rst hb =>
    simp only [handleItem, earlyAbort]
    split
    · exact mstep_of_inert (by simp [Peer.recv]) (by simp) h
    · refine mstep_of_inert (by simp [Peer.recv]) ?_ h
      intro x hx
      rcases List.mem_append.mp hx with hx | hx
      · exact inert_writeHeader _ _ _ _ x hx
      · split at hx
        · simp only [List.mem_singleton] at hx; subst hx; trivial
        · simp at hx
  | incomingGoAway =>
    simp only [handleItem, incomingGoAway]
    split
    · split
      · exact mstep_of_inert (by simp [Peer.recv]) (by simp) (led_draining h true)
      · exact mstep_of_inert (by simp [Peer.recv]) (by simp) (led_draining h true)
    · exact mstep_of_inert (by simp [Peer.recv]) (by simp) h
  | goAway hu code rd re =>
    simp only [handleItem, goAway]
    split
    · exact mstep_of_inert (by simp [Peer.recv]) (by simp [Inert]) h
    · exact mstep_of_inert (by simp [Peer.recv]) (by simp [Inert]) (led_draining h rd)
  | ping ack data => exact mstep_of_inert (by simp [Peer.recv]) (by simp [handleItem, Inert]) h
  | closeConn => exact mstep_of_inert (by simp [Peer.recv]) (by simp [handleItem]) h
  | outFlowReq => exact mstep_of_inert (by simp [Peer.recv]) (by simp [handleItem]) h
  | unknown => exact mstep_of_inert (by simp [Peer.recv]) (by simp [handleItem]) h
  | tick hb => exact processData_led h hb

theorem handle_led {s : St} {p : Peer} (h : LedCore s p) (o : Op) :
    ∃ p', mstep p o (handle s o).outs = (p', none) ∧ LedCore (handle s o).st p' := by
  unfold handle
  split
  · rename_i ho
    refine mstep_of_inert ?_ (by simp [Inert]) h
    cases o <;> simp [Op.outside] at ho <;> simp [Peer.recv, hasHeaders]
  · exact handleItem_led h o

/-- The ledger invariant of a writer state: once `run()` has returned nothing is written any more. -/
def Led (s : St) (p : Peer) : Prop := s.closed = true ∨ LedCore s p

theorem led_closed_irrelevant {s : St} {p : Peer} (h : LedCore s p) (b : Bool) : LedCore { s with closed := b } p :=
  ⟨h.conn, h.iws, h.win, h.act⟩

theorem step_led {s : St} {p : Peer} (h : Led s p) (o : Op) :
    ∃ p', mstep p o (step s o).outs = (p', none) ∧ Led (step s o).st p' := by
  unfold step
  by_cases hc : s.closed = true
  · simp only [hc, if_true]
    exact ⟨p.recv o [], by simp [mstep, Peer.sendAll], Or.inl hc⟩
  · simp only [hc]
    rcases h with h | h
    · exact absurd h hc
    obtain ⟨p', hm, hl⟩ := handle_led h o
    simp only [Bool.false_eq_true, if_false]
    split
    · exact ⟨p', hm, Or.inl rfl⟩
    · exact ⟨p', hm, Or.inr hl⟩

theorem led_init (side : Side) : Led (init side) Peer.init := by
  refine Or.inr ⟨?_, ?_, ?_, ?_⟩ <;> simp [init, Peer.init, defaultWindow_eq]

theorem runFrom_led {s : St} {p : Peer} (h : Led s p) (ops : List Op) :
    (runMon p (runFrom s ops).2).2 = none ∧ Led (runFrom s ops).1 (runMon p (runFrom s ops).2).1 := by
  induction ops generalizing s p with
  | nil => exact ⟨rfl, h⟩
  | cons o os ih =>
    obtain ⟨p', hm, hl⟩ := step_led h o
    simp only [runFrom, runMon, hm]
    exact ih hl


/-! ### what a clean monitor run means (facts about the monitor itself, for ANY trace) -/

/-- Frame-size clause of C01. -/
def FrameOK : Out → Prop
  | .data _ _ size _ => size ≤ 16384
  | .headers _ _ frags => ∀ x ∈ frags, x ≤ 16384
  | _ => True

/-- Window clause of C01 for one frame, given the peer's ledger just before it. -/
def FitsWindows (p : Peer) : Out → Prop
  | .data id _ size _ => size = 0 ∨ ((size : Int) ≤ p.conn ∧ ∃ w, p.win id = some w ∧ (size : Int) ≤ w)
  | _ => True

theorem send_ok {p p1 : Peer} {o : Out} (h : p.send o = (p1, none)) : FrameOK o ∧ FitsWindows p o := by
  cases o with
  | data id off size es =>
    simp only [Peer.send] at h
    split at h
    · simp at h
    split at h
    · rename_i h1 h0; exact ⟨by simp only [FrameOK]; omega, Or.inl h0⟩
    split at h
    · simp at h
    rename_i w hw
    split at h
    · simp at h
    split at h
    · simp at h
    · rename_i h1 _ h2 h3
      exact ⟨by simp only [FrameOK]; omega, Or.inr ⟨by omega, w, hw, by omega⟩⟩
  | headers id es frags =>
    simp only [Peer.send] at h
    split at h
    · rename_i ha
      simp only [List.all_eq_true, decide_eq_true_eq] at ha
      exact ⟨ha, trivial⟩
    · simp at h
  | _ => exact ⟨trivial, trivial⟩

theorem send_conn_nonneg {p p1 : Peer} {o : Out} {e : Option String} (h : p.send o = (p1, e)) (h0 : 0 ≤ p.conn) : 0 ≤ p1.conn := by
  cases o with
  | data id off size es =>
    simp only [Peer.send] at h
    repeat' split at h
    all_goals (simp only [Prod.mk.injEq] at h; obtain ⟨rfl, _⟩ := h; try exact h0)
    simp only [Peer.setWin]; omega
  | headers id es frags =>
    simp only [Peer.send] at h
    split at h <;> (simp only [Prod.mk.injEq] at h; obtain ⟨rfl, _⟩ := h; exact h0)
  | _ => simp only [Peer.send, Prod.mk.injEq] at h; obtain ⟨rfl, _⟩ := h; exact h0

theorem sendAll_conn_nonneg {p : Peer} {os : List Out} (h0 : 0 ≤ p.conn) : 0 ≤ (p.sendAll os).1.conn := by
  induction os generalizing p with
  | nil => exact h0
  | cons o os ih =>
    simp only [Peer.sendAll]
    rcases hs : p.send o with ⟨p1, _ | e⟩
    · exact ih (send_conn_nonneg hs h0)
    · exact send_conn_nonneg hs h0

theorem setting_conn (p : Peer) (kv : Nat × Nat) : (p.setting kv).conn = p.conn := by
  unfold Peer.setting; split <;> rfl

theorem recv_conn_nonneg {p : Peer} (op : Op) (outs : List Out) (h0 : 0 ≤ p.conn) : 0 ≤ (p.recv op outs).conn := by
  cases op <;> simp only [Peer.recv] <;> try exact h0
  · split
    · simp only; omega
    · exact h0
  · rename_i ss order
    have : ∀ (p : Peer), (ss.foldl Peer.setting p).conn = p.conn := by
      induction ss with
      | nil => intro p; rfl
      | cons kv ss ih => intro p; simp only [List.foldl_cons, ih, setting_conn]
    rw [this]; exact h0
  · split <;> exact h0
  · split <;> exact h0

/-- The connection window in the peer's ledger never goes negative along a trace: a DATA frame that would make it
negative is a violation and stops the ledger. -/
theorem runMon_conn_nonneg {p : Peer} (tr : List (Op × List Out)) (h0 : 0 ≤ p.conn) : 0 ≤ (runMon p tr).1.conn := by
  induction tr generalizing p with
  | nil => exact h0
  | cons a t ih =>
    obtain ⟨op, outs⟩ := a
    have h1 : 0 ≤ (mstep p op outs).1.conn := sendAll_conn_nonneg (recv_conn_nonneg op outs h0)
    simp only [runMon]
    rcases hm : mstep p op outs with ⟨p1, _ | e⟩
    · rw [hm] at h1; exact ih h1
    · rw [hm] at h1; exact h1

theorem sendAll_split {p p' : Peer} {a b : List Out} {o : Out} (h : p.sendAll (a ++ o :: b) = (p', none)) :
    ∃ pa, p.sendAll a = (pa, none) ∧ FrameOK o ∧ FitsWindows pa o := by
  induction a generalizing p with
  | nil =>
    simp only [List.nil_append, Peer.sendAll] at h
    rcases hs : p.send o with ⟨p1, _ | e⟩
    · exact ⟨p, rfl, send_ok hs⟩
    · rw [hs] at h; simp at h
  | cons x a ih =>
    simp only [List.cons_append, Peer.sendAll] at h ⊢
    rcases hs : p.send x with ⟨p1, _ | e⟩
    · rw [hs] at h; simp only at h ⊢; exact ih h
    · rw [hs] at h; simp at h

theorem runMon_append {p : Peer} (pre t : List (Op × List Out)) (h : (runMon p pre).2 = none) :
    runMon p (pre ++ t) = runMon (runMon p pre).1 t := by
  induction pre generalizing p with
  | nil => rfl
  | cons a pre ih =>
    obtain ⟨op, outs⟩ := a
    simp only [List.cons_append, runMon] at h ⊢
    rcases hm : mstep p op outs with ⟨p1, _ | e⟩
    · rw [hm] at h; simp only at h ⊢; exact ih h
    · rw [hm] at h; simp at h

theorem runMon_prefix_ok {p : Peer} (pre t : List (Op × List Out)) (h : (runMon p (pre ++ t)).2 = none) :
    (runMon p pre).2 = none := by
  induction pre generalizing p with
  | nil => rfl
  | cons a pre ih =>
    obtain ⟨op, outs⟩ := a
    simp only [List.cons_append, runMon] at h ⊢
    rcases hm : mstep p op outs with ⟨p1, _ | e⟩
    · rw [hm] at h; simp only at h ⊢; exact ih h
    · rw [hm] at h; simp at h

/-- If the monitor accepts a trace, then every frame in it satisfied the size clause, and fitted both windows of the
ledger as it stood just before that frame. -/
theorem runMon_ok_frame {p : Peer} {pre post : List (Op × List Out)} {op : Op} {a b : List Out} {o : Out}
    (h : (runMon p (pre ++ (op, a ++ o :: b) :: post)).2 = none) :
    ∃ pa, ((runMon p pre).1.recv op (a ++ o :: b)).sendAll a = (pa, none) ∧ FrameOK o ∧ FitsWindows pa o := by
  have hpre := runMon_prefix_ok pre _ h
  rw [runMon_append pre _ hpre] at h
  simp only [runMon] at h
  rcases hm : mstep (runMon p pre).1 op (a ++ o :: b) with ⟨p1, _ | e⟩
  · exact sendAll_split hm
  · rw [hm] at h; simp at h

end GrpcProofs.Loopy
