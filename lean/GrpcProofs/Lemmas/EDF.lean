/-
Helper lemmas for C38 (EDF selector, internal/wrr/edf.go) over exact rationals.
-/
import GrpcModel.Model.EDF
import GrpcProofs.Lemmas.WRRScale
import Mathlib.Algebra.BigOperators.Group.Finset.Basic
import Mathlib.Algebra.Order.BigOperators.Group.Finset
import Mathlib.Algebra.BigOperators.Ring.Finset
namespace GrpcProofs.Lemmas.EDF
open GrpcModel.EDF GrpcModel.WRRStride GrpcProofs.Lemmas.WRRScale

/-! ### argmin -/

/-- scanning `es` (which sits at positions k, k+1, … of `L`) with the current candidate `best` -/
theorem argminFrom_spec (L : List (Entry ℚ)) :
    ∀ (es : List (Entry ℚ)) (k best : Nat) (bd : ℚ),
      L.drop k = es → best < k → k ≤ L.length →
      (L.getD best ⟨0, 0⟩).deadline = bd →
      (∀ j, j < k → bd ≤ (L.getD j ⟨0, 0⟩).deadline) →
      argminFrom es k best bd < L.length ∧
      ∀ j, j < L.length → (L.getD (argminFrom es k best bd) ⟨0, 0⟩).deadline ≤ (L.getD j ⟨0, 0⟩).deadline := by
  intro es
  induction es with
  | nil =>
    intro k best bd hdrop hbest hk hbd hmin
    have hk' : L.length ≤ k := by
      by_contra hc
      have : (L.drop k).length = L.length - k := List.length_drop
      rw [hdrop] at this; simp at this; omega
    simp only [argminFrom]
    refine ⟨by omega, ?_⟩
    intro j hj
    rw [hbd]; exact hmin j (by omega)
  | cons e es ih =>
    intro k best bd hdrop hbest hk hbd hmin
    have hklt : k < L.length := by
      by_contra hc
      have : L.drop k = [] := List.drop_eq_nil_of_le (by omega)
      rw [this] at hdrop; cases hdrop
    have hek : L.getD k ⟨0, 0⟩ = e := by
      have : (L.drop k)[0]? = some e := by rw [hdrop]; rfl
      rw [List.getElem?_drop] at this
      have h2 : L[k]? = some e := by simpa using this
      simp [List.getD_eq_getElem?_getD, h2]
    have hdrop' : L.drop (k + 1) = es := by
      have : L.drop (k + 1) = (L.drop k).drop 1 := by rw [List.drop_drop]
      rw [this, hdrop]; rfl
    simp only [argminFrom, lt_rat]
    by_cases hlt : e.deadline < bd
    · simp only [hlt, decide_true, if_true]
      apply ih (k + 1) k e.deadline hdrop' (by omega) (by omega) (by rw [hek])
      intro j hj
      rcases Nat.lt_or_ge j k with h | h
      · exact le_trans (le_of_lt hlt) (hmin j h)
      · have : j = k := by omega
        subst this; rw [hek]
    · simp only [hlt, decide_false, Bool.false_eq_true, if_false]
      apply ih (k + 1) best bd hdrop' (by omega) (by omega) hbd
      intro j hj
      rcases Nat.lt_or_ge j k with h | h
      · exact hmin j h
      · have : j = k := by omega
        subst this; rw [hek]; exact not_lt.mp hlt

theorem argmin_spec (L : List (Entry ℚ)) (i : Nat) (h : argmin L = some i) :
    i < L.length ∧ ∀ j, j < L.length → (L.getD i ⟨0, 0⟩).deadline ≤ (L.getD j ⟨0, 0⟩).deadline := by
  cases L with
  | nil => cases h
  | cons e es =>
    simp only [argmin, Option.some.injEq] at h
    subst h
    apply argminFrom_spec (e :: es) es 1 0 e.deadline rfl (by omega) (by simp) rfl
    intro j hj
    have : j = 0 := by omega
    subst this; rfl

theorem argmin_some (L : List (Entry ℚ)) (hne : L ≠ []) : ∃ i, argmin L = some i := by
  cases L with
  | nil => exact absurd rfl hne
  | cons e es => exact ⟨_, rfl⟩

/-! ### the invariant -/

/-- the state after the picks `is`: every entry's deadline is (count + 1) / weight -/
structure Inv (ws : List Nat) (s : EDFState ℚ) (is : List Nat) : Prop where
  len : s.items.length = ws.length
  entry : ∀ i, i < ws.length →
    (s.items.getD i ⟨0, 0⟩).weight = ws.getD i 0 ∧
    (s.items.getD i ⟨0, 0⟩).deadline = ((is.count i : ℕ) + 1 : ℚ) / (ws.getD i 0 : ℚ)
  range : ∀ i ∈ is, i < ws.length
  prop : ∀ i j, i < ws.length → j < ws.length →
    is.count i * ws.getD j 0 ≤ (is.count j + 1) * ws.getD i 0

theorem period_rat (w : Nat) : (period w : ℚ) = 1 / (w : ℚ) := by
  unfold period; rw [div_rat, ofNat_rat, ofNat_rat]; norm_num

theorem ofWeights_snoc (ws : List Nat) (w : Nat) :
    (EDFState.ofWeights (ws ++ [w]) : EDFState ℚ) = (EDFState.ofWeights ws).add w := by
  simp [EDFState.ofWeights, List.foldl_append]

theorem ofWeights_state (ws : List Nat) :
    (EDFState.ofWeights ws : EDFState ℚ).currentTime = 0 ∧
    (EDFState.ofWeights ws : EDFState ℚ).items = ws.map (fun w => ⟨1 / (w : ℚ), w⟩) := by
  induction ws using List.reverseRecOn with
  | nil => exact ⟨rfl, rfl⟩
  | append_singleton ws w ih =>
    rw [ofWeights_snoc]
    refine ⟨by simp [EDFState.add, ih.1], ?_⟩
    simp only [EDFState.add, ih.1, ih.2, add_rat, period_rat, List.map_append, List.map_cons, List.map_nil]
    simp

theorem inv_init (ws : List Nat) (hpos : ∀ w ∈ ws, 0 < w) : Inv ws (EDFState.ofWeights ws) [] := by
  obtain ⟨_, hitems⟩ := ofWeights_state ws
  refine ⟨by rw [hitems]; simp, ?_, (by intro i hi; cases hi), ?_⟩
  · intro i hi
    rw [hitems]
    simp [List.getD_eq_getElem?_getD, List.getElem?_map, List.getElem?_eq_getElem hi]
  · intro i j _ hj
    simp

theorem count_snoc (is : List Nat) (i j : Nat) :
    (is ++ [i]).count j = is.count j + (if i = j then 1 else 0) := by
  rw [List.count_append]
  by_cases h : i = j
  · subst h; simp
  · simp [h]

theorem getD_set_entry (L : List (Entry ℚ)) (i j : Nat) (e : Entry ℚ) (hi : i < L.length) :
    (L.set i e).getD j ⟨0, 0⟩ = if j = i then e else L.getD j ⟨0, 0⟩ := by
  by_cases h : j = i
  · subst h; simp [List.getD_eq_getElem?_getD, hi]
  · have h' : ¬ i = j := fun e => h e.symm
    simp [List.getD_eq_getElem?_getD, List.getElem?_set, h, h']

theorem inv_next (ws : List Nat) (hpos : ∀ w ∈ ws, 0 < w) (hne : ws ≠ []) (s : EDFState ℚ) (is : List Nat)
    (h : Inv ws s is) : ∃ i, (s.next).2 = some i ∧ Inv ws (s.next).1 (is ++ [i]) := by
  have hLne : s.items ≠ [] := by
    intro hc; have := h.len; rw [hc] at this; simp at this
    exact hne (List.length_eq_zero_iff.mp this.symm)
  obtain ⟨i, hi⟩ := argmin_some s.items hLne
  obtain ⟨hilt, hmin⟩ := argmin_spec s.items i hi
  have hilt' : i < ws.length := by rw [← h.len]; exact hilt
  have hget : s.items[i]? = some (s.items.getD i ⟨0, 0⟩) := by
    simp [List.getD_eq_getElem?_getD, List.getElem?_eq_getElem hilt]
  have hwpos : ∀ j, j < ws.length → (0 : ℚ) < (ws.getD j 0 : ℚ) := by
    intro j hj
    have : ws.getD j 0 ∈ ws := by
      simp [List.getD_eq_getElem?_getD, List.getElem?_eq_getElem hj]
    exact_mod_cast hpos _ this
  generalize he : s.items.getD i ⟨0, 0⟩ = e at *
  have hew : e.weight = ws.getD i 0 := by rw [← he]; exact (h.entry i hilt').1
  have hed : e.deadline = ((is.count i : ℕ) + 1 : ℚ) / (ws.getD i 0 : ℚ) := by rw [← he]; exact (h.entry i hilt').2
  have hnext' : s.next = (EDFState.mk (s.items.set i (Entry.mk (e.deadline + 1 / (e.weight : ℚ)) e.weight)) e.deadline, some i) := by
    unfold EDFState.next
    rw [hi]
    simp only [hget, add_rat, period_rat]
  refine ⟨i, by rw [hnext'], ?_⟩
  rw [hnext']
  simp only
  -- deadlines as cross-multiplied naturals
  have hdl : ∀ j, j < ws.length →
      (is.count i + 1) * ws.getD j 0 ≤ (is.count j + 1) * ws.getD i 0 := by
    intro j hj
    have := hmin j (by rw [h.len]; exact hj)
    rw [hed, (h.entry j hj).2, div_le_div_iff₀ (hwpos i hilt') (hwpos j hj)] at this
    exact_mod_cast this
  refine ⟨by simp [h.len], ?_, ?_, ?_⟩
  · intro j hj
    simp only
    rw [getD_set_entry _ _ _ _ hilt, count_snoc]
    by_cases hji : j = i
    · subst hji
      simp only [if_true]
      refine ⟨hew, ?_⟩
      rw [hed, hew]
      have := hwpos j hj
      field_simp
      push_cast; ring
    · have : ¬ i = j := fun e => hji e.symm
      simp only [hji, if_false, this, Nat.add_zero]
      exact h.entry j hj
  · intro j hj
    rcases List.mem_append.mp hj with h1 | h1
    · exact h.range j h1
    · simp at h1; rw [h1]; exact hilt'
  · intro a b ha hb
    rw [count_snoc, count_snoc]
    by_cases hai : i = a
    · subst hai
      by_cases hbi : i = b
      · subst hbi; simp only [if_true]
        have := Nat.zero_le (ws.getD i 0); nlinarith
      · simp only [if_true, hbi, if_false, Nat.add_zero]
        exact hdl b hb
    · by_cases hbi : i = b
      · subst hbi
        simp only [hai, if_false, if_true, Nat.add_zero]
        have := h.prop a i ha hb
        have := Nat.zero_le (ws.getD a 0); nlinarith
      · simp only [hai, hbi, if_false, Nat.add_zero]
        exact h.prop a b ha hb

theorem run_succ_some (s s2 : EDFState ℚ) (k i : Nat) (h : (s.run k).1.next = (s2, some i)) :
    s.run (k + 1) = (s2, (s.run k).2 ++ [i]) := by
  simp [EDFState.run, h]

theorem inv_run (ws : List Nat) (hpos : ∀ w ∈ ws, 0 < w) (hne : ws ≠ []) (k : Nat) :
    Inv ws ((EDFState.ofWeights ws : EDFState ℚ).run k).1 ((EDFState.ofWeights ws : EDFState ℚ).run k).2 ∧
    ((EDFState.ofWeights ws : EDFState ℚ).run k).2.length = k := by
  induction k with
  | zero => exact ⟨inv_init ws hpos, rfl⟩
  | succ k ih =>
    obtain ⟨i, hi, hinv⟩ := inv_next ws hpos hne _ _ ih.1
    have hn : ((EDFState.ofWeights ws : EDFState ℚ).run k).1.next =
        ((((EDFState.ofWeights ws : EDFState ℚ).run k).1.next).1, some i) := by
      rw [← hi]
    rw [run_succ_some _ _ k i hn]
    exact ⟨hinv, by simp [ih.2]⟩

/-! ### whole cycles -/

theorem sum_count (n : Nat) (is : List Nat) (h : ∀ i ∈ is, i < n) :
    ∑ i ∈ Finset.range n, is.count i = is.length := by
  induction is with
  | nil => simp
  | cons a is ih =>
    have ha : a < n := h a List.mem_cons_self
    have ih' := ih (fun i hi => h i (List.mem_cons_of_mem _ hi))
    simp only [List.count_cons, List.length_cons]
    rw [Finset.sum_add_distrib, ih']
    congr 1
    rw [Finset.sum_eq_single a]
    · simp
    · intro b _ hb; simp [Ne.symm hb]
    · intro hc; exact absurd (Finset.mem_range.mpr ha) hc

/-- proportionality + a total of m·Σw picks force exactly m·w_i picks of every item -/
theorem cycle_exact (ws : List Nat) (c : Nat → Nat) (m : Nat) (hpos : ∀ i, i < ws.length → 0 < ws.getD i 0)
    (hprop : ∀ i j, i < ws.length → j < ws.length → c i * ws.getD j 0 ≤ (c j + 1) * ws.getD i 0)
    (hsum : ∑ i ∈ Finset.range ws.length, c i = m * ∑ i ∈ Finset.range ws.length, ws.getD i 0) :
    ∀ i, i < ws.length → c i = m * ws.getD i 0 := by
  intro i hi
  rw [Finset.mul_sum] at hsum
  rcases Nat.lt_trichotomy (c i) (m * ws.getD i 0) with hlt | heq | hgt
  · -- then every c j ≤ m w_j, strictly at i
    exfalso
    have hall : ∀ j ∈ Finset.range ws.length, c j ≤ m * ws.getD j 0 := by
      intro j hj
      have hj' := Finset.mem_range.mp hj
      have h1 := hprop j i hj' hi
      have hwi := hpos i hi
      by_contra hc
      have : m * ws.getD j 0 + 1 ≤ c j := by omega
      have : (m * ws.getD j 0 + 1) * ws.getD i 0 ≤ c j * ws.getD i 0 := Nat.mul_le_mul_right _ this
      have : (c i + 1) * ws.getD j 0 ≤ m * ws.getD i 0 * ws.getD j 0 := Nat.mul_le_mul_right _ (by omega)
      nlinarith
    have := Finset.sum_lt_sum hall ⟨i, Finset.mem_range.mpr hi, hlt⟩
    omega
  · exact heq
  · exfalso
    have hall : ∀ j ∈ Finset.range ws.length, m * ws.getD j 0 ≤ c j := by
      intro j hj
      have hj' := Finset.mem_range.mp hj
      have h1 := hprop i j hi hj'
      have hwi := hpos i hi
      by_contra hc
      have : c j + 1 ≤ m * ws.getD j 0 := by omega
      have : (c j + 1) * ws.getD i 0 ≤ m * ws.getD j 0 * ws.getD i 0 := Nat.mul_le_mul_right _ this
      have : (m * ws.getD i 0 + 1) * ws.getD j 0 ≤ c i * ws.getD j 0 := Nat.mul_le_mul_right _ (by omega)
      have hwj : 0 < ws.getD j 0 := hpos j hj'
      nlinarith
    have := Finset.sum_lt_sum hall ⟨i, Finset.mem_range.mpr hi, hgt⟩
    omega

theorem sum_getD (ws : List Nat) : ∑ i ∈ Finset.range ws.length, ws.getD i 0 = ws.sum := by
  induction ws using List.reverseRecOn with
  | nil => simp
  | append_singleton ws w ih =>
    simp only [List.length_append, List.length_singleton, Finset.sum_range_succ, List.sum_append,
      List.sum_singleton]
    have : ∀ i ∈ Finset.range ws.length, (ws ++ [w]).getD i 0 = ws.getD i 0 := by
      intro i hi
      have := Finset.mem_range.mp hi
      simp [List.getD_eq_getElem?_getD, List.getElem?_append_left this]
    rw [Finset.sum_congr rfl this, ih]
    simp [List.getD_eq_getElem?_getD]

end GrpcProofs.Lemmas.EDF
